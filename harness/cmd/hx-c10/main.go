// hx-c10: correspondence harness and property monitor for C10 (formats/varint).
package main

import (
	"bytes"
	"errors"
	"fmt"
	"strconv"
	"strings"
	"sync"

	"github.com/safing/portbase/formats/varint"

	"verifharness/hxlib"
)

type exec struct{}

func errClass(err error) string {
	switch {
	case errors.Is(err, varint.ErrBufTooSmall):
		return "err small"
	case strings.Contains(err.Error(), "greater than"):
		return "err large"
	case strings.Contains(err.Error(), "not enough data"):
		return "err nodata"
	}
	return "err other:" + err.Error()
}

func (exec) Do(line string) string {
	f := strings.Fields(line)
	if len(f) != 2 {
		return "bad-op"
	}
	switch f[0] {
	case "conc": // implementation only: conc <goroutines>:<iterations>:<seed>
		var n, iters int
		var seed uint64
		if _, err := fmt.Sscanf(f[1], "%d:%d:%d", &n, &iters, &seed); err != nil || n < 1 || n > 64 {
			return "bad-op"
		}
		return concurrentPackers(n, iters, seed)
	case "p8", "p16", "p32", "p64", "es":
		n, err := strconv.ParseUint(f[1], 10, 64)
		if err != nil {
			return "bad-op"
		}
		switch f[0] {
		case "p8":
			return hxlib.Hex(varint.Pack8(uint8(n)))
		case "p16":
			return hxlib.Hex(varint.Pack16(uint16(n)))
		case "p32":
			return hxlib.Hex(varint.Pack32(uint32(n)))
		case "p64":
			return hxlib.Hex(varint.Pack64(n))
		default:
			return strconv.Itoa(varint.EncodedSize(n))
		}
	case "u8", "u16", "u32", "u64":
		b := window(hxlib.UnHex(f[1]))
		var v uint64
		var n int
		var err error
		switch f[0] {
		case "u8":
			var x uint8
			x, n, err = varint.Unpack8(b)
			v = uint64(x)
		case "u16":
			var x uint16
			x, n, err = varint.Unpack16(b)
			v = uint64(x)
		case "u32":
			var x uint32
			x, n, err = varint.Unpack32(b)
			v = uint64(x)
		default:
			v, n, err = varint.Unpack64(b)
		}
		if err != nil {
			return errClass(err)
		}
		return fmt.Sprintf("ok %d %d", v, n)
	case "pl":
		return hxlib.Hex(varint.PrependLength(hxlib.UnHex(f[1])))
	case "gnb":
		blk, tot, err := varint.GetNextBlock(window(hxlib.UnHex(f[1])))
		if err != nil {
			return errClass(err)
		}
		return fmt.Sprintf("ok %s %d", hxlib.Hex(blk), tot)
	}
	return "bad-op"
}

// concurrentPackers: the functions of the package are pure in the model (no state shared between calls). n
// goroutines pack values of their own (every width, PrependLength) in a tight loop, compare each result with the
// reference encoder and decode their own output. Returns "ok" or the first failure.
func concurrentPackers(n, iters int, seed uint64) string {
	var wg sync.WaitGroup
	start := make(chan struct{})
	fails := make(chan string, n)
	for g := 0; g < n; g++ {
		wg.Add(1)
		go func(g int) {
			defer wg.Done()
			defer func() {
				if r := recover(); r != nil {
					fails <- fmt.Sprintf("PANIC g=%d: %v", g, r)
				}
			}()
			x := seed*0x9E3779B97F4A7C15 + uint64(g)*0xD1B54A32D192ED03 + 1
			data := bytes.Repeat([]byte{byte(g)}, g*29%200)
			<-start
			for it := 0; it < iters; it++ {
				x ^= x << 13
				x ^= x >> 7
				x ^= x << 17
				v := x >> (uint(g*11+it) % 64) // every encoded length occurs in every goroutine
				var got []byte
				var back uint64
				var k int
				var err error
				switch it % 4 {
				case 0:
					v &= 0xffff
					got = varint.Pack16(uint16(v))
					var b uint16
					b, k, err = varint.Unpack16(got)
					back = uint64(b)
				case 1:
					v &= 0xffffffff
					got = varint.Pack32(uint32(v))
					var b uint32
					b, k, err = varint.Unpack32(got)
					back = uint64(b)
				case 2:
					got = varint.Pack64(v)
					back, k, err = varint.Unpack64(got)
				default:
					pl := varint.PrependLength(data)
					blk, tot, e := varint.GetNextBlock(pl)
					if e != nil || tot != len(pl) || !bytes.Equal(blk, data) || !bytes.Equal(pl[:len(pl)-len(data)], refPut(uint64(len(data)))) {
						fails <- fmt.Sprintf("FAIL g=%d iter=%d PrependLength(%d bytes) = %s…, GetNextBlock of it: %d bytes, total %d, err %v", g, it, len(data), hxlib.Hex(pl[:min(len(pl), 12)]), len(blk), tot, e)
						return
					}
					continue
				}
				if want := refPut(v); !bytes.Equal(got, want) {
					fails <- fmt.Sprintf("FAIL g=%d iter=%d Pack(%d) = %s, the shortest standard base-128 form is %s", g, it, v, hxlib.Hex(got), hxlib.Hex(want))
					return
				}
				if err != nil || back != v || k != len(got) {
					fails <- fmt.Sprintf("FAIL g=%d iter=%d Unpack(Pack(%d)) = %d, %d, %v", g, it, v, back, k, err)
					return
				}
			}
		}(g)
	}
	close(start)
	wg.Wait()
	close(fails)
	for f := range fails {
		return f
	}
	return "ok"
}

// meaning is the plain base-128 little-endian value of a complete varint (continuation bit on all but the
// last byte); ok is false if it is not a complete varint or does not fit a uint64.
func meaning(b []byte) (uint64, bool) {
	var x uint64
	for i, c := range b {
		last := i == len(b)-1
		if (c&0x80 != 0) == last {
			return 0, false
		}
		if i > 9 || (i == 9 && c&0x7f > 1) {
			return 0, false
		}
		x |= uint64(c&0x7f) << (7 * uint(i))
	}
	return x, len(b) > 0
}

// refPut is an independent reference encoder: base-128, least significant group first, continuation bit on
// all but the last byte, no padding.
func refPut(n uint64) []byte {
	var out []byte
	for n >= 0x80 {
		out = append(out, byte(n)|0x80)
		n >>= 7
	}
	return append(out, byte(n))
}

// window returns the input as a window into a larger buffer (spare capacity filled with plausible bytes),
// so that code which looks beyond len(input) is observable: "consuming only bytes present in the input".
func window(in []byte) []byte {
	buf := make([]byte, len(in), len(in)+24)
	copy(buf, in)
	spare := buf[len(in):cap(buf)]
	for i := range spare {
		spare[i] = byte(i + 1)
	}
	return buf
}

var widthMax = map[string]uint64{"8": 1<<8 - 1, "16": 1<<16 - 1, "32": 1<<32 - 1, "64": 1<<64 - 1}

// monitor: the property statement read literally on implementation outputs.
func monitor(c hxlib.Case, outs []string) (vs []hxlib.Violation) {
	add := func(i int, sig, what string) {
		lo := i - 1
		if lo < 0 {
			lo = 0
		}
		vs = append(vs, hxlib.Violation{Sig: sig, What: what, Lines: c.Lines[lo : i+1], Output: outs[lo : i+1]})
	}
	for i, l := range c.Lines {
		f := strings.Fields(l)
		o := outs[i]
		if strings.HasPrefix(o, "PANIC") {
			add(i, "C10:panic:"+f[0], "panic: "+o)
			continue
		}
		switch f[0] {
		case "conc":
			if o != "ok" {
				add(i, "C10:concurrent-callers", o)
			}
		case "p8", "p16", "p32", "p64":
			// "the packed form is the shortest standard base-128 varint": there is exactly one such form
			n, _ := strconv.ParseUint(f[1], 10, 64)
			if want := hxlib.Hex(refPut(n)); o != want {
				add(i, "C10:not-standard-form:"+f[0], fmt.Sprintf("Pack(%d) = %s, the shortest standard base-128 form is %s", n, o, want))
			}
		case "pl":
			d := hxlib.UnHex(f[1])
			if want := hxlib.Hex(append(refPut(uint64(len(d))), d...)); o != want {
				add(i, "C10:prepend-length", fmt.Sprintf("PrependLength(%s) = %s, want %s", f[1], o, want))
			}
		case "u8", "u16", "u32", "u64":
			in := hxlib.UnHex(f[1])
			if strings.HasPrefix(o, "ok ") {
				of := strings.Fields(o)
				v, _ := strconv.ParseUint(of[1], 10, 64)
				k, _ := strconv.Atoi(of[2])
				w := f[0][1:]
				if k <= 0 || k > len(in) {
					add(i, "C10:count-out-of-range:"+f[0], fmt.Sprintf("reported count %d not in 1..%d", k, len(in)))
				}
				if v > widthMax[w] {
					add(i, "C10:value-exceeds-width:"+f[0], "value exceeds width")
				}
				// "never wrong values": the result must be the base-128 meaning of exactly the consumed bytes
				if k > 0 && k <= len(in) {
					if want, ok := meaning(in[:k]); !ok || want != v {
						add(i, "C10:wrong-value:"+f[0], fmt.Sprintf("consumed bytes %s mean %d (fits uint64: %v) but %d was returned", hxlib.Hex(in[:k]), want, ok, v))
					}
				}
				// round trip: if the previous line packed a number with the same width and this input starts with that packed form
				if i > 0 {
					pf := strings.Fields(c.Lines[i-1])
					if pf[0] == "p"+w && strings.HasPrefix(f[1], outs[i-1]) && outs[i-1] != "-" {
						want := fmt.Sprintf("ok %s %d", pf[1], len(outs[i-1])/2)
						if o != want {
							add(i, "C10:roundtrip:"+f[0], fmt.Sprintf("unpack(pack(%s)++rest) = %q, want %q", pf[1], o, want))
						}
					}
				}
			} else if i > 0 {
				pf := strings.Fields(c.Lines[i-1])
				if pf[0] == "p"+f[0][1:] && strings.HasPrefix(f[1], outs[i-1]) && outs[i-1] != "-" {
					add(i, "C10:roundtrip:"+f[0], fmt.Sprintf("unpack(pack(%s)++rest) = %q", pf[1], o))
				}
			}
		case "es":
			if i > 0 {
				pf := strings.Fields(c.Lines[i-1])
				if pf[0] == "p64" && pf[1] == f[1] && o != strconv.Itoa(len(outs[i-1])/2) {
					add(i, "C10:encoded-size", fmt.Sprintf("EncodedSize(%s)=%s but packed length is %d", f[1], o, len(outs[i-1])/2))
				}
			}
		case "gnb":
			in := hxlib.UnHex(f[1])
			if strings.HasPrefix(o, "ok ") {
				of := strings.Fields(o)
				blk := hxlib.UnHex(of[1])
				tot, _ := strconv.Atoi(of[2])
				if tot < 0 || tot > len(in) || len(blk) > tot {
					add(i, "C10:block-out-of-range", fmt.Sprintf("total %d, block %d bytes, input %d bytes", tot, len(blk), len(in)))
				} else if string(in[tot-len(blk):tot]) != string(blk) {
					add(i, "C10:block-wrong-bytes", "block is not the bytes directly before the reported end")
				}
			}
			// round trip: GetNextBlock(PrependLength(d) ++ rest) must return exactly d — any other outcome,
			// including an error, violates the statement
			if i > 0 {
				pf := strings.Fields(c.Lines[i-1])
				if pf[0] == "pl" && strings.HasPrefix(f[1], outs[i-1]) {
					dl := len(hxlib.UnHex(pf[1]))
					want := fmt.Sprintf("ok %s %d", pf[1], dl+len(varint.Pack64(uint64(dl))))
					if o != want {
						add(i, "C10:block-roundtrip", fmt.Sprintf("GetNextBlock(PrependLength(%s)++rest) = %q, want %q", pf[1], o, want))
					}
				}
			}
		}
	}
	return vs
}

func generate(r *hxlib.Run, emit func(hxlib.Case)) {
	var cur []string
	nontriv := false
	kind := ""
	flush := func() {
		if len(cur) > 0 {
			emit(hxlib.Case{Lines: cur, NonTrivial: nontriv, Kind: kind})
			cur, nontriv = nil, false
		}
	}
	// pairs are kept within one case so the monitor can relate them
	group := func(k string, nt bool, lines ...string) {
		if kind != k || len(cur)+len(lines) > 64 {
			flush()
		}
		kind = k
		cur = append(cur, lines...)
		nontriv = nontriv || nt
	}
	junk := func() string {
		n := r.Rng.Intn(4)
		b := make([]byte, n)
		r.Rng.Read(b)
		if n == 0 {
			return ""
		}
		return hxlib.Hex(b)
	}
	pu := func(k, w string, n uint64) {
		var packed []byte
		switch w {
		case "8":
			packed = varint.Pack8(uint8(n))
		case "16":
			packed = varint.Pack16(uint16(n))
		case "32":
			packed = varint.Pack32(uint32(n))
		default:
			packed = varint.Pack64(n)
		}
		h := hxlib.Hex(packed)
		ns := strconv.FormatUint(n, 10)
		lines := []string{"p" + w + " " + ns, "u" + w + " " + h + junk()}
		if w == "64" {
			lines = append(lines, "p64 "+ns, "es "+ns)
		}
		// every truncation of the encoding
		for j := 0; j < len(packed); j++ {
			lines = append(lines, "u"+w+" "+hxlib.Hex(packed[:j]))
		}
		group(k, len(packed) >= 2, lines...)
		r.Count(fmt.Sprintf("enc-len:%d", len(packed)))
	}
	// (a) all values of the narrow widths
	for n := uint64(0); n < 1<<8; n++ {
		pu("all-u8", "8", n)
	}
	for n := uint64(0); n < 1<<16; n++ {
		if !r.Thorough && n > 600 && n < 65000 && n%7 != 0 && (n < 16300 || n > 16500) {
			continue // quick: all boundaries and every 7th value; thorough: all 2^16
		}
		pu("all-u16", "16", n)
	}
	// cross-width: values too large for the width
	for _, n := range []uint64{256, 257, 300, 16383, 16384, 65535, 65536, 1 << 20, 1<<32 - 1, 1 << 32, 1<<32 + 1, 1 << 40, 1<<63 - 1, 1 << 63, 1<<64 - 1} {
		h := hxlib.Hex(varint.Pack64(n))
		group("too-large", true, "u8 "+h, "u16 "+h, "u32 "+h, "u64 "+h)
	}
	// (b) boundaries of every 7-bit group, both widths, then random
	for k := uint(1); k <= 9; k++ {
		for d := int64(-2); d <= 2; d++ {
			n := uint64(int64(uint64(1)<<(7*k)) + d)
			pu("boundary", "64", n)
			if n < 1<<32 {
				pu("boundary", "32", n)
			}
		}
	}
	for _, n := range []uint64{0, 1, 1<<32 - 2, 1<<32 - 1, 1 << 32, 1<<63 - 1, 1 << 63, 1<<63 + 1, 1<<64 - 2, 1<<64 - 1} {
		pu("boundary", "64", n)
		if n < 1<<32 {
			pu("boundary", "32", n)
		}
	}
	for i := 0; i < r.Budget(30000, 2000000); i++ {
		bits := uint(r.Rng.Intn(64) + 1)
		n := r.Rng.Uint64() >> (64 - bits)
		pu("random", "64", n)
		if n < 1<<32 {
			pu("random", "32", n)
		}
	}
	// (c) every byte string up to length 2 (quick) / 3 (thorough) through every decoder
	maxLen := 2
	if r.Thorough {
		maxLen = 3
	}
	var rec func(prefix []byte)
	all := func(b []byte) {
		h := hxlib.Hex(b)
		group("exhaustive-bytes", len(b) >= 2, "u8 "+h, "u16 "+h, "u32 "+h, "u64 "+h, "gnb "+h)
	}
	rec = func(prefix []byte) {
		all(prefix)
		if len(prefix) == maxLen {
			return
		}
		for x := 0; x < 256; x++ {
			rec(append(append([]byte{}, prefix...), byte(x)))
		}
	}
	rec(nil)
	// (d) structured: over-long encodings, length prefixes at the boundaries
	for l := 9; l <= 12; l++ {
		for _, last := range []byte{0, 1, 2, 0x7f, 0x80, 0xff} {
			b := make([]byte, l)
			for i := range b {
				b[i] = 0x80 | byte(r.Rng.Intn(128))
			}
			b[l-1] = last
			h := hxlib.Hex(b)
			group("overlong", true, "u8 "+h, "u16 "+h, "u32 "+h, "u64 "+h, "gnb "+h)
		}
	}
	for _, dl := range []int{0, 1, 2, 5, 16, 130, 300} {
		data := make([]byte, dl)
		r.Rng.Read(data)
		group("block", true, "pl "+hxlib.Hex(data), "gnb "+hxlib.Hex(varint.PrependLength(data))+junk())
		for _, decl := range []uint64{0, 1, uint64(dl) - 1, uint64(dl), uint64(dl) + 1, uint64(dl) + 2, 127, 128, 1<<31 - 1, 1 << 31, 1<<31 + 1, 1<<32 - 1, 1 << 32,
			1<<63 - 11, 1<<63 - 10, 1<<63 - 9, 1<<63 - 2, 1<<63 - 1, 1 << 63, 1<<63 + 1, 1<<64 - 11, 1<<64 - 10, 1<<64 - 2, 1<<64 - 1} {
			b := append(varint.Pack64(decl), data...)
			group("block-declared", true, "gnb "+hxlib.Hex(b))
			r.Count("declared-vs-available:" + cmp(decl, uint64(dl)))
		}
	}
	for i := 0; i < r.Budget(20000, 1000000); i++ {
		n := r.Rng.Intn(14)
		b := make([]byte, n)
		r.Rng.Read(b)
		if n > 0 && r.Rng.Intn(2) == 0 {
			b[0] = byte(r.Rng.Intn(n + 3)) // plausible small length prefix
		}
		h := hxlib.Hex(b)
		group("random-bytes", n >= 2, "u8 "+h, "u16 "+h, "u32 "+h, "u64 "+h, "gnb "+h)
	}
	flush()
	// (e) concurrent callers (implementation only): the model's functions are pure, i.e. no state is shared
	// between calls; goroutines pack values of their own and check every result
	for i := 0; i < r.Budget(6, 40); i++ {
		emit(hxlib.Case{Lines: []string{fmt.Sprintf("conc %d:%d:%d", []int{2, 4, 8, 16, 32}[r.Rng.Intn(5)], r.Budget(40000, 400000), r.Rng.Intn(1000))},
			NonTrivial: true, Kind: "concurrent-callers", NoModel: true})
	}
}

func cmp(a, b uint64) string {
	switch {
	case a < b:
		return "less"
	case a == b:
		return "equal"
	}
	return "more"
}

func main() {
	hxlib.Main(&hxlib.Harness{
		Prop:     "C10",
		Rule:     "cases are groups of ≤64 varint-package calls: pack/unpack pairs with random trailing bytes and every truncation for all 2^8 values, 2^16 values (thorough: all; quick: boundaries + every 7th), every 7-bit-group boundary ±2 and seeded random 32/64-bit values; every byte string of length ≤2 (quick) / ≤3 (thorough) through all four Unpack* and GetNextBlock; over-long encodings; length prefixes at all boundary values up to 2^64-1. Concurrent callers (implementation only): 2–32 goroutines pack values of their own with every Pack*/PrependLength, compare with the reference encoder and decode their own output — the model's functions are pure, this stream ties the absence of state shared between calls. A case is non-trivial if it contains a multi-byte encoding or an error outcome; distinct by the hash of its op lines.",
		Generate: generate,
		NewExec:  func(*hxlib.Run) hxlib.Exec { return exec{} },
		Monitor:  monitor,
	})
}
