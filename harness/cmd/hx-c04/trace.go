package main

// Controlled scheduler for the concurrent part of C04.
//
// Every thread of a scenario is a goroutine running one call of the real config package; exactly one
// of them runs at a time. The verif hook sink parks the running goroutine at the hooked points of the
// getter refresh path and of the setters, so the interleaving of the atomic steps is chosen by the
// harness (from r.Rng when recording, from the recorded lines when replaying) instead of by the Go
// scheduler. No hooked park point is inside a critical section, except that a getter call parks while
// holding its own closure mutex — which the scheduler models (a call on a closure is only started when
// no other call on it is in progress).
//
// Trace lines (impl output is always "ok" when the real code produced exactly this event next,
// "diverged …" otherwise; the Lean acceptor answers "ok" / "reject <reason>"):
//   tstart | tend
//   tmk <cid> <key> <fb> <p|c>         closure created (sequentially)
//   tcall <tid> set|setd <key> <val>   thread created, call not yet started
//   tcall <tid> rep|repd <k=v>…
//   tcall <tid> get <cid>              getter call begins (waits for the closure)
//   tw <tid> [<key>]                   layer write done (option lock released)
//   tinv <tid> <flag>  tins <tid> <flag>
//   tacq <tid>  tstale <tid>  tflag <tid> <flag>  tval <tid>
//   tret <tid> <result…>

import (
	"fmt"
	"strconv"
	"strings"
	"time"

	"github.com/safing/portbase/config"
)

type tevent struct {
	line string // the trace line this event corresponds to ("" = park without a line)
	done bool
}

type tthread struct {
	id      int
	resume  chan struct{}
	report  chan tevent // events produced while running; the last one of a slice has park=true
	parkSig chan bool   // true = finished
	queue   []string
	started bool
	done    bool
	cid     int // getter: closure id, else -1
	run     func(t *tthread) string
}

type tclosure struct {
	call   func() string
	holder int // thread id running a call, -1 = free
}

type tracer struct {
	threads map[int]*tthread
	cls     map[int]*tclosure
	flags   map[any]int
	nflags  int
	cur     *tthread
	aborted bool
	hung    bool
}

func newTracer() *tracer {
	tr := &tracer{threads: map[int]*tthread{}, cls: map[int]*tclosure{}, flags: map[any]int{}}
	tr.flags[config.VerifCurrentFlag()] = 0
	tr.nflags = 1
	config.VerifSetSink(tr.sink)
	return tr
}

func (tr *tracer) flagID(p any, fresh bool) int {
	if id, ok := tr.flags[p]; ok {
		return id
	}
	id := tr.nflags
	if !fresh {
		id = 1000 + tr.nflags // a flag object nobody installed
	}
	tr.flags[p] = id
	tr.nflags++
	return id
}

// sink runs in the goroutine of the currently running thread.
func (tr *tracer) sink(point string, args ...any) {
	t := tr.cur
	if t == nil {
		return // sequential part of a case
	}
	park := func(line string) {
		t.queueAdd(line)
		t.parkSig <- false
		<-t.resume
		if tr.aborted {
			panic(abortTrace{})
		}
	}
	switch point {
	case "set:written":
		park(fmt.Sprintf("tw %d", t.id))
	case "replace:written":
		park(fmt.Sprintf("tw %d %v", t.id, args[0]))
	case "signal:begin":
	case "signal:invalidated":
		t.queueAdd(fmt.Sprintf("tinv %d %d", t.id, tr.flagID(args[0], false)))
	case "signal:installed":
		t.queueAdd(fmt.Sprintf("tins %d %d", t.id, tr.flagID(args[0], true)))
	case "signal:end":
		park("")
	case "getter:stale":
		park(fmt.Sprintf("tstale %d", t.id))
	case "getter:flag":
		park(fmt.Sprintf("tflag %d %d", t.id, tr.flagID(args[1], false)))
	case "getter:value":
		park(fmt.Sprintf("tval %d", t.id))
	}
}

type abortTrace struct{}

func (t *tthread) queueAdd(line string) {
	if line != "" {
		t.queue = append(t.queue, line)
	}
}

// spawn creates the goroutine of a thread; it does nothing until first resumed.
func (tr *tracer) spawn(id, cid int, run func(t *tthread) string) *tthread {
	t := &tthread{id: id, cid: cid, resume: make(chan struct{}), parkSig: make(chan bool), run: run}
	tr.threads[id] = t
	go func() {
		defer func() {
			if x := recover(); x != nil {
				if _, ok := x.(abortTrace); !ok {
					processPoisoned = true
					t.queueAdd(fmt.Sprintf("tret %d PANIC %v", t.id, strings.SplitN(fmt.Sprint(x), "\n", 2)[0]))
				}
			}
			t.done = true
			t.parkSig <- true
		}()
		<-t.resume
		if tr.aborted {
			panic(abortTrace{})
		}
		res := t.run(t)
		t.queueAdd(fmt.Sprintf("tret %d %s", t.id, res))
	}()
	return t
}

// enabled: the thread can make a step without blocking on something a parked thread holds.
func (tr *tracer) enabled(t *tthread) bool {
	if t.done && len(t.queue) == 0 {
		return false
	}
	if len(t.queue) > 0 || t.started {
		return true
	}
	if t.cid >= 0 {
		c := tr.cls[t.cid]
		return c != nil && c.holder < 0
	}
	return true
}

// advance lets thread t run until it has produced at least one event line (or finished).
func (tr *tracer) advance(t *tthread) {
	for len(t.queue) == 0 && !t.done {
		if !t.started {
			t.started = true
			if t.cid >= 0 {
				tr.cls[t.cid].holder = t.id
				t.queueAdd(fmt.Sprintf("tacq %d", t.id))
			}
		}
		tr.cur = t
		t.resume <- struct{}{}
		var fin bool
		select {
		case fin = <-t.parkSig:
		case <-time.After(opTimeout):
			// the thread blocks inside the config package on something no running thread will release
			tr.cur = nil
			tr.hung = true
			processPoisoned = true
			t.done = true
			t.queueAdd(fmt.Sprintf("tret %d HANG", t.id))
			return
		}
		tr.cur = nil
		if fin && t.cid >= 0 {
			tr.cls[t.cid].holder = -1
		}
	}
}

// next pops the next event line of thread t (running it if needed).
func (tr *tracer) next(t *tthread) string {
	tr.advance(t)
	if len(t.queue) == 0 {
		return ""
	}
	l := t.queue[0]
	t.queue = t.queue[1:]
	return l
}

// abort releases all parked goroutines (they unwind with a panic that is swallowed).
func (tr *tracer) abort() {
	tr.aborted = true
	for _, t := range tr.threads {
		for !t.done && !tr.hung {
			tr.cur = t
			t.resume <- struct{}{}
			<-t.parkSig
		}
	}
	tr.cur = nil
	config.VerifSetSink(nil)
}

// runnable returns the ids of the enabled threads, sorted.
func (tr *tracer) runnable() []int {
	var ids []int
	for id, t := range tr.threads {
		if tr.enabled(t) {
			ids = append(ids, id)
		}
	}
	sortInts(ids)
	return ids
}

func sortInts(a []int) {
	for i := 1; i < len(a); i++ {
		for j := i; j > 0 && a[j] < a[j-1]; j-- {
			a[j], a[j-1] = a[j-1], a[j]
		}
	}
}

// pendingOwner: a thread that still has queued event lines must be continued first (its events already
// happened; nothing else ran in between).
func (tr *tracer) pendingOwner() *tthread {
	for _, t := range tr.threads {
		if len(t.queue) > 0 {
			return t
		}
	}
	return nil
}

// doTrace executes / replays one trace line on the real code.
func (e *exec) doTrace(ws []string) string {
	switch ws[0] {
	case "tstart":
		if e.tr != nil {
			e.tr.abort()
		}
		e.tr = newTracer()
		return "ok"
	case "tend":
		if e.tr == nil {
			return "bad-op"
		}
		left := 0
		for _, t := range e.tr.threads {
			if !t.done || len(t.queue) > 0 {
				left++
			}
		}
		e.tr.abort()
		e.tr = nil
		if left > 0 {
			return fmt.Sprintf("diverged %d threads unfinished", left)
		}
		return "ok"
	}
	tr := e.tr
	if tr == nil || len(ws) < 2 {
		return "bad-op"
	}
	switch ws[0] {
	case "tmk":
		if len(ws) != 5 {
			return "bad-op"
		}
		cid, err := strconv.Atoi(ws[1])
		fb, ok := parseGVal(ws[3])
		if err != nil || !ok {
			return "bad-op"
		}
		tr.cls[cid] = &tclosure{call: makeGetter(ws[4] == "c", ws[2], fb), holder: -1}
		return "ok"
	case "tcall":
		if len(ws) < 3 || (len(ws) < 4 && ws[2] != "rep" && ws[2] != "repd") {
			return "bad-op"
		}
		tid, err := strconv.Atoi(ws[1])
		if err != nil || tr.threads[tid] != nil {
			return "bad-op"
		}
		switch ws[2] {
		case "set", "setd":
			if len(ws) != 5 {
				return "bad-op"
			}
			v, ok := decodeVal(ws[4])
			if !ok {
				return "bad-op"
			}
			key, user := ws[3], ws[2] == "set"
			tr.spawn(tid, -1, func(*tthread) string {
				if user {
					return errClass(config.SetConfigOption(key, v))
				}
				return errClass(config.SetDefaultConfigOption(key, v))
			})
		case "rep", "repd":
			m, ok := parseKVs(ws[3:])
			if !ok {
				return "bad-op"
			}
			user := ws[2] == "rep"
			tr.spawn(tid, -1, func(*tthread) string {
				if user {
					es, _ := config.ReplaceConfig(m)
					return errsLine("errs", es)
				}
				es, _ := config.ReplaceDefaultConfig(m)
				return errsLine("errs", es)
			})
		case "get":
			cid, err := strconv.Atoi(ws[3])
			if err != nil || tr.cls[cid] == nil {
				return "bad-op"
			}
			c := tr.cls[cid]
			tr.spawn(tid, cid, func(*tthread) string { return c.call() })
		default:
			return "bad-op"
		}
		return "ok"
	}
	// an event line of thread ws[1]
	tid, err := strconv.Atoi(ws[1])
	if err != nil || tr.threads[tid] == nil {
		return "bad-op"
	}
	t := tr.threads[tid]
	if o := tr.pendingOwner(); o != nil && o != t {
		return fmt.Sprintf("diverged thread %d has unreported events", o.id)
	}
	if !tr.enabled(t) {
		return "diverged thread not enabled"
	}
	got := tr.next(t)
	want := strings.Join(ws, " ")
	if got != want {
		return "diverged " + got
	}
	return "ok"
}
