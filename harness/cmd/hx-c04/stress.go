package main

// Free-running stress of the hand-over (implementation only, real Go scheduler, -race in the thorough
// tier): setters write strictly increasing integers, getters on plain closures (one owner each) and on
// shared Concurrent closures must never return a value older than the last set that had returned when
// the getter call began, nor one that was not yet being written. No timing assumptions.

import (
	"fmt"
	"strconv"
	"strings"
	"sync"
	"sync/atomic"

	"github.com/safing/portbase/config"

	"verifharness/hxlib"
)

var stressCalls, stressSets int64

func stressCase(r *hxlib.Run, i int) hxlib.Case {
	n := r.Budget(300, 3000)
	return hxlib.Case{Lines: []string{fmt.Sprintf("stress %d %d %d", r.Rng.Int63n(1<<30), i%3, n)}, Kind: "stress", NoModel: true, NonTrivial: true}
}

func runStress(seed int64, mode, nsets int, file string) string {
	const K = 3
	const G = 4
	config.VerifSetSink(nil)
	if seed%2 == 0 {
		// with persistence: every successful SetConfigOption also saves (concurrent SaveConfig calls)
		config.VerifReset(file)
	} else {
		config.VerifReset("")
	}
	keys := make([]string, K)
	for k := 0; k < K; k++ {
		keys[k] = "s" + strconv.Itoa(k)
		if err := config.Register(&config.Option{Name: keys[k], Key: keys[k], Description: "d", OptType: config.OptTypeInt, DefaultValue: 0,
			ReleaseLevel: config.ReleaseLevel(k % 2)}); err != nil {
			return "err register " + err.Error()
		}
	}
	if err := config.SetConfigOption("core/releaseLevel", "beta"); err != nil {
		return "err rl " + err.Error()
	}
	var started, returned [K]int64
	var done int32
	var bad atomic.Value
	shared := make([]config.IntOption, K)
	for k := range shared {
		shared[k] = config.Concurrent.GetAsInt(keys[k], -1)
	}
	var wg, swg sync.WaitGroup
	set := func(k int, v int64) {
		atomic.StoreInt64(&started[k], v)
		var err error
		switch mode {
		case 0:
			err = config.SetConfigOption(keys[k], v)
		default:
			err = config.SetDefaultConfigOption(keys[k], v)
		}
		if err != nil {
			bad.Store("set failed: " + err.Error())
		}
		atomic.StoreInt64(&returned[k], v)
		atomic.AddInt64(&stressSets, 1)
	}
	switch mode {
	case 0, 1:
		for k := 0; k < K; k++ {
			swg.Add(1)
			go func(k int) {
				defer swg.Done()
				for v := int64(1); v <= int64(nsets); v++ {
					set(k, v)
				}
			}(k)
		}
	default: // one goroutine replaces the whole user layer
		swg.Add(1)
		go func() {
			defer swg.Done()
			for v := int64(1); v <= int64(nsets); v++ {
				m := map[string]interface{}{"core/releaseLevel": "beta"}
				for k := 0; k < K; k++ {
					atomic.StoreInt64(&started[k], v)
					m[keys[k]] = v
				}
				if es, _ := config.ReplaceConfig(m); len(es) > 0 {
					bad.Store("replace reported errors")
				}
				for k := 0; k < K; k++ {
					atomic.StoreInt64(&returned[k], v)
				}
				atomic.AddInt64(&stressSets, 1)
			}
		}()
	}
	for g := 0; g < G; g++ {
		wg.Add(1)
		go func(g int) {
			defer wg.Done()
			own := make([]config.IntOption, K)
			for k := range own {
				own[k] = config.GetAsInt(keys[k], -1)
			}
			x := uint64(seed) + uint64(g)*7919
			for atomic.LoadInt32(&done) == 0 {
				x = x*6364136223846793005 + 1442695040888963407
				k := int(x>>33) % K
				getter := own[k]
				which := "plain"
				if (x>>40)&1 == 1 {
					getter, which = shared[k], "concurrent"
				}
				lo := atomic.LoadInt64(&returned[k])
				v := getter()
				hi := atomic.LoadInt64(&started[k])
				atomic.AddInt64(&stressCalls, 1)
				if v < lo || v > hi {
					bad.Store(fmt.Sprintf("stale %s getter of %s returned %d, but set(%d) had returned before the call began (newest started %d)", which, keys[k], v, lo, hi))
					return
				}
			}
		}(g)
	}
	swg.Wait()
	atomic.StoreInt32(&done, 1)
	wg.Wait()
	// after everything returned every getter must see the final values
	for k := 0; k < K; k++ {
		if v := shared[k](); v != int64(nsets) {
			bad.Store(fmt.Sprintf("stale final value %d of %s, want %d", v, keys[k], nsets))
		}
	}
	if b, ok := bad.Load().(string); ok {
		return strings.ReplaceAll(b, "\n", " ")
	}
	return "ok"
}
