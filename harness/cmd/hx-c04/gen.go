package main

// Generators for C04: registered option sets, call histories, values of every Go / JSON-decoded type,
// release-level changes in both layers, save/load, perspectives, recorded controlled-schedule traces,
// and implementation-only streams (raw files, keys the persistence layer cannot represent, stress).

import (
	"fmt"
	"math/rand"
	"os"
	"strconv"
	"strings"

	"verifharness/hxlib"
)

type gopt struct {
	key string
	ty  byte
	rl  int
	rx  int
	pvs string // token list or "-" / "e"
	vf  int
	mg  int
	def string // Val token
}

func (o *gopt) spec() *optSpec {
	s := &optSpec{key: o.key, ty: o.ty, rl: o.rl, rx: o.rx, vf: o.vf, mg: o.mg}
	switch o.pvs {
	case "-":
	case "e":
		s.hasPVs = true
	default:
		s.hasPVs = true
		s.pvs = strings.Split(o.pvs, ";")
	}
	return s
}

func (o *gopt) regLine() string {
	return fmt.Sprintf("reg %s %c %d %d %s %d %d %s", o.key, o.ty, o.rl, o.rx, o.pvs, o.vf, o.mg, o.def)
}

var cleanKeys = []string{"a", "b", "c", "d", "x/y", "x/z", "p/q/r", "p/q/s", "core/x", "core/log/level", "m/n", "zebras/zebra", "elephant"}

var strPool = []string{"a", "b", "c", "ab", "abc", "abx", "cd", "cdx", "x", "old", "new", "yes", "no", "stable", "beta", "experimental",
	"", "ABC", "abcdef", "1", "12", "-5", "a b", "é", "<&>", "\"q\"", "l\nb", "1e+06", "bad", "aaaa", "ccba"}

var intPool = []int64{0, 1, 2, 3, -1, 7, 10, 100, 101, 127, 128, -128, -129, 200, 255, 256, 456, 999, 1000, -999, -1000, 32767, 32768, 65535, 65536,
	999999, 1000000, 1234567, 1 << 24, 1<<24 + 1, 1<<31 - 1, 1 << 31, -(1 << 31), 1<<32 - 1, 1 << 32, 1<<53 - 1, 1 << 53, -(1 << 53), 2000000, 100000}

var strPVsets = []string{"a;b", "a;b;ab", "stable;beta", "x", "old;new;yes", "abc;cdx;a"}
var intPVsets = []string{"1;2;3", "456", "0;100;1000000", "-1;7", "2;200;2000000", "65"}

func pvTokens(ty byte, set string) string {
	parts := strings.Split(set, ";")
	for i, p := range parts {
		switch ty {
		case 's', 'a':
			parts[i] = "s:" + hexS(p)
		case 'i':
			parts[i] = "i:" + p
		}
	}
	return strings.Join(parts, ";")
}

func pick[T any](rng *rand.Rand, l []T) T { return l[rng.Intn(len(l))] }

func kindFits(kind string, n int64) bool {
	switch kind {
	case "int", "i64":
		return true
	case "i8":
		return n >= -128 && n < 128
	case "i16":
		return n >= -32768 && n < 32768
	case "i32":
		return n >= -(1<<31) && n < 1<<31
	case "uint":
		return n >= 0
	case "u8":
		return n >= 0 && n < 256
	case "u16":
		return n >= 0 && n < 65536
	case "u32":
		return n >= 0 && n < 1<<32
	}
	return false
}

// intTok renders the integer n as a value of a random Go / JSON numeric type that can hold it exactly.
func intTok(rng *rand.Rand, n int64) string {
	for {
		switch rng.Intn(5) {
		case 0, 1:
			k := pick(rng, intKinds)
			if kindFits(k, n) {
				return fmt.Sprintf("i:%s:%d", k, n)
			}
		case 2, 3:
			if n >= -(1<<53) && n <= 1<<53 {
				return "f:64:" + strconv.FormatInt(n, 10)
			}
		case 4:
			if n >= -(1<<24) && n <= 1<<24 {
				return "f:32:" + strconv.FormatInt(n, 10)
			}
		}
	}
}

func strsTok(rng *rand.Rand, l []string) string {
	hs := make([]string, len(l))
	switch rng.Intn(3) {
	case 0:
		for i, e := range l {
			hs[i] = "s:" + hexS(e)
		}
		return "l:" + strings.Join(hs, ";")
	default:
		if len(l) == 0 && rng.Intn(3) == 0 {
			return "A:"
		}
		for i, e := range l {
			hs[i] = hexS(e)
		}
		return "a:" + strings.Join(hs, ",")
	}
}

// anyTok: a value of any kind, regardless of the option.
func anyTok(rng *rand.Rand) string {
	switch rng.Intn(16) {
	case 0:
		return "s:" + hexS(pick(rng, strPool))
	case 1:
		n := rng.Intn(4)
		l := make([]string, n)
		for i := range l {
			l[i] = pick(rng, strPool)
		}
		return strsTok(rng, l)
	case 2:
		n := rng.Intn(4)
		es := make([]string, n)
		for i := range es {
			if rng.Intn(3) == 0 {
				es[i] = "x:" + pick(rng, []string{"int", "bool", "nil", "float", "list", "map"})
			} else {
				es[i] = "s:" + hexS(pick(rng, strPool))
			}
		}
		return "l:" + strings.Join(es, ";")
	case 3, 4, 5:
		return intTok(rng, pick(rng, intPool))
	case 6:
		w := pick(rng, []string{"32", "64"})
		m := rng.Intn(3000)
		s := ""
		if rng.Intn(2) == 0 {
			s = "-"
		}
		return fmt.Sprintf("f:%s:%s%d.5", w, s, m)
	case 7:
		return pick(rng, []string{"f:64:-0", "f:32:-0"})
	case 8, 9:
		return pick(rng, []string{"b:0", "b:1"})
	case 10:
		return "u64:" + strconv.Itoa(pick(rng, []int{0, 1, 5, 456, 1000000}))
	case 11:
		return "y:" + hexS(pick(rng, []string{"a", "ab", "stable", ""}))
	case 12:
		return "o:" + pick(rng, []string{"map", "struct", "ints", "c128", "ptr"})
	case 13:
		return "A:"
	case 14:
		return "n"
	default:
		return "s:" + hexS(pick(rng, strPool))
	}
}

// likelyValidTok: a value aimed at the option's type and validators (not guaranteed valid).
func likelyValidTok(rng *rand.Rand, o *gopt) string {
	pv := func() []string {
		if o.pvs == "-" || o.pvs == "e" {
			return nil
		}
		var out []string
		for _, p := range strings.Split(o.pvs, ";") {
			_, rest, _ := cut(p, ':')
			out = append(out, rest)
		}
		return out
	}()
	ty := o.ty
	if o.mg == 2 && rng.Intn(3) == 0 {
		return pick(rng, []string{"b:0", "b:1"})
	}
	switch ty {
	case 's':
		if pv != nil && rng.Intn(4) != 0 {
			return "s:" + pick(rng, pv)
		}
		return "s:" + hexS(pick(rng, strPool))
	case 'a':
		n := rng.Intn(5)
		l := make([]string, n)
		for i := range l {
			if pv != nil && rng.Intn(5) != 0 {
				l[i] = unhexS(pick(rng, pv))
			} else {
				l[i] = pick(rng, strPool)
			}
		}
		return strsTok(rng, l)
	case 'i':
		if pv != nil && rng.Intn(4) != 0 {
			n, _ := strconv.ParseInt(pick(rng, pv), 10, 64)
			return intTok(rng, n)
		}
		return intTok(rng, pick(rng, intPool))
	default:
		return pick(rng, []string{"b:0", "b:1"})
	}
}

func valTok(rng *rand.Rand, o *gopt) string {
	if rng.Intn(100) < 70 {
		return likelyValidTok(rng, o)
	}
	return anyTok(rng)
}

func fbTok(rng *rand.Rand, ty byte) string {
	switch ty {
	case 's':
		return "s:" + hexS(pick(rng, []string{"fb", "", "none"}))
	case 'a':
		return pick(rng, []string{"a:", "a:" + hexS("fb"), "a:" + hexS("f") + "," + hexS("b")})
	case 'i':
		return "i:" + strconv.Itoa(pick(rng, []int{-1, 0, 42}))
	default:
		return pick(rng, []string{"b:0", "b:1"})
	}
}

// newOpt draws an option with validators and a default that the oracle accepts.
func newOpt(r *hxlib.Run, key string) *gopt {
	rng := r.Rng
	for try := 0; ; try++ {
		o := &gopt{key: key, ty: pick(rng, []byte{'s', 'a', 'i', 'b'}), pvs: "-"}
		o.rl = pick(rng, []int{0, 0, 0, 1, 1, 2})
		if try < 20 {
			if rng.Intn(4) == 0 && o.ty != 'b' {
				switch o.ty {
				case 'i':
					o.rx = pick(rng, []int{2, 3})
				default:
					o.rx = 1 + rng.Intn(6)
				}
			}
			if rng.Intn(4) == 0 {
				switch o.ty {
				case 's', 'a':
					o.pvs = pvTokens(o.ty, pick(rng, strPVsets))
				case 'i':
					o.pvs = pvTokens('i', pick(rng, intPVsets))
				case 'b':
					o.pvs = pick(rng, []string{"b:1", "b:0;b:1"})
				}
				if o.ty == 'a' && rng.Intn(6) == 0 {
					o.pvs = "e"
				}
			}
			if rng.Intn(4) == 0 {
				o.vf = 1 + rng.Intn(2)
				if rng.Intn(12) == 0 {
					o.vf = 3
				}
			}
			if o.ty == 's' && rng.Intn(6) == 0 {
				o.mg = 1 + rng.Intn(2)
			}
		}
		probe := o.spec()
		probe.mg = 0
		for k := 0; k < 12; k++ {
			o.def = likelyValidTok(rng, o)
			if strings.HasPrefix(o.def, "A:") || strings.HasPrefix(o.def, "b:") && o.ty != 'b' {
				continue
			}
			v, _ := decodeVal(o.def)
			if verdict, _, _ := judge(probe, v); verdict == vValid {
				r.Count(fmt.Sprintf("opt:type=%c", o.ty))
				r.Count(fmt.Sprintf("opt:rl=%d", o.rl))
				r.Count(fmt.Sprintf("opt:validators:rx=%v,pvs=%v,vf=%v,mg=%v", o.rx != 0, o.pvs != "-", o.vf != 0, o.mg != 0))
				return o
			}
		}
	}
}

type cgen struct {
	r     *hxlib.Run
	rng   *rand.Rand
	opts  []*gopt
	lines []string
	ncl   int
	nvf   int // config.ValidityFlag objects created so far
	npers int
	nset  int
	nget  int
}

func (g *cgen) add(l string) { g.lines = append(g.lines, l) }

func (g *cgen) setup(persist bool, nopts int, keys []string) {
	g.add(map[bool]string{true: "init 1", false: "init 0"}[persist])
	perm := g.rng.Perm(len(keys))
	for i := 0; i < nopts && i < len(keys); i++ {
		o := newOpt(g.r, keys[perm[i]])
		g.opts = append(g.opts, o)
		g.add(o.regLine())
	}
}

var rlOpt = &gopt{key: rlKey, ty: 's', pvs: pvTokens('s', "stable;beta;experimental"), def: "s:" + hexS("stable")}

func (g *cgen) anyKey() (string, *gopt) {
	switch g.rng.Intn(20) {
	case 0:
		return "unknown/key", nil
	case 1, 2:
		return rlKey, rlOpt
	case 3:
		return "core/expertiseLevel", &gopt{key: "core/expertiseLevel", ty: 's', pvs: pvTokens('s', "user;expert;developer")}
	}
	o := pick(g.rng, g.opts)
	return o.key, o
}

func (g *cgen) kvs(file bool) string {
	var items []string
	seen := map[string]bool{}
	n := g.rng.Intn(len(g.opts) + 2)
	for i := 0; i < n; i++ {
		k, o := g.anyKey()
		if seen[k] {
			continue
		}
		seen[k] = true
		var v string
		if o == nil {
			v = anyTok(g.rng)
		} else {
			v = valTok(g.rng, o)
		}
		if file {
			v = jsonable(g.rng, v)
		}
		g.r.Count("entry-val:" + valKind(v))
		items = append(items, k+"="+v)
	}
	return strings.Join(items, " ")
}

// jsonable maps a value token to one that can stand in a JSON file (what encoding/json would decode).
func jsonable(rng *rand.Rand, tok string) string {
	tag, rest, _ := cut(tok, ':')
	switch tag {
	case "i":
		_, n, _ := cut(rest, ':')
		return "f:64:" + n
	case "u64":
		return "f:64:" + rest
	case "f":
		_, x, _ := cut(rest, ':')
		return "f:64:" + x
	case "a":
		if rest == "" {
			return "l:"
		}
		hs := strings.Split(rest, ",")
		for i := range hs {
			hs[i] = "s:" + hs[i]
		}
		return "l:" + strings.Join(hs, ";")
	case "A", "y", "o":
		return "n"
	case "l":
		if strings.Contains(rest, "x:") {
			// only JSON-able non-string entries
			es := strings.Split(rest, ";")
			for i, e := range es {
				if strings.HasPrefix(e, "x:") {
					es[i] = "x:" + pick(rng, []string{"int", "bool", "nil", "float", "list", "map"})
				}
			}
			return "l:" + strings.Join(es, ";")
		}
	}
	return tok
}

func (g *cgen) rlVal() string {
	if g.rng.Intn(8) == 0 {
		return pick(g.rng, []string{"s:" + hexS("alpha"), "i:int:1", "n", "b:1"})
	}
	return "s:" + hexS(pick(g.rng, []string{"stable", "beta", "experimental"}))
}

func (g *cgen) step() {
	rng := g.rng
	cnt := func(op string) { g.r.Count("op:" + op) }
	x := rng.Intn(130)
	switch {
	case x < 26:
		k, o := g.anyKey()
		v := anyTok(rng)
		if o != nil {
			v = valTok(rng, o)
		}
		op := "set"
		if rng.Intn(4) == 0 {
			op = "setd"
		}
		g.r.Count("set-val:" + valKind(v))
		cnt(op)
		g.nset++
		g.add(op + " " + k + " " + v)
	case x < 36:
		op := pick(rng, []string{"set", "set", "setd"})
		cnt(op + ":release-level")
		g.add(op + " " + rlKey + " " + g.rlVal())
	case x < 42:
		cnt("rep")
		g.add(strings.TrimSpace("rep " + g.kvs(false)))
	case x < 46:
		cnt("repd")
		g.add(strings.TrimSpace("repd " + g.kvs(false)))
	case x < 64:
		k, o := g.anyKey()
		ty := pick(rng, []byte{'s', 'a', 'i', 'b'})
		if o != nil && rng.Intn(8) != 0 {
			ty = o.ty
		}
		op := pick(rng, []string{"get", "get", "cget"})
		cnt(op)
		g.nget++
		g.add(op + " " + k + " " + fbTok(rng, ty))
	case x < 69:
		k, o := g.anyKey()
		ty := pick(rng, []byte{'s', 'a', 'i', 'b'})
		if o != nil && rng.Intn(8) != 0 {
			ty = o.ty
		}
		g.ncl++
		cnt("mk")
		g.add(fmt.Sprintf("mk %d %s %s %s", g.ncl, pick(rng, []string{"p", "c"}), k, fbTok(rng, ty)))
	case x < 81:
		if g.ncl == 0 {
			return
		}
		cnt("call")
		g.nget++
		g.add(fmt.Sprintf("call %d", 1+rng.Intn(g.ncl)))
	case x < 84:
		// config.ValidityFlag objects: created (invalid), refreshed, asked
		switch y := rng.Intn(10); {
		case g.nvf == 0 || y == 0:
			g.nvf++
			cnt("vfnew")
			g.add(fmt.Sprintf("vfnew %d", g.nvf))
		case y < 4:
			cnt("vfrefresh")
			g.add(fmt.Sprintf("vfrefresh %d", 1+rng.Intn(g.nvf)))
		default:
			cnt("vfvalid")
			g.add(fmt.Sprintf("vfvalid %d", 1+rng.Intn(g.nvf)))
		}
	case x < 88:
		k, _ := g.anyKey()
		cnt("uv")
		g.add("uv " + k)
	case x < 91:
		k, _ := g.anyKey()
		cnt("exp")
		g.add("exp " + k)
	case x < 93:
		cnt("active")
		g.add("active")
	case x < 95:
		cnt("save")
		g.add("save")
	case x < 100:
		cnt("load")
		if rng.Intn(4) != 0 {
			g.add("save") // the property's save -> load; without it the load reads whatever the last set left behind
		}
		g.add("load " + pick(rng, []string{"0", "0", "1"}))
	case x < 103:
		cnt("wfile")
		switch rng.Intn(6) {
		case 0:
			g.add("wfile absent")
		case 1:
			g.add("wfile garbage")
		default:
			g.add(strings.TrimSpace("wfile tree " + g.kvs(true)))
		}
	case x < 106:
		cnt("rfile")
		g.add("rfile")
	case x < 109:
		g.npers++
		cnt("persp")
		g.add(strings.TrimSpace(fmt.Sprintf("persp %d %s", g.npers, g.kvs(true))))
	case x < 114:
		if g.npers == 0 {
			return
		}
		k, o := g.anyKey()
		ty := pick(rng, []byte{'s', 'a', 'i', 'b'})
		if o != nil && rng.Intn(6) != 0 {
			ty = o.ty
		}
		if rng.Intn(4) == 0 {
			cnt("phas")
			g.add(fmt.Sprintf("phas %d %s", 1+rng.Intn(g.npers), k))
		} else {
			cnt("pget")
			g.add(fmt.Sprintf("pget %d %s %c", 1+rng.Intn(g.npers), k, ty))
		}
	case x < 117:
		cnt("valc")
		g.add(strings.TrimSpace("valc " + g.kvs(false)))
	case x < 120:
		k, o := g.anyKey()
		v := anyTok(rng)
		if o != nil {
			v = valTok(rng, o)
		}
		cnt("vv")
		g.add("vv " + k + " " + v)
	case x < 123:
		cnt("rlgate")
		g.add("rlgate")
	default:
		// set followed immediately by the getters of that option
		o := pick(rng, g.opts)
		v := valTok(rng, o)
		g.r.Count("set-val:" + valKind(v))
		cnt("set+get")
		g.nset++
		g.nget++
		g.add("set " + o.key + " " + v)
		g.add("get " + o.key + " " + fbTok(rng, o.ty))
	}
}

// sweep observes every option through every observer.
func (g *cgen) sweep() {
	for _, o := range append([]*gopt{rlOpt}, g.opts...) {
		g.add("get " + o.key + " " + fbTok(g.rng, o.ty))
		g.add("uv " + o.key)
		g.add("exp " + o.key)
	}
	for i := 1; i <= g.ncl; i++ {
		g.add(fmt.Sprintf("call %d", i))
	}
	for i := 1; i <= g.nvf; i++ {
		g.add(fmt.Sprintf("vfvalid %d", i))
	}
	g.add("active")
	g.add("rlgate")
}

func historyCase(r *hxlib.Run, kind string) hxlib.Case {
	g := &cgen{r: r, rng: r.Rng}
	g.setup(r.Rng.Intn(10) != 0, 3+r.Rng.Intn(6), cleanKeys)
	n := 15 + r.Rng.Intn(50)
	for i := 0; i < n; i++ {
		g.step()
	}
	g.sweep()
	g.add("save")
	g.add("rfile")
	g.add("load 0")
	g.sweep()
	return hxlib.Case{Lines: g.lines, Kind: kind, NonTrivial: g.nset > 0 && g.nget > 0}
}

// releaseLevelCase: gated options and release-level changes in both layers.
func releaseLevelCase(r *hxlib.Run) hxlib.Case {
	g := &cgen{r: r, rng: r.Rng}
	g.add("init 1")
	for i, k := range []string{"a", "b", "x/y"} {
		o := newOpt(r, k)
		o.rl = []int{1, 2, r.Rng.Intn(3)}[i]
		g.opts = append(g.opts, o)
		g.add(o.regLine())
	}
	for _, o := range g.opts {
		g.add("set " + o.key + " " + likelyValidTok(r.Rng, o))
		g.ncl++
		g.add(fmt.Sprintf("mk %d %s %s %s", g.ncl, pick(r.Rng, []string{"p", "c"}), o.key, fbTok(r.Rng, o.ty)))
	}
	n := 6 + r.Rng.Intn(14)
	for i := 0; i < n; i++ {
		op := pick(r.Rng, []string{"set", "setd"})
		r.Count("op:" + op + ":release-level")
		g.add(op + " " + rlKey + " " + g.rlVal())
		switch r.Rng.Intn(4) {
		case 0:
			g.add(strings.TrimSpace(pick(r.Rng, []string{"rep ", "repd "}) + rlKey + "=" + g.rlVal()))
		case 1:
			o := pick(r.Rng, g.opts)
			g.add("set " + o.key + " " + likelyValidTok(r.Rng, o))
		}
		g.sweep()
	}
	return hxlib.Case{Lines: g.lines, Kind: "release-level", NonTrivial: true}
}

// valueMatrixCase: one option shape, every kind of value once (the "every Go and JSON-decoded type" quantifier).
func valueMatrixCase(r *hxlib.Run, idx int) hxlib.Case {
	rng := r.Rng
	shapes := []gopt{
		{ty: 's', pvs: "-"}, {ty: 's', pvs: "-", rx: 1}, {ty: 's', pvs: pvTokens('s', "a;b;ab")}, {ty: 's', pvs: pvTokens('s', "a;b"), rx: 6}, {ty: 's', pvs: "-", vf: 2},
		{ty: 's', pvs: "-", mg: 1}, {ty: 's', pvs: pvTokens('s', "yes;no;a"), mg: 2},
		{ty: 'a', pvs: "-"}, {ty: 'a', pvs: "-", rx: 1}, {ty: 'a', pvs: pvTokens('a', "a;b;ab")}, {ty: 'a', pvs: "e"}, {ty: 'a', pvs: "-", vf: 2}, {ty: 'a', pvs: pvTokens('a', "a;b"), rx: 5},
		{ty: 'i', pvs: "-"}, {ty: 'i', pvs: "-", rx: 2}, {ty: 'i', pvs: "-", rx: 3}, {ty: 'i', pvs: pvTokens('i', "1;2;3")}, {ty: 'i', pvs: pvTokens('i', "456"), rx: 2},
		{ty: 'i', pvs: pvTokens('i', "0;100;1000000")}, {ty: 'i', pvs: "-", vf: 1}, {ty: 'i', pvs: "-", vf: 2}, {ty: 'i', pvs: pvTokens('i', "65;-1;2000000"), rx: 3},
		{ty: 'b', pvs: "-"}, {ty: 'b', pvs: "b:1"}, {ty: 'b', pvs: "-", vf: 2},
	}
	sh := shapes[idx%len(shapes)]
	o := &sh
	o.key = "k"
	probe := o.spec()
	probe.mg = 0
	for {
		o.def = likelyValidTok(rng, o)
		v, _ := decodeVal(o.def)
		if verdict, _, _ := judge(probe, v); verdict == vValid && !strings.HasPrefix(o.def, "A:") && !(strings.HasPrefix(o.def, "b:") && o.ty != 'b') {
			break
		}
	}
	lines := []string{"init 1", o.regLine()}
	var vals []string
	for _, s := range strPool {
		vals = append(vals, "s:"+hexS(s))
	}
	for _, n := range intPool {
		for _, k := range intKinds {
			if kindFits(k, n) && (rng.Intn(3) == 0 || k == "int") {
				vals = append(vals, fmt.Sprintf("i:%s:%d", k, n))
			}
		}
		if n >= -(1<<53) && n <= 1<<53 {
			vals = append(vals, "f:64:"+strconv.FormatInt(n, 10))
		}
		if n >= -(1<<24) && n <= 1<<24 {
			vals = append(vals, "f:32:"+strconv.FormatInt(n, 10))
		}
	}
	vals = append(vals, "f:64:-0", "f:32:-0", "f:64:2.5", "f:32:-7.5", "f:64:-0.5", "b:0", "b:1", "n", "A:", "a:", "l:", "u64:1", "u64:456", "u64:1000000",
		"y:"+hexS("a"), "y:"+hexS("stable"), "y:-", "o:map", "o:struct", "o:ints", "o:c128", "o:ptr", "l:x:int", "l:s:"+hexS("a")+";x:nil", "l:x:list;s:"+hexS("a"))
	for k := 0; k < 40; k++ {
		vals = append(vals, likelyValidTok(rng, o))
	}
	for _, i := range rng.Perm(len(vals)) {
		v := vals[i]
		r.Count("set-val:" + valKind(v))
		op := "set"
		if rng.Intn(5) == 0 {
			op = "setd"
		}
		lines = append(lines, op+" k "+v, "get k "+fbTok(rng, o.ty), "uv k")
		if rng.Intn(6) == 0 {
			lines = append(lines, "save", "rfile", "load 0", "uv k", "get k "+fbTok(rng, o.ty))
		}
	}
	return hxlib.Case{Lines: lines, Kind: "value-matrix", NonTrivial: true}
}

// implOnlyCase: inputs outside the model (raw file contents, keys the file hierarchy cannot represent):
// the monitor still applies; the model is not consulted.
func implOnlyCase(r *hxlib.Run) hxlib.Case {
	rng := r.Rng
	g := &cgen{r: r, rng: rng}
	switch rng.Intn(3) {
	case 0: // raw files
		g.setup(true, 3+rng.Intn(3), cleanKeys)
		raws := []string{`null`, `[]`, `3`, `"x"`, `{`, ``, `{"a":`, `{"a":{"b":1},"a":2}`, `{"a":1e400}`, `{"core":{"releaseLevel":null}}`, `{"core":null}`,
			`{"a":{"":1}}`, `{"a/b":1}`, `{"x":{"y":{"z":{"w":1}}}}`, "{\"a\":\"\\ud800\"}", `{"a":[1,[2],{"k":1}]}`, `{"a":12345678901234567890}`, `{"core":{"releaseLevel":"beta"},"x":{"y":true}}`}
		for i := 0; i < 4; i++ {
			g.add("wraw " + hxlib.Hex([]byte(pick(rng, raws))))
			g.add("load " + pick(rng, []string{"0", "1"}))
			for _, o := range g.opts {
				g.add("get " + o.key + " " + fbTok(rng, o.ty))
				g.add("uv " + o.key)
			}
			g.add("set " + g.opts[0].key + " " + likelyValidTok(rng, g.opts[0]))
			g.add("rfile")
		}
		return hxlib.Case{Lines: g.lines, Kind: "impl-only:raw-file", NoModel: true, NonTrivial: true}
	case 1: // a key that is a path prefix of another key
		g.setup(true, 4, []string{"k", "k/sub", "k/sub/leaf", "m", "m/n/o", "z"})
		r.Count("keys:prefix-conflict")
	default: // unclean keys
		g.setup(true, 4, []string{"u//v", "/lead", "trail/", "./dot", "up/../x", "k/./s", "plain", "sp ace"})
		// "sp ace" cannot travel through the line protocol; drop it
		var keep []*gopt
		var lines []string
		for _, l := range g.lines {
			if !strings.Contains(l, "sp ace") {
				lines = append(lines, l)
			}
		}
		for _, o := range g.opts {
			if o.key != "sp ace" {
				keep = append(keep, o)
			}
		}
		g.lines, g.opts = lines, keep
		r.Count("keys:unclean")
	}
	for _, o := range g.opts {
		g.add("set " + o.key + " " + likelyValidTok(rng, o))
		g.add("uv " + o.key)
	}
	g.add("save")
	g.add("rfile")
	g.add("load 0")
	for _, o := range g.opts {
		g.add("uv " + o.key)
		g.add("get " + o.key + " " + fbTok(rng, o.ty))
	}
	return hxlib.Case{Lines: g.lines, Kind: "impl-only:keys", NoModel: true, NonTrivial: true}
}

// traceCase runs a controlled-schedule scenario on the real code and records it; the recorded outputs are
// played back to hxlib (the scenario is executed exactly once: the map iteration order of ReplaceConfig
// makes a second execution take a different path).
func traceCase(r *hxlib.Run) hxlib.Case {
	rng := r.Rng
	e := newRealExec(r)
	defer e.Close()
	var lines, outs []string
	do := func(l string) string {
		lines = append(lines, l)
		o := e.Do(l)
		outs = append(outs, o)
		return o
	}
	g := &cgen{r: r, rng: rng}
	g.setup(rng.Intn(4) != 0, 2+rng.Intn(3), cleanKeys)
	g.opts[0].rl = 1 + rng.Intn(2) // at least one gated option
	g.lines[1] = g.opts[0].regLine()
	for _, l := range g.lines {
		do(l)
	}
	for _, o := range g.opts {
		if rng.Intn(2) == 0 {
			do("set " + o.key + " " + likelyValidTok(rng, o))
		}
	}
	if rng.Intn(2) == 0 {
		do("set " + rlKey + " " + "s:" + hexS(pick(rng, []string{"beta", "experimental"})))
	}
	do("tstart")
	// one focus option: most closures read it and most setters write it (or the release level, if it is gated),
	// so that several getter calls on the same closure surround the same setter calls
	focus := g.opts[rng.Intn(len(g.opts))]
	if rng.Intn(3) == 0 {
		focus = g.opts[0] // the gated one
	}
	ncl := 1 + rng.Intn(3)
	for c := 1; c <= ncl; c++ {
		o := focus
		if rng.Intn(4) == 0 {
			o = pick(rng, g.opts)
		}
		key, ty := o.key, o.ty
		if rng.Intn(10) == 0 {
			key, ty = rlKey, 's'
		}
		do(fmt.Sprintf("tmk %d %s %s %s", c, key, fbTok(rng, ty), pick(rng, []string{"p", "c", "c"})))
	}
	ncalls := 4 + rng.Intn(9)
	started := 0
	tid := 0
	tr := e.tr
	newCall := func() string {
		tid++
		target := focus
		if rng.Intn(4) == 0 {
			target = pick(rng, g.opts)
		}
		switch x := rng.Intn(20); {
		case x < 10:
			r.Count("trace-call:get")
			return fmt.Sprintf("tcall %d get %d", tid, 1+rng.Intn(ncl))
		case x < 14:
			v := likelyValidTok(rng, target)
			if rng.Intn(8) == 0 {
				v = pick(rng, []string{"n", "o:map", "b:1", "s:" + hexS("zzz"), "i:int:5"})
			}
			op := pick(rng, []string{"set", "set", "setd"})
			r.Count("trace-call:" + op)
			return fmt.Sprintf("tcall %d %s %s %s", tid, op, target.key, v)
		case x < 16:
			op := pick(rng, []string{"set", "setd"})
			r.Count("trace-call:" + op + ":release-level")
			return fmt.Sprintf("tcall %d %s %s s:%s", tid, op, rlKey, hexS(pick(rng, []string{"stable", "beta", "experimental"})))
		default:
			op := pick(rng, []string{"rep", "repd"})
			r.Count("trace-call:" + op)
			var items []string
			for _, o := range g.opts {
				if o == target || rng.Intn(3) != 0 {
					v := likelyValidTok(rng, o)
					if strings.HasPrefix(v, "u64") {
						continue
					}
					items = append(items, o.key+"="+v)
				}
			}
			if rng.Intn(3) == 0 {
				items = append(items, rlKey+"=s:"+hexS(pick(rng, []string{"stable", "beta", "experimental"})))
			}
			return strings.TrimSpace(fmt.Sprintf("tcall %d %s %s", tid, op, strings.Join(items, " ")))
		}
	}
	steps := 0
	for {
		if o := tr.pendingOwner(); o != nil {
			lines = append(lines, tr.next(o))
			outs = append(outs, "ok")
			continue
		}
		run := tr.runnable()
		if started < ncalls && (len(run) == 0 || rng.Intn(4) == 0) {
			l := newCall()
			do(l)
			started++
			// a getter call mostly starts running right after it began (otherwise nearly all calls of a scenario
			// would have "begun" before the first setter returns and could legally return old values)
			if strings.Contains(l, " get ") && rng.Intn(4) != 0 {
				if t := tr.threads[tid]; tr.enabled(t) {
					if l2 := tr.next(t); l2 != "" {
						lines = append(lines, l2)
						outs = append(outs, "ok")
						steps++
					}
				}
			}
			continue
		}
		if len(run) == 0 {
			break
		}
		t := tr.threads[run[rng.Intn(len(run))]]
		l := tr.next(t)
		if l == "" {
			continue
		}
		lines = append(lines, l)
		outs = append(outs, "ok")
		steps++
	}
	r.Count(fmt.Sprintf("trace:events=%d-%d", steps/10*10, steps/10*10+9))
	do("tend")
	for _, o := range append([]*gopt{rlOpt}, g.opts...) {
		do("get " + o.key + " " + fbTok(rng, o.ty))
		do("uv " + o.key)
	}
	do("rfile")
	do("rlgate")
	playback = outs
	if f := os.Getenv("C04_DUMP_TRACES"); f != "" { // debugging aid
		if fh, err := os.OpenFile(f, os.O_APPEND|os.O_CREATE|os.O_WRONLY, 0o644); err == nil {
			fmt.Fprintln(fh, strings.Join(lines, "\n")+"\n#")
			fh.Close()
		}
	}
	return hxlib.Case{Lines: lines, Kind: "trace", NonTrivial: steps > 4}
}
