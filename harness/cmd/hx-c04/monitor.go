package main

// Monitor: the statement of C04 read literally on the implementation's outputs. It keeps its own
// shadow of what the history of calls must have produced (which values were set in which layer,
// what was saved) and a small declarative validity oracle (type fits, regex matches, value is one
// of the allowed values, validation function accepts). It never looks at the Lean model.

import (
	"fmt"
	"math"
	"regexp"
	"sort"
	"strconv"
	"strings"

	"verifharness/hxlib"
)

const rlKey = "core/releaseLevel"

type optSpec struct {
	key    string
	ty     byte
	rl     int
	rx     int
	hasPVs bool
	pvs    []string // canonical gval tokens of the allowed values (s:…, i:…, b:…)
	vf, mg int
	def    string // canonical token of the registered default
}

const (
	vValid = iota
	vInvalid
	vDontCare
)

var compiledCatalogue = func() map[int]*regexp.Regexp {
	m := map[int]*regexp.Regexp{}
	for i, p := range regexCatalogue {
		m[i] = regexp.MustCompile(p)
	}
	return m
}()

// judge: is `v` a value the option must accept? Returns the verdict, the value a getter must hand out
// afterwards, and (for invalid) which of the four requirements it violates.
func judge(o *optSpec, v any) (verdict int, canon string, reason string) {
	for _, m := range migrationFuncs(o.mg) {
		v = m(nil, v)
	}
	var c gval
	verdict = vValid
	switch o.ty {
	case 's':
		s, ok := v.(string)
		if !ok {
			return vInvalid, "", "type"
		}
		c = gval{ty: 's', s: s}
	case 'a':
		switch l := v.(type) {
		case []string:
			c = gval{ty: 'a', a: append([]string{}, l...)}
		case []interface{}:
			c = gval{ty: 'a', a: []string{}}
			for _, e := range l {
				s, ok := e.(string)
				if !ok {
					return vInvalid, "", "type"
				}
				c.a = append(c.a, s)
			}
		default:
			return vInvalid, "", "type"
		}
	case 'i':
		c.ty = 'i'
		switch n := v.(type) {
		case int:
			c.i = int64(n)
		case int8:
			c.i = int64(n)
		case int16:
			c.i = int64(n)
		case int32:
			c.i = int64(n)
		case int64:
			c.i = n
		case uint:
			if n > math.MaxInt64 {
				verdict = vDontCare
			}
			c.i = int64(n)
		case uint8:
			c.i = int64(n)
		case uint16:
			c.i = int64(n)
		case uint32:
			c.i = int64(n)
		case uint64, uintptr:
			// the property does not say whether these Go types "fit" an int option
			verdict = vDontCare
			if u, ok := n.(uint64); ok {
				c.i = int64(u)
			} else {
				c.i = int64(n.(uintptr))
			}
		case float32:
			f := float64(n)
			if f != math.Trunc(f) || math.IsInf(f, 0) || math.IsNaN(f) {
				return vInvalid, "", "type"
			}
			if math.Abs(f) > 1<<53 {
				verdict = vDontCare
			}
			c.i = int64(f)
		case float64:
			if n != math.Trunc(n) || math.IsInf(n, 0) || math.IsNaN(n) {
				return vInvalid, "", "type"
			}
			if math.Abs(n) > 1<<53 {
				verdict = vDontCare
			}
			c.i = int64(n)
		default:
			return vInvalid, "", "type"
		}
	case 'b':
		b, ok := v.(bool)
		if !ok {
			return vInvalid, "", "type"
		}
		c = gval{ty: 'b', b: b}
	}
	// regular expression (explicit ValidationRegex): strings, every entry, the decimal form of an integer
	if re := compiledCatalogue[o.rx]; re != nil {
		switch o.ty {
		case 's':
			if !re.MatchString(c.s) {
				return vInvalid, "", "regex"
			}
		case 'a':
			for _, e := range c.a {
				if !re.MatchString(e) {
					return vInvalid, "", "regex"
				}
			}
		case 'i':
			if !re.MatchString(strconv.FormatInt(c.i, 10)) {
				return vInvalid, "", "regex"
			}
		}
	}
	// allowed values
	if o.hasPVs {
		in := func(tok string) bool {
			for _, p := range o.pvs {
				if p == tok {
					return true
				}
			}
			return false
		}
		switch o.ty {
		case 'a':
			for _, e := range c.a {
				if !in(gval{ty: 's', s: e}.tok()) {
					return vInvalid, "", "allowed"
				}
			}
		default:
			if !in(c.tok()) {
				return vInvalid, "", "allowed"
			}
		}
	}
	// validation function
	if f := validationFunc(o.vf); f != nil {
		var arg interface{}
		switch o.ty {
		case 's':
			arg = c.s
		case 'a':
			arg = c.a
		case 'i':
			arg = c.i
		case 'b':
			arg = c.b
		}
		if f(arg) != nil {
			return vInvalid, "", "func"
		}
	}
	return verdict, c.tok(), ""
}

type layers struct {
	user map[string]string
	dflt map[string]string
}

func (l layers) clone() layers {
	n := layers{user: map[string]string{}, dflt: map[string]string{}}
	for k, v := range l.user {
		n.user[k] = v
	}
	for k, v := range l.dflt {
		n.dflt[k] = v
	}
	return n
}

type shClosure struct {
	key string
	fb  string
}

type shThread struct {
	op        string // set setd rep repd get
	key       string
	val       string
	kvs       map[string]string
	cid       int
	begin     int // getter: oldest snapshot it may observe
	lastWrite int
	expect    string // setter: expected result ("" = do not care)
	wrote     bool
}

type shadow struct {
	persist bool
	opts    map[string]*optSpec
	l       layers
	// config.json: "absent" "garbage" "tree" "unknown"
	fileKind    string
	file        map[string]string // key -> Val token (JSON-able kinds)
	cls         map[int]shClosure
	vfs         map[int]*shVF // config.ValidityFlag objects: layers at the last Refresh (nil snap = never refreshed)
	persps      map[int]map[string]string
	userUnknown bool
	loaded      bool // a load happened in this case

	// trace mode
	tracing   bool
	snaps     []layers
	threads   map[int]*shThread
	tcls      map[int]shClosure
	committed int
}

type shVF struct {
	refreshed bool
	unknown   bool // refreshed while the monitor did not know the user layer
	snap      layers
}

func newShadow() *shadow {
	s := &shadow{persist: true}
	s.reset(true)
	return s
}

func (s *shadow) reset(persist bool) {
	s.persist = persist
	s.opts = map[string]*optSpec{
		rlKey: {key: rlKey, ty: 's', hasPVs: true, def: gval{ty: 's', s: "stable"}.tok(),
			pvs: []string{gval{ty: 's', s: "stable"}.tok(), gval{ty: 's', s: "beta"}.tok(), gval{ty: 's', s: "experimental"}.tok()}},
		"core/expertiseLevel": {key: "core/expertiseLevel", ty: 's', hasPVs: true, def: gval{ty: 's', s: "user"}.tok(),
			pvs: []string{gval{ty: 's', s: "user"}.tok(), gval{ty: 's', s: "expert"}.tok(), gval{ty: 's', s: "developer"}.tok()}},
	}
	s.l = layers{user: map[string]string{}, dflt: map[string]string{}}
	s.fileKind, s.file = "absent", nil
	s.cls = map[int]shClosure{}
	s.vfs = map[int]*shVF{}
	s.persps = map[int]map[string]string{}
	s.userUnknown = false
	s.loaded = false
	s.tracing = false
}

// layered: user layer, else default layer, else registered default (no release-level gate).
func (s *shadow) layered(l layers, k string) string {
	if v, ok := l.user[k]; ok {
		return v
	}
	if v, ok := l.dflt[k]; ok {
		return v
	}
	return s.opts[k].def
}

// effRL: the effective release-level setting = the layered value of the release-level option.
func (s *shadow) effRL(l layers) int {
	g, _ := parseGVal(s.layered(l, rlKey))
	switch g.s {
	case "beta":
		return 1
	case "experimental":
		return 2
	}
	return 0
}

// expectGet: the property's first sentence.
func (s *shadow) expectGet(l layers, k string, fb string) string {
	o := s.opts[k]
	if o == nil || len(fb) == 0 || o.ty != fb[0] {
		return fb
	}
	if v, ok := l.user[k]; ok && o.rl <= s.effRL(l) {
		return v
	}
	if v, ok := l.dflt[k]; ok {
		return v
	}
	return o.def
}

// jsonOfCanon: the JSON-decoded form (as a Val token) of a canonical value after a trip through config.json.
func jsonOfCanon(tok string) string {
	g, _ := parseGVal(tok)
	switch g.ty {
	case 's':
		return "s:" + hexS(g.s)
	case 'a':
		es := make([]string, len(g.a))
		for i, e := range g.a {
			es[i] = "s:" + hexS(e)
		}
		return "l:" + strings.Join(es, ";")
	case 'i':
		return "f:64:" + strconv.FormatInt(g.i, 10)
	default:
		if g.b {
			return "b:1"
		}
		return "b:0"
	}
}

func (s *shadow) fileFromUser(l layers) {
	s.fileKind = "tree"
	s.file = map[string]string{}
	for k, v := range l.user {
		s.file[k] = jsonOfCanon(v)
	}
}

// keyClass: input class of the registered key set as far as persistence is concerned.
func (s *shadow) keyClass() string {
	keys := make([]string, 0, len(s.opts))
	for k := range s.opts {
		keys = append(keys, k)
	}
	sort.Strings(keys)
	for _, k := range keys {
		for _, seg := range strings.Split(k, "/") {
			if seg == "" || seg == "." || seg == ".." {
				return "unclean-key"
			}
		}
	}
	for _, a := range keys {
		for _, b := range keys {
			if a != b && strings.HasPrefix(b, a+"/") {
				return "key-is-path-prefix-of-another-key"
			}
		}
	}
	return "clean-keys"
}

func valKind(tok string) string {
	if tok == "n" {
		return "nil"
	}
	tag, rest, _ := cut(tok, ':')
	switch tag {
	case "i":
		k, _, _ := cut(rest, ':')
		return "go-" + k
	case "f":
		w, x, _ := cut(rest, ':')
		cl := "integral"
		if strings.HasSuffix(x, ".5") {
			cl = "fraction"
		} else if x == "-0" {
			cl = "negzero"
		} else if len(strings.TrimPrefix(x, "-")) >= 7 {
			cl = "integral-ge-1e6"
		}
		return "float" + w + "-" + cl
	case "s":
		return "string"
	case "a":
		return "[]string"
	case "A":
		return "nil-[]string"
	case "l":
		return "[]interface{}"
	case "u64":
		return "uint64"
	case "b":
		return "bool"
	case "y":
		return "[]byte"
	case "o":
		return "other-" + rest
	}
	return "unknown"
}

type mon struct {
	c    hxlib.Case
	outs []string
	vs   []hxlib.Violation
	s    *shadow
}

func (m *mon) add(i int, sig, what string) {
	// input class "the registered keys cannot be represented in the file hierarchy": everything observed after a
	// load is a consequence of the lossy save -> load, whatever observer shows it
	if kc := m.s.keyClass(); kc != "clean-keys" && m.s.loaded && !strings.HasPrefix(sig, "C04:panic") && !strings.HasPrefix(sig, "C04:hang") {
		sig = "C04:save-load:" + kc
	}
	for _, v := range m.vs {
		if v.Sig == sig {
			return // one per signature and case
		}
	}
	m.vs = append(m.vs, hxlib.Violation{Sig: sig, What: fmt.Sprintf("line %d `%s` -> `%s`: %s", i+1, m.c.Lines[i], m.outs[i], what),
		Lines: append([]string{}, m.c.Lines[:i+1]...), Output: append([]string{}, m.outs[:i+1]...)})
}

// applySet: rule for a single-option set on layer map `layer`; returns the expected result ("ok", "err", "" = either).
func (m *mon) applySet(i int, op string, layer map[string]string, key, vtok string, check bool, out string) (expect string) {
	s := m.s
	o := s.opts[key]
	if o == nil {
		return "" // the property says nothing about setting an unregistered option
	}
	if vtok == "n" {
		// nil removes the value of the layer; the property does not say that this cannot fail
		if !check || out == "ok" {
			delete(layer, key)
		}
		return ""
	}
	v, _ := decodeVal(vtok)
	verdict, canon, reason := judge(o, v)
	switch verdict {
	case vValid:
		layer[key] = canon
		if check && out != "ok" {
			m.add(i, "C04:"+op+":valid-value-rejected:"+valKind(vtok)+":"+strings.TrimPrefix(out, "err "),
				"the value satisfies type, regex, allowed values and validation function of the option but was rejected")
		}
		return "ok"
	case vInvalid:
		if check && !strings.HasPrefix(out, "err ") {
			m.add(i, "C04:"+op+":invalid-value-accepted:"+reason+":"+valKind(vtok),
				"the value violates the option's "+reason+" but the set succeeded")
		}
		return "err"
	default:
		if check && out == "ok" {
			layer[key] = canon
		}
		return ""
	}
}

// applyReplace: rule for a whole-layer replace restricted to the registered keys in `only` (nil = all).
// Returns the set of keys that must / may be reported.
func (m *mon) applyReplaceKey(layer map[string]string, kvs map[string]string, key string, reported map[string]bool) (must, may bool) {
	o := m.s.opts[key]
	vtok, ok := kvs[key]
	delete(layer, key)
	if !ok {
		return false, false
	}
	v, _ := decodeVal(vtok)
	verdict, canon, _ := judge(o, v)
	switch verdict {
	case vValid:
		layer[key] = canon
		return false, false
	case vInvalid:
		return true, true
	default:
		if reported != nil && !reported[key] {
			layer[key] = canon
		}
		return false, true
	}
}

func parseErrs(out string) (map[string]bool, bool) {
	ws := strings.Fields(out)
	if len(ws) == 0 || ws[0] != "errs" {
		return nil, false
	}
	r := map[string]bool{}
	for _, w := range ws[1:] {
		if strings.HasPrefix(w, "unk=") {
			continue
		}
		j := strings.LastIndexByte(w, ':')
		if j < 0 {
			return nil, false
		}
		r[w[:j]] = true
	}
	return r, true
}

func kvMap(ws []string) map[string]string {
	m := map[string]string{}
	for _, w := range ws {
		k, v, _ := splitKV(w)
		m[k] = v
	}
	return m
}

func (m *mon) checkReplace(i int, op string, layer map[string]string, kvs map[string]string, errsOut string, changes bool) {
	reported, ok := parseErrs(errsOut)
	if !ok {
		m.add(i, "C04:"+op+":no-error-list", "unexpected result")
		return
	}
	work := layer
	if !changes {
		work = map[string]string{}
	}
	keys := make([]string, 0, len(m.s.opts))
	for k := range m.s.opts {
		keys = append(keys, k)
	}
	sort.Strings(keys)
	for _, k := range keys {
		must, may := m.applyReplaceKey(work, kvs, k, reported)
		if must && !reported[k] {
			v, _ := decodeVal(kvs[k])
			_, _, reason := judge(m.s.opts[k], v)
			m.add(i, "C04:"+op+":invalid-entry-not-reported:"+reason+":"+valKind(kvs[k]), "entry "+k+" violates the option's "+reason+" but is not reported")
		}
		if reported[k] && !may {
			cl := "not-in-map"
			if _, ok := kvs[k]; ok {
				cl = valKind(kvs[k])
			}
			m.add(i, "C04:"+op+":valid-entry-reported:"+cl+":"+m.s.keyClassIfLoad(op), "entry "+k+" is reported as invalid but is valid / not in the map")
		}
	}
	for k := range reported {
		if m.s.opts[k] == nil {
			m.add(i, "C04:"+op+":unknown-key-reported", "an error is reported for the unregistered key "+k)
		}
	}
}

func (s *shadow) keyClassIfLoad(op string) string {
	if op == "load" {
		return s.keyClass()
	}
	return "-"
}

func (m *mon) expectFile() string {
	s := m.s
	switch s.fileKind {
	case "absent", "garbage":
		return s.fileKind
	case "tree":
		items := []string{}
		for k, v := range s.file {
			val, _ := decodeVal(v)
			items = append(items, k+"="+jsonTok(jsonRoundTrip(val)))
		}
		return sortedJoin("tree", items)
	}
	return ""
}

// jsonRoundTrip: Go value -> what encoding/json gives back for it (only the JSON-able kinds used in files).
func jsonRoundTrip(v any) any {
	switch x := v.(type) {
	case []string:
		out := []interface{}{}
		for _, e := range x {
			out = append(out, e)
		}
		return out
	case float32:
		return float64(x)
	case int:
		return float64(x)
	}
	return v
}

func monitor(c hxlib.Case, outs []string) []hxlib.Violation {
	m := &mon{c: c, outs: outs, s: newShadow()}
	s := m.s
	for i, line := range c.Lines {
		ws := strings.Fields(line)
		out := outs[i]
		if len(ws) == 0 {
			continue
		}
		op := ws[0]
		if strings.HasPrefix(out, "PANIC") || strings.HasPrefix(out, "HANG") || strings.Contains(out, " PANIC ") || strings.HasSuffix(out, " HANG") {
			kind := "panic"
			if strings.Contains(out, "HANG") {
				kind = "hang"
			}
			cls := ""
			switch op {
			case "set", "setd", "vv":
				if len(ws) == 3 {
					cls = ":" + valKind(ws[2])
				}
			case "rep", "repd", "valc", "persp":
				ks := map[string]bool{}
				for _, w := range ws[1:] {
					if _, v, ok := splitKV(w); ok {
						ks[valKind(v)] = true
					}
				}
				for _, k := range []string{"nil", "[]byte"} {
					if ks[k] {
						cls += ":" + k
					}
				}
			}
			m.add(i, "C04:"+kind+":"+op+cls, "the call did not return normally: "+out)
			return m.vs
		}
		if strings.HasPrefix(out, "skipped-after") || out == "bad-op" {
			return m.vs
		}
		if s.tracing || op == "tstart" {
			m.traceLine(i, ws, out)
			continue
		}
		switch op {
		case "stress":
			if out != "ok" {
				m.add(i, "C04:stress:stale-read", out)
			}
		case "init":
			s.reset(len(ws) == 2 && ws[1] == "1")
		case "reg":
			if out != "ok" || len(ws) != 9 {
				continue
			}
			o := &optSpec{key: ws[1], ty: ws[2][0]}
			o.rl, _ = strconv.Atoi(ws[3])
			o.rx, _ = strconv.Atoi(ws[4])
			o.vf, _ = strconv.Atoi(ws[6])
			o.mg, _ = strconv.Atoi(ws[7])
			switch ws[5] {
			case "-":
			case "e":
				o.hasPVs = true
			default:
				o.hasPVs = true
				o.pvs = strings.Split(ws[5], ";")
			}
			dv, _ := decodeVal(ws[8])
			probe := *o
			probe.mg = 0 // Register does not migrate the default
			_, o.def, _ = judge(&probe, dv)
			s.opts[o.key] = o
			delete(s.l.user, o.key)
			delete(s.l.dflt, o.key)
		case "set", "setd":
			if len(ws) != 3 {
				continue
			}
			layer := s.l.user
			if op == "setd" {
				layer = s.l.dflt
			}
			m.applySet(i, op, layer, ws[1], ws[2], true, out)
			if op == "set" && out == "ok" && s.persist {
				// SetConfigOption also saves, but the property only speaks of saving and loading: whether the file
				// was rewritten is compared with the model (correspondence), the monitor does not rely on it
				s.fileKind, s.file = "unknown", nil
			}
		case "vv":
			if len(ws) != 3 {
				continue
			}
			m.applySet(i, op, map[string]string{}, ws[1], ws[2], ws[2] != "n", out)
		case "rep", "repd":
			layer := s.l.user
			if op == "repd" {
				layer = s.l.dflt
			}
			m.checkReplace(i, op, layer, kvMap(ws[1:]), out, true)
			if op == "rep" {
				s.userUnknown = false
			}
		case "valc":
			kvs := kvMap(ws[1:])
			m.checkReplace(i, op, nil, kvs, out, false)
		case "save":
			if out != "ok" {
				s.fileKind, s.file = "unknown", nil // an I/O failure is outside the property
				continue
			}
			if s.persist && !s.userUnknown {
				s.fileFromUser(s.l)
			} else if s.persist {
				s.fileKind = "unknown"
			}
		case "wfile":
			if len(ws) < 2 {
				continue
			}
			switch ws[1] {
			case "absent", "garbage":
				s.fileKind, s.file = ws[1], nil
			case "tree":
				s.fileKind, s.file = "tree", kvMap(ws[2:])
			}
		case "wraw":
			s.fileKind, s.file = "unknown", nil
		case "rfile":
			// the property does not prescribe the file's content, only that loading it restores the user layer;
			// the content is compared with the model in the correspondence stream
		case "load":
			s.loaded = true
			if !s.persist {
				if !strings.HasPrefix(out, "ok") {
					m.add(i, "C04:load:without-persistence", "load without a configured file must do nothing")
				}
				continue
			}
			switch s.fileKind {
			case "absent", "garbage":
				// nothing to restore; the property does not say what happens (compared with the model only)
				if !strings.HasPrefix(out, "err") {
					s.userUnknown = true
				}
			case "tree":
				errsOut := strings.TrimPrefix(out, "ok ")
				if strings.HasPrefix(out, "err invalid") {
					errsOut = "" // count only; the layer is replaced all the same
				}
				if errsOut == "" {
					// require-valid load that failed: recompute what must be installed, no error list to compare
					for k := range s.opts {
						m.applyReplaceKey(s.l.user, s.file, k, nil)
					}
				} else {
					m.checkReplace(i, "load", s.l.user, s.file, errsOut, true)
				}
				s.userUnknown = false
			default:
				s.userUnknown = true
			}
		case "get", "cget":
			if len(ws) != 3 || s.userUnknown {
				continue
			}
			if want := s.expectGet(s.l, ws[1], ws[2]); want != out {
				m.add(i, "C04:"+op+":"+m.layeringClass(ws[1]), "the getter must return "+want)
			}
		case "mk":
			if len(ws) == 5 {
				id, _ := strconv.Atoi(ws[1])
				s.cls[id] = shClosure{key: ws[3], fb: ws[4]}
			}
		case "call":
			id, _ := strconv.Atoi(ws[1])
			cl, ok := s.cls[id]
			if !ok || s.userUnknown {
				continue
			}
			if want := s.expectGet(s.l, cl.key, cl.fb); want != out {
				m.add(i, "C04:call:"+m.layeringClass(cl.key), "the getter closure must return "+want)
			}
		case "vfnew", "vfrefresh":
			if len(ws) == 2 && out == "ok" {
				id, _ := strconv.Atoi(ws[1])
				if s.vfs == nil {
					s.vfs = map[int]*shVF{}
				}
				if op == "vfnew" {
					s.vfs[id] = &shVF{}
				} else if vf := s.vfs[id]; vf != nil {
					vf.refreshed, vf.unknown = true, s.userUnknown
					vf.snap = s.l.clone()
				}
			}
		case "vfvalid":
			// the flag tells its holder that "the configuration has not been changed": while it reads valid, every
			// getter must still return what it returned when the flag was refreshed; a flag that was never
			// refreshed "always starts out as invalid". (Reading invalid without a change is harmless and not judged.)
			id, _ := strconv.Atoi(ws[1])
			vf := s.vfs[id]
			if vf == nil || out != "valid" {
				continue
			}
			if !vf.refreshed {
				m.add(i, "C04:validity-flag:new-flag-valid", "a ValidityFlag that was never refreshed reads valid")
				continue
			}
			if vf.unknown || s.userUnknown {
				continue
			}
			for k, o := range s.opts {
				fb := gval{ty: o.ty}.tok()
				if a, b := s.expectGet(vf.snap, k, fb), s.expectGet(s.l, k, fb); a != b {
					m.add(i, "C04:validity-flag:valid-after-change", "the flag still reads valid although option "+k+" changed from "+a+" to "+b+" since its Refresh")
					break
				}
			}
		case "uv":
			if len(ws) != 2 || s.userUnknown {
				continue
			}
			want := "unknown"
			if s.opts[ws[1]] != nil {
				want = "unset"
				if v, ok := s.l.user[ws[1]]; ok {
					want = "set " + v
				}
			}
			if want != out {
				m.add(i, "C04:uv:user-value:"+s.keyClass(), "UserValue/IsSetByUser must give "+want)
			}
		case "exp", "rlgate":
			// Export and the internal gate are not observers named by the property; compared with the model only
		case "active":
			if s.userUnknown {
				continue
			}
			items := []string{}
			rl := s.effRL(s.l)
			for k, v := range s.l.user {
				if s.opts[k].rl <= rl {
					items = append(items, k+"="+v)
				}
			}
			if want := sortedJoin("active", items); want != out {
				m.add(i, "C04:active:"+m.layeringClass(""), "GetActiveConfigValues must give "+want)
			}
		case "persp":
			if len(ws) < 2 {
				continue
			}
			id, _ := strconv.Atoi(ws[1])
			kvs := kvMap(ws[2:])
			p := map[string]string{}
			bad, soft := 0, 0
			for k, o := range s.opts {
				vt, ok := kvs[k]
				if !ok {
					continue
				}
				v, _ := decodeVal(vt)
				verdict, canon, _ := judge(o, v)
				switch verdict {
				case vValid:
					p[k] = canon
				case vInvalid:
					bad++
				default:
					soft++
					p[k] = "?"
				}
			}
			s.persps[id] = p
			_, _ = bad, soft // the error count of NewPerspective is compared with the model only
		case "pget", "phas":
			id, _ := strconv.Atoi(ws[1])
			p, ok := s.persps[id]
			if !ok || s.userUnknown {
				continue
			}
			o := s.opts[ws[2]]
			v, in := p[ws[2]]
			if v == "?" {
				continue
			}
			visible := in && o != nil && o.rl <= s.effRL(s.l)
			if op == "phas" {
				if want := strconv.FormatBool(visible); want != out {
					m.add(i, "C04:phas:"+m.layeringClass(""), "Has must be "+want)
				}
				continue
			}
			want := "none"
			if visible && len(ws) == 4 && o.ty == ws[3][0] {
				want = v
			}
			if want != out {
				m.add(i, "C04:pget:"+m.layeringClass(""), "the perspective getter must return "+want)
			}
		}
	}
	return m.vs
}

// layeringClass: input class for a violated layering rule.
func (m *mon) layeringClass(key string) string {
	s := m.s
	u, hu := s.l.user[rlKey]
	d, hd := s.l.dflt[rlKey]
	if hu && hd && u != d {
		return "release-level-set-in-both-layers"
	}
	if hd && !hu {
		return "release-level-set-in-default-layer"
	}
	return "layering"
}

// traceLine: the concurrent clause — a getter call that begins after an operation returned observes that
// operation's state or a later one. Writes are ordered as they happened (tw lines); a call may return the
// layered value of any state between the newest write of the calls that had returned when it began and
// the newest write at its end.
func (m *mon) traceLine(i int, ws []string, out string) {
	s := m.s
	switch ws[0] {
	case "tstart":
		s.tracing = true
		s.snaps = []layers{s.l.clone()}
		s.threads = map[int]*shThread{}
		s.tcls = map[int]shClosure{}
		s.committed = 0
		return
	case "tend":
		s.tracing = false
		s.l = s.snaps[len(s.snaps)-1].clone()
		return
	}
	if out != "ok" {
		m.add(i, "C04:trace:replay-diverged", "recorded trace does not replay: "+out)
		return
	}
	if len(ws) < 2 {
		return
	}
	id, _ := strconv.Atoi(ws[1])
	cur := s.snaps[len(s.snaps)-1]
	switch ws[0] {
	case "tmk":
		if len(ws) == 5 {
			s.tcls[id] = shClosure{key: ws[2], fb: ws[3]}
		}
	case "tcall":
		if len(ws) < 3 || (len(ws) < 4 && ws[2] != "rep" && ws[2] != "repd") {
			return
		}
		t := &shThread{op: ws[2], lastWrite: -1}
		switch ws[2] {
		case "set", "setd":
			t.key, t.val = ws[3], ws[4]
		case "rep", "repd":
			t.kvs = kvMap(ws[3:])
		case "get":
			t.cid, _ = strconv.Atoi(ws[3])
			t.begin = s.committed
		}
		s.threads[id] = t
	case "tw":
		t := s.threads[id]
		if t == nil {
			return
		}
		next := cur.clone()
		switch t.op {
		case "set", "setd":
			layer := next.user
			if t.op == "setd" {
				layer = next.dflt
			}
			t.expect = m.applySet(i, t.op, layer, t.key, t.val, false, "")
			if t.expect == "" {
				// uint64-like: the oracle has no opinion; do not use such values in traces
				t.expect = ""
			}
		case "rep", "repd":
			layer := next.user
			if t.op == "repd" {
				layer = next.dflt
			}
			if len(ws) == 3 && s.opts[ws[2]] != nil {
				m.applyReplaceKey(layer, t.kvs, ws[2], nil)
			}
		}
		s.snaps = append(s.snaps, next)
		t.lastWrite = len(s.snaps) - 1
		t.wrote = true
	case "tret":
		t := s.threads[id]
		if t == nil {
			return
		}
		res := strings.Join(ws[2:], " ")
		delete(s.threads, id)
		switch t.op {
		case "get":
			cl := s.tcls[t.cid]
			okv := false
			var cands []string
			for j := t.begin; j < len(s.snaps); j++ {
				w := s.expectGet(s.snaps[j], cl.key, cl.fb)
				cands = append(cands, w)
				if w == res {
					okv = true
				}
			}
			if !okv {
				m.add(i, "C04:trace-get:stale-or-wrong-value", fmt.Sprintf("a getter call that began after state %d was installed returned %s; allowed: %v", t.begin, res, cands))
			}
		case "set", "setd":
			if t.expect == "ok" && res != "ok" {
				m.add(i, "C04:"+t.op+":valid-value-rejected:"+valKind(t.val)+":"+strings.TrimPrefix(res, "err "), "valid value rejected")
			}
			if t.expect == "err" && !strings.HasPrefix(res, "err") {
				m.add(i, "C04:"+t.op+":invalid-value-accepted:trace:"+valKind(t.val), "invalid value accepted")
			}
			if t.lastWrite > s.committed && res == "ok" {
				s.committed = t.lastWrite
			}
			if t.op == "set" && res == "ok" && s.persist {
				s.fileKind, s.file = "unknown", nil
			}
		case "rep", "repd":
			if t.lastWrite > s.committed {
				s.committed = t.lastWrite
			}
		}
	}
}
