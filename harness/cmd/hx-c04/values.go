package main

// Tokens of the C04 line protocol (the Lean driver lean/PB/Drv/C04.lean parses / prints the same ones).
//
// Val (argument of a setter, Go-typed or JSON-decoded):
//   n                 nil
//   s:<hex>           string            (hex of the bytes, "-" = empty)
//   a:<hex>,<hex>     []string          ("a:" = empty non-nil)
//   A:                []string(nil)
//   l:<e>;<e>         []interface{}     (entries s:<hex> string, x:<tag> not a string; "l:" = empty)
//   i:<kind>:<n>      int int8 … uint32 (kinds int i8 i16 i32 i64 uint u8 u16 u32)
//   u64:<n>           uint64
//   f:<32|64>:<x>     float, x = [-]digits[.5]
//   b:0 b:1           bool
//   y:<hex>           []byte
//   o:<tag>           map / struct / []int / uintptr …
// GVal (what a getter returns): s:<hex> a:<hex>,… i:<n> b:0|1

import (
	"encoding/json"
	"fmt"
	"math"
	"sort"
	"strconv"
	"strings"

	"verifharness/hxlib"
)

func hexS(s string) string { return hxlib.Hex([]byte(s)) }

func unhexS(h string) string { return string(hxlib.UnHex(h)) }

var intKinds = []string{"int", "i8", "i16", "i32", "i64", "uint", "u8", "u16", "u32"}

func cut(s string, c byte) (string, string, bool) {
	i := strings.IndexByte(s, c)
	if i < 0 {
		return s, "", false
	}
	return s[:i], s[i+1:], true
}

// decodeVal turns a Val token into the Go value handed to the config package.
func decodeVal(tok string) (any, bool) {
	if tok == "n" {
		return nil, true
	}
	tag, rest, ok := cut(tok, ':')
	if !ok {
		return nil, false
	}
	switch tag {
	case "s":
		return unhexS(rest), true
	case "a":
		out := []string{}
		if rest != "" {
			for _, h := range strings.Split(rest, ",") {
				out = append(out, unhexS(h))
			}
		}
		return out, true
	case "A":
		return []string(nil), true
	case "l":
		out := []interface{}{}
		if rest != "" {
			for _, e := range strings.Split(rest, ";") {
				et, er, _ := cut(e, ':')
				switch et {
				case "s":
					out = append(out, unhexS(er))
				default:
					out = append(out, otherValue(er))
				}
			}
		}
		return out, true
	case "i":
		k, ns, ok := cut(rest, ':')
		if !ok {
			return nil, false
		}
		n, err := strconv.ParseInt(ns, 10, 64)
		if err != nil {
			return nil, false
		}
		switch k {
		case "int":
			return int(n), true
		case "i8":
			return int8(n), true
		case "i16":
			return int16(n), true
		case "i32":
			return int32(n), true
		case "i64":
			return n, true
		case "uint":
			return uint(n), true
		case "u8":
			return uint8(n), true
		case "u16":
			return uint16(n), true
		case "u32":
			return uint32(n), true
		}
		return nil, false
	case "u64":
		n, err := strconv.ParseUint(rest, 10, 64)
		if err != nil {
			return nil, false
		}
		return n, true
	case "f":
		w, x, ok := cut(rest, ':')
		if !ok {
			return nil, false
		}
		f, ok := parseFloatTok(x)
		if !ok {
			return nil, false
		}
		if w == "32" {
			return float32(f), true
		}
		return f, true
	case "b":
		return rest == "1", true
	case "y":
		return hxlib.UnHex(rest), true
	case "o":
		return otherValue(rest), true
	}
	return nil, false
}

func parseFloatTok(x string) (float64, bool) {
	neg := strings.HasPrefix(x, "-")
	x = strings.TrimPrefix(x, "-")
	half := strings.HasSuffix(x, ".5")
	x = strings.TrimSuffix(x, ".5")
	m, err := strconv.ParseUint(x, 10, 64)
	if err != nil {
		return 0, false
	}
	f := float64(m)
	if half {
		f += 0.5
	}
	if neg {
		f = math.Copysign(f, -1)
	}
	return f, true
}

type someStruct struct{ A int }

// otherValue: Go values of types the config package has no case for.
func otherValue(tag string) any {
	switch tag {
	case "map":
		return map[string]interface{}{"k": "v"}
	case "struct":
		return someStruct{1}
	case "ints":
		return []int{1, 2}
	case "uptr":
		return uintptr(7)
	case "int":
		return 7
	case "bool":
		return true
	case "nil":
		return nil
	case "float":
		return 1.5
	case "list":
		return []interface{}{"a"}
	case "c128":
		return complex(1, 2)
	case "ptr":
		x := "p"
		return &x
	}
	return someStruct{2}
}

// gval is a canonical getter value.
type gval struct {
	ty byte // 's' 'a' 'i' 'b'
	s  string
	a  []string
	i  int64
	b  bool
}

func (g gval) tok() string {
	switch g.ty {
	case 's':
		return "s:" + hexS(g.s)
	case 'a':
		hs := make([]string, len(g.a))
		for i, e := range g.a {
			hs[i] = hexS(e)
		}
		return "a:" + strings.Join(hs, ",")
	case 'i':
		return "i:" + strconv.FormatInt(g.i, 10)
	case 'b':
		if g.b {
			return "b:1"
		}
		return "b:0"
	}
	return "?"
}

func parseGVal(tok string) (gval, bool) {
	tag, rest, ok := cut(tok, ':')
	if !ok {
		return gval{}, false
	}
	switch tag {
	case "s":
		return gval{ty: 's', s: unhexS(rest)}, true
	case "a":
		out := []string{}
		if rest != "" {
			for _, h := range strings.Split(rest, ",") {
				out = append(out, unhexS(h))
			}
		}
		return gval{ty: 'a', a: out}, true
	case "i":
		n, err := strconv.ParseInt(rest, 10, 64)
		if err != nil {
			return gval{}, false
		}
		return gval{ty: 'i', i: n}, true
	case "b":
		return gval{ty: 'b', b: rest == "1"}, true
	}
	return gval{}, false
}

// gvalOf canonicalises what the implementation handed out (getter result, UserValue, exported JSON field).
func gvalOf(ty byte, v any) string {
	switch ty {
	case 's':
		if s, ok := v.(string); ok {
			return gval{ty: 's', s: s}.tok()
		}
	case 'a':
		switch l := v.(type) {
		case []string:
			return gval{ty: 'a', a: l}.tok()
		case []interface{}:
			out := make([]string, 0, len(l))
			for _, e := range l {
				s, ok := e.(string)
				if !ok {
					return fmt.Sprintf("?%T", e)
				}
				out = append(out, s)
			}
			return gval{ty: 'a', a: out}.tok()
		case nil:
			return gval{ty: 'a'}.tok()
		}
	case 'i':
		switch n := v.(type) {
		case int64:
			return gval{ty: 'i', i: n}.tok()
		case int:
			return gval{ty: 'i', i: int64(n)}.tok()
		case float64:
			if n == math.Trunc(n) && math.Abs(n) < 1<<62 {
				return gval{ty: 'i', i: int64(n)}.tok()
			}
		case json.Number:
			if i, err := n.Int64(); err == nil {
				return gval{ty: 'i', i: i}.tok()
			}
		}
	case 'b':
		if b, ok := v.(bool); ok {
			return gval{ty: 'b', b: b}.tok()
		}
	}
	return fmt.Sprintf("?%T:%v", v, v)
}

// jsonTok canonicalises a JSON-decoded leaf of config.json (as printed by `rfile`).
func jsonTok(v any) string {
	switch x := v.(type) {
	case nil:
		return "n"
	case string:
		return "s:" + hexS(x)
	case bool:
		if x {
			return "b:1"
		}
		return "b:0"
	case float64:
		neg := math.Signbit(x)
		ax := math.Abs(x)
		w := math.Floor(ax)
		s := "f:"
		if neg {
			s += "-"
		}
		if w > 1<<62 || math.IsNaN(x) {
			return "f:?" + strconv.FormatFloat(x, 'g', -1, 64)
		}
		s += strconv.FormatUint(uint64(w), 10)
		switch ax - w {
		case 0:
		case 0.5:
			s += ".5"
		default:
			return "f:?" + strconv.FormatFloat(x, 'g', -1, 64)
		}
		return s
	case []interface{}:
		es := make([]string, len(x))
		for i, e := range x {
			if s, ok := e.(string); ok {
				es[i] = "s:" + hexS(s)
			} else {
				es[i] = "x:"
			}
		}
		return "l:" + strings.Join(es, ";")
	}
	return "o:"
}

// jsonTokOfVal is the JSON-decoded form of a Val token that can stand in a JSON file (used for `wfile tree`):
// the harness writes the Go value with encoding/json, the token stays what it is for the model.
func sortedJoin(prefix string, items []string) string {
	sort.Strings(items)
	if len(items) == 0 {
		return prefix
	}
	return prefix + " " + strings.Join(items, " ")
}

func splitKV(s string) (string, string, bool) {
	return cut(s, '=')
}
