package main

// Executor: every op line is one call of the REAL config package (built with -tags verif).

import (
	"encoding/json"
	"errors"
	"fmt"
	"os"
	"path/filepath"
	"sort"
	"strconv"
	"strings"
	"sync/atomic"
	"time"

	"github.com/safing/portbase/config"
	"github.com/safing/portbase/database/record"

	"verifharness/hxlib"
)

// regexCatalogue: index -> Go pattern; lean/PB/Model/Config.lean `rxCat` re-implements the same indices.
var regexCatalogue = map[int]string{
	1: `^[a-z]+$`,
	2: `^[0-9]+$`,
	3: `^-?[0-9]{1,3}$`,
	4: `^(ab|cd)`,
	5: `x`,
	6: `^[a-c]*$`,
}

var errVF = errors.New("vf")

// validationFunc: index -> ValidationFunc (lean: `vfOk`).
func validationFunc(i int) func(interface{}) error {
	switch i {
	case 0:
		return nil
	case 1:
		return func(v interface{}) error {
			if n, ok := v.(int64); ok && n%2 != 0 {
				return errVF
			}
			return nil
		}
	case 2:
		return func(v interface{}) error {
			switch x := v.(type) {
			case int64:
				if x > 100 {
					return errVF
				}
			case string:
				if len(x) > 5 {
					return errVF
				}
			case []string:
				if len(x) > 3 {
					return errVF
				}
			case bool:
				if !x {
					return errVF
				}
			}
			return nil
		}
	}
	return func(interface{}) error { return errVF }
}

// migrationFuncs: index -> Migrations (lean: `migrate`).
func migrationFuncs(i int) []config.MigrationFunc {
	switch i {
	case 1:
		return []config.MigrationFunc{func(_ *config.Option, v any) any {
			if s, ok := v.(string); ok && s == "old" {
				return "new"
			}
			return v
		}}
	case 2:
		return []config.MigrationFunc{func(_ *config.Option, v any) any {
			if b, ok := v.(bool); ok {
				if b {
					return "yes"
				}
				return "no"
			}
			return v
		}}
	}
	return nil
}

func optType(t string) (config.OptionType, bool) {
	switch t {
	case "s":
		return config.OptTypeString, true
	case "a":
		return config.OptTypeStringArray, true
	case "i":
		return config.OptTypeInt, true
	case "b":
		return config.OptTypeBool, true
	}
	return 0, false
}

func tyByte(t config.OptionType) byte {
	switch t {
	case config.OptTypeString:
		return 's'
	case config.OptTypeStringArray:
		return 'a'
	case config.OptTypeInt:
		return 'i'
	case config.OptTypeBool:
		return 'b'
	}
	return '?'
}

// errClass maps an error of the set / validate calls to the small enum of the line protocol.
func errClass(err error) string {
	if err == nil {
		return "ok"
	}
	var ve *config.ValidationError
	if !errors.As(err, &ve) {
		if strings.Contains(err.Error(), "does not exist") {
			return "err unknown"
		}
		return "err other:" + err.Error()
	}
	return "err " + vErrClass(ve)
}

func vErrClass(ve *config.ValidationError) string {
	m := ve.Err.Error()
	switch {
	case ve.Err == errVF:
		return "func"
	case m == "value is not allowed":
		return "notallowed"
	case strings.HasPrefix(m, "expected type"):
		return "type"
	case m == "did not match validation regex":
		return "regex"
	case strings.HasSuffix(m, "is not a string"):
		return "entry-notstring"
	case strings.HasSuffix(m, "did not match validation regex"):
		return "entry-regex"
	case strings.HasSuffix(m, "is not allowed"):
		return "entry-notallowed"
	case strings.HasPrefix(m, "failed to convert float"):
		return "float"
	case strings.HasPrefix(m, "invalid option value type"):
		return "badtype"
	}
	return "other:" + m
}

func errsLine(prefix string, es []*config.ValidationError) string {
	items := make([]string, 0, len(es))
	for _, e := range es {
		k := "?"
		if e.Option != nil {
			k = e.Option.Key
		}
		items = append(items, k+":"+vErrClass(e))
	}
	return sortedJoin(prefix, items)
}

var caseCounter int64

type exec struct {
	dir   string
	file  string
	cls   map[int]func() string
	vfs   map[int]*config.ValidityFlag
	persp map[int]*config.Perspective
	tr    *tracer

	poisoned bool
}

// playbackExec hands out the outputs recorded while the generator executed a trace case on the real
// code (a controlled-schedule scenario is executed exactly once; see gen.go traceCase).
type playbackExec struct {
	outs []string
	i    int
}

func (p *playbackExec) Do(string) string {
	if p.i >= len(p.outs) {
		return "playback-exhausted"
	}
	p.i++
	return p.outs[p.i-1]
}

var playback []string

// processPoisoned: a call of the config package panicked or hung; it may have left an option or the registry
// locked for good (setConfigOption unlocks without defer), so nothing executed afterwards in this process can
// be trusted. The generator stops; the violation found so far is reported.
var processPoisoned bool

func newExec(r *hxlib.Run) hxlib.Exec {
	if playback != nil {
		p := &playbackExec{outs: playback}
		playback = nil
		return p
	}
	return newRealExec(r)
}

func newRealExec(_ *hxlib.Run) *exec {
	base := os.Getenv("VERIF_SCRATCH_DIR")
	if base == "" {
		base = os.TempDir()
	}
	n := atomic.AddInt64(&caseCounter, 1)
	dir := filepath.Join(base, fmt.Sprintf("c04-%d-%d", os.Getpid(), n%64))
	_ = os.MkdirAll(dir, 0o755)
	e := &exec{dir: dir, file: filepath.Join(dir, "config.json"), cls: map[int]func() string{}, persp: map[int]*config.Perspective{}}
	_ = os.Remove(e.file)
	config.VerifSetSink(nil)
	config.VerifReset(e.file)
	return e
}

func (e *exec) Close() error {
	if e.tr != nil {
		e.tr.abort()
		e.tr = nil
	}
	config.VerifSetSink(nil)
	_ = os.Remove(e.file)
	return nil
}

func parseKVs(ws []string) (map[string]interface{}, bool) {
	m := map[string]interface{}{}
	for _, w := range ws {
		k, vt, ok := splitKV(w)
		if !ok {
			return nil, false
		}
		v, ok := decodeVal(vt)
		if !ok {
			return nil, false
		}
		m[k] = v
	}
	return m, true
}

// hierarchical builds the nested map for a JSON file / perspective from flat path=value pairs.
func hierarchical(flat map[string]interface{}) map[string]interface{} {
	root := map[string]interface{}{}
	keys := make([]string, 0, len(flat))
	for k := range flat {
		keys = append(keys, k)
	}
	sort.Strings(keys)
	for _, k := range keys {
		parts := strings.Split(k, "/")
		m := root
		for _, p := range parts[:len(parts)-1] {
			nx, ok := m[p].(map[string]interface{})
			if !ok {
				nx = map[string]interface{}{}
				m[p] = nx
			}
			m = nx
		}
		m[parts[len(parts)-1]] = flat[k]
	}
	return root
}

// makeGetter builds a real getter closure returning the canonical token.
func makeGetter(conc bool, key string, fb gval) func() string {
	switch fb.ty {
	case 's':
		var g config.StringOption
		if conc {
			g = config.Concurrent.GetAsString(key, fb.s)
		} else {
			g = config.GetAsString(key, fb.s)
		}
		return func() string { return gvalOf('s', g()) }
	case 'a':
		var g config.StringArrayOption
		if conc {
			g = config.Concurrent.GetAsStringArray(key, fb.a)
		} else {
			g = config.GetAsStringArray(key, fb.a)
		}
		return func() string { return gvalOf('a', g()) }
	case 'i':
		var g config.IntOption
		if conc {
			g = config.Concurrent.GetAsInt(key, fb.i)
		} else {
			g = config.GetAsInt(key, fb.i)
		}
		return func() string { return gvalOf('i', g()) }
	default:
		var g config.BoolOption
		if conc {
			g = config.Concurrent.GetAsBool(key, fb.b)
		} else {
			g = config.GetAsBool(key, fb.b)
		}
		return func() string { return gvalOf('b', g()) }
	}
}

func (e *exec) readFile() string {
	data, err := os.ReadFile(e.file)
	if err != nil {
		return "absent"
	}
	m, err := config.JSONToMap(data)
	if err != nil {
		return "garbage"
	}
	items := make([]string, 0, len(m))
	for k, v := range m {
		items = append(items, k+"="+jsonTok(v))
	}
	return sortedJoin("tree", items)
}

// opTimeout: an op of the config package that does not return within this time is reported as HANG
// (a lock that is never released); generous, so that CPU load cannot trigger it.
const opTimeout = 30 * time.Second

// opTimeoutFor: a stress op runs thousands of sets (each saving the file when persistence is on) against getter
// goroutines; under the race detector on a loaded machine 3000 sets once took more than 30 s (thorough tier, unchanged
// tree). Its limit grows with its size; every other op keeps opTimeout.
func opTimeoutFor(line string) time.Duration {
	f := strings.Fields(line)
	if len(f) == 4 && f[0] == "stress" {
		if n, err := strconv.Atoi(f[3]); err == nil && n > 0 {
			return opTimeout + time.Duration(n)*100*time.Millisecond
		}
	}
	return opTimeout
}

// Do runs one op under a watchdog; after a panic or hang the rest of the case is skipped (the
// package may be left with a locked option).
func (e *exec) Do(line string) string {
	if e.poisoned {
		return "skipped-after-panic-or-hang"
	}
	ch := make(chan string, 1)
	go func() {
		defer func() {
			if x := recover(); x != nil {
				ch <- "PANIC " + strings.SplitN(fmt.Sprint(x), "\n", 2)[0]
			}
		}()
		ch <- e.do(line)
	}()
	select {
	case out := <-ch:
		if strings.HasPrefix(out, "PANIC") || strings.HasPrefix(out, "HANG") || strings.Contains(out, " PANIC ") || strings.HasSuffix(out, " HANG") {
			e.poisoned = true
			processPoisoned = true
		}
		return out
	case <-time.After(opTimeoutFor(line)):
		e.poisoned = true
		processPoisoned = true
		return "HANG"
	}
}

func (e *exec) do(line string) string {
	ws := strings.Fields(line)
	if len(ws) == 0 {
		return "bad-op"
	}
	if strings.HasPrefix(ws[0], "t") {
		return e.doTrace(ws)
	}
	switch ws[0] {
	case "init":
		if len(ws) != 2 {
			return "bad-op"
		}
		_ = os.Remove(e.file)
		if ws[1] == "1" {
			config.VerifReset(e.file)
		} else {
			config.VerifReset("")
		}
		e.cls = map[int]func() string{}
		e.vfs = map[int]*config.ValidityFlag{}
		e.persp = map[int]*config.Perspective{}
		return "ok"
	case "reg":
		if len(ws) != 9 {
			return "bad-op"
		}
		ot, ok := optType(ws[2])
		rl, err1 := strconv.Atoi(ws[3])
		rx, err2 := strconv.Atoi(ws[4])
		vf, err3 := strconv.Atoi(ws[6])
		mg, err4 := strconv.Atoi(ws[7])
		dv, ok2 := decodeVal(ws[8])
		if !ok || !ok2 || err1 != nil || err2 != nil || err3 != nil || err4 != nil {
			return "bad-op"
		}
		opt := &config.Option{Name: ws[1], Key: ws[1], Description: "d", OptType: ot, ReleaseLevel: config.ReleaseLevel(rl),
			DefaultValue: dv, ValidationRegex: regexCatalogue[rx], ValidationFunc: validationFunc(vf), Migrations: migrationFuncs(mg)}
		switch ws[5] {
		case "-":
		case "e":
			opt.PossibleValues = []config.PossibleValue{}
		default:
			for _, p := range strings.Split(ws[5], ";") {
				tag, rest, _ := cut(p, ':')
				var v any
				switch tag {
				case "s":
					v = unhexS(rest)
				case "i":
					n, err := strconv.Atoi(rest)
					if err != nil {
						return "bad-op"
					}
					v = n
				case "b":
					v = rest == "1"
				default:
					return "bad-op"
				}
				opt.PossibleValues = append(opt.PossibleValues, config.PossibleValue{Name: p, Value: v})
			}
		}
		err := config.Register(opt)
		if err == nil {
			return "ok"
		}
		var ve *config.ValidationError
		if errors.As(err, &ve) {
			return "err default " + vErrClass(ve)
		}
		if strings.Contains(err.Error(), "option.Key") || strings.Contains(err.Error(), "option.Name") {
			return "err nokey"
		}
		return "err other:" + err.Error()
	case "set", "setd", "vv":
		if len(ws) != 3 {
			return "bad-op"
		}
		v, ok := decodeVal(ws[2])
		if !ok {
			return "bad-op"
		}
		switch ws[0] {
		case "set":
			return errClass(config.SetConfigOption(ws[1], v))
		case "setd":
			return errClass(config.SetDefaultConfigOption(ws[1], v))
		default:
			opt, err := config.GetOption(ws[1])
			if err != nil {
				return "err unknown"
			}
			return errClass(opt.ValidateValue(v))
		}
	case "rep", "repd", "valc":
		m, ok := parseKVs(ws[1:])
		if !ok {
			return "bad-op"
		}
		switch ws[0] {
		case "rep":
			es, _ := config.ReplaceConfig(m)
			return errsLine("errs", es)
		case "repd":
			es, _ := config.ReplaceDefaultConfig(m)
			return errsLine("errs", es)
		default:
			es, _, unk := config.ValidateConfig(m)
			s := errsLine("errs", es)
			if unk {
				return s + " unk=1"
			}
			return s + " unk=0"
		}
	case "save":
		if err := config.SaveConfig(); err != nil {
			return "err other:" + err.Error()
		}
		return "ok"
	case "load":
		if len(ws) != 2 {
			return "bad-op"
		}
		err := config.VerifLoadConfig(ws[1] == "1")
		if err == nil {
			return "ok " + errsLine("errs", config.GetLoadedConfigValidationErrors())
		}
		var se *json.SyntaxError
		var ue *json.UnmarshalTypeError
		switch {
		case errors.Is(err, os.ErrNotExist):
			return "err nofile"
		case errors.As(err, &se), errors.As(err, &ue), strings.Contains(err.Error(), "unexpected end of JSON"):
			return "err badjson"
		case strings.HasPrefix(err.Error(), "encountered "):
			return "err invalid " + strings.Fields(err.Error())[1]
		}
		return "err other:" + err.Error()
	case "wfile":
		if len(ws) < 2 {
			return "bad-op"
		}
		switch ws[1] {
		case "absent":
			_ = os.Remove(e.file)
			return "ok"
		case "garbage":
			_ = os.WriteFile(e.file, []byte(`{"a": [1, 2`), 0o600)
			return "ok"
		case "tree":
			m, ok := parseKVs(ws[2:])
			if !ok {
				return "bad-op"
			}
			data, err := json.Marshal(hierarchical(m))
			if err != nil {
				return "bad-op"
			}
			_ = os.WriteFile(e.file, data, 0o600)
			return "ok"
		}
		return "bad-op"
	case "wraw": // implementation-only: raw file content
		if len(ws) != 2 {
			return "bad-op"
		}
		_ = os.WriteFile(e.file, hxlib.UnHex(ws[1]), 0o600)
		return "ok"
	case "rfile":
		return e.readFile()
	case "get", "cget":
		if len(ws) != 3 {
			return "bad-op"
		}
		fb, ok := parseGVal(ws[2])
		if !ok {
			return "bad-op"
		}
		return makeGetter(ws[0] == "cget", ws[1], fb)()
	case "mk":
		if len(ws) != 5 {
			return "bad-op"
		}
		id, err := strconv.Atoi(ws[1])
		fb, ok := parseGVal(ws[4])
		if err != nil || !ok {
			return "bad-op"
		}
		e.cls[id] = makeGetter(ws[2] == "c", ws[3], fb)
		return "ok"
	case "call":
		if len(ws) != 2 {
			return "bad-op"
		}
		id, err := strconv.Atoi(ws[1])
		if err != nil || e.cls[id] == nil {
			return "bad-op"
		}
		return e.cls[id]()
	case "vfnew", "vfrefresh", "vfvalid":
		// config.ValidityFlag (config/validity.go): new flags start invalid, Refresh takes the current global flag
		if len(ws) != 2 {
			return "bad-op"
		}
		id, err := strconv.Atoi(ws[1])
		if err != nil {
			return "bad-op"
		}
		switch ws[0] {
		case "vfnew":
			e.vfs[id] = config.NewValidityFlag()
			return "ok"
		case "vfrefresh":
			if e.vfs[id] == nil {
				return "bad-op"
			}
			e.vfs[id].Refresh()
			return "ok"
		default:
			if e.vfs[id] == nil {
				return "bad-op"
			}
			if e.vfs[id].IsValid() {
				return "valid"
			}
			return "invalid"
		}
	case "uv":
		if len(ws) != 2 {
			return "bad-op"
		}
		opt, err := config.GetOption(ws[1])
		if err != nil {
			return "unknown"
		}
		uv := opt.UserValue()
		set := opt.IsSetByUser()
		if !set {
			if uv != nil {
				return "unset-but-value"
			}
			return "unset"
		}
		return "set " + gvalOf(tyByte(opt.OptType), uv)
	case "active":
		m := config.GetActiveConfigValues()
		items := make([]string, 0, len(m))
		for k, v := range m {
			ty := byte('?')
			if opt, err := config.GetOption(k); err == nil {
				ty = tyByte(opt.OptType)
			}
			items = append(items, k+"="+gvalOf(ty, v))
		}
		return sortedJoin("active", items)
	case "exp":
		if len(ws) != 2 {
			return "bad-op"
		}
		opt, err := config.GetOption(ws[1])
		if err != nil {
			return "unknown"
		}
		r, err := opt.Export()
		if err != nil {
			return "err other:" + err.Error()
		}
		w, ok := r.(*record.Wrapper)
		if !ok {
			return "err other:not-a-wrapper"
		}
		var fields map[string]interface{}
		if err := json.Unmarshal(w.Data, &fields); err != nil {
			return "err other:" + err.Error()
		}
		ty := tyByte(opt.OptType)
		u := "-"
		if v, ok := fields["Value"]; ok {
			u = gvalOf(ty, v)
		}
		return "user=" + u + " default=" + gvalOf(ty, fields["DefaultValue"])
	case "stress":
		if len(ws) != 4 {
			return "bad-op"
		}
		seed, err1 := strconv.ParseInt(ws[1], 10, 64)
		mode, err2 := strconv.Atoi(ws[2])
		n, err3 := strconv.Atoi(ws[3])
		if err1 != nil || err2 != nil || err3 != nil {
			return "bad-op"
		}
		return runStress(seed, mode, n, e.file)
	case "rlgate":
		return strconv.Itoa(int(config.VerifReleaseLevel()))
	case "persp":
		if len(ws) < 2 {
			return "bad-op"
		}
		id, err := strconv.Atoi(ws[1])
		m, ok := parseKVs(ws[2:])
		if err != nil || !ok {
			return "bad-op"
		}
		p, perr := config.NewPerspective(hierarchical(m))
		e.persp[id] = p
		if perr == nil {
			return "ok"
		}
		f := strings.Fields(perr.Error())
		if len(f) > 1 && f[0] == "encountered" {
			return "err " + f[1]
		}
		return "err other:" + perr.Error()
	case "pget":
		if len(ws) != 4 {
			return "bad-op"
		}
		id, err := strconv.Atoi(ws[1])
		if err != nil || e.persp[id] == nil {
			return "bad-op"
		}
		p := e.persp[id]
		switch ws[3] {
		case "s":
			if v, ok := p.GetAsString(ws[2]); ok {
				return gvalOf('s', v)
			}
		case "a":
			if v, ok := p.GetAsStringArray(ws[2]); ok {
				return gvalOf('a', v)
			}
		case "i":
			if v, ok := p.GetAsInt(ws[2]); ok {
				return gvalOf('i', v)
			}
		case "b":
			if v, ok := p.GetAsBool(ws[2]); ok {
				return gvalOf('b', v)
			}
		default:
			return "bad-op"
		}
		return "none"
	case "phas":
		if len(ws) != 3 {
			return "bad-op"
		}
		id, err := strconv.Atoi(ws[1])
		if err != nil || e.persp[id] == nil {
			return "bad-op"
		}
		if e.persp[id].Has(ws[2]) {
			return "true"
		}
		return "false"
	}
	return "bad-op"
}
