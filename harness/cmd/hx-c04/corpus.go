package main

import "verifharness/hxlib"

// corpus: minimised inputs of past findings; always run first.
func corpus() []hxlib.Case {
	h := hexS
	cs := [][]string{
		// release level set in both layers: the user layer must win (fixed)
		{"init 1", "reg a b 1 0 - 0 0 b:0", "set a b:1", "setd core/releaseLevel s:" + h("stable"), "set core/releaseLevel s:" + h("beta"),
			"get core/releaseLevel s:-", "rlgate", "get a b:0"},
		// JSON numbers >= 1e6 against a regex (fixed): save -> load must keep the value
		{"init 1", "reg i i 0 2 - 0 0 i:int:456", "set i i:int:1000000", "save", "rfile", "load 0", "uv i", "set i f:64:1234567", "get i i:-1"},
		// typed nil []string (fixed): save -> load must keep "set to empty"
		{"init 1", "reg z a 0 0 - 0 0 a:" + h("x"), "set z A:", "uv z", "save", "rfile", "load 0", "uv z", "get z a:" + h("fb")},
		// nil / uncomparable values against allowed values (fixed: no panic)
		{"init 1", "reg s s 0 0 s:" + h("a") + ";s:" + h("b") + " 0 0 s:" + h("a"), "rep s=n", "set s y:" + h("a"), "set s s:" + h("b"), "get s s:-",
			"wfile tree s=n", "load 0", "uv s"},
		// lossy conversion of an allowed value (fixed): uint8(200) is not 456
		{"init 1", "reg i i 0 2 i:456 0 0 i:int:456", "set i i:u8:200", "get i i:-1", "set i i:i8:-56", "get i i:-1", "set i f:64:456", "get i i:-1"},
	}
	var out []hxlib.Case
	for _, l := range cs {
		out = append(out, hxlib.Case{Lines: l, Kind: "corpus", NonTrivial: true})
	}
	return out
}
