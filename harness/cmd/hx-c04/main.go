// hx-c04: correspondence harness and property monitor for C04 (config getters / setters / persistence).
package main

import (
	"os"
	"strings"
	"sync/atomic"

	"github.com/safing/portbase/log"

	"verifharness/hxlib"
)

const rule = "A case registers 2-8 options (all four types; explicit regex from a 6-pattern catalogue, allowed values, " +
	"validation function, migration, release level 0-2; defaults accepted by the oracle) on a freshly reset config package and runs a " +
	"history of SetConfigOption / SetDefaultConfigOption / ReplaceConfig / ReplaceDefaultConfig / ValidateConfig / SaveConfig / loadConfig / " +
	"file rewrites / NewPerspective calls interleaved with every observer (fresh and long-lived GetAs* and Concurrent.GetAs* closures, " +
	"Perspective getters, UserValue/IsSetByUser, Export, GetActiveConfigValues, the internal release-level gate, the content of config.json); " +
	"values are drawn 70% aimed at the option (allowed values, pool strings/ints as every Go integer kind, float32/64, []string, []interface{}) " +
	"and 30% from all kinds (nil, typed nil slice, uint64, []byte, maps, structs, -0, fractions, wrong types); every case ends with " +
	"save, read-back, load and a full observer sweep. Kinds: history, release-level (both layers), value-matrix (one option shape x every value kind), " +
	"trace (controlled-schedule interleavings of setter and getter goroutines recorded at the verif hook points, replayed through the Lean " +
	"interleaving model), stress (free-running goroutines, implementation only), impl-only (raw file contents, key sets the file hierarchy " +
	"cannot represent). Non-trivial: at least one state-changing call and one getter observation (trace: more than 4 recorded events); " +
	"distinct = different op-line sequence."

var run *hxlib.Run

type countingExec struct {
	inner hxlib.Exec
	r     *hxlib.Run
}

func (c countingExec) Do(line string) string {
	out := c.inner.Do(line)
	op := line
	if i := strings.IndexByte(line, ' '); i > 0 {
		op = line[:i]
	}
	cls := out
	switch {
	case strings.HasPrefix(out, "err "):
		f := strings.Fields(out)
		cls = strings.Join(f[:min(len(f), 2)], " ")
	case strings.HasPrefix(out, "errs"):
		if strings.Contains(out, ":") {
			cls = "errs (some)"
		} else {
			cls = "errs (none)"
		}
	case strings.HasPrefix(out, "ok"):
		cls = "ok"
	case op == "get" || op == "cget" || op == "call" || op == "pget" || op == "uv" || op == "exp" || op == "active" || op == "rfile" || op == "rlgate" || op == "phas":
		cls = "value"
	}
	if !strings.HasPrefix(op, "t") {
		c.r.Count("outcome:" + op + ":" + cls)
	}
	return out
}

func (c countingExec) Close() error {
	if cl, ok := c.inner.(interface{ Close() error }); ok {
		return cl.Close()
	}
	return nil
}

func generate(r *hxlib.Run, emit0 func(hxlib.Case)) {
	run = r
	emit := func(c hxlib.Case) {
		if !processPoisoned {
			emit0(c)
		}
	}
	// regression cases first (minimised past findings)
	if os.Getenv("C04_NO_CORPUS") == "" { // (switch used to show that the generators find the corpus defects on their own)
		for _, c := range corpus() {
			emit(c)
		}
	}
	for i := 0; i < r.Budget(100, 400); i++ {
		emit(valueMatrixCase(r, i))
	}
	nHist := r.Budget(3000, 15000)
	for i := 0; i < nHist && !processPoisoned; i++ {
		emit(historyCase(r, "history"))
		if i%5 == 0 {
			emit(releaseLevelCase(r))
		}
		if i%10 == 0 {
			emit(implOnlyCase(r))
		}
	}
	nTrace := r.Budget(5000, 30000)
	for i := 0; i < nTrace && !processPoisoned; i++ {
		emit(traceCase(r))
	}
	for i := 0; i < r.Budget(6, 60); i++ {
		emit(stressCase(r, i))
	}
}

func main() {
	// no log output from the config package's error paths (and no goroutine per suppressed line)
	log.SetLogLevel(log.CriticalLevel)
	hxlib.Main(&hxlib.Harness{
		Prop:     "C04",
		Rule:     rule,
		Generate: generate,
		NewExec:  func(r *hxlib.Run) hxlib.Exec { return countingExec{inner: newExec(r), r: r} },
		Monitor:  monitor,
		DisSig: func(line, impl, model string) string {
			return "corr:" + strings.Fields(line)[0]
		},
		Extra: func(r *hxlib.Run) map[string]any {
			return map[string]any{"stress_getter_calls": atomic.LoadInt64(&stressCalls), "stress_sets": atomic.LoadInt64(&stressSets)}
		},
	})
}
