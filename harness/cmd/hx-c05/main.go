// hx-c05: trace-validation harness and property monitor for C05
// ("Stopping a module waits for all of its managed work", package modules).
//
// Every scenario is run on the REAL package in a child process (the module system is process-global); the
// verif-tagged hooks record one event per atomic protocol step, bracketed so that the log order is a legal
// linearisation. The recorded trace is (a) replayed through the compiled Lean model (acceptor), (b) judged by
// the monitor, which reads the property statement literally on harness-level observations.
package main

import (
	"bufio"
	"bytes"
	"encoding/json"
	"fmt"
	"io"
	"math/rand"
	"os"
	"os/exec"
	"runtime"
	"strconv"
	"strings"
	"sync"
	"time"

	"verifharness/hxlib"
)

const rule = "case = one scenario (dependency graph of 1-5 modules; per module 0-8 work items of the kinds worker, service worker, " +
	"task, prioritized task, microtask high/medium/low, signalled microtask high/medium/low, event hook (own event / dependency's event); " +
	"return delays after cancellation; nil/ok/failing/panicking stop routine with its own delay; Shutdown or module-management stop, " +
	"restart and second stop; late work on stopped modules; other life cycles: start routines that launch work and then fail (error / panic, " +
	"in the initial Start or in a later ManageModules; one or two failing attempts, retry through ManageModules, or never retried), work started " +
	"from the prep routine or before modules.Start, restart after a stop that timed out; every executing piece of work reports the context it " +
	"actually holds inside the stop routine; random delays and forced holds at the hooked protocol steps) executed on the real " +
	"package in a child process; its lines are the recorded atomic events. A case is non-trivial if at least one stop cycle with running " +
	"work or a stop routine was recorded; distinct = distinct recorded traces. Corrupted copies of recorded traces (x-lines) must be rejected by the model."

// ---- running a scenario ---------------------------------------------------------------------------

type runResult struct {
	lines []string
	err   string // "" | crash | wedged
	info  string
}

func runChild(s *Scn) runResult {
	spec, _ := json.Marshal(s)
	cmd := exec.Command(os.Args[0])
	cmd.Env = append(os.Environ(), "HX_C05_CHILD=1")
	cmd.Stdin = bytes.NewReader(append(spec, '\n'))
	pr, pw, err := os.Pipe()
	if err != nil {
		return runResult{err: "crash", info: err.Error()}
	}
	cmd.ExtraFiles = []*os.File{pw}
	var stderr bytes.Buffer
	cmd.Stderr = &stderr
	cmd.Stdout = io.Discard
	if err := cmd.Start(); err != nil {
		pw.Close()
		pr.Close()
		return runResult{err: "crash", info: err.Error()}
	}
	pw.Close()
	var lines []string
	done := make(chan struct{})
	go func() {
		sc := bufio.NewScanner(pr)
		sc.Buffer(make([]byte, 1<<20), 1<<24)
		for sc.Scan() {
			lines = append(lines, sc.Text())
		}
		close(done)
	}()
	waitErr := make(chan error, 1)
	go func() { waitErr <- cmd.Wait() }()
	var werr error
	select {
	case werr = <-waitErr:
	case <-time.After(90 * time.Second):
		cmd.Process.Kill()
		werr = <-waitErr
	}
	<-done
	pr.Close()
	res := runResult{lines: lines}
	ended := len(lines) > 0 && lines[len(lines)-1] == "h END"
	if werr != nil || !ended {
		res.err = "crash"
		if len(lines) > 0 && lines[len(lines)-1] == "h WATCHDOG" {
			res.err = "wedged"
		}
		e := stderr.String()
		if len(e) > 1500 {
			e = e[:1500]
		}
		res.info = fmt.Sprintf("%v: %s", werr, e)
	}
	return res
}

func scnLine(s *Scn) string {
	deps := make([]string, len(s.Mods))
	for i, m := range s.Mods {
		if len(m.Deps) == 0 {
			deps[i] = "-"
			continue
		}
		ds := make([]string, len(m.Deps))
		for k, d := range m.Deps {
			ds[k] = strconv.Itoa(d)
		}
		deps[i] = strings.Join(ds, ",")
	}
	spec, _ := json.Marshal(s)
	return fmt.Sprintf("scn n=%d deps=%s %s", len(s.Mods), strings.Join(deps, ";"), spec)
}

func parseScn(line string) (*Scn, bool) {
	f := strings.SplitN(line, " ", 4)
	if len(f) != 4 || f[0] != "scn" {
		return nil, false
	}
	var s Scn
	if json.Unmarshal([]byte(f[3]), &s) != nil {
		return nil, false
	}
	return &s, true
}

// ---- generator ------------------------------------------------------------------------------------

var itemKinds = []string{"w", "w", "w", "sw", "t", "tp", "mh", "mm", "ml", "sh", "sm", "sl", "hk", "hx"}

func genItems(rng *rand.Rand, nmax int, hasDep bool, cycle int, maxDelay int, tasksLeft *int) []Item {
	n := rng.Intn(nmax + 1)
	var items []Item
	for j := 0; j < n; j++ {
		k := itemKinds[rng.Intn(len(itemKinds))]
		if k == "hx" && !hasDep {
			k = "hk"
		}
		it := Item{Kind: k, Cycle: cycle}
		switch rng.Intn(4) {
		case 0:
			it.Delay = 0
		case 1:
			it.Delay = rng.Intn(5)
		default:
			it.Delay = rng.Intn(maxDelay + 1)
		}
		if k == "t" || k == "tp" {
			// the task queue runs one task at a time: only the first one can be awaited
			if *tasksLeft <= 0 {
				it.At = "race"
			}
			*tasksLeft--
		}
		switch rng.Intn(10) {
		case 0:
			it.Ret = "err"
		case 1:
			it.Ret = "panic"
		case 2:
			it.Ret = "ctxerr"
		case 3:
			if k == "sw" {
				it.Ret = "restart"
			}
		}
		if k == "sw" {
			// what a service worker answers to the cancellation, drawn uniformly
			it.Ret = []string{"", "ctxerr", "cancelwrap", "restartnow", "restartwrap", "err", "panic", "restart"}[rng.Intn(8)]
		}
		if k[0] == 's' && k != "sw" {
			it.Ret = ""
		}
		if rng.Intn(7) == 0 {
			it.Self = true
			it.Delay = rng.Intn(12)
		}
		if it.At == "" {
			switch rng.Intn(8) {
			case 0:
				it.At = "race"
			case 1:
				if cycle == 0 && (k == "w" || k == "sw" || k == "mh") {
					it.At = "start"
				}
			}
		}
		items = append(items, it)
	}
	return items
}

var stopFns = []string{"", "ok", "ok", "ok", "err", "panic"}
var lateKinds = []string{"w", "mh", "mm", "sh", "t", "ev"}

func genScenario(rng *rand.Rand, kind string) *Scn {
	s := &Scn{StopTimeout: 6000, Seed: rng.Int63()}
	n := 1
	switch kind {
	case "single", "timeout":
		n = 1
	case "graph", "race":
		n = 2 + rng.Intn(4)
	case "mgmt":
		n = 1 + rng.Intn(4)
	}
	maxDelay := 30
	if rng.Intn(6) == 0 {
		maxDelay = 120
	}
	tasksLeft := 1
	for i := 0; i < n; i++ {
		m := Mod{Deps: []int{}}
		for d := 0; d < i; d++ {
			if rng.Intn(3) == 0 || (kind == "graph" && d == i-1 && rng.Intn(2) == 0) {
				m.Deps = append(m.Deps, d)
			}
		}
		if rng.Intn(2) == 0 {
			m.StartFn = "ok"
		}
		m.StopFn = stopFns[rng.Intn(len(stopFns))]
		if m.StopFn != "" {
			switch rng.Intn(3) {
			case 1:
				m.StopDelay = rng.Intn(5)
			case 2:
				m.StopDelay = rng.Intn(maxDelay + 1)
			}
		}
		nmax := 4
		if n == 1 {
			nmax = 8
		}
		m.Items = genItems(rng, nmax, len(m.Deps) > 0, 0, maxDelay, &tasksLeft)
		for _, k := range lateKinds {
			if rng.Intn(3) == 0 {
				m.Late = append(m.Late, k)
			}
		}
		s.Mods = append(s.Mods, m)
	}
	for i := range s.Mods {
		for j := range s.Mods[i].Items {
			if s.Mods[i].Items[j].At == "start" && s.Mods[i].StartFn == "" {
				s.Mods[i].Items[j].At = ""
			}
		}
	}
	switch rng.Intn(4) {
	case 0:
	case 1:
		s.YieldPm, s.YieldMaxUs = 100, 0
	case 2:
		s.YieldPm, s.YieldMaxUs = 200, 300
	case 3:
		s.YieldPm, s.YieldMaxUs = 500, 1500
	}
	if kind == "race" {
		s.YieldPm, s.YieldMaxUs = 600, 800
		for i := range s.Mods {
			for j := range s.Mods[i].Items {
				if s.Mods[i].Items[j].At == "" && rng.Intn(2) == 0 {
					s.Mods[i].Items[j].At = "race"
				}
			}
		}
	}
	switch kind {
	case "timeout":
		s.StopTimeout = 150
		s.Mods[0].Items = append(s.Mods[0].Items, Item{Kind: []string{"w", "mh", "tp"}[rng.Intn(3)], Delay: 450})
		s.Script = []string{"start", "work 0", "shutdown", "late"}
	case "mgmt":
		s.Mgmt = true
		// enable the modules nobody depends on
		hasRev := make([]bool, n)
		for _, m := range s.Mods {
			for _, d := range m.Deps {
				hasRev[d] = true
			}
		}
		var tops []int
		for i := range s.Mods {
			if !hasRev[i] {
				s.Mods[i].Enabled = true
				tops = append(tops, i)
			}
		}
		x := tops[rng.Intn(len(tops))]
		tl := 1
		for i := range s.Mods {
			s.Mods[i].Items = append(s.Mods[i].Items, genItems(rng, 3, len(s.Mods[i].Deps) > 0, 1, maxDelay, &tl)...)
		}
		s.Script = []string{"start", "work 0", fmt.Sprintf("disable %d", x), "manage", "late", fmt.Sprintf("enable %d", x), "manage", "work 1", "shutdown", "late"}
		if rng.Intn(4) == 0 { // two restarts
			s.Script = []string{"start", "work 0", fmt.Sprintf("disable %d", x), "manage", fmt.Sprintf("enable %d", x), "manage",
				fmt.Sprintf("disable %d", x), "manage", "late", fmt.Sprintf("enable %d", x), "manage", "work 1", "shutdown", "late"}
		}
	default:
		s.Script = []string{"start", "work 0", "shutdown", "late"}
		if rng.Intn(5) == 0 {
			s.Script = []string{"start", "work 0", fmt.Sprintf("sleep %d", rng.Intn(10)), "shutdown", "late"}
		}
	}
	if kind != "timeout" {
		shortenForRestarters(s)
		longBackoffs(rng, s, 2)
	}
	return s
}

// promptBoundMs: the monitor's reading of "promptly" for a scenario (see monitor.go): half the stop timeout, at least 1.5 s.
func promptBoundMs(s *Scn) int {
	b := promptUs / 1000
	if h := s.StopTimeout / 2; h > b {
		b = h
	}
	return b
}

// longBackoffs gives (one in `oneIn` of) the service workers that end a run with a plain error or a panic a back-off
// between the monitor's promptness bound and the stop timeout: what such a worker does between two runs of its
// function — it waits, counted as a running worker — must be ended by the stop, not waited out. (With the harness'
// default of 5 ms the wait is over before anybody could notice.)
func longBackoffs(rng *rand.Rand, s *Scn, oneIn int) {
	lo, hi := promptBoundMs(s)+500, s.StopTimeout-300
	if hi <= lo {
		return
	}
	for i := range s.Mods {
		for j := range s.Mods[i].Items {
			it := &s.Mods[i].Items[j]
			if it.Kind == "sw" && (it.Ret == "err" || it.Ret == "panic") && rng.Intn(oneIn) == 0 {
				it.Backoff = lo + rng.Intn(hi-lo)
			}
		}
	}
}

// forced two-party orders (finisher vs. stopper) on a single module with two workers and a stop routine
func genForced(rng *rand.Rand, which string) *Scn {
	s := &Scn{StopTimeout: 6000, Seed: rng.Int63()}
	m := Mod{Deps: []int{}, StopFn: "ok", StartFn: "ok"}
	switch which {
	case "self-finishers":
		// items that finish on their own at about the time the stop begins: their decrement and check race with
		// every step of the stopper
		for k := 0; k < 6; k++ {
			m.Items = append(m.Items, Item{Kind: []string{"w", "mh", "sh", "tp", "sw", "hk"}[k], Delay: rng.Intn(4), Self: true, At: "race"})
		}
		s.YieldPm, s.YieldMaxUs = 700, 400
	case "stopper-held-before-stopfn":
		// finishers decrement and run their checks while the control flag is still manually set
		m.Items = []Item{{Kind: "w", Delay: 0}, {Kind: "t", Delay: 0}, {Kind: "mm", Delay: 0}}
		s.Holds = []Hold{{Point: "ctrlSet", Mod: 0, Nth: 1, UntilPoint: "cCtrl", UntilMod: 0, UntilCount: 3, MaxMs: 400, AfterPoint: "sFlag", AfterCount: 1}}
	case "two-finishers-race-cas":
		// the stop routine returns at once; every check then waits at its fast path until both workers have
		// decremented: three goroutines pass the fast path, one wins the CAS, the others find the stop completed
		m.Items = []Item{{Kind: "w", Delay: 10}, {Kind: "w", Delay: 10}}
		s.Holds = []Hold{
			{Point: "cFast", Mod: 0, Nth: 0, UntilPoint: "dec", UntilMod: 0, UntilCount: 2, MaxMs: 400, AfterPoint: "sFlag", AfterCount: 1},
		}
	case "new-work-during-stop":
		// a worker started after the flag was set while an old one is still running
		m.Items = []Item{{Kind: "w", Delay: 40}, {Kind: "w", Delay: 5, At: "race"}, {Kind: "mh", Delay: 5, At: "race"}}
		s.Holds = []Hold{{Point: "inc", Mod: 0, Nth: 1, UntilPoint: "sFlag", UntilMod: 0, UntilCount: 1, MaxMs: 400, AfterPoint: "workEnter", AfterCount: 1},
			{Point: "inc", Mod: 0, Nth: 2, UntilPoint: "sCancel", UntilMod: 0, UntilCount: 1, MaxMs: 400, AfterPoint: "workEnter", AfterCount: 1}}
	case "service-worker-answers":
		// one service worker per kind of answer to the cancellation
		for _, r := range []string{"", "ctxerr", "cancelwrap", "restartnow", "restartwrap", "err", "panic", "restart"} {
			m.Items = append(m.Items, Item{Kind: "sw", Delay: rng.Intn(6), Ret: r})
		}
	case "service-worker-backoff":
		// Service workers whose function ends with a plain error or a panic — shortly before the stop (they are in
		// their back-off wait when it begins) or as their answer to the cancellation (they enter it with the context
		// already cancelled). The back-off is longer than the monitor's promptness bound; mostly shorter than the stop
		// timeout (variant 2: longer, so that waiting it out means waiting out the stop timeout).
		switch rng.Intn(4) {
		case 0:
			s.StopTimeout = 6000
		case 1:
			s.StopTimeout = 4000
		default:
			s.StopTimeout = 3000
		}
		lo := promptBoundMs(s) + 500
		bo := func() int {
			if s.StopTimeout == 3000 && rng.Intn(4) == 0 {
				return 4000 + rng.Intn(1000)
			}
			return lo + rng.Intn(s.StopTimeout-300-lo)
		}
		m.StopFn = []string{"", "ok", "ok", "panic"}[rng.Intn(4)]
		if m.StopFn != "" {
			m.StopDelay = rng.Intn(15)
		}
		n := 1 + rng.Intn(3)
		for k := 0; k < n; k++ {
			it := Item{Kind: "sw", Ret: []string{"err", "err", "panic"}[rng.Intn(3)], Backoff: bo()}
			if rng.Intn(2) == 0 {
				// fails on its own a few ms after it was started
				it.Self, it.Delay = true, rng.Intn(12)
			} else {
				it.Delay = rng.Intn(25)
			}
			if rng.Intn(5) == 0 {
				it.At = "start"
			}
			m.Items = append(m.Items, it)
		}
		if rng.Intn(2) == 0 {
			m.Items = append(m.Items, Item{Kind: []string{"w", "mh", "tp", "sh"}[rng.Intn(4)], Delay: rng.Intn(30)})
		}
		switch rng.Intn(3) {
		case 1:
			s.YieldPm, s.YieldMaxUs = 200, 300
		case 2:
			s.YieldPm, s.YieldMaxUs = 500, 1200
		}
		switch rng.Intn(3) {
		case 0:
			// a dependency that has to wait for the module with the service workers
			dep := Mod{Deps: []int{}, StopFn: "ok"}
			m.Deps = []int{0}
			s.Mods = []Mod{dep, m}
			s.Script = []string{"start", "work 0", fmt.Sprintf("sleep %d", rng.Intn(25)), "shutdown", "late"}
		case 1:
			// stopped by a management pass, started again (the service workers of the start routine too), shut down
			s.Mgmt, s.NoNotify = true, true
			m.Enabled = true
			for j := range m.Items {
				if m.Items[j].At == "" && rng.Intn(2) == 0 {
					m.Items = append(m.Items, m.Items[j])
					m.Items[len(m.Items)-1].Cycle = 1
				}
			}
			s.Mods = []Mod{m, {Deps: []int{}, Enabled: true}}
			s.Script = []string{"start", "work 0", fmt.Sprintf("sleep %d", rng.Intn(25)), "disable 0", "manage", "enable 0", "manage", "work 1", "shutdown", "late"}
		default:
			s.Mods = []Mod{m}
			s.Script = []string{"start", "work 0", fmt.Sprintf("sleep %d", rng.Intn(25)), "shutdown", "late"}
		}
		return s
	case "stopfn-last":
		m.StopDelay = 40
		m.Items = []Item{{Kind: "w", Delay: 0}, {Kind: "sh", Delay: 0}}
	case "stopfn-nil-stopper-completes":
		m.StopFn = ""
		m.Items = nil
	}
	s.Mods = []Mod{m}
	s.Script = []string{"start", "work 0", "shutdown", "late"}
	shortenForRestarters(s)
	return s
}

// shortenForRestarters: scenarios with a service worker that answers the cancellation with ErrRestartNow use a 3 s stop
// timeout, so that an implementation that keeps re-running it is observed waiting out the timeout at moderate cost.
func shortenForRestarters(s *Scn) {
	for _, m := range s.Mods {
		for _, it := range m.Items {
			if it.Kind == "sw" && !it.Self && (it.Ret == "restartnow" || it.Ret == "restartwrap") && s.StopTimeout > 3000 {
				s.StopTimeout = 3000
			}
		}
	}
}

// regression scenarios for the two straggler races of the pinned tree (DESIGN.md §7 item 30 and the late
// start-goroutine UnSet), both repaired by fix: commits. The same forced schedules that produced a premature
// Offline before the repair must now satisfy the property (the parked goroutine simply delays the stop).
func genFinding(rng *rand.Rand, which string) *Scn {
	s := &Scn{StopTimeout: 6000, Seed: rng.Int63(), Mgmt: true, NoNotify: true}
	switch which {
	case "stale-checker":
		// cycle 1: two workers; every check waits until both have decremented; the first to arrive at the CAS is
		// parked (until the second cycle's cancel, which with the repair cannot happen before it moves on, so the
		// hold runs into its limit). cycle 2: one worker that needs 300 ms to return.
		m := Mod{Deps: []int{}, StopFn: "ok", Enabled: true, Items: []Item{
			{Kind: "w", Delay: 5}, {Kind: "w", Delay: 5}, {Kind: "w", Delay: 300, Cycle: 1}}}
		keep := Mod{Deps: []int{}, Enabled: true}
		s.Mods = []Mod{m, keep}
		s.Holds = []Hold{
			{Point: "cFast", Mod: 0, Nth: 0, UntilPoint: "dec", UntilMod: 0, UntilCount: 2, MaxMs: 500, AfterPoint: "sFlag", AfterCount: 1},
			{Point: "cCas", Mod: 0, Nth: 1, UntilPoint: "sCancel", UntilMod: 0, UntilCount: 2, MaxMs: 300, AfterPoint: "sFlag", AfterCount: 1},
		}
		s.Script = []string{"start", "work 0", "disable 0", "manage", "enable 0", "manage", "work 1", "disable 0", "manage", "shutdown"}
	case "late-start-unset":
		// the start routine's goroutine is parked before its deferred UnSet (until the stopper has set the stop flag,
		// which with the repair cannot happen before the start completed); the stopper is parked before the cancel
		// until a check has read the control flag.
		m := Mod{Deps: []int{}, StartFn: "ok", StopFn: "ok", StopDelay: 250}
		s.Mgmt = false
		s.Mods = []Mod{m}
		s.Holds = []Hold{
			{Point: "ctrlUnset", Mod: 0, Nth: 1, UntilPoint: "sFlag", UntilMod: 0, UntilCount: 1, MaxMs: 300},
			{Point: "sCancel", Mod: 0, Nth: 1, UntilPoint: "cM", UntilMod: 0, UntilCount: 1, MaxMs: 200},
		}
		s.Script = []string{"start", "work 0", "shutdown"}
	}
	return s
}

// ---- other life cycles than start → stop → start ---------------------------------------------------
//
// A module gets a context without being stopped afterwards when its start routine fails (status back to offline,
// nothing else reset) or when work is started before its first start (prep phase, or right after registration).
// The families below put work of every kind into these phases, retry the start through ManageModules (or never),
// and then stop the module (management or Shutdown) with that work still executing.

var lifecycleKinds = []string{"failstart-initial", "failstart-managed", "failstart-noretry", "prep-work", "restart-after-timeout"}

// kinds that a lifecycle routine can launch; tasks and event hooks only where the task handlers run (after a
// successful modules.Start) — a hook triggered while the module is starting waits for the start to complete
var routineKinds = []string{"w", "w", "sw", "mh", "mm", "ml", "sh", "sm", "sl"}
var routineKindsOnline = []string{"w", "w", "sw", "mh", "mm", "ml", "sh", "sm", "sl", "t", "tp", "hk"}

func routineItem(rng *rand.Rand, kinds []string, at string, long bool) Item {
	k := kinds[rng.Intn(len(kinds))]
	it := Item{Kind: k, At: at}
	switch rng.Intn(4) {
	case 0:
		it.Delay = 0
	case 1:
		it.Delay = rng.Intn(6)
	case 2:
		it.Delay = rng.Intn(40)
	default:
		// takes a while to react to the cancellation: still executing when a stop that follows soon begins
		it.Delay = 60 + rng.Intn(120)
	}
	if long {
		it.Delay = 120 + rng.Intn(120)
	}
	if k == "sw" {
		it.Ret = []string{"", "ctxerr", "cancelwrap", "restartnow", "restartwrap", "err", "panic"}[rng.Intn(7)]
	} else if k[0] != 's' {
		it.Ret = []string{"", "", "", "err", "panic", "ctxerr"}[rng.Intn(6)]
	}
	return it
}

func genLifecycle(rng *rand.Rand, which string) *Scn {
	s := &Scn{StopTimeout: 3000, Seed: rng.Int63(), Mgmt: true, NoNotify: rng.Intn(2) == 0}
	n := 1 + rng.Intn(3)
	tasksLeft := 1
	for i := 0; i < n; i++ {
		m := Mod{Deps: []int{}}
		for d := 0; d < i; d++ {
			if rng.Intn(3) == 0 {
				m.Deps = append(m.Deps, d)
			}
		}
		if rng.Intn(2) == 0 {
			m.StartFn = "ok"
		}
		m.StopFn = stopFns[rng.Intn(len(stopFns))]
		if m.StopFn != "" && rng.Intn(2) == 0 {
			m.StopDelay = rng.Intn(20)
		}
		m.Items = genItems(rng, 3, len(m.Deps) > 0, 0, 30, &tasksLeft)
		for j := range m.Items {
			if m.Items[j].At == "start" && m.StartFn == "" {
				m.Items[j].At = ""
			}
		}
		for _, k := range lateKinds {
			if rng.Intn(4) == 0 {
				m.Late = append(m.Late, k)
			}
		}
		s.Mods = append(s.Mods, m)
	}
	hasRev := make([]bool, n)
	for _, m := range s.Mods {
		for _, d := range m.Deps {
			hasRev[d] = true
		}
	}
	var tops []int
	for i := range s.Mods {
		if !hasRev[i] {
			s.Mods[i].Enabled = true
			tops = append(tops, i)
		}
	}
	switch rng.Intn(4) {
	case 1:
		s.YieldPm, s.YieldMaxUs = 100, 0
	case 2:
		s.YieldPm, s.YieldMaxUs = 200, 300
	case 3:
		s.YieldPm, s.YieldMaxUs = 500, 1200
	}
	failKind := []string{"err", "panic"}[rng.Intn(2)]
	stopKind := []string{"ok", "ok", "ok", "err", "panic"}[rng.Intn(5)] // the module under test has a stop routine: clause 1 is observed in it
	switch which {
	case "failstart-initial", "failstart-noretry":
		// the start routine of x launches work and fails inside modules.Start
		x := rng.Intn(n)
		mx := &s.Mods[x]
		mx.StartFn, mx.StartFails, mx.StopFn = failKind, 1+rng.Intn(2), stopKind
		if which == "failstart-noretry" {
			mx.StartFails = -1
		}
		for j := range mx.Items { // what the work op starts on x belongs to its online phase
			if mx.Items[j].At == "start" {
				mx.Items[j].At = ""
			}
		}
		k := 1 + rng.Intn(4)
		for j := 0; j < k; j++ {
			mx.Items = append(mx.Items, routineItem(rng, routineKinds, "start", j == 0 && rng.Intn(2) == 0))
		}
		// after a failed modules.Start the task handlers are not running: no awaited tasks
		for i := range s.Mods {
			for j := range s.Mods[i].Items {
				if it := &s.Mods[i].Items[j]; (it.Kind == "t" || it.Kind == "tp") && it.At == "" {
					it.At = "race"
				}
			}
		}
		s.Script = []string{"start", "obs"}
		tries := mx.StartFails
		if tries < 0 {
			tries = 1 + rng.Intn(2)
		}
		for t := 0; t < tries; t++ {
			s.Script = append(s.Script, "manage", "obs")
		}
		if which == "failstart-initial" {
			s.Script = append(s.Script, "work 0")
			if rng.Intn(3) == 0 {
				s.Script = append(s.Script, fmt.Sprintf("sleep %d", rng.Intn(30)))
			}
			if rng.Intn(3) == 0 { // stop x through module management first, restart it, then shut down
				s.Script = append(s.Script, fmt.Sprintf("disable %d", tops[0]), "manage", "late", fmt.Sprintf("enable %d", tops[0]), "manage", "obs")
			}
		}
		s.Script = append(s.Script, "shutdown", "late")
	case "failstart-managed":
		// x is enabled only after modules.Start succeeded for the others; its first start attempt(s) fail in ManageModules
		if n == 1 {
			s.Mods = append(s.Mods, Mod{Deps: []int{}, Enabled: true})
		}
		x := tops[rng.Intn(len(tops))]
		mx := &s.Mods[x]
		mx.Enabled = false
		mx.StartFn, mx.StartFails, mx.StopFn = failKind, 1+rng.Intn(2), stopKind
		for j := range mx.Items {
			mx.Items[j].Cycle = 1
			if mx.Items[j].At == "start" {
				mx.Items[j].At = ""
			}
		}
		k := 1 + rng.Intn(4)
		for j := 0; j < k; j++ {
			mx.Items = append(mx.Items, routineItem(rng, routineKindsOnline, "start", j == 0 && rng.Intn(2) == 0))
		}
		s.Script = []string{"start", "work 0", fmt.Sprintf("enable %d", x)}
		for t := 0; t <= mx.StartFails; t++ {
			s.Script = append(s.Script, "manage", "obs")
		}
		s.Script = append(s.Script, "work 1")
		if rng.Intn(2) == 0 {
			s.Script = append(s.Script, fmt.Sprintf("disable %d", x), "manage", "late", "obs")
			if rng.Intn(2) == 0 {
				s.Script = append(s.Script, fmt.Sprintf("enable %d", x), "manage", "obs")
			}
		}
		s.Script = append(s.Script, "shutdown", "late")
	case "prep-work":
		s.Mgmt = rng.Intn(2) == 0
		for i := range s.Mods {
			m := &s.Mods[i]
			if i > 0 && rng.Intn(3) == 0 {
				continue
			}
			if rng.Intn(4) != 0 {
				m.StopFn = stopKind
			}
			if rng.Intn(3) != 0 {
				m.PrepFn = "ok"
				for j, k := 0, 1+rng.Intn(3); j < k; j++ {
					m.Items = append(m.Items, routineItem(rng, []string{"w", "w", "sw", "mh", "mm", "sh"}, "prep", j == 0))
				}
			}
			if rng.Intn(2) == 0 {
				for j, k := 0, 1+rng.Intn(2); j < k; j++ {
					m.Items = append(m.Items, routineItem(rng, []string{"w", "sw", "mh", "sh"}, "reg", j == 0 && m.PrepFn == ""))
				}
			}
		}
		s.Script = []string{"start", "obs", "work 0", "shutdown", "late"}
	case "restart-after-timeout":
		// the first stop of module 0 times out on a worker that ignores the cancellation for a while; the module is
		// started again (and stopped again) while that worker is still executing. Variant A: the worker outlives both
		// stops (both time out). Variant B: it returns during the second stop, which has to wait for it. (The margins
		// are wide: with a short timeout a descheduled stopper finds both its channel and its timer ready.)
		s.StopTimeout = 150
		slow := 1500 + rng.Intn(200)
		if rng.Intn(2) == 0 {
			s.StopTimeout = 1500
			slow = 2000 + rng.Intn(300)
		}
		s.NoNotify = true
		m := Mod{Deps: []int{}, StopFn: "ok", Enabled: true, StartFn: []string{"", "ok"}[rng.Intn(2)], Items: []Item{
			{Kind: []string{"w", "mh", "sw", "tp"}[rng.Intn(4)], Delay: slow},
			{Kind: "w", Delay: rng.Intn(10)},
			{Kind: []string{"w", "mm", "sh", "t"}[rng.Intn(4)], Delay: rng.Intn(30), Cycle: 1}}}
		s.Mods = []Mod{m, {Deps: []int{}, Enabled: true}}
		s.YieldPm, s.YieldMaxUs = 0, 0
		s.Script = []string{"start", "work 0", "disable 0", "manage", "obs", "enable 0", "manage", "obs", "work 1", "shutdown", "late"}
	}
	shortenForRestarters(s)
	if which != "restart-after-timeout" {
		longBackoffs(rng, s, 2)
	}
	return s
}

var forcedKinds = []string{"service-worker-answers", "service-worker-backoff", "self-finishers", "stopper-held-before-stopfn", "two-finishers-race-cas",
	"new-work-during-stop", "stopfn-last", "stopfn-nil-stopper-completes"}

type job struct {
	kind string
	scn  *Scn
	res  runResult
}

func gen(r *hxlib.Run, emit func(hxlib.Case)) {
	var jobs []*job
	add := func(kind string, s *Scn) { jobs = append(jobs, &job{kind: kind, scn: s}) }
	// regression / forced cases first
	for _, k := range []string{"stale-checker", "late-start-unset"} {
		for i := 0; i < r.Budget(2, 6); i++ {
			add("regression:"+k, genFinding(r.Rng, k))
		}
	}
	for _, k := range forcedKinds {
		for i := 0; i < r.Budget(3, 40); i++ {
			add("forced:"+k, genForced(r.Rng, k))
		}
	}
	for i := 0; i < r.Budget(2, 8); i++ {
		add("timeout", genScenario(r.Rng, "timeout"))
	}
	for _, k := range lifecycleKinds {
		nk := r.Budget(30, 400)
		if k == "restart-after-timeout" {
			nk = r.Budget(4, 40)
		}
		for i := 0; i < nk; i++ {
			add("lifecycle:"+k, genLifecycle(r.Rng, k))
		}
	}
	n := r.Budget(800, 12000)
	if v, err := strconv.Atoi(os.Getenv("HX_C05_SCALE_PERCENT")); err == nil && v > 0 {
		n = n * v / 100 // development aid (mutation runs); never set by ./check
	}
	for i := 0; i < n; i++ {
		var k string
		switch x := r.Rng.Intn(10); {
		case x < 3:
			k = "single"
		case x < 6:
			k = "graph"
		case x < 8:
			k = "mgmt"
		default:
			k = "race"
		}
		add(k, genScenario(r.Rng, k))
	}
	// run the children in a pool, emit in generation order
	workers := runtime.NumCPU() / 2
	if workers < 2 {
		workers = 2
	}
	if workers > 8 {
		workers = 8
	}
	doneCh := make([]chan struct{}, len(jobs))
	for i := range doneCh {
		doneCh[i] = make(chan struct{})
	}
	next := make(chan int, len(jobs))
	for i := range jobs {
		next <- i
	}
	close(next)
	var wg sync.WaitGroup
	for w := 0; w < workers; w++ {
		wg.Add(1)
		go func() {
			defer wg.Done()
			for i := range next {
				jobs[i].res = runChild(jobs[i].scn)
				close(doneCh[i])
			}
		}()
	}
	mutRng := rand.New(rand.NewSource(r.Rng.Int63()))
	for i, j := range jobs {
		<-doneCh[i]
		lines := append([]string{scnLine(j.scn)}, j.res.lines...)
		if j.res.err != "" {
			lines = append(lines, "h CHILD-FAILED "+j.res.err+" "+strings.ReplaceAll(j.res.info, "\n", " | "))
		}
		tr := parseTrace(lines)
		countTrace(r, j, tr)
		emit(hxlib.Case{Lines: lines, Kind: j.kind, NonTrivial: tr.nonTrivial()})
		// corrupted copies: the acceptor must reject them
		if j.res.err == "" && i%6 == 0 {
			for _, mc := range mutateTrace(mutRng, lines) {
				r.Count("corrupted:" + mc.Kind)
				emit(mc)
			}
		}
	}
	wg.Wait()
}

// mutateTrace builds corrupted copies of an accepted trace; each corruption is illegal in every model state.
// (A `workEnter`/`ctxObs` line is `e <mod> <act> <cancelled> <launch> gen=<k> …`.)
func mutateTrace(rng *rand.Rand, lines []string) []hxlib.Case {
	var out []hxlib.Case
	mk := func(kind string, body []string) {
		ls := []string{lines[0]}
		for _, l := range body {
			if strings.HasPrefix(l, "e ") || strings.HasPrefix(l, "p ") {
				ls = append(ls, "x "+l)
			}
		}
		ls = append(ls, "xend")
		out = append(out, hxlib.Case{Lines: ls, Kind: "corrupted-trace:" + kind})
	}
	body := lines[1:]
	find := func(act string) []int {
		var idx []int
		for i, l := range body {
			f := strings.Fields(l)
			if len(f) >= 3 && f[0] == "e" && f[2] == act {
				idx = append(idx, i)
			}
		}
		return idx
	}
	del := func(i int) []string {
		b := append([]string{}, body[:i]...)
		return append(b, body[i+1:]...)
	}
	if ix := find("sFlag"); len(ix) > 0 {
		mk("drop-sFlag", del(ix[rng.Intn(len(ix))]))
	}
	if ix := find("sCancel"); len(ix) > 0 {
		// cancel before flag: move the cancel in front of the module's preceding sFlag
		i := ix[rng.Intn(len(ix))]
		mod := strings.Fields(body[i])[1]
		for k := i - 1; k >= 0; k-- {
			f := strings.Fields(body[k])
			if len(f) >= 3 && f[0] == "e" && f[1] == mod && f[2] == "sFlag" {
				b := append([]string{}, body[:k]...)
				b = append(b, body[i])
				b = append(b, body[k:i]...)
				b = append(b, body[i+1:]...)
				mk("cancel-before-flag", b)
				break
			}
		}
	}
	if ix := find("inc"); len(ix) > 0 {
		i := ix[rng.Intn(len(ix))]
		// only if the same goroutine decrements later
		f := strings.Fields(body[i])
		g := f[len(f)-2]
		for k := i + 1; k < len(body); k++ {
			fk := strings.Fields(body[k])
			if len(fk) >= 5 && fk[0] == "e" && fk[1] == f[1] && fk[2] == "dec" && fk[3] == f[3] && fk[len(fk)-2] == g {
				mk("drop-inc", del(i))
				break
			}
		}
	}
	if ix := find("sWake"); len(ix) > 0 {
		mk("offline-without-wake", del(ix[rng.Intn(len(ix))]))
	}
	if ix := find("sReport"); len(ix) > 0 {
		mk("pass-ends-before-report", del(ix[len(ix)-1]))
	}
	if ix := find("cClose"); len(ix) > 0 {
		mk("wake-without-close", del(ix[rng.Intn(len(ix))]))
	}
	if ix := find("ctxObs"); len(ix) > 0 {
		// a piece of work sees the opposite of what its context is
		i := ix[rng.Intn(len(ix))]
		f := strings.Fields(body[i])
		f[3] = map[string]string{"0": "1", "1": "0"}[f[3]]
		b := append([]string{}, body...)
		b[i] = strings.Join(f, " ")
		mk("flip-ctxObs", b)
	}
	for _, act := range []string{"startFail", "prepDone"} {
		// the status write is lost: the following start() of the module cannot find it offline
		ix := find(act)
		if len(ix) == 0 {
			continue
		}
		i := ix[rng.Intn(len(ix))]
		mod := strings.Fields(body[i])[1]
		for k := i + 1; k < len(body); k++ {
			f := strings.Fields(body[k])
			if len(f) >= 3 && f[0] == "e" && f[1] == mod && f[2] == "startBegin" {
				mk("drop-"+act, del(i))
				break
			}
		}
	}
	// a service worker that entered its back-off wait while the module was stopping (its function answered the
	// cancellation with an error / a panic) is run again: a copy of its last function entry right after the return
	for _, i := range find("swReturn") {
		f := strings.Fields(body[i])
		if !strings.Contains(body[i], " cls=b ") || len(f) < 6 {
			continue
		}
		mod, g := f[1], f[len(f)-2]
		stopping, enter := false, -1
		for k := 0; k < i; k++ {
			fk := strings.Fields(body[k])
			if len(fk) < 4 || fk[0] != "e" || fk[1] != mod {
				continue
			}
			switch fk[2] {
			case "sFlag":
				stopping = true
			case "startBegin":
				stopping = false
			case "workEnter":
				if fk[len(fk)-2] == g {
					enter = k
				}
			}
		}
		if stopping && enter >= 0 {
			b := append([]string{}, body[:i+1]...)
			b = append(b, body[enter])
			b = append(b, body[i+1:]...)
			mk("rerun-after-late-backoff", b)
			break
		}
	}
	if ix := find("dec"); len(ix) > 0 {
		// a finisher that skips the decrement: its check reads must then fail or the wake-up is not enabled
		i := ix[rng.Intn(len(ix))]
		mk("drop-dec", del(i))
	}
	return out
}

// ---- executor -------------------------------------------------------------------------------------

type execT struct{ replay bool }

func (e *execT) Do(line string) string {
	switch {
	case strings.HasPrefix(line, "scn "):
		if e.replay {
			if s, ok := parseScn(line); ok {
				fmt.Println("replay: re-executing the scenario on the real code (3 runs) …")
				for k := 0; k < 3; k++ {
					res := runChild(s)
					lines := append([]string{line}, res.lines...)
					if res.err != "" {
						lines = append(lines, "h CHILD-FAILED "+res.err+" "+strings.ReplaceAll(res.info, "\n", " | "))
					}
					vs := monitorLines(lines)
					if len(vs) == 0 {
						fmt.Printf("  run %d: %d events, property statement holds\n", k+1, len(res.lines))
					}
					for _, v := range vs {
						fmt.Printf("  run %d: MONITOR %s — %s\n", k+1, v.Sig, v.What)
					}
				}
			}
		}
		return "ok"
	case line == "xend":
		return "rejected"
	case strings.HasPrefix(line, "x "):
		return "-"
	case strings.HasPrefix(line, "e "), strings.HasPrefix(line, "p "), strings.HasPrefix(line, "h "):
		return "ok"
	}
	return "bad-op"
}

func newExec(r *hxlib.Run) hxlib.Exec { return &execT{replay: r.OutDir == ""} }

func monitor(c hxlib.Case, outs []string) []hxlib.Violation {
	if len(c.Lines) > 1 && strings.HasPrefix(c.Lines[1], "x ") {
		return nil
	}
	return monitorLines(c.Lines)
}

func main() {
	if os.Getenv("HX_C05_CHILD") == "1" {
		childMain()
		return
	}
	hxlib.Main(&hxlib.Harness{Prop: "C05", Rule: rule, Generate: gen, NewExec: newExec, Monitor: monitor,
		DisSig: func(line, impl, model string) string {
			f := strings.Fields(line)
			if len(f) >= 3 && f[0] == "e" {
				return "corr:trace-rejected:" + f[2]
			}
			return "corr:" + f[0]
		},
		Extra: func(r *hxlib.Run) map[string]any {
			return map[string]any{"stop_timeout_ms_in_scenarios": "6000 (3000 with a restart-requesting service worker, 150 in timeout scenarios)", "prompt_tolerance_ms": promptUs / 1000}
		}})
}
