package main

// Child process of hx-c05: runs ONE scenario on the real github.com/safing/portbase/modules package
// (global state ⇒ one process per scenario) and writes the recorded trace to fd 3.

import (
	"bufio"
	"bytes"
	"context"
	"encoding/json"
	"errors"
	"fmt"
	"math/rand"
	"os"
	"reflect"
	"runtime"
	"sort"
	"strconv"
	"strings"
	"sync"
	"sync/atomic"
	"time"

	"github.com/safing/portbase/log"
	"github.com/safing/portbase/modules"
)

// ---- scenario -------------------------------------------------------------------------------------

// Item is one piece of managed work.
type Item struct {
	Kind  string `json:"k"`           // w sw t tp mh mm ml sh sm sl hk hx (hook on the event of a dependency)
	Delay int    `json:"d"`           // ms between observing the cancellation and returning
	Ret   string `json:"r,omitempty"` // "" (nil) | err | panic | ctxerr | cancelwrap (wrapped context.Canceled) | restartnow (ErrRestartNow) | restartwrap (wrapped ErrRestartNow) | restart (service worker: one ErrRestartNow before anything else)
	At    string `json:"a,omitempty"` // "" = started by the work op and awaited | start = from inside the start routine (every invocation) | race = not awaited | prep = from inside the prep routine | reg = right after registration, before modules.Start
	Cycle int    `json:"c,omitempty"` // online phase in which it is started
	Self  bool   `json:"s,omitempty"` // finishes on its own Delay ms after it began (does not wait for the cancellation)
	// service worker: back-off duration in ms handed to StartServiceWorker (0: 5 ms). After a run that ended with a plain
	// error or a panic the worker waits failCnt × back-off before the next run — counted as a running worker meanwhile.
	Backoff int `json:"bo,omitempty"`
}

// Mod is one module.
type Mod struct {
	Deps       []int    `json:"deps"`
	StartFn    string   `json:"start,omitempty"` // "" (nil function) | ok | err | panic (the first StartFails invocations fail that way, later ones succeed)
	StartFails int      `json:"sf,omitempty"`    // number of failing invocations of the start routine (-1: every one)
	PrepFn     string   `json:"prep,omitempty"`  // "" (nil function) | ok
	StopFn     string   `json:"stop,omitempty"`  // "" (nil function) | ok | err | panic
	StopDelay  int      `json:"sd,omitempty"`    // ms the stop routine takes
	Enabled    bool     `json:"en,omitempty"`    // enabled at start (module management only)
	Items      []Item   `json:"items,omitempty"`
	Late       []string `json:"late,omitempty"` // attempted once the module is stopped: w mh mm sh t ev
}

// Hold forces an interleaving: the Nth arrival at hook point Point of module Mod is held (before the
// operation; Nth = 0: every arrival) until UntilCount occurrences of event UntilPoint of module UntilMod were logged (or MaxMs passed).
type Hold struct {
	Point      string `json:"p"`
	Mod        int    `json:"m"`
	Nth        int    `json:"n"`
	UntilPoint string `json:"up"`
	UntilMod   int    `json:"um"`
	UntilCount int    `json:"uc"`
	MaxMs      int    `json:"max"`
	AfterPoint string `json:"ap,omitempty"` // arrivals are counted (and held) only once AfterCount events AfterPoint of Mod were logged
	AfterCount int    `json:"ac,omitempty"`
}

// Scn is a scenario.
type Scn struct {
	Mods        []Mod    `json:"mods"`
	Mgmt        bool     `json:"mgmt,omitempty"`
	NoNotify    bool     `json:"nonotify,omitempty"` // module management without a change-notification function
	Script      []string `json:"script"`             // start | work <cycle> | disable <i> | enable <i> | manage | late | shutdown | sleep <ms> | obs (every running piece of work looks at its context)
	StopTimeout int      `json:"sto"`                // ms
	YieldPm     int      `json:"yp,omitempty"`       // per-mille probability of a random delay at a hook point
	YieldMaxUs  int      `json:"yu,omitempty"`
	Holds       []Hold   `json:"holds,omitempty"`
	Seed        int64    `json:"seed"`
}

// ---- recorder -------------------------------------------------------------------------------------

var (
	gmu      sync.Mutex // the bracket lock: (event, operation) pairs are atomic w.r.t. each other
	holder   int64      // goroutine id holding gmu inside a bracket (0 = none)
	pendAct  string
	pendMod  string
	lines    []string
	gids     = map[int64]int{}
	counts   = map[string]int{} // "act:mod" → occurrences logged
	cmu      sync.Mutex         // protects counts, arrivals (readable without gmu)
	arrivals = map[string]int{}
	t0       time.Time
	scn      Scn
	modIdx   = map[string]int{}
	yrng     *rand.Rand
	ymu      sync.Mutex
)

func goid() int64 {
	var buf [64]byte
	n := runtime.Stack(buf[:], false)
	// "goroutine 123 [running]:"
	f := bytes.Fields(buf[:n])
	id, _ := strconv.ParseInt(string(f[1]), 10, 64)
	return id
}

// logLocked appends a line; gmu must be held.
func logLocked(g int64, s string) {
	id, ok := gids[g]
	if !ok {
		id = len(gids) + 1
		gids[g] = id
	}
	lines = append(lines, fmt.Sprintf("%s g%d @%d", s, id, time.Since(t0).Microseconds()))
}

func bump(act, mod string) {
	cmu.Lock()
	counts[act+":"+mod]++
	cmu.Unlock()
}

// hev logs a harness-level event (takes the bracket lock, so it is ordered with the hook events).
func hev(format string, a ...any) {
	g := goid()
	gmu.Lock()
	logLocked(g, fmt.Sprintf(format, a...))
	gmu.Unlock()
}

// hevCtx is hev with " cancelled=<0|1>" of ctx appended, evaluated under the bracket lock.
func hevCtx(ctx context.Context, format string, a ...any) {
	g := goid()
	gmu.Lock()
	logLocked(g, fmt.Sprintf(format, a...)+fmt.Sprintf(" cancelled=%d", boolInt(ctx.Err() != nil)))
	gmu.Unlock()
}

// mev logs a model event produced by harness-supplied code (function entry/exit). Contexts are inspected
// while the bracket lock is held, so the observation is ordered with the (bracketed) cancellation.
func mev(mod int, act string, rest string, ctxs ...context.Context) {
	g := goid()
	gmu.Lock()
	s := fmt.Sprintf("e %d %s", mod, act)
	for _, c := range ctxs {
		s += fmt.Sprintf(" %d", boolInt(c.Err() != nil))
	}
	if rest != "" {
		s += " " + rest
	}
	logLocked(g, s)
	gmu.Unlock()
	bump(act, strconv.Itoa(mod))
}

func yieldPoint(act, mod string) {
	// forced holds
	for hi, h := range scn.Holds {
		if h.Point != act || strconv.Itoa(h.Mod) != mod {
			continue
		}
		cmu.Lock()
		if h.AfterPoint != "" && counts[h.AfterPoint+":"+mod] < h.AfterCount {
			cmu.Unlock()
			continue
		}
		key := fmt.Sprintf("%d", hi)
		arrivals[key]++
		n := arrivals[key]
		cmu.Unlock()
		if h.Nth != 0 && h.Nth != n {
			continue
		}
		deadline := time.Now().Add(time.Duration(h.MaxMs) * time.Millisecond)
		ukey := h.UntilPoint + ":" + strconv.Itoa(h.UntilMod)
		for time.Now().Before(deadline) {
			cmu.Lock()
			c := counts[ukey]
			cmu.Unlock()
			if c >= h.UntilCount {
				break
			}
			time.Sleep(100 * time.Microsecond)
		}
	}
	// random delays
	if scn.YieldPm > 0 {
		ymu.Lock()
		hit := yrng.Intn(1000) < scn.YieldPm
		var us int
		if hit && scn.YieldMaxUs > 0 {
			us = yrng.Intn(scn.YieldMaxUs + 1)
		}
		ymu.Unlock()
		if hit {
			if us < 20 {
				runtime.Gosched()
			} else {
				time.Sleep(time.Duration(us) * time.Microsecond)
			}
		}
	}
}

// sink receives the hook calls of package modules (build tag verif).
func sink(point string, args ...any) {
	mod := ""
	if len(args) > 0 {
		if name, ok := args[0].(string); ok {
			if i, ok := modIdx[name]; ok {
				mod = strconv.Itoa(i)
			} else {
				mod = "?" + name
			}
		}
	}
	g := goid()
	switch {
	case strings.HasPrefix(point, "pre:"):
		act := strings.ReplaceAll(point[4:], ":", " ")
		yieldPoint(strings.Fields(act)[0], mod)
		gmu.Lock()
		atomic.StoreInt64(&holder, g)
		pendAct, pendMod = act, mod
	case strings.HasPrefix(point, "mid:"):
		if atomic.LoadInt64(&holder) != g {
			panic("hx-c05: mid without pre at " + point)
		}
		logLocked(g, fmt.Sprintf("e %s %s 1", pendMod, pendAct))
		done, doneMod := strings.Fields(pendAct)[0], pendMod
		atomic.StoreInt64(&holder, 0)
		gmu.Unlock()
		bump(done, doneMod)
		act := point[4:]
		yieldPoint(act, mod)
		gmu.Lock()
		atomic.StoreInt64(&holder, g)
		pendAct, pendMod = act, mod
	case point == "post" || point == "post:fail":
		if atomic.LoadInt64(&holder) != g {
			if point == "post" {
				panic("hx-c05: post without pre")
			}
			return // post:fail after a completed bracket: nothing pending
		}
		ok := "1"
		if point == "post:fail" {
			ok = "0"
		}
		first := strings.Fields(pendAct)[0]
		if readOps[first] {
			logLocked(g, fmt.Sprintf("e %s %s %s", pendMod, pendAct, ok))
		} else {
			logLocked(g, fmt.Sprintf("e %s %s", pendMod, pendAct))
		}
		m := pendMod
		if idx, err := strconv.Atoi(m); err == nil && idx < len(stopped) {
			switch first {
			case "sOffline":
				atomic.StoreInt32(&stopped[idx], 1)
			case "startBegin":
				atomic.StoreInt32(&stopped[idx], 0)
				// we are inside start(), in its goroutine, under the module lock: m.Ctx is the context just installed
				regGen(idx, mods[idx].Ctx, false)
			}
		}
		atomic.StoreInt64(&holder, 0)
		gmu.Unlock()
		bump(first, m)
	case strings.HasPrefix(point, "ev:"):
		act := point[3:]
		gmu.Lock()
		switch act {
		case "stopPassBegin":
			logLocked(g, "p stopBegin")
		case "stopPassEnd":
			logLocked(g, "p stopEnd")
		case "startPassBegin":
			logLocked(g, "p startBegin")
		case "startPassEnd":
			logLocked(g, "p startEnd")
		default:
			logLocked(g, fmt.Sprintf("e %s %s", mod, act))
		}
		gmu.Unlock()
		bump(act, mod)
	default:
		// hook points of other properties: ignored
	}
}

var readOps = map[string]bool{"cFast": true, "cFlag": true, "cCtrl": true, "cW": true, "cT": true, "cM": true, "cCas": true}

// ---- scenario execution ---------------------------------------------------------------------------

// launch is one start of an item (the start routine launches its items on every invocation, so one item can have
// several launches alive at the same time); a service worker's re-runs belong to the same launch.
type launch struct {
	id       string // i<j> for the first launch of item j, i<j>~<n> for the n-th
	entered  chan struct{}
	exited   chan struct{}
	once     sync.Once
	exitOnce sync.Once
	runs     int32
}

type itemState struct {
	mu       sync.Mutex
	launches []*launch
}

func (st *itemState) newLaunch(j int) *launch {
	st.mu.Lock()
	defer st.mu.Unlock()
	id := fmt.Sprintf("i%d", j)
	if n := len(st.launches); n > 0 {
		id = fmt.Sprintf("i%d~%d", j, n+1)
	}
	l := &launch{id: id, entered: make(chan struct{}), exited: make(chan struct{})}
	st.launches = append(st.launches, l)
	return l
}

func (st *itemState) all() []*launch {
	st.mu.Lock()
	defer st.mu.Unlock()
	return append([]*launch{}, st.launches...)
}

// execRec: a piece of work that is executing right now and the context it was handed (for a signalled microtask, which
// is handed none: the channel Module.Stopping() gave it when it was signalled).
type execRec struct {
	mod  int
	id   string
	done <-chan struct{}
	gen  string // number of the module context it is (derived from), "?" = not a context this module was seen installing
}

type genKey struct{ mod, gen int }

var (
	mods    []*modules.Module
	istates [][]*itemState
	stopped []int32 // per module: 1 = reported offline by its stopper and not restarted since

	runMu   sync.Mutex
	running = map[*execRec]bool{}

	genMu     sync.Mutex
	genByDone = map[<-chan struct{}]genKey{} // Done channel of every context a module was seen installing
	curGen    []int
)

// regGen records ctx as the next context of module mod (gen 0: made by Register; then one per start()).
func regGen(mod int, ctx context.Context, first bool) {
	genMu.Lock()
	if !first {
		curGen[mod]++
	}
	genByDone[ctx.Done()] = genKey{mod, curGen[mod]}
	genMu.Unlock()
}

// parentOf returns the context ctx was derived from (context.WithCancel / WithValue / WithDeadline wrap it in a struct
// with an embedded field Context).
func parentOf(ctx context.Context) context.Context {
	v := reflect.ValueOf(ctx)
	if v.Kind() == reflect.Ptr {
		v = v.Elem()
	}
	if v.Kind() != reflect.Struct {
		return nil
	}
	f := v.FieldByName("Context")
	if !f.IsValid() || !f.CanInterface() {
		return nil
	}
	p, _ := f.Interface().(context.Context)
	return p
}

// genOfDone / genOf: which context of module mod is this (or is this derived from)?
func genOfDone(mod int, done <-chan struct{}) string {
	genMu.Lock()
	defer genMu.Unlock()
	if k, ok := genByDone[done]; ok && k.mod == mod {
		return strconv.Itoa(k.gen)
	}
	return "?"
}

func genOf(mod int, ctx context.Context) string {
	for c, n := ctx, 0; c != nil && n < 8; c, n = parentOf(c), n+1 {
		if d := c.Done(); d != nil {
			if g := genOfDone(mod, d); g != "?" {
				return g
			}
		}
	}
	return "?"
}

func register(mod int, id string, done <-chan struct{}, gen string) *execRec {
	r := &execRec{mod: mod, id: id, done: done, gen: gen}
	runMu.Lock()
	running[r] = true
	runMu.Unlock()
	return r
}

func unregister(r *execRec) {
	runMu.Lock()
	delete(running, r)
	runMu.Unlock()
}

// observeContexts: every piece of work of module mod (mod < 0: of every module) that is executing right now looks at
// the context it holds; one bracketed `ctxObs` event each (the cancellation state is read under the bracket lock).
func observeContexts(mod int, at string) {
	runMu.Lock()
	var recs []*execRec
	for r := range running {
		if mod < 0 || r.mod == mod {
			recs = append(recs, r)
		}
	}
	runMu.Unlock()
	sort.Slice(recs, func(a, b int) bool {
		if recs[a].mod != recs[b].mod {
			return recs[a].mod < recs[b].mod
		}
		return recs[a].id < recs[b].id
	})
	g := goid()
	for _, r := range recs {
		gmu.Lock()
		c := 0
		select {
		case <-r.done:
			c = 1
		default:
		}
		cur := "x"
		if r.gen != "?" {
			genMu.Lock()
			cur = strconv.Itoa(boolInt(r.gen == strconv.Itoa(curGen[r.mod])))
			genMu.Unlock()
		}
		logLocked(g, fmt.Sprintf("e %d ctxObs %d %s gen=%s at=%s cur=%s", r.mod, c, r.id, r.gen, at, cur))
		gmu.Unlock()
		bump("ctxObs", strconv.Itoa(r.mod))
	}
}

func modName(i int) string { return fmt.Sprintf("m%d", i) }

func boolInt(b bool) int {
	if b {
		return 1
	}
	return 0
}

// body is the managed function of item j of module i (launch st).
func body(i, j int, st *launch, ctx context.Context) error {
	it := scn.Mods[i].Items[j]
	gen := genOf(i, ctx)
	mev(i, "workEnter", fmt.Sprintf("%s gen=%s", st.id, gen), ctx)
	rec := register(i, st.id, ctx.Done(), gen)
	defer unregister(rec)
	st.once.Do(func() { close(st.entered) })
	defer st.exitOnce.Do(func() { close(st.exited) })
	runs := atomic.AddInt32(&st.runs, 1)
	if !it.Self {
		<-ctx.Done()
	}
	delay := it.Delay
	if runs > 1 && delay < 3 {
		delay = 3 // an item whose function is run again (service worker restart) must not spin without bound
	}
	if delay > 0 {
		time.Sleep(time.Duration(delay) * time.Millisecond)
	}
	hev("h workExit %d %s status=%d", i, st.id, mods[i].Status())
	if it.Kind == "sw" {
		// cls: what runServiceWorker does with the result according to its documentation — f: finished (nil / context
		// canceled), r: restart now, b: restart after the back-off (any other error, a panic)
		cls := "f"
		switch {
		case runs > 4000:
		case it.Ret == "err" || it.Ret == "panic":
			cls = "b"
		case it.Ret == "restartnow" || it.Ret == "restartwrap":
			cls = "r"
		}
		mev(i, "swReturn", st.id+" cls="+cls)
	}
	if runs > 4000 {
		return nil
	}
	switch it.Ret {
	case "err":
		return errors.New("item failed")
	case "panic":
		panic("item panic")
	case "ctxerr":
		return ctx.Err()
	case "cancelwrap":
		return fmt.Errorf("interrupted: %w", context.Canceled)
	case "restartnow":
		return modules.ErrRestartNow
	case "restartwrap":
		return fmt.Errorf("connection lost: %w", modules.ErrRestartNow)
	}
	return nil
}

func startItem(i, j int) *launch {
	it := scn.Mods[i].Items[j]
	m := mods[i]
	st := istates[i][j].newLaunch(j)
	name := st.id
	fn := func(ctx context.Context) error { return body(i, j, st, ctx) }
	switch it.Kind {
	case "w":
		m.StartWorker(name, fn)
	case "sw":
		first := int32(1)
		backoff := 5 * time.Millisecond
		if it.Backoff > 0 {
			backoff = time.Duration(it.Backoff) * time.Millisecond
		}
		m.StartServiceWorker(name, backoff, func(ctx context.Context) error {
			if it.Ret == "restart" && atomic.CompareAndSwapInt32(&first, 1, 0) {
				mev(i, "workEnter", fmt.Sprintf("%s gen=%s", st.id, genOf(i, ctx)), ctx)
				hev("h workExit %d %s status=%d restart", i, st.id, mods[i].Status())
				mev(i, "swReturn", st.id+" cls=r")
				return modules.ErrRestartNow
			}
			return body(i, j, st, ctx)
		})
	case "t":
		m.NewTask(name, func(ctx context.Context, _ *modules.Task) error { return body(i, j, st, ctx) }).Queue()
	case "tp":
		m.NewTask(name, func(ctx context.Context, _ *modules.Task) error { return body(i, j, st, ctx) }).StartASAP()
	case "mh":
		m.StartHighPriorityMicroTask(name, fn)
	case "mm":
		m.StartMicroTask(name, 0, fn)
	case "ml":
		m.StartLowPriorityMicroTask(name, 0, fn)
	case "sh", "sm", "sl":
		go func() {
			var done func()
			switch it.Kind {
			case "sh":
				done = m.SignalHighPriorityMicroTask()
			case "sm":
				done = m.SignalMicroTask(0)
			default:
				done = m.SignalLowPriorityMicroTask(0)
			}
			// a signalled microtask is handed no context; what tells it to stop is the module's Stopping() channel
			stopCh := m.Stopping()
			hev("h sigEnter %d %s", i, st.id)
			rec := register(i, st.id, stopCh, genOfDone(i, stopCh))
			st.once.Do(func() { close(st.entered) })
			if !it.Self {
				<-stopCh
			}
			if it.Delay > 0 {
				time.Sleep(time.Duration(it.Delay) * time.Millisecond)
			}
			hev("h workExit %d %s status=%d", i, st.id, m.Status())
			unregister(rec)
			done()
			done() // safe to call twice
			st.exitOnce.Do(func() { close(st.exited) })
		}()
	case "hk":
		m.TriggerEvent("evt", hookData{i, j, st})
	case "hx":
		// hook of module i on the event of its first dependency
		mods[scn.Mods[i].Deps[0]].TriggerEvent("evx", hookData{i, j, st})
	}
	return st
}

type hookData struct {
	mod, item int
	st        *launch
}

// launchFromRoutine starts the items of module i that are launched from inside a lifecycle routine (at = start | prep)
// and waits (bounded) until the kinds that begin at once have been handed their context.
func launchFromRoutine(i int, at string) {
	var ls []*launch
	for j, it := range scn.Mods[i].Items {
		if it.At == at {
			l := startItem(i, j)
			switch it.Kind {
			case "w", "sw", "mh", "mm", "ml", "sh", "sm", "sl":
				ls = append(ls, l)
			}
		}
	}
	for _, l := range ls {
		select {
		case <-l.entered:
		case <-time.After(150 * time.Millisecond):
		}
	}
}

func waitEntered(i, j int, d time.Duration) {
	ls := istates[i][j].all()
	if len(ls) == 0 {
		return
	}
	select {
	case <-ls[len(ls)-1].entered:
	case <-time.After(d):
	}
}

func doWork(cycle int) {
	for i, md := range scn.Mods {
		if !mods[i].Online() {
			continue
		}
		for j, it := range md.Items {
			if it.Cycle == cycle && (it.At == "" || it.At == "race") {
				startItem(i, j)
			}
		}
	}
	for i, md := range scn.Mods {
		if !mods[i].Online() {
			continue
		}
		for j, it := range md.Items {
			if it.Cycle == cycle && it.At == "" {
				waitEntered(i, j, 400*time.Millisecond)
			}
		}
	}
}

var lateSeq int32

func doLate() {
	var wg sync.WaitGroup
	for i, md := range scn.Mods {
		m := mods[i]
		if atomic.LoadInt32(&stopped[i]) == 0 || m.Status() != modules.StatusOffline {
			continue
		}
		for _, k := range md.Late {
			i, k := i, k
			id := atomic.AddInt32(&lateSeq, 1)
			ran := int32(0)
			fn := func(ctx context.Context) error {
				atomic.StoreInt32(&ran, 1)
				mev(i, "workEnter", fmt.Sprintf("late%d gen=%s", id, genOf(i, ctx)), ctx)
				hevCtx(ctx, "h lateRan %d %s", i, k)
				hev("h workExit %d late%d status=%d", i, id, mods[i].Status())
				return nil
			}
			hev("h lateTry %d %s", i, k)
			switch k {
			case "w":
				wg.Add(1)
				go func() { defer wg.Done(); _ = m.RunWorker("late", fn) }()
			case "mh":
				wg.Add(1)
				go func() { defer wg.Done(); _ = m.RunHighPriorityMicroTask("late", fn) }()
			case "mm":
				wg.Add(1)
				go func() { defer wg.Done(); _ = m.RunMicroTask("late", 20*time.Millisecond, fn) }()
			case "sh":
				done := m.SignalHighPriorityMicroTask()
				done()
			case "t", "ev":
				if k == "t" {
					m.NewTask("late", func(ctx context.Context, _ *modules.Task) error { return fn(ctx) }).Queue().StartASAP()
				} else {
					m.TriggerEvent("evt", -int(id))
				}
				wg.Add(1)
				go func() {
					defer wg.Done()
					time.Sleep(60 * time.Millisecond)
					hev("h lateNotRun %d %s executed=%d", i, k, atomic.LoadInt32(&ran))
				}()
			}
		}
	}
	wg.Wait()
}

func childMain() {
	rd := bufio.NewReader(os.Stdin)
	specLine, _ := rd.ReadString('\n')
	if err := json.Unmarshal([]byte(strings.TrimSpace(specLine)), &scn); err != nil {
		fmt.Fprintln(os.Stderr, "child: bad spec:", err)
		os.Exit(4)
	}
	out := os.NewFile(3, "trace")
	if out == nil {
		fmt.Fprintln(os.Stderr, "child: no fd 3")
		os.Exit(4)
	}
	yrng = rand.New(rand.NewSource(scn.Seed))
	t0 = time.Now()
	log.SetLogLevel(log.CriticalLevel)
	modules.SetMaxConcurrentMicroTasks(64)
	modules.VerifSetStopTimeout(time.Duration(scn.StopTimeout) * time.Millisecond)

	// watchdog: a wedged scenario must not hang the check
	go func() {
		time.Sleep(45 * time.Second)
		gmu.TryLock()
		w := bufio.NewWriter(out)
		for _, l := range lines {
			w.WriteString(l + "\n")
		}
		w.WriteString("h WATCHDOG\n")
		w.Flush()
		os.Exit(5)
	}()

	n := len(scn.Mods)
	mods = make([]*modules.Module, n)
	istates = make([][]*itemState, n)
	stopped = make([]int32, n)
	curGen = make([]int, n)
	startCalls := make([]int32, n)
	for i := range scn.Mods {
		modIdx[modName(i)] = i
	}
	if scn.Mgmt {
		if scn.NoNotify {
			modules.EnableModuleManagement(nil)
		} else {
			modules.EnableModuleManagement(func(*modules.Module) {})
		}
	}
	for i, md := range scn.Mods {
		i, md := i, md
		istates[i] = make([]*itemState, len(md.Items))
		for j := range md.Items {
			istates[i][j] = &itemState{}
		}
		var prepFn, startFn, stopFn func() error
		if md.PrepFn != "" {
			prepFn = func() error {
				mev(i, "fnEnter", "prep", mods[i].Ctx)
				launchFromRoutine(i, "prep")
				mev(i, "fnExit", "prep")
				return nil
			}
		}
		if md.StartFn != "" {
			startFn = func() error {
				n := int(atomic.AddInt32(&startCalls[i], 1))
				mev(i, "fnEnter", "start", mods[i].Ctx)
				launchFromRoutine(i, "start")
				fails := md.StartFn != "ok" && (md.StartFails < 0 || n <= md.StartFails)
				mev(i, "fnExit", fmt.Sprintf("start fails=%d", boolInt(fails)))
				if fails {
					if md.StartFn == "panic" {
						panic("start panic")
					}
					return errors.New("start failed")
				}
				return nil
			}
		}
		if md.StopFn != "" {
			stopFn = func() error {
				mev(i, "fnEnter", "stop", mods[i].Ctx)
				// the stop routine has been invoked: every piece of work of this module that is executing looks at the
				// context it was handed
				observeContexts(i, "stopfn")
				if md.StopDelay > 0 {
					time.Sleep(time.Duration(md.StopDelay) * time.Millisecond)
				}
				mev(i, "fnExit", fmt.Sprintf("stop status=%d", mods[i].Status()))
				switch md.StopFn {
				case "err":
					return errors.New("stop failed")
				case "panic":
					panic("stop panic")
				}
				return nil
			}
		}
		deps := make([]string, len(md.Deps))
		for k, d := range md.Deps {
			deps[k] = modName(d)
		}
		mods[i] = modules.Register(modName(i), prepFn, startFn, stopFn, deps...)
		if mods[i] == nil {
			fmt.Fprintln(os.Stderr, "child: Register returned nil")
			os.Exit(4)
		}
		regGen(i, mods[i].Ctx, true)
		if scn.Mgmt && md.Enabled {
			mods[i].Enable()
		}
		mods[i].RegisterEvent("evt", true)
		mods[i].RegisterEvent("evx", true)
	}
	for i, md := range scn.Mods {
		i := i
		hook := func(ctx context.Context, data interface{}) error {
			switch v := data.(type) {
			case int:
				if v < 0 {
					hevCtx(ctx, "h lateRan %d ev", i)
				}
			case hookData:
				if v.mod != i {
					return nil
				}
				return body(i, v.item, v.st, ctx)
			}
			return nil
		}
		if err := mods[i].RegisterEventHook(modName(i), "evt", "h", hook); err != nil {
			fmt.Fprintln(os.Stderr, "child:", err)
			os.Exit(4)
		}
		if len(md.Deps) > 0 {
			if err := mods[i].RegisterEventHook(modName(md.Deps[0]), "evx", "hx", hook); err != nil {
				fmt.Fprintln(os.Stderr, "child:", err)
				os.Exit(4)
			}
		}
	}
	modules.VerifSetSink(sink)

	// work started on a registered module before the module system is started
	for i, md := range scn.Mods {
		var ls []*launch
		for j, it := range md.Items {
			if it.At == "reg" {
				ls = append(ls, startItem(i, j))
			}
		}
		for _, l := range ls {
			select {
			case <-l.entered:
			case <-time.After(150 * time.Millisecond):
			}
		}
	}

	for _, op := range scn.Script {
		f := strings.Fields(op)
		arg := 0
		if len(f) > 1 {
			arg, _ = strconv.Atoi(f[1])
		}
		switch f[0] {
		case "start":
			hev("h startCall")
			err := modules.Start()
			hev("h startReturn err=%d", boolInt(err != nil))
			log.SetLogLevel(log.CriticalLevel)
		case "work":
			doWork(arg)
		case "disable":
			mods[arg].Disable()
		case "enable":
			mods[arg].Enable()
		case "manage":
			hev("h manageCall")
			err := modules.ManageModules()
			hev("h manageReturn err=%d statuses=%s", boolInt(err != nil), statuses())
		case "late":
			doLate()
		case "obs":
			observeContexts(-1, "script")
		case "shutdown":
			hev("h shutdownCall")
			err := modules.Shutdown()
			hev("h shutdownReturn err=%d statuses=%s", boolInt(err != nil), statuses())
		case "sleep":
			time.Sleep(time.Duration(arg) * time.Millisecond)
		}
	}
	// let every item that entered return (bounded), then give the finishers time to log their last steps
	deadline := time.Now().Add(time.Duration(settleMs()) * time.Millisecond)
	for i, md := range scn.Mods {
		for j := range md.Items {
			for _, l := range istates[i][j].all() {
				select {
				case <-l.entered:
					select {
					case <-l.exited:
					case <-time.After(time.Until(deadline)):
					}
				default:
				}
			}
		}
	}
	time.Sleep(15 * time.Millisecond)
	gmu.Lock()
	w := bufio.NewWriter(out)
	for _, l := range lines {
		w.WriteString(l + "\n")
	}
	w.WriteString("h END\n")
	w.Flush()
	out.Close()
	os.Exit(0)
}

// settleMs: long enough for every started item to return after the last cancellation.
func settleMs() int {
	max := 20
	for _, md := range scn.Mods {
		for _, it := range md.Items {
			if it.Delay+20 > max {
				max = it.Delay + 20
			}
		}
		if md.StopDelay+20 > max {
			max = md.StopDelay + 20
		}
	}
	for _, h := range scn.Holds {
		if h.MaxMs+50 > max {
			max = h.MaxMs + 50
		}
	}
	if max > 4000 {
		max = 4000
	}
	return max
}

func statuses() string {
	s := make([]string, len(mods))
	for i, m := range mods {
		s[i] = strconv.Itoa(int(m.Status()))
	}
	return strings.Join(s, ",")
}
