package main

// The monitor: the statement of C05 read literally on the harness-level observations of a recorded run
// (entry/exit of harness-supplied functions with a global order, ctx.Done() as seen inside them, Module.Status(),
// return of Shutdown) plus the stopper's own status write. It never consults the model.

import (
	"fmt"
	"sort"
	"strconv"
	"strings"

	"verifharness/hxlib"
)

const promptUs = 1500 * 1000 // "promptly": far below the 6 s stop timeout used in the scenarios

type ev struct {
	idx  int
	typ  string // e p h
	mod  int
	act  string
	args []string
	gid  string
	t    int64
	raw  string
}

type cycle struct {
	mod                                  int
	begin, flag, cancel, offline, report int // event indices (-1 = not seen)
	fnEnter, fnExit                      int
	fnEnterCancelled                     int // -1 unknown, 0, 1
	timeout                              bool
	stopperStart                         int // index of the stopper's ctrlSet/ctrlUnsetNil
	tCancel, tOffline, tFnExit           int64
}

type itemRec struct {
	mod         int
	id          string
	enter, exit int
	enterCancel int
	exitStatus  int
	tExit       int64
	signalled   bool
}

type trace struct {
	scn    *Scn
	evs    []ev
	cycles []*cycle
	items  map[string][]*itemRec // per (module, item id): the successive executions of its function
	lines  []string
	failed string
}

func parseTrace(lines []string) *trace {
	tr := &trace{items: map[string][]*itemRec{}, lines: lines}
	if len(lines) == 0 {
		return tr
	}
	tr.scn, _ = parseScn(lines[0])
	cur := map[int]*cycle{}
	for i, l := range lines[1:] {
		f := strings.Fields(l)
		if len(f) < 2 {
			continue
		}
		e := ev{idx: i + 1, typ: f[0], mod: -1, raw: l}
		// trailing @time and g<id>
		for len(f) > 0 {
			last := f[len(f)-1]
			if strings.HasPrefix(last, "@") {
				e.t, _ = strconv.ParseInt(last[1:], 10, 64)
				f = f[:len(f)-1]
			} else if len(last) > 1 && last[0] == 'g' && strings.Trim(last[1:], "0123456789") == "" {
				e.gid = last
				f = f[:len(f)-1]
			} else {
				break
			}
		}
		switch e.typ {
		case "e":
			if len(f) < 3 {
				continue
			}
			e.mod, _ = strconv.Atoi(f[1])
			e.act = f[2]
			e.args = f[3:]
		case "p":
			e.act = f[1]
		case "h":
			e.act = f[1]
			e.args = f[2:]
			if e.act == "CHILD-FAILED" {
				tr.failed = strings.Join(f[2:], " ")
			}
			if e.act == "WATCHDOG" {
				tr.failed = "wedged"
			}
		default:
			continue
		}
		tr.evs = append(tr.evs, e)
		if e.typ == "e" {
			c := cur[e.mod]
			switch e.act {
			case "stopBegin":
				c = &cycle{mod: e.mod, begin: e.idx, flag: -1, cancel: -1, offline: -1, report: -1, fnEnter: -1, fnExit: -1, fnEnterCancelled: -1, stopperStart: -1}
				cur[e.mod] = c
				tr.cycles = append(tr.cycles, c)
			case "sFlag":
				if c != nil {
					c.flag = e.idx
				}
			case "sCancel":
				if c != nil {
					c.cancel, c.tCancel = e.idx, e.t
				}
			case "sTimeout":
				if c != nil {
					c.timeout = true
				}
			case "sOffline":
				if c != nil {
					c.offline, c.tOffline = e.idx, e.t
				}
			case "sReport":
				if c != nil {
					c.report = e.idx
				}
			case "ctrlSet", "ctrlUnsetNil":
				if c != nil && c.offline < 0 && c.stopperStart < 0 && c.cancel >= 0 {
					c.stopperStart = e.idx
				}
			case "fnEnter":
				if c != nil && len(e.args) >= 2 && e.args[1] == "stop" && c.fnEnter < 0 {
					c.fnEnter = e.idx
					c.fnEnterCancelled, _ = strconv.Atoi(e.args[0])
				}
			case "fnExit":
				if c != nil && len(e.args) >= 1 && e.args[0] == "stop" && c.fnExit < 0 {
					c.fnExit, c.tFnExit = e.idx, e.t
				}
			case "startBegin":
				delete(cur, e.mod)
			case "workEnter":
				if len(e.args) >= 2 {
					key := fmt.Sprintf("%d/%s", e.mod, e.args[1])
					if l := tr.items[key]; len(l) == 0 || l[len(l)-1].exit >= 0 {
						c, _ := strconv.Atoi(e.args[0])
						tr.items[key] = append(l, &itemRec{mod: e.mod, id: e.args[1], enter: e.idx, exit: -1, enterCancel: c, exitStatus: -1})
					}
				}
			}
		}
		if e.typ == "h" {
			switch e.act {
			case "sigEnter":
				if len(e.args) >= 2 {
					m, _ := strconv.Atoi(e.args[0])
					key := fmt.Sprintf("%d/%s", m, e.args[1])
					tr.items[key] = append(tr.items[key], &itemRec{mod: m, id: e.args[1], enter: e.idx, exit: -1, enterCancel: -1, exitStatus: -1, signalled: true})
				}
			case "workExit":
				if len(e.args) >= 3 {
					m, _ := strconv.Atoi(e.args[0])
					key := fmt.Sprintf("%d/%s", m, e.args[1])
					if l := tr.items[key]; len(l) > 0 && l[len(l)-1].exit < 0 {
						it := l[len(l)-1]
						it.exit, it.tExit = e.idx, e.t
						it.exitStatus, _ = strconv.Atoi(strings.TrimPrefix(e.args[2], "status="))
					}
				}
			}
		}
	}
	return tr
}

func hasArg(args []string, a string) bool {
	for _, x := range args {
		if x == a {
			return true
		}
	}
	return false
}

func argVal(args []string, prefix string) string {
	for _, x := range args {
		if strings.HasPrefix(x, prefix) {
			return x
		}
	}
	return prefix + "?"
}

// all returns every recorded execution of every item, in a deterministic order.
func (tr *trace) all() []*itemRec {
	keys := make([]string, 0, len(tr.items))
	for k := range tr.items {
		keys = append(keys, k)
	}
	sort.Strings(keys)
	var out []*itemRec
	for _, k := range keys {
		out = append(out, tr.items[k]...)
	}
	return out
}

// rerunAfterCancel: this execution is a re-run of a function whose previous execution returned after the
// cancellation of cycle c (only a service worker's restart loop can produce one).
func (it *itemRec) rerunAfterCancel(tr *trace, c *cycle) bool {
	if c.cancel < 0 || it.mod != c.mod {
		return false
	}
	var prev *itemRec
	for _, x := range tr.items[fmt.Sprintf("%d/%s", it.mod, it.id)] {
		if x == it {
			break
		}
		prev = x
	}
	return prev != nil && prev.exit > c.cancel && it.enter > prev.exit
}

// byExit finds the execution that ended at event idx.
func (tr *trace) byExit(key string, idx int) *itemRec {
	for _, it := range tr.items[key] {
		if it.exit == idx {
			return it
		}
	}
	return nil
}

func (tr *trace) nonTrivial() bool {
	if tr.scn == nil {
		return false
	}
	for _, c := range tr.cycles {
		if c.fnEnter >= 0 {
			return true
		}
		for _, it := range tr.all() {
			if it.mod == c.mod && it.enter < c.begin && (it.exit < 0 || it.exit > c.begin) {
				return true
			}
		}
	}
	return false
}

// classify names the straggler class of a premature completion of cycle c, from the trace alone.
func (tr *trace) classify(c *cycle) string {
	end := c.offline
	if end < 0 {
		end = 1 << 30
	}
	// the goroutine that won the CAS in this cycle
	for _, e := range tr.evs {
		if e.typ == "e" && e.mod == c.mod && e.act == "cCas" && e.idx > c.begin && e.idx < end && len(e.args) > 0 && e.args[0] == "1" {
			// its flag read
			flagIdx := -1
			for _, f := range tr.evs {
				if f.idx >= e.idx {
					break
				}
				if f.typ == "e" && f.mod == c.mod && f.act == "cFlag" && f.gid == e.gid {
					flagIdx = f.idx
				}
			}
			if flagIdx >= 0 && flagIdx < c.begin {
				return "stale-checker-across-restart"
			}
		}
	}
	// a control-function goroutine of the preceding start cleared the flag after the stopper had set it
	lim := c.stopperStart
	if lim < 0 {
		lim = end
	}
	for _, e := range tr.evs {
		if e.typ == "e" && e.mod == c.mod && e.act == "ctrlUnset" && e.idx > c.begin && e.idx < lim {
			return "late-start-ctrl-unset"
		}
	}
	return "unclassified"
}

func monitorLines(lines []string) (vs []hxlib.Violation) {
	tr := parseTrace(lines)
	add := func(sig, what string, at int) {
		lo := at - 12
		if lo < 1 {
			lo = 1
		}
		hi := at + 3
		if hi > len(lines) {
			hi = len(lines)
		}
		if at <= 0 {
			lo, hi = 1, 1
		}
		window := append([]string{}, lines[lo:hi]...)
		for _, v := range vs {
			if v.Sig == sig {
				return
			}
		}
		// Lines = the whole recorded trace (a replay re-validates exactly what was recorded and re-executes the
		// scenario); Output = the events around the failing observation.
		vs = append(vs, hxlib.Violation{Sig: sig, What: what, Lines: lines, Output: window})
	}
	if tr.scn == nil {
		add("C05:bad-scenario-line", "scenario line does not parse", 0)
		return
	}
	if tr.failed != "" {
		if strings.HasPrefix(tr.failed, "wedged") {
			add("C05:scenario-wedged", "the scenario did not finish: "+tr.failed, len(lines)-1)
		} else {
			add("C05:child-crash", "the process running the scenario died: "+tr.failed, len(lines)-1)
		}
	}
	s := tr.scn
	dependents := func(d int) []int {
		var rs []int
		for r, m := range s.Mods {
			for _, x := range m.Deps {
				if x == d {
					rs = append(rs, r)
				}
			}
		}
		return rs
	}
	// what must have returned before index `at` for cycle c (nothing if the cycle timed out)
	pending := func(c *cycle, at int) (what string, bad bool) {
		if c.timeout {
			return "", false
		}
		if s.Mods[c.mod].StopFn != "" {
			if c.fnEnter < 0 || c.fnEnter > at {
				return fmt.Sprintf("the stop routine of m%d had not been invoked", c.mod), true
			}
			if c.fnExit < 0 || c.fnExit > at {
				return fmt.Sprintf("the stop routine of m%d had not returned", c.mod), true
			}
		}
		for _, it := range tr.all() {
			if it.mod == c.mod && it.enter < c.begin && (it.exit < 0 || it.exit > at) {
				// it was running when the stop began and has not returned
				// (an item of an earlier cycle that outlived a timeout is still "running work")
				return fmt.Sprintf("work item %s of m%d (running since event %d) had not returned", it.id, c.mod, it.enter), true
			}
		}
		return "", false
	}
	lastCycle := map[int]*cycle{}
	up := map[int]bool{}
	restarted := map[int]bool{}
	var offlineTimes []int64
	for _, e := range tr.evs {
		switch {
		case e.typ == "e" && e.act == "startBegin":
			up[e.mod] = true
			restarted[e.mod] = true
		case e.typ == "e" && e.act == "startFail":
			// the start routine failed: the module is back to offline without having been stopped
			up[e.mod] = false
		case e.typ == "e" && e.act == "stopBegin":
			// modules it depends on begin stopping only afterwards
			for _, r := range dependents(e.mod) {
				if up[r] {
					add("C05:dependency-stop-while-dependent-up", fmt.Sprintf("m%d begins stopping while m%d, which depends on it, is not offline", e.mod, r), e.idx)
					continue
				}
				if c := lastCycle[r]; c != nil {
					if w, bad := pending(c, e.idx); bad {
						add("C05:dependency-stop-before-work-returned:"+tr.classify(c), fmt.Sprintf("m%d (dependency of m%d) begins stopping but %s", e.mod, r, w), e.idx)
					}
				}
			}
			for _, c := range tr.cycles {
				if c.begin == e.idx {
					lastCycle[e.mod] = c
					restarted[e.mod] = false
				}
			}
		case e.typ == "e" && e.act == "fnEnter" && len(e.args) >= 2 && e.args[1] == "stop":
			if e.args[0] != "1" {
				add("C05:ctx-not-cancelled-at-stopfn", fmt.Sprintf("the stop routine of m%d was invoked while the module context was not cancelled", e.mod), e.idx)
			}
		case e.typ == "e" && e.act == "ctxObs":
			// clause 1, read on the context each executing piece of work actually received: inside the stop routine
			// (= after its invocation) every one of them is cancelled
			if len(e.args) >= 2 && e.args[0] != "1" && hasArg(e.args, "at=stopfn") {
				sig, which := "C05:ctx-not-cancelled-at-stopfn", "the context handed to"
				if hasArg(e.args, "cur=0") {
					sig += ":context-of-earlier-start"
					which = "the context (installed by an earlier start of the module, " + argVal(e.args, "gen=") + ") handed to"
				}
				add(sig, fmt.Sprintf("stop routine of m%d invoked while %s %s, which is still executing, was not cancelled", e.mod, which, e.args[1]), e.idx)
			}
		case e.typ == "e" && e.act == "sOffline":
			up[e.mod] = false
			c := lastCycle[e.mod]
			if c == nil {
				break
			}
			offlineTimes = append(offlineTimes, e.t)
			if w, bad := pending(c, e.idx); bad {
				add("C05:premature-offline:"+tr.classify(c), fmt.Sprintf("m%d is reported offline but %s", e.mod, w), e.idx)
			}
			// promptness
			last := c.tCancel
			allEarly := true
			for _, it := range tr.all() {
				if it.rerunAfterCancel(tr, c) {
					// the implementation ran the function of a service worker again although it had returned after the
					// cancellation: the piece of work that was running has returned; the re-runs are not new work
					continue
				}
				if it.mod == c.mod && it.enter < e.idx && (it.exit < 0 || it.exit > c.begin) {
					if it.exit < 0 || it.exit > e.idx {
						allEarly = false
						continue
					}
					if it.tExit > last {
						last = it.tExit
					}
				}
			}
			if c.fnEnter >= 0 {
				if c.fnExit < 0 || c.fnExit > e.idx {
					allEarly = false
				} else if c.tFnExit > last {
					last = c.tFnExit
				}
			}
			if allEarly && c.cancel >= 0 {
				within := last-c.tCancel < int64(s.StopTimeout)*1000/2
				if c.timeout && within {
					add("C05:waited-out-stop-timeout", fmt.Sprintf("m%d: all work and the stop routine had returned %d ms after the cancellation, yet the stopper waited out the stop timeout (%d ms)", e.mod, (last-c.tCancel)/1000, s.StopTimeout), e.idx)
				}
				// "promptly, without waiting out the stop timeout": judged against the scenario's stop timeout (half of
				// it, at least promptUs) so that a machine under heavy load (1.8 s seen at load average 87 inside
				// portbase's panic handling) cannot turn scheduling delay into an alarm
				bound := int64(promptUs)
				if h := int64(s.StopTimeout) * 1000 / 2; h > bound {
					bound = h
				}
				if !c.timeout && e.t-last > bound {
					add("C05:offline-not-prompt", fmt.Sprintf("m%d was reported offline %d ms after its last piece of work returned", e.mod, (e.t-last)/1000), e.idx)
				}
			}
		case e.typ == "h" && e.act == "workExit":
			// Module.Status() as read by a running item just before it returns
			if len(e.args) >= 3 && e.args[2] == "status=2" {
				m, _ := strconv.Atoi(e.args[0])
				c := lastCycle[m]
				it := tr.byExit(fmt.Sprintf("%d/%s", m, e.args[1]), e.idx)
				if c != nil && it != nil && !c.timeout && it.enter < c.begin && c.offline >= 0 && c.offline < e.idx {
					add("C05:premature-offline:"+tr.classify(c), fmt.Sprintf("work item %s of m%d, running since before the stop, reads Status()=Offline before it returns", it.id, m), e.idx)
				}
			}
		case e.typ == "e" && e.act == "fnExit" && len(e.args) >= 2 && e.args[0] == "stop" && e.args[1] == "status=2":
			if c := lastCycle[e.mod]; c != nil && !c.timeout {
				add("C05:premature-offline:"+tr.classify(c), fmt.Sprintf("the stop routine of m%d reads Status()=Offline before it returns", e.mod), e.idx)
			}
		case e.typ == "e" && e.act == "workEnter":
			// started after the cancellation of a stop that was not followed by a restart: context already cancelled
			if c := lastCycle[e.mod]; c != nil && !restarted[e.mod] && c.cancel >= 0 && c.cancel < e.idx &&
				len(e.args) >= 1 && e.args[0] != "1" {
				add("C05:late-work-live-context", fmt.Sprintf("a work function started on m%d after its stop cancelled the context received a live context", e.mod), e.idx)
			}
		case e.typ == "h" && e.act == "lateRan":
			if len(e.args) >= 3 {
				if e.args[1] == "t" || e.args[1] == "ev" {
					add("C05:late-task-or-event-executed", fmt.Sprintf("a %s created/triggered on stopped module m%s was executed", map[string]string{"t": "task", "ev": "event hook"}[e.args[1]], e.args[0]), e.idx)
				} else if e.args[2] != "cancelled=1" {
					add("C05:late-work-live-context", fmt.Sprintf("a %s started on stopped module m%s received a live context", e.args[1], e.args[0]), e.idx)
				}
			}
		case e.typ == "h" && e.act == "lateNotRun":
			if len(e.args) >= 3 && e.args[2] != "executed=0" {
				add("C05:late-task-or-event-executed", fmt.Sprintf("a %s on stopped module m%s was executed", e.args[1], e.args[0]), e.idx)
			}
		case e.typ == "h" && e.act == "shutdownReturn":
			for m := range s.Mods {
				if up[m] {
					add("C05:shutdown-returned-with-module-up", fmt.Sprintf("Shutdown returned while m%d had not been reported offline", m), e.idx)
				}
				if c := lastCycle[m]; c != nil && !up[m] {
					if w, bad := pending(c, e.idx); bad {
						add("C05:shutdown-return-before-work-returned:"+tr.classify(c), fmt.Sprintf("Shutdown returned but %s", w), e.idx)
					}
				}
			}
			for _, a := range e.args {
				if strings.HasPrefix(a, "statuses=") {
					for m, st := range strings.Split(a[9:], ",") {
						if st != "2" && st != "0" && st != "1" {
							add("C05:shutdown-returned-with-module-up", fmt.Sprintf("Shutdown returned with Status(m%d)=%s", m, st), e.idx)
						}
					}
				}
			}
			if len(offlineTimes) > 0 {
				lastOff := offlineTimes[len(offlineTimes)-1]
				if e.t-lastOff > promptUs {
					add("C05:shutdown-not-prompt", fmt.Sprintf("Shutdown returned %d ms after the last module was reported offline", (e.t-lastOff)/1000), e.idx)
				}
			}
		}
	}
	return vs
}

// countTrace records the measured input / interleaving distribution.
func countTrace(r *hxlib.Run, j *job, tr *trace) {
	s := j.scn
	r.Count(fmt.Sprintf("modules:%d", len(s.Mods)))
	if s.Mgmt {
		r.Count("management:on")
	}
	if len(s.Holds) > 0 {
		r.Count("forced-holds")
	}
	r.Count(fmt.Sprintf("yield-permille:%d", s.YieldPm))
	for _, m := range s.Mods {
		r.Count("stopfn:" + map[string]string{"": "nil"}[m.StopFn] + m.StopFn)
		for _, it := range m.Items {
			r.Count("item:" + it.Kind)
			if it.Ret != "" {
				r.Count("item-return:" + it.Ret)
			}
			if it.At != "" {
				r.Count("item-at:" + it.At)
			}
			if it.Self {
				r.Count("item-self-finishing")
			}
			if it.Kind == "sw" && it.Backoff > 0 {
				how := "answers-the-cancellation"
				if it.Self {
					how = "fails-before-the-stop"
				}
				r.Count(fmt.Sprintf("service-worker-backoff:%ds:%s:%s", it.Backoff/1000, it.Ret, how))
			}
		}
		for _, k := range m.Late {
			r.Count("late-spec:" + k)
		}
		if m.PrepFn != "" {
			r.Count("prepfn:" + m.PrepFn)
		}
		if m.StartFn != "" && m.StartFn != "ok" {
			r.Count(fmt.Sprintf("startfn:%s:failing-invocations=%d", m.StartFn, m.StartFails))
		}
	}
	if j.res.err != "" {
		r.Count("child:" + j.res.err)
	}
	r.Count(fmt.Sprintf("stop-cycles:%d", min(len(tr.cycles), 9)))
	for _, e := range tr.evs {
		switch e.typ {
		case "e":
			k := e.act
			switch e.act {
			case "cFlag", "cCtrl", "cW", "cT", "cM", "cCas":
				if len(e.args) > 0 {
					k += "=" + e.args[0]
				}
			case "inc", "dec":
				if len(e.args) > 0 {
					k += ":" + e.args[0]
				}
			case "workEnter", "fnEnter":
				if len(e.args) > 0 {
					k += ":cancelled=" + e.args[0]
				}
			case "ctxObs":
				k += ":cancelled=" + e.args[0] + ":" + argVal(e.args, "at=") + ":" + argVal(e.args, "cur=")
			}
			r.Count("event:" + k)
			if e.act == "workEnter" && hasArg(e.args, "gen=?") {
				r.Count("workEnter:context-of-unknown-origin")
			}
		case "h":
			if e.act == "lateRan" || e.act == "lateNotRun" || e.act == "lateTry" {
				r.Count("late:" + e.act + ":" + e.args[1])
			}
		}
	}
	// life cycles: start attempts per module, failed ones, work that outlives a failed attempt
	starts, fails := map[int]int{}, map[int]int{}
	for _, e := range tr.evs {
		if e.typ != "e" {
			continue
		}
		switch e.act {
		case "startBegin":
			starts[e.mod]++
		case "startFail":
			fails[e.mod]++
			n := 0
			for _, it := range tr.all() {
				if it.mod == e.mod && it.enter < e.idx && (it.exit < 0 || it.exit > e.idx) {
					n++
				}
			}
			r.Count(fmt.Sprintf("failed-start:work-left-running:%d", min(n, 9)))
		}
	}
	for m, n := range starts {
		r.Count(fmt.Sprintf("module-life:starts=%d,failed=%d", min(n, 9), fails[m]))
	}
	// interleaving classes per cycle
	for _, c := range tr.cycles {
		if c.timeout {
			r.Count("cycle:timeout")
		}
		running := 0
		for _, it := range tr.all() {
			if it.mod == c.mod && it.enter < c.begin && (it.exit < 0 || it.exit > c.begin) {
				running++
			}
		}
		r.Count(fmt.Sprintf("cycle:running-items:%d", min(running, 9)))
		end := c.offline
		if end < 0 {
			end = 1 << 30
		}
		for _, e := range tr.evs {
			if e.typ != "e" || e.mod != c.mod || e.idx < c.begin || e.idx > end {
				continue
			}
			if e.act == "inc" && c.flag >= 0 && e.idx > c.flag {
				r.Count("cycle:inc-after-flag")
			}
			if e.act == "dec" && c.flag >= 0 && e.idx < c.flag {
				r.Count("cycle:dec-between-stop-and-flag")
			}
			if e.act == "cClose" {
				switch {
				case c.fnExit >= 0 && e.idx > c.fnExit && sameG(tr, c.fnExit, e):
					r.Count("cycle:closed-by:stop-routine-goroutine")
				case c.stopperStart >= 0 && sameG(tr, c.stopperStart, e):
					r.Count("cycle:closed-by:stopper(nil-routine)")
				default:
					r.Count("cycle:closed-by:finishing-work")
				}
			}
		}
	}
}

func sameG(tr *trace, idx int, e ev) bool {
	for _, x := range tr.evs {
		if x.idx == idx {
			return x.gid == e.gid
		}
	}
	return false
}
