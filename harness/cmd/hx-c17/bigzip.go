// The size limit of copyFromZipArchive (updater.MaxUnpackSize, 1 GB): an archive member AT and just ABOVE the limit.
//
// These runs are not traced (a gigabyte is > 30 000 write calls): `hx-c17 __bigzip <dir> <size>` builds a zip with one
// member of <size> zero bytes (about 1 MB compressed), runs the real updater.UnpackResources on a registry whose
// storage is <dir> (tmpfs) and reports whether the directory was published and how many bytes of the member are in
// it. The case compares that with the model's `zipCopy` / `unpackZipPublishes`; the monitor reads the property on it:
// a published directory holds the member completely.
package main

import (
	"archive/zip"
	"bytes"
	"compress/flate"
	"fmt"
	"io"
	"os"
	"os/exec"
	"path/filepath"
	"strings"
	"sync/atomic"

	"github.com/safing/portbase/updater"
	"github.com/safing/portbase/utils"
)

type zeroReader struct{ n int64 }

func (z *zeroReader) Read(p []byte) (int, error) {
	if z.n <= 0 {
		return 0, io.EOF
	}
	if int64(len(p)) > z.n {
		p = p[:z.n]
	}
	for i := range p {
		p[i] = 0
	}
	z.n -= int64(len(p))
	return len(p), nil
}

// bigSize resolves the size class of a big-member scenario against the limit of the code under test.
func bigSize(class string) int64 {
	switch class {
	case "at-limit":
		return updater.MaxUnpackSize
	case "above-limit":
		return updater.MaxUnpackSize + 1
	case "below-limit":
		return updater.MaxUnpackSize - 1
	}
	return -1
}

func runBigZip(root string, size int64) int {
	var buf bytes.Buffer
	zw := zip.NewWriter(&buf)
	zw.RegisterCompressor(zip.Deflate, func(w io.Writer) (io.WriteCloser, error) { return flate.NewWriter(w, flate.BestSpeed) })
	w, err := zw.CreateHeader(&zip.FileHeader{Name: "big.bin", Method: zip.Deflate})
	if err != nil {
		fmt.Println("bigzip: create:", err)
		return 3
	}
	if n, err := io.Copy(w, &zeroReader{n: size}); err != nil || n != size {
		fmt.Println("bigzip: fill:", n, err)
		return 3
	}
	if err := zw.Close(); err != nil {
		fmt.Println("bigzip: close:", err)
		return 3
	}
	reg := &updater.ResourceRegistry{Name: "verif", Online: false}
	if err := reg.Initialize(utils.NewDirStructure(root, 0o755)); err != nil {
		fmt.Println("bigzip: registry:", err)
		return 3
	}
	id := "a/pack.zip"
	zipPath := filepath.Join(root, updater.GetVersionedPath(id, "1.0.0"))
	if err := os.MkdirAll(filepath.Dir(zipPath), 0o755); err != nil {
		fmt.Println("bigzip:", err)
		return 3
	}
	if err := os.WriteFile(zipPath, buf.Bytes(), 0o644); err != nil {
		fmt.Println("bigzip:", err)
		return 3
	}
	reg.AutoUnpack = []string{id}
	if err := reg.AddResource(id, "1.0.0", nil, true, true, false); err != nil {
		fmt.Println("bigzip: add resource:", err)
		return 3
	}
	reg.SelectVersions()
	uerr := reg.UnpackResources()
	dest := strings.TrimSuffix(zipPath, ".zip")
	published, member := 0, int64(-1)
	if st, err := os.Stat(dest); err == nil && st.IsDir() {
		published = 1
		if ms, err := os.Stat(filepath.Join(dest, "big.bin")); err == nil {
			member = ms.Size()
			// the bytes themselves: all zero
			if f, err := os.Open(filepath.Join(dest, "big.bin")); err == nil {
				b := make([]byte, 1<<20)
				for {
					n, err := f.Read(b)
					for _, c := range b[:n] {
						if c != 0 {
							member = -2
						}
					}
					if err != nil {
						break
					}
				}
				_ = f.Close()
			}
		}
	}
	failed := 0
	if uerr != nil {
		failed = 1
	}
	left := 0
	if es, err := os.ReadDir(filepath.Join(root, "tmp")); err == nil {
		left = len(es)
	}
	fmt.Printf("bigzip-result: published=%d member=%d failed=%d tmpleft=%d\n", published, member, failed, left)
	return 0
}

type bigOut struct {
	size                            int64
	published, member, failed, left int64
}

var bigSeq int64

// executeBig runs one big-member scenario in a child process on a tmpfs directory and removes it.
func executeBig(s scn) *runOut {
	size := bigSize(s.Var)
	if size < 0 {
		return &runOut{err: "unknown size class " + s.Var}
	}
	dir := fmt.Sprintf("/dev/shm/verif-c17-big-%d-%d", os.Getpid(), atomic.AddInt64(&bigSeq, 1))
	_ = os.RemoveAll(dir)
	if err := os.MkdirAll(dir, 0o755); err != nil {
		return &runOut{err: "bigzip dir: " + err.Error()}
	}
	defer os.RemoveAll(dir)
	self, _ := os.Executable()
	out, err := exec.Command(self, "__bigzip", dir, fmt.Sprint(size)).CombinedOutput()
	if err != nil {
		return &runOut{err: fmt.Sprintf("bigzip: %v %s", err, strings.TrimSpace(string(out)))}
	}
	b := &bigOut{size: size}
	found := false
	for _, l := range strings.Split(string(out), "\n") {
		if _, err := fmt.Sscanf(l, "bigzip-result: published=%d member=%d failed=%d tmpleft=%d", &b.published, &b.member, &b.failed, &b.left); err == nil {
			found = true
		}
	}
	if !found {
		return &runOut{err: "bigzip: no result: " + strings.TrimSpace(string(out))}
	}
	return &runOut{big: b}
}

// bigLines: the model is asked what copyFromZipArchive does with a member of this size and whether the archive
// is published.
func bigLines(s scn, ro *runOut) []string {
	lines := []string{s.line()}
	if ro.err != "" || ro.big == nil {
		return lines
	}
	return append(lines,
		fmt.Sprintf("zipcopy size=%d err=0", ro.big.size),
		fmt.Sprintf("unpack kind=zip opens=1 members=%d:0", ro.big.size))
}
