// Scenario class "two-writers": TWO operations of the real code publish to ONE destination at the same time, with
// free-running readers of the destination.
//
// The traced scenarios (one writer + readers + kill points) never have a second writer. Whether two writers of one
// destination disturb each other depends on what the code shares between them: the renameio based writers
// (WriteFile, CreateAtomic, fstree.Put, fetchFile, File.Unpack) use a freshly created, randomly named temp file per
// call, so they need nothing else; unpackZipArchive uses a NAME-DERIVED temp directory, an "already unpacked?" check
// and an error clean-up that removes the destination — it is only correct when the unpackers of one resource are
// serialised (the exclusive resource lock taken by UnpackArchive; regenerated as PB.Gen.FsDownload.unpackLock).
//
// `hx-c17 __two <dir> <run line>` lays the scenario out below <dir> (tmpfs), starts the readers, runs writer A and
// writer B in two goroutines with a FORCED overlap (B runs while A is in the middle of its content: a gate in the
// reader / unpacker / HTTP handler the scenario hands to the code, or — for the archive — B is started when A's first
// member shows up in the temp directory while a large member is still to be written) and reports how both returned,
// what the readers saw and what is on disk afterwards. No model lines: the monitor reads the property on it —
// every state a reader saw is the old or a complete new content; once an operation has returned successfully the
// destination shows a complete new content, whatever the other (failed or successful) operation did; nothing is
// left outside the temporary location.
package main

import (
	"archive/zip"
	"bytes"
	"compress/flate"
	"compress/gzip"
	"encoding/json"
	"fmt"
	"hash/fnv"
	"io"
	"net/http"
	"net/http/httptest"
	"os"
	"os/exec"
	"path/filepath"
	"runtime"
	"sort"
	"strings"
	"sync"
	"sync/atomic"
	"syscall"
	"time"

	"github.com/safing/portbase/database/storage/fstree"
	"github.com/safing/portbase/updater"
	"github.com/safing/portbase/utils"
	"github.com/safing/portbase/utils/renameio"
)

func isTwo(w string) bool { return strings.HasPrefix(w, "two-") }

// twoOut is the report of the child process.
type twoOut struct {
	RetA, RetB string   // "ok" | "err"
	ErrA, ErrB string   // the error texts (not judged)
	Old        string   // the allowed states, named by the child from its own content table
	News       []string //
	Final      string   // the destination after both returned
	Bad        string   // first state a free-running reader saw that is neither old nor a new ("-" = none)
	BadWhen    string   // "during" | "after-first-success"
	Reads      int64
	Overlap    bool     // B really started while A was in the middle (the forced interleaving happened)
	Leftovers  []string // paths that exist afterwards, did not exist before, and are not the destination / temp
	Error      string   // set-up problem (harness error)
}

// ---- naming what a reader sees ------------------------------------------------------------------------------------

type twoNames struct {
	dest    string
	files   map[string]string // content hash -> name, for single-file destinations
	treeNew string            // expected tree (directory destinations)
}

func hashBytes(b []byte) string {
	h := fnv.New64a()
	h.Write(b)
	return fmt.Sprintf("%d:%016x", len(b), h.Sum64())
}

func hashFile(p string) (string, error) {
	f, err := os.Open(p)
	if err != nil {
		return "", err
	}
	defer f.Close()
	h := fnv.New64a()
	n, err := io.Copy(h, f)
	if err != nil {
		return "", err
	}
	return fmt.Sprintf("%d:%016x", n, h.Sum64()), nil
}

// treeString is the canonical text of a directory tree given as rel path -> "d" | "f,<len>:<hash>".
func treeString(m map[string]string) string {
	var ks []string
	for k := range m {
		ks = append(ks, k)
	}
	sort.Strings(ks)
	var sb strings.Builder
	sb.WriteString("d{")
	for i, k := range ks {
		if i > 0 {
			sb.WriteString(";")
		}
		sb.WriteString(k + "|" + m[k])
	}
	sb.WriteString("}")
	return sb.String()
}

// observe reads the destination as any reader would. Allowed states are returned by name ("old", "newA", …), every
// other state in the f,… / d{…} / - notation of the traced scenarios (so obsClass applies).
func (t *twoNames) observe() string {
	for try := 0; try < 5; try++ {
		fi, err := os.Lstat(t.dest)
		if err != nil {
			return "-"
		}
		switch {
		case fi.Mode().IsRegular():
			h, err := hashFile(t.dest)
			if err != nil {
				continue // replaced between lstat and open
			}
			if n, ok := t.files[h]; ok {
				return n
			}
			if strings.HasPrefix(h, "0:") {
				return "f,-"
			}
			return "f," + h
		case fi.IsDir():
			m := map[string]string{}
			_ = filepath.Walk(t.dest, func(p string, fi os.FileInfo, err error) error {
				if err != nil || fi == nil || p == t.dest {
					return nil
				}
				rel := strings.TrimPrefix(p, t.dest+"/")
				switch {
				case fi.IsDir():
					m[rel] = "d"
				case fi.Mode().IsRegular():
					h, err := hashFile(p)
					if err != nil {
						h = "unreadable"
					}
					m[rel] = "f," + h
				default:
					m[rel] = "other," + fi.Mode().Type().String()
				}
				return nil
			})
			ts := treeString(m)
			if ts == t.treeNew {
				return "newA"
			}
			return ts
		default:
			return "other," + fi.Mode().Type().String()
		}
	}
	return "f,unreadable"
}

// ---- gates ----------------------------------------------------------------------------------------------------------

// gateReader delivers the first half of its data, then calls mid() once (which may block), then the rest.
type gateReader struct {
	r    io.Reader
	half int
	pos  int
	mid  func()
	done bool
}

func (g *gateReader) Read(p []byte) (int, error) {
	if !g.done && g.pos >= g.half {
		g.done = true
		if g.mid != nil {
			g.mid()
		}
	}
	if !g.done && g.pos+len(p) > g.half {
		p = p[:g.half-g.pos]
	}
	if len(p) > 4096 {
		p = p[:4096]
	}
	n, err := g.r.Read(p)
	g.pos += n
	return n, err
}

func waitOrTimeout(ch <-chan struct{}, d time.Duration) bool {
	select {
	case <-ch:
		return true
	case <-time.After(d):
		return false
	}
}

// ---- the child process ---------------------------------------------------------------------------------------------

func retText(err error) (string, string) {
	if err != nil {
		return "err", strings.ReplaceAll(err.Error(), "\n", " ")
	}
	return "ok", ""
}

func runTwo(dir, line string) int {
	out := &twoOut{Bad: "-"}
	defer func() {
		js, _ := json.Marshal(out)
		fmt.Println("two-result: " + string(js))
	}()
	s, err := parseScn(line)
	if err != nil {
		out.Error = err.Error()
		return 0
	}
	syscall.Umask(0o022)
	root := filepath.Join(dir, "R")
	for _, d := range []string{root + "/dst", root + "/tmp"} {
		if err := os.MkdirAll(d, 0o755); err != nil {
			out.Error = err.Error()
			return 0
		}
	}
	_ = os.Setenv("TMPDIR", root+"/tmp")
	tmpdirs := []string{root + "/tmp"}
	names := &twoNames{files: map[string]string{}}
	oldData := pattern(s.Seed, 0, s.OldLen)
	dataA := pattern(s.Seed, 1, s.NewLen)
	dataB := pattern(s.Seed, 2, s.NewLen/2+3)
	out.Old = "-"
	var opA, opB func() error
	// writers whose data is a byte slice cannot be held in the middle: both calls are repeated `rounds` times and
	// every round is started together (spin barrier), so that some rounds overlap
	const rounds = 24
	var arrived int32
	together := func(op func() error) func() error {
		return func() error {
			for i := 1; i <= rounds; i++ {
				atomic.AddInt32(&arrived, 1)
				for spin := 0; atomic.LoadInt32(&arrived) < int32(2*i) && spin < 2000000; spin++ {
					if spin%64 == 63 {
						runtime.Gosched()
					}
				}
				if err := op(); err != nil {
					return err
				}
			}
			return nil
		}
	}
	// aMid is closed when A is in the middle of its content; bDone when B has returned. A's gate waits for bDone
	// (bounded: a serialising implementation keeps B out until A is done — then the wait times out and A goes on).
	aMid, bDone := make(chan struct{}), make(chan struct{})
	var midOnce sync.Once
	gateA := func() {
		midOnce.Do(func() { close(aMid) })
		if waitOrTimeout(bDone, 1500*time.Millisecond) {
			out.Overlap = true
		}
	}
	writeOld := func() error {
		if s.Old == "absent" {
			return nil
		}
		if err := os.MkdirAll(filepath.Dir(names.dest), 0o755); err != nil {
			return err
		}
		out.Old = "old"
		names.files[hashBytes(oldData)] = "old"
		return os.WriteFile(names.dest, oldData, 0o644)
	}
	switch s.Writer {
	case "two-create-atomic", "two-rio-writefile":
		names.dest = root + "/dst/file.bin"
		if err := writeOld(); err != nil {
			out.Error = err.Error()
			return 0
		}
		names.files[hashBytes(dataA)], names.files[hashBytes(dataB)] = "newA", "newB"
		out.News = []string{"newA", "newB"}
		if s.Writer == "two-create-atomic" {
			opA = func() error {
				return utils.CreateAtomic(names.dest, &gateReader{r: bytes.NewReader(dataA), half: len(dataA) / 2, mid: gateA}, &utils.AtomicFileOptions{Mode: 0o644})
			}
			opB = func() error {
				return utils.CreateAtomic(names.dest, &gateReader{r: bytes.NewReader(dataB), half: len(dataB) / 2}, &utils.AtomicFileOptions{Mode: 0o600})
			}
		} else {
			// no gate possible (the data is a byte slice): both start at a barrier
			midOnce.Do(func() { close(aMid) })
			opA = together(func() error { return renameio.WriteFile(names.dest, dataA, 0o644) })
			opB = together(func() error { return renameio.WriteFile(names.dest, dataB, 0o644) })
		}
	case "two-fstree-put":
		key := "k/rec"
		st, err := fstree.NewFSTree("t", root+"/dst")
		if err != nil {
			out.Error = err.Error()
			return 0
		}
		names.dest = root + "/dst/k/rec"
		recA, recB := fstreeRecord(key, dataA), fstreeRecord(key, dataB)
		fa, e1 := recA.MarshalRecord(nil)
		fb, e2 := recB.MarshalRecord(nil)
		fo, e3 := fstreeRecord(key, oldData).MarshalRecord(nil)
		if e1 != nil || e2 != nil || e3 != nil {
			out.Error = fmt.Sprint("marshal record: ", e1, e2, e3)
			return 0
		}
		oldData = fo
		if err := writeOld(); err != nil {
			out.Error = err.Error()
			return 0
		}
		names.files[hashBytes(fa)], names.files[hashBytes(fb)] = "newA", "newB"
		out.News = []string{"newA", "newB"}
		midOnce.Do(func() { close(aMid) })
		opA = together(func() error { _, err := st.Put(recA); return err })
		opB = together(func() error { _, err := st.Put(recB); return err })
	case "two-getfile", "two-file-unpack", "two-unpack-zip":
		reg := &updater.ResourceRegistry{Name: "verif", Online: s.Writer == "two-getfile"}
		if err := reg.Initialize(utils.NewDirStructure(root+"/dst", 0o755)); err != nil {
			out.Error = "registry: " + err.Error()
			return 0
		}
		tmpdirs = append(tmpdirs, root+"/dst/tmp")
		switch s.Writer {
		case "two-getfile":
			id := "a/file.bin"
			names.dest = root + "/dst/" + updater.GetVersionedPath(id, "1.0.0")
			names.files[hashBytes(dataA)] = "newA"
			out.News = []string{"newA"}
			var reqs int32
			second := make(chan struct{})
			var secondOnce sync.Once
			srv := httptest.NewServer(http.HandlerFunc(func(w http.ResponseWriter, r *http.Request) {
				if strings.HasSuffix(r.URL.Path, ".sig") {
					http.NotFound(w, r)
					return
				}
				w.Header().Set("Content-Length", fmt.Sprint(len(dataA)))
				if atomic.AddInt32(&reqs, 1) == 1 {
					// first download: half of the body, then wait until the other download has been answered completely
					_, _ = w.Write(dataA[:len(dataA)/2])
					if f, ok := w.(http.Flusher); ok {
						f.Flush()
					}
					midOnce.Do(func() { close(aMid) })
					if waitOrTimeout(bDone, 1500*time.Millisecond) {
						out.Overlap = true
					}
					_, _ = w.Write(dataA[len(dataA)/2:])
					return
				}
				secondOnce.Do(func() { close(second) })
				_, _ = w.Write(dataA)
			}))
			defer srv.Close()
			reg.UpdateURLs = []string{srv.URL}
			if err := reg.AddResource(id, "1.0.0", &updater.Index{AutoDownload: true}, false, true, false); err != nil {
				out.Error = "add resource: " + err.Error()
				return 0
			}
			reg.SelectVersions()
			get := func() error {
				f, err := reg.GetFile(id)
				if err == nil && f.Path() != names.dest {
					return fmt.Errorf("GetFile answered %s, expected %s", f.Path(), names.dest)
				}
				return err
			}
			opA, opB = get, get
		case "two-file-unpack":
			id := "a/file.bin.gz"
			gzPath := root + "/dst/" + updater.GetVersionedPath(id, "1.0.0")
			names.dest = strings.TrimSuffix(gzPath, ".gz")
			names.files[hashBytes(dataA)] = "newA"
			out.News = []string{"newA"}
			_ = os.MkdirAll(filepath.Dir(gzPath), 0o755)
			if err := os.WriteFile(gzPath, gzipBytes(dataA), 0o644); err != nil {
				out.Error = err.Error()
				return 0
			}
			if err := reg.AddResource(id, "1.0.0", nil, true, true, false); err != nil {
				out.Error = "add resource: " + err.Error()
				return 0
			}
			reg.SelectVersions()
			unpack := func(mid func()) func() error {
				return func() error {
					f, err := reg.GetFile(id)
					if err != nil {
						return err
					}
					p, err := f.Unpack(".gz", func(r io.Reader) (io.Reader, error) {
						zr, err := gzip.NewReader(r)
						if err != nil {
							return nil, err
						}
						return &gateReader{r: zr, half: len(dataA) / 2, mid: mid}, nil
					})
					if err == nil && p != names.dest {
						return fmt.Errorf("unpacked to %s, expected %s", p, names.dest)
					}
					return err
				}
			}
			opA, opB = unpack(gateA), unpack(nil)
		case "two-unpack-zip":
			id := "a/pack.zip"
			zipPath := root + "/dst/" + updater.GetVersionedPath(id, "1.0.0")
			names.dest = strings.TrimSuffix(zipPath, ".zip")
			_ = os.MkdirAll(filepath.Dir(zipPath), 0o755)
			// members: a small first one, directories, a LARGE one (zero bytes: tiny archive, long unpacking), a last one
			big := int64(s.NewLen) << 10 // NewLen is in KiB for this writer
			tree := map[string]string{}
			var buf bytes.Buffer
			zw := zip.NewWriter(&buf)
			zw.RegisterCompressor(zip.Deflate, func(w io.Writer) (io.WriteCloser, error) { return flate.NewWriter(w, flate.BestSpeed) })
			addFile := func(name string, data []byte) {
				w, _ := zw.CreateHeader(&zip.FileHeader{Name: name, Method: zip.Deflate})
				_, _ = w.Write(data)
				tree[name] = "f," + hashBytes(data)
			}
			fl := len(dataA)
			if fl > 3000 {
				fl = 3000
			}
			addFile("1-first.bin", dataA[:fl])
			// var=flat: no directory members (an unpacker that finds a directory of the other one fails at once);
			// var=sub: the large member lies in a sub-directory
			bigName := "2-big.bin"
			if s.Var == "sub" {
				dh := &zip.FileHeader{Name: "sub/", Method: zip.Store}
				dh.SetMode(0o755 | os.ModeDir)
				_, _ = zw.CreateHeader(dh)
				tree["sub"] = "d"
				bigName = "sub/2-big.bin"
			}
			{
				w, _ := zw.CreateHeader(&zip.FileHeader{Name: bigName, Method: zip.Deflate})
				_, _ = io.Copy(w, &zeroReader{n: big})
				h := fnv.New64a()
				_, _ = io.Copy(h, &zeroReader{n: big})
				tree[bigName] = fmt.Sprintf("f,%d:%016x", big, h.Sum64())
			}
			addFile("3-last.bin", dataB)
			if err := zw.Close(); err != nil {
				out.Error = err.Error()
				return 0
			}
			if err := os.WriteFile(zipPath, buf.Bytes(), 0o644); err != nil {
				out.Error = err.Error()
				return 0
			}
			names.treeNew = treeString(tree)
			out.News = []string{"newA"}
			if s.Old == "dir" {
				out.Error = "two-unpack-zip: old=dir not supported"
				return 0
			}
			reg.AutoUnpack = []string{id}
			if err := reg.AddResource(id, "1.0.0", nil, true, true, false); err != nil {
				out.Error = "add resource: " + err.Error()
				return 0
			}
			reg.SelectVersions()
			// A is "in the middle" when its first member exists in the (name-derived) unpack directory
			first := filepath.Join(root, "dst", "tmp", "pack_v1-0-0", "1-first.bin")
			go func() {
				deadline := time.Now().Add(3 * time.Second)
				for time.Now().Before(deadline) {
					if _, err := os.Lstat(first); err == nil {
						out.Overlap = true
						break
					}
					time.Sleep(20 * time.Microsecond)
				}
				midOnce.Do(func() { close(aMid) })
			}()
			opA = func() error { return reg.UnpackResources() }
			opB = func() error { return reg.UnpackResources() }
		}
	default:
		out.Error = "unknown two-writers scenario " + s.Writer
		return 0
	}

	// what is there before
	before := map[string]bool{}
	_ = filepath.Walk(root, func(p string, fi os.FileInfo, err error) error {
		if err == nil {
			before[p] = true
		}
		return nil
	})

	// free-running readers
	var stop, succeeded int32
	var reads int64
	var badMu sync.Mutex
	allowed := func(o string, afterSuccess bool) bool {
		for _, n := range out.News {
			if o == n {
				return true
			}
		}
		return o == out.Old && !afterSuccess
	}
	var rwg sync.WaitGroup
	for i := 0; i < 3; i++ {
		rwg.Add(1)
		go func() {
			defer rwg.Done()
			for atomic.LoadInt32(&stop) == 0 {
				// "after a success": an operation had ALREADY returned successfully when this read started
				after := atomic.LoadInt32(&succeeded) == 1
				o := names.observe()
				atomic.AddInt64(&reads, 1)
				if !allowed(o, after) {
					badMu.Lock()
					if out.Bad == "-" {
						out.Bad = o
						out.BadWhen = "during"
						if after && o == out.Old {
							out.BadWhen = "after-first-success"
						}
					}
					badMu.Unlock()
				}
			}
		}()
	}

	var wg sync.WaitGroup
	var errA, errB error
	wg.Add(2)
	go func() {
		defer wg.Done()
		errA = opA()
		if errA == nil {
			atomic.StoreInt32(&succeeded, 1)
		}
	}()
	go func() {
		defer wg.Done()
		<-aMid
		errB = opB()
		if errB == nil {
			atomic.StoreInt32(&succeeded, 1)
		}
		close(bDone)
	}()
	wg.Wait()
	// a few more looks after both have returned
	time.Sleep(2 * time.Millisecond)
	atomic.StoreInt32(&stop, 1)
	rwg.Wait()
	out.Reads = reads
	out.RetA, out.ErrA = retText(errA)
	out.RetB, out.ErrB = retText(errB)
	out.Final = names.observe()
	_ = filepath.Walk(root, func(p string, fi os.FileInfo, err error) error {
		if err != nil || before[p] || hasPrefixPath(p, names.dest) || hasPrefixPath(names.dest, p) {
			return nil
		}
		for _, t := range tmpdirs {
			if hasPrefixPath(p, t) {
				return nil
			}
		}
		if strings.HasPrefix(filepath.Base(p), "."+filepath.Base(names.dest)) && filepath.Dir(p) == filepath.Dir(names.dest) {
			return nil // renameio's temp name next to the destination
		}
		out.Leftovers = append(out.Leftovers, strings.TrimPrefix(p, root+"/"))
		return nil
	})
	return 0
}

// ---- the parent side -----------------------------------------------------------------------------------------------

var twoSeq int64

func executeTwo(s scn) *runOut {
	dir := fmt.Sprintf("/dev/shm/verif-c17-two-%d-%d", os.Getpid(), atomic.AddInt64(&twoSeq, 1))
	_ = os.RemoveAll(dir)
	if err := os.MkdirAll(dir, 0o755); err != nil {
		return &runOut{err: "two-writers dir: " + err.Error()}
	}
	defer os.RemoveAll(dir)
	self, _ := os.Executable()
	cmd := exec.Command(self, "__two", dir, s.line())
	outb, err := cmd.CombinedOutput()
	if err != nil {
		return &runOut{err: fmt.Sprintf("two-writers: %v %s", err, strings.TrimSpace(string(outb)))}
	}
	for _, l := range strings.Split(string(outb), "\n") {
		if strings.HasPrefix(l, "two-result: ") {
			t := &twoOut{}
			if err := json.Unmarshal([]byte(strings.TrimPrefix(l, "two-result: ")), t); err != nil {
				return &runOut{err: "two-writers result: " + err.Error()}
			}
			if t.Error != "" {
				return &runOut{err: "two-writers set-up: " + t.Error}
			}
			return &runOut{two: t}
		}
	}
	return &runOut{err: "two-writers: no result: " + strings.TrimSpace(string(outb))}
}

func twoLines(s scn) []string { return []string{s.line(), "two"} }

// twoAnswer is the implementation's answer to the `two` line (canonical: no counts, no error texts).
func twoAnswer(t *twoOut) string {
	lo := "-"
	if len(t.Leftovers) > 0 {
		sort.Strings(t.Leftovers)
		lo = strings.Join(t.Leftovers, ",")
	}
	when := t.BadWhen
	if when == "" {
		when = "-"
	}
	return fmt.Sprintf("retA=%s retB=%s old=%s news=%s final=%s bad=%s when=%s leftovers=%s", t.RetA, t.RetB, t.Old, strings.Join(t.News, ","),
		strings.ReplaceAll(t.Final, " ", "_"), strings.ReplaceAll(t.Bad, " ", "_"), when, strings.ReplaceAll(lo, " ", "_"))
}

// twoMonitor reads the property on a two-writers run.
func twoMonitor(s scn, lines, outs []string) (vs []Violation2) {
	for i, l := range lines {
		if l != "two" {
			continue
		}
		kv := map[string]string{}
		for _, f := range strings.Fields(outs[i]) {
			if j := strings.IndexByte(f, '='); j > 0 {
				kv[f[:j]] = f[j+1:]
			}
		}
		if kv["final"] == "" {
			continue // harness error / panic line: reported elsewhere
		}
		news := strings.Split(kv["news"], ",")
		isNew := func(o string) bool {
			for _, n := range news {
				if o == n {
					return true
				}
			}
			return false
		}
		what := map[string]string{"two-unpack-zip": "two concurrent UnpackResources() calls for the same archive",
			"two-create-atomic": "two concurrent utils.CreateAtomic calls to one destination", "two-rio-writefile": "two concurrent renameio.WriteFile calls to one destination",
			"two-fstree-put": "two concurrent fstree.Put calls for one key", "two-getfile": "two concurrent GetFile calls for one resource that has to be downloaded",
			"two-file-unpack": "two concurrent File.Unpack calls for one file"}[s.Writer]
		if b := kv["bad"]; b != "-" {
			if kv["when"] == "after-first-success" {
				vs = append(vs, Violation2{"C17:" + s.Writer + ":concurrent-reader:previous-state-after-success",
					fmt.Sprintf("%s: a free-running reader that started after one of the operations had returned successfully saw the previous state %s again", what, b)})
			} else {
				vs = append(vs, Violation2{"C17:" + s.Writer + ":concurrent-reader:" + obsClass(b),
					fmt.Sprintf("%s: a free-running reader of the destination observed %s, which is neither the previous state nor a complete new content", what, b)})
			}
		}
		fin := kv["final"]
		switch {
		case !isNew(fin) && fin != kv["old"]:
			vs = append(vs, Violation2{"C17:" + s.Writer + ":final-state:" + obsClass(fin),
				fmt.Sprintf("%s (A returned %s, B returned %s): afterwards the destination shows %s, neither the previous state nor a complete new content", what, kv["retA"], kv["retB"], fin)})
		case !isNew(fin) && (kv["retA"] == "ok" || kv["retB"] == "ok"):
			vs = append(vs, Violation2{"C17:" + s.Writer + ":final-state:" + obsClass(fin),
				fmt.Sprintf("%s (A returned %s, B returned %s): an operation reported success, but afterwards the destination shows %s instead of a complete new content", what, kv["retA"], kv["retB"], fin)})
		}
		if lo := kv["leftovers"]; lo != "-" {
			vs = append(vs, Violation2{"C17:" + s.Writer + ":leftover-outside-temp",
				fmt.Sprintf("%s: left behind outside the temporary location: %s", what, lo)})
		}
	}
	return vs
}

// Violation2 is signature + text (turned into hxlib.Violation by the caller).
type Violation2 struct{ Sig, What string }
