//go:build linux && amd64

// hx-c17: correspondence harness and property monitor for C17 (atomic file publication).
//
// A case is ONE run of one writer of the real code (renameio.WriteFile / Symlink, utils.CreateAtomic /
// CopyFileAtomic / ReplaceFileAtomic, fstree.Put, updater download, updater.UnpackResources, File.Unpack) in a
// child process under the ptrace stepper (tracer.go), either to completion or killed immediately before its
// k-th file-system-mutating system call. The lines of the case are the initial file-system state, the
// translated system calls of the run and the final state; the compiled Lean model (abstract POSIX file system +
// safePublish checker) replays them. Compared per line: errno of every call and the destination as a reader
// sees it after every call (real kernel vs. model), the final snapshot, and the verdict of the checker.
package main

import (
	"fmt"
	"os"
	"path/filepath"
	"sort"
	"strings"
	"sync"

	"verifharness/hxlib"
)

// ---- running scenarios ----------------------------------------------------------------------------------------

var (
	cacheMu  sync.Mutex
	runCache = map[string]*runOut{}
)

func scratchBase() string {
	d := os.Getenv("VERIF_SCRATCH_DIR")
	if d == "" {
		d = filepath.Join(os.TempDir(), "verif-c17-manual")
	}
	d = filepath.Join(d, "sandboxes")
	_ = os.MkdirAll(d, 0o755)
	return d
}

func caseLines(s scn, ro *runOut) []string {
	if s.Writer == "unpack-zip-big" {
		return bigLines(s, ro)
	}
	if isTwo(s.Writer) {
		return twoLines(s)
	}
	lines := []string{s.line()}
	if ro.err != "" || ro.res == nil {
		return lines
	}
	for _, e := range ro.res.Init {
		lines = append(lines, "mk "+e)
	}
	lines = append(lines, ro.destLine)
	if ro.dlLine != "" {
		lines = append(lines, ro.dlLine)
	}
	for _, ev := range ro.res.Events {
		lines = append(lines, "sys "+ev.Call)
	}
	lines = append(lines, "end", "readers", "check", "temps")
	if s.K == 0 && ro.res.Completed {
		// the decision of the writer (complete runs): what the client saw of every response, and what each attempt
		// did with it — real code vs. the model's transport + fetchDecision / unpack decision
		if ro.dlLine != "" {
			lines = append(lines, "http", "outcome")
		}
		if ro.upLine != "" {
			up := ro.upLine
			if strings.HasPrefix(up, "unpack kind=gz there=0 ") {
				// File.Unpack returns early when the unpacked file is already there: "there" is what the run found
				// at its begin marker — an earlier, uninterrupted run of the same operation (history `pre` beyond
				// the operation's last call) has already published it
				if d, ok := parseDest(ro.destLine); ok {
					for _, e := range ro.res.Init {
						if strings.HasPrefix(e, d.path+"|") {
							up = strings.Replace(up, "there=0", "there=1", 1)
							break
						}
					}
				}
			}
			lines = append(lines, up)
		}
	}
	if pl := progLine(s); pl != "" {
		lines = append(lines, pl)
	} else if ro.progLine != "" {
		lines = append(lines, ro.progLine)
	}
	return lines
}

// progLine names the Lean program (PB.Model.FsWriters) this writer is modelled by, with the parameters the Go
// code gets from its caller / environment. The driver checks that the recorded run is a path of that program
// and says how the program returns; the executor answers with how the real call returned.
func progLine(s scn) string {
	tmpdir := map[string]string{"same": "R/tmp", "explicit": "R/tmp", "explicit-cross": "R/tmp", "cross": "X", "bad": "R/missing"}[s.TmpMode]
	optdir := "-"
	if s.TmpMode == "explicit" {
		optdir = "R/tmp2"
	}
	if s.TmpMode == "explicit-cross" {
		optdir = "X"
	}
	if s.Pre > 0 && s.Writer == "replace-atomic" {
		return "" // the mode comes from whatever the interrupted earlier run left at the destination
	}
	switch s.Writer {
	case "rio-writefile":
		return fmt.Sprintf("prog writefile tmpdir=%s mode=%s", tmpdir, s.Perm)
	case "fstree-put":
		return fmt.Sprintf("prog fstreeput tmpdir=%s mode=644", tmpdir)
	case "rio-symlink":
		return "prog symlink target=new-target mode=0"
	case "create-atomic":
		mode := s.Perm
		if s.Var == "nilopts" {
			mode, optdir = "0", "-"
		}
		rf := "0"
		if s.Fail == "reader" {
			rf = "1"
		}
		return fmt.Sprintf("prog createatomic tmpdir=%s optdir=%s mode=%s readfails=%s", tmpdir, optdir, mode, rf)
	case "copy-atomic", "replace-atomic":
		if s.Fail == "nosrc" {
			return "prog nothing mode=0"
		}
		mode := s.Perm
		if mode == "0" {
			mode = "640" // the mode of the source file
			if s.Writer == "replace-atomic" && s.Old == "file" {
				mode = "644" // the mode of the existing destination
			}
			if s.Writer == "replace-atomic" && s.Old == "file400" {
				mode = "400"
			}
		}
		return fmt.Sprintf("prog createatomic tmpdir=%s optdir=%s mode=%s readfails=0", tmpdir, optdir, mode)
	case "fetch":
		if s.Var == "signed-sig" || s.Var == "missing-sig" {
			return "" // the observed destination is the signature file: checked through the recorded sequence only
		}
		return fmt.Sprintf("prog download tmpdir=%s storage=R/dst mode=0", tmpdir)
	case "file-unpack":
		return "" // needs what compress/gzip makes of the file: built with the scenario (runOut.progLine)
	}
	return ""
}

// ---- executor ---------------------------------------------------------------------------------------------------

type c17exec struct {
	ro   *runOut
	s    scn
	init map[string]bool
	i    int
}

func (e *c17exec) Do(line string) string {
	f := strings.Fields(line)
	if len(f) == 0 {
		return "bad-op"
	}
	switch f[0] {
	case "run":
		s, err := parseScn(line)
		if err != nil {
			return "bad-op"
		}
		cacheMu.Lock()
		ro := runCache[line]
		delete(runCache, line)
		cacheMu.Unlock()
		if ro == nil {
			ro = execute(s, scratchBase())
		}
		e.ro, e.s, e.i = ro, s, 0
		if ro.err != "" {
			return "harness-error " + strings.ReplaceAll(ro.err, "\n", " ")
		}
		if ro.big != nil || ro.two != nil {
			return "ok"
		}
		e.init = map[string]bool{}
		for _, x := range ro.res.Init {
			e.init[x] = true
		}
		return "ok"
	}
	if e.ro != nil && e.ro.big != nil {
		// what the real unpacking did with the one big member
		switch f[0] {
		case "zipcopy":
			if e.ro.big.failed == 1 {
				return "written=- failed=1"
			}
			return fmt.Sprintf("written=%d failed=0", e.ro.big.member)
		case "unpack":
			if e.ro.big.published == 1 {
				return "publish"
			}
			return "no-publish"
		}
		return "bad-op"
	}
	if e.ro != nil && e.ro.two != nil {
		if f[0] == "two" {
			return twoAnswer(e.ro.two)
		}
		return "bad-op"
	}
	if e.ro == nil || e.ro.res == nil {
		return "no-run"
	}
	switch f[0] {
	case "mk":
		if e.init[strings.TrimPrefix(line, "mk ")] {
			return "ok"
		}
		return "not-in-initial-state"
	case "dest":
		if line == e.ro.destLine {
			return "ok"
		}
		return "dest-differs " + e.ro.destLine
	case "dl":
		if line == e.ro.dlLine {
			return "ok"
		}
		return "dl-differs " + e.ro.dlLine
	case "http":
		// what the observing transport of the writer process saw of every response for the resource
		for _, l := range strings.Split(e.ro.res.WriterOut, "\n") {
			if strings.HasPrefix(l, "http: ") {
				return strings.TrimPrefix(l, "http: ")
			}
			if l == "http:" {
				return ""
			}
		}
		return "no-http-report"
	case "outcome":
		return observedOutcomes(e.ro)
	case "unpack":
		if d, ok := parseDest(e.ro.destLine); ok {
			for _, ev := range e.ro.res.Events {
				f := strings.Fields(ev.Call)
				if ev.Res == "ok" && f[0] == "rename" && f[2] == d.path {
					return "publish"
				}
			}
		}
		return "no-publish"
	case "sys":
		if e.i >= len(e.ro.res.Events) {
			return "trace-ended"
		}
		ev := e.ro.res.Events[e.i]
		e.i++
		if "sys "+ev.Call != line {
			return "trace-differs " + ev.Call
		}
		return ev.Res + " " + ev.Obs
	case "end":
		if e.i != len(e.ro.res.Events) {
			return fmt.Sprintf("trace-has-%d-more-calls", len(e.ro.res.Events)-e.i)
		}
		return e.ro.res.FinalObs + " " + strings.Join(e.ro.res.Final, ";")
	case "readers":
		// every reader of the destination: the free-running goroutines and the look taken at every stop
		if e.ro.res.ReaderBad != "" {
			detailMu.Lock()
			readerDetail[e.s.line()] = e.ro.res.ReaderBad
			detailMu.Unlock()
			return "bad"
		}
		if !e.allObsAllowed() {
			return "bad"
		}
		return "ok"
	case "check":
		// the property read on this run: ordering clause (fsync before rename, nothing in place) and every state
		// a reader could see at a stop is the old or the new one
		if v := literalCheck(e.ro.destLine, e.ro.res.Events); v != "" || !e.allObsAllowed() {
			return "unsafe"
		}
		return "safe"
	case "prog":
		switch {
		case !e.ro.res.Completed:
			return "ok ret=-"
		case strings.Contains(e.ro.res.WriterOut, "result: ok"):
			return "ok ret=ok"
		case strings.Contains(e.ro.res.WriterOut, "result: err"):
			return "ok ret=err"
		}
		return "ok ret=?"
	case "temps":
		// acceptor line: the model checks that every name the run created is the destination, on the way to it,
		// or temporary; the monitor checks the same on the real final snapshot
		return "ok"
	}
	return "bad-op"
}

// observedOutcomes reads off the recorded calls what every attempt of a download did: a pending file created in
// the registry's tmp dir for the resource starts an attempt; the bytes written to it; whether it was renamed onto
// the destination (and whether a signature file was renamed into place during the attempt). An attempt that
// ended before a pending file existed is visible only through its signature request.
func observedOutcomes(ro *runOut) string {
	d, ok := parseDest(ro.destLine)
	if !ok {
		return "no-dest"
	}
	base := d.path[strings.LastIndexByte(d.path, '/')+1:]
	sigDest := ""
	for _, kv := range strings.Fields(ro.dlLine) {
		if strings.HasPrefix(kv, "sigdest=") && kv != "sigdest=-" {
			sigDest = strings.TrimPrefix(kv, "sigdest=")
		}
	}
	type att struct {
		tmp, fd  string
		written  int64
		pub, sig bool
		open     bool
	}
	var atts []*att
	for _, ev := range ro.res.Events {
		if ev.Res != "ok" {
			continue
		}
		f := strings.Fields(ev.Call)
		var cur *att
		if len(atts) > 0 {
			cur = atts[len(atts)-1]
		}
		switch f[0] {
		case "open":
			if strings.HasPrefix(f[1], "R/dst/tmp/."+base+"#") && strings.Contains(f[2], "excl") {
				atts = append(atts, &att{tmp: f[1], fd: strings.TrimPrefix(f[len(f)-1], "fd="), open: true})
			}
		case "write":
			if cur != nil && cur.open && f[1] == cur.fd {
				if p := strings.Split(f[2], ":"); len(p) == 3 {
					var n int64
					fmt.Sscan(p[2], &n)
					cur.written += n
				}
			}
		case "close":
			if cur != nil && f[1] == cur.fd {
				cur.open = false
			}
		case "rename":
			if cur != nil && f[1] == cur.tmp && f[2] == d.path {
				cur.pub = true
			}
			if cur != nil && sigDest != "" && f[2] == sigDest {
				cur.sig = true
			}
		}
	}
	var out []string
	for _, a := range atts {
		o := "abort"
		if a.pub {
			o = "publish"
			if a.sig {
				o = "publish+sig"
			}
		}
		out = append(out, fmt.Sprintf("%s:%d", o, a.written))
	}
	if len(atts) == 0 {
		for _, l := range strings.Split(ro.res.WriterOut, "\n") {
			var n int
			if _, err := fmt.Sscanf(l, "sigreqs: %d", &n); err == nil {
				for i := 0; i < n; i++ {
					out = append(out, "none:0")
				}
			}
		}
	}
	return strings.Join(out, ";")
}

func (e *c17exec) allObsAllowed() bool {
	ok := func(o string) bool { so := stripObs(o); return so == e.ro.oldObs || so == e.ro.newObs }
	if !ok(e.ro.res.InitObs) {
		return false
	}
	for _, ev := range e.ro.res.Events {
		if !ok(ev.Obs) {
			return false
		}
	}
	return true
}

var (
	detailMu     sync.Mutex
	readerDetail = map[string]string{}
)

// ---- the property read literally ------------------------------------------------------------------------------

type destInfo struct {
	path, kind, old, new    string
	tmpdirs, tmpnames, also []string
}

func parseDest(line string) (d destInfo, ok bool) {
	f := strings.Fields(line)
	if len(f) < 3 || f[0] != "dest" {
		return d, false
	}
	d.path = f[1]
	for _, kv := range f[2:] {
		i := strings.IndexByte(kv, '=')
		if i < 0 {
			continue
		}
		k, v := kv[:i], kv[i+1:]
		switch k {
		case "kind":
			d.kind = v
		case "old":
			d.old = v
		case "new":
			d.new = v
		case "tmpdirs":
			d.tmpdirs = strings.Split(v, ",")
		case "tmpname":
			d.tmpnames = strings.Split(v, ",")
		case "also":
			if v != "" {
				d.also = strings.Split(v, ",")
			}
		}
	}
	return d, true
}

// literalCheck evaluates the ordering clause of the property on a recorded call sequence: the new content of a
// single file is flushed (fsync after its last modification) before it is renamed onto the destination, and the
// destination is never opened for writing / truncated in place. Returns "" or a description.
func literalCheck(destLine string, evs []Event) string {
	d, ok := parseDest(destLine)
	if !ok {
		return "no dest line"
	}
	var calls []string
	var res []string
	for _, e := range evs {
		calls = append(calls, e.Call)
		res = append(res, e.Res)
	}
	return literalCheckCalls(d, calls, res)
}

func literalCheckCalls(d destInfo, calls, res []string) string {
	if d.kind == "dir" {
		return ""
	}
	fileAt := map[string]int{} // path -> file id created by this run
	fdFile := map[string]int{}
	dirty := map[int]bool{}
	next := 1
	for i, c := range calls {
		if res[i] != "ok" {
			continue
		}
		f := strings.Fields(c)
		switch f[0] {
		case "open":
			path, flags := f[1], f[2]
			if path == d.path {
				return "destination opened for writing in place: " + c
			}
			id, known := fileAt[path]
			if strings.Contains(flags, "creat") && !known {
				id = next
				next++
				fileAt[path] = id
				dirty[id] = true // a new file has no durable content yet
			}
			if strings.Contains(flags, "trunc") && known {
				dirty[id] = true
			}
			if id != 0 {
				fdFile[strings.TrimPrefix(f[len(f)-1], "fd=")] = id
			}
		case "write", "ftruncate":
			if id := fdFile[f[1]]; id != 0 {
				dirty[id] = true
			}
		case "fsync":
			if id := fdFile[f[1]]; id != 0 {
				dirty[id] = false
			}
		case "close":
			delete(fdFile, f[1])
		case "rename":
			src, dst := f[1], f[2]
			id := fileAt[src]
			delete(fileAt, src)
			if id != 0 {
				fileAt[dst] = id
			}
			if dst == d.path && id != 0 && dirty[id] {
				return "renamed onto the destination without a preceding fsync of its content: " + c
			}
		case "unlink":
			delete(fileAt, f[1])
		}
		// a file that has been published must not be modified afterwards
		if id := fileAt[d.path]; id != 0 && dirty[id] {
			return "content published at the destination modified after the rename: " + c
		}
	}
	return ""
}

func hasPrefixPath(p, dir string) bool { return p == dir || strings.HasPrefix(p, dir+"/") }

func isTempPath(d destInfo, p string) bool {
	for _, a := range d.also {
		if hasPrefixPath(p, a) {
			return true // the other file this operation publishes (checked as destination in its own scenario)
		}
	}
	for _, t := range d.tmpdirs {
		if t != "" && hasPrefixPath(p, t) && p != t {
			return true
		}
	}
	dir := d.path[:strings.LastIndexByte(d.path, '/')]
	if hasPrefixPath(p, dir) && p != dir {
		first := strings.SplitN(strings.TrimPrefix(p, dir+"/"), "/", 2)[0]
		for _, n := range d.tmpnames {
			if strings.HasPrefix(first, n+"#") {
				return true
			}
		}
	}
	return false
}

func obsClass(o string) string {
	switch {
	case o == "-":
		return "absent"
	case strings.HasPrefix(o, "f,-"):
		return "empty-file"
	case strings.HasPrefix(o, "f,"):
		return "partial-or-foreign-content"
	case strings.HasPrefix(o, "l,"):
		return "foreign-symlink"
	case strings.HasPrefix(o, "d"):
		return "incomplete-directory"
	}
	return "other"
}

func splitEntry(e string) (path, val string) {
	if i := strings.IndexByte(e, '|'); i >= 0 {
		return e[:i], e[i+1:]
	}
	return e, ""
}

func monitor(c hxlib.Case, outs []string) (vs []hxlib.Violation) {
	if len(c.Lines) == 0 {
		return nil
	}
	s, err := parseScn(c.Lines[0])
	if err != nil {
		return nil
	}
	if s.Writer == "unpack-zip-big" {
		// the property on the big-member run: a published directory holds the member completely
		var size int64 = -1
		published := false
		written := ""
		for i, l := range c.Lines {
			f := strings.Fields(l)
			switch f[0] {
			case "zipcopy":
				fmt.Sscanf(f[1], "size=%d", &size)
				written = outs[i]
			case "unpack":
				published = outs[i] == "publish"
			}
		}
		if published && written != fmt.Sprintf("written=%d failed=0", size) {
			return []hxlib.Violation{{Sig: "C17:unpack-zip:member-cut-at-size-limit",
				What: fmt.Sprintf("archive with one member of %d bytes (MaxUnpackSize %+d): UnpackResources published the directory, but of the member it holds: %s", size, size-bigSize("at-limit"), written),
				Lines: c.Lines, Output: outs}}
		}
		return nil
	}
	if isTwo(s.Writer) {
		for _, v := range twoMonitor(s, c.Lines, outs) {
			vs = append(vs, hxlib.Violation{Sig: v.Sig, What: v.What, Lines: c.Lines, Output: outs})
		}
		for _, o := range outs {
			if strings.HasPrefix(o, "PANIC") {
				vs = append(vs, hxlib.Violation{Sig: "C17:" + s.Writer + ":panic", What: o, Lines: c.Lines, Output: outs})
			}
		}
		return vs
	}
	var d destInfo
	haveDest := false
	initial := map[string]string{}
	var calls, res []string
	add := func(sig, what string) {
		for _, v := range vs {
			if v.Sig == sig {
				return
			}
		}
		vs = append(vs, hxlib.Violation{Sig: sig, What: what, Lines: c.Lines, Output: outs})
	}
	where := "complete run"
	if s.K > 0 {
		where = fmt.Sprintf("process killed before mutating call %d", s.K)
	}
	if s.Pre > 0 {
		where += fmt.Sprintf(" (after an earlier run of the same operation killed before its call %d)", s.Pre)
	}
	for i, l := range c.Lines {
		o := outs[i]
		f := strings.Fields(l)
		if strings.HasPrefix(o, "PANIC") {
			add("C17:"+s.Writer+":panic", o)
			continue
		}
		switch f[0] {
		case "mk":
			p, v := splitEntry(strings.TrimPrefix(l, "mk "))
			initial[p] = v
		case "dest":
			d, haveDest = parseDest(l)
		case "sys":
			if !haveDest {
				continue
			}
			of := strings.SplitN(o, " ", 2)
			if len(of) != 2 {
				continue
			}
			calls = append(calls, strings.TrimPrefix(l, "sys "))
			res = append(res, of[0])
			if so := stripObs(of[1]); so != d.old && so != d.new {
				add("C17:"+s.Writer+":intermediate-state:"+obsClass(so),
					fmt.Sprintf("after `%s` a reader of %s sees %s, which is neither the previous state %s nor the new content %s", l, d.path, so, d.old, d.new))
			}
		case "end":
			if !haveDest {
				continue
			}
			of := strings.SplitN(o, " ", 2)
			if len(of) != 2 {
				continue
			}
			if so := stripObs(of[0]); so != d.old && so != d.new {
				add("C17:"+s.Writer+":final-state:"+obsClass(so),
					fmt.Sprintf("%s: %s shows %s, neither the previous state %s nor the new content %s", where, d.path, so, d.old, d.new))
			}
			final := map[string]string{}
			for _, e := range strings.Split(of[1], ";") {
				if e == "" {
					continue
				}
				p, v := splitEntry(e)
				final[p] = v
			}
			var paths []string
			for p := range final {
				paths = append(paths, p)
			}
			sort.Strings(paths)
			for _, p := range paths {
				if _, was := initial[p]; was || hasPrefixPath(p, d.path) {
					continue
				}
				if strings.HasPrefix(final[p], "d,") && hasPrefixPath(d.path, p) {
					continue // a directory created on the way to the destination
				}
				if !isTempPath(d, p) {
					add("C17:"+s.Writer+":leftover-outside-temp",
						fmt.Sprintf("%s: %s (%s) was left behind; it is neither the destination nor a temporary file in the temporary location", where, p, final[p]))
				}
			}
			var ips []string
			for p := range initial {
				ips = append(ips, p)
			}
			sort.Strings(ips)
			for _, p := range ips {
				if hasPrefixPath(p, d.path) || isTempPath(d, p) {
					continue
				}
				isTmpDir := false
				for _, t := range d.tmpdirs {
					if p == t {
						isTmpDir = true
					}
				}
				fv, ok := final[p]
				if !ok && isTmpDir {
					continue
				}
				if !ok || stripEntry(fv) != stripEntry(initial[p]) {
					add("C17:"+s.Writer+":other-path-changed",
						fmt.Sprintf("%s: %s was %s before the operation and is %q afterwards", where, p, initial[p], fv))
				}
			}
		case "readers":
			detailMu.Lock()
			so, free := readerDetail[c.Lines[0]]
			detailMu.Unlock()
			if o == "bad" && free {
				add("C17:"+s.Writer+":concurrent-reader:"+obsClass(so),
					fmt.Sprintf("a concurrent (free-running) reader of %s observed %s, neither %s nor %s", d.path, so, d.old, d.new))
			}
		case "check":
			if haveDest {
				if v := literalCheckCalls(d, calls, res); v != "" {
					sig := "C17:" + s.Writer + ":not-flushed-before-rename"
					if strings.Contains(v, "in place") {
						sig = "C17:" + s.Writer + ":written-in-place"
					} else if strings.Contains(v, "modified after") {
						sig = "C17:" + s.Writer + ":modified-after-publish"
					}
					add(sig, v)
				}
			}
		}
	}
	return vs
}

// ---- generator ---------------------------------------------------------------------------------------------------

func generate(r *hxlib.Run, emit func(hxlib.Case)) {
	scns := scenarios(r)
	base := scratchBase()
	type job struct {
		s  scn
		ro *runOut
	}
	workers := 6
	runAll := func(list []scn) []*runOut {
		outs := make([]*runOut, len(list))
		var wg sync.WaitGroup
		ch := make(chan int)
		for w := 0; w < workers; w++ {
			wg.Add(1)
			go func() {
				defer wg.Done()
				for i := range ch {
					outs[i] = execute(list[i], base)
				}
			}()
		}
		for i := range list {
			ch <- i
		}
		close(ch)
		wg.Wait()
		return outs
	}
	// 1. every scenario runs to completion once: that gives its number of crash points
	full := runAll(scns)
	// 2. the kill runs
	var kills []scn
	for i, s := range scns {
		ro := full[i]
		if ro.err != "" || ro.res == nil {
			continue
		}
		n := ro.res.NKill
		limit := r.Budget(14, 400)
		if strings.Contains(s.Srv, "+") {
			limit = r.Budget(6, 40) // every run of a retry scenario waits out the real back-off (1 s) of the updater
		}
		ks := []int{}
		if n <= limit {
			for k := 1; k <= n; k++ {
				ks = append(ks, k)
			}
		} else {
			seen := map[int]bool{}
			for k := 1; k <= limit/2; k++ {
				seen[k] = true
			}
			for k := n - limit/2 + 1 + limit/4; k <= n; k++ {
				seen[k] = true
			}
			for len(seen) < limit {
				seen[1+r.Rng.Intn(n)] = true
			}
			for k := range seen {
				ks = append(ks, k)
			}
			sort.Ints(ks)
		}
		for _, k := range ks {
			s2 := s
			s2.K = k
			kills = append(kills, s2)
		}
	}
	killOut := runAll(kills)
	emitOne := func(s scn, ro *runOut) {
		lines := caseLines(s, ro)
		cacheMu.Lock()
		runCache[lines[0]] = ro
		cacheMu.Unlock()
		nt := (ro.res != nil && len(ro.res.Events) > 0) || ro.big != nil || ro.two != nil
		if ro.two != nil {
			r.Count("two-writers:" + s.Writer)
			r.Count(fmt.Sprintf("two-writers:forced-overlap-happened=%v", ro.two.Overlap))
			r.Count("two-writers:returns:" + ro.two.RetA + "," + ro.two.RetB)
			statsMu.Lock()
			stats.reads += ro.two.Reads
			statsMu.Unlock()
		}
		if ro.big != nil {
			r.Count("big-member:" + s.Var)
		}
		r.Count("writer:" + s.Writer)
		r.Count("old:" + s.Old)
		r.Count("tmp:" + s.TmpMode)
		r.Count("fail:" + s.Fail)
		if s.Writer == "fetch" {
			srv := s.Srv
			if srv == "" || srv == "-" {
				srv = map[string]string{"short": "len-rst@half", "404": "st404"}[s.Fail]
				if srv == "" {
					srv = "ok"
				}
			}
			for i, st := range strings.Split(srv, "+") {
				if j := strings.IndexByte(st, '@'); j >= 0 {
					st = st[:j]
				}
				r.Count(fmt.Sprintf("server:attempt%d:%s", i+1, st))
			}
			r.Count("fetch-variant:" + s.Var)
		}
		if s.Pre > 0 {
			r.Count("history:after-interrupted-run")
		} else {
			r.Count("history:fresh")
		}
		r.Count("newlen:" + sizeClass(s.NewLen))
		if ro.res != nil {
			if ro.res.Killed {
				r.Count("run:killed")
				r.Count("killed-before:" + strings.Fields(ro.res.KillCall + " ?")[0])
			} else {
				r.Count("run:complete")
			}
			if strings.HasPrefix(ro.res.WriterOut, "result: err") || strings.Contains(ro.res.WriterOut, "result: err") {
				r.Count("op:returned-error")
			}
			for _, ev := range ro.res.Events {
				r.Count("call:" + strings.Fields(ev.Call)[0])
				if ev.Res != "ok" {
					r.Count("errno:" + ev.Res)
				}
			}
			statsMu.Lock()
			stats.reads += ro.res.Reads
			stats.syscalls += int64(ro.res.Syscalls)
			stats.events += int64(len(ro.res.Events))
			stats.restarts += int64(ro.res.Restarts)
			if ro.res.Killed {
				stats.killed++
			}
			statsMu.Unlock()
		}
		emit(hxlib.Case{Lines: lines, NonTrivial: nt, Kind: s.Writer, NoModel: ro.two != nil || (isTwo(s.Writer) && ro.err != "")})
	}
	j := 0
	for i, s := range scns {
		emitOne(s, full[i])
		for j < len(kills) && kills[j].ID == s.ID {
			emitOne(kills[j], killOut[j])
			j++
		}
	}
}

var (
	statsMu sync.Mutex
	stats   struct{ reads, syscalls, events, killed, restarts int64 }
)

func sizeClass(n int) string {
	switch {
	case n == 0:
		return "empty"
	case n < 65536:
		return "small"
	case n < 1<<20:
		return "medium"
	}
	return "multi-MiB"
}

func main() {
	if len(os.Args) >= 3 && os.Args[1] == "__writer" {
		os.Exit(runWriter(os.Args[2]))
	}
	if len(os.Args) >= 4 && os.Args[1] == "__bigzip" {
		var n int64
		fmt.Sscan(os.Args[3], &n)
		os.Exit(runBigZip(os.Args[2], n))
	}
	if len(os.Args) >= 4 && os.Args[1] == "__two" {
		os.Exit(runTwo(os.Args[2], os.Args[3]))
	}
	if len(os.Args) >= 3 && os.Args[1] == "__trace" {
		os.Exit(runTrace(os.Args[2]))
	}
	if len(os.Args) >= 3 && os.Args[1] == "__scn" {
		// debugging aid: run one scenario line, print the case and the implementation outputs
		s, err := parseScn(os.Args[2])
		if err != nil {
			fmt.Println(err)
			os.Exit(2)
		}
		ro := execute(s, scratchBase())
		lines := caseLines(s, ro)
		cacheMu.Lock()
		runCache[lines[0]] = ro
		cacheMu.Unlock()
		e := &c17exec{}
		var outs []string
		for _, l := range lines {
			o := e.Do(l)
			outs = append(outs, o)
			fmt.Printf("%s\n    => %s\n", l, o)
		}
		if ro.res != nil {
			fmt.Printf("killed=%v killcall=%q nkill=%d completed=%v reads=%d syscalls=%d writer=%q err=%q\n", ro.res.Killed, ro.res.KillCall,
				ro.res.NKill, ro.res.Completed, ro.res.Reads, ro.res.Syscalls, ro.res.WriterOut, ro.res.Error)
		}
		if ro.two != nil {
			fmt.Printf("two: %+v\n", *ro.two)
		}
		for _, v := range monitor(hxlib.Case{Lines: lines}, outs) {
			fmt.Println("MONITOR:", v.Sig, "—", v.What)
		}
		return
	}
	hxlib.Main(&hxlib.Harness{
		Prop:     "C17",
		Rule:     "a case is one run of one real writer (renameio.WriteFile/Symlink, utils.CreateAtomic/CopyFileAtomic/ReplaceFileAtomic, fstree.Put, updater download via DownloadUpdates against an in-process HTTP server incl. signed and missing-signature downloads, updater.UnpackResources, File.Unpack) in a child process under a ptrace system-call stepper: once to completion and once per crash point k (killed immediately before its k-th file-system-mutating system call; all k when there are few, first/last/random k otherwise), over old states absent / present / present read-only / symlink / directory, contents empty / tiny / small / chunk-boundary sizes / medium / multi-MiB (random or with magic prefixes), TMPDIR on the same file system / on another file system / unusable / explicit temp dir (same and other file system), failing operations (reader error, missing source; for downloads an in-process server playing per attempt one of 27 answers — body truncated by orderly close or reset at byte 0 / 1 / half / last / random under Content-Length, chunked, close-delimited or HTTP/1.0 framing, body longer or shorter than announced, complete but unannounced, gzip Content-Encoding complete or cut, 204 / 206 / 301 / 302-to-complete / 304 / 404 / 500 / 503, no answer — alone or followed by a retry with a complete answer, through DownloadUpdates and GetFile, unsigned or with signature verification: valid, body not matching the signature under require / warn, unusable signature, no signature; for unpacking gzip files with corrupt trailer / corrupt data / cut in the data / cut in the trailer / trailing garbage / no gzip header and zip archives with a corrupt member / a member shorter than its header / cut in the middle) and history (the same operation killed earlier on the same sandbox). Lines: initial snapshot, translated system calls, final snapshot; per call the errno and the destination as a reader sees it are compared between the kernel and the Lean file-system model, the final snapshot likewise, the Lean safePublish / onlyTemp checkers run on the actual call sequence, and the run must be a path of the Lean program of the writer with the same return value; for downloads that program is derived by the model from the server behaviour (transport + fetchDecision over the guards regenerated from updater/fetch.go), and on complete runs what the client saw of every response (status, ContentLength, bytes read, read error — observed by a wrapper around http.DefaultTransport), the bytes written and the publish / abort outcome of every attempt, and the publish decision of File.Unpack / unpackZipArchive are compared with the model as well. Two-writers cases (no model lines, untraced): two goroutines run the same kind of operation on ONE destination — UnpackResources of an archive with a large member (the second call is started when the first member of the first call exists in the temp directory), utils.CreateAtomic and File.Unpack (the first call is held in the middle of its content until the second has returned), GetFile downloads, renameio.WriteFile and fstree.Put of different contents (started together) — with three free-running readers; judged: every state a reader saw is the previous state or a complete new content, once one call has returned successfully the destination shows a complete new content (also at the end), nothing is left outside the temporary location. Non-trivial: the run issued at least one mutating call (two-writers: both calls returned); distinct by the hash of the lines.",
		Generate: generate,
		NewExec:  func(*hxlib.Run) hxlib.Exec { return &c17exec{} },
		Monitor:  monitor,
		Extra: func(r *hxlib.Run) map[string]any {
			statsMu.Lock()
			defer statsMu.Unlock()
			return map[string]any{"concurrent_reader_observations": stats.reads, "syscall_stops_stepped": stats.syscalls,
				"mutating_calls_translated": stats.events, "runs_killed_at_a_crash_point": stats.killed,
				"interrupted_calls_restarted": stats.restarts}
		},
	})
}
