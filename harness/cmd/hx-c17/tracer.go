//go:build linux && amd64

// ptrace-based system-call stepper for C17.
//
// `hx-c17 __trace <spec.json>` starts `hx-c17 __writer <spec.json>` as a traced child, follows all of its
// threads, and between the two marker calls of the writer (faccessat on beginMarker / endMarker)
//   - records every file-system-mutating system call that touches the sandbox (translated to the model alphabet),
//   - reads the destination after each such call while the calling thread is stopped (deterministic reader),
//   - kills the whole process immediately before its k-th mutating call when KillAt = k > 0.
//
// Unknown mutating system calls fail closed (the trace is reported as untranslatable).
package main

import (
	"bytes"
	"encoding/json"
	"fmt"
	"os"
	"os/exec"
	"path/filepath"
	"runtime"
	"strings"
	"sync"
	"sync/atomic"
	"syscall"
	"time"
)

const (
	beginMarker = "/__verif_c17_begin__"
	endMarker   = "/__verif_c17_end__"
)

// Event is one translated system call of the writer.
type Event struct {
	Call string `json:"call"` // canonical text, e.g. "open R/tmp/.f#1 creat|excl 600 fd=3"
	Res  string `json:"res"`  // "ok" or errno name
	Obs  string `json:"obs"`  // destination observation after the call
	Kill bool   `json:"kill"` // counts as a crash point
}

// TraceResult is what the tracer process prints.
type TraceResult struct {
	Init      []string `json:"init"` // snapshot entries at the begin marker
	InitObs   string   `json:"init_obs"`
	Events    []Event  `json:"events"`
	Final     []string `json:"final"` // snapshot entries after exit / kill
	FinalObs  string   `json:"final_obs"`
	Killed    bool     `json:"killed"`
	KillCall  string   `json:"kill_call,omitempty"` // the call that was about to be made
	NKill     int      `json:"n_kill"`              // number of crash points seen
	Completed bool     `json:"completed"`           // end marker reached
	WriterOut string   `json:"writer_out"`
	Error     string   `json:"error,omitempty"`
	Syscalls  int      `json:"syscalls"` // all syscall stops seen (measured)
	Reads     int64    `json:"reads"`    // observations made by the free-running readers
	Restarts  int      `json:"restarts"` // interrupted-and-restarted system calls (not events)
	ReaderBad string   `json:"reader_bad,omitempty"`
}

// syscall numbers (linux/amd64)
const (
	sysRead          = 0
	sysWrite         = 1
	sysOpen          = 2
	sysClose         = 3
	sysLseek         = 8
	sysPwrite64      = 18
	sysWritev        = 20
	sysDup           = 32
	sysDup2          = 33
	sysSendfile      = 40
	sysFcntl         = 72
	sysFsync         = 74
	sysFdatasync     = 75
	sysTruncate      = 76
	sysFtruncate     = 77
	sysRename        = 82
	sysMkdir         = 83
	sysRmdir         = 84
	sysCreat         = 85
	sysLink          = 86
	sysUnlink        = 87
	sysSymlink       = 88
	sysChmod         = 90
	sysFchmod        = 91
	sysChown         = 92
	sysFchown        = 93
	sysLchown        = 94
	sysUtime         = 132
	sysMknod         = 133
	sysSetxattr      = 188
	sysLsetxattr     = 189
	sysFsetxattr     = 190
	sysRemovexattr   = 197
	sysLremovexattr  = 198
	sysFremovexattr  = 199
	sysUtimes        = 235
	sysOpenat        = 257
	sysMkdirat       = 258
	sysMknodat       = 259
	sysFchownat      = 260
	sysFutimesat     = 261
	sysUnlinkat      = 263
	sysRenameat      = 264
	sysLinkat        = 265
	sysSymlinkat     = 266
	sysFchmodat      = 268
	sysFaccessat     = 269
	sysSplice        = 275
	sysSyncFileRange = 277
	sysUtimensat     = 280
	sysFallocate     = 285
	sysDup3          = 292
	sysPwritev       = 296
	sysRenameat2     = 316
	sysCopyFileRange = 326
	sysPwritev2      = 328
	sysOpenat2       = 437
	sysFaccessat2    = 439
	sysFchmodat2     = 452
)

var sysName = map[uint64]string{
	sysOpen: "open", sysLseek: "lseek", sysPwrite64: "pwrite64", sysWritev: "writev", sysDup: "dup", sysDup2: "dup2",
	sysTruncate: "truncate", sysRename: "rename", sysMkdir: "mkdir", sysRmdir: "rmdir", sysCreat: "creat", sysLink: "link",
	sysUnlink: "unlink", sysSymlink: "symlink", sysChmod: "chmod", sysChown: "chown", sysFchown: "fchown", sysLchown: "lchown",
	sysUtime: "utime", sysMknod: "mknod", sysSetxattr: "setxattr", sysLsetxattr: "lsetxattr", sysFsetxattr: "fsetxattr",
	sysRemovexattr: "removexattr", sysLremovexattr: "lremovexattr", sysFremovexattr: "fremovexattr", sysUtimes: "utimes",
	sysMknodat: "mknodat", sysFchownat: "fchownat", sysFutimesat: "futimesat", sysLinkat: "linkat", sysSplice: "splice",
	sysSyncFileRange: "sync_file_range", sysUtimensat: "utimensat", sysFallocate: "fallocate", sysDup3: "dup3",
	sysPwritev: "pwritev", sysPwritev2: "pwritev2", sysOpenat2: "openat2", sysFchmodat2: "fchmodat2", sysFcntl: "fcntl",
}

const atFdcwd = -100

var errnoNames = map[syscall.Errno]string{
	syscall.ENOENT: "ENOENT", syscall.EEXIST: "EEXIST", syscall.EXDEV: "EXDEV", syscall.ENOTDIR: "ENOTDIR",
	syscall.EISDIR: "EISDIR", syscall.ENOTEMPTY: "ENOTEMPTY", syscall.EBADF: "EBADF", syscall.EACCES: "EACCES",
	syscall.EPERM: "EPERM", syscall.EINVAL: "EINVAL", syscall.ENOSPC: "ENOSPC", syscall.ELOOP: "ELOOP",
}

type fdInfo struct {
	path  string // absolute path at open time
	in    bool   // inside the sandbox
	write bool   // opened for writing
	off   int64  // sequential write offset
	lastC int    // content id of the previous chunk (-1 none)
	isDir bool
	canon string
}

type pend struct {
	nr   uint64
	args [6]uint64
	rel  bool   // relevant (translated) call
	text string // canonical call text without result-dependent parts
	kind string
	p1   string // absolute path args
	p2   string
	fd   int
	kill bool
}

type tracer struct {
	spec    *Spec
	cx      *canon
	pid     int
	inSys   map[int]bool
	pending map[int]*pend
	fds     map[int]*fdInfo
	active  bool
	done    bool
	nKill   int
	res     *TraceResult
	fail    string
}

func (t *tracer) failf(format string, a ...any) {
	if t.fail == "" {
		t.fail = fmt.Sprintf(format, a...)
	}
}

func peekString(pid int, addr uint64) (string, error) {
	var out []byte
	buf := make([]byte, 256)
	for len(out) < 8192 {
		n, err := syscall.PtracePeekData(pid, uintptr(addr)+uintptr(len(out)), buf)
		if err != nil && n == 0 {
			// retry byte-wise towards a page end
			small := make([]byte, 8)
			n, err = syscall.PtracePeekData(pid, uintptr(addr)+uintptr(len(out)), small)
			if err != nil && n == 0 {
				return "", err
			}
			buf = small
		}
		if i := bytes.IndexByte(buf[:n], 0); i >= 0 {
			out = append(out, buf[:i]...)
			return string(out), nil
		}
		out = append(out, buf[:n]...)
	}
	return "", fmt.Errorf("string too long")
}

// absPath resolves a (dirfd, path) pair of the tracee.
func (t *tracer) absPath(dirfd int64, p string) string {
	if filepath.IsAbs(p) {
		return filepath.Clean(p)
	}
	base := ""
	if int32(dirfd) == atFdcwd {
		base, _ = os.Readlink(fmt.Sprintf("/proc/%d/cwd", t.pid))
	} else {
		base, _ = os.Readlink(fmt.Sprintf("/proc/%d/fd/%d", t.pid, int32(dirfd)))
	}
	return filepath.Clean(filepath.Join(base, p))
}

func openFlagsText(fl uint64) string {
	var fs []string
	if fl&syscall.O_CREAT != 0 {
		fs = append(fs, "creat")
	}
	if fl&syscall.O_EXCL != 0 {
		fs = append(fs, "excl")
	}
	if fl&syscall.O_TRUNC != 0 {
		fs = append(fs, "trunc")
	}
	if fl&syscall.O_APPEND != 0 {
		fs = append(fs, "append")
	}
	if len(fs) == 0 {
		return "plain"
	}
	return strings.Join(fs, "|")
}

// onEntry classifies a syscall at its entry stop. It returns true when the process must be killed now.
func (t *tracer) onEntry(tid int, regs *syscall.PtraceRegs) bool {
	nr := regs.Orig_rax
	a := [6]uint64{regs.Rdi, regs.Rsi, regs.Rdx, regs.R10, regs.R8, regs.R9}
	p := &pend{nr: nr, args: a}
	t.pending[tid] = p
	str := func(addr uint64) string {
		s, err := peekString(tid, addr)
		if err != nil {
			t.failf("cannot read path argument of syscall %d: %v", nr, err)
		}
		return s
	}
	// markers
	if nr == sysFaccessat || nr == sysFaccessat2 {
		s := str(a[1])
		if s == beginMarker {
			t.active = true
			t.res.Init = t.cx.snapshot()
			t.res.InitObs = t.cx.obs()
		} else if s == endMarker {
			t.active = false
			t.done = true
			t.res.Completed = true
		}
		return false
	}
	in := func(path string) bool { return t.cx.inside(path) }
	rel := func(kind, text string, kill bool) {
		p.rel, p.kind, p.text, p.kill = true, kind, text, kill
	}
	switch nr {
	case sysOpenat, sysOpen, sysCreat:
		var path string
		var flags, mode uint64
		switch nr {
		case sysOpenat:
			path, flags, mode = t.absPath(int64(a[0]), str(a[1])), a[2], a[3]
		case sysOpen:
			path, flags, mode = t.absPath(atFdcwd, str(a[0])), a[1], a[2]
		default:
			path, flags, mode = t.absPath(atFdcwd, str(a[0])), syscall.O_CREAT|syscall.O_WRONLY|syscall.O_TRUNC, a[1]
		}
		p.p1 = path
		p.args[2] = flags
		wr := flags&(syscall.O_WRONLY|syscall.O_RDWR) != 0
		mut := flags&(syscall.O_CREAT|syscall.O_TRUNC) != 0
		if in(path) && (wr || mut) {
			if flags&syscall.O_CREAT == 0 {
				mode = 0
			}
			rel("open", fmt.Sprintf("open %s %s %o", "%P1", openFlagsText(flags), mode&0o7777), mut)
		}
	case sysOpenat2:
		path := t.absPath(int64(a[0]), str(a[1]))
		if in(path) {
			t.failf("untranslated system call openat2 on %s", path)
		}
	case sysWrite, sysPwrite64, sysWritev, sysPwritev, sysPwritev2:
		fd := int(int32(a[0]))
		if fi := t.fds[fd]; fi != nil && fi.in {
			if nr != sysWrite {
				t.failf("untranslated system call %s on sandbox file %s", sysName[nr], fi.path)
			}
			p.fd = fd
			rel("write", "", a[2] > 0)
		}
	case sysCopyFileRange, sysSendfile, sysSplice:
		var fd int
		switch nr {
		case sysCopyFileRange:
			fd = int(int32(a[2]))
			if a[1] != 0 || a[3] != 0 {
				if fi := t.fds[fd]; fi != nil && fi.in {
					t.failf("copy_file_range with explicit offsets on sandbox file")
				}
			}
		case sysSendfile:
			fd = int(int32(a[0]))
		default:
			fd = int(int32(a[2]))
		}
		if fi := t.fds[fd]; fi != nil && fi.in {
			if nr == sysSplice {
				t.failf("untranslated system call splice on sandbox file %s", fi.path)
			}
			p.fd = fd
			rel("write", "", true)
		}
	case sysFsync, sysFdatasync:
		fd := int(int32(a[0]))
		if fi := t.fds[fd]; fi != nil && fi.in {
			p.fd = fd
			rel("fsync", fmt.Sprintf("fsync %d", fd), true)
		}
	case sysFtruncate:
		fd := int(int32(a[0]))
		if fi := t.fds[fd]; fi != nil && fi.in {
			p.fd = fd
			rel("ftruncate", fmt.Sprintf("ftruncate %d %d", fd, a[1]), true)
		}
	case sysFchmod:
		fd := int(int32(a[0]))
		if fi := t.fds[fd]; fi != nil && fi.in {
			p.fd = fd
			rel("fchmod", fmt.Sprintf("fchmod %d %o", fd, a[1]&0o7777), true)
		}
	case sysClose:
		fd := int(int32(a[0]))
		if fi := t.fds[fd]; fi != nil {
			p.fd = fd
			if fi.in && fi.write {
				rel("close", fmt.Sprintf("close %d", fd), false)
			} else {
				p.kind = "close-untracked"
			}
		}
	case sysLseek:
		fd := int(int32(a[0]))
		if fi := t.fds[fd]; fi != nil && fi.in && fi.write {
			t.failf("untranslated system call lseek on sandbox file %s opened for writing", fi.path)
		}
	case sysDup, sysDup2, sysDup3:
		fd := int(int32(a[0]))
		if fi := t.fds[fd]; fi != nil && fi.in {
			t.failf("untranslated system call %s on sandbox file %s", sysName[nr], fi.path)
		}
	case sysFcntl:
		fd := int(int32(a[0]))
		if fi := t.fds[fd]; fi != nil && fi.in && (a[1] == syscall.F_DUPFD || a[1] == syscall.F_DUPFD_CLOEXEC) {
			t.failf("untranslated fcntl(F_DUPFD) on sandbox file %s", fi.path)
		}
	case sysRenameat, sysRenameat2, sysRename:
		var p1, p2 string
		if nr == sysRename {
			p1, p2 = t.absPath(atFdcwd, str(a[0])), t.absPath(atFdcwd, str(a[1]))
		} else {
			p1, p2 = t.absPath(int64(a[0]), str(a[1])), t.absPath(int64(a[2]), str(a[3]))
			if nr == sysRenameat2 && a[4] != 0 {
				if in(p1) || in(p2) {
					t.failf("renameat2 with flags %#x on sandbox path", a[4])
				}
			}
		}
		p.p1, p.p2 = p1, p2
		if in(p1) || in(p2) {
			rel("rename", "rename %P1 %P2", true)
		}
	case sysUnlinkat, sysUnlink, sysRmdir:
		var p1 string
		dir := false
		switch nr {
		case sysUnlinkat:
			p1 = t.absPath(int64(a[0]), str(a[1]))
			dir = a[2]&0x200 != 0 // AT_REMOVEDIR
		case sysUnlink:
			p1 = t.absPath(atFdcwd, str(a[0]))
		default:
			p1 = t.absPath(atFdcwd, str(a[0]))
			dir = true
		}
		p.p1 = p1
		if in(p1) {
			if dir {
				rel("rmdir", "rmdir %P1", true)
			} else {
				rel("unlink", "unlink %P1", true)
			}
		}
	case sysMkdirat, sysMkdir:
		var p1 string
		var mode uint64
		if nr == sysMkdirat {
			p1, mode = t.absPath(int64(a[0]), str(a[1])), a[2]
		} else {
			p1, mode = t.absPath(atFdcwd, str(a[0])), a[1]
		}
		p.p1 = p1
		if in(p1) {
			rel("mkdir", fmt.Sprintf("mkdir %%P1 %o", mode&0o7777), true)
		}
	case sysSymlinkat, sysSymlink:
		var target, p1 string
		if nr == sysSymlinkat {
			target, p1 = str(a[0]), t.absPath(int64(a[1]), str(a[2]))
		} else {
			target, p1 = str(a[0]), t.absPath(atFdcwd, str(a[1]))
		}
		p.p1 = p1
		if in(p1) {
			rel("symlink", "symlink "+t.cx.target(target)+" %P1", true)
		}
	case sysFchmodat, sysChmod, sysFchmodat2:
		var p1 string
		var mode uint64
		if nr == sysChmod {
			p1, mode = t.absPath(atFdcwd, str(a[0])), a[1]
		} else {
			p1, mode = t.absPath(int64(a[0]), str(a[1])), a[2]
		}
		p.p1 = p1
		if in(p1) {
			rel("chmod", fmt.Sprintf("chmod %%P1 %o", mode&0o7777), true)
		}
	case sysTruncate, sysLink, sysLinkat, sysMknod, sysMknodat, sysChown, sysLchown, sysFchownat, sysUtime, sysUtimes,
		sysFutimesat, sysUtimensat, sysSetxattr, sysLsetxattr, sysRemovexattr, sysLremovexattr:
		// path based mutating calls that the model alphabet does not have: fail closed if they touch the sandbox
		var cand []string
		switch nr {
		case sysLinkat:
			cand = []string{t.absPath(int64(a[0]), str(a[1])), t.absPath(int64(a[2]), str(a[3]))}
		case sysLink:
			cand = []string{t.absPath(atFdcwd, str(a[0])), t.absPath(atFdcwd, str(a[1]))}
		case sysMknodat, sysFchownat, sysFutimesat:
			cand = []string{t.absPath(int64(a[0]), str(a[1]))}
		case sysUtimensat:
			if a[1] != 0 {
				cand = []string{t.absPath(int64(a[0]), str(a[1]))}
			} else if fi := t.fds[int(int32(a[0]))]; fi != nil {
				cand = []string{fi.path}
			}
		default:
			cand = []string{t.absPath(atFdcwd, str(a[0]))}
		}
		for _, c := range cand {
			if in(c) {
				t.failf("untranslated mutating system call %s on sandbox path %s", sysName[nr], c)
			}
		}
	case sysFchown, sysFallocate, sysSyncFileRange, sysFsetxattr, sysFremovexattr:
		if fi := t.fds[int(int32(a[0]))]; fi != nil && fi.in {
			t.failf("untranslated mutating system call %s on sandbox file %s", sysName[nr], fi.path)
		}
	}
	if !t.active {
		p.rel = false
		return false
	}
	if p.rel && p.kill {
		t.nKill++
		if t.spec.KillAt > 0 && t.nKill == t.spec.KillAt {
			t.res.KillCall = p.kind + " " + t.cx.path(p.p1)
			return true
		}
	}
	return false
}

// onExit completes a pending syscall at its exit stop.
func (t *tracer) onExit(tid int, regs *syscall.PtraceRegs) {
	p := t.pending[tid]
	delete(t.pending, tid)
	if p == nil {
		return
	}
	ret := int64(regs.Rax)
	// A call interrupted by a signal (the Go runtime preempts with SIGURG) ends with a kernel-internal restart
	// code at the exit stop and is then re-entered transparently, or returns EINTR and is retried by the Go
	// runtime: it had no effect and is not a call of its own. Its crash point is given back.
	if ret == -512 || ret == -513 || ret == -514 || ret == -516 || ret == -int64(syscall.EINTR) {
		if p.rel && p.kill && t.active && t.nKill > 0 {
			t.nKill--
		}
		t.res.Restarts++
		return
	}
	// copy_file_range / sendfile refused for this pair of files (other file system, unsupported): the Go runtime
	// falls back to the next mechanism; the refused attempt moved no data and is not an event
	if (p.nr == sysCopyFileRange || p.nr == sysSendfile) && ret < 0 {
		switch syscall.Errno(-ret) {
		case syscall.EXDEV, syscall.EINVAL, syscall.ENOSYS, syscall.EOPNOTSUPP, syscall.EPERM, syscall.EIO:
			if p.rel && p.kill && t.active && t.nKill > 0 {
				t.nKill--
			}
			return
		}
	}
	res := "ok"
	if ret < 0 && ret > -4096 {
		e := syscall.Errno(-ret)
		if n, ok := errnoNames[e]; ok {
			res = n
		} else {
			res = fmt.Sprintf("E%d", int(e))
		}
	}
	// fd table (also for untranslated read-only opens, so that dirfd/close tracking stays right)
	switch p.nr {
	case sysOpenat, sysOpen, sysCreat:
		if ret >= 0 {
			fl := p.args[2]
			fi := &fdInfo{path: p.p1, in: t.cx.inside(p.p1), write: fl&(syscall.O_WRONLY|syscall.O_RDWR) != 0, lastC: -1}
			if fl&syscall.O_APPEND != 0 && fi.in && fi.write {
				if st, err := os.Stat(fmt.Sprintf("/proc/%d/fd/%d", t.pid, ret)); err == nil {
					fi.off = st.Size()
				}
			}
			t.fds[int(ret)] = fi
		}
	case sysClose:
		if p.kind != "" {
			delete(t.fds, p.fd)
		}
	}
	if !p.rel || !t.active {
		return
	}
	ev := Event{Res: res, Kill: p.kill}
	switch p.kind {
	case "open":
		fd := "-"
		if ret >= 0 {
			fd = fmt.Sprint(ret)
		}
		ev.Call = strings.Replace(p.text, "%P1", t.cx.pathNew(p.p1, ret >= 0 || true), 1) + " fd=" + fd
	case "write":
		fi := t.fds[p.fd]
		if ret > 0 {
			seg, c := t.cx.identify(fmt.Sprintf("/proc/%d/fd/%d", t.pid, p.fd), fi.off, ret, fi.lastC)
			fi.lastC = c
			ev.Call = fmt.Sprintf("write %d %s", p.fd, seg)
			fi.off += ret
		} else {
			if ret == 0 {
				return // zero-length write / end of copy loop: no effect, not an event
			}
			ev.Call = fmt.Sprintf("write %d 0:0:0", p.fd)
		}
	case "rename":
		ev.Call = "rename " + t.cx.path(p.p1) + " " + t.cx.pathNew(p.p2, true)
	case "mkdir", "symlink":
		ev.Call = strings.Replace(p.text, "%P1", t.cx.pathNew(p.p1, true), 1)
	default:
		ev.Call = strings.Replace(p.text, "%P1", t.cx.path(p.p1), 1)
	}
	ev.Obs = t.cx.obs()
	t.res.Events = append(t.res.Events, ev)
}

// runTrace is the tracer process.
func runTrace(specPath string) int {
	spec, err := loadSpec(specPath)
	if err != nil {
		fmt.Fprintln(os.Stderr, "trace:", err)
		return 3
	}
	res := &TraceResult{}
	t := &tracer{spec: spec, cx: newCanon(spec), inSys: map[int]bool{}, pending: map[int]*pend{}, fds: map[int]*fdInfo{}, res: res}
	// free-running concurrent readers of the destination (own goroutines / threads, own canonicaliser)
	var stop int32
	var reads int64
	var badMu sync.Mutex
	var wg sync.WaitGroup
	for i := 0; i < spec.Readers; i++ {
		wg.Add(1)
		go func() {
			defer wg.Done()
			cx := newCanon(spec)
			for atomic.LoadInt32(&stop) == 0 {
				o := stripObs(cx.obsOf(spec.Dest))
				atomic.AddInt64(&reads, 1)
				if o != spec.OldObs && o != spec.NewObs {
					badMu.Lock()
					if res.ReaderBad == "" {
						res.ReaderBad = o
					}
					badMu.Unlock()
				}
				time.Sleep(20 * time.Microsecond)
			}
		}()
	}
	runtime.LockOSThread()
	self, _ := os.Executable()
	cmd := exec.Command(self, "__writer", specPath)
	woutPath := filepath.Join(spec.Meta, "writer.out")
	wf, err := os.Create(woutPath)
	if err != nil {
		fmt.Fprintln(os.Stderr, "trace:", err)
		return 3
	}
	cmd.Stdout = wf
	cmd.Stderr = wf
	cmd.Env = append(os.Environ(), "TMPDIR="+spec.Tmpdir, "GOMAXPROCS=2")
	cmd.SysProcAttr = &syscall.SysProcAttr{Ptrace: true, Setpgid: true}
	if err := cmd.Start(); err != nil {
		fmt.Fprintln(os.Stderr, "trace: start:", err)
		return 3
	}
	pid := cmd.Process.Pid
	t.pid = pid
	var ws syscall.WaitStatus
	if _, err := syscall.Wait4(pid, &ws, 0, nil); err != nil || !ws.Stopped() {
		fmt.Fprintln(os.Stderr, "trace: initial wait:", err)
		return 3
	}
	opts := syscall.PTRACE_O_TRACESYSGOOD | syscall.PTRACE_O_TRACECLONE | syscall.PTRACE_O_TRACEFORK |
		syscall.PTRACE_O_TRACEVFORK | 0x100000 /* PTRACE_O_EXITKILL */
	if err := syscall.PtraceSetOptions(pid, opts); err != nil {
		fmt.Fprintln(os.Stderr, "trace: setoptions:", err)
		return 3
	}
	known := map[int]bool{pid: true}
	_ = syscall.PtraceSyscall(pid, 0)
	killed := false
	for {
		wpid, err := syscall.Wait4(-1, &ws, syscall.WALL, nil)
		if err != nil {
			if err == syscall.EINTR {
				continue
			}
			break // ECHILD: everything is gone
		}
		if ws.Exited() || ws.Signaled() {
			delete(known, wpid)
			if wpid == pid {
				// main thread gone: the process is gone
				break
			}
			continue
		}
		if !ws.Stopped() {
			continue
		}
		if killed {
			_ = syscall.PtraceCont(wpid, 0)
			continue
		}
		sig := ws.StopSignal()
		switch {
		case sig == syscall.SIGTRAP|0x80:
			res.Syscalls++
			var regs syscall.PtraceRegs
			if err := syscall.PtraceGetRegs(wpid, &regs); err != nil {
				_ = syscall.PtraceSyscall(wpid, 0)
				continue
			}
			if !t.inSys[wpid] {
				t.inSys[wpid] = true
				if t.onEntry(wpid, &regs) || (t.fail != "" && t.active) {
					killed = true
					res.Killed = t.fail == ""
					_ = syscall.Kill(pid, syscall.SIGKILL)
					continue
				}
			} else {
				t.inSys[wpid] = false
				t.onExit(wpid, &regs)
			}
			_ = syscall.PtraceSyscall(wpid, 0)
		case sig == syscall.SIGTRAP && ws.TrapCause() > 0:
			// clone/fork/vfork event stop
			_ = syscall.PtraceSyscall(wpid, 0)
		case sig == syscall.SIGSTOP && !known[wpid]:
			known[wpid] = true // first stop of an auto-attached thread
			_ = syscall.PtraceSyscall(wpid, 0)
		case sig == syscall.SIGTRAP:
			_ = syscall.PtraceSyscall(wpid, 0) // exec stop
		default:
			known[wpid] = true
			_ = syscall.PtraceSyscall(wpid, int(sig)) // deliver the signal
		}
	}
	_ = syscall.Kill(-pid, syscall.SIGKILL)
	for {
		if _, err := syscall.Wait4(-1, &ws, syscall.WALL, nil); err != nil && err != syscall.EINTR {
			break
		}
	}
	res.NKill = t.nKill
	res.Final = t.cx.snapshot()
	res.FinalObs = t.cx.obs()
	atomic.StoreInt32(&stop, 1)
	wg.Wait()
	res.Reads = reads
	wf.Close()
	wb, _ := os.ReadFile(woutPath)
	res.WriterOut = strings.TrimSpace(string(wb))
	if len(res.WriterOut) > 6000 {
		res.WriterOut = res.WriterOut[len(res.WriterOut)-6000:] // the end: result and observations of the writer
	}
	res.Error = t.fail
	if res.Error == "" && !res.Completed && !res.Killed {
		res.Error = "writer ended before its end marker: " + res.WriterOut
	}
	b, _ := json.Marshal(res)
	os.Stdout.Write(b)
	return 0
}
