// The writer process: runs ONE operation of the real portbase code between the two marker calls.
// Everything before the begin marker is scenario set-up (registry initialisation, test server, …) and is not
// part of the operation; the tracer records, steps and kills only between the markers.
package main

import (
	"bytes"
	"context"
	"encoding/json"
	"errors"
	"fmt"
	"io"
	"net/http"
	"net/http/httptest"
	"os"
	"path/filepath"
	"runtime"
	"strconv"
	"syscall"

	"github.com/safing/jess"

	"github.com/safing/portbase/database/record"
	"github.com/safing/portbase/database/storage/fstree"
	"github.com/safing/portbase/updater"
	"github.com/safing/portbase/utils"
	"github.com/safing/portbase/utils/renameio"
)

func marker(p string) {
	_ = syscall.Faccessat(atFdcwd, p, 0, 0)
}

// chunkReader hands out at most `chunk` bytes per Read and has no WriteTo, so io.Copy issues several writes;
// after `failAt` bytes (if >= 0) it returns an error.
type chunkReader struct {
	data   []byte
	pos    int
	chunk  int
	failAt int
}

var errInjected = errors.New("injected read error")

func (c *chunkReader) Read(p []byte) (int, error) {
	if c.failAt >= 0 && c.pos >= c.failAt {
		return 0, errInjected
	}
	if c.pos >= len(c.data) {
		return 0, io.EOF
	}
	n := c.chunk
	if n > len(p) {
		n = len(p)
	}
	if c.pos+n > len(c.data) {
		n = len(c.data) - c.pos
	}
	if c.failAt >= 0 && c.pos+n > c.failAt {
		n = c.failAt - c.pos
	}
	copy(p, c.data[c.pos:c.pos+n])
	c.pos += n
	return n, nil
}

func atoi(s string, def int) int {
	if n, err := strconv.Atoi(s); err == nil {
		return n
	}
	return def
}

func perm(s string) os.FileMode {
	n, _ := strconv.ParseUint(s, 8, 32)
	return os.FileMode(n)
}

// fixedMeta is the record metadata used for fstree records (harness and writer build the same bytes).
func fixedMeta() *record.Meta {
	return &record.Meta{Created: 1600000000, Modified: 1600000001}
}

func fstreeRecord(key string, data []byte) record.Record {
	r, _ := record.NewWrapper("t:"+key, fixedMeta(), 1 /* dsd RAW-ish format byte, opaque here */, data)
	return r
}

func runWriter(specPath string) int {
	runtime.LockOSThread()
	spec, err := loadSpec(specPath)
	if err != nil {
		fmt.Println("writer: spec:", err)
		return 3
	}
	syscall.Umask(0o022)
	P := spec.Params
	content := func(i int) []byte {
		b, err := os.ReadFile(filepath.Join(spec.Meta, fmt.Sprintf("c%d", i)))
		if err != nil {
			fmt.Println("writer: content:", err)
			os.Exit(3)
		}
		// hand the data over as a window of a larger buffer: bytes beyond len() must never reach the file
		w := make([]byte, len(b)+24)
		copy(w, b)
		for i := len(b); i < len(w); i++ {
			w[i] = 0xEE
		}
		return w[:len(b)]
	}
	var op func() error
	switch spec.Writer {
	case "rio-writefile":
		data := content(1)
		op = func() error { return renameio.WriteFile(spec.Dest, data, perm(P["perm"])) }
	case "rio-symlink":
		op = func() error { return renameio.Symlink(P["target"], spec.Dest) }
	case "create-atomic":
		data := content(1)
		opts := &utils.AtomicFileOptions{Mode: perm(P["perm"]), TempDir: P["tempdir"]}
		var r io.Reader
		switch P["reader"] {
		case "bytes":
			r = bytes.NewReader(data)
		default:
			r = &chunkReader{data: data, chunk: atoi(P["chunk"], 4096), failAt: atoi(P["failat"], -1)}
		}
		if P["nilopts"] == "1" {
			opts = nil
		}
		op = func() error { return utils.CreateAtomic(spec.Dest, r, opts) }
	case "copy-atomic":
		opts := &utils.AtomicFileOptions{Mode: perm(P["perm"]), TempDir: P["tempdir"]}
		op = func() error { return utils.CopyFileAtomic(spec.Dest, P["src"], opts) }
	case "replace-atomic":
		var opts *utils.AtomicFileOptions
		if P["perm"] != "" && P["perm"] != "0" {
			opts = &utils.AtomicFileOptions{Mode: perm(P["perm"])}
		}
		op = func() error { return utils.ReplaceFileAtomic(spec.Dest, P["src"], opts) }
	case "fstree-put":
		st, err := fstree.NewFSTree("t", P["base"])
		if err != nil {
			fmt.Println("writer: fstree:", err)
			return 3
		}
		rec := fstreeRecord(P["key"], content(2))
		op = func() error { _, err := st.Put(rec); return err }
	case "fetch", "unpack-zip", "file-unpack":
		reg := &updater.ResourceRegistry{Name: "verif", Online: true}
		if err := reg.Initialize(utils.NewDirStructure(P["storage"], 0o755)); err != nil {
			fmt.Println("writer: registry:", err)
			return 3
		}
		id := P["identifier"]
		switch spec.Writer {
		case "fetch":
			body := content(1)
			if P["tamper"] == "1" {
				body = content(3) // same length, other bytes: the signed checksum does not match
			}
			ctx, cancel := context.WithCancel(context.Background())
			defer cancel()
			plan := P["srv"]
			if plan == "" {
				plan = "ok"
			}
			steps, err := parsePlan(plan, len(body))
			if err != nil {
				fmt.Println("writer: plan:", err)
				return 3
			}
			obs := &dlObserver{inner: http.DefaultTransport, planned: len(steps), cancel: cancel, cancelSig: P["cancel_on_sig"] == "1"}
			if P["api"] == "getfile" {
				obs.cancel = nil // GetFile has no context: the plan ends with a successful attempt
			}
			http.DefaultTransport = obs
			dls := &dlServer{steps: steps, body: body, obs: obs}
			srv := httptest.NewServer(dls)
			defer srv.Close()
			reg.UpdateURLs = []string{srv.URL}
			reg.MandatoryUpdates = []string{id}
			if P["signed"] == "1" {
				switch {
				case P["nosig"] == "1":
				case P["badsig"] == "1":
					dls.sigBody = []byte("this is not a signature file\n")
				default:
					dls.sigBody = content(2)
				}
				sb, err := os.ReadFile(filepath.Join(spec.Meta, "signet.json"))
				if err != nil {
					fmt.Println("writer: signet:", err)
					return 3
				}
				rcpt := &jess.Signet{}
				if err := json.Unmarshal(sb, rcpt); err != nil {
					fmt.Println("writer: signet:", err)
					return 3
				}
				if err := rcpt.LoadKey(); err != nil {
					fmt.Println("writer: signet key:", err)
					return 3
				}
				ts := jess.NewMemTrustStore()
				if err := ts.StoreSignet(rcpt); err != nil {
					fmt.Println("writer: trust store:", err)
					return 3
				}
				var pol updater.SignaturePolicy = updater.SignaturePolicyRequire
				switch P["policy"] {
				case "warn":
					pol = updater.SignaturePolicyWarn
				case "disable":
					pol = updater.SignaturePolicyDisable
				}
				reg.Verification = map[string]*updater.VerificationOptions{
					"": {TrustStore: ts, DownloadPolicy: pol, DiskLoadPolicy: pol},
				}
			}
			if err := reg.AddResource(id, P["version"], &updater.Index{AutoDownload: true}, P["have"] == "1", true, false); err != nil {
				fmt.Println("writer: add resource:", err)
				return 3
			}
			reg.SelectVersions()
			op = func() error {
				var err error
				if P["api"] == "getfile" {
					_, err = reg.GetFile(id)
				} else {
					err = reg.DownloadUpdates(ctx, false)
				}
				cancel()
				fmt.Println(obs.report())
				return err
			}
		case "unpack-zip":
			reg.AutoUnpack = []string{id}
			if err := reg.AddResource(id, P["version"], nil, true, true, false); err != nil {
				fmt.Println("writer: add resource:", err)
				return 3
			}
			reg.SelectVersions()
			op = func() error { return reg.UnpackResources() }
		case "file-unpack":
			if err := reg.AddResource(id, P["version"], nil, true, true, false); err != nil {
				fmt.Println("writer: add resource:", err)
				return 3
			}
			reg.SelectVersions()
			f, err := reg.GetFile(id)
			if err != nil {
				fmt.Println("writer: get file:", err)
				return 3
			}
			op = func() error {
				p, err := f.Unpack(".gz", updater.UnpackGZIP)
				if err == nil && p != spec.Dest {
					return fmt.Errorf("unpacked to %s, expected %s", p, spec.Dest)
				}
				return err
			}
		}
	default:
		fmt.Println("writer: unknown writer", spec.Writer)
		return 3
	}
	marker(beginMarker)
	err = op()
	marker(endMarker)
	if err != nil {
		fmt.Println("result: err", err)
	} else {
		fmt.Println("result: ok")
	}
	return 0
}
