// Canonicalisation shared by the tracer and the harness: sandbox paths -> model paths, random temp names -> #k,
// file bytes -> content segments (cid:off:len) over the content table of the scenario, snapshots, destination view.
package main

import (
	"bytes"
	"encoding/json"
	"fmt"
	"hash/fnv"
	"io"
	"os"
	"path/filepath"
	"sort"
	"strings"
	"syscall"
)

// Spec is the scenario description shared by harness, tracer and writer (JSON file in the meta directory).
type Spec struct {
	Writer   string            `json:"writer"`
	Root     string            `json:"root"`   // sandbox root (model mount "R")
	XRoot    string            `json:"xroot"`  // second root on another file system (model mount "X"), may be ""
	Tmpdir   string            `json:"tmpdir"` // TMPDIR of the writer
	Dest     string            `json:"dest"`   // absolute destination path
	Meta     string            `json:"meta"`   // directory with the content table c0, c1, … (outside the roots)
	TmpNames []string          `json:"tmpnames"`
	Params   map[string]string `json:"params"`
	KillAt   int               `json:"kill_at"`
	OldObs   string            `json:"old_obs"` // content-only form of the two allowed destination states
	NewObs   string            `json:"new_obs"`
	Readers  int               `json:"readers"` // free-running reader goroutines in the tracer process
}

func loadSpec(p string) (*Spec, error) {
	b, err := os.ReadFile(p)
	if err != nil {
		return nil, err
	}
	s := &Spec{}
	if err := json.Unmarshal(b, s); err != nil {
		return nil, err
	}
	return s, nil
}

type canon struct {
	spec   *Spec
	table  [][]byte
	names  map[string]string // random temp component -> canonical
	counts map[string]int
}

func newCanon(s *Spec) *canon {
	c := &canon{spec: s, names: map[string]string{}, counts: map[string]int{}}
	for i := 0; ; i++ {
		b, err := os.ReadFile(filepath.Join(s.Meta, fmt.Sprintf("c%d", i)))
		if err != nil {
			break
		}
		c.table = append(c.table, b)
	}
	return c
}

func under(root, p string) bool {
	return root != "" && (p == root || strings.HasPrefix(p, root+"/"))
}

func (c *canon) inside(p string) bool {
	return under(c.spec.Root, p) || under(c.spec.XRoot, p)
}

// comp canonicalises one path component: <tmp-prefix><digits> -> <tmp-prefix>#k (k = order of first appearance).
func (c *canon) comp(s string) string {
	if v, ok := c.names[s]; ok {
		return v
	}
	for _, p := range c.spec.TmpNames {
		if strings.HasPrefix(s, p) && len(s) > len(p) {
			rest := s[len(p):]
			digits := true
			for _, ch := range rest {
				if ch < '0' || ch > '9' {
					digits = false
				}
			}
			if digits {
				c.counts[p]++
				v := fmt.Sprintf("%s#%d", p, c.counts[p])
				c.names[s] = v
				return v
			}
		}
	}
	return s
}

// path maps an absolute path to the model path (R/… or X/…); paths outside both roots are printed as "?<path>".
func (c *canon) path(p string) string {
	var head, rest string
	switch {
	case under(c.spec.Root, p):
		head, rest = "R", strings.TrimPrefix(p, c.spec.Root)
	case under(c.spec.XRoot, p):
		head, rest = "X", strings.TrimPrefix(p, c.spec.XRoot)
	default:
		return "?" + strings.ReplaceAll(p, " ", "_")
	}
	parts := []string{head}
	for _, s := range strings.Split(rest, "/") {
		if s != "" {
			parts = append(parts, c.comp(s))
		}
	}
	return strings.Join(parts, "/")
}

func (c *canon) pathNew(p string, _ bool) string { return c.path(p) }

func (c *canon) target(t string) string {
	if t == "" {
		return "-"
	}
	return strings.ReplaceAll(t, " ", "_")
}

// junkCid is the content id of bytes that are not a range of any table entry.
func junkCid(b []byte) int {
	h := fnv.New32a()
	h.Write(b)
	return 1000000 + int(h.Sum32()%1000000)
}

// identify names the byte range [off, off+n) of a file as a segment of the content table (lowest matching id,
// the previous chunk's id preferred), or as junk.
func (c *canon) identify(file string, off, n int64, prev int) (string, int) {
	f, err := os.Open(file)
	if err != nil {
		return fmt.Sprintf("%d:%d:%d", 999999, off, n), 999999
	}
	defer f.Close()
	buf := make([]byte, n)
	if _, err := io.ReadFull(io.NewSectionReader(f, off, n), buf); err != nil {
		return fmt.Sprintf("%d:%d:%d", 999998, off, n), 999998
	}
	match := func(i int) bool {
		t := c.table[i]
		return int64(len(t)) >= off+n && bytes.Equal(t[off:off+n], buf)
	}
	if prev >= 0 && prev < len(c.table) && match(prev) {
		return fmt.Sprintf("%d:%d:%d", prev, off, n), prev
	}
	for i := range c.table {
		if match(i) {
			return fmt.Sprintf("%d:%d:%d", i, off, n), i
		}
	}
	j := junkCid(buf)
	return fmt.Sprintf("%d:%d:%d", j, off, n), j
}

// content is the canonical content of a whole file: "-" when empty, "cid:0:len" when it is a prefix of a table
// entry (lowest id), junk otherwise.
func (c *canon) content(b []byte) string {
	if len(b) == 0 {
		return "-"
	}
	for i, t := range c.table {
		if len(t) >= len(b) && bytes.Equal(t[:len(b)], b) {
			return fmt.Sprintf("%d:0:%d", i, len(b))
		}
	}
	return fmt.Sprintf("%d:0:%d", junkCid(b), len(b))
}

// entry describes one file-system object: "f,<mode>,<content>", "d,<mode>", "l,<target>". ok=false means the
// object changed type or vanished between the lstat and the read (the caller looks again).
func (c *canon) entry(p string, fi os.FileInfo) (string, bool) {
	switch {
	case fi.Mode()&os.ModeSymlink != 0:
		t, err := os.Readlink(p)
		if err != nil {
			return "l,?", false
		}
		return "l," + c.target(t), true
	case fi.IsDir():
		return fmt.Sprintf("d,%o", fi.Mode().Perm()), true
	case fi.Mode().IsRegular():
		f, err := os.OpenFile(p, os.O_RDONLY|syscall.O_NOFOLLOW, 0)
		if err != nil {
			return "f,unreadable", false
		}
		defer f.Close()
		st, err := f.Stat()
		if err != nil || !st.Mode().IsRegular() {
			return "f,unreadable", false
		}
		b, err := io.ReadAll(f)
		if err != nil {
			return "f,unreadable", false
		}
		return fmt.Sprintf("f,%o,%s", st.Mode().Perm(), c.content(b)), true
	}
	return "other", true
}

func (c *canon) walk(root string, out *[]string) {
	if root == "" {
		return
	}
	_ = filepath.Walk(root, func(p string, fi os.FileInfo, err error) error {
		if err != nil || fi == nil {
			return nil
		}
		e, _ := c.entry(p, fi)
		*out = append(*out, c.path(p)+"|"+e)
		return nil
	})
}

// snapshot lists every object under the roots, sorted.
func (c *canon) snapshot() []string {
	var out []string
	c.walk(c.spec.Root, &out)
	c.walk(c.spec.XRoot, &out)
	sort.Strings(out)
	return out
}

// obs is the destination as a reader sees it: "-" (absent), the entry of a file / symlink, or for a directory
// "d,<mode>{rel|entry;…}" with the whole subtree.
func (c *canon) obs() string {
	return c.obsOf(c.spec.Dest)
}

func (c *canon) obsOf(dest string) string {
	last := "-"
	for try := 0; try < 5; try++ {
		fi, err := os.Lstat(dest)
		if err != nil {
			return "-"
		}
		e, ok := c.entry(dest, fi)
		last = e
		if !ok {
			continue // replaced between lstat and read: look again
		}
		if !fi.IsDir() {
			return e
		}
		var sub []string
		_ = filepath.Walk(dest, func(p string, fi os.FileInfo, err error) error {
			if err != nil || fi == nil || p == dest {
				return nil
			}
			rel := strings.TrimPrefix(c.path(p), c.path(dest)+"/")
			se, _ := c.entry(p, fi)
			sub = append(sub, rel+"|"+se)
			return nil
		})
		sort.Strings(sub)
		return e + "{" + strings.Join(sub, ";") + "}"
	}
	return last
}

// stripObs removes the permission bits from an observation: the property is about content.
func stripObs(o string) string {
	i := strings.IndexByte(o, '{')
	head, rest := o, ""
	if i >= 0 {
		head, rest = o[:i], o[i:]
	}
	head = stripEntry(head)
	if rest == "" {
		return head
	}
	inner := strings.TrimSuffix(strings.TrimPrefix(rest, "{"), "}")
	if inner == "" {
		return head + "{}"
	}
	parts := strings.Split(inner, ";")
	for k, p := range parts {
		if j := strings.IndexByte(p, '|'); j >= 0 {
			parts[k] = p[:j+1] + stripEntry(p[j+1:])
		}
	}
	return head + "{" + strings.Join(parts, ";") + "}"
}

func stripEntry(e string) string {
	f := strings.Split(e, ",")
	switch {
	case f[0] == "f" && len(f) == 3:
		return "f," + f[2]
	case f[0] == "d":
		return "d"
	}
	return e
}
