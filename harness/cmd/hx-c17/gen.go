// Scenario lists: a fixed cross product aimed at the branch structure of the writers, then seeded random ones.
package main

import (
	"strconv"
	"strings"

	"verifharness/hxlib"
)

func scenarios(r *hxlib.Run) []scn {
	var out []scn
	id := 0
	small := func() int { return 1 + r.Rng.Intn(6000) }
	boundary := func() int {
		return []int{1, 2, 16, 4095, 4096, 4097, 8191, 8192, 8193, 32767, 32768, 32769, 65535, 65536, 65537, 1 << 20}[r.Rng.Intn(16)]
	}
	multi := func() int { return 3<<20 + r.Rng.Intn(1<<20) }
	perms := []string{"644", "600", "755", "640"}
	add := func(s scn) {
		id++
		s.ID = id
		s.Seed = 1 + r.Rng.Int63n(1000000)
		if s.Perm == "" {
			s.Perm = perms[r.Rng.Intn(len(perms))]
		}
		if s.Fail == "" {
			s.Fail = "-"
		}
		if s.Var == "" {
			s.Var = "-"
		}
		if s.TmpMode == "" {
			s.TmpMode = "same"
		}
		if s.Old == "absent" {
			s.OldLen = 0
		}
		out = append(out, s)
	}
	sizes := func() []int { return []int{0, small(), multi()} }
	oldLen := func() int { return []int{0, small(), small(), 200000}[r.Rng.Intn(4)] }

	// renameio.WriteFile
	for _, old := range []string{"absent", "file", "file400"} {
		for _, n := range sizes() {
			add(scn{Writer: "rio-writefile", Old: old, OldLen: oldLen(), NewLen: n})
		}
	}
	for _, tm := range []string{"cross", "bad"} {
		add(scn{Writer: "rio-writefile", Old: "file", OldLen: small(), NewLen: small(), TmpMode: tm})
		add(scn{Writer: "rio-writefile", Old: "absent", NewLen: small(), TmpMode: tm})
	}
	add(scn{Writer: "rio-writefile", Old: "dir", NewLen: small(), Fail: "blocked"})
	// renameio.Symlink
	for _, old := range []string{"absent", "symlink", "file"} {
		add(scn{Writer: "rio-symlink", Old: old, OldLen: small()})
	}
	add(scn{Writer: "rio-symlink", Old: "dir", Fail: "blocked"})
	// utils.CreateAtomic
	for _, old := range []string{"absent", "file"} {
		for _, n := range sizes() {
			add(scn{Writer: "create-atomic", Old: old, OldLen: oldLen(), NewLen: n, Var: []string{"chunk", "bytes"}[r.Rng.Intn(2)]})
		}
		add(scn{Writer: "create-atomic", Old: old, OldLen: small(), NewLen: 20000 + small(), Fail: "reader"})
		add(scn{Writer: "create-atomic", Old: old, OldLen: small(), NewLen: small(), TmpMode: "explicit"})
	}
	add(scn{Writer: "create-atomic", Old: "file400", OldLen: small(), NewLen: small(), Var: "nilopts"})
	add(scn{Writer: "create-atomic", Old: "file", OldLen: small(), NewLen: small(), TmpMode: "explicit-cross"})
	add(scn{Writer: "copy-atomic", Old: "absent", NewLen: small(), TmpMode: "explicit-cross", Perm: "600"})
	add(scn{Writer: "create-atomic", Old: "file", OldLen: small(), NewLen: small(), Perm: "0", TmpMode: "cross"})
	add(scn{Writer: "create-atomic", Old: "file", OldLen: small(), NewLen: multi(), Fail: "reader", TmpMode: "bad"})
	// utils.CopyFileAtomic / ReplaceFileAtomic
	for _, w := range []string{"copy-atomic", "replace-atomic"} {
		for _, old := range []string{"absent", "file", "file400"} {
			for _, n := range sizes() {
				add(scn{Writer: w, Old: old, OldLen: oldLen(), NewLen: n, Perm: []string{"0", "600", "644"}[r.Rng.Intn(3)]})
			}
		}
		add(scn{Writer: w, Old: "file", OldLen: small(), NewLen: small(), Fail: "nosrc", Perm: "0"})
		add(scn{Writer: w, Old: "file", OldLen: small(), NewLen: small(), TmpMode: "cross", Perm: "0"})
	}
	// fstree.Put
	for _, v := range []string{"flat", "nested", "nested-present"} {
		for _, n := range sizes() {
			old := "absent"
			if v != "nested" && r.Rng.Intn(2) == 0 {
				old = "file"
			}
			add(scn{Writer: "fstree-put", Old: old, OldLen: oldLen(), NewLen: n, Var: v})
		}
	}
	add(scn{Writer: "fstree-put", Old: "file", OldLen: small(), NewLen: small(), Var: "flat", TmpMode: "cross"})
	add(scn{Writer: "fstree-put", Old: "absent", NewLen: small(), Var: "nested", TmpMode: "bad"})
	add(scn{Writer: "fstree-put", Old: "file", OldLen: small(), NewLen: small(), Var: "flat", TmpMode: "bad"})
	// updater download
	for _, old := range []string{"absent", "file"} {
		for _, n := range sizes() {
			add(scn{Writer: "fetch", Old: old, OldLen: oldLen(), NewLen: n})
		}
		add(scn{Writer: "fetch", Old: old, OldLen: small(), NewLen: 100000 + small(), Fail: "short"})
		add(scn{Writer: "fetch", Old: old, OldLen: small(), NewLen: small(), Fail: "404"})
	}
	// the server / the connection misbehaves (download.go): every way the body can end early or the answer can be
	// something else than a complete, announced 200 response — one attempt each
	dlSize := func() int { return []int{2 + r.Rng.Intn(6000), boundary() + 1, 60000 + r.Rng.Intn(200000)}[r.Rng.Intn(3)] }
	single := []string{"len-cut@half", "len-cut@0", "len-cut@last", "len-rst@0", "len-short", "len-long",
		"close-full", "close-cut@0", "close-cut@1", "close-cut@half", "close-cut@last", "close-rst@half", "http10-cut@half",
		"chunked-full", "chunked-term@half", "chunked-cut@half", "chunked-rst@half", "gzip-full", "gzip-cut",
		"st206", "st301", "st302-ok", "st204", "st304", "st500", "st503", "refused"}
	for i, plan := range single {
		old := []string{"file", "absent"}[(i+int(r.Seed))%2]
		add(scn{Writer: "fetch", Old: old, OldLen: small(), NewLen: dlSize(), Srv: plan})
	}
	add(scn{Writer: "fetch", Old: "file", OldLen: small(), NewLen: multi(), Srv: "close-cut@102400"})
	add(scn{Writer: "fetch", Old: "absent", NewLen: multi(), Srv: "chunked-cut@half"})
	add(scn{Writer: "fetch", Old: "file", OldLen: small(), NewLen: 0, Srv: "close-full"})
	// retries: a failed attempt, the back-off, then a complete answer — through DownloadUpdates and through GetFile
	add(scn{Writer: "fetch", Old: "file", OldLen: small(), NewLen: dlSize(), Srv: "close-cut@half+ok"})
	add(scn{Writer: "fetch", Old: "absent", NewLen: dlSize(), Srv: "close-cut@half+ok", Var: "getfile"})
	add(scn{Writer: "fetch", Old: "file", OldLen: small(), NewLen: dlSize(), Srv: []string{"len-rst@half+ok", "st503+ok", "chunked-cut@half+ok", "len-long+ok"}[r.Rng.Intn(4)], Var: "getfile"})
	add(scn{Writer: "fetch", Old: "file", OldLen: small(), NewLen: dlSize(), Srv: "ok", Var: "getfile"})
	if r.Thorough {
		add(scn{Writer: "fetch", Old: "file", OldLen: small(), NewLen: dlSize(), Srv: "http10-cut@half+close-cut@1"})
		for _, plan := range single {
			add(scn{Writer: "fetch", Old: "file", OldLen: small(), NewLen: dlSize(), Srv: plan})
			add(scn{Writer: "fetch", Old: "absent", NewLen: dlSize(), Srv: plan})
		}
		add(scn{Writer: "fetch", Old: "absent", NewLen: dlSize(), Srv: "st500+len-cut@half+ok", Var: "getfile"})
		add(scn{Writer: "fetch", Old: "file", OldLen: small(), NewLen: dlSize(), Srv: "close-cut@half+close-cut@half+ok"})
		add(scn{Writer: "fetch", Old: "file", OldLen: small(), NewLen: 1 << 20, Srv: "close-cut@102400+ok", Var: "getfile"})
	}
	// verification: truncated body under a required signature, delivered bytes that do not match the signature
	// (required / only warned about), unusable signature (required), no signature (warn)
	add(scn{Writer: "fetch", Old: "file", OldLen: small(), NewLen: dlSize(), Var: "signed-main", Srv: "close-cut@half"})
	add(scn{Writer: "fetch", Old: "absent", NewLen: dlSize(), Var: "signed-main", Srv: "len-cut@half+ok"})
	add(scn{Writer: "fetch", Old: "file", OldLen: small(), NewLen: dlSize(), Var: "signed-tamper-require"})
	add(scn{Writer: "fetch", Old: "file", OldLen: small(), NewLen: dlSize(), Var: "signed-tamper-warn"})
	add(scn{Writer: "fetch", Old: "file", OldLen: small(), NewLen: dlSize(), Var: "signed-badsig-require"})
	add(scn{Writer: "fetch", Old: "absent", NewLen: dlSize(), Var: "signed-nosig-warn"})
	// signed downloads: the resource and its signature file are two published files; each is the destination of
	// one scenario (the other one is named in also=)
	for _, v := range []string{"signed-main", "signed-sig"} {
		add(scn{Writer: "fetch", Old: "absent", NewLen: small(), Var: v})
		add(scn{Writer: "fetch", Old: "absent", NewLen: 70000 + small(), Var: v})
	}
	add(scn{Writer: "fetch", Old: "file", OldLen: small(), NewLen: small(), Var: "signed-main"})
	add(scn{Writer: "fetch", Old: "absent", NewLen: small(), Var: "signed-sig", Fail: "short"})
	add(scn{Writer: "fetch", Old: "absent", NewLen: small(), Var: "missing-sig"})
	add(scn{Writer: "fetch", Old: "absent", NewLen: multi(), Var: "missing-sig"})
	// updater.UnpackResources (zip)
	for _, v := range []string{"-", "deep"} {
		add(scn{Writer: "unpack-zip", Old: "absent", NewLen: small(), Var: v})
		add(scn{Writer: "unpack-zip", Old: "absent", NewLen: small(), Var: v, Fail: "corrupt"})
	}
	add(scn{Writer: "unpack-zip", Old: "absent", NewLen: multi()})
	add(scn{Writer: "unpack-zip", Old: "dir", NewLen: small()})
	add(scn{Writer: "unpack-zip", Old: "file", NewLen: small(), Fail: "blocked"})
	// the size limit of copyFromZipArchive: a member just above MaxUnpackSize and one exactly at it (untraced runs)
	add(scn{Writer: "unpack-zip-big", Old: "absent", Var: "above-limit"})
	add(scn{Writer: "unpack-zip-big", Old: "absent", Var: "at-limit"})
	if r.Thorough {
		add(scn{Writer: "unpack-zip-big", Old: "absent", Var: "below-limit"})
	}
	// TWO writers of one destination at the same time (twowriters.go; untraced, forced overlap, free-running readers)
	for i := 0; i < r.Budget(2, 6); i++ {
		// NewLen = size of the large member in KiB
		add(scn{Writer: "two-unpack-zip", Old: "absent", NewLen: []int{48, 24, 96, 160}[i%4] << 10, Var: "flat"})
	}
	add(scn{Writer: "two-unpack-zip", Old: "absent", NewLen: 32 << 10, Var: "sub"})
	for _, old := range []string{"absent", "file"} {
		add(scn{Writer: "two-create-atomic", Old: old, OldLen: small(), NewLen: 20000 + small()})
		add(scn{Writer: "two-fstree-put", Old: old, OldLen: small(), NewLen: 200000 + small()})
		add(scn{Writer: "two-rio-writefile", Old: old, OldLen: small(), NewLen: 1<<20 + small()})
	}
	add(scn{Writer: "two-getfile", Old: "absent", NewLen: 100000 + small()})
	add(scn{Writer: "two-file-unpack", Old: "absent", NewLen: 100000 + small()})
	if r.Thorough {
		for i := 0; i < 4; i++ {
			add(scn{Writer: "two-create-atomic", Old: "file", OldLen: small(), NewLen: boundary()})
			add(scn{Writer: "two-fstree-put", Old: "file", OldLen: small(), NewLen: multi()})
			add(scn{Writer: "two-rio-writefile", Old: "absent", NewLen: multi()})
			add(scn{Writer: "two-getfile", Old: "absent", NewLen: multi()})
			add(scn{Writer: "two-file-unpack", Old: "absent", NewLen: boundary() + 2})
		}
	}
	// File.Unpack (gzip)
	for _, old := range []string{"absent", "file"} {
		for _, n := range sizes() {
			add(scn{Writer: "file-unpack", Old: old, OldLen: oldLen(), NewLen: n})
		}
		add(scn{Writer: "file-unpack", Old: old, OldLen: small(), NewLen: 50000 + small(), Fail: "corrupt"})
	}
	// … and the other ways a gzip file can be bad: error in the middle of the data, the file itself cut (in the
	// data / in the trailer), garbage after the stream, not a gzip file at all
	for _, f := range []string{"corrupt-data", "truncated", "truncated-trailer", "trailing", "badheader"} {
		add(scn{Writer: "file-unpack", Old: "absent", NewLen: []int{20 + small(), 50000 + small()}[r.Rng.Intn(2)], Fail: f})
	}
	add(scn{Writer: "file-unpack", Old: "file", OldLen: small(), NewLen: 20 + small(), Fail: "badheader"})
	// zip: a member that is shorter than its header says (last / first member), an archive file cut in the middle
	add(scn{Writer: "unpack-zip", Old: "absent", NewLen: 2 + small(), Fail: "short-member"})
	add(scn{Writer: "unpack-zip", Old: "absent", NewLen: 70000 + small(), Fail: "short-member-first", Var: "deep"})
	add(scn{Writer: "unpack-zip", Old: "absent", NewLen: small(), Fail: "truncated-zip"})
	// history: every writer once more on a sandbox in which the same operation was interrupted before
	for _, w := range []string{"rio-writefile", "rio-symlink", "create-atomic", "copy-atomic", "fstree-put", "fetch", "unpack-zip", "file-unpack"} {
		old := "file"
		switch w {
		case "rio-symlink":
			old = "symlink"
		case "unpack-zip":
			old = "absent"
		}
		v := ""
		if w == "fstree-put" {
			v, old = "nested", "absent"
		}
		add(scn{Writer: w, Old: old, OldLen: small(), NewLen: boundary(), Var: v, Pre: 3 + r.Rng.Intn(8)})
	}
	add(scn{Writer: "fetch", Old: "file", OldLen: small(), NewLen: 3 + boundary(), Srv: "close-cut@half", Pre: 2 + r.Rng.Intn(6)})
	// seeded random scenarios
	writers := []string{"rio-writefile", "rio-symlink", "create-atomic", "copy-atomic", "replace-atomic", "fstree-put", "fetch", "unpack-zip", "file-unpack"}
	for i := 0; i < r.Budget(24, 400); i++ {
		w := writers[r.Rng.Intn(len(writers))]
		s := scn{Writer: w, OldLen: oldLen()}
		// size class drawn uniformly: empty / tiny / small / chunk boundaries ±1 / medium / multi-MiB
		switch r.Rng.Intn(6) {
		case 0:
			s.NewLen = 0
		case 1:
			s.NewLen = 1 + r.Rng.Intn(16)
		case 2:
			s.NewLen = small()
		case 3:
			s.NewLen = boundary()
		case 4:
			s.NewLen = 60000 + r.Rng.Intn(200000)
		default:
			s.NewLen = multi()
		}
		if r.Rng.Intn(3) == 0 {
			s.Pre = 1 + r.Rng.Intn(12)
		}
		s.TmpMode = []string{"same", "same", "cross", "bad"}[r.Rng.Intn(4)]
		s.Old = []string{"absent", "file", "file", "file400"}[r.Rng.Intn(4)]
		switch w {
		case "rio-symlink":
			s.Old = []string{"absent", "symlink", "file"}[r.Rng.Intn(3)]
		case "create-atomic":
			s.Var = []string{"chunk", "bytes", "nilopts"}[r.Rng.Intn(3)]
			if r.Rng.Intn(4) == 0 && s.NewLen > 10 {
				s.Fail = "reader"
			}
			if r.Rng.Intn(4) == 0 {
				s.TmpMode = []string{"explicit", "explicit-cross"}[r.Rng.Intn(2)]
			}
		case "copy-atomic", "replace-atomic":
			s.Perm = []string{"0", "600", "644", "755"}[r.Rng.Intn(4)]
		case "fstree-put":
			s.Var = []string{"flat", "nested", "nested-present"}[r.Rng.Intn(3)]
			if s.Old == "file400" || s.Var == "nested" {
				s.Old = "absent"
			}
		case "fetch":
			s.TmpMode = "same"
			if s.Old == "file400" {
				s.Old = "file"
			}
			s.Fail = []string{"-", "-", "-", "short", "404"}[r.Rng.Intn(5)]
			if s.Fail == "short" && s.NewLen < 10 {
				s.NewLen = 5000
			}
			switch r.Rng.Intn(6) {
			case 0:
				s.Var = "signed-main"
			case 1:
				s.Var, s.Old = "signed-sig", "absent"
			case 2:
				s.Var, s.Old, s.Fail = "missing-sig", "absent", "-"
			case 3:
				s.Var, s.Fail = []string{"signed-tamper-require", "signed-tamper-warn", "signed-badsig-require", "signed-nosig-warn"}[r.Rng.Intn(4)], "-"
				if s.NewLen < 2 {
					s.NewLen = 2 + r.Rng.Intn(5000)
				}
			}
			if (s.Var == "" || s.Var == "signed-main") && s.Fail == "-" && r.Rng.Intn(3) > 0 {
				// a random misbehaviour of the server, cut at a random position
				if s.NewLen < 2 {
					s.NewLen = 2 + r.Rng.Intn(5000)
				}
				plan := single[r.Rng.Intn(len(single))]
				if i := strings.IndexByte(plan, '@'); i >= 0 {
					pos := []string{"0", "1", "half", "last", strconv.Itoa(r.Rng.Intn(s.NewLen))}[r.Rng.Intn(5)]
					plan = plan[:i+1] + pos
				}
				if r.Rng.Intn(4) == 0 && plan != "st302-ok" && plan != "len-short" {
					plan += "+ok"
					if s.Var == "" && r.Rng.Intn(2) == 0 {
						s.Var = "getfile"
					}
				}
				s.Srv = plan
			}
		case "unpack-zip":
			s.TmpMode = "same"
			s.Old = []string{"absent", "absent", "absent", "dir"}[r.Rng.Intn(4)]
			s.Var = []string{"-", "deep"}[r.Rng.Intn(2)]
			if r.Rng.Intn(3) == 0 {
				s.Fail = []string{"corrupt", "short-member", "short-member-first", "truncated-zip"}[r.Rng.Intn(4)]
				if s.NewLen < 2 {
					s.NewLen = 2 + r.Rng.Intn(5000)
				}
				if s.Old == "dir" {
					s.Fail = ""
				}
			}
		case "file-unpack":
			s.TmpMode = "same"
			if s.Old == "file400" {
				s.Old = "file"
			}
			if r.Rng.Intn(3) == 0 && s.NewLen > 100 {
				s.Fail = []string{"corrupt", "corrupt-data", "truncated", "truncated-trailer", "trailing", "badheader"}[r.Rng.Intn(6)]
			}
		}
		add(s)
	}
	return out
}
