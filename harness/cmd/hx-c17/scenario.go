// Scenario construction: sandbox layout, content table, old / new destination state.
package main

import (
	"archive/zip"
	"bytes"
	"compress/gzip"
	"encoding/json"
	"fmt"
	"hash/crc32"
	"io"
	"math/rand"
	"os"
	"os/exec"
	"path/filepath"
	"sort"
	"strconv"
	"strings"
	"sync/atomic"

	"github.com/safing/jess"
	"github.com/safing/jess/filesig"
	"github.com/safing/jess/lhash"
	_ "github.com/safing/jess/tools/all"
	"github.com/safing/portbase/updater"
)

// signResource makes a signing key, signs (hash of body, {id, version}) the way the release tooling does and
// returns the signature file and the public signet (JSON) for the writer's trust store.
func signResource(body []byte, id, version string) (sigFile, signetJSON []byte, err error) {
	sg, err := jess.GenerateSignet("Ed25519", 0)
	if err != nil {
		return nil, nil, err
	}
	sg.ID = "verif-c17-key"
	if err := sg.StoreKey(); err != nil {
		return nil, nil, err
	}
	ts := jess.NewMemTrustStore()
	if err := ts.StoreSignet(sg); err != nil {
		return nil, nil, err
	}
	rcpt, err := sg.AsRecipient()
	if err != nil {
		return nil, nil, err
	}
	if err := rcpt.StoreKey(); err != nil {
		return nil, nil, err
	}
	env := jess.NewUnconfiguredEnvelope()
	env.SuiteID = jess.SuiteSignV1
	env.Senders = []*jess.Signet{sg}
	letter, _, err := filesig.SignFileData(lhash.BLAKE2b_256.Digest(body), map[string]string{"id": id, "version": version}, env, ts)
	if err != nil {
		return nil, nil, err
	}
	sigFile, err = filesig.MakeSigFileSection(letter)
	if err != nil {
		return nil, nil, err
	}
	signetJSON, err = json.Marshal(rcpt)
	return sigFile, signetJSON, err
}

// scn is one scenario; its text form is the `run` line of a case.
type scn struct {
	ID      int
	Writer  string
	Old     string // absent | file | file400 | symlink | dir
	OldLen  int
	NewLen  int
	Perm    string // octal
	TmpMode string // same | cross | bad | explicit
	Fail    string // - | reader | short | 404 | corrupt | blocked
	Var     string // writer specific variant
	Srv     string // fetch: what the server / the connection does per attempt (download.go), "-" = derived from Fail
	Seed    int64
	K       int // 0 = run to completion, k > 0 = kill before the k-th mutating call
	Pre     int // history: the same operation was already run on this sandbox and killed before its Pre-th mutating call
}

func (s scn) line() string {
	srv := s.Srv
	if srv == "" {
		srv = "-"
	}
	return fmt.Sprintf("run id=%d w=%s old=%s oldlen=%d newlen=%d perm=%s tmp=%s fail=%s var=%s srv=%s seed=%d pre=%d k=%d",
		s.ID, s.Writer, s.Old, s.OldLen, s.NewLen, s.Perm, s.TmpMode, s.Fail, s.Var, srv, s.Seed, s.Pre, s.K)
}

func parseScn(line string) (scn, error) {
	var s scn
	f := strings.Fields(line)
	if len(f) < 2 || f[0] != "run" {
		return s, fmt.Errorf("not a run line")
	}
	for _, kv := range f[1:] {
		i := strings.IndexByte(kv, '=')
		if i < 0 {
			return s, fmt.Errorf("bad field %q", kv)
		}
		k, v := kv[:i], kv[i+1:]
		n, _ := strconv.ParseInt(v, 10, 64)
		switch k {
		case "id":
			s.ID = int(n)
		case "w":
			s.Writer = v
		case "old":
			s.Old = v
		case "oldlen":
			s.OldLen = int(n)
		case "newlen":
			s.NewLen = int(n)
		case "perm":
			s.Perm = v
		case "tmp":
			s.TmpMode = v
		case "fail":
			s.Fail = v
		case "var":
			s.Var = v
		case "srv":
			s.Srv = v
		case "seed":
			s.Seed = n
		case "k":
			s.K = int(n)
		case "pre":
			s.Pre = int(n)
		default:
			return s, fmt.Errorf("unknown field %q", k)
		}
	}
	return s, nil
}

// pattern is the content with id cid: pseudo-random bytes, first byte tagged with the id.
func pattern(seed int64, cid, n int) []byte {
	b := make([]byte, n)
	rand.New(rand.NewSource(seed*1000003 + int64(cid)*7919 + 17)).Read(b)
	// every third seed: the content starts with bytes that mean something to some layer (archive / compression
	// magic, BOM, JSON, a portbase record header, NULs); old and new then share that prefix
	dict := [][]byte{{0x1f, 0x8b, 0x08}, []byte("PK\x03\x04"), {0xEF, 0xBB, 0xBF}, []byte("{\"a\":"), []byte("null"), {1, 0}, {0, 0, 0, 0}, []byte("-----BEGIN")}
	off := 0
	if seed%3 == 0 {
		d := dict[int(seed/3)%len(dict)]
		off = copy(b, d)
	}
	if n > off {
		b[off] = 0xA0 + byte(cid)
	}
	return b
}

// built is a scenario laid out on disk.
type built struct {
	spec     *Spec
	specPath string
	dirs     []string // to remove afterwards
	destLine string
	dlLine   string // download scenarios: entry point, verification and planned responses, for the model
	upLine   string // unpack scenarios: what the archive is like, for the model
	progLine string // the program line when it depends on what was built
	oldObs   string // content-only form
	newObs   string
}

var sandboxSeq int64

func contentName(cid, n int) string {
	if n == 0 {
		return "-"
	}
	return fmt.Sprintf("%d:0:%d", cid, n)
}

type zipEntry struct {
	name string
	mode os.FileMode
	dir  bool
	data []byte
	cid  int
}

// build lays the scenario out under base (on the disk-backed file system) and, for tmp=cross, under /dev/shm.
func build(s scn, base string) (*built, error) {
	n := atomic.AddInt64(&sandboxSeq, 1)
	top := filepath.Join(base, fmt.Sprintf("sb%d-%d", os.Getpid(), n))
	b := &built{dirs: []string{top}}
	root := filepath.Join(top, "R")
	meta := filepath.Join(top, "meta")
	for _, d := range []string{root, meta, root + "/dst", root + "/tmp", root + "/src", root + "/tmp2"} {
		if err := os.MkdirAll(d, 0o755); err != nil {
			return nil, err
		}
	}
	sp := &Spec{Writer: s.Writer, Root: root, Meta: meta, Params: map[string]string{}, KillAt: s.K}
	tmpdirs := []string{}
	switch s.TmpMode {
	case "same", "explicit":
		sp.Tmpdir = root + "/tmp"
	case "explicit-cross":
		// opts.TempDir on another file system than the destination: the final rename must fail with EXDEV
		x := fmt.Sprintf("/dev/shm/verif-c17-%d-%d", os.Getpid(), n)
		_ = os.RemoveAll(x)
		if err := os.MkdirAll(x+"/X", 0o755); err != nil {
			return nil, err
		}
		b.dirs = append(b.dirs, x)
		sp.XRoot = x + "/X"
		sp.Tmpdir = root + "/tmp"
	case "cross":
		x := fmt.Sprintf("/dev/shm/verif-c17-%d-%d", os.Getpid(), n)
		_ = os.RemoveAll(x) // a stale directory of a killed earlier run with the same pid
		if err := os.MkdirAll(x+"/X", 0o755); err != nil {
			return nil, err
		}
		b.dirs = append(b.dirs, x)
		sp.XRoot = x + "/X"
		sp.Tmpdir = sp.XRoot
	case "bad":
		sp.Tmpdir = root + "/missing"
	default:
		return nil, fmt.Errorf("unknown tmp mode %q", s.TmpMode)
	}
	tmpdirs = append(tmpdirs, sp.Tmpdir)
	var table [][]byte
	put := func(cid int, data []byte) {
		for len(table) <= cid {
			table = append(table, nil)
		}
		table[cid] = data
	}
	put(0, pattern(s.Seed, 0, s.OldLen))
	put(1, pattern(s.Seed, 1, s.NewLen))
	kind := "file"
	oldObs, newObs := "-", "f,"+contentName(1, s.NewLen)
	var also, extraTmp []string
	newIsSig := false
	writeOld := func(dest string) error {
		switch s.Old {
		case "absent":
			oldObs = "-"
		case "file", "file400":
			m := os.FileMode(0o644)
			if s.Old == "file400" {
				m = 0o400
			}
			if err := os.WriteFile(dest, table[0], m); err != nil {
				return err
			}
			_ = os.Chmod(dest, m)
			oldObs = "f," + contentName(0, s.OldLen)
		case "symlink":
			if err := os.Symlink("old-target", dest); err != nil {
				return err
			}
			oldObs = "l,old-target"
		case "dir":
			if err := os.Mkdir(dest, 0o755); err != nil {
				return err
			}
			oldObs = "d{}"
		default:
			return fmt.Errorf("unknown old state %q", s.Old)
		}
		return nil
	}
	var err error
	switch s.Writer {
	case "rio-writefile", "create-atomic", "copy-atomic", "replace-atomic":
		sp.Dest = root + "/dst/file.bin"
		sp.Params["perm"] = s.Perm
		if s.TmpMode == "explicit" {
			sp.Params["tempdir"] = root + "/tmp2"
			tmpdirs = append(tmpdirs, root+"/tmp2")
		}
		if s.TmpMode == "explicit-cross" {
			sp.Params["tempdir"] = sp.XRoot
			tmpdirs = append(tmpdirs, sp.XRoot)
		}
		if s.Writer == "create-atomic" {
			sp.Params["reader"] = "chunk"
			sp.Params["chunk"] = "8192"
			if s.Var == "bytes" {
				sp.Params["reader"] = "bytes"
			}
			if s.Var == "nilopts" {
				sp.Params["nilopts"] = "1"
			}
			if s.Fail == "reader" {
				sp.Params["reader"] = "chunk"
				sp.Params["failat"] = strconv.Itoa(s.NewLen * 2 / 3)
			}
		}
		if s.Writer == "copy-atomic" || s.Writer == "replace-atomic" {
			src := root + "/src/source.bin"
			sp.Params["src"] = src
			if s.Fail != "nosrc" {
				if err = os.WriteFile(src, table[1], 0o640); err != nil {
					return nil, err
				}
			}
		}
		err = writeOld(sp.Dest)
	case "rio-symlink":
		kind = "symlink"
		sp.Dest = root + "/dst/link"
		sp.Params["target"] = "new-target"
		newObs = "l,new-target"
		err = writeOld(sp.Dest)
	case "fstree-put":
		key := "file.bin"
		if s.Var == "nested" {
			key = "a/b/file.bin"
		}
		if s.Var == "nested-present" {
			key = "a/b/file.bin"
			_ = os.MkdirAll(root+"/dst/a/b", 0o755)
		}
		sp.Params["base"] = root + "/dst"
		sp.Params["key"] = key
		sp.Dest = root + "/dst/" + key
		// c2 = record payload, c1 = the bytes fstree must store, c0 = a previously stored record
		put(2, pattern(s.Seed, 2, s.NewLen))
		nb, e1 := fstreeRecord(key, table[2]).MarshalRecord(nil)
		ob, e2 := fstreeRecord(key, pattern(s.Seed, 3, s.OldLen)).MarshalRecord(nil)
		if e1 != nil || e2 != nil {
			return nil, fmt.Errorf("marshal record: %v %v", e1, e2)
		}
		// make old and new distinguishable from the first byte on is impossible (same header): order the table so
		// that whole-file identification is unambiguous (contents differ in the payload)
		put(1, nb)
		put(0, ob)
		s.OldLen, s.NewLen = len(ob), len(nb)
		newObs = "f," + contentName(1, len(nb))
		if s.Old != "absent" {
			_ = os.MkdirAll(filepath.Dir(sp.Dest), 0o755)
		}
		err = writeOld(sp.Dest)
		if s.Old != "absent" {
			oldObs = "f," + contentName(0, len(ob))
		}
	case "fetch":
		id := "a/file.bin"
		sp.Params["storage"] = root + "/dst"
		sp.Params["identifier"] = id
		sp.Params["version"] = "1.0.0"
		sp.Params["fail"] = s.Fail
		plan := s.Srv
		if plan == "" || plan == "-" {
			switch s.Fail {
			case "short":
				plan = "len-rst@half"
			case "404":
				plan = "st404"
			default:
				plan = "ok"
			}
		}
		sp.Params["srv"] = plan
		api := "updates"
		if s.Var == "getfile" {
			api = "getfile"
		}
		sp.Params["api"] = api
		mainPath := root + "/dst/" + updater.GetVersionedPath(id, "1.0.0")
		sp.Dest = mainPath
		tmpdirs = append(tmpdirs, root+"/dst/tmp")
		if s.Old != "absent" || s.Var == "missing-sig" {
			_ = os.MkdirAll(filepath.Dir(sp.Dest), 0o755)
		}
		verif, sigDest, modelled := "none", "-", true
		if strings.HasPrefix(s.Var, "signed-") || s.Var == "missing-sig" {
			sig, signet, e := signResource(table[1], id, "1.0.0")
			if e != nil {
				return nil, fmt.Errorf("sign: %w", e)
			}
			put(2, sig)
			if e := os.WriteFile(filepath.Join(meta, "signet.json"), signet, 0o644); e != nil {
				return nil, e
			}
			sp.Params["signed"] = "1"
			sigPath := mainPath + filesig.Extension
			extraTmp = append(extraTmp, "."+filepath.Base(sigPath))
			sigDest = "R/dst/" + updater.GetVersionedPath(id, "1.0.0") + filesig.Extension
			verif = "require:1"
			switch s.Var {
			case "signed-main":
				also = append(also, sigPath)
				err = writeOld(sp.Dest)
			case "signed-tamper-require", "signed-tamper-warn":
				// the server delivers other bytes of the same length than the ones that were signed
				put(3, pattern(s.Seed, 3, s.NewLen))
				sp.Params["tamper"] = "1"
				also = append(also, sigPath)
				err = writeOld(sp.Dest)
				verif = "require:1"
				if s.Var == "signed-tamper-warn" {
					sp.Params["policy"] = "warn"
					verif = "warn:1"
					// policy "warn": the delivered bytes are what this download publishes
					newObs = "f," + contentName(3, s.NewLen)
					newIsSig = true // (name it literally: content 3)
				}
			case "signed-badsig-require":
				// the signature file is garbage and the policy requires one: refused before any file is created
				sp.Params["badsig"], sp.Params["cancel_on_sig"] = "1", "1"
				also = append(also, sigPath)
				err = writeOld(sp.Dest)
				verif = "require:0"
			case "signed-nosig-warn":
				// no signature on the server, policy "warn": downloaded without verification, no signature file
				sp.Params["nosig"], sp.Params["policy"] = "1", "warn"
				also = append(also, sigPath)
				err = writeOld(sp.Dest)
				verif = "warn:0"
			case "signed-sig":
				// the destination under observation is the signature file; the resource itself is the other
				// file this download publishes
				modelled = false
				also = append(also, mainPath)
				sp.Dest = sigPath
				oldObs, newObs = "-", "f,"+contentName(2, len(sig))
				newIsSig = true
			case "missing-sig":
				// the resource is already there (complete, new content), only its signature is missing
				modelled = false
				if e := os.WriteFile(mainPath, table[1], 0o755); e != nil {
					return nil, e
				}
				sp.Params["have"] = "1"
				sp.Dest = sigPath
				oldObs, newObs = "-", "f,"+contentName(2, len(sig))
				newIsSig = true
			default:
				return nil, fmt.Errorf("unknown fetch variant %q", s.Var)
			}
		} else {
			err = writeOld(sp.Dest)
		}
		if modelled {
			wires, e := planWires(plan, table[1], sp.Params["tamper"] == "1")
			if e != nil {
				return nil, e
			}
			b.dlLine = fmt.Sprintf("dl api=%s verif=%s sigdest=%s wires=%s", api, verif, sigDest, wires)
		}
	case "file-unpack":
		id := "a/data.bin.gz"
		sp.Params["storage"] = root + "/dst"
		sp.Params["identifier"] = id
		sp.Params["version"] = "1.0.0"
		gzPath := root + "/dst/" + updater.GetVersionedPath(id, "1.0.0")
		sp.Dest = strings.TrimSuffix(gzPath, ".gz")
		tmpdirs = append(tmpdirs, root+"/dst/tmp")
		_ = os.MkdirAll(filepath.Dir(gzPath), 0o755)
		var buf bytes.Buffer
		zw := gzip.NewWriter(&buf)
		_, _ = zw.Write(table[1])
		_ = zw.Close()
		gz := buf.Bytes()
		var header, stream int
		switch s.Fail {
		case "-", "":
		case "corrupt":
			if len(gz) > 8 {
				gz[len(gz)-6] ^= 0x55 // CRC32 in the trailer: the error appears after all data has been read
			}
		case "corrupt-data":
			gz[10+(len(gz)-18)/2] ^= 0xff // inside the deflate data: flate error or a CRC mismatch at the end
		case "truncated":
			gz = gz[:len(gz)/2] // the archive file itself is short: unexpected EOF in the middle of the data
		case "truncated-trailer":
			gz = gz[:len(gz)-3] // all data present, the trailer is cut
		case "trailing":
			gz = append(gz, bytes.Repeat([]byte{0xEE}, 100)...) // garbage where the next member would start
		case "badheader":
			gz = append([]byte("NOTGZIP"), gz...)
		default:
			return nil, fmt.Errorf("file-unpack: unknown failure %q", s.Fail)
		}
		// what compress/gzip makes of the file as it is now (the model's input)
		header, stream = 0, 0
		var unz bytes.Buffer
		if zr, e := gzip.NewReader(bytes.NewReader(gz)); e == nil {
			header = 1
			if _, e := io.Copy(&unz, zr); e == nil {
				stream = 1
			}
		}
		if !bytes.HasPrefix(table[1], unz.Bytes()) {
			// damaged data: what the decompressor hands out before it notices is not a prefix of the resource. Name
			// those bytes (content 1, so that chunks and whole files get the same name) and keep the real content
			// of the resource — the only thing that may ever be published — as content 2.
			real := table[1]
			put(1, append([]byte(nil), unz.Bytes()...))
			put(2, real)
			newObs = "f," + (&canon{table: table}).content(real)
			newIsSig = true // named literally
		}
		if err = os.WriteFile(gzPath, gz, 0o644); err != nil {
			return nil, err
		}
		err = writeOld(sp.Dest)
		there := 1
		if s.Old == "absent" {
			there = 0
		}
		sp.Params["gz_header"], sp.Params["gz_stream"] = strconv.Itoa(header), strconv.Itoa(stream)
		b.upLine = fmt.Sprintf("unpack kind=gz there=%d header=%d stream=%d", there, header, stream)
		b.progLine = fmt.Sprintf("prog gunzip tmpdir=%s optdir=R/dst/tmp mode=0 header=%d stream=%d",
			map[string]string{"same": "R/tmp", "cross": "X", "bad": "R/missing"}[s.TmpMode], header, stream)
	case "unpack-zip":
		kind = "dir"
		id := "a/pack.zip"
		sp.Params["storage"] = root + "/dst"
		sp.Params["identifier"] = id
		sp.Params["version"] = "1.0.0"
		zipPath := root + "/dst/" + updater.GetVersionedPath(id, "1.0.0")
		sp.Dest = strings.TrimSuffix(zipPath, ".zip")
		tmpdirs = append(tmpdirs, root+"/dst/tmp")
		_ = os.MkdirAll(filepath.Dir(zipPath), 0o755)
		r := rand.New(rand.NewSource(s.Seed + 99))
		entries := []zipEntry{}
		nfiles := 2 + r.Intn(4)
		cid := 1
		addFile := func(name string, size int, mode os.FileMode) {
			d := pattern(s.Seed, cid, size)
			put(cid, d)
			entries = append(entries, zipEntry{name: name, mode: mode, data: d, cid: cid})
			cid++
		}
		addFile("readme.txt", s.NewLen, 0o644)
		entries = append(entries, zipEntry{name: "sub/", mode: 0o755, dir: true})
		for i := 0; i < nfiles; i++ {
			sz := []int{0, 1, 100, 5000, 70000}[r.Intn(5)]
			mode := []os.FileMode{0o644, 0o755, 0o600}[r.Intn(3)]
			addFile(fmt.Sprintf("sub/f%d.dat", i), sz, mode)
		}
		if s.Var == "deep" {
			entries = append(entries, zipEntry{name: "sub/deep/", mode: 0o755, dir: true})
			addFile("sub/deep/x.bin", 3000, 0o644)
		}
		var buf bytes.Buffer
		zw := zip.NewWriter(&buf)
		var tree []string
		var members []string
		// the member that is made short / declared corrupt
		target := -1
		switch s.Fail {
		case "short-member-first":
			target = 0
		case "short-member", "corrupt":
			for ei, e := range entries {
				if !e.dir && (len(e.data) > 1 || s.Fail == "corrupt") {
					target = ei
				}
			}
		}
		if strings.HasPrefix(s.Fail, "short-member") && (target < 0 || len(entries[target].data) < 2) {
			return nil, fmt.Errorf("unpack-zip: no member that can be made short")
		}
		for ei, e := range entries {
			h := &zip.FileHeader{Name: e.name, Method: zip.Deflate}
			h.SetMode(e.mode)
			if e.dir {
				h.SetMode(e.mode | os.ModeDir)
				h.Method = zip.Store
			}
			if ei == target && strings.HasPrefix(s.Fail, "short-member") {
				// a member whose header announces more bytes than the archive holds for it (stored, so the reader
				// simply runs out of data): archive/zip reports io.ErrUnexpectedEOF after the bytes that are there
				h.Method = zip.Store
				h.UncompressedSize64 = uint64(len(e.data))
				h.CompressedSize64 = uint64(len(e.data) / 2)
				h.CRC32 = crc32.ChecksumIEEE(e.data)
				w, e2 := zw.CreateRaw(h)
				if e2 != nil {
					return nil, e2
				}
				_, _ = w.Write(e.data[:len(e.data)/2])
				tree = append(tree, e.name+"|f,"+(&canon{table: table}).content(e.data))
				continue
			}
			w, e2 := zw.CreateHeader(h)
			if e2 != nil {
				return nil, e2
			}
			if !e.dir {
				_, _ = w.Write(e.data)
				tree = append(tree, e.name+"|f,"+(&canon{table: table}).content(e.data))
			} else {
				tree = append(tree, strings.TrimSuffix(e.name, "/")+"|d")
			}
		}
		_ = zw.Close()
		zb := buf.Bytes()
		if s.Fail == "corrupt" {
			// flip a byte inside the compressed data of the last file: CRC / flate error while extracting
			if i := bytes.LastIndex(zb, []byte("PK\x01\x02")); i > 40 {
				zb[i-20] ^= 0x5a
			}
		}
		if s.Fail == "truncated-zip" {
			zb = zb[:len(zb)/2] // no central directory: zip.OpenReader fails
		}
		// what archive/zip makes of the archive as it is now (the model's input): does it open, and per file member
		// how many bytes its reader delivers and whether it ends with an error
		opens := 1
		members = members[:0]
		if zr, e := zip.NewReader(bytes.NewReader(zb), int64(len(zb))); e != nil {
			opens = 0
		} else {
			for _, zf := range zr.File {
				if zf.FileInfo().IsDir() {
					continue
				}
				n, merr := int64(0), 1
				if rc, e := zf.Open(); e == nil {
					var ce error
					n, ce = io.Copy(io.Discard, rc)
					_ = rc.Close()
					if ce == nil {
						merr = 0
					}
				}
				members = append(members, fmt.Sprintf("%d:%d", n, merr))
			}
		}
		if s.Old != "absent" {
			opens = 0 // the destination exists (unpacked already, or blocked by a file): the archive is not even opened
		}
		b.upLine = fmt.Sprintf("unpack kind=zip opens=%d members=%s", opens, strings.Join(members, ","))
		if err = os.WriteFile(zipPath, zb, 0o644); err != nil {
			return nil, err
		}
		sort.Strings(tree)
		newObs = "d{" + strings.Join(tree, ";") + "}"
		switch s.Old {
		case "absent":
		case "dir":
			// already unpacked (complete): the operation must leave it alone
			for _, e := range entries {
				p := filepath.Join(sp.Dest, e.name)
				if e.dir {
					_ = os.MkdirAll(p, 0o755)
				} else {
					_ = os.MkdirAll(filepath.Dir(p), 0o755)
					_ = os.WriteFile(p, e.data, e.mode)
					_ = os.Chmod(p, e.mode)
				}
			}
			oldObs = newObs
		case "file":
			_ = os.WriteFile(sp.Dest, table[0][:0], 0o644)
			oldObs = "f,-"
		default:
			return nil, fmt.Errorf("unpack-zip: unknown old state %q", s.Old)
		}
	default:
		return nil, fmt.Errorf("unknown writer %q", s.Writer)
	}
	if err != nil {
		return nil, err
	}
	for i, t := range table {
		if err := os.WriteFile(filepath.Join(meta, fmt.Sprintf("c%d", i)), t, 0o644); err != nil {
			return nil, err
		}
	}
	// name the two allowed states with the same canonicalisation the observations use (equal contents share the
	// lowest content id)
	nameIt := &canon{table: table}
	if strings.HasPrefix(oldObs, "f,") && (s.Old == "file" || s.Old == "file400") && s.Writer != "unpack-zip" {
		oldObs = "f," + nameIt.content(table[0])
	}
	if strings.HasPrefix(newObs, "f,") && !newIsSig {
		newObs = "f," + nameIt.content(table[1])
	}
	if s.Old == "dir" {
		kind = "dir"
	}
	sp.TmpNames = []string{"." + filepath.Base(sp.Dest)}
	for _, x := range extraTmp {
		if x != sp.TmpNames[0] {
			sp.TmpNames = append(sp.TmpNames, x)
		}
	}
	for _, a := range also {
		sp.TmpNames = append(sp.TmpNames, "."+filepath.Base(a))
	}
	sp.OldObs, sp.NewObs = oldObs, newObs
	sp.Readers = 2
	if s.K > 0 {
		sp.Readers = 1
	}
	b.spec = sp
	b.oldObs, b.newObs = oldObs, newObs
	cx := newCanon(sp)
	var td []string
	for _, d := range tmpdirs {
		td = append(td, cx.path(d))
	}
	var al []string
	for _, a := range also {
		al = append(al, cx.path(a))
	}
	b.destLine = fmt.Sprintf("dest %s kind=%s old=%s new=%s tmpdirs=%s tmpname=%s also=%s", cx.path(sp.Dest), kind, oldObs, newObs,
		strings.Join(td, ","), strings.Join(sp.TmpNames, ","), strings.Join(al, ","))
	b.specPath = filepath.Join(meta, "spec.json")
	js, _ := json.Marshal(sp)
	if err := os.WriteFile(b.specPath, js, 0o644); err != nil {
		return nil, err
	}
	return b, nil
}

func (b *built) cleanup() {
	for _, d := range b.dirs {
		_ = os.RemoveAll(d)
	}
}

// runOut is one executed (traced, possibly killed) run.
type runOut struct {
	res      *TraceResult
	big      *bigOut // untraced big-member run (bigzip.go)
	two      *twoOut // untraced two-writers run (twowriters.go)
	destLine string
	dlLine   string
	upLine   string
	progLine string
	oldObs   string
	newObs   string
	err      string
}

// execute builds the scenario, runs the tracer process on it and removes the sandbox.
func execute(s scn, base string) *runOut {
	if s.Writer == "unpack-zip-big" {
		return executeBig(s)
	}
	if isTwo(s.Writer) {
		return executeTwo(s)
	}
	b, err := build(s, base)
	if b != nil {
		defer b.cleanup()
	}
	if err != nil {
		return &runOut{err: "build: " + err.Error()}
	}
	self, _ := os.Executable()
	if s.Pre > 0 {
		// history: an earlier, interrupted run of the same operation on the same sandbox
		pre := *b.spec
		pre.KillAt, pre.Readers = s.Pre, 0
		pp := filepath.Join(b.spec.Meta, "spec-pre.json")
		js, _ := json.Marshal(&pre)
		if err := os.WriteFile(pp, js, 0o644); err != nil {
			return &runOut{err: "pre-run spec: " + err.Error()}
		}
		if out, err := exec.Command(self, "__trace", pp).CombinedOutput(); err != nil {
			return &runOut{err: fmt.Sprintf("pre-run tracer: %v %s", err, strings.TrimSpace(string(out)))}
		}
	}
	cmd := exec.Command(self, "__trace", b.specPath)
	var stderr bytes.Buffer
	cmd.Stderr = &stderr
	out, err := cmd.Output()
	if err != nil {
		return &runOut{err: fmt.Sprintf("tracer: %v %s", err, strings.TrimSpace(stderr.String()))}
	}
	tr := &TraceResult{}
	if err := json.Unmarshal(out, tr); err != nil {
		return &runOut{err: "tracer output: " + err.Error()}
	}
	ro := &runOut{res: tr, destLine: b.destLine, dlLine: b.dlLine, upLine: b.upLine, progLine: b.progLine, oldObs: b.oldObs, newObs: b.newObs}
	if tr.Error != "" {
		ro.err = "trace: " + tr.Error
	}
	return ro
}
