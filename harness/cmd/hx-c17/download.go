// Download scenarios: the behaviour of the update server and of the connection, per attempt ("plan"), shared by
// the harness (which states it to the Lean model as `Wire`s) and the writer process (whose in-process HTTP server
// plays it, with hijacked connections for everything net/http's server would not produce itself).
package main

import (
	"bytes"
	"compress/gzip"
	"context"
	"fmt"
	"io"
	"net"
	"net/http"
	"strconv"
	"strings"
	"sync"
	"sync/atomic"
	"time"
)

// srvStep is the answer to one attempt.
//
//	ok                      200, Content-Length, complete body (net/http's own server)
//	len-cut@P  len-rst@P    Content-Length: N, P body bytes, then orderly close / reset
//	len-short               Content-Length: N, N body bytes and 100 more (the announced message is complete)
//	len-long                Content-Length: N+100, N body bytes, orderly close
//	close-full              no Content-Length, no chunking ("Connection: close"), N bytes, orderly close
//	close-cut@P close-rst@P the same with P bytes, orderly close / reset
//	http10-cut@P            HTTP/1.0 status line, no Content-Length, P bytes, orderly close
//	chunked-full            Transfer-Encoding: chunked, N bytes, terminating chunk
//	chunked-term@P          chunked, P bytes, terminating chunk (a complete message that is not the resource)
//	chunked-cut@P chunked-rst@P   chunked, P bytes, no terminating chunk, orderly close / reset
//	gzip-full gzip-cut      Content-Encoding: gzip with Content-Length of the compressed body; complete / first half
//	st<code>                that status with a small body (206: the first half of the resource with Content-Range)
//	st302-ok                302 to another path that answers like `ok`
//	refused                 the connection is closed without any response
type srvStep struct {
	kind string
	pos  int // P resolved against the length of the resource
}

func parsePlan(plan string, n int) ([]srvStep, error) {
	var out []srvStep
	for _, tok := range strings.Split(plan, "+") {
		st := srvStep{kind: tok}
		if i := strings.IndexByte(tok, '@'); i >= 0 {
			st.kind = tok[:i]
			switch p := tok[i+1:]; p {
			case "half":
				st.pos = n / 2
			case "last":
				st.pos = n - 1
			default:
				v, err := strconv.Atoi(p)
				if err != nil {
					return nil, fmt.Errorf("bad position in plan step %q", tok)
				}
				st.pos = v
			}
			if st.pos < 0 {
				st.pos = 0
			}
			if st.pos > n {
				st.pos = n
			}
		}
		switch st.kind {
		case "ok", "len-short", "len-long", "close-full", "chunked-full", "gzip-full", "gzip-cut", "refused", "st302-ok":
		case "len-cut", "len-rst", "close-cut", "close-rst", "http10-cut", "chunked-term", "chunked-cut", "chunked-rst":
			if !strings.Contains(tok, "@") {
				return nil, fmt.Errorf("plan step %q needs a position", tok)
			}
		default:
			if !strings.HasPrefix(st.kind, "st") {
				return nil, fmt.Errorf("unknown plan step %q", tok)
			}
			if _, err := strconv.Atoi(st.kind[2:]); err != nil {
				return nil, fmt.Errorf("unknown plan step %q", tok)
			}
		}
		out = append(out, st)
	}
	return out, nil
}

const garbageLen = 100

func gzipBytes(b []byte) []byte {
	var buf bytes.Buffer
	zw, _ := gzip.NewWriterLevel(&buf, gzip.BestSpeed)
	_, _ = zw.Write(b)
	_ = zw.Close()
	return buf.Bytes()
}

func statusBody(code int) string { return fmt.Sprintf("status %d\n", code) }

// wire is the model's description of what reaches the client for this step:
// <connects>:<status>:<framing>:<gzip>:<arrived>:<end>:<plain>:<gzipOk>:<digestOk>. `body` is the resource (needed
// for gzip); `tampered`: the server sends other bytes than the signed ones. digestOk: the bytes the client gets to
// write are exactly the signed resource.
func (st srvStep) wire(body []byte, tampered bool) string {
	n := len(body)
	w := func(status int, framing string, gz int, arrived int, end string, plain int, gzok int) string {
		dg := 0
		switch st.kind {
		case "ok", "st302-ok", "len-short", "close-full", "chunked-full", "gzip-full":
			if !tampered {
				dg = 1
			}
		}
		if (st.kind == "len-cut" || st.kind == "len-rst" || st.kind == "close-cut" || st.kind == "close-rst" || st.kind == "http10-cut" ||
			st.kind == "chunked-term" || st.kind == "chunked-cut" || st.kind == "chunked-rst") && st.pos == n && !tampered {
			dg = 1 // "cut" after the last byte
		}
		return fmt.Sprintf("1:%d:%s:%d:%d:%s:%d:%d:%d", status, framing, gz, arrived, end, plain, gzok, dg)
	}
	switch st.kind {
	case "ok", "st302-ok":
		return w(200, fmt.Sprintf("len%d", n), 0, n, "fin", 0, 1)
	case "len-cut":
		return w(200, fmt.Sprintf("len%d", n), 0, st.pos, "fin", 0, 1)
	case "len-rst":
		return w(200, fmt.Sprintf("len%d", n), 0, st.pos, "rst", 0, 1)
	case "len-short":
		return w(200, fmt.Sprintf("len%d", n), 0, n+garbageLen, "fin", 0, 1)
	case "len-long":
		return w(200, fmt.Sprintf("len%d", n+garbageLen), 0, n, "fin", 0, 1)
	case "close-full":
		return w(200, "close", 0, n, "fin", 0, 1)
	case "close-cut", "http10-cut":
		return w(200, "close", 0, st.pos, "fin", 0, 1)
	case "close-rst":
		return w(200, "close", 0, st.pos, "rst", 0, 1)
	case "chunked-full":
		return w(200, "chunked", 0, n, "term", 0, 1)
	case "chunked-term":
		return w(200, "chunked", 0, st.pos, "term", 0, 1)
	case "chunked-cut":
		return w(200, "chunked", 0, st.pos, "fin", 0, 1)
	case "chunked-rst":
		return w(200, "chunked", 0, st.pos, "rst", 0, 1)
	case "gzip-full":
		gz := gzipBytes(body)
		return w(200, fmt.Sprintf("len%d", len(gz)), 1, len(gz), "fin", n, 1)
	case "gzip-cut":
		gz := gzipBytes(body)
		return w(200, fmt.Sprintf("len%d", len(gz)), 1, len(gz)/2, "fin", gunzipPrefixLen(gz[:len(gz)/2]), 0)
	case "refused":
		return "0:0:close:0:0:fin:0:1:0"
	}
	code, _ := strconv.Atoi(st.kind[2:])
	if code == 206 {
		return w(206, fmt.Sprintf("len%d", n/2), 0, n/2, "fin", 0, 1)
	}
	l := len(statusBody(code))
	if code == 204 || code == 304 {
		l = 0
	}
	return w(code, fmt.Sprintf("len%d", l), 0, l, "fin", 0, 1)
}

// gunzipPrefixLen: how many bytes a gzip reader hands out for a truncated stream before it reports the error.
func gunzipPrefixLen(gz []byte) int {
	zr, err := gzip.NewReader(bytes.NewReader(gz))
	if err != nil {
		return 0
	}
	n, _ := io.Copy(io.Discard, zr)
	return int(n)
}

func planWires(plan string, body []byte, tampered bool) (string, error) {
	steps, err := parsePlan(plan, len(body))
	if err != nil {
		return "", err
	}
	var ws []string
	for _, st := range steps {
		ws = append(ws, st.wire(body, tampered))
	}
	return strings.Join(ws, ";"), nil
}

// ---- the writer's side: the server and the observing transport ----------------------------------------------------

// dlServer plays a plan. Every request for the resource that is not the follow-up of a redirect is one attempt.
type dlServer struct {
	steps    []srvStep
	body     []byte // what the server sends as the resource
	sigBody  []byte
	sigCode  int // status of the signature request when there is no signature (404)
	attempts int32
	obs      *dlObserver
}

func (s *dlServer) ServeHTTP(w http.ResponseWriter, r *http.Request) {
	if strings.HasSuffix(r.URL.Path, ".sig") {
		atomic.AddInt32(&s.obs.sigReqs, 1)
		if s.sigBody == nil {
			http.NotFound(w, r)
			return
		}
		w.Header().Set("Content-Length", strconv.Itoa(len(s.sigBody)))
		_, _ = w.Write(s.sigBody)
		return
	}
	sendOK := func() {
		w.Header().Set("Content-Length", strconv.Itoa(len(s.body)))
		_, _ = w.Write(s.body)
	}
	if strings.HasPrefix(r.URL.Path, "/redir/") {
		sendOK()
		return
	}
	i := int(atomic.AddInt32(&s.attempts, 1)) - 1
	if i >= len(s.steps) {
		// more attempts than planned: the harness' cancellation did not work — answer like a dead server
		http.Error(w, "unplanned attempt", http.StatusServiceUnavailable)
		return
	}
	st := s.steps[i]
	n := len(s.body)
	switch st.kind {
	case "ok":
		sendOK()
		return
	case "st302-ok":
		http.Redirect(w, r, "/redir"+r.URL.Path, http.StatusFound)
		return
	}
	if strings.HasPrefix(st.kind, "st") {
		code, _ := strconv.Atoi(st.kind[2:])
		switch code {
		case 206:
			w.Header().Set("Content-Range", fmt.Sprintf("bytes 0-%d/%d", n/2-1, n))
			w.Header().Set("Content-Length", strconv.Itoa(n/2))
			w.WriteHeader(code)
			_, _ = w.Write(s.body[:n/2])
		case 204, 304:
			w.WriteHeader(code)
		default:
			w.Header().Set("Content-Type", "text/plain")
			w.Header().Set("Content-Length", strconv.Itoa(len(statusBody(code))))
			w.WriteHeader(code)
			_, _ = io.WriteString(w, statusBody(code))
		}
		return
	}
	hj, ok := w.(http.Hijacker)
	if !ok {
		http.Error(w, "cannot hijack", 500)
		return
	}
	conn, brw, err := hj.Hijack()
	if err != nil {
		return
	}
	bw := brw.Writer
	finish := func(reset bool, sent int) {
		_ = bw.Flush()
		if reset {
			// the client must have taken everything that was sent before the reset overtakes it
			deadline := time.Now().Add(5 * time.Second)
			for time.Now().Before(deadline) && !(atomic.LoadInt32(&s.obs.headNow) == 1 && atomic.LoadInt64(&s.obs.curRead) >= int64(sent)) {
				time.Sleep(200 * time.Microsecond)
			}
			if tc, ok := conn.(*net.TCPConn); ok {
				_ = tc.SetLinger(0)
			}
		}
		_ = conn.Close()
	}
	head := func(proto string, hdr ...string) {
		_, _ = bw.WriteString(proto + " 200 OK\r\nContent-Type: application/octet-stream\r\n")
		for _, h := range hdr {
			_, _ = bw.WriteString(h + "\r\n")
		}
		_, _ = bw.WriteString("\r\n")
	}
	writeChunked := func(b []byte) {
		for len(b) > 0 {
			c := b
			if len(c) > 8192 {
				c = c[:8192]
			}
			_, _ = fmt.Fprintf(bw, "%x\r\n", len(c))
			_, _ = bw.Write(c)
			_, _ = bw.WriteString("\r\n")
			b = b[len(c):]
		}
	}
	switch st.kind {
	case "refused":
		finish(false, 0)
	case "len-cut", "len-rst":
		head("HTTP/1.1", "Content-Length: "+strconv.Itoa(n))
		_, _ = bw.Write(s.body[:st.pos])
		finish(st.kind == "len-rst", st.pos)
	case "len-short":
		head("HTTP/1.1", "Content-Length: "+strconv.Itoa(n), "Connection: close")
		_, _ = bw.Write(s.body)
		_, _ = bw.Write(bytes.Repeat([]byte{0xEE}, garbageLen))
		finish(false, 0)
	case "len-long":
		head("HTTP/1.1", "Content-Length: "+strconv.Itoa(n+garbageLen))
		_, _ = bw.Write(s.body)
		finish(false, 0)
	case "close-full":
		head("HTTP/1.1", "Connection: close")
		_, _ = bw.Write(s.body)
		finish(false, 0)
	case "close-cut", "close-rst":
		head("HTTP/1.1", "Connection: close")
		_, _ = bw.Write(s.body[:st.pos])
		finish(st.kind == "close-rst", st.pos)
	case "http10-cut":
		head("HTTP/1.0")
		_, _ = bw.Write(s.body[:st.pos])
		finish(false, 0)
	case "chunked-full":
		head("HTTP/1.1", "Transfer-Encoding: chunked")
		writeChunked(s.body)
		_, _ = bw.WriteString("0\r\n\r\n")
		finish(false, 0)
	case "chunked-term":
		head("HTTP/1.1", "Transfer-Encoding: chunked")
		writeChunked(s.body[:st.pos])
		_, _ = bw.WriteString("0\r\n\r\n")
		finish(false, 0)
	case "chunked-cut", "chunked-rst":
		head("HTTP/1.1", "Transfer-Encoding: chunked")
		writeChunked(s.body[:st.pos])
		finish(st.kind == "chunked-rst", st.pos)
	case "gzip-full", "gzip-cut":
		gz := gzipBytes(s.body)
		head("HTTP/1.1", "Content-Encoding: gzip", "Content-Length: "+strconv.Itoa(len(gz)))
		if st.kind == "gzip-cut" {
			gz = gz[:len(gz)/2]
		}
		_, _ = bw.Write(gz)
		finish(false, 0)
	default:
		finish(false, 0)
	}
}

// dlObserver wraps http.DefaultTransport (fetchFile builds its own http.Client, which uses it): it only looks.
// Per response for the resource that is not a followed redirect it records the status, resp.ContentLength, the
// bytes read from the body and whether the body ended with an error; after the last planned attempt (its body
// closed, or its request failed) it cancels the context of DownloadUpdates so that no further attempt is made.
type dlObserver struct {
	inner     http.RoundTripper
	planned   int
	cancel    context.CancelFunc
	cancelSig bool // cancel when the signature response has been consumed (attempt refused before the download)
	mu        sync.Mutex
	lines     []string
	finals    int
	headNow   int32 // the head of the current response for the resource has reached fetchFile
	curRead   int64 // body bytes the client has read of the current response
	sigReqs   int32
}

type obsBody struct {
	io.ReadCloser
	o      *dlObserver
	status int
	cl     int64
	read   int64
	err    bool
	final  bool
	sig    bool
	closed bool
}

func (b *obsBody) Read(p []byte) (int, error) {
	n, err := b.ReadCloser.Read(p)
	b.read += int64(n)
	if !b.sig {
		atomic.AddInt64(&b.o.curRead, int64(n))
	}
	if err != nil && err != io.EOF {
		b.err = true
	}
	return n, err
}

func (b *obsBody) Close() error {
	err := b.ReadCloser.Close()
	if b.closed {
		return err
	}
	b.closed = true
	if b.sig {
		if b.o.cancelSig && b.o.cancel != nil {
			b.o.cancel()
		}
		return err
	}
	if b.final {
		e := 0
		if b.err {
			e = 1
		}
		b.o.done(fmt.Sprintf("status=%d cl=%d read=%d err=%d", b.status, b.cl, b.read, e))
	}
	return err
}

func (o *dlObserver) done(line string) {
	o.mu.Lock()
	o.lines = append(o.lines, line)
	o.finals++
	last := o.finals >= o.planned
	o.mu.Unlock()
	if last && o.cancel != nil {
		o.cancel()
	}
}

func (o *dlObserver) RoundTrip(req *http.Request) (*http.Response, error) {
	sig := strings.HasSuffix(req.URL.Path, ".sig")
	if !sig {
		atomic.StoreInt32(&o.headNow, 0)
		atomic.StoreInt64(&o.curRead, 0)
	}
	resp, err := o.inner.RoundTrip(req)
	if err != nil {
		if !sig {
			o.done("error")
		} else if o.cancelSig && o.cancel != nil {
			o.cancel()
		}
		return resp, err
	}
	final := true
	if resp.StatusCode >= 300 && resp.StatusCode < 400 && resp.Header.Get("Location") != "" {
		final = false // http.Client follows it
	}
	resp.Body = &obsBody{ReadCloser: resp.Body, o: o, status: resp.StatusCode, cl: resp.ContentLength, final: final, sig: sig}
	if !sig && final {
		atomic.StoreInt32(&o.headNow, 1)
	}
	return resp, nil
}

func (o *dlObserver) report() string {
	o.mu.Lock()
	defer o.mu.Unlock()
	return fmt.Sprintf("http: %s\nsigreqs: %d", strings.Join(o.lines, ";"), atomic.LoadInt32(&o.sigReqs))
}
