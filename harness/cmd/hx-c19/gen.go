package main

import (
	"fmt"
	"math/rand"
	"regexp"
	"strconv"
	"strings"

	semver "github.com/hashicorp/go-version"

	"verifharness/hxlib"
)

const rule = "cases are histories of updater API calls (AddResource, SelectVersions, GetFile, Blacklist, Purge(keep), " +
	"File.Blacklist, File.Unpack, AnyVersionAvailable, GetSelectedVersions, GetVersion, registry flags, files put on disk; implementation only: files deleted by the environment before a purge) on a fresh ResourceRegistry with real files, every call " +
	"followed by a dump of all resources (version list in order with flags, selected, active, index) and of the storage " +
	"directory, compared line by line with the Lean model; generators: random histories, update life cycles " +
	"(scan, index, select, get, newer versions, purge), release moves (the current release announced through AddResource / " +
	"AddResources / Resource.AddVersion moves between already known versions, back to an older one and forward again, with and " +
	"without files, blacklisted and pre-release entries in between, failed announcements, each move followed by " +
	"SelectVersions / GetFile / Purge; the monitor judges the selection against the version announced last, which it " +
	"records from the calls, not against the CurrentRelease flags), selection tables (one version set under all 8 registry-flag x 3 index " +
	"combinations), purge grids (3..16 versions x keep in -3..100, with unsorted tails), blacklist runs; versions from a small " +
	"pool (stable, pre-release, 0.0.0 and its pre-releases) in canonical and non-canonical spelling, malformed versions; " +
	"file-name round trips over the documented format and near-misses; version ordering against go-version; a malformed op " +
	"stream. A history is non-trivial if it has at least 3 versions and performs a selection or purge; file-name and order " +
	"cases if they contain a version match / a pre-release; distinct by the hash of the op lines."

var modelSyntax = regexp.MustCompile(`^v?[0-9]+(\.[0-9]+){0,2}(-?[a-z]+)?$`)
var digitsRe = regexp.MustCompile(`[0-9]+`)

// inModel reports whether the model is defined on this version string: the restricted syntax, or rejected by go-version.
func inModel(s string) bool {
	_, err := semver.NewVersion(s)
	if modelSyntax.MatchString(s) {
		// the model rejects segments beyond int64 like strconv.ParseInt does
		for _, d := range digitsRe.FindAllString(s, -1) {
			if _, e := strconv.ParseInt(d, 10, 64); e != nil {
				return err != nil
			}
		}
		return err == nil
	}
	return err != nil
}

func encTok(s string) string {
	if s == "" {
		return "x:-"
	}
	for i := 0; i < len(s); i++ {
		if s[i] <= ' ' || s[i] > '~' || s[i] == '|' || s[i] == ',' || s[i] == '=' {
			return "x:" + hxlib.Hex([]byte(s))
		}
	}
	if strings.HasPrefix(s, "x:") || strings.HasPrefix(s, "#") {
		return "x:" + hxlib.Hex([]byte(s))
	}
	return s
}

func pick[T any](r *rand.Rand, xs ...T) T { return xs[r.Intn(len(xs))] }

func bit(r *rand.Rand, pct int) string {
	if r.Intn(100) < pct {
		return "1"
	}
	return "0"
}

var pres = []string{"", "", "", "", "", "", "", "", "beta", "alpha", "b", "rc", "staging", "a"}

// canonVer draws a canonical version number from a small pool so that collisions and neighbours are frequent.
func canonVer(r *rand.Rand) string {
	switch x := r.Intn(100); {
	case x < 8:
		return "0.0.0"
	case x < 11:
		return "0.0.0-" + pick(r, "alpha", "beta", "a")
	}
	v := fmt.Sprintf("%d.%d.%d", pick(r, 0, 0, 1, 1, 1, 2, 3, 10), r.Intn(4), r.Intn(5))
	if r.Intn(40) == 0 {
		v = fmt.Sprintf("%d.%d.%d", pick(r, 1, 2147483648, 9223372036854775807), pick(r, 0, 99, 4294967295), r.Intn(3))
	}
	if p := pick(r, pres...); p != "" {
		v += "-" + p
	}
	return v
}

// spell returns the canonical number or, sometimes, another spelling go-version accepts for it.
func spell(r *rand.Rand, c string) string {
	if r.Intn(100) < 85 {
		return c
	}
	switch r.Intn(6) {
	case 0:
		return "v" + c
	case 1:
		return "0" + c
	case 2:
		if c == "0.0.0" {
			return "0"
		}
		if i := strings.Index(c, "-"); i < 0 && strings.HasSuffix(c, ".0") {
			return strings.TrimSuffix(c, ".0")
		}
	case 3:
		if i := strings.Index(c, "-"); i > 0 {
			return c[:i] + c[i+1:]
		}
	case 4:
		parts := strings.SplitN(c, ".", 3)
		return parts[0] + ".0" + parts[1] + "." + parts[2]
	}
	return c
}

var malformed = []string{"", "abc", "1..2", ".1.2", "1.2.3.", "v", "1.2.3 4", "-1.2.3", "1.2.3-\xc3\x9f", "99999999999999999999.0.0",
	"1.99999999999999999999", "1,2,3", "1.2.3-", "_v1-2-3"}
var outOfModel = []string{"1.2.3-rc.1", "1.2.3+build", "1.2.3.4", "1.2.3-BETA", "1.2.3-beta2", "1.2.3-2", "1.2.3~x", "1.2.3-a-b", "2.0.0-rc.2+m"}

var idPool = []string{"app.exe", "core/lib.zip", "data", "pkg/sub/tool.tar.gz", "intel/geo_v2.mmdb", "keys/trust.sig", "cfg/.hidden", "x_v/y-1.2.json"}

type hist struct {
	r           *hxlib.Run
	lines       []string
	known       map[string][]string // id -> canonical numbers added successfully (in order of first addition)
	ids         []string
	noModel     bool
	inModelOnly bool // do not draw version strings outside the model's syntax
	selOps      int
	nVer        int
	created     map[string]bool // resources the registry has (any AddResource call creates one, also a failing one)
}

func newHist(r *hxlib.Run, nIDs int) *hist {
	h := &hist{r: r, known: map[string][]string{}, created: map[string]bool{}}
	perm := r.Rng.Perm(len(idPool))
	for i := 0; i < nIDs; i++ {
		h.ids = append(h.ids, idPool[perm[i]])
	}
	return h
}

func (h *hist) op(format string, a ...any) {
	h.lines = append(h.lines, fmt.Sprintf(format, a...), "dump")
}

func (h *hist) id() string { return h.ids[h.r.Rng.Intn(len(h.ids))] }

func (h *hist) flags(o, d, p string) {
	h.op("flags %s %s %s", o, d, p)
	h.r.Count("op:flags")
}

func (h *hist) randFlags() {
	h.flags(bit(h.r.Rng, 50), bit(h.r.Rng, 30), bit(h.r.Rng, 40))
}

func (h *hist) add(id, raw, a, c, p, idx string) {
	if !inModel(raw) {
		h.noModel = true
		h.r.Count("version:outside-model")
	}
	h.op("add %s %s %s %s %s %s", id, encTok(raw), a, c, p, idx)
	h.r.Count("op:add")
	h.created[id] = true
	if c == "1" {
		h.r.Count("announce:AddResource")
	}
	if sv, err := semver.NewVersion(raw); err == nil {
		n := sv.String()
		if !in(n, h.known[id]) {
			h.known[id] = append(h.known[id], n)
			h.nVer++
		}
		switch {
		case n == "0.0.0":
			h.r.Count("version:dev")
		case sv.Prerelease() != "":
			h.r.Count("version:pre-release")
		default:
			h.r.Count("version:stable")
		}
		if n != raw {
			h.r.Count("version:non-canonical-spelling")
		}
	} else {
		h.r.Count("version:malformed")
	}
}

// note registers a version string the implementation will accept (for later ops that name known versions)
func (h *hist) note(id, raw string) {
	if !inModel(raw) {
		h.noModel = true
		h.r.Count("version:outside-model")
	}
	if sv, err := semver.NewVersion(raw); err == nil {
		if n := sv.String(); !in(n, h.known[id]) {
			h.known[id] = append(h.known[id], n)
			h.nVer++
		}
	}
}

// addv: Resource.AddVersion directly (no index change); refused for a resource the registry does not have
func (h *hist) addv(id, raw, a, c, p string) {
	if h.created[id] {
		h.note(id, raw)
	}
	h.op("addv %s %s %s %s %s", id, encTok(raw), a, c, p)
	h.r.Count("op:addv")
	if c == "1" {
		h.r.Count("announce:AddVersion")
	}
}

// addmany: AddResources with one index and one set of flags for several resources (what loading an index file does)
func (h *hist) addmany(items map[string]string, a, c, p, idx string) {
	line := fmt.Sprintf("addmany %s %s %s %s", a, c, p, idx)
	for _, id := range h.ids {
		if raw, ok := items[id]; ok {
			h.note(id, raw)
			h.created[id] = true
			line += " " + encTok(id) + "=" + encTok(raw)
		}
	}
	h.op("%s", line)
	h.r.Count("op:addmany")
	if c == "1" {
		h.r.Count("announce:AddResources")
	}
}

func (h *hist) randIdx() string { return pick(h.r.Rng, "nil", "auto", "auto", "noauto") }

func (h *hist) randAdd(id string) {
	rng := h.r.Rng
	raw := spell(rng, canonVer(rng))
	switch x := rng.Intn(100); {
	case x < 4:
		raw = pick(rng, malformed...)
	case x < 6 && !h.inModelOnly:
		raw = pick(rng, outOfModel...)
	case x < 16 && len(h.known[id]) > 0:
		raw = pick(rng, h.known[id]...) // again, other flags
	case x < 26 && len(h.known[id]) > 0:
		// the current release moves to a version the resource already knows (older or newer than the previous one)
		h.announce(id, spell(rng, pick(rng, h.known[id]...)), bit(rng, 40), bit(rng, 5))
		return
	case x < 30:
		h.addv(id, raw, bit(rng, 65), bit(rng, 25), bit(rng, 10))
		return
	case x < 33:
		items := map[string]string{}
		for _, i := range h.ids {
			if rng.Intn(3) > 0 {
				items[i] = spell(rng, canonVer(rng))
				if len(h.known[i]) > 0 && rng.Intn(2) == 0 {
					items[i] = pick(rng, h.known[i]...)
				}
			}
		}
		if len(items) > 0 {
			h.addmany(items, bit(rng, 50), bit(rng, 50), bit(rng, 10), h.randIdx())
			return
		}
	}
	h.add(id, raw, bit(rng, 65), bit(rng, 12), bit(rng, 10), h.randIdx())
}

// announce makes raw the current release of id through one of the three API paths.
func (h *hist) announce(id, raw, a, p string) {
	rng := h.r.Rng
	idx := pick(rng, "auto", "auto", "noauto", "nil")
	switch x := rng.Intn(10); {
	case x < 5:
		h.add(id, raw, a, "1", p, idx)
	case x < 8:
		items := map[string]string{id: raw}
		for _, o := range h.ids {
			if o != id && len(h.known[o]) > 0 && rng.Intn(2) == 0 {
				items[o] = pick(rng, h.known[o]...)
			}
		}
		h.addmany(items, a, "1", p, idx)
	default:
		h.addv(id, raw, a, "1", p)
	}
}

func (h *hist) knownVer(id string) string {
	if len(h.known[id]) == 0 || h.r.Rng.Intn(100) < 6 {
		return pick(h.r.Rng, "9.9.9", "01.0.0", "1.0", "", "abc", canonVer(h.r.Rng))
	}
	return pick(h.r.Rng, h.known[id]...)
}

func (h *hist) selectOp() {
	h.op("select")
	h.selOps++
	h.r.Count("op:select")
}

func (h *hist) getfile(id string) {
	if len(h.known[id]) == 0 && in(id, h.ids) {
		// a resource without versions makes Resource.GetFile dereference a nil SelectedVersion; the property does
		// not speak about it (see notes) — ask for an unknown identifier instead
		id = "unknown/" + id
	}
	h.op("getfile %s", id)
	h.selOps++
	h.r.Count("op:getfile")
}

func (h *hist) blacklist(id, ver string) {
	h.op("blacklist %s %s", id, encTok(ver))
	h.r.Count("op:blacklist")
}

// File.Unpack of the file handed out last
func (h *hist) unpack(id string) {
	h.op("unpack %s", id)
	h.r.Count("op:unpack")
}

// File.Blacklist on the file handed out last
func (h *hist) fblacklist(id string) {
	h.op("fblacklist %s", id)
	h.r.Count("op:fblacklist")
}

func (h *hist) purge(k int) {
	h.op("purge %d", k)
	h.selOps++
	h.r.Count("op:purge")
	h.r.Count(fmt.Sprintf("purge-keep:%d", k))
}

func (h *hist) touch(id string) {
	if len(h.known[id]) == 0 {
		return
	}
	h.op("touch %s %s %s", id, pick(h.r.Rng, h.known[id]...), pick(h.r.Rng, "1", "2"))
	h.r.Count("op:touch")
}

func (h *hist) query() {
	switch x := h.r.Rng.Intn(5); {
	case x < 2:
		h.op("selected")
		h.r.Count("op:selected")
	case x == 2:
		h.op("anyavail %s", h.id())
		h.r.Count("op:anyavail")
	default:
		id := h.id()
		if h.r.Rng.Intn(10) == 0 {
			id = "unknown"
		}
		h.op("getversion %s", id)
		h.r.Count("op:getversion")
	}
}

func (h *hist) randOp() {
	rng := h.r.Rng
	id := h.id()
	switch x := rng.Intn(100); {
	case x < 40:
		h.randAdd(id)
	case x < 52:
		h.selectOp()
	case x < 63:
		h.getfile(id)
	case x < 69:
		h.blacklist(id, h.knownVer(id))
	case x < 71:
		h.fblacklist(id)
	case x < 81:
		h.purge(pick(rng, -1, 0, 1, 2, 2, 3, 4, 6))
	case x < 87:
		h.randFlags()
	case x < 90:
		h.touch(id)
	case x < 92:
		h.unpack(id)
	default:
		h.query()
	}
}

func (h *hist) emit(emit func(hxlib.Case), kind string) {
	h.r.Count(fmt.Sprintf("versions-per-case:%s", bucket(h.nVer)))
	emit(hxlib.Case{Lines: h.lines, Kind: kind, NoModel: h.noModel, NonTrivial: h.nVer >= 3 && h.selOps > 0})
}

func bucket(n int) string {
	switch {
	case n == 0:
		return "0"
	case n <= 2:
		return "1-2"
	case n <= 5:
		return "3-5"
	case n <= 9:
		return "6-9"
	case n <= 12:
		return "10-12"
	}
	return "13+"
}

// distinct canonical versions, newest last is not implied
func (h *hist) distinctVers(n int) []string {
	seen := map[string]bool{}
	out := []string{}
	for tries := 0; len(out) < n && tries < 20*n; tries++ {
		c := canonVer(h.r.Rng)
		if !seen[c] {
			seen[c] = true
			out = append(out, c)
		}
	}
	return out
}

func genRandomHistory(r *hxlib.Run, emit func(hxlib.Case)) {
	h := newHist(r, 1+r.Rng.Intn(2))
	if r.Rng.Intn(3) > 0 {
		h.randFlags()
	}
	n := 6 + r.Rng.Intn(34)
	for i := 0; i < n; i++ {
		h.randOp()
	}
	h.emit(emit, "random-history")
}

// one registry driven through many calls: state accumulated over several select/purge/blacklist rounds
func genLongHistory(r *hxlib.Run, emit func(hxlib.Case)) {
	h := newHist(r, 1+r.Rng.Intn(3))
	h.inModelOnly = r.Rng.Intn(8) > 0
	h.randFlags()
	n := 120 + r.Rng.Intn(200)
	for i := 0; i < n; i++ {
		h.randOp()
	}
	h.emit(emit, "long-history")
}

func genLifecycle(r *hxlib.Run, emit func(hxlib.Case)) {
	rng := r.Rng
	h := newHist(r, 1+rng.Intn(2))
	h.randFlags()
	for _, id := range h.ids {
		// storage scan: versions found on disk
		for _, v := range h.distinctVers(2 + rng.Intn(9)) {
			h.add(id, v, "1", "0", "0", "nil")
		}
		// index: the current release, maybe a pre-release channel on top
		if rng.Intn(4) > 0 {
			h.add(id, canonVer(rng), "0", "1", "0", pick(rng, "auto", "auto", "noauto"))
		}
		if rng.Intn(3) == 0 {
			h.add(id, canonVer(rng), "0", "1", "1", pick(rng, "auto", "noauto"))
		}
	}
	h.selectOp()
	for _, id := range h.ids {
		if rng.Intn(4) > 0 {
			h.getfile(id)
			if rng.Intn(3) == 0 {
				h.unpack(id)
			}
		}
	}
	if rng.Intn(2) == 0 {
		h.op("selected")
	}
	// an update arrives: newer versions are added (not yet re-selected)
	if rng.Intn(3) > 0 {
		for k := rng.Intn(4); k > 0; k-- {
			h.add(h.id(), fmt.Sprintf("%d.%d.%d", 3+rng.Intn(9), rng.Intn(3), rng.Intn(3)), bit(rng, 80), bit(rng, 30), "0", h.randIdx())
		}
		if rng.Intn(2) == 0 {
			h.selectOp()
		}
	}
	for _, id := range h.ids {
		if rng.Intn(3) == 0 {
			h.touch(id)
		}
	}
	h.purge(pick(rng, -1, 0, 1, 2, 3, 3, 4, 5))
	for k := rng.Intn(8); k > 0; k-- {
		h.randOp()
	}
	if rng.Intn(2) == 0 {
		h.purge(pick(rng, 0, 2, 3))
	}
	h.emit(emit, "lifecycle")
}

// The current release moves between versions the resource already knows: back to an older one (a pulled release, an
// index rollback) and forward again, with and without the files on disk, with blacklisted and pre-release entries in
// between, failed announcements, through every API path; each move is followed by SelectVersions / GetFile / Purge.
func genReleaseMoves(r *hxlib.Run, emit func(hxlib.Case)) {
	rng := r.Rng
	h := newHist(r, 1+rng.Intn(2))
	h.inModelOnly = true
	// mostly outside dev mode (the dev step would hide the current release); offline and online
	h.flags(bit(rng, 50), bit(rng, 8), bit(rng, 35))
	pool := map[string][]string{}
	for _, id := range h.ids {
		n := 3 + rng.Intn(5)
		allAvail := rng.Intn(3) == 0
		for len(pool[id]) < n {
			v := fmt.Sprintf("%d.%d.%d", 1+rng.Intn(2), rng.Intn(4), rng.Intn(3))
			if rng.Intn(6) == 0 {
				v += "-" + pick(rng, "beta", "rc", "alpha")
			}
			if !in(v, pool[id]) {
				pool[id] = append(pool[id], v)
			}
		}
		for _, v := range pool[id] {
			a := bit(rng, 75)
			if allAvail {
				a = "1"
			}
			h.add(id, v, a, "0", bit(rng, 10), pick(rng, "nil", "auto", "auto", "noauto"))
		}
		if rng.Intn(3) == 0 {
			h.add(id, "0.0.0", "1", "0", "0", "nil")
		}
	}
	older := func(a, b string) bool {
		return semver.Must(semver.NewVersion(a)).LessThan(semver.Must(semver.NewVersion(b)))
	}
	cur := map[string]string{}
	moves := 3 + rng.Intn(6)
	for m := 0; m < moves; m++ {
		id := h.id()
		// choose the direction of the move
		var cands []string
		back := rng.Intn(2) == 0
		for _, v := range pool[id] {
			if cur[id] == "" || (back && older(v, cur[id])) || (!back && older(cur[id], v)) {
				cands = append(cands, v)
			}
		}
		if len(cands) == 0 {
			cands = pool[id]
		}
		next := pick(rng, cands...)
		switch {
		case cur[id] == "":
			r.Count("release-move:first")
		case older(next, cur[id]):
			r.Count("release-move:back-to-known-older")
		case older(cur[id], next):
			r.Count("release-move:forward-to-known-newer")
		default:
			r.Count("release-move:same-again")
		}
		switch x := rng.Intn(20); {
		case x == 0:
			// the announcement fails: the property leaves open whether the previous current release stays
			h.add(id, pick(rng, malformed...), "0", "1", "0", "auto")
			r.Count("release-move:failed-announcement")
		case x == 1:
			// a brand-new current release
			next = fmt.Sprintf("%d.%d.%d", 1+rng.Intn(3), 4+rng.Intn(3), rng.Intn(3))
			pool[id] = append(pool[id], next)
			h.announce(id, next, bit(rng, 50), "0")
			cur[id] = next
			r.Count("release-move:new-version")
		default:
			h.announce(id, spell(rng, next), bit(rng, 30), bit(rng, 5))
			cur[id] = next
		}
		// something between the announcement and the selection
		switch rng.Intn(8) {
		case 0:
			h.blacklist(id, pick(rng, pool[id]...))
		case 1:
			h.blacklist(id, cur[id]) // the current release itself is not selectable any more
		case 2:
			h.flags(bit(rng, 50), bit(rng, 8), bit(rng, 35))
		case 3:
			h.add(id, pick(rng, pool[id]...), "1", "0", "0", h.randIdx()) // a file arrives
		}
		if rng.Intn(6) > 0 {
			h.selectOp()
		}
		if rng.Intn(3) == 0 {
			h.getfile(id)
		}
		if rng.Intn(4) == 0 {
			h.purge(pick(rng, 0, 1, 2, 2, 3))
		}
		if rng.Intn(6) == 0 {
			h.query()
		}
	}
	h.selectOp()
	for _, id := range h.ids {
		h.getfile(id)
	}
	h.purge(pick(rng, 0, 2, 3))
	h.selectOp()
	h.op("selected")
	h.emit(emit, "release-moves")
}

func genSelectTable(r *hxlib.Run, emit func(hxlib.Case)) {
	rng := r.Rng
	h := newHist(r, 1)
	id := h.ids[0]
	h.flags("1", "0", "1")
	vers := h.distinctVers(1 + rng.Intn(8))
	for _, v := range vers {
		h.add(id, spell(rng, v), bit(rng, 55), bit(rng, 15), bit(rng, 15), "auto")
	}
	// blacklist some (refused when it would be the last one)
	for _, v := range vers {
		if rng.Intn(100) < 25 {
			h.blacklist(id, v)
		}
	}
	for _, idx := range []string{"nil", "auto", "noauto"} {
		// re-adding a known version without flags only re-points the resource's index
		h.add(id, vers[0], "0", "0", "0", idx)
		for m := 0; m < 8; m++ {
			h.flags(strconv.Itoa(m&1), strconv.Itoa(m>>1&1), strconv.Itoa(m>>2&1))
			h.selectOp()
			r.Count("registry-flags:" + fmt.Sprintf("online=%d,dev=%d,pre=%d,idx=%s", m&1, m>>1&1, m>>2&1, idx))
		}
	}
	h.op("selected")
	h.emit(emit, "select-table")
}

func genPurgeGrid(r *hxlib.Run, emit func(hxlib.Case)) {
	rng := r.Rng
	h := newHist(r, 1)
	id := h.ids[0]
	h.randFlags()
	n := 3 + rng.Intn(14)
	for _, v := range h.distinctVers(n) {
		h.add(id, v, bit(rng, 90), bit(rng, 5), bit(rng, 10), h.randIdx())
		if rng.Intn(6) == 0 {
			h.touch(id)
		}
	}
	if rng.Intn(5) > 0 {
		h.selectOp()
	}
	if rng.Intn(3) > 0 {
		h.getfile(id)
		if rng.Intn(3) == 0 {
			h.unpack(id)
		}
	}
	if rng.Intn(3) == 0 {
		h.randFlags()
		h.selectOp()
	}
	// unsorted tail: versions that arrived after the last selection
	for k := rng.Intn(4); k > 0; k-- {
		h.add(id, canonVer(rng), bit(rng, 90), "0", "0", h.randIdx())
	}
	h.purge(pick(rng, -3, 0, 1, 2, 3, 4, 7, 100))
	if rng.Intn(3) == 0 {
		h.selectOp()
		h.getfile(id)
		h.purge(pick(rng, 0, 2, 3))
	}
	h.emit(emit, "purge-grid")
}

// Implementation only: the environment deletes files behind the updater's back (a file, signature or unpacked copy of an old
// version is gone although the version is listed as available), then Purge runs over them — the removal branches for
// files that do not exist. The monitor's purge clauses hold whatever the environment did to versions that are not required.
func genExternalDeletion(r *hxlib.Run, emit func(hxlib.Case)) {
	rng := r.Rng
	h := newHist(r, 1)
	h.inModelOnly = true
	id := h.ids[0]
	h.flags(bit(rng, 50), "0", bit(rng, 30))
	n := 5 + rng.Intn(8)
	var vers []string
	for i := 0; i < n; i++ {
		vers = append(vers, fmt.Sprintf("1.%d.0", i))
	}
	for _, k := range rng.Perm(n) {
		h.add(id, vers[k], "1", "0", "0", "nil")
		if rng.Intn(3) == 0 {
			h.op("touch %s %s %s", id, vers[k], pick(rng, "1", "2"))
		}
	}
	h.selectOp()
	h.getfile(id)
	// the newest version is selected and active and the newest stable one: delete files of older versions only
	for k := 0; k < n-1; k++ {
		if rng.Intn(3) == 0 {
			h.op("rm %s %s %s", id, vers[k], pick(rng, "0", "0", "1", "2"))
			r.Count("op:rm")
		}
	}
	h.purge(pick(rng, 0, 1, 2, 3))
	h.selectOp()
	h.op("anyavail %s", id)
	h.purge(pick(rng, 0, 2))
	h.noModel = true
	h.emit(emit, "external-deletion")
}

func genBlacklistRun(r *hxlib.Run, emit func(hxlib.Case)) {
	rng := r.Rng
	h := newHist(r, 1)
	id := h.ids[0]
	h.randFlags()
	vers := h.distinctVers(1 + rng.Intn(5))
	for _, v := range vers {
		h.add(id, v, bit(rng, 80), bit(rng, 15), "0", h.randIdx())
	}
	h.selectOp()
	// blacklist every version, some twice, in random order: the last one must be refused
	order := rng.Perm(len(vers))
	for _, k := range order {
		if rng.Intn(3) == 0 {
			h.getfile(id)
		}
		h.blacklist(id, vers[k])
		if rng.Intn(4) == 0 {
			h.blacklist(id, vers[k])
		}
		if rng.Intn(4) == 0 {
			// the file that was handed out turns out broken
			h.getfile(id)
			h.fblacklist(id)
		}
	}
	h.blacklist(id, pick(rng, vers...))
	h.purge(2)
	h.op("selected")
	h.emit(emit, "blacklist-run")
}

// ---- file names ---------------------------------------------------------------------------------

var namePieces = []string{"_v", "_", "v", "-", ".", "/", "1", "2", "0", "10", "03", "beta", "b", "a", "app", "lib", "X", "é", " ", "_v1-2-3", "_v0-0-0-rc", "-beta", ".exe", ".tar.gz", "\xff"}

func randName(rng *rand.Rand) string {
	var sb strings.Builder
	for k := 1 + rng.Intn(7); k > 0; k-- {
		sb.WriteString(pick(rng, namePieces...))
	}
	return sb.String()
}

func docIdentifier(rng *rand.Rand) string {
	dir := pick(rng, "", "", "a/", "path/to/", "/abs/x.d/", "all/intel/")
	stem := pick(rng, "file", "app", "geo_v2", "x-y", "base_v1-2", "v", "_", "é", "", "lib_v", "x_v1-2-", "_v_v")
	ext := pick(rng, "", "", ".exe", ".tar.gz", ".zip", ".v2.json", ".", ".sig", "._v1-2-3")
	return dir + stem + ext
}

func docVer(rng *rand.Rand) string {
	v := fmt.Sprintf("%d.%d.%d", pick(rng, 0, 1, 2, 12, 7, 100, 4294967296), rng.Intn(14), pick(rng, 0, 3, 4, 25, 9223372036854775807))
	if rng.Intn(12) == 0 {
		v = "0" + v
	}
	if rng.Intn(3) == 0 {
		v += "-" + pick(rng, "beta", "staging", "a", "rc", "zz")
	}
	return v
}

func genFilenames(r *hxlib.Run, emit func(hxlib.Case), n int) {
	rng := r.Rng
	var lines []string
	nt := false
	flush := func() {
		if len(lines) > 0 {
			emit(hxlib.Case{Lines: lines, Kind: "filenames", NonTrivial: nt})
			lines, nt = nil, false
		}
	}
	hx := func(x string) string { return "x:" + hxlib.Hex([]byte(x)) }
	fwd := func(id, ver string) {
		p := refVersionedPath(id, ver)
		lines = append(lines, "rt "+hx(id)+" "+hx(ver), "vpath "+hx(id)+" "+hx(ver), "idver "+hx(p), "rtb "+hx(p), "rawver "+hx(ver))
		nt = nt || docFileVersion.MatchString(p)
	}
	back := func(p string) {
		lines = append(lines, "idver "+hx(p), "rtb "+hx(p))
		_, file := splitPath(p)
		if loc := docFileVersion.FindStringIndex(file); loc != nil {
			// independent reading of the documented format: strip the version, dashes -> dots
			id := p[:len(p)-len(file)] + file[:loc[0]] + file[loc[1]:]
			v := strings.Replace(file[loc[0]+2:loc[1]], "-", ".", 2)
			lines = append(lines, "vpath "+hx(id)+" "+hx(v), "rt "+hx(id)+" "+hx(v), "rawver "+hx(v))
			nt = true
			r.Count("filename:version-found")
		} else {
			r.Count("filename:no-version")
		}
	}
	// the literals of TestRegexes first
	for _, p := range []string{"/path/to/file_v0-0-0", "/path/to/file_v1-2-3", "/path/to/file_v1-2-3.exe", "/path/to/file-v1-2-3", "/path/to/file_v1.2.3",
		"/path/to/file_1-2-3", "/path/to/file_v1-2", "/path/to/file_v1-2-3-beta", "/path/to/file_v1-2-3-staging.exe", "a.b_v1-2-3.c", "x_v1-2-3_v4-5-6", "_v1-2-3-", "_v1-2-3-B", "__v1-2-3", "_vv1-2-3", "d_v1-2-3/f"} {
		back(p)
	}
	for _, v := range []string{"0.1.2", "0.1.2-beta", "12.13.14", "v0.1.2", "0.", "0.1", "0.1.", ".1.2", "012345", "1.2.3-", "1.2.3-B", "1.2.3-beta\n", ""} {
		lines = append(lines, "rawver x:"+hxlib.Hex([]byte(v)))
	}
	flush()
	for i := 0; i < n; i++ {
		switch x := rng.Intn(10); {
		case x < 4:
			fwd(docIdentifier(rng), docVer(rng))
			r.Count("filename:documented-format")
		case x < 6:
			fwd(randName(rng), pick(rng, docVer(rng), randName(rng), "1.2", "1.2.3.4", ""))
			r.Count("filename:near-miss-forward")
		default:
			back(randName(rng))
		}
		if len(lines) > 48 {
			flush()
		}
	}
	flush()
}

func genOrder(r *hxlib.Run, emit func(hxlib.Case), n int) {
	rng := r.Rng
	var lines []string
	nt := false
	for i := 0; i < n; i++ {
		a, b := spell(rng, canonVer(rng)), spell(rng, canonVer(rng))
		if rng.Intn(8) == 0 {
			b = a
		}
		if rng.Intn(30) == 0 {
			a = pick(rng, malformed...)
		}
		if !inModel(a) || !inModel(b) {
			continue
		}
		lines = append(lines, "vercmp "+encTok(a)+" "+encTok(b), "vernorm "+encTok(a))
		nt = nt || strings.ContainsAny(a+b, "-abcrs")
		r.Count("op:vercmp")
		if len(lines) >= 60 {
			emit(hxlib.Case{Lines: lines, Kind: "version-order", NonTrivial: nt})
			lines, nt = nil, false
		}
	}
	if len(lines) > 0 {
		emit(hxlib.Case{Lines: lines, Kind: "version-order", NonTrivial: nt})
	}
}

func genMalformedOps(r *hxlib.Run, emit func(hxlib.Case)) {
	lines := []string{"", "nonsense", "flags 1 0", "flags 2 0 0", "add app.exe 1.2.3 1 0 0", "add app.exe 1.2.3 1 0 0 maybe", "purge x", "purge", "getfile", "select now",
		"blacklist app.exe", "dump all", "idver", "vpath x:61", "touch app.exe 1.0.0 1", "getfile app.exe", "getversion app.exe", "blacklist app.exe 1.0.0", "selected", "select", "purge 2", "dump",
		"add app.exe x:- 1 1 1 nil", "dump", "touch app.exe 1.0.0 7", "touch app.exe 1.0.0 2", "touch app.exe zz 1", "add data 1.0.0 0 0 0 nil", "touch data 1.0.0 2", "touch data 1.0.0 1", "dump",
		"addv", "addv nosuch 1.0.0 1 1 0", "addv data 1.1.0 1 1", "addv data 1.1.0 1 2 0", "addv data zz 0 1 0", "dump", "addmany", "addmany 1 1 0", "addmany 1 1 0 perhaps data=1.0.0",
		"addmany 0 1 0 nil data", "addmany 0 1 0 nil data=1.0.0 data=1.1.0", "addmany 0 1 0 nil data=1.0.0=2", "addmany 0 1 0 auto", "addmany 0 1 0 auto data=1.0.0 app.exe=zz", "dump", "select", "dump",
		"fblacklist", "fblacklist data", "anyavail", "anyavail nosuch", "anyavail data", "getfile data", "unpack data", "fblacklist data", "dump", "fblacklist nosuch", "unpack", "unpack nosuch", "add app.exe 1.0.0 1 0 0 nil", "unpack app.exe", "getfile app.exe", "unpack app.exe", "unpack app.exe", "dump"}
	emit(hxlib.Case{Lines: lines, Kind: "malformed-ops"})
}

// regression cases: histories on which an earlier state of the tree violated the property
func genCorpus(r *hxlib.Run, emit func(hxlib.Case)) {
	mk := func(kind string, ops ...string) {
		var lines []string
		for _, o := range ops {
			lines = append(lines, o, "dump")
		}
		emit(hxlib.Case{Lines: lines, Kind: kind, NonTrivial: true})
	}
	// DESIGN §7 #25: six versions, keep 2
	mk("corpus", "add app.exe 1.0.0 1 0 0 nil", "add app.exe 1.1.0 1 0 0 nil", "add app.exe 1.2.0 1 0 0 nil", "add app.exe 1.3.0 1 0 0 nil",
		"add app.exe 1.4.0 1 0 0 nil", "add app.exe 1.5.0 1 0 0 nil", "select", "getfile app.exe", "purge 2", "selected", "getfile app.exe")
	// newer versions added after the last selection, then purge
	mk("corpus", "add app.exe 1.2.0 1 0 0 nil", "add app.exe 1.1.0 1 0 0 nil", "add app.exe 1.0.0 1 0 0 nil", "select", "getfile app.exe",
		"add app.exe 2.0.0 1 0 0 nil", "add app.exe 2.1.0 1 0 0 nil", "add app.exe 2.2.0 1 0 0 nil", "purge 2")
	// GetSelectedVersions before / after selection
	mk("corpus", "add app.exe 1.0.0 1 0 0 nil", "selected", "select", "selected", "add data abc 1 0 0 nil", "select", "selected")
	// dev mode with a pre-release of 0.0.0 next to the dev version
	mk("corpus", "flags 0 1 0", "add app.exe 1.0.0 1 0 0 nil", "add app.exe 0.0.0 1 0 0 nil", "add app.exe 0.0.0-alpha 1 0 0 nil", "select")
	// the same version under two spellings
	mk("corpus", "add app.exe 3.0.0 1 0 0 nil", "add app.exe 2.0.0 1 0 0 nil", "add app.exe 1.0.0 1 0 0 nil", "add app.exe 0 1 0 0 nil", "add app.exe 0 1 0 0 nil",
		"select", "getfile app.exe", "purge 2")
	mk("corpus", "add app.exe 3.0.0 1 0 0 nil", "add app.exe 2.5.0 1 0 0 nil", "add app.exe 2.0.0 1 0 0 nil", "add app.exe 02.0.0 1 0 0 nil", "add app.exe 1.0.0 1 0 0 nil",
		"select", "getfile app.exe", "purge 2")
	// the current release goes forward and comes back to a known older version (pulled release), by each API path
	for _, again := range []string{"add app.exe 1.2.0 0 1 0 auto", "addv app.exe 1.2.0 0 1 0", "addmany 0 1 0 auto app.exe=1.2.0", "add app.exe v1.2 1 1 0 nil"} {
		mk("corpus", "add app.exe 1.1.0 1 0 0 nil", "add app.exe 1.2.0 1 0 0 nil", "add app.exe 1.3.0 1 0 0 nil", "add app.exe 1.2.0 0 1 0 auto", "select", "getfile app.exe",
			"add app.exe 1.3.0 0 1 0 auto", "select", again, "select", "getfile app.exe", "purge 2", "select", "selected")
	}
	// two indexes name different current releases for versions known from the storage scan; the overriding one names the older
	mk("corpus", "flags 1 0 0", "addmany 1 0 0 nil app.exe=2.0.0 data=1.0.0", "addmany 1 0 0 nil app.exe=2.1.0 data=1.1.0", "addmany 0 1 0 auto app.exe=2.1.0 data=1.1.0",
		"addmany 0 1 0 auto app.exe=2.0.0 data=1.0.0", "select", "getfile app.exe", "getfile data", "purge 2")
}

func generate(r *hxlib.Run, emit func(hxlib.Case)) {
	countHook = r.Count
	genCorpus(r, emit)
	genMalformedOps(r, emit)
	genFilenames(r, emit, r.Budget(4000, 150000))
	genOrder(r, emit, r.Budget(10000, 300000))
	n := r.Budget(700, 14000)
	for i := 0; i < n; i++ {
		genRandomHistory(r, emit)
		genLifecycle(r, emit)
		genPurgeGrid(r, emit)
		genReleaseMoves(r, emit)
		if i%2 == 0 {
			genSelectTable(r, emit)
			genBlacklistRun(r, emit)
		}
		if i%10 == 0 {
			genLongHistory(r, emit)
		}
		if i%5 == 0 {
			genExternalDeletion(r, emit)
		}
	}
}
