// hx-c19: correspondence harness and property monitor for C19 (updater: version selection, blacklist,
// purge, versioned file names). Every case runs on a fresh ResourceRegistry in a scratch directory with real
// files; downloads are answered by an in-process HTTP server on loopback.
package main

import (
	"errors"
	"fmt"
	"io"
	"net/http"
	"net/http/httptest"
	"os"
	"path/filepath"
	"regexp"
	"sort"
	"strconv"
	"strings"
	"sync"

	semver "github.com/hashicorp/go-version"

	"github.com/safing/portbase/log"
	"github.com/safing/portbase/updater"
	"github.com/safing/portbase/utils"

	"verifharness/hxlib"
)

// ---------------------------------------------------------------------------------------------
// executor: op lines on the real code

var (
	srvOnce sync.Once
	srvURL  string
	caseNo  int
)

func server() string {
	srvOnce.Do(func() {
		s := httptest.NewServer(http.HandlerFunc(func(w http.ResponseWriter, _ *http.Request) {
			_, _ = w.Write([]byte("downloaded"))
		}))
		srvURL = s.URL
	})
	return srvURL
}

type exec struct {
	dir   string
	reg   *updater.ResourceRegistry
	files map[string]*updater.File // the File handed out last for every identifier
	dead  bool                     // a call panicked: locks may still be held, nothing more is run on this registry
}

func newExec(*hxlib.Run) hxlib.Exec {
	base := os.Getenv("VERIF_SCRATCH_DIR")
	if base == "" {
		base = os.TempDir()
	}
	caseNo++
	dir := filepath.Join(base, fmt.Sprintf("reg%d", caseNo))
	if err := os.MkdirAll(dir, 0o755); err != nil {
		panic(err)
	}
	reg := &updater.ResourceRegistry{Name: "hx", UpdateURLs: []string{server()}}
	if err := reg.Initialize(utils.NewDirStructure(dir, 0o755)); err != nil {
		panic(err)
	}
	return &exec{dir: dir, reg: reg, files: map[string]*updater.File{}}
}

func (e *exec) Close() error { return os.RemoveAll(e.dir) }

// tok decodes a protocol token: raw ASCII or x:<hex> ("x:-" = empty).
func tok(t string) string {
	if strings.HasPrefix(t, "x:") {
		return string(hxlib.UnHex(t[2:]))
	}
	return t
}

func hexTok(s string) string { return hxlib.Hex([]byte(s)) }

func touchFile(p string) {
	if err := os.MkdirAll(filepath.Dir(p), 0o755); err != nil {
		panic(err)
	}
	if err := os.WriteFile(p, []byte("x"), 0o644); err != nil {
		panic(err)
	}
}

func flagStr(rv *updater.ResourceVersion) string {
	s := ""
	if rv.Available {
		s += "A"
	}
	if rv.CurrentRelease {
		s += "C"
	}
	if rv.PreRelease {
		s += "P"
	}
	if rv.Blacklisted {
		s += "B"
	}
	if s == "" {
		return "-"
	}
	return s
}

func (e *exec) dump() string {
	ids := []string{}
	for id := range e.reg.Export() {
		ids = append(ids, id)
	}
	sort.Strings(ids)
	parts := []string{}
	for _, id := range ids {
		res := e.reg.VerifResource(id)
		res.Lock()
		ptr := func(p *updater.ResourceVersion) string {
			if p == nil {
				return "-"
			}
			for _, rv := range res.Versions {
				if rv == p {
					return p.VersionNumber
				}
			}
			return p.VersionNumber + "!ghost"
		}
		idx := "nil"
		if res.Index != nil {
			idx = "noauto"
			if res.Index.AutoDownload {
				idx = "auto"
			}
		}
		vs := []string{}
		for _, rv := range res.Versions {
			vs = append(vs, rv.VersionNumber+":"+flagStr(rv))
		}
		parts = append(parts, fmt.Sprintf("%s sel=%s act=%s idx=%s v=[%s]", id, ptr(res.SelectedVersion), ptr(res.ActiveVersion), idx, strings.Join(vs, ",")))
		res.Unlock()
	}
	files := []string{}
	tmp := filepath.Join(e.dir, "tmp")
	_ = filepath.Walk(e.dir, func(p string, info os.FileInfo, err error) error {
		if err != nil {
			return nil
		}
		if p == tmp {
			return filepath.SkipDir
		}
		if !info.IsDir() {
			rel, _ := filepath.Rel(e.dir, p)
			files = append(files, filepath.ToSlash(rel))
		}
		return nil
	})
	sort.Strings(files)
	return strings.Join(parts, " | ") + " || disk=[" + strings.Join(files, ",") + "]"
}

func b01(s string) (bool, bool) {
	switch s {
	case "0":
		return false, true
	case "1":
		return true, true
	}
	return false, false
}

func blErr(err error) string {
	switch {
	case err == nil:
		return "ok"
	case strings.Contains(err.Error(), "last version"):
		return "err last"
	case strings.Contains(err.Error(), "could not find"):
		return "err noversion"
	}
	return "err other:" + err.Error()
}

func parseIdx(s string) (*updater.Index, bool) {
	switch s {
	case "nil":
		return nil, true
	case "auto":
		return &updater.Index{AutoDownload: true}, true
	case "noauto":
		return &updater.Index{}, true
	}
	return nil, false
}

func cmpStr(a, b *semver.Version) string {
	switch c := a.Compare(b); {
	case c < 0:
		return "lt"
	case c > 0:
		return "gt"
	}
	return "eq"
}

func (e *exec) Do(line string) string {
	if e.dead {
		return "dead-after-panic"
	}
	defer func() {
		if x := recover(); x != nil {
			e.dead = true
			panic(x)
		}
	}()
	f := strings.Fields(line)
	if len(f) == 0 {
		return "bad-op"
	}
	switch {
	case f[0] == "flags" && len(f) == 4:
		o, ok1 := b01(f[1])
		d, ok2 := b01(f[2])
		p, ok3 := b01(f[3])
		if !ok1 || !ok2 || !ok3 {
			return "bad-op"
		}
		e.reg.Online = o
		e.reg.SetDevMode(d)
		e.reg.SetUsePreReleases(p)
		return "ok"
	case f[0] == "add" && len(f) == 7:
		id, ver := tok(f[1]), tok(f[2])
		a, ok1 := b01(f[3])
		c, ok2 := b01(f[4])
		p, ok3 := b01(f[5])
		idx, ok4 := parseIdx(f[6])
		if !ok1 || !ok2 || !ok3 || !ok4 {
			return "bad-op"
		}
		if a {
			// like ScanStorage: a version is reported as available because its file is there
			if sv, err := semver.NewVersion(ver); err == nil {
				touchFile(filepath.Join(e.dir, filepath.FromSlash(refVersionedPath(id, sv.String()))))
			}
		}
		if err := e.reg.AddResource(id, ver, idx, a, c, p); err != nil {
			return "err parse"
		}
		return "ok"
	case f[0] == "addv" && len(f) == 6:
		// Resource.AddVersion called directly on an existing resource (its index stays)
		id, ver := tok(f[1]), tok(f[2])
		a, ok1 := b01(f[3])
		c, ok2 := b01(f[4])
		p, ok3 := b01(f[5])
		if !ok1 || !ok2 || !ok3 {
			return "bad-op"
		}
		res := e.reg.VerifResource(id)
		if res == nil {
			return "err notfound"
		}
		if a {
			if sv, err := semver.NewVersion(ver); err == nil {
				touchFile(filepath.Join(e.dir, filepath.FromSlash(refVersionedPath(id, sv.String()))))
			}
		}
		if err := res.AddVersion(ver, a, c, p); err != nil {
			return "err parse"
		}
		return "ok"
	case f[0] == "addmany" && len(f) >= 5:
		// AddResources: one index and one set of flags for a map identifier -> version (what loading an index file does)
		a, ok1 := b01(f[1])
		c, ok2 := b01(f[2])
		p, ok3 := b01(f[3])
		idx, ok4 := parseIdx(f[4])
		if !ok1 || !ok2 || !ok3 || !ok4 {
			return "bad-op"
		}
		m := map[string]string{}
		for _, it := range f[5:] {
			kv := strings.Split(it, "=")
			if len(kv) != 2 {
				return "bad-op"
			}
			id, ver := tok(kv[0]), tok(kv[1])
			if _, dup := m[id]; dup {
				return "bad-op" // a Go map has every identifier once
			}
			m[id] = ver
		}
		if a {
			for id, ver := range m {
				if sv, err := semver.NewVersion(ver); err == nil {
					touchFile(filepath.Join(e.dir, filepath.FromSlash(refVersionedPath(id, sv.String()))))
				}
			}
		}
		// the returned "last error" depends on the map iteration order: not observed
		_ = e.reg.AddResources(m, idx, a, c, p)
		return "ok"
	case f[0] == "touch" && len(f) == 4:
		id, ver := tok(f[1]), tok(f[2])
		sv, err := semver.NewVersion(ver)
		if err != nil || e.reg.VerifResource(id) == nil {
			return "err notfound"
		}
		p := filepath.Join(e.dir, filepath.FromSlash(refVersionedPath(id, sv.String())))
		switch f[3] {
		case "1":
			touchFile(p + ".sig")
		case "2":
			ext := filepath.Ext(p)
			if ext == "" {
				return "err notfound"
			}
			touchFile(strings.TrimSuffix(p, ext))
		default:
			return "err notfound"
		}
		return "ok"
	case f[0] == "select" && len(f) == 1:
		e.reg.SelectVersions()
		return "ok"
	case f[0] == "getfile" && len(f) == 2:
		file, err := e.reg.GetFile(tok(f[1]))
		switch {
		case errors.Is(err, updater.ErrNotFound):
			return "err notfound"
		case errors.Is(err, updater.ErrNotAvailableLocally):
			return "err notlocal"
		case err != nil:
			return "err other:" + err.Error()
		}
		rel, err := filepath.Rel(e.dir, file.Path())
		if err != nil {
			return "err other:" + err.Error()
		}
		e.files[tok(f[1])] = file
		return "file " + file.Version() + " " + filepath.ToSlash(rel)
	case f[0] == "fblacklist" && len(f) == 2:
		// File.Blacklist on the file handed out last for the identifier
		file := e.files[tok(f[1])]
		if file == nil {
			return "err nofile"
		}
		return blErr(file.Blacklist())
	case f[0] == "unpack" && len(f) == 2:
		// File.Unpack of the file handed out last, with its extension as suffix: the unpacked copy Purge removes later
		file := e.files[tok(f[1])]
		if file == nil {
			return "err nofile"
		}
		ext := filepath.Ext(file.Path())
		if ext == "" {
			return "err noext"
		}
		p, err := file.Unpack(ext, func(r io.Reader) (io.Reader, error) { return r, nil })
		if err != nil {
			return "err other:" + err.Error()
		}
		rel, err := filepath.Rel(e.dir, p)
		if err != nil {
			return "err other:" + err.Error()
		}
		return "unpacked " + filepath.ToSlash(rel)
	case f[0] == "anyavail" && len(f) == 2:
		res := e.reg.VerifResource(tok(f[1]))
		if res == nil {
			return "err notfound"
		}
		return fmt.Sprintf("avail %v", res.AnyVersionAvailable())
	case f[0] == "rm" && len(f) == 4:
		// the environment deletes a file of a version behind the updater's back (implementation-only cases)
		id, ver := tok(f[1]), tok(f[2])
		sv, err := semver.NewVersion(ver)
		if err != nil || e.reg.VerifResource(id) == nil {
			return "err notfound"
		}
		ps := filesOf(id, sv.String())
		k, err := strconv.Atoi(f[3])
		if err != nil || k < 0 || k >= len(ps) {
			return "err notfound"
		}
		if os.Remove(filepath.Join(e.dir, filepath.FromSlash(ps[k]))) != nil {
			return "err notfound"
		}
		return "ok"
	case f[0] == "blacklist" && len(f) == 3:
		res := e.reg.VerifResource(tok(f[1]))
		if res == nil {
			return "err notfound"
		}
		return blErr(res.Blacklist(tok(f[2])))
	case f[0] == "purge" && len(f) == 2:
		k, err := strconv.Atoi(f[1])
		if err != nil {
			return "bad-op"
		}
		e.reg.Purge(k)
		return "ok"
	case f[0] == "selected" && len(f) == 1:
		m := e.reg.GetSelectedVersions()
		ks := make([]string, 0, len(m))
		for k := range m {
			ks = append(ks, k)
		}
		sort.Strings(ks)
		for i, k := range ks {
			ks[i] = k + "=" + m[k]
		}
		if len(ks) == 0 {
			return "selected -"
		}
		return "selected " + strings.Join(ks, ",")
	case f[0] == "getversion" && len(f) == 2:
		rv, err := e.reg.GetVersion(tok(f[1]))
		switch {
		case errors.Is(err, updater.ErrNotFound):
			return "err notfound"
		case err != nil:
			return "err other:" + err.Error()
		case rv == nil:
			return "version -"
		}
		return "version " + rv.VersionNumber
	case f[0] == "dump" && len(f) == 1:
		return e.dump()
	case f[0] == "vpath" && len(f) == 3:
		return hexTok(updater.GetVersionedPath(tok(f[1]), tok(f[2])))
	case f[0] == "idver" && len(f) == 2:
		id, v, ok := updater.GetIdentifierAndVersion(tok(f[1]))
		if !ok {
			return "none"
		}
		return "ok " + hexTok(id) + " " + hexTok(v)
	case f[0] == "rt" && len(f) == 3:
		id, v, ok := updater.GetIdentifierAndVersion(updater.GetVersionedPath(tok(f[1]), tok(f[2])))
		if !ok {
			return "none"
		}
		return "ok " + hexTok(id) + " " + hexTok(v)
	case f[0] == "rtb" && len(f) == 2:
		id, v, ok := updater.GetIdentifierAndVersion(tok(f[1]))
		if !ok {
			return "none"
		}
		return "ok " + hexTok(updater.GetVersionedPath(id, v))
	case f[0] == "rawver" && len(f) == 2:
		if updater.VerifRawVersionMatch(tok(f[1])) {
			return "match"
		}
		return "nomatch"
	case f[0] == "vernorm" && len(f) == 2:
		sv, err := semver.NewVersion(tok(f[1]))
		if err != nil {
			return "err parse"
		}
		return sv.String()
	case f[0] == "vercmp" && len(f) == 3:
		a, err1 := semver.NewVersion(tok(f[1]))
		b, err2 := semver.NewVersion(tok(f[2]))
		if err1 != nil || err2 != nil {
			return "err parse"
		}
		return cmpStr(a, b)
	}
	return "bad-op"
}

// ---------------------------------------------------------------------------------------------
// monitor: the property statement read literally on implementation outputs (no use of the model)

type mVer struct {
	num             string
	sv              *semver.Version
	avail, cur, pre bool
	bl              bool
}

type mRes struct {
	id       string
	sel, act string // "-" if unset; may carry "!ghost"
	idx      string
	vs       []mVer
}

type mState struct {
	res  map[string]*mRes
	disk map[string]bool
}

var dumpRe = regexp.MustCompile(`^(\S+) sel=(\S+) act=(\S+) idx=(\S+) v=\[(.*)\]$`)

func parseDump(s string) (*mState, bool) {
	st := &mState{res: map[string]*mRes{}, disk: map[string]bool{}}
	i := strings.LastIndex(s, "|| disk=[")
	if i < 0 || !strings.HasSuffix(s, "]") {
		return nil, false
	}
	if d := s[i+len("|| disk=[") : len(s)-1]; d != "" {
		for _, p := range strings.Split(d, ",") {
			st.disk[p] = true
		}
	}
	head := strings.TrimSpace(s[:i])
	if head == "" {
		return st, true
	}
	for _, part := range strings.Split(head, " | ") {
		m := dumpRe.FindStringSubmatch(strings.TrimSpace(part))
		if m == nil {
			return nil, false
		}
		r := &mRes{id: m[1], sel: m[2], act: m[3], idx: m[4]}
		if m[5] != "" {
			for _, e := range strings.Split(m[5], ",") {
				j := strings.LastIndex(e, ":")
				if j < 0 {
					return nil, false
				}
				sv, err := semver.NewVersion(e[:j])
				if err != nil {
					return nil, false
				}
				fl := e[j+1:]
				// a version is a pre-release if it is flagged as one (index) or carries a pre-release tag
				r.vs = append(r.vs, mVer{num: e[:j], sv: sv, avail: strings.Contains(fl, "A"), cur: strings.Contains(fl, "C"),
					pre: strings.Contains(fl, "P") || sv.Prerelease() != "", bl: strings.Contains(fl, "B")})
			}
		}
		st.res[r.id] = r
	}
	return st, true
}

type regFlags struct{ online, dev, usePre bool }

func (v mVer) selectable(fl regFlags, idx string) bool {
	switch {
	case v.bl:
		return false
	case v.avail:
		return true
	}
	return fl.online && idx == "auto"
}

var devV = semver.Must(semver.NewVersion("0"))

// newest returns the version numbers of the newest entries satisfying p (more than one only for equal versions).
func newest(vs []mVer, p func(mVer) bool) (best []string) {
	var top *semver.Version
	for _, v := range vs {
		if !p(v) {
			continue
		}
		switch {
		case top == nil || v.sv.GreaterThan(top):
			top, best = v.sv, []string{v.num}
		case v.sv.Equal(top):
			best = append(best, v.num)
		}
	}
	return best
}

// prescribed is the documented order, written as a choice over the set of versions (no sorting involved):
// dev version if dev mode and locally available; else the current release if selectable; else, with
// pre-releases enabled, the newest selectable; else the newest selectable stable; else the newest.
// "The current release" is cur: the version most recently announced as such for this resource, which the monitor
// knows from the calls of the history (curTruth) — never from the CurrentRelease flags of the implementation
// ("" = the resource has no current release).
func prescribed(r *mRes, fl regFlags, cur string) (want []string, step string) {
	if len(r.vs) == 0 {
		return []string{"-"}, "empty"
	}
	if fl.dev {
		if w := newest(r.vs, func(v mVer) bool { return v.sv.Equal(devV) && v.avail }); len(w) > 0 {
			return w, "dev"
		}
	}
	if cur != "" {
		for _, v := range r.vs {
			if v.num == cur && v.selectable(fl, r.idx) {
				return []string{cur}, "current"
			}
		}
	}
	if fl.usePre {
		if w := newest(r.vs, func(v mVer) bool { return v.selectable(fl, r.idx) }); len(w) > 0 {
			return w, "newest-selectable"
		}
	}
	if w := newest(r.vs, func(v mVer) bool { return !v.pre && v.selectable(fl, r.idx) }); len(w) > 0 {
		return w, "newest-stable"
	}
	return newest(r.vs, func(mVer) bool { return true }), "fallback"
}

// curTruth is the monitor's own record of "the current release" of every resource: the version named by the last
// AddResource / AddResources / AddVersion call with currentRelease=true for the resource, taken from the op lines of the
// history (and their outcome), never from the implementation's flags. Where the property does not say which version is
// the current release, every reading is kept (opts has more than one element; "" = no current release):
//   - the announcement failed (the version does not parse): the previous current release stays, or there is none;
//   - a Purge dropped the announced version from the resource: the resource may have forgotten it for good, or it is
//     the current release again when the version is listed again.
// opts[0] is the literal reading "most recently announced".
type curTruth map[string][]string

func (t curTruth) of(id string) []string {
	if o := t[id]; len(o) > 0 {
		return o
	}
	return []string{""}
}

func (t curTruth) also(id, alt string) {
	o := t.of(id)
	if !in(alt, o) {
		o = append(append([]string{}, o...), alt)
	}
	t[id] = o
}

// announce records one AddVersion(version, currentRelease=true) for id with its outcome.
func (t curTruth) announce(id, ver, out string) {
	switch {
	case out == "ok":
		if sv, err := semver.NewVersion(ver); err == nil {
			t[id] = []string{sv.String()}
			count("current-release:announced")
			return
		}
		t.also(id, "") // cannot happen: accepted by the implementation, rejected by go-version here
	case out == "err parse":
		t.also(id, "")
		count("current-release:announcement-failed")
	}
}

// forgetUnlisted: a version that is not (no longer) listed may have been forgotten as the current release.
func (t curTruth) forgetUnlisted(st *mState) {
	for id, opts := range t {
		r := st.res[id]
		for _, o := range opts {
			listed := false
			if r != nil {
				for _, v := range r.vs {
					listed = listed || v.num == o
				}
			}
			if o != "" && !listed && !in("", t.of(id)) {
				t.also(id, "")
				count("current-release:dropped-by-purge")
			}
		}
	}
}

func in(x string, l []string) bool {
	for _, y := range l {
		if x == y {
			return true
		}
	}
	return false
}

// refVersionedPath is the documented naming, written independently of the code under test:
// "<dir>/<stem>_v<x>-<y>-<z>[-pre][.<ext>]", the version in front of the first dot of the file name.
func refVersionedPath(id, ver string) string {
	dir, file := splitPath(id)
	stem, ext := file, ""
	if i := strings.IndexByte(file, '.'); i >= 0 {
		stem, ext = file[:i], file[i:]
	}
	return dir + stem + "_v" + strings.Join(strings.SplitN(ver, ".", 3), "-") + ext
}

// filesOf lists the paths that belong to one version of a resource (file, signature, unpacked copy).
func filesOf(id, num string) []string {
	p := refVersionedPath(id, num)
	out := []string{p, p + ".sig"}
	if ext := filepath.Ext(p); ext != "" {
		out = append(out, strings.TrimSuffix(p, ext))
	}
	return out
}

var docVersion = regexp.MustCompile(`^[0-9]+\.[0-9]+\.[0-9]+(-[a-z]+)?$`)
var docFileVersion = regexp.MustCompile(`_v[0-9]+-[0-9]+-[0-9]+(-[a-z]+)?`)

var countHook func(string)

func count(k string) {
	if countHook != nil {
		countHook(k)
	}
}

func monitor(c hxlib.Case, outs []string) (vs []hxlib.Violation) {
	add := func(i int, sig, what string) {
		lo := 0
		vs = append(vs, hxlib.Violation{Sig: sig, What: what, Lines: c.Lines[lo : i+1], Output: outs[lo : i+1]})
	}
	fl := regFlags{}
	truth := curTruth{}
	var prev *mState // state before the current op (from the last dump)
	prevOp := -1     // index of the last non-dump op
	for i, l := range c.Lines {
		f := strings.Fields(l)
		o := outs[i]
		if len(f) == 0 {
			continue
		}
		if strings.HasPrefix(o, "PANIC") {
			add(i, "C19:panic:"+f[0], "panic in "+f[0]+": "+o)
			return vs
		}
		switch f[0] {
		case "flags":
			if o == "ok" {
				fl.online, _ = b01(f[1])
				fl.dev, _ = b01(f[2])
				fl.usePre, _ = b01(f[3])
			}
		case "add":
			if len(f) == 7 && f[4] == "1" {
				truth.announce(tok(f[1]), tok(f[2]), o)
			}
		case "addv":
			if len(f) == 6 && f[4] == "1" {
				truth.announce(tok(f[1]), tok(f[2]), o) // "err notfound": no resource, nothing announced
			}
		case "addmany":
			if len(f) >= 5 && f[2] == "1" && o == "ok" {
				for _, it := range f[5:] {
					if kv := strings.Split(it, "="); len(kv) == 2 {
						out := "ok"
						if _, err := semver.NewVersion(tok(kv[1])); err != nil {
							out = "err parse"
						}
						truth.announce(tok(kv[0]), tok(kv[1]), out)
					}
				}
			}
		case "rt":
			// (identifier, version) -> file name -> (identifier, version), documented format only
			if len(f) == 3 {
				id, ver := tok(f[1]), tok(f[2])
				_, file := splitPath(id)
				stem := strings.SplitN(file, ".", 2)[0]
				if docVersion.MatchString(ver) && !docFileVersion.MatchString(stem) {
					if want := "ok " + hexTok(id) + " " + hexTok(ver); o != want {
						add(i, "C19:filename-roundtrip", fmt.Sprintf("GetIdentifierAndVersion(GetVersionedPath(%q,%q)) = %s, want %s", id, ver, o, want))
					}
					count("roundtrip:id-ver-to-name")
				}
			}
		case "rtb":
			// file name -> (identifier, version) -> file name, when the version sits directly in front of the extension
			if len(f) == 2 {
				p := tok(f[1])
				_, file := splitPath(p)
				loc := docFileVersion.FindStringIndex(file)
				if loc != nil && !strings.Contains(file[:loc[0]], ".") && (loc[1] == len(file) || file[loc[1]] == '.') {
					if want := "ok " + hexTok(p); o != want {
						add(i, "C19:filename-roundtrip-back", fmt.Sprintf("GetVersionedPath(GetIdentifierAndVersion(%q)) = %s, want %s", p, o, want))
					}
					count("roundtrip:name-to-id-ver")
				}
			}
		case "dump":
			if len(f) != 1 {
				break
			}
			cur, ok := parseDump(o)
			if !ok {
				add(i, "C19:dump-unparsable", "harness dump could not be parsed: "+o)
				return vs
			}
			truth.forgetUnlisted(cur)
			if prevOp >= 0 {
				vs = append(vs, checkOp(c, outs, prevOp, i, prev, cur, fl, truth)...)
			}
			prev = cur
			prevOp = -1
			continue
		}
		if l != "dump" {
			prevOp = i
		}
	}
	return vs
}

func splitPath(p string) (string, string) {
	i := strings.LastIndex(p, "/")
	return p[:i+1], p[i+1:]
}

// checkOp judges op k (with the state dumps before and after it) against the property statement.
func checkOp(c hxlib.Case, outs []string, k, at int, before, after *mState, fl regFlags, truth curTruth) (vs []hxlib.Violation) {
	add := func(sig, what string) {
		vs = append(vs, hxlib.Violation{Sig: sig, What: what, Lines: c.Lines[:at+1], Output: outs[:at+1]})
	}
	if before == nil {
		before = &mState{res: map[string]*mRes{}, disk: map[string]bool{}}
	}
	f := strings.Fields(c.Lines[k])
	o := outs[k]
	checkSel := func(r *mRes, why string) {
		sel := strings.TrimSuffix(r.sel, "!ghost")
		isBl := false
		for _, v := range r.vs {
			isBl = isBl || (v.num == sel && v.bl)
		}
		curs := truth.of(r.id)
		if len(curs) > 1 {
			count("current-release:more-than-one-reading")
		}
		// every reading of "the current release" the property leaves open is accepted; the report is about the literal one
		okSel, okBl := false, false
		for _, cur := range curs {
			want, step := prescribed(r, fl, cur)
			if in(sel, want) {
				okSel = true
				// outside dev mode a blacklisted version is selected only as that last resort ("else the newest version")
				okBl = okBl || !isBl || fl.dev || step == "fallback"
			}
		}
		want, step := prescribed(r, fl, curs[0])
		count("select-step:" + step)
		curTxt := curs[0]
		if curTxt == "" {
			curTxt = "none"
		}
		switch {
		case !okSel:
			add("C19:selection:"+step, fmt.Sprintf("%s: resource %s flags %+v idx=%s versions %v, current release (last announced) %s: selected %s, the documented order prescribes %v (step %s)",
				why, r.id, fl, r.idx, verList(r), curTxt, r.sel, want, step))
		case !okBl:
			add("C19:blacklisted-selected", fmt.Sprintf("resource %s flags %+v idx=%s versions %v, current release (last announced) %s: blacklisted %s selected although step %q of the documented order applies",
				r.id, fl, r.idx, verList(r), curTxt, r.sel, step))
		}
	}
	switch f[0] {
	case "select":
		for _, id := range sortedIDs(after) {
			checkSel(after.res[id], "SelectVersions")
		}
	case "getfile":
		id := tok(f[1])
		r := after.res[id]
		br := before.res[id]
		if r == nil {
			break
		}
		if br != nil && br.sel == "-" {
			checkSel(r, "GetFile on a resource without selection")
		}
		if strings.HasPrefix(o, "file ") {
			of := strings.Fields(o)
			count("getfile:file")
			if br != nil {
				for _, v := range br.vs {
					if len(of) == 3 && v.num == of[1] && !v.avail {
						count("getfile:downloaded")
					}
				}
			}
			if len(of) != 3 || of[1] != r.sel {
				add("C19:getfile-version", fmt.Sprintf("GetFile(%s) handed out %q but the selected version is %s", id, o, r.sel))
			} else {
				if of[2] != refVersionedPath(id, of[1]) {
					add("C19:getfile-path", fmt.Sprintf("GetFile(%s) path %s is not the versioned path of %s", id, of[2], of[1]))
				}
				if r.act != of[1] {
					add("C19:getfile-active", fmt.Sprintf("GetFile(%s) handed out %s but the active version is %s", id, of[1], r.act))
				}
				if !after.disk[of[2]] {
					add("C19:getfile-missing-file", fmt.Sprintf("GetFile(%s) handed out %s which is not on disk", id, of[2]))
				}
			}
		} else {
			count("getfile:" + strings.ReplaceAll(o, " ", "-"))
		}
	case "blacklist", "fblacklist":
		id := tok(f[1])
		r, br := after.res[id], before.res[id]
		count(f[0] + ":" + strings.ReplaceAll(o, " ", "-"))
		if r == nil || br == nil {
			break
		}
		if f[0] == "fblacklist" {
			// File.Blacklist: the version of the file handed out last, i.e. the active version
			f = []string{f[0], f[1], br.act}
			if o == "ok" {
				hit := false
				for _, v := range r.vs {
					hit = hit || (v.num == br.act && v.bl)
				}
				if !hit {
					add("C19:file-blacklist-version", fmt.Sprintf("File.Blacklist on %s (file of version %s handed out) = ok but that version is not blacklisted: %v", id, br.act, verList(r)))
				}
			}
		}
		nb := func(x *mRes) (n int) {
			for _, v := range x.vs {
				if !v.bl {
					n++
				}
			}
			return
		}
		if nb(br) >= 1 && nb(r) == 0 {
			add("C19:blacklisted-last", fmt.Sprintf("Blacklist(%s,%s) = %s left resource without a non-blacklisted version", id, tok(f[2]), o))
		}
		if o == "ok" {
			checkSel(r, "Blacklist")
		} else if fmt.Sprint(verList(r), r.sel) != fmt.Sprint(verList(br), br.sel) {
			add("C19:blacklist-error-changed-state", fmt.Sprintf("the refused Blacklist(%s,%s) = %s changed the resource: %v sel=%s -> %v sel=%s", id, tok(f[2]), o, verList(br), br.sel, verList(r), r.sel))
		}
	case "purge":
		// "at least the requested number of further versions": the number asked for (Purge itself promises two more)
		keep, _ := strconv.Atoi(f[1])
		if keep < 0 {
			keep = 0
		}
		for _, id := range sortedIDs(before) {
			br, r := before.res[id], after.res[id]
			if r == nil {
				add("C19:purge-lost-resource", "resource "+id+" disappeared")
				continue
			}
			// required versions: active, selected, newest stable (as known before the purge)
			req := map[string]bool{}
			if br.act != "-" {
				req[strings.TrimSuffix(br.act, "!ghost")] = true
			}
			if br.sel != "-" {
				req[strings.TrimSuffix(br.sel, "!ghost")] = true
			}
			removed := 0
			intact := func(num string) bool {
				for _, p := range filesOf(id, num) {
					if before.disk[p] && !after.disk[p] {
						return false
					}
				}
				return true
			}
			// "the newest stable version" is one version: among entries of equal precedence (1.2.3 and 1.2.3+build)
			// any one may play that role
			if ties := newest(br.vs, func(v mVer) bool { return !v.pre }); len(ties) > 0 {
				pickOne := ties[0]
				for _, s := range ties {
					if req[s] {
						pickOne = s
						break
					}
					if intact(s) && !intact(pickOne) {
						pickOne = s
					}
				}
				req[pickOne] = true
			}
			for _, v := range br.vs {
				if !intact(v.num) {
					removed++
				}
			}
			for num := range req {
				if !intact(num) {
					add("C19:purge-removed-required", fmt.Sprintf("Purge(%s) on %s (sel=%s act=%s, versions %v) removed files of required version %s", f[1], id, br.sel, br.act, verList(br), num))
				}
			}
			if removed > 0 || len(r.vs) != len(br.vs) {
				count("purge:purged")
				further := 0
				for _, v := range r.vs {
					if !req[v.num] && intact(v.num) {
						further++
					}
				}
				if further < keep {
					add("C19:purge-kept-too-few", fmt.Sprintf("Purge(%s) on %s (sel=%s act=%s, versions %v) purged something but kept only %d further versions %v", f[1], id, br.sel, br.act, verList(br), further, verList(r)))
				}
			} else {
				count("purge:nothing")
			}
			// the resource lists as available only versions whose files exist
			sound := func(x *mRes, st *mState) (bad string) {
				for _, v := range x.vs {
					if v.avail && !st.disk[refVersionedPath(id, v.num)] {
						return v.num
					}
				}
				return ""
			}
			if sound(br, before) == "" {
				if bad := sound(r, after); bad != "" {
					add("C19:purge-lists-missing-file", fmt.Sprintf("after Purge(%s) resource %s lists %s as available but its file is gone; versions before %v, after %v", f[1], id, bad, verList(br), verList(r)))
				}
			}
			if r.sel != br.sel || r.act != br.act {
				add("C19:purge-changed-selection", fmt.Sprintf("Purge changed selected/active of %s: %s/%s -> %s/%s", id, br.sel, br.act, r.sel, r.act))
			}
		}
	case "selected":
		want := []string{}
		for _, id := range sortedIDs(after) {
			if s := after.res[id].sel; s != "-" {
				want = append(want, id+"="+strings.TrimSuffix(s, "!ghost"))
			}
		}
		w := "selected " + strings.Join(want, ",")
		if len(want) == 0 {
			w = "selected -"
		}
		if o != w {
			add("C19:GetSelectedVersions", fmt.Sprintf("GetSelectedVersions() = %q but the resources say %q", o, w))
		}
	case "unpack":
		// the unpacked copy belongs to the files of the version (Purge removes it with the version): right name, on disk
		// (Unpack does not change the active version: the dump right after the call names the version of the file)
		if br := after.res[tok(f[1])]; br != nil && strings.HasPrefix(o, "unpacked ") {
			count("unpack:done")
			fs := filesOf(tok(f[1]), br.act)
			if p := strings.TrimPrefix(o, "unpacked "); len(fs) < 3 || p != fs[2] {
				add("C19:unpack-path", fmt.Sprintf("File.Unpack of %s version %s = %s, which is not the unpacked copy of that version %v", tok(f[1]), br.act, p, fs))
			} else if !after.disk[p] {
				add("C19:unpack-missing-file", fmt.Sprintf("File.Unpack of %s version %s = %s, which is not on disk", tok(f[1]), br.act, p))
			}
		}
	case "anyavail":
		// another view of "the resource lists as available": it must agree with the listing
		if r := after.res[tok(f[1])]; r != nil {
			any := false
			for _, v := range r.vs {
				any = any || v.avail
			}
			if o != fmt.Sprintf("avail %v", any) {
				add("C19:AnyVersionAvailable", fmt.Sprintf("AnyVersionAvailable(%s) = %q but the resource lists %v", tok(f[1]), o, verList(r)))
			}
		}
	case "getversion":
		if r := after.res[tok(f[1])]; r != nil && o != "version "+strings.TrimSuffix(r.sel, "!ghost") {
			add("C19:GetVersion", fmt.Sprintf("GetVersion(%s) = %q but the selected version is %s", tok(f[1]), o, r.sel))
		}
	}
	return vs
}

func verList(r *mRes) []string {
	out := make([]string, len(r.vs))
	for i, v := range r.vs {
		fl := ""
		for _, x := range []struct {
			b bool
			s string
		}{{v.avail, "A"}, {v.cur, "C"}, {v.pre, "P"}, {v.bl, "B"}} {
			if x.b {
				fl += x.s
			}
		}
		out[i] = v.num + ":" + fl
	}
	return out
}

func sortedIDs(s *mState) []string {
	ids := make([]string, 0, len(s.res))
	for id := range s.res {
		ids = append(ids, id)
	}
	sort.Strings(ids)
	return ids
}

func main() {
	log.SetLogLevel(log.CriticalLevel) // before log.Start every emitted line parks a goroutine
	hxlib.Main(&hxlib.Harness{
		Prop:     "C19",
		Rule:     rule,
		Generate: generate,
		NewExec:  newExec,
		Monitor:  monitor,
	})
}
