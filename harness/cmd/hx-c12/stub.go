package main

import "verifharness/hxlib"

const ruleText = "stub"

func generate(r *hxlib.Run, emit func(hxlib.Case)) {
	emit(hxlib.Case{Lines: []string{
		"authset 1",
		"req h 474554 - -/- 6162 0 dyn/A:2:3:1 0 - - -/- T:2:2",
		"req h 474554 - -/- 6162 0 dyn/A:2:3:1 0 - - 506f72746d61737465722d4150492d546f6b656e3d40533040/0 N",
		"adv 305",
		"req h 474554 - -/- 6162 0 dyn/A:2:3:1 0 - - 506f72746d61737465722d4150492d546f6b656e3d40533040/0 N",
		"req h 474554 - -/- 6162 0 dyn/A:2:3:1 0 4265617265722061626364 - -/- N",
		"req h 474554 - -/- 6162 0 dyn/A:2:3:1 0 42656172657220616263 - -/- N",
		"req h 474554 - -/- 6162 0 perm/A:-1:0:1 0 - - -/- T:3:2",
		"req tcp 474554 - -/- 6162 0 perm/A:-1:0:1 0 - - -/- T:3:2",
		"req db 474554 - -/- 6162 0 ep/A:3:4:1 1 - - -/- N",
		"req db 504f5354 - -/- 6162 0 ep/A:3:4:1 1 - - -/- N",
		"req db 504f5354 - -/- 6162 0 ep/A:3:3:1 1 - - -/- N",
	}, NonTrivial: true, Kind: "smoke"})
}

func monitor(c hxlib.Case, outs []string) []hxlib.Violation { return nil }
