// hx-c12: correspondence harness and property monitor for C12 (api request admission).
//
// The real api module is started in-process (database, config, rng, api) with module management,
// requests are served by the handler installed on the API server (the real mainHandler), API keys
// and dev mode are changed through the real config system ("config change" event -> updateAPIKeys),
// the authenticator is registered through SetAuthenticator before the start.
// Time is logical: `adv d` moves the expiry of sessions / imported keys d seconds into the past
// (verif hooks) and configured key expiries are rendered relative to the logical clock.
package main

import (
	"bufio"
	"bytes"
	"encoding/json"
	"errors"
	"fmt"
	"hash/fnv"
	"io"
	"net"
	"net/http"
	"net/http/httptest"
	"net/url"
	"os"
	"path/filepath"
	"regexp"
	"runtime"
	"strconv"
	"strings"
	"sync"
	"sync/atomic"
	"time"

	"github.com/safing/portbase/api"
	"github.com/safing/portbase/config"
	"github.com/safing/portbase/database"
	_ "github.com/safing/portbase/database/dbmodule"
	"github.com/safing/portbase/database/record"
	"github.com/safing/portbase/dataroot"
	"github.com/safing/portbase/log"
	"github.com/safing/portbase/modules"
	_ "github.com/safing/portbase/rng"

	"verifharness/hxlib"
)

const (
	cookieName     = "Portmaster-API-Token"
	bridgeAddr     = "websocket-bridge"
	waitTimeout    = 120 * time.Second // a real hang lasts for ever; 30 s was once exceeded under load average ~50 without a reproducible cause (goroutine dump on a hang: wedge())
	expPlaceholder = "@EXP@"
)

// ---------------------------------------------------------------------------------------------
// world: the one running api module of this process

type doneEv struct {
	hasExpired bool
	n          int
}

type world struct {
	handler   http.Handler
	done      chan doneEv
	cleanup   chan struct{}
	wedged    atomic.Bool // an operation did not return: the server is hung, nothing else can be trusted
	storm     atomic.Bool // widen the window in which config.SaveConfig collects the option locks
	offModule *modules.Module
	db        *database.Interface
	tcp       *httptest.Server

	mu         sync.Mutex
	curAuth    string // T:r:w | N | F | D for the request being served
	authCalled bool
	ran        bool
	ranTok     string

	// harness view of the configuration currently stored
	cfgDev     bool
	cfgKeysSet bool
	authSet    bool
}

var (
	theWorld  *world
	worldOnce sync.Once
)

func die(format string, a ...any) {
	fmt.Fprintf(os.Stderr, "hx-c12: "+format+"\n", a...)
	os.Exit(3)
}

// authenticator is the function registered with api.SetAuthenticator.
func authenticator(r *http.Request, s *http.Server) (*api.AuthToken, error) {
	w := theWorld
	w.mu.Lock()
	w.authCalled = true
	a := w.curAuth
	w.mu.Unlock()
	f := strings.Split(a, ":")
	switch f[0] {
	case "T":
		rd, _ := strconv.Atoi(f[1])
		wr, _ := strconv.Atoi(f[2])
		return &api.AuthToken{Read: api.Permission(rd), Write: api.Permission(wr)}, nil
	case "F":
		return nil, errors.New("c12: authenticator failure")
	case "D":
		return nil, fmt.Errorf("%wdenied by c12", api.ErrAPIAccessDeniedMessage)
	}
	return nil, nil
}

// record what the handler saw, then poison the token (the handler must have received a copy).
func (w *world) handlerRan(rw http.ResponseWriter, r *http.Request) {
	w.handlerRanAR(rw, api.GetAPIRequest(r))
}

func (w *world) handlerRanAR(rw http.ResponseWriter, ar *api.Request) {
	tok := "nil"
	if ar != nil && ar.AuthToken != nil {
		tok = fmt.Sprintf("%d %d", ar.AuthToken.Read, ar.AuthToken.Write)
		ar.AuthToken.Read = api.PermitSelf
		ar.AuthToken.Write = api.PermitSelf
	}
	w.mu.Lock()
	w.ran = true
	w.ranTok = tok
	w.mu.Unlock()
	if rw != nil {
		rw.Header().Set("X-C12-Ran", tok)
		rw.WriteHeader(http.StatusOK)
	}
}

func permFromVars(r *http.Request, name string) api.Permission {
	ar := api.GetAPIRequest(r)
	if ar == nil {
		return api.NotFound
	}
	n, err := strconv.Atoi(ar.URLVars[name])
	if err != nil {
		return api.NotFound
	}
	return api.Permission(n)
}

// dynHandler declares the permissions given in the URL.
type dynHandler struct{}

func (dynHandler) ReadPermission(r *http.Request) api.Permission    { return permFromVars(r, "r") }
func (dynHandler) WritePermission(r *http.Request) api.Permission   { return permFromVars(r, "w") }
func (dynHandler) ServeHTTP(w http.ResponseWriter, r *http.Request) { theWorld.handlerRan(w, r) }

// dynModHandler additionally belongs to a module that is not started.
type dynModHandler struct{ dynHandler }

func (dynModHandler) BelongsTo() *modules.Module { return theWorld.offModule }

// plainModHandler is not an AuthenticatedHandler and belongs to a module that is not started.
type plainModHandler struct{}

func (plainModHandler) ServeHTTP(w http.ResponseWriter, r *http.Request) { theWorld.handlerRan(w, r) }
func (plainModHandler) BelongsTo() *modules.Module                       { return theWorld.offModule }

func (w *world) sink(point string, args ...any) {
	if point == "updateAPIKeys:done" && len(args) == 2 {
		he, _ := args[0].(bool)
		n, _ := args[1].(int)
		select {
		case w.done <- doneEv{he, n}:
		default:
		}
	}
	if point == "apiKeyCleanup:done" {
		select {
		case w.cleanup <- struct{}{}:
		default:
		}
	}
}

// wedge marks the server as hung and, the first time, writes the stacks of all goroutines next to the results (and to
// /var/tmp for the developer): a hang is only useful as a finding if one can see where it hangs.
func wedge(flag *atomic.Bool, where string) {
	if flag.Swap(true) {
		return
	}
	buf := make([]byte, 8<<20)
	buf = buf[:runtime.Stack(buf, true)]
	hdr := []byte("hang detected at: " + where + "  " + time.Now().Format(time.RFC3339Nano) + "\n\n")
	for _, d := range []string{os.Getenv("VERIF_SCRATCH_DIR"), "/var/tmp"} {
		if d != "" {
			_ = os.WriteFile(filepath.Join(d, fmt.Sprintf("c12-hang-goroutines-%d.txt", os.Getpid())), append(hdr, buf...), 0o644)
		}
	}
}

func (w *world) waitDone() (doneEv, bool) {
	select {
	case ev := <-w.done:
		return ev, true
	case <-time.After(waitTimeout):
		return doneEv{}, false
	}
}

func (w *world) drain() {
	for {
		select {
		case <-w.done:
		case <-w.cleanup:
		default:
			return
		}
	}
}

func setup() {
	w := &world{done: make(chan doneEv, 4096), cleanup: make(chan struct{}, 4096), authSet: true}
	defer func() { api.VerifSetAuthenticatorSet(false); w.authSet = false }()
	theWorld = w
	dir := os.Getenv("VERIF_SCRATCH_DIR")
	if dir == "" {
		d, err := os.MkdirTemp("/var/tmp", "hx-c12.")
		if err != nil {
			die("%v", err)
		}
		dir = d
	}
	if err := dataroot.Initialize(filepath.Join(dir, "c12-data"), 0o755); err != nil {
		die("dataroot: %v", err)
	}
	log.SetLogLevel(log.CriticalLevel)
	api.SetDefaultAPIListenAddress("127.0.0.1:0")
	if err := api.SetAuthenticator(authenticator); err != nil {
		die("SetAuthenticator: %v", err)
	}
	api.VerifSetSink(w.sink)
	config.VerifSetSink(func(point string, args ...any) {
		if point == "yield:SaveConfig:option-lock" && w.storm.Load() {
			time.Sleep(400 * time.Microsecond)
		}
	})
	modules.EnableModuleManagement(nil)
	on := modules.Register("c12on", nil, nil, nil, "api", "rng")
	on.Enable()
	w.offModule = modules.Register("c12off", nil, nil, nil)

	api.RegisterHandler("/c12/a/{r}/{w}/1", dynHandler{})
	api.RegisterHandler("/c12/a/{r}/{w}/0", dynModHandler{})
	api.RegisterHandler("/c12/p/1", http.HandlerFunc(func(rw http.ResponseWriter, r *http.Request) { theWorld.handlerRan(rw, r) }))
	api.RegisterHandler("/c12/p/0", plainModHandler{})
	api.RegisterHandler("/c12/nil", nil)
	api.RegisterHandler("/c12/m/{r}/{w}", dynHandler{}).Methods("GET", "POST")

	if err := modules.Start(); err != nil {
		die("modules.Start: %v", err)
	}
	for r := -1; r <= 4; r++ {
		for wr := -1; wr <= 4; wr++ {
			err := api.RegisterEndpoint(api.Endpoint{
				Path: fmt.Sprintf("c12/e/%d/%d", r, wr), Read: api.Permission(r), Write: api.Permission(wr),
				ActionFunc: func(ar *api.Request) (string, error) {
					theWorld.handlerRanAR(nil, ar)
					return "ran", nil
				},
			})
			if err != nil {
				die("RegisterEndpoint: %v", err)
			}
		}
	}
	w.handler = api.VerifHandler()
	if w.handler == nil {
		die("api server handler not installed")
	}
	w.db = database.NewInterface(&database.Options{Local: true, Internal: true})
	w.tcp = httptest.NewServer(w.handler)

	// synchronise with the config-change machinery: let stray start-up imports finish, then see
	// that a config change reaches updateAPIKeys at all
	time.Sleep(300 * time.Millisecond)
	w.drain()
	if err := config.SetConfigOption(api.CfgAPIKeys, []string{}); err != nil {
		die("config: %v", err)
	}
	if _, ok := w.waitDone(); !ok {
		die("config change events do not reach updateAPIKeys")
	}
	time.Sleep(100 * time.Millisecond)
	w.drain()
}

// ---------------------------------------------------------------------------------------------
// per-case executor

type keyTmpl struct {
	tmpl string // raw configured string, may contain expPlaceholder
	exp  int64  // logical expiry substituted for the placeholder
	has  bool
}

type exec struct {
	r        *hxlib.Run
	w        *world
	now      int64 // logical clock (seconds)
	rendered int64 // logical time at which the stored key strings were rendered
	cfg      []keyTmpl
	byString map[string]keyTmpl
	cookies  []string // real cookie value of session id i
}

func newExec(r *hxlib.Run) hxlib.Exec {
	worldOnce.Do(setup)
	w := theWorld
	w.storm.Store(false)
	e := &exec{r: r, w: w, byString: map[string]keyTmpl{}}
	// fresh state
	api.VerifResetSessions()
	if w.authSet {
		api.VerifSetAuthenticatorSet(false)
		w.authSet = false
	}
	if w.cfgDev {
		e.setOption(config.CfgDevModeKey, false)
		w.cfgDev = false
	}
	if w.cfgKeysSet {
		e.setOption(api.CfgAPIKeys, []string{})
		w.cfgKeysSet = false
	}
	return e
}

// setOption changes a config option and waits for the resulting key import(s).
// Returns (size after first import, expired seen, size at the end, ok).
func (e *exec) setOption(key string, val any) (int, bool, int, bool) {
	if e.w.wedged.Load() {
		return 0, false, 0, false
	}
	e.w.drain()
	errc := make(chan error, 1)
	go func() { errc <- config.SetConfigOption(key, val) }()
	select {
	case err := <-errc:
		if err != nil {
			return 0, false, 0, false
		}
	case <-time.After(waitTimeout):
		wedge(&e.w.wedged, "site 1")
		return 0, false, 0, false
	}
	ev, ok := e.w.waitDone()
	if !ok {
		wedge(&e.w.wedged, "site 2")
		return 0, false, 0, false
	}
	last := ev.n
	if ev.hasExpired {
		// the cleanup microtask sets the option to the valid keys: one more import, then it returns
		ev2, ok := e.w.waitDone()
		if ok {
			select {
			case <-e.w.cleanup:
			case <-time.After(waitTimeout):
				ok = false
			}
		}
		if !ok {
			wedge(&e.w.wedged, "site 3")
			return 0, false, 0, false
		}
		if ev2.hasExpired {
			return ev.n, true, -1, true
		}
		last = ev2.n
		// the stored option now holds the valid keys only
		e.readBackKeys()
	}
	return ev.n, ev.hasExpired, last, true
}

func (e *exec) readBackKeys() {
	stored := config.GetAsStringArray(api.CfgAPIKeys, nil)()
	var cfg []keyTmpl
	for _, s := range stored {
		if kt, ok := e.byString[s]; ok {
			cfg = append(cfg, kt)
		} else {
			cfg = append(cfg, keyTmpl{tmpl: s})
		}
	}
	e.cfg = cfg
}

func (e *exec) render() []string {
	e.byString = map[string]keyTmpl{}
	base := time.Now().Truncate(time.Second)
	out := make([]string, len(e.cfg))
	for i, k := range e.cfg {
		s := k.tmpl
		if k.has {
			s = strings.ReplaceAll(s, expPlaceholder, base.Add(time.Duration(k.exp-e.now)*time.Second).UTC().Format(time.RFC3339))
		}
		out[i] = s
		e.byString[s] = k
	}
	e.rendered = e.now
	return out
}

func (e *exec) hasExpiries() bool {
	for _, k := range e.cfg {
		if k.has {
			return true
		}
	}
	return false
}

func showKeys(n1 int, exp bool, n2 int, ok bool) string {
	if !ok {
		return "HANG config change did not complete (SetConfigOption / updateAPIKeys / api key cleanup)"
	}
	x := "0"
	if exp {
		x = "1"
	}
	return fmt.Sprintf("keys %d %s %d", n1, x, n2)
}

// otherChange performs a config change that does not itself alter the keys.
func (e *exec) otherChange(key string, val any) string {
	var first string
	if e.rendered != e.now && e.hasExpiries() {
		// the stored strings carry real timestamps of an older logical time: store them afresh
		first = showKeys(e.setOption(api.CfgAPIKeys, e.render()))
		e.w.cfgKeysSet = true
	}
	n1, exp, n2, ok := e.setOption(key, val)
	second := showKeys(n1, exp, n2, ok)
	if first == "" {
		return second
	}
	if !ok || exp || n1 != n2 || !strings.HasSuffix(first, fmt.Sprintf(" %d", n2)) {
		return "ANOMALY re-import after cleanup: " + first + " then " + second
	}
	return first
}

func unhexField(s string) (string, bool) {
	if s == "-" {
		return "", true
	}
	if len(s)%2 != 0 {
		return "", false
	}
	for i := 0; i < len(s); i++ {
		c := s[i]
		if !(c >= '0' && c <= '9' || c >= 'a' && c <= 'f') {
			return "", false
		}
	}
	return string(hxlib.UnHex(s)), true
}

func hx(s string) string { return hxlib.Hex([]byte(s)) }

func split2(s string) (string, string, bool) {
	i := strings.IndexByte(s, '/')
	if i < 0 || strings.IndexByte(s[i+1:], '/') >= 0 {
		return "", "", false
	}
	return s[:i], s[i+1:], true
}

func (e *exec) Do(line string) string {
	f := strings.Fields(line)
	if len(f) == 0 {
		return "bad-op"
	}
	if e.w.wedged.Load() {
		return "HANG-BEFORE the server was wedged by an earlier operation"
	}
	switch f[0] {
	case "keys":
		cfg, bad := parseEntries(f[1:])
		if bad != "" {
			return bad
		}
		e.cfg = cfg
		e.w.cfgKeysSet = true
		return showKeys(e.setOption(api.CfgAPIKeys, e.render()))
	case "overlap":
		// overlap <entries A> // <entries B>: two configuration changes whose key imports overlap
		sep := -1
		for i, x := range f {
			if x == "//" {
				sep = i
			}
		}
		if sep < 0 {
			return "bad-op"
		}
		cfgA, bad := parseEntries(f[1:sep])
		if bad != "" {
			return bad
		}
		cfgB, bad := parseEntries(f[sep+1:])
		if bad != "" {
			return bad
		}
		for _, k := range append(append([]keyTmpl{}, cfgA...), cfgB...) {
			if k.has || strings.Contains(k.tmpl, "expires=1") || strings.Contains(k.tmpl, "expires=2") {
				return "bad-op" // no expiring keys here: an expired key would add the cleanup's own import
			}
		}
		return e.overlap(cfgA, cfgB)
	case "cfgchange":
		if len(f) != 1 {
			return "bad-op"
		}
		return e.otherChange(config.CfgDevModeKey, e.w.cfgDev)
	case "dev":
		if len(f) != 2 || (f[1] != "0" && f[1] != "1") {
			return "bad-op"
		}
		e.w.cfgDev = f[1] == "1"
		return e.otherChange(config.CfgDevModeKey, e.w.cfgDev)
	case "storm":
		if len(f) != 2 || (f[1] != "0" && f[1] != "1") {
			return "bad-op"
		}
		e.w.storm.Store(f[1] == "1")
		return "ok"
	case "authset":
		if len(f) != 2 || (f[1] != "0" && f[1] != "1") {
			return "bad-op"
		}
		e.w.authSet = f[1] == "1"
		api.VerifSetAuthenticatorSet(e.w.authSet)
		return "ok"
	case "adv":
		if len(f) != 2 {
			return "bad-op"
		}
		d, err := strconv.ParseInt(f[1], 10, 64)
		if err != nil || d < 0 {
			return "bad-op"
		}
		e.now += d
		api.VerifAgeSessions(time.Duration(d) * time.Second)
		api.VerifAgeAPIKeys(time.Duration(d) * time.Second)
		return "ok"
	case "clean":
		if len(f) != 1 {
			return "bad-op"
		}
		api.VerifCleanSessions()
		_, n := api.VerifCounts()
		return fmt.Sprintf("sessions %d", n)
	case "logout":
		if len(f) != 2 {
			return "bad-op"
		}
		id, err := strconv.Atoi(f[1])
		if err != nil || id < 0 {
			return "bad-op"
		}
		// the real auth/reset endpoint
		r := httptest.NewRequest("GET", "/api/v1/auth/reset", nil)
		r.Host = "c12.test"
		r.Header.Set("Cookie", cookieName+"="+e.cookieValue(id))
		rec, hung := e.serve(r)
		if hung {
			return "HANG auth/reset"
		}
		if rec.Code != http.StatusUnauthorized {
			return fmt.Sprintf("ANOMALY auth/reset answered %d", rec.Code)
		}
		_, n := api.VerifCounts()
		return fmt.Sprintf("sessions %d", n)
	case "req":
		if len(f) != 13 {
			return "bad-op"
		}
		return e.doReq(f[1:])
	case "bridgeraw":
		// an arbitrary key read through the bridge database (implementation only: scope of the bridge)
		if len(f) != 2 {
			return "bad-op"
		}
		key, ok := unhexField(f[1])
		if !ok {
			return "bad-op"
		}
		w := e.w
		w.mu.Lock()
		w.curAuth, w.authCalled, w.ran, w.ranTok = "N", false, false, ""
		w.mu.Unlock()
		code, _ := e.dbRequest("GET", key)
		if code < 0 {
			return "HANG bridged request not answered"
		}
		w.mu.Lock()
		ran, ranTok := w.ran, w.ranTok
		w.mu.Unlock()
		if ran {
			return "br inv " + ranTok
		}
		return fmt.Sprintf("br st %d", code)
	case "raw":
		// raw bytes on a fresh TCP connection to the server (implementation only: totality)
		if len(f) != 2 {
			return "bad-op"
		}
		b, ok := unhexField(f[1])
		if !ok {
			return "bad-op"
		}
		return e.rawTCP(b)
	}
	return "bad-op"
}

func parseEntries(ents []string) ([]keyTmpl, string) {
	var cfg []keyTmpl
	for _, ent := range ents {
		raw, view, ok := split2(ent)
		if !ok {
			return nil, "bad-op"
		}
		tmpl, ok := unhexField(raw)
		if !ok {
			return nil, "bad-op"
		}
		kt := keyTmpl{tmpl: tmpl}
		vf := strings.Split(view, ":")
		if vf[0] == "K" && len(vf) == 5 {
			if t, err := strconv.ParseInt(vf[4], 10, 64); err == nil {
				kt.exp, kt.has = t, true
			}
		}
		if v := entryView(tmpl, kt.exp); v != view {
			return nil, "VIEW-MISMATCH key " + v
		}
		cfg = append(cfg, kt)
	}
	return cfg, ""
}

// overlapWindow is how long the second import gets to overtake the first one, which is parked right
// after it has read the configuration. On code that reads the configuration inside the critical
// section of the key map the second import cannot run at all during that time (it waits for the
// lock held by the parked one), so the window always elapses in full.
const overlapWindow = 400 * time.Millisecond

// overlap: the option is set to A; the import started by that change is parked at the instant it has
// read the option (value A); the option is set to B and the import started by that change may run;
// then the first import is released. After both imports have finished (quiescence) the key map must
// be the import of B, the configured value, whatever the order in which the imports installed.
func (e *exec) overlap(cfgA, cfgB []keyTmpl) string {
	w := e.w
	if w.wedged.Load() {
		return "HANG-BEFORE the server was wedged by an earlier operation"
	}
	w.drain()
	parked := make(chan struct{}, 1)
	release := make(chan struct{})
	var armed atomic.Bool
	armed.Store(true)
	restore := api.VerifWrapConfiguredAPIKeys(func(get func() []string) func() []string {
		return func() []string {
			v := get()
			if armed.CompareAndSwap(true, false) {
				parked <- struct{}{}
				select {
				case <-release:
				case <-time.After(waitTimeout):
				}
			}
			return v
		}
	})
	set := func(cfg []keyTmpl) bool {
		e.cfg = cfg
		errc := make(chan error, 1)
		go func() { errc <- config.SetConfigOption(api.CfgAPIKeys, e.render()) }()
		select {
		case err := <-errc:
			return err == nil
		case <-time.After(waitTimeout):
			return false
		}
	}
	fail := func(what string) string {
		armed.Store(false)
		close(release)
		wedge(&w.wedged, "site 4")
		return "HANG " + what
	}
	w.cfgKeysSet = true
	if !set(cfgA) {
		return fail("config change did not complete")
	}
	select {
	case <-parked:
	case <-time.After(waitTimeout):
		return fail("the key import of a config change did not start")
	}
	if !set(cfgB) {
		return fail("config change did not complete while a key import was in progress")
	}
	done := 0
	select {
	case <-w.done:
		done++ // the second import ran to completion while the first one was parked
		e.r.Count("overlap:second-import-overtook")
	case <-time.After(overlapWindow):
		e.r.Count("overlap:second-import-waited")
	}
	close(release)
	for done < 2 {
		if _, ok := w.waitDone(); !ok {
			wedge(&w.wedged, "site 5")
			return "HANG overlapping key imports did not complete"
		}
		done++
	}
	restore()
	n, _ := api.VerifCounts()
	return fmt.Sprintf("keys %d 0 %d", n, n)
}

func (e *exec) cookieValue(id int) string {
	if id < len(e.cookies) {
		return e.cookies[id]
	}
	return fmt.Sprintf("unknown-session-%d", id)
}

func junkCookieID(v string) int {
	h := fnv.New32a()
	h.Write([]byte(v))
	return 900000 + int(h.Sum32()%90000)
}

var sessPlaceholder = regexp.MustCompile(`@S([0-9]+)@`)

func (e *exec) substCookies(raw string) string {
	return sessPlaceholder.ReplaceAllStringFunc(raw, func(m string) string {
		n, err := strconv.Atoi(m[2 : len(m)-1])
		if err != nil || n >= 100000 {
			return m
		}
		return e.cookieValue(n)
	})
}

// serve runs the request through the server's handler; hung = no return within the timeout.
func (e *exec) serve(r *http.Request) (*httptest.ResponseRecorder, bool) {
	rec := httptest.NewRecorder()
	done := make(chan struct{})
	go func() {
		defer close(done)
		e.w.handler.ServeHTTP(rec, r)
	}()
	select {
	case <-done:
		return rec, false
	case <-time.After(waitTimeout):
		wedge(&e.w.wedged, "site 6")
		return rec, true
	}
}

// views of the parsed parts of a request (what the model receives), computed with the same
// library calls the implementation uses.
func originView(raw string) string {
	if raw == "" {
		return "-"
	}
	u, err := url.Parse(raw)
	if err != nil {
		return "E"
	}
	return "P:" + hx(u.Host) + ":" + hx(u.Hostname()) + ":" + hx(u.Scheme)
}

func basicView(authz string) string {
	r := &http.Request{Header: http.Header{}}
	if authz != "" {
		r.Header["Authorization"] = []string{authz}
	}
	u, p, _ := r.BasicAuth()
	return hx(u + p)
}

func cookieValueOf(rawCookie string) (string, bool) {
	r := &http.Request{Header: http.Header{}}
	if rawCookie != "" {
		r.Header["Cookie"] = []string{rawCookie}
	}
	c, err := r.Cookie(cookieName)
	if err != nil {
		return "", false
	}
	return c.Value, true
}

// entryView is the parsed view of one configured key string (placeholder expiry = logical t).
func entryView(tmpl string, t int64) string {
	probe := strings.ReplaceAll(tmpl, expPlaceholder, "2030-01-01T00:00:00Z")
	u, err := url.Parse(probe)
	if err != nil {
		return "E"
	}
	q := u.Query()
	exp := "-"
	if x := q.Get("expires"); x != "" {
		tu, _ := url.Parse(tmpl)
		switch {
		case tu != nil && tu.Query().Get("expires") == expPlaceholder:
			exp = strconv.FormatInt(t, 10)
		default:
			pt, err := time.Parse(time.RFC3339, x)
			switch {
			case err != nil:
				exp = "B"
			case pt.Year() < 2020:
				exp = "0" // literal far past
			case pt.Year() > 2200:
				exp = "99999999999" // literal far future
			default:
				exp = "B" // not used by the generator
			}
		}
	}
	return "K:" + hx(u.Path) + ":" + hx(q.Get("read")) + ":" + hx(q.Get("write")) + ":" + exp
}

func routePath(target, view string) (string, bool) {
	vf := strings.Split(view, ":")
	switch target {
	case "dyn":
		if vf[0] == "A" && len(vf) == 4 {
			return "/c12/a/" + vf[1] + "/" + vf[2] + "/" + vf[3], true
		}
	case "plain":
		if vf[0] == "P" && len(vf) == 2 {
			return "/c12/p/" + vf[1], true
		}
	case "nil":
		if view == "Z" {
			return "/c12/nil", true
		}
	case "m":
		if view == "M" || view == "A:2:3:1" {
			return "/c12/m/2/3", true
		}
	case "none":
		if view == "N" {
			return "/c12/none", true
		}
	case "ep":
		if vf[0] == "A" && len(vf) == 4 && vf[3] == "1" {
			return "/api/v1/c12/e/" + vf[1] + "/" + vf[2], true
		}
	case "epnone":
		if view == "A:-2:-2:1" {
			return "/api/v1/c12/missing", true
		}
	case "perm":
		if view == "A:-1:0:1" {
			return "/api/v1/auth/permissions", true
		}
	}
	return "", false
}

func dirtyPath(p string) string {
	// a path that cleanRequestPath changes
	i := strings.Index(p[1:], "/")
	if i < 0 {
		return p + "/."
	}
	return p[:i+1] + "//" + p[i+2:]
}

func (e *exec) doReq(f []string) string {
	via := f[0]
	method, ok1 := unhexField(f[1])
	acrm, ok2 := unhexField(f[2])
	oRawHex, oView, ok3 := split2(f[3])
	host, ok4 := unhexField(f[4])
	dirty := f[5]
	target, rView, ok5 := split2(f[6])
	bridge := f[7]
	authz, ok6 := unhexField(f[8])
	basicV := f[9]
	cRawHex, cView, ok7 := split2(f[10])
	au := f[11]
	if !(ok1 && ok2 && ok3 && ok4 && ok5 && ok6 && ok7) || (dirty != "0" && dirty != "1") || (bridge != "0" && bridge != "1") {
		return "bad-op"
	}
	oRaw, ok1 := unhexField(oRawHex)
	cRawT, ok2 := unhexField(cRawHex)
	if !ok1 || !ok2 {
		return "bad-op"
	}
	switch strings.Split(au, ":")[0] {
	case "T":
		if len(strings.Split(au, ":")) != 3 {
			return "bad-op"
		}
	case "N", "F", "D":
	default:
		return "bad-op"
	}
	path, ok := routePath(target, rView)
	if !ok {
		return "bad-op"
	}
	if target == "m" && (rView == "M") != (method != "GET" && method != "POST") {
		return "VIEW-MISMATCH route"
	}
	if dirty == "1" {
		path = dirtyPath(path)
	}
	cRaw := e.substCookies(cRawT)
	// check the parsed views against what the libraries produce now
	if v := originView(oRaw); v != oView {
		return "VIEW-MISMATCH origin " + v
	}
	if v := basicView(authz); v != basicV {
		return "VIEW-MISMATCH basic " + v
	}
	// the cookie view: a value that is the value of an issued session is that session; anything
	// else is classified on the template (unknown-session-N / junk), which cannot name a real session
	cv := cookieViewOf(cRawT)
	if val, ok := cookieValueOf(cRaw); ok {
		for i, c := range e.cookies {
			if c == val {
				cv = strconv.Itoa(i)
			}
		}
	} else {
		cv = "-"
	}
	if cv != cView {
		return "VIEW-MISMATCH cookie " + cv
	}

	w := e.w
	w.mu.Lock()
	w.curAuth, w.authCalled, w.ran, w.ranTok = au, false, false, ""
	w.mu.Unlock()

	var code int
	var hdr http.Header
	var body []byte
	switch via {
	case "h":
		r := httptest.NewRequest("GET", "/", nil)
		r.Method = method
		r.URL = &url.URL{Path: path}
		r.RequestURI = path
		r.Host = host
		if bridge == "1" {
			r.RemoteAddr = bridgeAddr
		}
		setHdr := func(k, v string) {
			if v != "" {
				r.Header[k] = []string{v}
			}
		}
		setHdr("Origin", oRaw)
		setHdr("Access-Control-Request-Method", acrm)
		setHdr("Authorization", authz)
		setHdr("Cookie", cRaw)
		rec, hung := e.serve(r)
		if hung {
			return "HANG request not answered"
		}
		code, hdr, body = rec.Code, rec.Header(), rec.Body.Bytes()
	case "tcp":
		if bridge == "1" {
			return "bad-op"
		}
		var err error
		code, hdr, body, err = e.tcpRequest(method, path, host, oRaw, acrm, authz, cRaw)
		if err != nil {
			return "TCP-ERROR " + err.Error()
		}
	case "db":
		if bridge != "1" || (target != "ep" && target != "epnone" && target != "perm") || oRaw != "" || acrm != "" || authz != "" || cRaw != "" || dirty == "1" {
			return "bad-op"
		}
		code, body = e.dbRequest(method, strings.TrimPrefix(path, "/api/v1/"))
		if code < 0 {
			return "HANG bridged request not answered"
		}
	default:
		return "bad-op"
	}

	w.mu.Lock()
	ran, ranTok, ac := w.ran, w.ranTok, w.authCalled
	w.mu.Unlock()
	if via == "tcp" {
		if t := hdr.Get("X-C12-Ran"); t != "" && !ran {
			ran, ranTok = true, t
		}
	}
	if target == "perm" && code == 200 && !ran {
		// the real auth/permissions endpoint reports the token it saw
		var p struct{ Read, Write *int }
		if json.Unmarshal(body, &p) == nil && p.Read != nil && p.Write != nil {
			ran, ranTok = true, fmt.Sprintf("%d %d", *p.Read, *p.Write)
		}
	}
	head := fmt.Sprintf("st %d", code)
	if ran {
		head = "inv " + ranTok
		e.r.Count("outcome:invoked")
	} else {
		e.r.Count(fmt.Sprintf("outcome:status-%d", code))
	}
	b01 := func(b bool) string {
		if b {
			return "1"
		}
		return "0"
	}
	if via == "db" {
		return head + " ac=" + b01(ac)
	}
	sc := "-"
	for _, c := range (&http.Response{Header: hdr}).Cookies() {
		if c.Name == cookieName && c.Value != "" && c.MaxAge >= 0 {
			e.cookies = append(e.cookies, c.Value)
			sc = strconv.Itoa(len(e.cookies) - 1)
		}
	}
	return head + " ac=" + b01(ac) + " sc=" + sc + " co=" + b01(hdr.Get("Access-Control-Allow-Origin") != "") + " wa=" + b01(hdr.Get("WWW-Authenticate") != "")
}

func (e *exec) tcpRequest(method, path, host, origin, acrm, authz, cookie string) (int, http.Header, []byte, error) {
	conn, err := net.DialTimeout("tcp", e.w.tcp.Listener.Addr().String(), waitTimeout)
	if err != nil {
		return 0, nil, nil, err
	}
	defer conn.Close()
	_ = conn.SetDeadline(time.Now().Add(waitTimeout))
	var b bytes.Buffer
	fmt.Fprintf(&b, "%s %s HTTP/1.1\r\nHost: %s\r\n", method, path, host)
	add := func(k, v string) {
		if v != "" {
			fmt.Fprintf(&b, "%s: %s\r\n", k, v)
		}
	}
	add("Origin", origin)
	add("Access-Control-Request-Method", acrm)
	add("Authorization", authz)
	add("Cookie", cookie)
	if method == "POST" || method == "PUT" {
		b.WriteString("Content-Length: 0\r\n")
	}
	b.WriteString("Connection: close\r\n\r\n")
	if _, err := conn.Write(b.Bytes()); err != nil {
		return 0, nil, nil, err
	}
	resp, err := http.ReadResponse(bufio.NewReader(conn), &http.Request{Method: method})
	if err != nil {
		return 0, nil, nil, errors.New("no response: " + strings.SplitN(err.Error(), "\n", 2)[0])
	}
	defer resp.Body.Close()
	rb, _ := io.ReadAll(io.LimitReader(resp.Body, 1<<20))
	return resp.StatusCode, resp.Header, rb, nil
}

// rawTCP writes arbitrary bytes and reports the status code of the first response, if any.
func (e *exec) rawTCP(b string) string {
	conn, err := net.DialTimeout("tcp", e.w.tcp.Listener.Addr().String(), waitTimeout)
	if err != nil {
		return "TCP-ERROR " + err.Error()
	}
	defer conn.Close()
	_ = conn.SetDeadline(time.Now().Add(2 * time.Second))
	if _, err := conn.Write([]byte(b)); err != nil {
		return "raw write-failed"
	}
	if tc, ok := conn.(*net.TCPConn); ok {
		_ = tc.CloseWrite()
	}
	resp, err := http.ReadResponse(bufio.NewReader(conn), nil)
	if err != nil {
		return "raw no-response"
	}
	resp.Body.Close()
	e.r.Count(fmt.Sprintf("raw-tcp:status-%d", resp.StatusCode))
	return fmt.Sprintf("raw %d", resp.StatusCode)
}

var bridgeCode = regexp.MustCompile(`unexpected error code ([0-9]+)`)

// dbRequest goes through the database interface of the "api" bridge database.
func (e *exec) dbRequest(method, key string) (int, []byte) {
	type res struct {
		err  error
		body []byte
	}
	ch := make(chan res, 1)
	go func() {
		var err error
		var body []byte
		if method == "GET" {
			var rec record.Record
			rec, err = e.w.db.Get("api:" + key)
			if resp, ok := rec.(*api.EndpointBridgeResponse); ok && err == nil {
				body = []byte(resp.Body)
			}
		} else {
			ebr := &api.EndpointBridgeRequest{Method: method}
			ebr.SetKey("api:" + key)
			ebr.UpdateMeta()
			err = e.w.db.Put(ebr)
		}
		ch <- res{err, body}
	}()
	select {
	case r := <-ch:
		switch {
		case r.err == nil:
			return 200, r.body
		case strings.Contains(r.err.Error(), "bridged api call failed"):
			return 500, nil
		}
		if m := bridgeCode.FindStringSubmatch(r.err.Error()); m != nil {
			n, _ := strconv.Atoi(m[1])
			return n, nil
		}
		return 999, nil
	case <-time.After(waitTimeout):
		wedge(&e.w.wedged, "site 7")
		return -1, nil
	}
}

func main() {
	hxlib.Main(&hxlib.Harness{
		Prop:     "C12",
		Rule:     ruleText,
		Generate: generate,
		NewExec:  newExec,
		Monitor:  monitor,
	})
}
