package main

import (
	"fmt"
	"strings"

	"verifharness/hxlib"
)

// Histories about the FINALITY of expiry and reset: a credential that has died (session left unused
// for more than one TTL, session reset through auth/reset, API key past its expiry) is presented
// again and again - 2 to 4 times in a row, with and without other events in between, before and
// after the session cleaner / a key re-import, through GET and POST handlers with different
// declared permissions. Every presentation must be refused like an unknown credential; in
// particular a refusal must not change what the next presentation is granted.

// presentation plan: (method, which class, route kind)
type presPlan struct {
	m      mv
	write  bool
	target string // dyn | ep | m
}

var presPlans = []presPlan{
	{mv{"GET", ""}, false, "dyn"}, {mv{"POST", ""}, true, "dyn"}, {mv{"HEAD", ""}, false, "dyn"}, {mv{"DELETE", ""}, true, "dyn"},
	{mv{"PUT", ""}, true, "dyn"}, {mv{"GET", ""}, false, "ep"}, {mv{"POST", ""}, true, "ep"}, {mv{"GET", ""}, false, "m"}, {mv{"POST", ""}, true, "m"},
}

// presReq builds a request of plan p whose handler declares `need` for the class of the method and
// something else (drawn) for the other class.
func (g *gen) presReq(p presPlan, need int) reqSpec {
	other := g.pickInt([]int{1, 2, 3, 4, 0, -1})
	r, w := need, other
	if p.write {
		r, w = other, need
	}
	q := reqSpec{method: p.m.m, acrm: p.m.acrm}
	switch p.target {
	case "ep":
		if need < -1 || need > 4 || other < -1 || other > 4 {
			q.target, q.rview = dynRoute(r, w)
		} else {
			q.target, q.rview = "ep", fmt.Sprintf("A:%d:%d:1", r, w)
		}
	case "m":
		// the method-restricted route declares read 2 / write 3
		q.target, q.rview = "m", "A:2:3:1"
	default:
		q.target, q.rview = dynRoute(r, w)
	}
	return q
}

type between struct {
	name  string
	lines func(g *gen, live int) []string // live = id of a second, live session (or -1)
}

func (g *gen) anonReq() string {
	t, v := dynRoute(g.pickInt([]int{1, 2, 3, -1}), g.pickInt([]int{1, 2, 3}))
	return g.req(reqSpec{method: g.pick([]string{"GET", "POST"}), target: t, rview: v})
}

var betweens = []between{
	{"none", func(g *gen, live int) []string { return nil }},
	{"anon-request", func(g *gen, live int) []string { return []string{g.anonReq()} }},
	{"other-session", func(g *gen, live int) []string {
		t, v := dynRoute(2, 2)
		return []string{g.req(reqSpec{method: "GET", target: t, rview: v, cookie: sessCookie(live)})}
	}},
	{"new-session", func(g *gen, live int) []string {
		t, v := dynRoute(-1, -1)
		return []string{g.req(reqSpec{method: "GET", target: t, rview: v, au: "T:2:2"})}
	}},
	{"clean", func(g *gen, live int) []string { return []string{"clean"} }},
	{"adv1", func(g *gen, live int) []string { return []string{"adv 1"} }},
	{"adv10", func(g *gen, live int) []string { return []string{"adv 10"} }},
	{"adv250", func(g *gen, live int) []string { return []string{"adv 250"} }},
	{"adv400", func(g *gen, live int) []string { return []string{"adv 400"} }},
	{"cfgchange", func(g *gen, live int) []string { return []string{"cfgchange"} }},
	{"unknown-cookie", func(g *gen, live int) []string {
		t, v := dynRoute(2, 2)
		return []string{g.req(reqSpec{method: "GET", target: t, rview: v, cookie: sessCookie(7)})}
	}},
	{"adv1-clean-adv1", func(g *gen, live int) []string { return []string{"adv 1", "clean", "adv 1"} }},
}

type death struct {
	name  string
	lines func(g *gen, ck string) []string
}

// slide: the session is used k times, each time shortly before it would expire, then left alone.
func slide(k int, gaps []int64, final int64) func(g *gen, ck string) []string {
	return func(g *gen, ck string) []string {
		var out []string
		t, v := dynRoute(2, 2)
		for i := 0; i < k; i++ {
			out = append(out, fmt.Sprintf("adv %d", gaps[i%len(gaps)]),
				g.req(reqSpec{method: g.pick([]string{"GET", "POST", "HEAD"}), target: t, rview: v, cookie: ck}))
		}
		return append(out, fmt.Sprintf("adv %d", final))
	}
}

func advOnly(d int64) func(g *gen, ck string) []string {
	return func(g *gen, ck string) []string { return []string{fmt.Sprintf("adv %d", d)} }
}

var deaths = []death{
	{"expired+1s", advOnly(301)},
	{"expired+4s", advOnly(304)},
	{"expired+10s", advOnly(310)},
	{"expired+10min", advOnly(900)},
	{"expired-then-cleaned", func(g *gen, ck string) []string { return []string{"adv 301", "clean"} }},
	{"slid1-expired", slide(1, []int64{280}, 301)},
	{"slid2-expired", slide(2, []int64{250, 280}, 302)},
	{"slid3-expired", slide(3, []int64{280, 200, 270}, 301)},
	{"slid4-expired", slide(4, []int64{100, 280, 280, 150}, 330)},
	{"cleaner-ran-while-live-then-expired", func(g *gen, ck string) []string {
		// the cleaner is no use of the session: it must not slide it
		return []string{"adv 200", "clean", "adv 80", "clean", "adv 30"}
	}},
	{"logout", func(g *gen, ck string) []string { return []string{"logout 0"} }},
	{"logout-after-use", func(g *gen, ck string) []string {
		t, v := dynRoute(2, 2)
		return []string{"adv 100", g.req(reqSpec{method: "GET", target: t, rview: v, cookie: ck}), "logout 0"}
	}},
	{"expired-then-logout", func(g *gen, ck string) []string { return []string{"adv 305", "logout 0"} }},
}

var deadTokens = [][2]int{{3, 3}, {4, 4}, {2, 3}, {3, 2}, {4, 1}, {2, 2}}

// deadSessions: session 0 is created for an authenticator token, dies, and its cookie is presented
// n = 2..4 times; session 1 stays alive (it is used in between) and must keep working.
func (g *gen) deadSessions() {
	rounds := g.r.Budget(1, 12)
	k := 0
	for round := 0; round < rounds; round++ {
		for _, d := range deaths {
			for _, b := range betweens {
				for n := 2; n <= 4; n++ {
					k++
					tk := deadTokens[k%len(deadTokens)]
					if round > 0 {
						tk = deadTokens[g.rng.Intn(len(deadTokens))]
					}
					tD, vD := dynRoute(-1, -1)
					ck := sessCookie(0)
					lines := []string{"authset 1",
						g.req(reqSpec{method: "GET", target: tD, rview: vD, au: fmt.Sprintf("T:%d:%d", tk[0], tk[1])})}
					lines = append(lines, d.lines(g, ck)...)
					// a second session, created when the first one is already dead: it is live throughout
					lines = append(lines, g.req(reqSpec{method: "GET", target: tD, rview: vD, au: "T:2:3"}))
					first := (k + round) % len(presPlans)
					for i := 0; i < n; i++ {
						if i > 0 {
							lines = append(lines, b.lines(g, 1)...)
						}
						p := presPlans[(first+i*2+g.rng.Intn(2))%len(presPlans)]
						// what the session's token would satisfy - a revived session shows as an invocation
						need := tk[0]
						if p.write {
							need = tk[1]
						}
						if need > 1 && g.rng.Intn(3) == 0 {
							need = 2
						}
						if g.rng.Intn(12) == 0 {
							need = g.pickInt([]int{-1, 1, 4, 0, -2, 5})
						}
						q := g.presReq(p, need)
						q.cookie = ck
						q.au = g.pick([]string{"N", "N", "N", "N", "D", "F"})
						if g.rng.Intn(10) == 0 {
							q.via = "tcp"
						}
						if g.rng.Intn(8) == 0 {
							q.cookie = "a=b; " + ck + "; c=d"
						}
						lines = append(lines, g.req(q))
					}
					// the live session still works, the dead one still does not
					t2, v2 := dynRoute(2, 3)
					lines = append(lines,
						g.req(reqSpec{method: "POST", target: t2, rview: v2, cookie: sessCookie(1)}),
						g.req(reqSpec{method: g.pick([]string{"GET", "POST"}), target: t2, rview: v2, cookie: ck}))
					g.r.Count("dead-session:" + d.name)
					g.r.Count("dead-session-between:" + b.name)
					g.r.Count(fmt.Sprintf("dead-session-presentations:%d", n+1))
					g.out("dead-session", lines)
				}
			}
		}
	}
	// exactly at the expiry instant (implementation only: the real clock has passed the instant by the
	// time the request is served, the model's `now > validUntil` has not; the monitor leaves it undecided)
	for _, pre := range [][]string{{"adv 300"}, {"adv 280", "@use", "adv 300"}, {"adv 150", "@use", "adv 150", "@use", "adv 300"}} {
		for n := 2; n <= 4; n++ {
			tD, vD := dynRoute(-1, -1)
			lines := []string{"authset 1", g.req(reqSpec{method: "GET", target: tD, rview: vD, au: "T:3:3"})}
			t, v := dynRoute(3, 3)
			for _, l := range pre {
				if l == "@use" {
					l = g.req(reqSpec{method: "GET", target: t, rview: v, cookie: sessCookie(0)})
				}
				lines = append(lines, l)
			}
			for i := 0; i < n; i++ {
				lines = append(lines, g.req(reqSpec{method: g.pick([]string{"GET", "POST"}), target: t, rview: v, cookie: sessCookie(0)}))
			}
			// one second later it is certainly dead, whatever happened at the instant itself... unless a
			// presentation at the instant was (legitimately) still live and slid it: advance a full TTL
			lines = append(lines, "adv 301")
			for i := 0; i < n; i++ {
				lines = append(lines, g.req(reqSpec{method: g.pick([]string{"GET", "POST"}), target: t, rview: v, cookie: sessCookie(0)}))
			}
			g.r.Count("dead-session:at-expiry-instant")
			g.emit(hxlib.Case{Lines: lines, NonTrivial: true, Kind: "dead-session-at-instant", NoModel: true})
		}
	}
}

// deadKeys: an API key passes its expiry while it is still in the key map (and, in other variants, is
// dropped by a re-import / the cleanup) and is presented n = 2..4 times.
func (g *gen) deadKeys() {
	type kdeath struct {
		name  string
		lines []string
	}
	// keys are configured at t=10; "soon" expires at t=55, "later" at t=400
	entries := []string{
		keyEntry("dead-soon-00000?read=admin&write=admin&expires="+expPlaceholder, 55),
		keyEntry("dead-later-0000?read=user&write=admin&expires="+expPlaceholder, 400),
		keyEntry("live-key-000000?read=user&write=user", 0),
	}
	setKeys := "keys " + strings.Join(entries, " ")
	kdeaths := []kdeath{
		{"expired+1s", []string{"adv 46"}},
		{"expired+5s", []string{"adv 50"}},
		{"expired+long", []string{"adv 1000"}},
		{"expired-then-reimport", []string{"adv 60", "cfgchange"}},
		{"expired-then-set-again", []string{"adv 60", setKeys}},
		{"used-then-expired", []string{"adv 20", "@use", "adv 26"}},
		{"expired-dev-toggle", []string{"adv 60", "dev 1", "dev 0"}},
	}
	kbetween := [][]string{nil, {"@live"}, {"cfgchange"}, {"adv 1"}, {"adv 400"}, {"@anon"}, {setKeys}, {"adv 1", "cfgchange", "adv 1"}}
	rounds := g.r.Budget(1, 10)
	k := 0
	for round := 0; round < rounds; round++ {
		for _, d := range kdeaths {
			for bi, b := range kbetween {
				for n := 2; n <= 4; n++ {
					k++
					key := "dead-soon-00000"
					lines := []string{"authset 1", "adv 10", setKeys}
					subst := func(l string) string {
						t, v := dynRoute(2, 2)
						switch l {
						case "@use":
							return g.req(reqSpec{method: "GET", target: t, rview: v, authz: "Bearer " + key})
						case "@live":
							return g.req(reqSpec{method: "POST", target: t, rview: v, authz: "Bearer live-key-000000"})
						case "@anon":
							return g.anonReq()
						}
						return l
					}
					for _, l := range d.lines {
						lines = append(lines, subst(l))
					}
					first := (k + round) % len(presPlans)
					for i := 0; i < n; i++ {
						if i > 0 {
							for _, l := range b {
								lines = append(lines, subst(l))
							}
						}
						p := presPlans[(first+i*2+g.rng.Intn(2))%len(presPlans)]
						q := g.presReq(p, g.pickInt([]int{2, 3, 3, 3}))
						if g.rng.Intn(12) == 0 {
							q = g.presReq(p, g.pickInt([]int{-1, 1, 4, 0}))
						}
						q.authz = "Bearer " + key
						if (k+i)%3 == 0 {
							q.authz = basicOf(key, g.rng.Intn(len(key)+1))
						}
						q.au = g.pick([]string{"N", "N", "N", "D", "F"})
						lines = append(lines, g.req(q))
					}
					t2, v2 := dynRoute(2, 2)
					lines = append(lines, g.req(reqSpec{method: "GET", target: t2, rview: v2, authz: "Bearer live-key-000000"}),
						g.req(reqSpec{method: "POST", target: t2, rview: v2, authz: "Bearer " + key}))
					g.r.Count("dead-key:" + d.name)
					g.r.Count(fmt.Sprintf("dead-key-between:%d", bi))
					g.out("dead-key", lines)
				}
			}
		}
	}
}

// overlappedImports: core/apiKeys is changed twice in a row while the key import started by the first
// change is still in progress (it is parked right after it has read the option; every config change
// event runs the import hook in its own goroutine). After both imports have finished, exactly the keys
// of the second value may grant: a key that was removed, lowered or replaced by the second change must
// not come back through a late install of the first import.
func (g *gen) overlappedImports() {
	ent := func(name string, r, w int) string {
		return keyEntry(fmt.Sprintf("%s?read=%s&write=%s", name, permName[r], permName[w]), 0)
	}
	const kK, kL, kM, kN = "ovl-key-K-000000", "ovl-key-L-000000", "ovl-key-M-000000", "ovl-key-N-000000"
	type scen struct {
		name        string
		start, a, b []string
	}
	K, L, M, N := ent(kK, 3, 3), ent(kL, 2, 2), ent(kM, 3, 2), ent(kN, 2, 3)
	Klow := ent(kK, 1, 1)
	Kuser := ent(kK, 2, 2)
	scens := []scen{
		{"removed", []string{K, L}, []string{K, L}, []string{L}},
		{"all-removed", []string{K}, []string{K}, nil},
		{"lowered", []string{K, L}, []string{K, L}, []string{Kuser, L}},
		{"lowered-to-anyone", []string{K}, []string{K, M}, []string{Klow}},
		{"replaced", []string{K}, []string{K, M}, []string{N}},
		{"added-then-removed", nil, []string{K, M}, nil},
		{"same", []string{K, L}, []string{K, L}, []string{K, L}},
		{"raised", []string{Kuser}, []string{Kuser}, []string{K}},
		{"reordered-duplicate", []string{K}, []string{Kuser, K}, []string{K, Kuser}},
	}
	rounds := g.r.Budget(1, 6)
	for round := 0; round < rounds; round++ {
		for _, sc := range scens {
			lines := []string{"authset 1"}
			if sc.start != nil || g.rng.Intn(2) == 0 {
				lines = append(lines, strings.TrimSpace("keys "+strings.Join(sc.start, " ")))
			}
			lines = append(lines, strings.TrimSpace("overlap "+strings.Join(sc.a, " "))+" // "+strings.Join(sc.b, " "))
			lines[len(lines)-1] = strings.TrimSpace(lines[len(lines)-1])
			probe := func() {
				for _, key := range []string{kK, kL, kM, kN} {
					for _, p := range []presPlan{presPlans[0], presPlans[1]} {
						for _, need := range []int{3, 2} {
							if round > 0 && g.rng.Intn(2) == 0 {
								continue
							}
							q := g.presReq(p, need)
							q.authz = "Bearer " + key
							if g.rng.Intn(4) == 0 {
								q.authz = basicOf(key, g.rng.Intn(len(key)+1))
							}
							lines = append(lines, g.req(q))
						}
					}
				}
			}
			probe()
			// any later config change re-imports the configured value
			lines = append(lines, g.pick([]string{"cfgchange", "dev 0", "cfgchange"}))
			probe()
			g.r.Count("overlapped-import:" + sc.name)
			g.out("overlapped-import", lines)
		}
	}
}
