package main

import (
	"encoding/base64"
	"fmt"
	"math/rand"
	"strconv"
	"strings"

	"verifharness/hxlib"
)

const ruleText = "one case = fresh api state (no keys, no sessions, dev mode off, authenticator flag off, logical clock 0) followed by op lines: " +
	"config changes through the real config system (keys/dev/cfgchange/overlap), authset, adv (logical clock), clean, logout (real auth/reset endpoint) and req lines served by the real mainHandler " +
	"(directly, over a real TCP connection, or through the database bridge). Families: complete decision tables required permission x granted read x granted write x method class per credential source " +
	"(authenticator, API key Bearer/Basic, session cookie, dev mode, bridge), origin x host x dev-mode tables, route tables (no match, method mismatch, nil handler, plain handler, module not ready, dirty path, endpoints), " +
	"key-configuration parsing, dead-credential histories (a session that expired / was slid k times and expired / was reset, an API key past its expiry, presented 2-4 times in a row with and without other events, the session cleaner or a key re-import in between, through read and write handlers), overlapped key imports (the option is changed again while the import of the previous value is parked right after its configuration read; probes after quiescence), random histories of key changes / session creation / expiry / reset with repeated presentations, and grammar+mutation Authorization/Cookie/Origin header strings. " +
	"A case is non-trivial if at least one of its requests reaches a registered handler route with a credential decision to take; distinct by the hash of its op lines."

var permPool = []int{-2, -1, 0, 1, 2, 3, 4, 5, -3, 100, -100, 127, -128}
var permCore = []int{-2, -1, 0, 1, 2, 3, 4, 5}

type reqSpec struct {
	via    string
	method string
	acrm   string
	origin string
	host   string
	dirty  bool
	target string
	rview  string
	bridge bool
	authz  string
	cookie string // raw Cookie header template (@S<n>@ = value of session n)
	au     string
}

func b01(b bool) string {
	if b {
		return "1"
	}
	return "0"
}

func cookieViewOf(raw string) string {
	v, ok := cookieValueOf(raw)
	if !ok {
		return "-"
	}
	if m := sessPlaceholder.FindStringSubmatch(v); m != nil && m[0] == v {
		if n, err := strconv.Atoi(m[1]); err == nil && n < 100000 {
			return strconv.Itoa(n)
		}
	}
	return strconv.Itoa(junkCookieID(v))
}

func (q reqSpec) line() string {
	via := q.via
	if via == "" {
		via = "h"
	}
	au := q.au
	if au == "" {
		au = "N"
	}
	host := q.host
	return strings.Join([]string{"req", via, hx(q.method), hx(q.acrm), hx(q.origin) + "/" + originView(q.origin), hx(host), b01(q.dirty),
		q.target + "/" + q.rview, b01(q.bridge), hx(q.authz), basicView(q.authz), hx(q.cookie) + "/" + cookieViewOf(q.cookie), au}, " ")
}

func dynRoute(r, w int) (string, string) { return "dyn", fmt.Sprintf("A:%d:%d:1", r, w) }

func sessCookie(id int) string { return fmt.Sprintf("%s=@S%d@", cookieName, id) }

func basicOf(key string, cut int) string {
	if cut > len(key) {
		cut = len(key)
	}
	return "Basic " + base64.StdEncoding.EncodeToString([]byte(key[:cut]+":"+key[cut:]))
}

// keyEntry renders a configured key string and its view.
func keyEntry(tmpl string, t int64) string { return hx(tmpl) + "/" + entryView(tmpl, t) }

var permName = map[int]string{1: "anyone", 2: "user", 3: "admin"}

type gen struct {
	r    *hxlib.Run
	rng  *rand.Rand
	emit func(hxlib.Case)
}

func (g *gen) pick(ss []string) string { return ss[g.rng.Intn(len(ss))] }
func (g *gen) pickInt(ss []int) int    { return ss[g.rng.Intn(len(ss))] }

func (g *gen) out(kind string, lines []string) {
	g.emit(hxlib.Case{Lines: lines, NonTrivial: true, Kind: kind})
}

// method variants: (method, acrm)
type mv struct{ m, acrm string }

var methodTable = []mv{{"GET", ""}, {"HEAD", ""}, {"POST", ""}, {"PUT", ""}, {"DELETE", ""}, {"OPTIONS", ""}, {"OPTIONS", "GET"},
	{"OPTIONS", "DELETE"}, {"OPTIONS", "PATCH"}, {"PATCH", ""}}

var methodRare = []mv{{"", ""}, {"get", ""}, {"TRACE", ""}, {"CONNECT", ""}, {"OPTIONS", "OPTIONS"}, {"OPTIONS", "HEAD"}, {"OPTIONS", "PUT"},
	{"OPTIONS", "POST"}, {"GET", "POST"}, {"POST", "GET"}, {"Get", ""}, {"OPTIONS", "get"}, {"options", "GET"}}

func (g *gen) count(q reqSpec) {
	r := g.r
	r.Count("method:" + q.method)
	if q.method == "OPTIONS" {
		r.Count("preflight-header:" + q.acrm)
	}
	r.Count("route:" + q.target)
	r.Count("via:" + q.via)
	r.Count("cred-authz:" + authzClass(q.authz))
	r.Count("cred-cookie:" + b01(q.cookie != ""))
	r.Count("authenticator:" + strings.SplitN(q.au, ":", 2)[0])
	r.Count("origin:" + originClass(q.origin))
	if q.bridge {
		r.Count("bridge-remote-addr")
	}
	if q.dirty {
		r.Count("dirty-path")
	}
}

func authzClass(a string) string {
	switch {
	case a == "":
		return "none"
	case strings.HasPrefix(a, "Bearer "):
		if len(a)-7 < 4 {
			return "bearer-short"
		}
		return "bearer"
	case strings.HasPrefix(a, "Basic "):
		if v, _ := unhexField(basicView(a)); len(v) < 4 {
			return "basic-short-or-malformed"
		}
		return "basic"
	}
	return "other-scheme"
}

func originClass(o string) string {
	switch {
	case o == "":
		return "none"
	case originView(o) == "E":
		return "unparsable"
	case strings.HasPrefix(o, "chrome-extension:"):
		return "extension"
	case strings.Contains(o, "127.0.0.1") || strings.Contains(o, "localhost"):
		return "local"
	}
	return "other"
}

func (g *gen) req(q reqSpec) string {
	if q.via == "" {
		q.via = "h"
	}
	if q.au == "" {
		q.au = "N"
	}
	if q.host == "" {
		q.host = "c12.test"
	}
	g.count(q)
	return q.line()
}

// ---------------------------------------------------------------------------------------------

func generate(r *hxlib.Run, emit func(hxlib.Case)) {
	g := &gen{r: r, rng: r.Rng, emit: emit}
	g.regressions()
	g.deadSessions()
	g.deadKeys()
	g.overlappedImports()
	g.tableAuthenticator()
	g.randomPerms()
	g.tableKeys()
	g.tableCookies()
	g.tableDevBridge()
	g.tableOrigins()
	g.tableRoutes()
	g.keyConfigs()
	g.bridgeDB()
	g.tcp()
	g.expiredKeyStorm()
	g.rawTCP()
	g.bridgeScope()
	for i := 0; i < r.Budget(2800, 80000); i++ {
		g.history()
	}
	for i := 0; i < r.Budget(2500, 40000); i++ {
		g.headers()
	}
}

// regressions: minimised past failures, always first.
func (g *gen) regressions() {
	t, v := dynRoute(2, 2)
	var lines []string
	for _, a := range []string{"Bearer abc", "Bearer ", "Bearer a", "Basic !!!", "Basic " + base64.StdEncoding.EncodeToString([]byte("a:b")), "Basic YWJj", "Basic"} {
		lines = append(lines, g.req(reqSpec{method: "GET", target: t, rview: v, authz: a}))
	}
	g.out("regression", lines)
}

// tableAuthenticator: required x granted read x granted write x method, credential = authenticator.
func (g *gen) tableAuthenticator() {
	pool := permCore
	if g.r.Thorough {
		pool = permPool
	}
	for _, gr := range pool {
		for _, gw := range pool {
			lines := []string{"authset 1"}
			for _, req := range permPool {
				for _, m := range methodTable {
					// read and write requirement differ so that a class mix-up shows
					other := g.pickInt(permPool)
					rr, ww := req, other
					if g.rng.Intn(2) == 0 {
						rr, ww = other, req
					}
					if g.rng.Intn(3) == 0 {
						rr, ww = req, req
					}
					t, v := dynRoute(rr, ww)
					lines = append(lines, g.req(reqSpec{method: m.m, acrm: m.acrm, target: t, rview: v, au: fmt.Sprintf("T:%d:%d", gr, gw)}))
				}
			}
			g.out("table-authenticator", lines)
		}
	}
	// authenticator nil / error / denied / not registered
	for _, set := range []string{"0", "1"} {
		for _, au := range []string{"N", "F", "D", "T:3:3"} {
			lines := []string{"authset " + set}
			for _, req := range permPool {
				for _, m := range methodTable {
					t, v := dynRoute(req, req)
					lines = append(lines, g.req(reqSpec{method: m.m, acrm: m.acrm, target: t, rview: v, au: au}))
				}
			}
			g.out("table-authenticator-modes", lines)
		}
	}
}

// randomPerms: declared and granted permissions drawn from the whole int8 range (uniform in the
// magnitude class first: around the scale, small, anywhere), all credential-independent routes.
func (g *gen) randomPerms() {
	draw := func() int {
		switch g.rng.Intn(4) {
		case 0:
			return g.rng.Intn(9) - 3 // -3 .. 5
		case 1:
			return g.rng.Intn(33) - 16
		case 2:
			return g.pickInt([]int{-128, -127, -126, 126, 127, 4, 5, 1, 0})
		}
		return g.rng.Intn(256) - 128
	}
	for i := 0; i < g.r.Budget(150, 3000); i++ {
		lines := []string{"authset 1"}
		for k := 0; k < 60; k++ {
			m := methodTable[g.rng.Intn(len(methodTable))]
			t, v := dynRoute(draw(), draw())
			q := reqSpec{method: m.m, acrm: m.acrm, target: t, rview: v, au: fmt.Sprintf("T:%d:%d", draw(), draw())}
			if g.rng.Intn(3) == 0 {
				q.cookie = sessCookie(g.rng.Intn(k + 1))
				q.au = "N"
			}
			lines = append(lines, g.req(q))
		}
		g.out("random-int8-perms", lines)
	}
}

func stdKeys() (entries []string, names map[[2]int]string) {
	names = map[[2]int]string{}
	for r := 1; r <= 3; r++ {
		for w := 1; w <= 3; w++ {
			n := fmt.Sprintf("key-%s-%s-0123456789", permName[r], permName[w])
			names[[2]int{r, w}] = n
			entries = append(entries, keyEntry(fmt.Sprintf("%s?read=%s&write=%s", n, permName[r], permName[w]), 0))
		}
	}
	return
}

// tableKeys: every configured key permission pair x Bearer/Basic x required x method,
// plus expired / unknown / short / malformed credentials against the same table.
func (g *gen) tableKeys() {
	entries, names := stdKeys()
	entries = append(entries,
		keyEntry("exp-soon-000000?read=admin&write=admin&expires="+expPlaceholder, 55),
		keyEntry("exp-past-000000?read=admin&write=admin&expires="+expPlaceholder, 0-0+1), // expires at t=1, configured at t=10
		keyEntry("exp-late-000000?read=user&write=user&expires="+expPlaceholder, 100005),
		keyEntry("ab?read=admin&write=admin", 0), // a configured key shorter than four bytes
	)
	setup := []string{"authset 1", "adv 10", "keys " + strings.Join(entries, " ")}
	for r := 1; r <= 3; r++ {
		for w := 1; w <= 3; w++ {
			key := names[[2]int{r, w}]
			for _, az := range []string{"Bearer " + key, basicOf(key, 4), basicOf(key, 0), basicOf(key, len(key))} {
				lines := append([]string{}, setup...)
				for _, req := range permPool {
					for _, m := range methodTable {
						other := g.pickInt(permCore)
						rr, ww := req, other
						if g.rng.Intn(2) == 0 {
							rr, ww = other, req
						}
						t, v := dynRoute(rr, ww)
						// an authenticator result is offered too: the key must win
						lines = append(lines, g.req(reqSpec{method: m.m, acrm: m.acrm, target: t, rview: v, authz: az, au: g.pick([]string{"N", "T:4:4", "T:1:1", "D", "F"})}))
					}
				}
				g.out("table-key", lines)
			}
		}
	}
	bad := []string{"Bearer exp-past-000000", "Bearer exp-soon-000000", "Bearer exp-late-000000", "Bearer ab", "Bearer nokey-zzzzzz", "Bearer ", "Bearer a", "Bearer abc", "Bearer abcd",
		"Bearer key-admin-admin-012345678", "Bearer key-admin-admin-0123456789x", "Bearer  key-admin-admin-0123456789", "Bearer key-admin-admin-0123456789 ",
		"bearer key-admin-admin-0123456789", "BEARER key-admin-admin-0123456789", "Bearer\tkey-admin-admin-0123456789", "Bearerkey-admin-admin-0123456789",
		"Token key-admin-admin-0123456789", "key-admin-admin-0123456789", "Basic", "Basic ", "Basic !!!", "Basic YWJj", "Basic " + base64.StdEncoding.EncodeToString([]byte("a:b")),
		"Basic " + base64.StdEncoding.EncodeToString([]byte(":")), "basic " + base64.StdEncoding.EncodeToString([]byte("key-admin-admin-:0123456789")),
		"Basic " + base64.StdEncoding.EncodeToString([]byte("key-admin-admin-0123456789")), "Basic " + base64.RawStdEncoding.EncodeToString([]byte("key-admin:-admin-0123456789")),
		"Basic " + base64.StdEncoding.EncodeToString([]byte("nokey:zzzzzz")), "Basic " + base64.StdEncoding.EncodeToString([]byte("a:b:")), basicOf("ab", 1),
		"Bearer key-admin-admin-0123456789\x00", "Bearer \xff\xfe\xfd\xfc\xfb", "Bearer " + strings.Repeat("k", 20000)}
	for phase := 0; phase < 2; phase++ {
		for _, az := range bad {
			lines := append([]string{}, setup...)
			if phase == 1 {
				lines = append(lines, "adv 100") // exp-soon is now expired while still in the map
			}
			for _, req := range permCore {
				for _, m := range []mv{{"GET", ""}, {"POST", ""}, {"OPTIONS", "PUT"}} {
					t, v := dynRoute(req, req)
					lines = append(lines, g.req(reqSpec{method: m.m, acrm: m.acrm, target: t, rview: v, authz: az, au: g.pick([]string{"N", "N", "D", "T:2:2"})}))
				}
			}
			g.out("table-bad-key", lines)
		}
	}
}

// tableCookies: a session is created by the authenticator, then used / aged / reset.
func (g *gen) tableCookies() {
	pool := []int{1, 2, 3, 4}
	tD, vD := dynRoute(-1, -1)
	for _, gr := range append(pool, 0, 5) {
		for _, gw := range append(pool, -1, 100) {
			for variant := 0; variant < 4; variant++ {
				lines := []string{"authset 1", g.req(reqSpec{method: "GET", target: tD, rview: vD, au: fmt.Sprintf("T:%d:%d", gr, gw)})}
				ck := sessCookie(0)
				switch variant {
				case 1:
					lines = append(lines, "adv 280")
				case 2:
					lines = append(lines, "adv 305")
				case 3:
					lines = append(lines, "adv 200", g.req(reqSpec{method: "GET", target: tD, rview: vD, cookie: ck}), "adv 200")
				}
				for _, req := range permCore {
					for _, m := range []mv{{"GET", ""}, {"HEAD", ""}, {"POST", ""}, {"DELETE", ""}, {"OPTIONS", "PUT"}, {"OPTIONS", ""}, {"PATCH", ""}} {
						t, v := dynRoute(req, g.pickInt(permCore))
						if m.m == "POST" || m.m == "DELETE" || m.acrm == "PUT" {
							t, v = dynRoute(g.pickInt(permCore), req)
						}
						lines = append(lines, g.req(reqSpec{method: m.m, acrm: m.acrm, target: t, rview: v, cookie: ck, au: g.pick([]string{"N", "N", "D", "F"})}))
					}
				}
				g.out("table-cookie", lines)
			}
		}
	}
	// unknown / reset / cleaned / malformed cookies
	cookies := []string{sessCookie(7), cookieName + "=", cookieName, cookieName + "=x", "other=@S0@", "a=b; " + sessCookie(0) + "; c=d", cookieName + "=\"@S0@\"",
		cookieName + "=@S0@; " + cookieName + "=zzz", cookieName + "=zzz; " + sessCookie(0), strings.ToLower(cookieName) + "=@S0@", cookieName + " = @S0@", ";;;" + sessCookie(0), cookieName + "=@S0@x"}
	for _, pre := range [][]string{nil, {"logout 0"}, {"adv 305", "clean"}, {"adv 100", "clean"}, {"logout 3"}} {
		lines := []string{"authset 1", g.req(reqSpec{method: "GET", target: tD, rview: vD, au: "T:3:2"})}
		lines = append(lines, pre...)
		for _, ck := range append([]string{sessCookie(0)}, cookies...) {
			for _, req := range []int{-1, 1, 2, 3, 4} {
				t, v := dynRoute(req, req)
				lines = append(lines, g.req(reqSpec{method: g.pick([]string{"GET", "POST"}), target: t, rview: v, cookie: ck}))
			}
		}
		g.out("table-cookie-states", lines)
	}
}

// tableDevBridge: dev mode and the bridge address against every requirement, with other credentials present.
func (g *gen) tableDevBridge() {
	entries, names := stdKeys()
	for _, dev := range []bool{false, true} {
		for _, bridge := range []bool{false, true} {
			lines := []string{"authset 1", "keys " + strings.Join(entries, " "), "dev " + b01(dev)}
			for _, req := range permPool {
				for _, m := range methodTable {
					t, v := dynRoute(req, req)
					q := reqSpec{method: m.m, acrm: m.acrm, target: t, rview: v, bridge: bridge}
					switch g.rng.Intn(4) {
					case 1:
						q.authz = "Bearer " + names[[2]int{g.rng.Intn(3) + 1, g.rng.Intn(3) + 1}]
					case 2:
						q.au = g.pick([]string{"T:1:1", "T:2:3", "F", "D"})
					case 3:
						q.authz = "Bearer abc"
					}
					lines = append(lines, g.req(q))
				}
			}
			lines = append(lines, "dev 0")
			t, v := dynRoute(4, 4)
			lines = append(lines, g.req(reqSpec{method: "GET", target: t, rview: v, bridge: bridge}))
			g.out("table-dev-bridge", lines)
		}
	}
}

var originPool = []string{"", "http://c12.test", "https://c12.test", "http://c12.test:817", "https://c12.test:8443", "http://C12.TEST", "http://c12.test.", "http://c12.test@evil.example",
	"http://evil.example", "http://evil.example:817", "http://c12.test.evil.example", "http://evilc12.test", "chrome-extension://abcdefghijklmnop", "chrome-extension:", "moz-extension://abc",
	"Chrome-Extension://abc", "http://127.0.0.1", "http://127.0.0.1:4200", "http://localhost", "http://localhost:4200", "https://localhost.evil.example", "http://127.0.0.2",
	"null", "http://[::1", "%zz://x", "http://a b", "://x", "http://[::1]:817", "file:///etc/passwd", "c12.test", "//c12.test", "http://c12.test/path?x=1", " http://c12.test", "http://c12.test\t"}

var hostPool = []string{"c12.test", "c12.test:817", "127.0.0.1:817", "127.0.0.1", "localhost", "localhost:4200", "[::1]:817", "evil.example"}

// tableOrigins: origin x host x dev mode x method (incl. preflight) with a credential that would pass.
func (g *gen) tableOrigins() {
	for _, dev := range []bool{false, true} {
		for _, host := range hostPool {
			lines := []string{"authset 1", "dev " + b01(dev)}
			for _, o := range originPool {
				for _, m := range []mv{{"GET", ""}, {"POST", ""}, {"OPTIONS", "GET"}, {"OPTIONS", ""}, {"OPTIONS", "PATCH"}} {
					req := g.pickInt([]int{1, 2, 3, 4, -1, 0, -2})
					t, v := dynRoute(req, req)
					q := reqSpec{method: m.m, acrm: m.acrm, origin: o, host: host, target: t, rview: v, au: g.pick([]string{"T:4:4", "T:4:4", "N", "F"})}
					if g.rng.Intn(6) == 0 {
						q.target, q.rview = g.pick([]string{"nil", "none", "plain"}), ""
						switch q.target {
						case "nil":
							q.rview = "Z"
						case "none":
							q.rview = "N"
						default:
							q.rview = "P:1"
						}
					}
					lines = append(lines, g.req(q))
				}
			}
			g.out("table-origin", lines)
		}
	}
	// the Host header itself empty
	lines := []string{"authset 1"}
	t, v := dynRoute(2, 2)
	for _, o := range originPool {
		lines = append(lines, reqSpec{via: "h", method: "GET", origin: o, host: "", target: t, rview: v, au: "T:4:4"}.line())
	}
	g.out("table-origin", lines)
}

func (g *gen) routeFor(target string, m string) (string, string) {
	switch target {
	case "dyn0":
		return "dyn", fmt.Sprintf("A:%d:%d:0", g.pickInt(permCore), g.pickInt(permCore))
	case "plain1":
		return "plain", "P:1"
	case "plain0":
		return "plain", "P:0"
	case "nil":
		return "nil", "Z"
	case "m":
		if m == "GET" || m == "POST" {
			return "m", "A:2:3:1"
		}
		return "m", "M"
	case "none":
		return "none", "N"
	case "ep":
		return "ep", fmt.Sprintf("A:%d:%d:1", g.rng.Intn(6)-1, g.rng.Intn(6)-1)
	case "epnone":
		return "epnone", "A:-2:-2:1"
	case "perm":
		return "perm", "A:-1:0:1"
	}
	r, w := g.pickInt(permCore), g.pickInt(permCore)
	return dynRoute(r, w)
}

// tableRoutes: every route kind x method x credential strength x dirty path.
func (g *gen) tableRoutes() {
	targets := []string{"dyn", "dyn0", "plain1", "plain0", "nil", "m", "none", "ep", "epnone", "perm"}
	for _, au := range []string{"N", "T:1:1", "T:2:2", "T:3:3", "T:4:4", "T:4:1", "T:1:4"} {
		for _, dirty := range []bool{false, true} {
			lines := []string{"authset 1"}
			for _, tg := range targets {
				for _, m := range append(append([]mv{}, methodTable...), methodRare...) {
					if (tg == "ep" || tg == "perm") && (m.m == "OPTIONS" || m.m == "options") {
						continue // an Endpoint answers OPTIONS itself after being invoked
					}
					if tg == "perm" && m.m != "GET" {
						continue
					}
					t, v := g.routeFor(tg, m.m)
					lines = append(lines, g.req(reqSpec{method: m.m, acrm: m.acrm, dirty: dirty, target: t, rview: v, au: au,
						origin: g.pick([]string{"", "", "", "http://c12.test"})}))
				}
			}
			g.out("table-route", lines)
		}
	}
}

var permWords = []string{"", "anyone", "user", "admin", "Anyone", "USER", "Admin", "ADMIN", "self", "Self", "root", "0", "3", "admin ", " admin", "adm%C4%B0n", "ADM%C4%B0N", "%E2%84%AAuser", "an%C5%BFone", "user%00", "admin%FF", "%FFadmin", "us%E2%84%AAer"}

// keyConfigs: the parsing of the core/apiKeys option and what the resulting keys grant.
func (g *gen) keyConfigs() {
	n := g.r.Budget(800, 12000)
	for i := 0; i < n; i++ {
		lines := []string{"authset 1", "adv 1000"}
		var creds []string
		for round := 0; round < 1+g.rng.Intn(3); round++ {
			var entries []string
			for k := 0; k < 1+g.rng.Intn(6); k++ {
				name := g.pick([]string{"alpha-key-000", "beta-key-0000", "k", "abc", "ke%20y-with-space", "a/b/c-key", "k%C3%A9y-unicode", "dup-key-0000", "dup-key-0000", "", "%zz", "key:with:colon", "http://host/path-key", "//host-only", "UPPER-key-00"})
				var qs []string
				if g.rng.Intn(4) > 0 {
					qs = append(qs, "read="+g.pick(permWords))
				}
				if g.rng.Intn(4) > 0 {
					qs = append(qs, "write="+g.pick(permWords))
				}
				exp := int64(0)
				switch g.rng.Intn(8) {
				case 0:
					exp = 1000 + int64(g.rng.Intn(3))*100 + 55
					qs = append(qs, "expires="+expPlaceholder)
				case 1:
					exp = int64(g.rng.Intn(9))*100 + 5
					qs = append(qs, "expires="+expPlaceholder)
				case 2:
					qs = append(qs, "expires="+g.pick([]string{"garbage", "2030-01-01", "1999-01-01T00:00:00Z", "2999-01-01T00:00:00Z", "0", "1999-01-01T00:00:00%2B01:00"}))
				}
				if g.rng.Intn(10) == 0 {
					qs = append(qs, "read=admin") // duplicate parameter: the first one counts
				}
				s := name
				if len(qs) > 0 {
					s += "?" + strings.Join(qs, "&")
				}
				entries = append(entries, keyEntry(s, exp))
				if v := entryView(s, exp); strings.HasPrefix(v, "K:") {
					if p, ok := unhexField(strings.Split(v, ":")[1]); ok && p != "" {
						creds = append(creds, p)
					}
				}
				g.r.Count("key-entry:" + strings.SplitN(entryView(s, exp), ":", 2)[0])
			}
			lines = append(lines, "keys "+strings.Join(entries, " "))
			for _, c := range creds {
				t, v := dynRoute(g.pickInt([]int{2, 3, 4}), g.pickInt([]int{2, 3, 4}))
				az := "Bearer " + c
				if g.rng.Intn(3) == 0 {
					az = basicOf(c, g.rng.Intn(len(c)+1))
				}
				lines = append(lines, g.req(reqSpec{method: g.pick([]string{"GET", "POST"}), target: t, rview: v, authz: az}))
			}
			switch g.rng.Intn(4) {
			case 0:
				lines = append(lines, "adv 100")
			case 1:
				lines = append(lines, "adv 100", "cfgchange")
			case 2:
				lines = append(lines, "cfgchange")
			}
		}
		g.out("key-config", lines)
	}
}

// bridgeScope: keys that try to leave /api/v1/ through the database bridge (implementation only).
func (g *gen) bridgeScope() {
	keys := []string{"c12/e/3/3", "c12/e/4/4", "../c12/a/3/3/1", "../../c12/a/3/3/1", "c12/e/1/1/../../../../../c12/a/3/3/1", "/../c12/a/3/3/1", "..", "../", ".",
		"../api/v1/c12/e/3/3", "c12/../c12/e/3/3", "./c12/e/1/1", "..%2f..%2fc12/a/3/3/1", "%2e%2e/%2e%2e/c12/a/3/3/1", "c12/e/3/3/../../../../c12/p/1", "../../c12/p/1",
		"..\\..\\c12\\a\\3\\3\\1", "c12/e/3/3?x=/../../", "../v1/../../c12/a/1/1/1", "../v1x/c12/a/1/1/1", "//c12/a/3/3/1", "../../c12/m/2/3"}
	lines := []string{"authset 1"}
	for _, k := range keys {
		lines = append(lines, "bridgeraw "+hx(k))
	}
	g.emit(hxlib.Case{Lines: lines, NonTrivial: true, Kind: "bridge-scope", NoModel: true})
}

// rawTCP: malformed HTTP on the wire (implementation only); the server must keep answering afterwards.
func (g *gen) rawTCP() {
	junk := []string{"", "\r\n\r\n", "GET", "GET / HTTP/1.1\r\n", "GET /c12/a/2/2/1 HTTP/1.1\r\nHost: c12.test\r\nAuthorization: Bearer \x00\x01\r\n\r\n",
		"GET /c12/a/2/2/1 HTTP/1.1\r\nHost: c12.test\r\nAuthorization: Bearer abc\r\n\r\n", "GET /c12/a/2/2/1 HTTP/1.1\r\nHost: c12.test\r\nAuthorization: Basic !!!\r\nAuthorization: Bearer x\r\n\r\n",
		"GET /c12/a/2/2/1 HTTP/1.0\r\nOrigin: null\r\n\r\n", "GET /c12/a/2/2/1 HTTP/1.1\r\nHost: c12.test\r\nCookie: " + cookieName + "=\"\r\n\r\n",
		"GET /c12/a/2/2/1 HTTP/1.1\r\nHost: c12.test\r\nOrigin: http://c12.test\r\nOrigin: http://evil.example\r\n\r\n", "OPTIONS * HTTP/1.1\r\nHost: c12.test\r\n\r\n",
		"GET http://evil.example/c12/a/1/1/1 HTTP/1.1\r\nHost: c12.test\r\n\r\n", "G\x00T / HTTP/1.1\r\nHost: x\r\n\r\n", "GET /%zz HTTP/1.1\r\nHost: c12.test\r\n\r\n",
		"GET /c12/a/2/2/1 HTTP/1.1\r\nHost: c12.test\r\nAuthorization: Bearer " + strings.Repeat("A", 2000000) + "\r\n\r\n", "POST /c12/a/1/1/1 HTTP/1.1\r\nHost: c12.test\r\nContent-Length: 10\r\n\r\nabc",
		"GET /c12/a/2/2/1 HTTP/1.1\r\nHost: c12.test\r\nAuthorization:Bearer\r\n\r\n", "GET /c12//a/2/2/1/../1 HTTP/1.1\r\nHost: c12.test\r\n\r\n", "CONNECT c12.test:80 HTTP/1.1\r\nHost: c12.test\r\n\r\n"}
	for i := 0; i < g.r.Budget(6, 60); i++ {
		lines := []string{"authset 1"}
		t, v := dynRoute(2, 2)
		for k := 0; k < 8; k++ {
			j := g.pick(junk)
			if g.rng.Intn(3) == 0 {
				b := []byte(j)
				for m := 0; m < 1+g.rng.Intn(4) && len(b) > 0; m++ {
					b[g.rng.Intn(len(b))] = byte(g.rng.Intn(256))
				}
				j = string(b)
			}
			lines = append(lines, "raw "+hx(j), g.req(reqSpec{via: "tcp", method: "GET", target: t, rview: v, au: "T:2:2"}))
		}
		g.emit(hxlib.Case{Lines: lines, NonTrivial: true, Kind: "raw-tcp", NoModel: true})
	}
}

// expiredKeyStorm: configurations containing an already expired key, back to back. Each of them makes
// updateAPIKeys start the "api key cleanup" microtask, which writes the option concurrently with the
// caller of the first config change (a lock-order deadlock between two config.SaveConfig calls wedged
// the config system and, through apiKeysLock, every request presenting a key).
func (g *gen) expiredKeyStorm() {
	n := g.r.Budget(60, 1000)
	for i := 0; i < n; i++ {
		lines := []string{"authset 1", "adv 1000", "storm 1"}
		t, v := dynRoute(2, 2)
		for k := 0; k < 10; k++ {
			name := fmt.Sprintf("storm-key-%d-%d", i, k)
			entries := []string{keyEntry(name+"-live?read=user&write=user", 0), keyEntry(name+"-dead?read=admin&expires="+expPlaceholder, 500)}
			lines = append(lines, "keys "+strings.Join(entries, " "),
				g.req(reqSpec{method: "GET", target: t, rview: v, authz: "Bearer " + name + "-live"}),
				g.req(reqSpec{method: "GET", target: t, rview: v, authz: "Bearer " + name + "-dead"}))
		}
		g.out("expired-key-storm", lines)
	}
}

// bridgeDB: requests that really travel through the database interface of the bridge.
func (g *gen) bridgeDB() {
	for _, dev := range []bool{false, true} {
		lines := []string{"authset 1"}
		if dev {
			lines = append(lines, "dev 1")
		}
		for r := -1; r <= 4; r++ {
			for w := -1; w <= 4; w++ {
				for _, m := range []string{"GET", "POST", "PUT", "DELETE"} {
					lines = append(lines, g.req(reqSpec{via: "db", method: m, target: "ep", rview: fmt.Sprintf("A:%d:%d:1", r, w), bridge: true, au: "T:4:4"}))
				}
			}
		}
		lines = append(lines, g.req(reqSpec{via: "db", method: "GET", target: "epnone", rview: "A:-2:-2:1", bridge: true}),
			g.req(reqSpec{via: "db", method: "GET", target: "perm", rview: "A:-1:0:1", bridge: true}),
			g.req(reqSpec{via: "db", method: "POST", target: "perm", rview: "A:-1:0:1", bridge: true}))
		g.out("bridge-db", lines)
	}
}

func cleanHeader(s string) bool {
	if s != strings.TrimSpace(s) {
		return false
	}
	for i := 0; i < len(s); i++ {
		if s[i] < 0x20 || s[i] >= 0x7f {
			return false
		}
	}
	return true
}

// tcp: the same kinds of requests over a real TCP connection to an http.Server with the api handler.
func (g *gen) tcp() {
	entries, names := stdKeys()
	n := g.r.Budget(30, 600)
	for i := 0; i < n; i++ {
		lines := []string{"authset 1", "keys " + strings.Join(entries, " ")}
		if g.rng.Intn(4) == 0 {
			lines = append(lines, "dev 1")
		}
		tD, vD := dynRoute(-1, -1)
		lines = append(lines, g.req(reqSpec{via: "tcp", method: "GET", target: tD, rview: vD, au: "T:3:2"}))
		for k := 0; k < 40; k++ {
			m := methodTable[g.rng.Intn(len(methodTable))]
			tg := g.pick([]string{"dyn", "dyn", "dyn", "dyn0", "plain1", "nil", "m", "none", "epnone"})
			t, v := g.routeFor(tg, m.m)
			q := reqSpec{via: "tcp", method: m.m, acrm: m.acrm, target: t, rview: v}
			q.host = g.pick([]string{"c12.test", "c12.test:817", "localhost"})
			q.origin = g.pick([]string{"", "", "http://c12.test", "http://evil.example", "chrome-extension://abc", "http://localhost:4200", "http://[::1"})
			switch g.rng.Intn(6) {
			case 0:
				q.authz = "Bearer " + names[[2]int{g.rng.Intn(3) + 1, g.rng.Intn(3) + 1}]
			case 1:
				q.authz = basicOf(names[[2]int{g.rng.Intn(3) + 1, g.rng.Intn(3) + 1}], 5)
			case 2:
				q.authz = g.pick([]string{"Bearer abc", "Bearer", "Basic !!!", "Basic YWJj", "Bearer nokey-zzzzzz", "Token x"})
			case 3:
				q.cookie = sessCookie(g.rng.Intn(2))
			case 4:
				q.au = g.pick([]string{"T:2:2", "T:4:4", "F", "D", "T:9:9"})
			}
			if !cleanHeader(q.origin) || !cleanHeader(q.authz) {
				continue
			}
			lines = append(lines, g.req(q))
		}
		g.out("tcp", lines)
	}
}

// history: random sequences of key changes, session creation / use / expiry / reset, dev mode, requests.
func (g *gen) history() {
	lines := []string{}
	now := int64(0)
	bounds := []int64{} // logical instants a check must stay away from (session / key expiries)
	type kc struct {
		name string
		exp  int64
	}
	var keys []kc
	sessions := 0 // upper bound of sessions created so far
	authset := false
	// real time only ever makes things older than the logical clock says: keep 20 s before every
	// expiry instant and 4 s after it (second granularity of rendered key expiries)
	avoid := func(t int64) bool {
		for _, b := range bounds {
			if (b >= t && b-t < 20) || (t > b && t-b < 4) {
				return true
			}
		}
		return false
	}
	adv := func(d int64) {
		for avoid(now + d) {
			d += 7
		}
		now += d
		lines = append(lines, fmt.Sprintf("adv %d", d))
	}
	steps := 8 + g.rng.Intn(30)
	for s := 0; s < steps; s++ {
		switch x := g.rng.Intn(100); {
		case x < 8:
			authset = g.rng.Intn(4) > 0
			lines = append(lines, "authset "+b01(authset))
		case x < 20:
			keys = keys[:0]
			var entries []string
			for k := 0; k < g.rng.Intn(5); k++ {
				name := fmt.Sprintf("hist-key-%d-%s", g.rng.Intn(4), g.pick([]string{"aaaa", "bbbb"}))
				r, w := g.rng.Intn(3)+1, g.rng.Intn(3)+1
				str := fmt.Sprintf("%s?read=%s&write=%s", name, permName[r], permName[w])
				exp := int64(0)
				if g.rng.Intn(2) == 0 {
					exp = now + g.pick64([]int64{-500, -50, 20, 100, 300, 1000})
					if exp < 0 {
						exp = 0
					}
					for (exp >= now && exp-now < 20) || (now > exp && now-exp < 4) {
						exp += 7
					}
					bounds = append(bounds, exp)
					str += "&expires=" + expPlaceholder
				}
				entries = append(entries, keyEntry(str, exp))
				keys = append(keys, kc{name, exp})
			}
			lines = append(lines, strings.TrimSpace("keys "+strings.Join(entries, " ")))
		case x < 24:
			lines = append(lines, "dev "+b01(g.rng.Intn(3) == 0))
		case x < 28:
			lines = append(lines, "cfgchange")
		case x < 40:
			adv(g.pick64([]int64{1, 10, 60, 150, 270, 280, 300, 304, 310, 600, 5000}))
		case x < 44:
			lines = append(lines, "clean")
		case x < 48:
			lines = append(lines, fmt.Sprintf("logout %d", g.rng.Intn(sessions+2)))
		default:
			m := methodTable[g.rng.Intn(len(methodTable))]
			if g.rng.Intn(20) == 0 {
				m = methodRare[g.rng.Intn(len(methodRare))]
			}
			tg := g.pick([]string{"dyn", "dyn", "dyn", "dyn", "dyn", "dyn0", "plain1", "nil", "m", "none", "ep", "epnone"})
			if tg == "ep" && strings.EqualFold(m.m, "OPTIONS") {
				tg = "dyn"
			}
			t, v := g.routeFor(tg, m.m)
			q := reqSpec{method: m.m, acrm: m.acrm, target: t, rview: v}
			if g.rng.Intn(8) == 0 {
				q.origin = g.pick(originPool)
				q.host = g.pick(hostPool)
			}
			if g.rng.Intn(25) == 0 {
				q.bridge = true
			}
			if g.rng.Intn(30) == 0 {
				q.dirty = true
			}
			switch c := g.rng.Intn(10); {
			case c < 3 && len(keys) > 0:
				k := keys[g.rng.Intn(len(keys))]
				q.authz = "Bearer " + k.name
				if g.rng.Intn(3) == 0 {
					q.authz = basicOf(k.name, g.rng.Intn(len(k.name)))
				}
			case c < 4:
				q.authz = g.pick([]string{"Bearer hist-key-0-aaaa", "Bearer hist-key-1-bbbb", "Bearer abc", "Bearer ", "Basic !!!", "Token t", "Bearer hist-key-9-zzzz"})
			case c < 7:
				q.cookie = sessCookie(g.rng.Intn(sessions + 1))
			}
			switch a := g.rng.Intn(10); {
			case a < 4:
				q.au = fmt.Sprintf("T:%d:%d", g.pickInt([]int{1, 2, 3, 4, 4, 0, 5}), g.pickInt([]int{1, 2, 3, 4, 4, -1, 100}))
				sessions++
			case a < 5:
				q.au = "F"
			case a < 6:
				q.au = "D"
			}
			bounds = append(bounds, now+300)
			lines = append(lines, g.req(q))
			// the same credential again, 1-3 times in a row (what a refusal or a grant did to the stored
			// state shows in the next presentation), through other methods / declared permissions
			if (q.cookie != "" || q.authz != "") && g.rng.Intn(3) == 0 {
				for k := 1 + g.rng.Intn(3); k > 0; k-- {
					m2 := methodTable[g.rng.Intn(5)]
					t2, v2 := g.routeFor(g.pick([]string{"dyn", "dyn", "ep", "m"}), m2.m)
					q2 := reqSpec{method: m2.m, acrm: m2.acrm, target: t2, rview: v2, cookie: q.cookie, authz: q.authz}
					g.r.Count("history:credential-presented-again")
					lines = append(lines, g.req(q2))
				}
			}
		}
	}
	g.out("history", lines)
}

func (g *gen) pick64(ss []int64) int64 { return ss[g.rng.Intn(len(ss))] }

// headers: Authorization / Cookie / Origin strings from a grammar plus mutation.
func (g *gen) headers() {
	entries, names := stdKeys()
	lines := []string{"authset 1", "keys " + strings.Join(entries, " ")}
	tD, vD := dynRoute(-1, -1)
	lines = append(lines, g.req(reqSpec{method: "GET", target: tD, rview: vD, au: "T:3:3"}))
	mutate := func(s string) string {
		b := []byte(s)
		for k := 0; k < 1+g.rng.Intn(3); k++ {
			switch g.rng.Intn(6) {
			case 0:
				if len(b) > 0 {
					i := g.rng.Intn(len(b))
					b = append(b[:i], b[i+1:]...)
				}
			case 1:
				i := g.rng.Intn(len(b) + 1)
				b = append(b[:i], append([]byte{byte(g.rng.Intn(256))}, b[i:]...)...)
			case 2:
				if len(b) > 0 {
					b[g.rng.Intn(len(b))] ^= 1 << uint(g.rng.Intn(8))
				}
			case 3:
				if len(b) > 0 {
					b = b[:g.rng.Intn(len(b))]
				}
			case 4:
				i := g.rng.Intn(len(b) + 1)
				b = append(b[:i], append([]byte(g.pick([]string{" ", "  ", ":", "=", ";", ",", "\"", "%", "/", "@", "\x00", "\r\n", "Bearer ", "Basic "})), b[i:]...)...)
			case 5:
				b = append(b, b...)
			}
		}
		return string(b)
	}
	key := names[[2]int{g.rng.Intn(3) + 1, g.rng.Intn(3) + 1}]
	for k := 0; k < 40; k++ {
		t, v := dynRoute(g.pickInt([]int{-1, 1, 2, 3, 4}), g.pickInt([]int{-1, 1, 2, 3, 4}))
		q := reqSpec{method: g.pick([]string{"GET", "POST", "OPTIONS"}), target: t, rview: v}
		if q.method == "OPTIONS" {
			q.acrm = g.pick([]string{"GET", "PUT", "", "x"})
		}
		switch g.rng.Intn(3) {
		case 0:
			base := g.pick([]string{"Bearer " + key, basicOf(key, g.rng.Intn(len(key))), "Bearer " + key[:g.rng.Intn(5)], basicOf(key[:g.rng.Intn(4)], 1), "Basic " + key, "Digest " + key})
			q.authz = base
			if g.rng.Intn(3) > 0 {
				q.authz = mutate(base)
			}
		case 1:
			base := g.pick([]string{sessCookie(0), "a=b; " + sessCookie(0), sessCookie(0) + "; " + sessCookie(1), cookieName + "=unknown-session-5"})
			q.cookie = base
			if g.rng.Intn(3) > 0 {
				q.cookie = mutate(base)
			}
			if strings.Contains(q.cookie, "@S") && !sessPlaceholder.MatchString(q.cookie) {
				q.cookie = base
			}
			if v, ok := cookieValueOf(q.cookie); ok && strings.Contains(v, "@S") && !(sessPlaceholder.FindString(v) == v) {
				q.cookie = base // a placeholder must be the whole cookie value
			}
		case 2:
			base := g.pick(originPool)
			q.origin = base
			if g.rng.Intn(2) == 0 {
				q.origin = mutate(base)
			}
			q.host = g.pick(hostPool)
			q.au = "T:4:4"
		}
		lines = append(lines, g.req(q))
	}
	g.out("headers", lines)
}
