package main

import (
	"fmt"
	"path"
	"strconv"
	"strings"

	"verifharness/hxlib"
)

// The monitor is the statement of C12 read literally on what the implementation answered.
// It keeps its own ground truth of the credential state (which keys are configured and unexpired,
// which sessions were issued for which authenticator result and when they were last used) from the
// op lines and the implementation's outputs; it never looks at the model.

type monKey struct {
	r, w int
	exp  int64
	has  bool
}

// monSess is the monitor's ground truth of one session. It follows the PROPERTY, not the
// implementation: a session is live while it has been created / used within the last TTL, and
// expiry and reset are final - once a session has been left unused for more than one TTL (or was
// reset) it grants nothing ever again, no matter how often its cookie is presented afterwards.
// Presenting the cookie of a dead session is not a "use": it must not slide anything.
type monSess struct {
	r, w          int
	lastSure      int64 // last instant the session was certainly created / refreshed
	lastPossible  int64 // last instant a request carried its cookie while the session may still have been live
	deleted       bool  // reset through auth/reset (final)
	expired       bool  // was left unused for more than one TTL (final)
	presentedDead int   // how often the cookie has been presented since the session is dead
}

type mon struct {
	c       hxlib.Case
	outs    []string
	vs      []hxlib.Violation
	now     int64
	dev     bool
	authSet bool
	keys    map[string]monKey
	oldKeys map[string]string // keys that were usable at some time: why they are not (removed / expired at t)
	sess    map[int]*monSess
	cfg     []string // views of the configured entries
}

const sessionTTL = 300

func (m *mon) add(i int, sig, what string) {
	lo := i - 6
	if lo < 0 {
		lo = 0
	}
	// keep the state-setting lines of the case so that the replay is self-contained: everything that
	// is not a request, requests that create a session, and earlier requests presenting the same
	// cookie (a presentation may change what the next presentation of that cookie is granted)
	cookieOf := func(l string) string {
		if f := strings.Fields(l); len(f) == 13 && f[0] == "req" {
			if _, v, ok := split2(f[11]); ok && v != "-" {
				return v
			}
		}
		return ""
	}
	ck := cookieOf(m.c.Lines[i])
	var lines, outs []string
	for j := 0; j < lo; j++ {
		if !strings.HasPrefix(m.c.Lines[j], "req ") || strings.Contains(m.c.Lines[j], " T:") || (ck != "" && cookieOf(m.c.Lines[j]) == ck) {
			lines = append(lines, m.c.Lines[j])
			outs = append(outs, m.outs[j])
		}
	}
	lines = append(lines, m.c.Lines[lo:i+1]...)
	outs = append(outs, m.outs[lo:i+1]...)
	m.vs = append(m.vs, hxlib.Violation{Sig: sig, What: what, Lines: lines, Output: outs})
}

func monitor(c hxlib.Case, outs []string) []hxlib.Violation {
	m := &mon{c: c, outs: outs, keys: map[string]monKey{}, oldKeys: map[string]string{}, sess: map[int]*monSess{}}
	for i, l := range c.Lines {
		m.step(i, l, outs[i])
	}
	return m.vs
}

func permWord(s string) (int, bool) {
	switch strings.ToLower(s) {
	case "", "anyone":
		return 1, true
	case "user":
		return 2, true
	case "admin":
		return 3, true
	}
	return 0, false
}

// importKeys: which configured entries are usable keys now (documented format
// <key>?read=<perm>&write=<perm>[&expires=<RFC3339>]).
func (m *mon) importKeys() {
	for k := range m.keys {
		m.oldKeys[k] = fmt.Sprintf("it was configured earlier, but at t=%d it is not a usable entry of the current value of core/apiKeys", m.now)
	}
	m.keys = map[string]monKey{}
	for _, v := range m.cfg {
		f := strings.Split(v, ":")
		if f[0] != "K" || len(f) != 5 {
			continue
		}
		path, _ := unhexField(f[1])
		rs, _ := unhexField(f[2])
		ws, _ := unhexField(f[3])
		r, ok1 := permWord(rs)
		w, ok2 := permWord(ws)
		if path == "" || !ok1 || !ok2 || f[4] == "B" {
			continue
		}
		k := monKey{r: r, w: w}
		if f[4] != "-" {
			t, err := strconv.ParseInt(f[4], 10, 64)
			if err != nil {
				continue
			}
			if m.now > t {
				continue
			}
			k.exp, k.has = t, true
		}
		m.keys[path] = k
	}
}

type tok struct{ r, w int }

func (m *mon) step(i int, line, out string) {
	f := strings.Fields(line)
	if len(f) == 0 {
		return
	}
	if strings.HasPrefix(out, "HANG-BEFORE") {
		return // reported where it happened
	}
	if strings.HasPrefix(out, "PANIC") || strings.HasPrefix(out, "HANG") || strings.HasPrefix(out, "TCP-ERROR") {
		kind := f[0]
		if kind == "keys" || kind == "dev" || kind == "cfgchange" || kind == "overlap" {
			kind = "config-change"
		}
		m.add(i, "C12:crash-or-hang:"+kind, "the server crashed, hung or dropped the connection: "+out)
		return
	}
	switch f[0] {
	case "keys":
		m.cfg = m.cfg[:0]
		for _, e := range f[1:] {
			_, v, _ := split2(e)
			m.cfg = append(m.cfg, v)
		}
		m.importKeys()
	case "overlap":
		// two configuration changes with overlapping imports; the answer is given at quiescence (both
		// imports finished): the configured value is the second one, whatever the imports did
		sep := len(f)
		for j, x := range f {
			if x == "//" {
				sep = j
			}
		}
		m.cfg = m.cfg[:0]
		for _, e := range f[min(sep+1, len(f)):] {
			_, v, _ := split2(e)
			m.cfg = append(m.cfg, v)
		}
		m.importKeys()
	case "cfgchange":
		m.importKeys()
	case "dev":
		m.dev = f[1] == "1"
		m.importKeys()
	case "authset":
		m.authSet = f[1] == "1"
	case "adv":
		d, _ := strconv.ParseInt(f[1], 10, 64)
		m.now += d
	case "logout":
		id, _ := strconv.Atoi(f[1])
		if s := m.sess[id]; s != nil {
			s.deleted = true
		}
	case "req":
		if len(f) == 13 {
			m.req(i, f[1:], out)
		}
	case "bridgeraw":
		// the bridge may only reach handlers below /api/v1/
		key, _ := unhexField(f[1])
		if p := path.Join("/api/v1/", key); !strings.HasPrefix(p, "/api/v1/") && strings.HasPrefix(out, "br inv") {
			m.add(i, "C12:bridge-scope-escape", fmt.Sprintf("bridged key %q resolves to %q outside /api/v1/ but a handler ran with the bridge's permission: %s", key, p, out))
		}
	}
}

func (m *mon) req(i int, f []string, out string) {
	via := f[0]
	method, _ := unhexField(f[1])
	acrm, _ := unhexField(f[2])
	_, oView, _ := split2(f[3])
	host, _ := unhexField(f[4])
	dirty := f[5] == "1"
	_, rView, _ := split2(f[6])
	bridge := f[7] == "1"
	authz, _ := unhexField(f[8])
	basic, _ := unhexField(f[9])
	_, cView, _ := split2(f[10])
	au := f[11]

	of := strings.Fields(out)
	if len(of) < 2 || (of[0] != "inv" && of[0] != "st") {
		m.add(i, "C12:unreadable-answer", "unexpected harness output: "+out)
		return
	}
	flag := func(name string) string {
		for _, x := range of {
			if strings.HasPrefix(x, name+"=") {
				return x[len(name)+1:]
			}
		}
		return ""
	}
	invoked := of[0] == "inv"
	code := 0
	if !invoked {
		code, _ = strconv.Atoi(of[1])
	}

	// ---- method class: read for GET/HEAD, write for POST/PUT/DELETE; OPTIONS speaks for its preflight header
	em := method
	if method == "OPTIONS" {
		em = acrm
	}
	class := ""
	switch em {
	case "GET", "HEAD":
		class = "read"
	case "POST", "PUT", "DELETE":
		class = "write"
	}

	// ---- origin: matches the Host, or a documented exception
	originPresent := oView != "-"
	originOK := true
	if originPresent {
		originOK = false
		pf := strings.Split(oView, ":")
		if pf[0] == "P" && len(pf) == 4 {
			oh, _ := unhexField(pf[1])
			ohn, _ := unhexField(pf[2])
			osc, _ := unhexField(pf[3])
			switch {
			case oh == host || ohn == host:
				originOK = true
			case osc == "chrome-extension":
				originOK = true
			case m.dev && (ohn == "127.0.0.1" || ohn == "localhost"):
				originOK = true
			}
		}
	}
	if !originOK {
		if invoked || code != 403 || flag("ac") == "1" || (flag("sc") != "-" && flag("sc") != "") {
			m.add(i, "C12:cross-origin-not-refused-first", fmt.Sprintf("Origin view %s does not match Host %q nor an exception, but the answer was %q", oView, host, out))
		}
		return
	}

	// ---- the handler and what it declares
	rf := strings.Split(rView, ":")
	hasHandler := rf[0] == "A" || rf[0] == "P"
	required := 4 // handlers that declare nothing require PermitSelf
	ready := true
	if rf[0] == "A" {
		r, _ := strconv.Atoi(rf[1])
		w, _ := strconv.Atoi(rf[2])
		if class == "write" {
			required = w
		} else {
			required = r
		}
		ready = rf[3] == "1"
	} else if rf[0] == "P" {
		ready = rf[1] == "1"
	}
	reqEff := required
	if required == -1 {
		reqEff = 1
	}

	// ---- what the presented credentials grant (ground truth)
	var sure, maybe []tok
	credClass := "none"
	if m.dev {
		sure = append(sure, tok{4, 4})
		credClass = "dev"
	}
	if bridge {
		sure = append(sure, tok{3, 3})
		credClass = "bridge"
	}
	key, hasKey := "", false
	switch {
	case strings.HasPrefix(authz, "Bearer "):
		key, hasKey = authz[len("Bearer "):], true
	case strings.HasPrefix(authz, "Basic "):
		key, hasKey = basic, true
	}
	keyValid := false
	keyNote := ""
	if hasKey {
		if k, ok := m.keys[key]; ok && (!k.has || m.now <= k.exp) {
			sure = append(sure, tok{k.r, k.w})
			keyValid = true
			credClass = "key"
		} else {
			if ok && k.has {
				keyNote = fmt.Sprintf(" (the presented API key expired at t=%d, now t=%d)", k.exp, m.now)
			} else if why, was := m.oldKeys[key]; was && !ok {
				keyNote = " (about the presented API key: " + why + ")"
			}
			if credClass == "none" {
				credClass = "bad-key:" + authzClass(authz)
			}
		}
	} else if authz != "" && credClass == "none" {
		credClass = "bad-key:other-scheme"
	}
	// Session liveness. The logical clock only ever lags real time (adv moves the stored expiry by
	// exactly d, real time passes on top of it), so a session whose logical age since its last
	// possible use exceeds the TTL is certainly expired - and stays expired: lastPossible is not
	// moved by presentations of a dead session. The band on the live side (5 s) is the tolerance for
	// real time that passed while the case ran; exactly TTL is left undecided (After vs. >=).
	var cs *monSess
	cookieNote := ""
	if cView != "-" {
		id, _ := strconv.Atoi(cView)
		cs = m.sess[id]
		if cs != nil && !cs.deleted && !cs.expired && m.now-cs.lastPossible > sessionTTL {
			cs.expired = true
		}
		bad := ""
		switch {
		case cs == nil:
			bad = "bad-cookie"
		case cs.deleted:
			bad = "bad-cookie:logged-out"
		case cs.expired:
			bad = "bad-cookie:expired"
		case m.now-cs.lastSure <= sessionTTL-5:
			sure = append(sure, tok{cs.r, cs.w})
			if credClass == "none" || strings.HasPrefix(credClass, "bad-key") {
				credClass = "cookie"
			}
		default:
			maybe = append(maybe, tok{cs.r, cs.w})
		}
		if bad != "" {
			if cs != nil {
				cs.presentedDead++
				cookieNote = fmt.Sprintf(" (presentation #%d of the cookie of a session that is %s since it was last live at t=%d, now t=%d)",
					cs.presentedDead, strings.TrimPrefix(bad, "bad-cookie:"), cs.lastPossible, m.now)
			}
			if credClass == "none" {
				credClass = bad
			}
		}
	}
	if m.authSet && strings.HasPrefix(au, "T:") {
		af := strings.Split(au, ":")
		r, _ := strconv.Atoi(af[1])
		w, _ := strconv.Atoi(af[2])
		sure = append(sure, tok{r, w})
		if credClass == "none" || strings.HasPrefix(credClass, "bad-") {
			credClass = "authenticator"
		}
	}

	// ---- a new session must stem from the authenticator's result
	if sc := flag("sc"); sc != "" && sc != "-" {
		id, _ := strconv.Atoi(sc)
		if !m.authSet || !strings.HasPrefix(au, "T:") || flag("ac") != "1" {
			m.add(i, "C12:session-without-authenticator", "a session cookie was issued although the authenticator returned no token: "+out)
		}
		af := strings.Split(au+"::", ":")
		r, _ := strconv.Atoi(af[1])
		w, _ := strconv.Atoi(af[2])
		m.sess[id] = &monSess{r: r, w: w, lastSure: m.now, lastPossible: m.now}
	}
	if cs != nil && !cs.deleted && !cs.expired {
		cs.lastPossible = m.now // a live (or possibly live) session may have been refreshed by this request
	}

	if invoked {
		if of[1] == "nil" || of[1] == "?" || len(of) < 3 {
			m.add(i, "C12:invoked-without-token", "the handler ran without an AuthToken: "+out)
			return
		}
		tr, _ := strconv.Atoi(of[1])
		tw, _ := strconv.Atoi(of[2])
		t := tok{tr, tw}
		p := tr
		if class == "write" {
			p = tw
		}
		switch {
		case !hasHandler || !ready || dirty:
			m.add(i, "C12:invoked-unreachable-handler", "a handler ran for a request that has no ready handler: "+out)
		case class == "":
			m.add(i, "C12:invoked-without-method-class", fmt.Sprintf("handler ran for method %q (preflight header %q) which is neither a read nor a write method", method, acrm))
		case required == -2 || required == 0:
			m.add(i, "C12:invoked-notfound-or-notsupported", fmt.Sprintf("handler declaring %d for %s was invoked", required, class))
		case reqEff < 1 || reqEff > 4:
			m.add(i, "C12:invoked-invalid-required", fmt.Sprintf("handler declaring the invalid permission %d was invoked", required))
		case p < 1 || p > 4:
			m.add(i, "C12:invoked-invalid-granted:"+credClass, fmt.Sprintf("handler ran with the invalid %s permission %d", class, p))
		case p < reqEff:
			m.add(i, "C12:invoked-insufficient:"+credClass, fmt.Sprintf("handler requiring %d for %s ran with %d", required, class, p))
		}
		// exactness: the token is what a presented valid credential grants, or anonymous
		if required != 1 { // public handlers get the anonymous token without looking at credentials
			ok := false
			for _, c := range append(append([]tok{}, sure...), maybe...) {
				if c == t {
					ok = true
				}
			}
			if len(sure) == 0 && t == (tok{1, 1}) {
				ok = true
			}
			if !ok {
				if len(sure) == 0 && len(maybe) == 0 {
					m.add(i, "C12:bad-credential-granted:"+credClass, fmt.Sprintf("no valid credential was presented but the handler saw %d/%d%s%s", tr, tw, cookieNote, keyNote))
				} else {
					m.add(i, "C12:token-not-from-credential:"+credClass, fmt.Sprintf("the handler saw %d/%d, the presented credentials grant %v (maybe %v)%s%s", tr, tw, sure, maybe, cookieNote, keyNote))
				}
			}
		} else if t != (tok{1, 1}) {
			found := false
			for _, c := range append(append([]tok{}, sure...), maybe...) {
				if c == t {
					found = true
				}
			}
			if !found {
				m.add(i, "C12:token-not-from-credential:"+credClass, fmt.Sprintf("public handler saw %d/%d which no presented credential grants", tr, tw))
			}
		}
		// the session was certainly used if nothing else can explain the token
		if cs != nil && !cs.deleted && !cs.expired && t == (tok{cs.r, cs.w}) && !m.dev && !bridge && !keyValid && !(m.authSet && strings.HasPrefix(au, "T:")) {
			cs.lastSure = m.now
		}
		return
	}

	// ---- not invoked: the answer must be one of the documented refusals (or a documented non-refusal)
	preflight := originPresent && method == "OPTIONS" && acrm != ""
	switch code {
	case 401, 403, 404, 405, 500:
	case 200:
		if !(preflight && hasHandler || preflight && rf[0] == "Z") {
			m.add(i, "C12:refused-answered-200:"+credClass, "the handler did not run and the request is no preflight, but the answer is 200 (the request was dropped, e.g. by a recovered panic)")
		}
	case 301:
		if !dirty {
			m.add(i, "C12:unexpected-status-301", "redirect for a clean path")
		}
	case 503:
		if ready {
			m.add(i, "C12:unexpected-status-503", "503 although the handler's module is ready")
		}
	default:
		m.add(i, fmt.Sprintf("C12:unexpected-status-%d:%s", code, credClass), "a request that was not served by the handler was answered with status "+strconv.Itoa(code))
	}
	_ = via
}
