package main

import (
	"encoding/json"
	"fmt"
	"math"
	"regexp"
	"sort"
	"strconv"
	"strings"
	"sync"
	"time"
	"unicode/utf8"

	"github.com/safing/portbase/database/accessor"
	"github.com/safing/portbase/database/query"
	"github.com/safing/portbase/database/record"
	"github.com/safing/portbase/formats/dsd"

	"verifharness/hxlib"
)

// ---- error classes ------------------------------------------------------------------------------

var reUint = regexp.MustCompile(`(?s)^could not parse integer \(.*\) at position \d+$`)

func errClass(err error) string {
	m := err.Error()
	strconvEnd := strings.HasSuffix(m, ": invalid syntax") || strings.HasSuffix(m, ": value out of range")
	switch {
	case strings.HasPrefix(m, "could not parse ") && strings.HasSuffix(m, ` (hint: use "sameas" to compare strings)`):
		return "err chk-int"
	case strings.HasPrefix(m, `could not parse "`) && strings.HasSuffix(m, `" to []string`):
		return "err chk-slice"
	case strings.HasPrefix(m, "could not parse ") && strings.Contains(m, " to float64: strconv.ParseFloat: parsing ") && strconvEnd:
		return "err chk-float"
	case strings.HasPrefix(m, `could not parse "`) && strings.Contains(m, `" to bool: strconv.ParseBool: parsing `) && strconvEnd:
		return "err chk-bool"
	case strings.HasPrefix(m, `could not compile regex "`):
		return "err chk-regex"
	case strings.HasPrefix(m, "incompatible value "):
		return "err chk-incompatible"
	case strings.HasPrefix(m, "no operator with ID "):
		return "err chk-operator"
	case reUint.MatchString(m):
		return "err uint"
	case strings.HasPrefix(m, "unexpected end at position "):
		return "err end"
	case m == `queries must start with "query"`:
		return "err noquery"
	case strings.HasPrefix(m, `duplicate "`):
		return "err dup"
	case strings.HasPrefix(m, `unknown clause "`):
		return "err clause"
	case strings.HasPrefix(m, `you may not mix "and" and "or"`):
		return "err mix"
	case strings.HasPrefix(m, "unknown operator at position "):
		return "err operator"
	case strings.HasPrefix(m, `parenthesis ('"') may not be used within words`):
		return "err quote"
	}
	return "err other:" + hx(m)
}

// ---- oracle: stdlib facts about tokens (float parse/format, regex validity) ---------------------

func oracleFor(tokens []string) string {
	seen := map[string]bool{}
	var es []string
	for _, t := range tokens {
		if seen[t] {
			continue
		}
		seen[t] = true
		fc, fb := "!", "!"
		if f, err := strconv.ParseFloat(t, 64); err == nil {
			fc = hx(fmt.Sprintf("%g", f))
			fb = fmt.Sprintf("%016x", math.Float64bits(f))
		}
		re := "0"
		if _, err := regexp.Compile(t); err == nil {
			re = "1"
		}
		es = append(es, hx(t)+"="+fc+":"+fb+":"+re)
	}
	if len(es) == 0 {
		return "~"
	}
	sort.Strings(es)
	return strings.Join(es, ";")
}

func tokensOf(text string) []string {
	toks, err := query.VerifExtractSnippets(text)
	if err != nil {
		return nil
	}
	return toks
}

// ---- harness record schema ---------------------------------------------------------------------

type hsub struct {
	X int64
	Y string
}

type hrec struct {
	record.Base
	sync.Mutex
	S   string
	I   int64
	F   float64
	B   bool
	U   uint16
	L   []string
	Sub hsub
}

func recordsOf(jsonText string) (record.Record, record.Record, bool) {
	w, err := record.NewWrapper("hx:rec", nil, dsd.JSON, []byte(jsonText))
	if err != nil {
		return nil, nil, false
	}
	s := &hrec{}
	if err := json.Unmarshal([]byte(jsonText), s); err != nil {
		return nil, nil, false
	}
	s.SetKey("hx:rec")
	return w, s, true
}

func accTable(acc accessor.Accessor, keys []string) string {
	if acc == nil || len(keys) == 0 {
		return "~"
	}
	es := make([]string, 0, len(keys))
	for _, k := range keys {
		i, s, b, f := "!", "!", "!", "!"
		if v, ok := acc.GetInt(k); ok {
			i = strconv.FormatInt(v, 10)
		}
		if v, ok := acc.GetString(k); ok {
			s = hx(v)
		}
		if v, ok := acc.GetBool(k); ok {
			b = "0"
			if v {
				b = "1"
			}
		}
		if v, ok := acc.GetFloat(k); ok {
			f = fmt.Sprintf("%016x", math.Float64bits(v))
		}
		e := "0"
		if acc.Exists(k) {
			e = "1"
		}
		es = append(es, hx(k)+"="+i+":"+s+":"+b+":"+f+":"+e)
	}
	return strings.Join(es, ";")
}

func accStrings(acc accessor.Accessor, keys []string, into map[string]bool) {
	if acc == nil {
		return
	}
	for _, k := range keys {
		if v, ok := acc.GetString(k); ok {
			into[v] = true
		}
	}
}

// recsField renders the records with the accessor answers for the given keys; rmField the regex matches.
func recsField(jsons []string, keys []string, regexes []string) (recs, rm string, ok bool) {
	if len(jsons) == 0 {
		return "~", "~", true
	}
	strs := map[string]bool{}
	parts := make([]string, len(jsons))
	for i, j := range jsons {
		w, s, ok := recordsOf(j)
		if !ok {
			return "", "", false
		}
		wa, sa := w.GetAccessor(w), s.GetAccessor(s)
		parts[i] = hx(j) + "/" + accTable(wa, keys) + "/" + accTable(sa, keys)
		accStrings(wa, keys, strs)
		accStrings(sa, keys, strs)
	}
	var rms []string
	ss := make([]string, 0, len(strs))
	for s := range strs {
		ss = append(ss, s)
	}
	sort.Strings(ss)
	for _, r := range regexes {
		re, err := regexp.Compile(r)
		if err != nil {
			continue
		}
		for _, s := range ss {
			b := "0"
			if re.MatchString(s) {
				b = "1"
			}
			rms = append(rms, hx(r)+"="+hx(s)+"="+b)
		}
	}
	rm = "~"
	if len(rms) > 0 {
		rm = strings.Join(rms, ";")
	}
	return strings.Join(parts, "|"), rm, true
}

// keys / regex sources / float texts mentioned in a canonical dump
var reDumpLeaf = regexp.MustCompile(`([IFSLRBE])\(([0-9a-f-]+),(\d+)(?:,([0-9a-f;-]*))?\)`)

func dumpMentions(dump string, keys, regexes map[string]bool) {
	for _, m := range reDumpLeaf.FindAllStringSubmatch(dump, -1) {
		if k, ok := unhx(m[2]); ok {
			keys[k] = true
		}
		if m[1] == "R" {
			if r, ok := unhx(m[4]); ok {
				regexes[r] = true
			}
		}
	}
}

func sortedSet(m map[string]bool) []string {
	out := make([]string, 0, len(m))
	for k := range m {
		out = append(out, k)
	}
	sort.Strings(out)
	return out
}

// ---- the API round trip (rt) ---------------------------------------------------------------------

type rtIn struct {
	prefix, orderby string
	where           *node
	limit, offset   int
	precheck        bool // history: the query object is checked (and printed) once before the condition is set
}

func (in *rtIn) build() *query.Query {
	q := query.New(in.prefix)
	if in.precheck {
		_, _ = q.Check()
		_ = q.Print()
	}
	if in.where != nil {
		q.Where(in.where.build())
	}
	if in.orderby != "" {
		q.OrderBy(in.orderby)
	}
	q.Limit(in.limit)
	q.Offset(in.offset)
	return q
}

func (n *node) mentions(keys, regexes, floats map[string]bool) {
	if n == nil {
		return
	}
	if n.kind == 'W' {
		keys[n.key] = true
		if n.arg.t == 's' {
			regexes[n.arg.s] = true // only looked up when the operator is Matches
			floats[n.arg.s] = true  // textual operand of a float operator
		}
		if n.arg.t == 'f' {
			floats[fmt.Sprintf("%g", n.arg.f)] = true
		}
		if n.arg.t == 'i' {
			floats[strconv.FormatInt(n.arg.i, 10)] = true
		}
		if n.arg.t == 'u' {
			floats[strconv.FormatUint(n.arg.u, 10)] = true
		}
		return
	}
	for _, k := range n.kids {
		k.mentions(keys, regexes, floats)
	}
}

type rtOut struct {
	checkErr     error
	d1, p1       string
	parseErr     error
	q1, q2       *query.Query
	d2, p2       string
	oracle       string
	keys, regexs []string
	unstable     bool
}

// runRT performs build → Check → Print → ParseQuery → Print on the real code.
func runRT(in *rtIn) *rtOut {
	o := &rtOut{}
	keys, regexes, floats := map[string]bool{}, map[string]bool{}, map[string]bool{}
	in.where.mentions(keys, regexes, floats)
	toks := sortedSet(floats)
	q := in.build()
	if _, err := q.Check(); err != nil {
		o.checkErr = err
		o.oracle = oracleFor(toks)
		return o
	}
	o.q1 = q
	o.d1 = query.VerifDump(q)
	o.p1 = q.Print()
	// the same object again: Check and Print are repeatable
	if _, err := q.Check(); err != nil || q.Print() != o.p1 || query.VerifDump(q) != o.d1 {
		o.unstable = true
	}
	toks = append(toks, tokensOf(o.p1)...)
	o.oracle = oracleFor(toks)
	dumpMentions(o.d1, keys, regexes)
	q2, err := query.ParseQuery(o.p1)
	if err != nil {
		o.parseErr = err
	} else {
		o.q2 = q2
		o.d2 = query.VerifDump(q2)
		o.p2 = q2.Print()
		if q2.Print() != o.p2 {
			o.unstable = true
		}
		dumpMentions(o.d2, keys, regexes)
	}
	o.keys, o.regexs = sortedSet(keys), sortedSet(regexes)
	return o
}

func matchBits(q *query.Query, jsons []string) string {
	if len(jsons) == 0 {
		return "~"
	}
	var sb strings.Builder
	for _, j := range jsons {
		w, s, ok := recordsOf(j)
		if !ok {
			return "bad-record"
		}
		for _, r := range []record.Record{w, s} {
			if q.MatchesRecord(r) {
				sb.WriteByte('1')
			} else {
				sb.WriteByte('0')
			}
		}
	}
	return sb.String()
}

func parseRecs(f string) ([]string, bool) {
	if f == "~" {
		return nil, true
	}
	var out []string
	for _, p := range strings.Split(f, "|") {
		j, ok := unhx(strings.SplitN(p, "/", 2)[0])
		if !ok {
			return nil, false
		}
		out = append(out, j)
	}
	return out, true
}

func parseRT(f []string) (*rtIn, bool) {
	// f: prefix cond orderby limit offset
	in := &rtIn{}
	var ok bool
	if in.prefix, ok = unhx(f[0]); !ok {
		return nil, false
	}
	if strings.HasPrefix(f[1], "C:") {
		in.precheck = true
		f[1] = f[1][2:]
	}
	if f[1] != "-" {
		if in.where, ok = parseNode(f[1]); !ok {
			return nil, false
		}
	}
	if in.orderby, ok = unhx(f[2]); !ok {
		return nil, false
	}
	var err error
	if in.limit, err = strconv.Atoi(f[3]); err != nil {
		return nil, false
	}
	if in.offset, err = strconv.Atoi(f[4]); err != nil {
		return nil, false
	}
	return in, true
}

func rtLine(in *rtIn, jsons []string) (string, *rtOut, bool) {
	w := "-"
	if in.where != nil {
		w = in.where.spec()
	}
	if in.precheck {
		w = "C:" + w
	}
	o := runRT(in)
	recs, rm, ok := recsField(jsons, o.keys, o.regexs)
	if !ok {
		return "", nil, false
	}
	return fmt.Sprintf("rt %s %s %s %d %d %s %s %s", hx(in.prefix), w, hx(in.orderby), in.limit, in.offset, o.oracle, rm, recs), o, true
}

// ---- executor -----------------------------------------------------------------------------------

type exec struct{ r *hxlib.Run }

const hangAfter = 30 * time.Second

// guarded runs f with a watchdog; a panic becomes "PANIC …", no answer in time "HANG".
func guarded(f func() string) string {
	ch := make(chan string, 1)
	go func() {
		defer func() {
			if x := recover(); x != nil {
				ch <- "PANIC " + strings.SplitN(fmt.Sprint(x), "\n", 2)[0]
			}
		}()
		ch <- f()
	}()
	select {
	case s := <-ch:
		return s
	case <-time.After(hangAfter):
		return "HANG"
	}
}

// parseResult: ParseQuery, then — a parsed query is a query object like any other — its own round trip:
// "ok <dump> <print> same" | "… diff:<second print>" | "… err:<class>".
func parseResult(text string) string {
	q, err := query.ParseQuery(text)
	if err != nil {
		return errClass(err)
	}
	p := q.Print()
	rp := "same"
	q2, err := query.ParseQuery(p)
	if err != nil {
		rp = "err:" + strings.TrimPrefix(errClass(err), "err ")
	} else if p2 := q2.Print(); p2 != p {
		rp = "diff:" + hx(p2)
	}
	return "ok " + query.VerifDump(q) + " " + hx(p) + " " + rp
}

// textOracle: stdlib facts about every token of the text and, if it parses, of its printed form.
func textOracle(text string, extra []string) string {
	toks := append(append([]string{}, extra...), tokensOf(text)...)
	if q, err := query.ParseQuery(text); err == nil {
		toks = append(toks, tokensOf(q.Print())...)
	}
	return oracleFor(toks)
}

func (e exec) Do(line string) string {
	out := e.do(line)
	if e.r != nil {
		op := strings.SplitN(line, " ", 2)[0]
		f := strings.Split(out, " ")
		if op == "gs" && len(f) > 1 {
			f = f[1:] // first field is the sentence
		}
		k := f[0]
		if op == "escb" && !strings.HasPrefix(out, "PANIC") && out != "HANG" && out != "bad-op" {
			k = "text" // the output is the printed text itself
		}
		if k == "err" && len(f) > 1 {
			k = "err-" + f[1]
		}
		if k == "ok" && (op == "parse" || op == "gs") && len(f) == 4 {
			k = "ok-reparse-" + strings.SplitN(f[3], ":", 2)[0]
		}
		if k == "ok" && (op == "rt" || op == "rtb") && len(f) > 3 {
			k = "ok-reparse-" + f[3]
		}
		e.r.Count("outcome:" + op + ":" + k)
	}
	return out
}

func (exec) do(line string) string {
	f := strings.Split(line, " ")
	switch f[0] {
	case "lex":
		if len(f) != 2 {
			return "bad-op"
		}
		text, ok := unhx(f[1])
		if !ok {
			return "bad-op"
		}
		return guarded(func() string {
			toks, err := query.VerifExtractSnippets(text)
			if err != nil {
				return errClass(err)
			}
			hs := make([]string, len(toks))
			for i, t := range toks {
				hs[i] = hx(t)
			}
			if len(hs) == 0 {
				return "ok 0"
			}
			return fmt.Sprintf("ok %d %s", len(hs), strings.Join(hs, ","))
		})
	case "parse":
		if len(f) != 3 {
			return "bad-op"
		}
		text, ok := unhx(f[1])
		if !ok {
			return "bad-op"
		}
		return guarded(func() string {
			if utf8.ValidString(text) && textOracle(text, nil) != f[2] {
				return "bad-tables"
			}
			return parseResult(text)
		})
	case "rt":
		if len(f) != 9 {
			return "bad-op"
		}
		in, ok := parseRT(f[1:6])
		if !ok {
			return "bad-op"
		}
		jsons, ok := parseRecs(f[8])
		if !ok {
			return "bad-op"
		}
		return guarded(func() string {
			want, o, ok := rtLine(in, jsons)
			if !ok {
				return "bad-op"
			}
			if want != line {
				return "bad-tables"
			}
			if o.unstable {
				return "unstable"
			}
			if o.checkErr != nil {
				return errClass(o.checkErr)
			}
			m1 := matchBits(o.q1, jsons)
			if o.parseErr != nil {
				return fmt.Sprintf("ok %s %s %s %s", o.d1, hx(o.p1), errClass(o.parseErr), m1)
			}
			return fmt.Sprintf("ok %s %s ok %s %s %s %s", o.d1, hx(o.p1), o.d2, hx(o.p2), m1, matchBits(o.q2, jsons))
		})
	case "rtb":
		if len(f) != 6 {
			return "bad-op"
		}
		in, ok := parseRT(f[1:6])
		if !ok {
			return "bad-op"
		}
		return guarded(func() string { return doRTB(in) })
	case "lexb":
		if len(f) != 2 {
			return "bad-op"
		}
		text, ok := unhx(f[1])
		if !ok {
			return "bad-op"
		}
		return guarded(func() string { return lexbOut(text) })
	case "units":
		if len(f) != 2 {
			return "bad-op"
		}
		text, ok := unhx(f[1])
		if !ok {
			return "bad-op"
		}
		return guarded(func() string { return unitsOut(text) })
	case "escb":
		if len(f) != 2 {
			return "bad-op"
		}
		text, ok := unhx(f[1])
		if !ok {
			return "bad-op"
		}
		return guarded(func() string { return escbOut(text) })
	case "gs":
		if len(f) != 9 {
			return "bad-op"
		}
		s, ok := parseSentence(f[1:8])
		if !ok {
			return "bad-op"
		}
		return guarded(func() string {
			if s.oracle() != f[8] {
				return "bad-tables"
			}
			text := s.render()
			return hx(text) + " " + parseResult(text)
		})
	}
	return "bad-op"
}

// oracle of a sentence: facts about every operand word and every token of the rendered text.
func (s *sentence) oracle() string {
	var toks []string
	var walk func(n *snode)
	walk = func(n *snode) {
		if n == nil {
			return
		}
		if n.kind == 'W' {
			if n.val != nil {
				toks = append(toks, n.val.text)
			}
			return
		}
		for _, k := range n.kids {
			walk(k)
		}
	}
	walk(s.where)
	return textOracle(s.render(), toks)
}
