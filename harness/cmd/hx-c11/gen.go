package main

import (
	"encoding/json"
	"fmt"
	"math"
	"math/rand"
	"strconv"
	"strings"
	"unicode/utf8"

	"verifharness/hxlib"
)

type g struct {
	r   *hxlib.Run
	rng *rand.Rand
}

var alphabet = []string{"a", "b", "c", "x", "y", "K", "0", "1", "7", " ", " ", "\"", "\\", "(", ")", ",", "é", "世", "😀", "\t", "\n", "\r",
	":", ".", "#", "-", "_", "*", "^", "$", "[", "+", " ", "\v",
	// values that mean something to some layer: other Unicode spaces, BOM, NUL, form feed, JSON/format bytes
	"\u0085", "\u2028", "\u3000", "\ufeff", "\x00", "\f", "{", "}", "'", "`", "|", "@", "%", "=", "<", ">", "\u200b", "\ufffd"}

var keywords = []string{"and", "or", "not", "(", ")", "query", "where", "orderby", "limit", "offset", "exists", "==", "in", "sameas", "true", "[ERROR]", "[unknown]"}

var schemaKeys = []string{"S", "I", "F", "B", "U", "L.0", "L.1", "L.#", "Sub.X", "Sub.Y", "missing", "Sub"}

func (g *g) pick(xs []string) string { return xs[g.rng.Intn(len(xs))] }

// str: a string over the alphabet the property names (spaces, quotes, backslashes, parentheses, commas, multi-byte runes)
func (g *g) str(maxLen int) string {
	n := g.rng.Intn(maxLen + 1)
	if g.rng.Intn(40) == 0 {
		n = 1 << uint(g.rng.Intn(7)) // length class drawn uniformly: 1 … 64
	}
	var sb strings.Builder
	for i := 0; i < n; i++ {
		sb.WriteString(g.pick(alphabet))
	}
	return sb.String()
}

func (g *g) plain() string {
	n := 1 + g.rng.Intn(6)
	var sb strings.Builder
	for i := 0; i < n; i++ {
		sb.WriteString(g.pick([]string{"a", "b", "c", "x", "y", "Z", "0", "9", ".", "#", "_", "é", "世", ":", "-"}))
	}
	return sb.String()
}

// text: mostly harmless, sometimes nasty
func (g *g) text() string {
	switch k := g.rng.Intn(12); {
	case k < 4:
		return g.plain()
	case k < 8:
		return g.str(6)
	case k == 8:
		return g.pick(keywords)
	case k == 9:
		return g.str(1)
	case k == 10:
		return g.plain() + g.pick([]string{"é", "世", "😀", "\\", "\"", " ", ")", "\\\\", "\\\""})
	}
	return g.pick([]string{"\"", "\\", "\"\"", "\\\\", " ", "a b", "x\\y z", "x y\"", "xé", "\\\"", "\"a\"", "a\"b", "a\\", "()", "\\n"})
}

func (g *g) key(wf bool) string {
	switch k := g.rng.Intn(20); {
	case k < 11:
		return g.pick(schemaKeys)
	case k < 15:
		return g.plain()
	case k == 15 && !wf:
		return g.pick(keywords[:5])
	case k == 16:
		return g.pick(keywords[5:])
	}
	for {
		s := g.text()
		if !(wf && structural[s]) {
			return s
		}
	}
}

var ints = []int64{0, 1, -1, 7, 42, 100, -100, math.MaxInt64, math.MinInt64, math.MaxInt64 - 1, math.MinInt64 + 1, 1 << 31, 1<<31 - 1, -(1 << 31), 1 << 32, 1 << 53, 1<<53 + 1, 9, 10, 11, 99, 1000000}

func (g *g) int64() int64 {
	switch g.rng.Intn(4) {
	case 0:
		return ints[g.rng.Intn(len(ints))]
	case 1:
		return int64(g.rng.Intn(21) - 10)
	case 2:
		bits := uint(g.rng.Intn(64) + 1)
		v := int64(g.rng.Uint64() >> (64 - bits))
		if g.rng.Intn(2) == 0 {
			v = -v
		}
		return v
	}
	return int64(g.rng.Uint64())
}

var floats = []float64{0, math.Copysign(0, -1), 1, -1, 1.5, -2.25, 0.1, 1e21, 1e20, 1e-7, 123456789, 1e100, math.MaxFloat64, math.SmallestNonzeroFloat64,
	math.Inf(1), math.Inf(-1), math.NaN(), 3, 100, 7, 2.5, 1.1, 120.413, 1 << 53, 1e6, 1e-5, 12345678.9}

func (g *g) float() float64 {
	switch g.rng.Intn(4) {
	case 0, 1:
		return floats[g.rng.Intn(len(floats))]
	case 2:
		return float64(g.rng.Intn(2001)-1000) / 8
	}
	return math.Float64frombits(g.rng.Uint64())
}

var regexes = []string{"^a", "b$", "a.*b", "^King ", "[a-c]+", "x|y", "\\d+", "a b", "(a)(b)", "\\(", "é+", "^$", "a\\\\b", "\"", "\\s", "x{2}", ".", "(?i)K", "[\"\\\\]", "世"}

var badRegexes = []string{"[a", "(", "a)", "*", "x{2", "\\", "(?P<n", "[z-a]"}

// leaf for operator op; ok=false requests an operand the operator cannot take (must fail Check)
func (g *g) leaf(op int, wf bool) *node {
	n := &node{kind: 'W', op: op, key: g.key(wf)}
	g.r.Count(fmt.Sprintf("rt-operator:%d", op))
	bad := !wf && g.rng.Intn(12) == 0
	textual := g.rng.Intn(5) == 0 // the Where() constructors also take the operand as text
	switch {
	case op <= 4:
		v := g.int64()
		switch {
		case bad:
			n.arg = g.pickArg([]arg{{t: 's', s: g.text()}, {t: 'f', f: 1.5}, {t: 'n'}, {t: 'z'}, {t: 'b', b: true}, {t: 's', s: "9223372036854775808"}, {t: 's', s: "1_000"}, {t: 's', s: ""}})
		case textual:
			n.arg = arg{t: 's', s: g.pick([]string{strconv.FormatInt(v, 10), "+" + strconv.FormatInt(v&0xffff, 10), "007", "-0", "+0", "010", "-0777", "0" + strconv.FormatInt(v&0xfff, 10)})}
		case g.rng.Intn(8) == 0:
			n.arg = arg{t: 'u', u: g.rng.Uint64() >> uint(g.rng.Intn(64))}
		default:
			n.arg = arg{t: 'i', i: v}
		}
	case op <= 9:
		v := g.float()
		switch {
		case bad:
			n.arg = g.pickArg([]arg{{t: 's', s: g.text()}, {t: 'n'}, {t: 'z'}, {t: 'b'}, {t: 's', s: "1e999"}, {t: 's', s: ""}, {t: 'l', l: []string{"1"}}})
		case textual:
			n.arg = arg{t: 's', s: g.pick([]string{strconv.FormatFloat(v, 'g', -1, 64), "1.0", "1e3", ".5", "5.", "0x1p-2", "1_0", "inf", "-Inf", "nan", "+7", "1E2", "00.10", "Infinity"})}
		case g.rng.Intn(8) == 0:
			n.arg = arg{t: 'i', i: g.int64()}
		case g.rng.Intn(12) == 0:
			n.arg = arg{t: 'u', u: g.rng.Uint64() >> uint(g.rng.Intn(64))}
		default:
			n.arg = arg{t: 'f', f: v}
		}
	case op <= 13:
		if bad {
			n.arg = g.pickArg([]arg{{t: 'i', i: 1}, {t: 'n'}, {t: 'z'}, {t: 'b'}, {t: 'l', l: []string{"a", "b"}}, {t: 'f', f: 1}})
		} else {
			n.arg = arg{t: 's', s: g.value()}
		}
	case op == 14:
		switch {
		case bad:
			n.arg = g.pickArg([]arg{{t: 'i', i: 1}, {t: 'n'}, {t: 'z'}, {t: 's', s: g.plain()}, {t: 's', s: ""}})
		case textual:
			n.arg = arg{t: 's', s: g.plain() + "," + g.str(4)}
		default:
			k := 2 + g.rng.Intn(3)
			if !wf && g.rng.Intn(3) == 0 {
				k = g.rng.Intn(2)
			}
			l := make([]string, k)
			for i := range l {
				for {
					l[i] = g.value()
					if !wf || !strings.Contains(l[i], ",") {
						break
					}
				}
			}
			n.arg = arg{t: 'l', l: l}
		}
	case op == 15:
		if bad {
			n.arg = g.pickArg([]arg{{t: 's', s: g.pick(badRegexes)}, {t: 'i', i: 1}, {t: 'n'}, {t: 'z'}})
		} else {
			n.arg = arg{t: 's', s: g.pick(regexes)}
		}
	case op == 16:
		switch {
		case bad:
			n.arg = g.pickArg([]arg{{t: 's', s: g.pick([]string{"yes", "tRUE", "", "2", "great"})}, {t: 'i', i: 1}, {t: 'n'}, {t: 'z'}})
		case textual:
			n.arg = arg{t: 's', s: g.pick([]string{"1", "t", "T", "true", "True", "TRUE", "0", "f", "F", "false", "False", "FALSE"})}
		default:
			n.arg = arg{t: 'b', b: g.rng.Intn(2) == 0}
		}
	case op == 17:
		n.arg = g.pickArg([]arg{{t: 'n'}, {t: 'n'}, {t: 'n'}, {t: 's', s: "ignored"}, {t: 'i', i: 3}})
	default:
		n.arg = g.pickArg([]arg{{t: 'n'}, {t: 's', s: "x"}, {t: 'i', i: 1}})
	}
	return n
}

func (g *g) pickArg(as []arg) arg { return as[g.rng.Intn(len(as))] }

var schemaStrings = []string{"a", "ab", "abc", "x y", "King Kong", "é", "世", "a,b", "", "\"q\"", "b\\s", "xé", "1", "true", "Julian", "(p)", " lead", "trail ", "a\"b"}

// value: a string operand; often one that a harness record carries, so that conditions do match
func (g *g) value() string {
	if g.rng.Intn(3) == 0 {
		return g.pick(schemaStrings)
	}
	return g.text()
}

func (g *g) op(wf bool) int {
	if !wf && g.rng.Intn(40) == 0 {
		return g.pick2([]int{18, 19, 100, 254, 255})
	}
	return g.rng.Intn(18)
}

func (g *g) pick2(xs []int) int { return xs[g.rng.Intn(len(xs))] }

// tree: query tree over all operators with nested and/or/not groups
func (g *g) tree(depth int, wf bool) *node {
	k := g.rng.Intn(10)
	if depth == 0 || k < 4 {
		return g.leaf(g.op(wf), wf)
	}
	if k < 6 {
		kid := g.tree(depth-1, wf)
		if wf && kid.kind == 'N' {
			kid = kid.kids[0]
			if kid.kind == 'N' {
				kid = g.leaf(g.op(wf), wf)
			}
		}
		return &node{kind: 'N', kids: []*node{kid}}
	}
	n := &node{kind: 'A'}
	if g.rng.Intn(2) == 0 {
		n.kind = 'O'
	}
	w := 2 + g.rng.Intn(3)
	if !wf && g.rng.Intn(3) == 0 {
		w = g.rng.Intn(2)
	}
	if g.rng.Intn(30) == 0 {
		w = 5 + g.rng.Intn(12)
		depth = 1
	}
	for i := 0; i < w; i++ {
		n.kids = append(n.kids, g.tree(depth-1, wf))
	}
	return n
}

func (n *node) depth() int {
	d := 0
	for _, k := range n.kids {
		if kd := k.depth(); kd > d {
			d = kd
		}
	}
	return d + 1
}

func (n *node) leaves() int {
	if n.kind == 'W' {
		return 1
	}
	c := 0
	for _, k := range n.kids {
		c += k.leaves()
	}
	return c
}

func (g *g) prefix() string {
	switch g.rng.Intn(8) {
	case 0:
		return ""
	case 1:
		return g.plain()
	case 2:
		return g.text() + ":" + g.text()
	case 3:
		return ":" + g.plain()
	case 4:
		return g.plain() + ":a:b:"
	}
	return g.plain() + ":" + g.pick([]string{"", g.plain(), g.plain() + "/"})
}

func (g *g) limit(wf bool) int {
	if g.rng.Intn(4) == 0 { // bit length drawn uniformly
		bits := 31
		if !wf {
			bits = 63
		}
		return int(g.rng.Uint64() >> uint(64-1-g.rng.Intn(bits)))
	}
	switch g.rng.Intn(10) {
	case 0, 1, 2, 3:
		return 0
	case 4:
		return 1 + g.rng.Intn(100)
	case 5:
		return 1<<31 - 1
	case 6:
		if !wf {
			return g.pick2([]int{1 << 31, 1 << 40, math.MaxInt64})
		}
	case 7:
		return -g.rng.Intn(5)
	}
	return g.rng.Intn(1 << 20)
}

// records of the harness schema
func (g *g) record() string {
	h := map[string]interface{}{
		"S": g.pick(schemaStrings), "I": g.int64(), "B": g.rng.Intn(2) == 0, "U": g.rng.Intn(1 << 16),
		"Sub": map[string]interface{}{"X": int64(g.rng.Intn(21) - 10), "Y": g.pick(schemaStrings)},
	}
	for {
		f := g.float()
		if !math.IsNaN(f) && !math.IsInf(f, 0) {
			h["F"] = f
			break
		}
	}
	l := make([]string, g.rng.Intn(4))
	for i := range l {
		l[i] = g.pick(schemaStrings)
	}
	h["L"] = l
	switch g.rng.Intn(6) {
	case 0:
		delete(h, "S")
	case 1:
		h["F"] = int64(g.rng.Intn(21) - 10) // integral number: both coercions apply
	case 2:
		h["I"] = int64(g.rng.Intn(21) - 10)
	}
	b, _ := json.Marshal(h)
	return string(b)
}

func (g *g) emitRT(emit func(hxlib.Case), kind string, in *rtIn, nrec int) {
	jsons := make([]string, nrec)
	for i := range jsons {
		jsons[i] = g.record()
	}
	var line string
	var o *rtOut
	ok := false
	res := guarded(func() string {
		line, o, ok = rtLine(in, jsons)
		return ""
	})
	if res != "" || !ok {
		// the implementation panicked while the generator prepared the tables: still run it (implementation only)
		w := "-"
		if in.where != nil {
			w = in.where.spec()
		}
		if in.precheck {
			w = "C:" + w
		}
		emit(hxlib.Case{Lines: []string{fmt.Sprintf("rt %s %s %s %d %d ~ ~ ~", hx(in.prefix), w, hx(in.orderby), in.limit, in.offset)}, Kind: kind + "-gen-panic", NoModel: true, NonTrivial: true})
		return
	}
	cl := rtClass(in)
	g.r.Count("rt-class:" + cl)
	g.r.Count(fmt.Sprintf("rt-object-used-before:%v", in.precheck))
	if o.checkErr != nil {
		g.r.Count("rt-outcome:" + errClass(o.checkErr))
	} else {
		g.r.Count("rt-outcome:checked")
	}
	if in.where != nil {
		g.r.Count(fmt.Sprintf("rt-depth:%d", in.where.depth()))
		lv := in.where.leaves()
		switch {
		case lv > 8:
			lv = 9
		}
		g.r.Count(fmt.Sprintf("rt-leaves:%d", lv))
	} else {
		g.r.Count("rt-depth:0")
	}
	emit(hxlib.Case{Lines: []string{line}, Kind: kind, NonTrivial: in.where != nil && o.checkErr == nil})
}

// ---- grammar sentences -----------------------------------------------------------------------------

var opNames = []string{"==", ">", ">=", "<", "<=", "f==", "f>", "f>=", "f<", "f<=", "sameas", "s==", "contains", "co", "startswith", "sw", "endswith", "ew", "in", "matches", "re", "is", "exists", "ex"}

func (g *g) gap() string {
	switch g.rng.Intn(6) {
	case 0:
		return g.pick([]string{"  ", "\t", "\n", " \t ", "\r\n", "   "})
	}
	return " "
}

func (g *g) word(text string) word {
	hasSpecial := text == "" || strings.ContainsAny(text, specials)
	styles := "rqqb"
	if hasSpecial {
		styles = "qqb"
	}
	if text == "" {
		styles = "q"
	}
	return word{style: styles[g.rng.Intn(len(styles))], text: text}
}

func (g *g) sleaf(valid bool) *snode {
	name := g.pick(opNames)
	info := readmeOps[name]
	n := &snode{kind: 'W', gap: g.gap(), key: g.word(g.key(true)), opname: name, neg: g.pick2([]int{0, 0, 0, 1, 1, 2})}
	g.r.Count("gs-operator:" + name)
	var v string
	switch info.kind {
	case 'e':
		return n
	case 'i':
		v = g.pick([]string{strconv.FormatInt(g.int64(), 10), "+5", "007", "-0", "010", "-0777", "0" + strconv.Itoa(g.rng.Intn(5000))})
		if !valid {
			v = g.pick([]string{"banana", "1.5", "9223372036854775808", "", "1_0", "0x10", g.text()})
		}
	case 'f':
		v = g.pick([]string{strconv.FormatFloat(g.float(), 'g', -1, 64), fmt.Sprintf("%g", g.float()), "1.0", "1e3", ".5", "inf", "NaN", "0x1p-2", "+7"})
		if !valid {
			v = g.pick([]string{"banana", "1e999", "", "1,5", g.text()})
		}
	case 's':
		v = g.value()
	case 'l':
		v = g.plain() + "," + g.value()
		if g.rng.Intn(3) == 0 {
			v += "," + g.plain()
		}
		if !valid {
			v = g.pick([]string{"banana", "", g.plain()})
		}
	case 'r':
		v = g.pick(regexes)
		if !valid {
			v = g.pick(badRegexes)
		}
	case 'b':
		v = g.pick([]string{"1", "t", "T", "true", "True", "TRUE", "0", "f", "F", "false", "False", "FALSE"})
		if !valid {
			v = g.pick([]string{"great", "yes", "", "tRUE", "2"})
		}
	}
	w := g.word(v)
	n.val = &w
	return n
}

func (g *g) stree(depth int, invalidAt *int) *snode {
	k := g.rng.Intn(10)
	if depth == 0 || k < 5 {
		*invalidAt--
		return g.sleaf(*invalidAt != 0)
	}
	n := &snode{kind: 'A', gap: g.gap(), pgap: g.pick([]string{"", "", "", " ", "  ", "\t"}), ngap: g.pick([]string{" ", " ", "", "  ", "\n"}), neg: g.pick2([]int{0, 0, 1})}
	if g.rng.Intn(2) == 0 {
		n.kind = 'O'
	}
	w := 2 + g.rng.Intn(3)
	for i := 0; i < w; i++ {
		n.kids = append(n.kids, g.stree(depth-1, invalidAt))
	}
	return n
}

func (g *g) sentence(depth int) *sentence {
	s := &sentence{gap: g.gap(), prefix: g.word(g.prefix()), strip: g.rng.Intn(3) != 0}
	invalidAt := -1
	if g.rng.Intn(10) == 0 {
		invalidAt = 1 + g.rng.Intn(3)
	}
	if g.rng.Intn(8) != 0 {
		s.where = g.stree(depth, &invalidAt)
	}
	if g.rng.Intn(3) == 0 {
		w := g.word(g.key(false))
		s.orderby = &w
	}
	num := func() *string {
		v := g.pick([]string{strconv.Itoa(g.rng.Intn(1000)), "0", "007", "2147483647", strconv.Itoa(g.rng.Intn(1 << 31))})
		if g.rng.Intn(15) == 0 {
			v = g.pick([]string{"2147483648", "-1", "+1", "1.5", "x", "1_0"})
		}
		return &v
	}
	if g.rng.Intn(3) == 0 {
		s.limit = num()
	}
	if g.rng.Intn(3) == 0 {
		s.offset = num()
	}
	return s
}

func (g *g) emitGS(emit func(hxlib.Case), kind string, s *sentence) {
	oracle, noModel := "~", false
	if res := guarded(func() string { oracle = s.oracle(); return "" }); res != "" {
		noModel = true // the implementation panics on this sentence: run it on the implementation only, the monitor reports it
	}
	line := "gs " + s.spec() + " " + oracle
	want := expectSentence(s)
	if want == "" {
		g.r.Count("gs-class:outside-grammar")
	} else {
		g.r.Count("gs-class:sentence")
	}
	if s.where != nil && s.where.kind != 'W' && s.where.kids[len(s.where.kids)-1].kind != 'W' {
		g.r.Count("gs-ends-in-group")
	}
	if !utf8.ValidString(s.render()) {
		noModel = true // the parser model works on valid UTF-8; the monitor's expectation does not need it
		g.r.Count("gs-utf8-valid:false")
	}
	emit(hxlib.Case{Lines: []string{line}, Kind: kind, NoModel: noModel, NonTrivial: want != "" && s.where != nil})
}

// ---- text → object: mutated sentences and raw strings ---------------------------------------------

func (g *g) emitParse(emit func(hxlib.Case), kind, text string) {
	valid := utf8.ValidString(text)
	oracle := "~"
	if valid {
		res := guarded(func() string { oracle = textOracle(text, nil); return "" })
		if res != "" {
			valid = false // tokenizer panics: implementation-only case, the monitor reports it
			oracle = "~"
		}
	}
	g.r.Count(fmt.Sprintf("parse-utf8-valid:%v", valid))
	l := len(text)
	switch {
	case l > 64:
		l = 65
	case l > 16:
		l = 17 + (l-17)/16*16
	}
	g.r.Count(fmt.Sprintf("parse-len:%d", l))
	emit(hxlib.Case{Lines: []string{"parse " + hx(text) + " " + oracle}, Kind: kind, NoModel: !valid, NonTrivial: len(text) > 6})
	if valid && g.rng.Intn(4) == 0 {
		emit(hxlib.Case{Lines: []string{"lex " + hx(text)}, Kind: kind + "-lex", NonTrivial: len(text) > 6})
	}
}

func (g *g) mutate(text string) string {
	toks := strings.Split(text, " ")
	switch g.rng.Intn(12) {
	case 0: // drop a token
		if len(toks) > 1 {
			i := g.rng.Intn(len(toks))
			toks = append(toks[:i:i], toks[i+1:]...)
		}
	case 1: // duplicate a token
		i := g.rng.Intn(len(toks))
		toks = append(toks[:i+1:i+1], toks[i:]...)
	case 2: // swap two tokens
		i, j := g.rng.Intn(len(toks)), g.rng.Intn(len(toks))
		toks[i], toks[j] = toks[j], toks[i]
	case 3: // unbalanced quote / parenthesis
		i := g.rng.Intn(len(toks))
		toks[i] = g.pick([]string{"\"", "(", ")", "\\"}) + toks[i]
	case 4:
		i := g.rng.Intn(len(toks))
		toks[i] += g.pick([]string{"\"", "(", ")", "\\", "é", "\\\\"})
	case 5: // trailing backslash / multi-byte rune
		return text + g.pick([]string{"\\", " \\", "é", "世", "\"", " \"", " (", " )", " and", " or", " not", " limit", " where"})
	case 6: // keyword as key or value
		i := g.rng.Intn(len(toks))
		toks[i] = g.pick(keywords)
	case 7: // truncate
		b := []byte(text)
		return string(b[:g.rng.Intn(len(b)+1)])
	case 8: // insert a random string
		i := g.rng.Intn(len(toks))
		toks[i] = g.str(5)
	case 9: // clause duplicated
		return text + g.pick([]string{" limit 3", " offset 4", " orderby x", " where a exists", " limit 0 limit 2", " orderby \"\" orderby b"})
	case 10: // cut a byte (may produce invalid UTF-8)
		b := []byte(text)
		if len(b) > 0 {
			i := g.rng.Intn(len(b))
			b = append(b[:i:i], b[i+1:]...)
		}
		return string(b)
	case 11:
		b := []byte(text)
		if len(b) > 0 {
			b[g.rng.Intn(len(b))] = byte(g.rng.Intn(256))
		}
		return string(b)
	}
	return strings.Join(toks, " ")
}

func (g *g) raw() string {
	n := g.rng.Intn(14)
	parts := make([]string, n)
	for i := range parts {
		switch g.rng.Intn(6) {
		case 0, 1:
			parts[i] = g.pick(keywords)
		case 2:
			parts[i] = g.pick(opNames)
		case 3:
			parts[i] = g.pick(schemaKeys)
		default:
			parts[i] = g.str(4)
		}
	}
	s := strings.Join(parts, g.pick([]string{" ", " ", "", "  "}))
	if g.rng.Intn(5) != 0 {
		s = "query " + g.pick([]string{"a:", "db:k", ":", "x"}) + " " + g.pick([]string{"where ", "where ", "where ", "", "where (", "where not ", "orderby "}) + s
	}
	return s
}

func (g *g) rawBytes() string {
	n := g.rng.Intn(40)
	b := make([]byte, n)
	for i := range b {
		switch g.rng.Intn(4) {
		case 0:
			b[i] = byte(g.rng.Intn(256))
		case 1:
			b[i] = "\"\\() \t"[g.rng.Intn(6)]
		default:
			b[i] = "query where andornot=<>abc:"[g.rng.Intn(27)]
		}
	}
	if g.rng.Intn(4) != 0 {
		return "query a: where " + string(b)
	}
	return string(b)
}
