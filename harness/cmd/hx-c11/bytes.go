package main

// Byte strings. Go strings are byte strings: the query API takes, prints and parses tokens that are not valid
// UTF-8 (Latin-1 text, truncated multi-byte sequences, binary keys), and the property ("key, prefix and value
// tokens … are preserved exactly", "matches exactly the same records") does not exempt them. The Lean model of
// the parser/printer works on List Char, so these cases run on the implementation only, but under the FULL
// round-trip monitor (byte-exact tokens through Print → ParseQuery → Print, same match vector on witness records
// that carry exactly the operand bytes). The tokenizer/escaper pair is modelled over bytes (PB.Model.QueryBytes)
// and tied by the ops lexb / escb on arbitrary byte strings.
//
//   rtb  <hex prefix> <cond|-> <hex orderby> <limit> <offset>      like rt, implementation only, own witness records
//   lexb <hex bytes>                                                tokenizer on any byte string (model: lexBytes)
//   escb <hex bytes>                                                Print of New("a:"+t): escapeString (model: escB)

import (
	"fmt"
	"strings"
	"unicode/utf8"

	"github.com/safing/portbase/database/query"
	"github.com/safing/portbase/database/record"
	"github.com/safing/portbase/formats/dsd"

	"verifharness/hxlib"
)

// byte sequences that are not valid UTF-8, by the class of the decoder's refusal
var badBytes = []string{
	"\x80", "\xbf", "\xa9", // lone continuation bytes
	"\xc3", "\xe4\xb8", "\xe4", "\xf0\x9f\x98", "\xf0\x9f", "\xf0", // truncated 2-, 3-, 4-byte sequences
	"\xff", "\xfe", "\xf8\x88\x80\x80\x80", "\xf5\x80\x80\x80", // bytes that never occur in UTF-8
	"\xc0\xaf", "\xc1\x9c", "\xc0\xa2", "\xc0\xa0", "\xe0\x80\xaf", "\xe0\x9f\xbf", "\xf0\x80\x80\xaf", "\xf0\x8f\xbf\xbf", // overlong forms (of / \ " space …)
	"\xed\xa0\x80", "\xed\xbf\xbf", "\xed\xa0\xbd\xed\xb8\x80", // surrogates written in UTF-8 (CESU-8)
	"\xf4\x90\x80\x80", // beyond U+10FFFF
	"\xe9", "caf\xe9", "\xfc\xdf", // Latin-1 text
}

// every character escapeString quotes or escapes / the tokenizer treats specially
var escWorthy = []string{" ", "\"", "\\", "(", ")", "\t", "\r", "\n"}

// bstr: a token that contains at least one invalid byte sequence and (3 of 4) at least one escape-worthy
// character, in every order, next to plain and valid multi-byte characters.
func (g *g) bstr() string {
	n := 1 + g.rng.Intn(6)
	if g.rng.Intn(30) == 0 {
		n = 8 << uint(g.rng.Intn(4))
	}
	parts := make([]string, n)
	for i := range parts {
		switch k := g.rng.Intn(10); {
		case k < 3:
			parts[i] = g.pick(badBytes)
		case k < 6:
			parts[i] = g.pick(escWorthy)
		case k < 7:
			parts[i] = string([]byte{byte(0x80 + g.rng.Intn(0x80))})
		default:
			parts[i] = g.pick([]string{"a", "b", "x", "K", "0", "7", "é", "世", "😀", ",", ":", ".", "_", "�", "\x00", "\x7f"})
		}
	}
	parts[g.rng.Intn(n)] = g.pick(badBytes)
	if g.rng.Intn(4) != 0 {
		i := g.rng.Intn(n + 1)
		parts = append(parts[:i:i], append([]string{g.pick(escWorthy)}, parts[i:]...)...)
	}
	return strings.Join(parts, "")
}

var witnessKeys = []string{"S", "Sub.Y", "L.0", "L.1"}

// bleaf: a string clause on a field of the witness records whose operand is a byte string
func (g *g) bleaf() *node {
	op := 10 + g.rng.Intn(5)
	g.r.Count(fmt.Sprintf("rtb-operator:%d", op))
	n := &node{kind: 'W', op: op, key: g.pick(witnessKeys)}
	if g.rng.Intn(6) == 0 {
		n.key = g.bstr()
	}
	if op == 14 {
		l := make([]string, 2+g.rng.Intn(2))
		for i := range l {
			for {
				if l[i] = g.bstr(); !strings.Contains(l[i], ",") {
					break
				}
			}
		}
		n.arg = arg{t: 'l', l: l}
		return n
	}
	n.arg = arg{t: 's', s: g.bstr()}
	return n
}

func (g *g) btree(depth int) *node {
	k := g.rng.Intn(10)
	if depth == 0 || k < 5 {
		if g.rng.Intn(4) == 0 {
			return g.leaf(g.op(true), true)
		}
		return g.bleaf()
	}
	if k < 6 {
		kid := g.btree(depth - 1)
		if kid.kind == 'N' {
			kid = g.bleaf()
		}
		return &node{kind: 'N', kids: []*node{kid}}
	}
	n := &node{kind: 'A'}
	if g.rng.Intn(2) == 0 {
		n.kind = 'O'
	}
	for i, w := 0, 2+g.rng.Intn(3); i < w; i++ {
		n.kids = append(n.kids, g.btree(depth-1))
	}
	return n
}

// ---- witness records: they carry exactly the operand bytes --------------------------------------------

func (n *node) stringOperands(into *[]string) {
	if n == nil {
		return
	}
	if n.kind == 'W' {
		switch n.arg.t {
		case 's':
			*into = append(*into, n.arg.s)
		case 'l':
			*into = append(*into, n.arg.l...)
		}
		return
	}
	for _, k := range n.kids {
		k.stringOperands(into)
	}
}

// jsonRaw writes v as a JSON string literal WITHOUT touching bytes ≥ 0x80 (encoding/json would replace invalid
// UTF-8 by U+FFFD).
func jsonRaw(v string) string {
	var sb strings.Builder
	sb.WriteByte('"')
	for i := 0; i < len(v); i++ {
		switch c := v[i]; {
		case c == '"' || c == '\\':
			sb.WriteByte('\\')
			sb.WriteByte(c)
		case c < 0x20 || c == 0x7f:
			fmt.Fprintf(&sb, "\\u%04x", c)
		default:
			sb.WriteByte(c)
		}
	}
	sb.WriteByte('"')
	return sb.String()
}

func witnessRecords(where *node) []record.Record {
	var ops []string
	where.stringOperands(&ops)
	seen := map[string]bool{}
	vals := []string{"zz"}
	for _, v := range ops {
		if !seen[v] && len(vals) < 7 {
			seen[v] = true
			vals = append(vals, v)
			// the neighbours a lossy round trip would produce must NOT match afterwards either
			if repl := strings.ToValidUTF8(v, "�"); repl != v && !seen[repl] {
				seen[repl] = true
				vals = append(vals, repl)
			}
		}
	}
	var recs []record.Record
	for _, v := range vals {
		s := &hrec{S: v, I: 1, L: []string{v, v}, Sub: hsub{X: 1, Y: v}}
		s.SetKey("hx:rec")
		recs = append(recs, s)
		j := fmt.Sprintf(`{"S":%s,"I":1,"L":[%s,%s],"Sub":{"X":1,"Y":%s}}`, jsonRaw(v), jsonRaw(v), jsonRaw(v), jsonRaw(v))
		if w, err := record.NewWrapper("hx:rec", nil, dsd.JSON, []byte(j)); err == nil {
			recs = append(recs, w)
		}
	}
	return recs
}

func matchRecs(q *query.Query, recs []record.Record) string {
	var sb strings.Builder
	for _, r := range recs {
		if q.MatchesRecord(r) {
			sb.WriteByte('1')
		} else {
			sb.WriteByte('0')
		}
	}
	return sb.String()
}

func rtbSpec(in *rtIn) string {
	w := "-"
	if in.where != nil {
		w = in.where.spec()
	}
	if in.precheck {
		w = "C:" + w
	}
	return fmt.Sprintf("rtb %s %s %s %d %d", hx(in.prefix), w, hx(in.orderby), in.limit, in.offset)
}

// doRTB: build → Check → Print → ParseQuery → Print on the real code; same output layout as rt.
func doRTB(in *rtIn) string {
	q := in.build()
	if _, err := q.Check(); err != nil {
		return errClass(err)
	}
	d1, p1 := query.VerifDump(q), q.Print()
	if _, err := q.Check(); err != nil || q.Print() != p1 || query.VerifDump(q) != d1 {
		return "unstable"
	}
	recs := witnessRecords(in.where)
	m1 := matchRecs(q, recs)
	q2, err := query.ParseQuery(p1)
	if err != nil {
		return fmt.Sprintf("ok %s %s %s %s", d1, hx(p1), errClass(err), m1)
	}
	d2, p2 := query.VerifDump(q2), q2.Print()
	if q2.Print() != p2 {
		return "unstable"
	}
	return fmt.Sprintf("ok %s %s ok %s %s %s %s", d1, hx(p1), d2, hx(p2), m1, matchRecs(q2, recs))
}

func (g *g) emitRTB(emit func(hxlib.Case), kind string, in *rtIn) {
	line := rtbSpec(in)
	out := guarded(func() string { return doRTB(in) })
	f := strings.Split(out, " ")
	hit := len(f) == 8 && strings.Contains(f[6], "1")
	g.r.Count(fmt.Sprintf("rtb-witness-matches:%v", hit))
	g.r.Count("rtb-class:" + rtClass(in))
	var ops []string
	in.where.stringOperands(&ops)
	both := 0
	for _, v := range append(ops, in.prefix, in.orderby) {
		if !utf8.ValidString(v) && strings.ContainsAny(v, "\"\\") {
			both++
		}
	}
	if both > 3 {
		both = 3
	}
	g.r.Count(fmt.Sprintf("rtb-tokens-invalid-utf8-and-escape:%d", both))
	emit(hxlib.Case{Lines: []string{line}, Kind: kind, NoModel: true, NonTrivial: in.where != nil && f[0] == "ok"})
}

func (g *g) bprefix() string {
	switch g.rng.Intn(4) {
	case 0:
		return g.plain() + ":" + g.bstr()
	case 1:
		return g.bstr() + ":" + g.plain()
	}
	return g.plain() + ":" + g.plain()
}

// bword: a word of the grammar carrying a byte string
func (g *g) bword() word { return g.word(g.bstr()) }

// bsentence: a grammar sentence whose string operands / keys / prefix / orderby are byte strings
func (g *g) bsentence(depth int) *sentence {
	s := &sentence{gap: g.gap(), prefix: g.word(g.bprefix()), strip: g.rng.Intn(3) != 0}
	var tree func(d int) *snode
	tree = func(d int) *snode {
		if d == 0 || g.rng.Intn(10) < 5 {
			name := g.pick([]string{"sameas", "s==", "contains", "co", "startswith", "sw", "endswith", "ew", "exists", "in"})
			n := &snode{kind: 'W', gap: g.gap(), key: g.word(g.pick(witnessKeys)), opname: name, neg: g.pick2([]int{0, 0, 0, 1, 2})}
			if g.rng.Intn(5) == 0 {
				n.key = g.bword()
				if structural[n.key.text] {
					n.key = g.word("S")
				}
			}
			g.r.Count("gsb-operator:" + name)
			switch name {
			case "exists":
			case "in":
				v := g.plain()
				for {
					if b := g.bstr(); !strings.Contains(b, ",") {
						v += "," + b
						break
					}
				}
				w := g.word(v)
				n.val = &w
			default:
				w := g.bword()
				n.val = &w
			}
			return n
		}
		n := &snode{kind: 'A', gap: g.gap(), pgap: g.pick([]string{"", "", " ", "\t"}), ngap: g.pick([]string{" ", "", "\n"}), neg: g.pick2([]int{0, 0, 1})}
		if g.rng.Intn(2) == 0 {
			n.kind = 'O'
		}
		for i, w := 0, 2+g.rng.Intn(2); i < w; i++ {
			n.kids = append(n.kids, tree(d-1))
		}
		return n
	}
	s.where = tree(depth)
	if g.rng.Intn(3) == 0 {
		w := g.bword()
		s.orderby = &w
	}
	return s
}

// unitsOut: what `for pos, char := range text` visits (width of every step and the rune seen) — ties decode1/units
func unitsOut(text string) string {
	var ps []int
	var rs []rune
	for pos, ch := range text {
		ps = append(ps, pos)
		rs = append(rs, ch)
	}
	if len(ps) == 0 {
		return "ok 0"
	}
	ps = append(ps, len(text))
	out := make([]string, len(rs))
	for i := range rs {
		out[i] = fmt.Sprintf("%d:%d", ps[i+1]-ps[i], rs[i])
	}
	return fmt.Sprintf("ok %d %s", len(out), strings.Join(out, ","))
}

// anyBytes: byte strings for the byte-level model: tokens, escaped tokens, mutated texts, uniformly random bytes
func (g *g) anyBytes(texts []string) string {
	switch g.rng.Intn(8) {
	case 0:
		return g.bstr()
	case 1:
		return g.rawBytes()
	case 2:
		return g.str(6)
	case 3: // every lead byte class followed by 0-3 bytes of every class
		b := []byte{byte(0x80 + g.rng.Intn(0x80))}
		for k := g.rng.Intn(4); k > 0; k-- {
			b = append(b, g.pickByte())
		}
		return g.pick([]string{"", "a", "\"", "\\"}) + string(b) + g.pick([]string{"", "a", "\"", "\\", " ", "\x80"})
	case 4:
		n := g.rng.Intn(12)
		b := make([]byte, n)
		for i := range b {
			b[i] = g.pickByte()
		}
		return string(b)
	}
	if len(texts) == 0 {
		return g.bstr()
	}
	t := []byte(g.pick(texts))
	for k := g.rng.Intn(3); k > 0 && len(t) > 0; k-- {
		i := g.rng.Intn(len(t))
		switch g.rng.Intn(3) {
		case 0:
			t[i] = g.pickByte()
		case 1:
			t = append(t[:i:i], t[i+1:]...)
		default:
			t = append(t[:i:i], append([]byte{g.pickByte()}, t[i:]...)...)
		}
	}
	return string(t)
}

// pickByte: bytes by decoder class (ASCII specials, ASCII, continuation, 2-/3-/4-byte leads incl. E0 ED F0 F4, never valid)
func (g *g) pickByte() byte {
	switch g.rng.Intn(8) {
	case 0:
		return "\"\\() \t\r\n"[g.rng.Intn(8)]
	case 1:
		return byte(g.rng.Intn(0x80))
	case 2:
		return byte(0x80 + g.rng.Intn(0x40))
	case 3:
		return byte(0xc0 + g.rng.Intn(0x20))
	case 4:
		return []byte{0xe0, 0xe1, 0xe4, 0xec, 0xed, 0xee, 0xef}[g.rng.Intn(7)]
	case 5:
		return []byte{0xf0, 0xf1, 0xf3, 0xf4, 0xf5, 0xf7}[g.rng.Intn(6)]
	case 6:
		return []byte{0x9f, 0xa0, 0x8f, 0x90, 0xbf, 0x80, 0xc0, 0xc1, 0xc2, 0xdf, 0xf8, 0xfe, 0xff}[g.rng.Intn(13)]
	}
	return byte(g.rng.Intn(256))
}

// emitBytesModel: one case = the byte-level model against the real tokenizer / escapeString / range on one byte string
func (g *g) emitBytesModel(emit func(hxlib.Case), t string) {
	g.r.Count(fmt.Sprintf("bytes-model-utf8-valid:%v", utf8.ValidString(t)))
	g.r.Count(fmt.Sprintf("bytes-model-has-escape:%v", strings.ContainsAny(t, "\"\\")))
	esc := strings.TrimPrefix(query.New("a:"+t).Print(), "query ")
	emit(hxlib.Case{Lines: []string{"units " + hx(t), "escb " + hx(t), "lexb " + hx(t), "lexb " + hx(esc),
		"lexb " + hx("query "+esc+" where "+esc+" sameas ("+esc+")"+esc)}, Kind: "bytes-model", NonTrivial: len(t) > 2})
}

// escbLine / lexbLine: ties of the byte-level model of escapeString / extractSnippets+prepToken
func escbOut(t string) string { return hx(query.New("a:" + t).Print()) }

func lexbOut(text string) string {
	toks, err := query.VerifExtractSnippets(text)
	if err != nil {
		return errClass(err)
	}
	if len(toks) == 0 {
		return "ok 0"
	}
	hs := make([]string, len(toks))
	for i, t := range toks {
		hs[i] = hx(t)
	}
	return fmt.Sprintf("ok %d %s", len(hs), strings.Join(hs, ","))
}
