package main

// The property monitor: the statement of C11 read literally on implementation outputs.
// Nothing here consults the Lean model; the expectations for grammar sentences are computed from
// the README's operator table and the standard library only.

import (
	"fmt"
	"regexp"
	"strconv"
	"strings"

	"verifharness/hxlib"
)

// README.md "Operators" table: textual name → (operator number, required operand type)
type opInfo struct {
	id   int
	kind byte // i f s l r b e
}

var readmeOps = map[string]opInfo{
	"==": {0, 'i'}, ">": {1, 'i'}, ">=": {2, 'i'}, "<": {3, 'i'}, "<=": {4, 'i'},
	"f==": {5, 'f'}, "f>": {6, 'f'}, "f>=": {7, 'f'}, "f<": {8, 'f'}, "f<=": {9, 'f'},
	"sameas": {10, 's'}, "s==": {10, 's'}, "contains": {11, 's'}, "co": {11, 's'},
	"startswith": {12, 's'}, "sw": {12, 's'}, "endswith": {13, 's'}, "ew": {13, 's'},
	"in": {14, 'l'}, "matches": {15, 'r'}, "re": {15, 'r'}, "is": {16, 'b'},
	"exists": {17, 'e'}, "ex": {17, 'e'},
}

var readmeBools = map[string]bool{"1": true, "t": true, "T": true, "true": true, "True": true, "TRUE": true,
	"0": false, "f": false, "F": false, "false": false, "False": false, "FALSE": false}

var structural = map[string]bool{"and": true, "or": true, "not": true, "(": true, ")": true}

// expectLeaf returns the canonical dump of the clause the README grammar describes, or "" when an
// operand is not valid for the operator (then the sentence is outside the documented grammar).
func expectLeaf(n *snode) string {
	info, ok := readmeOps[n.opname]
	if !ok || structural[n.key.text] {
		return ""
	}
	k := hx(n.key.text)
	var d string
	if info.kind == 'e' {
		if n.val != nil {
			return ""
		}
		d = fmt.Sprintf("E(%s,%d)", k, info.id)
	} else {
		if n.val == nil {
			return ""
		}
		v := n.val.text
		switch info.kind {
		case 'i':
			i, err := strconv.ParseInt(v, 10, 64)
			if err != nil {
				return ""
			}
			d = fmt.Sprintf("I(%s,%d,%d)", k, info.id, i)
		case 'f':
			f, err := strconv.ParseFloat(v, 64)
			if err != nil {
				return ""
			}
			d = fmt.Sprintf("F(%s,%d,%s)", k, info.id, hx(fmt.Sprintf("%g", f)))
		case 's':
			d = fmt.Sprintf("S(%s,%d,%s)", k, info.id, hx(v))
		case 'l':
			items := strings.Split(v, ",")
			if len(items) < 2 {
				return ""
			}
			for i := range items {
				items[i] = hx(items[i])
			}
			d = fmt.Sprintf("L(%s,%d,%s)", k, info.id, strings.Join(items, ";"))
		case 'r':
			if _, err := regexp.Compile(v); err != nil {
				return ""
			}
			d = fmt.Sprintf("R(%s,%d,%s)", k, info.id, hx(v))
		case 'b':
			b, ok := readmeBools[v]
			if !ok {
				return ""
			}
			d = fmt.Sprintf("B(%s,%d,%d)", k, info.id, map[bool]int{false: 0, true: 1}[b])
		}
	}
	if n.neg != 0 {
		d = "N[" + d + "]"
	}
	return d
}

func expectCond(n *snode) string {
	if n.kind == 'W' {
		return expectLeaf(n)
	}
	if len(n.kids) < 2 {
		return "" // the grammar chains two or more conditions
	}
	parts := make([]string, len(n.kids))
	for i, k := range n.kids {
		if parts[i] = expectCond(k); parts[i] == "" {
			return ""
		}
	}
	d := string(n.kind) + "[" + strings.Join(parts, ";") + "]"
	if n.neg != 0 {
		d = "N[" + d + "]"
	}
	return d
}

// expectSentence: the checked query the documented grammar assigns to the sentence ("" = not a sentence of the grammar).
func expectSentence(s *sentence) string {
	w := "-"
	if s.where != nil {
		if w = expectCond(s.where); w == "" {
			return ""
		}
	}
	lim, off := 0, 0
	for i, p := range []*string{s.limit, s.offset} {
		if p == nil {
			continue
		}
		v, err := strconv.ParseUint(*p, 10, 31)
		if err != nil {
			return ""
		}
		if i == 0 {
			lim = int(v)
		} else {
			off = int(v)
		}
	}
	ob := ""
	if s.orderby != nil {
		ob = s.orderby.text
	}
	db, key := s.prefix.text, ""
	if i := strings.Index(db, ":"); i >= 0 {
		db, key = db[:i], db[i+1:]
	}
	return fmt.Sprintf("Q(%s,%s,%s,%s,%d,%d,1)", hx(db), hx(key), w, hx(ob), lim, off)
}

// input class of an API tree: the classes of queries that the text form cannot express
func (n *node) class() string {
	if n == nil {
		return ""
	}
	best := ""
	rank := map[string]int{"": 0, "not-not": 1, "keyword-key": 2, "single-member-group": 3, "empty-group": 4, "in-list": 5}
	up := func(c string) {
		if rank[c] > rank[best] {
			best = c
		}
	}
	var walk func(n *node)
	walk = func(n *node) {
		switch n.kind {
		case 'W':
			if structural[n.key] {
				up("keyword-key")
			}
			if n.op == 14 && n.arg.t == 'l' {
				if len(n.arg.l) < 2 {
					up("in-list")
				}
				for _, it := range n.arg.l {
					if strings.Contains(it, ",") {
						up("in-list")
					}
				}
			}
		case 'N':
			if n.kids[0].kind == 'N' {
				up("not-not")
			}
		default:
			if len(n.kids) == 0 {
				up("empty-group")
			}
			if len(n.kids) == 1 {
				up("single-member-group")
			}
		}
		for _, k := range n.kids {
			walk(k)
		}
	}
	walk(n)
	return best
}

func rtClass(in *rtIn) string {
	if c := in.where.class(); c != "" {
		return c
	}
	if in.limit >= 1<<31 || in.offset >= 1<<31 {
		return "limit-over-31-bits"
	}
	return "wf"
}

// dumpNode parses the condition part of a canonical dump back into a tree (for classifying parsed queries).
func dumpNode(p *sp) (*node, bool) {
	c := p.peek()
	switch c {
	case 'A', 'O', 'N':
		p.i++
		if !p.eat('[') {
			return nil, false
		}
		n := &node{kind: c}
		if p.eat(']') {
			return n, true
		}
		for {
			k, ok := dumpNode(p)
			if !ok {
				return nil, false
			}
			n.kids = append(n.kids, k)
			if p.eat(']') {
				return n, true
			}
			if !p.eat(';') {
				return nil, false
			}
		}
	case 'I', 'F', 'S', 'L', 'R', 'B', 'E', 'X':
		p.i++
		if !p.eat('(') {
			return nil, false
		}
		f := strings.Split(p.until(")"), ",")
		if !p.eat(')') {
			return nil, false
		}
		n := &node{kind: 'W', op: -1}
		if c == 'X' || len(f) < 2 {
			return n, true
		}
		n.key, _ = unhx(f[0])
		n.op, _ = strconv.Atoi(f[1])
		if c == 'L' && len(f) == 3 {
			n.arg = arg{t: 'l', l: []string{}}
			if f[2] != "" {
				for _, it := range strings.Split(f[2], ";") {
					v, _ := unhx(it)
					n.arg.l = append(n.arg.l, v)
				}
			}
		}
		return n, true
	}
	return nil, false
}

// dumpClass: the input class (see rtClass) of a query given by its canonical dump.
func dumpClass(d string) string {
	m := reQ.FindStringSubmatch(d)
	if m == nil {
		return "wf"
	}
	if m[3] != "-" {
		p := &sp{s: m[3]}
		if n, ok := dumpNode(p); ok && p.i == len(m[3]) {
			if c := n.class(); c != "" {
				return c
			}
		}
	}
	lim, _ := strconv.ParseInt(m[5], 10, 64)
	off, _ := strconv.ParseInt(m[6], 10, 64)
	if lim >= 1<<31 || off >= 1<<31 {
		return "limit-over-31-bits"
	}
	return "wf"
}

// reparse checks the round trip of a query that ParseQuery returned (fields: dump, print, same|diff:…|err:…).
func reparse(add func(sig, what string), dump, printHex, rp string) {
	if rp == "same" {
		return
	}
	p, _ := unhx(printHex)
	cl := dumpClass(dump)
	if strings.HasPrefix(rp, "err:") {
		add("C11:roundtrip:"+cl, fmt.Sprintf("print of a parsed query does not parse: Print() = %q is rejected by ParseQuery: %s", p, rp))
	} else {
		p2, _ := unhx(strings.TrimPrefix(rp, "diff:"))
		add("C11:roundtrip:"+cl, fmt.Sprintf("parsed query prints differently after re-parsing: %q then %q", p, p2))
	}
}

// leaves of a dump in order (clauses with key, operator, operand) + prefix and orderby: the tokens of the query
var reLeafTok = regexp.MustCompile(`[IFSLRBE]\([^)]*\)`)
var reQ = regexp.MustCompile(`^Q\(([0-9a-f-]+),([0-9a-f-]+),(.*),([0-9a-f-]+),(-?\d+),(-?\d+),([01])\)$`)

func dumpTokens(d string) string {
	m := reQ.FindStringSubmatch(d)
	if m == nil {
		return "?" + d
	}
	return m[1] + ":" + m[2] + " " + strings.Join(reLeafTok.FindAllString(m[3], -1), " ") + " " + m[4]
}

func monitor(c hxlib.Case, outs []string) (vs []hxlib.Violation) {
	add := func(i int, sig, what string) {
		vs = append(vs, hxlib.Violation{Sig: sig, What: what, Lines: c.Lines[i : i+1], Output: outs[i : i+1]})
	}
	for i, l := range c.Lines {
		f := strings.Split(l, " ")
		o := outs[i]
		of := strings.Split(o, " ")
		if strings.HasPrefix(o, "PANIC") || o == "HANG" {
			add(i, "C11:"+f[0]+"-does-not-terminate-normally", "parsing/printing must end with a query or an error, got: "+o)
			continue
		}
		if o == "bad-tables" || o == "unstable" {
			add(i, "C11:"+f[0]+"-not-repeatable", "the same input/object gave different Print/tokenizer/Check results when used a second time: "+o)
			continue
		}
		switch f[0] {
		case "parse":
			// terminates with a checked query or an error
			if of[0] == "ok" && !strings.HasSuffix(of[1], ",1)") {
				add(i, "C11:parse-returns-unchecked-query", "ParseQuery returned a query that is not checked: "+of[1])
			}
			if of[0] == "ok" && len(of) == 4 {
				reparse(func(sig, what string) { add(i, sig, what) }, of[1], of[2], of[3])
			}
		case "rt", "rtb":
			if of[0] != "ok" {
				continue // does not pass its own check: outside the statement
			}
			in, ok := parseRT(f[1:6])
			if !ok {
				continue
			}
			cl := rtClass(in)
			p1, _ := unhx(of[2])
			if of[3] != "ok" {
				add(i, "C11:roundtrip:"+cl, fmt.Sprintf("print does not parse: Print() = %q is rejected by ParseQuery: %s", p1, strings.Join(of[3:5], " ")))
				continue
			}
			p2, _ := unhx(of[5])
			if p2 != p1 {
				add(i, "C11:roundtrip:"+cl, fmt.Sprintf("prints differently: Print() = %q parses to a query that prints %q", p1, p2))
			}
			if of[6] != of[7] {
				add(i, "C11:roundtrip:"+cl, fmt.Sprintf("matches different records: Print() = %q: match vector %s before, %s after re-parsing", p1, of[6], of[7]))
			}
			if t1, t2 := dumpTokens(of[1]), dumpTokens(of[4]); t1 != t2 {
				add(i, "C11:roundtrip:"+cl, fmt.Sprintf("tokens changed: Print() = %q: tokens %s became %s", p1, t1, t2))
			}
		case "gs":
			s, ok := parseSentence(f[1:8])
			if !ok {
				continue
			}
			want := expectSentence(s)
			if want == "" {
				continue // not a sentence of the documented grammar (invalid operand …): only totality is demanded
			}
			text, _ := unhx(of[0])
			if len(of) < 3 || of[1] != "ok" {
				add(i, "C11:grammar:sentence-rejected", fmt.Sprintf("documented-grammar sentence %q rejected: %s", text, strings.Join(of[1:], " ")))
				continue
			}
			if of[2] != want {
				add(i, "C11:grammar:tokens-changed", fmt.Sprintf("sentence %q parsed to %s, the grammar says %s", text, of[2], want))
			}
			if len(of) == 5 {
				reparse(func(sig, what string) { add(i, sig, what) }, of[2], of[3], of[4])
			}
		}
	}
	return vs
}
