// hx-c11: correspondence harness and property monitor for C11 (database/query: text ↔ query objects).
package main

import (
	"verifharness/hxlib"
)

func strp(s string) *string { return &s }

func w(kind byte, key string, op int, a arg) *node { return &node{kind: 'W', key: key, op: op, arg: a} }

func grp(kind byte, kids ...*node) *node { return &node{kind: kind, kids: kids} }

func sw(key, opname, val string) *snode {
	n := &snode{kind: 'W', gap: " ", key: word{'r', key}, opname: opname}
	if val != "" {
		n.val = &word{'r', val}
	}
	return n
}

func sgrp(kind byte, kids ...*snode) *snode {
	return &snode{kind: kind, gap: " ", ngap: " ", kids: kids}
}

// corpus: the regression cases (DESIGN.md §7 #9–#13 and what the check found since); always run first
func corpus(g *g, emit func(hxlib.Case)) {
	i1 := arg{t: 'i', i: 1}
	rts := []*rtIn{
		{prefix: "db:k", where: grp('O', grp('A', w('W', "a", 0, i1), w('W', "b", 0, i1)), grp('A', w('W', "c", 0, i1), w('W', "d", 0, i1)))},
		{prefix: "db:k", where: grp('A', w('W', "a", 0, i1), grp('O', w('W', "c", 0, i1), w('W', "d", 0, i1))), orderby: "a", limit: 3},
		{prefix: "db:k", where: w('W', "S", 10, arg{t: 's', s: "xé"})},
		{prefix: "db:k", where: w('W', "S", 10, arg{t: 's', s: "x\\y z"})},
		{prefix: "db:k", where: w('W', "S", 10, arg{t: 's', s: "x y\""})},
		{prefix: "db:k", where: w('W', "S", 10, arg{t: 's', s: "a\\"})},
		{prefix: "db:k", where: w('W', "S", 10, arg{t: 's', s: "\\\\"})},
		{prefix: "db:k", where: w('W', "S", 10, arg{t: 's', s: "\"a\""})},
		{prefix: "db:k", where: grp('N', w('W', "a b", 0, i1))},
		{prefix: "db:k", where: grp('N', w('W', "S", 10, arg{t: 's', s: "x y"}))},
		{prefix: "db:k", where: w('W', "S", 10, arg{t: 's', s: ""})},
		{prefix: "db:k", where: w('W', "", 0, i1)},
		{prefix: "db:k x", where: w('W', "a", 0, i1)},
		{prefix: "db:k", orderby: "a b"},
		{prefix: "db:k", orderby: "a", limit: 1 << 31},
		{prefix: "db:k", where: grp('N', grp('N', w('W', "a", 0, i1)))},
		{prefix: "db:k", where: grp('O', grp('A', w('W', "a", 0, i1)), w('W', "b", 0, i1))},
		{prefix: "db:k", where: grp('A')},
		{prefix: "db:k", where: w('W', "S", 14, arg{t: 'l', l: []string{"a,b", "c"}})},
		{prefix: "db:k", where: w('W', "S", 14, arg{t: 'l', l: []string{"a"}})},
		{prefix: "db:k", where: w('W', "and", 0, i1)},
		{prefix: "db:k", where: w('W', "S", 15, arg{t: 's', s: "^King "})},
		{prefix: "db:k", where: w('W', "F", 5, arg{t: 'f', f: 1.5})},
		{prefix: "db:k", where: w('W', "I", 0, arg{t: 's', s: "x"}), precheck: true},
		{prefix: "db:k", where: w('W', "I", 0, i1), precheck: true},
	}
	for _, in := range rts {
		g.emitRT(emit, "corpus-rt", in, 2)
	}
	ss := []*sentence{
		{gap: " ", prefix: word{'r', "db:k"}, strip: true, where: sgrp('O', sgrp('A', sw("a", "==", "1"), sw("b", "==", "2")), sgrp('A', sw("c", "==", "3"), sw("d", "==", "4")))},
		{gap: " ", prefix: word{'r', "db:k"}, strip: true, where: sgrp('A', sw("a", "==", "1"), sgrp('O', sw("c", "==", "3"), sw("d", "ex", ""))), limit: strp("10")},
		{gap: " ", prefix: word{'r', "db:k"}, where: sw("S", "sameas", "xé")},
		{gap: " ", prefix: word{'r', "db:k"}, where: &snode{kind: 'W', gap: " ", key: word{'r', "S"}, opname: "sameas", val: &word{'b', "x\\y z"}}},
		{gap: " ", prefix: word{'r', "db:k"}, where: &snode{kind: 'W', gap: " ", key: word{'r', "S"}, opname: "sameas", val: &word{'q', "x y\""}}},
		{gap: " ", prefix: word{'r', "db:k"}, where: &snode{kind: 'W', gap: " ", key: word{'q', "a b"}, opname: "==", neg: 1, val: &word{'r', "1"}}},
		{gap: " ", prefix: word{'r', "db:k"}, where: &snode{kind: 'W', gap: " ", key: word{'r', "S"}, opname: "sameas", val: &word{'q', ""}}},
	}
	for _, s := range ss {
		g.emitGS(emit, "corpus-gs", s)
	}
	// byte strings: Latin-1 text with a quote, a Windows path, 0xff next to a quote, overlong backslash, surrogate + space
	for _, v := range []string{"caf\xe9 \"du nord\"", "C:\\caf\xe9", "\xff\"", "\xc1\x9c \xc0\xa2", "\xed\xa0\x80 x", "\xe4\xb8\\", "(\x80)", "a\tb\xc3"} {
		g.emitRTB(emit, "corpus-rtb", &rtIn{prefix: "db:k", where: w('W', "S", 10, arg{t: 's', s: v})})
		g.emitGS(emit, "corpus-gs-bytes", &sentence{gap: " ", prefix: word{'r', "db:k"}, where: &snode{kind: 'W', gap: " ", key: word{'r', "S"}, opname: "sameas", val: &word{'b', v}}})
		g.emitGS(emit, "corpus-gs-bytes", &sentence{gap: " ", prefix: word{'r', "db:k"}, where: &snode{kind: 'W', gap: " ", key: word{'r', "S"}, opname: "sameas", val: &word{'q', v}}})
	}
	for _, v := range []string{"caf\xe9 \"du nord\"", "\xe4\xb8\\", "\xc1\x9c", "\xf0\x9f\x98\"", "\xed\xa0\x80", "\xf4\x90\x80\x80", "\xe0\x9f\xbf", "世\\😀", ""} {
		g.emitBytesModel(emit, v)
	}
	g.emitRTB(emit, "corpus-rtb", &rtIn{prefix: "db:k\xe9 \"", orderby: "\xff\\", where: w('W', "\x80 \"", 17, arg{t: 'n'})})
	for _, t := range []string{
		`query test: where ( "bananas" > 100 and monkeys.# <= "12")or(coconuts < 10 "and" area > 50) or name sameas Julian or name matches ^King\ `,
		`query test: where (bananas > 100 and monkeys.# <= 12) or not (coconuts < 10 and area not > 50) or name sameas Julian or name matches "^King " orderby name limit 10 offset 20`,
		`query`, `query test: where`, `query test: where (`, `query test: where )`, `query test: where not`, `query test: where banana`,
		`query test: where banana >`, `query test: where banana nope`, `query test: where banana exists or`, `query test: where banana exists and (`,
		`query test: where banana exists and banana is true or`, `query test: where banana == banana`, `query test: where banana f== banana`,
		`query test: where banana in banana`, `query test: where banana matches [banana`, `query test: where banana is great`,
		`query a: where x sameas "abc`, `query a: where x sameas abc\`, `query a: where x sameas é`, `query a: where ()`, `query a: where () or a exists`,
		`query a: where a exists limit 0 limit 1`, `query a: limit 1 limit 1`, `query a: where not not a exists`, `query a: where a == 1 b == 2`,
		"", " ", `"`, `\`, `query "`, "query a: where a\"b == 1", "quer\xc3", "query a: where S sameas x\xc3",
	} {
		g.emitParse(emit, "corpus-parse", t)
	}
}

func generate(r *hxlib.Run, emit func(hxlib.Case)) {
	g := &g{r: r, rng: r.Rng}
	corpus(g, emit)
	maxDepth := 4
	if r.Thorough {
		maxDepth = 6
	}
	var prints []string
	keep := func(s string) {
		if len(prints) < 4000 {
			prints = append(prints, s)
		} else {
			prints[g.rng.Intn(len(prints))] = s
		}
	}
	// (a) object → text → object
	for i := 0; i < r.Budget(20000, 250000); i++ {
		wf := g.rng.Intn(5) != 0
		in := &rtIn{prefix: g.prefix(), limit: g.limit(wf), offset: g.limit(wf), precheck: g.rng.Intn(4) == 0}
		if g.rng.Intn(12) != 0 {
			in.where = g.tree(g.rng.Intn(maxDepth+1), wf)
		}
		if g.rng.Intn(3) == 0 {
			in.orderby = g.key(false)
		}
		kind := "rt-wf"
		if !wf {
			kind = "rt-any"
		}
		g.emitRT(emit, kind, in, 3)
		if i%3 == 0 {
			guarded(func() string {
				q := in.build()
				if _, err := q.Check(); err == nil {
					keep(q.Print())
				}
				return ""
			})
		}
	}
	// (b) text → object: sentences of the documented grammar, then mutations of sentences and of printed queries
	for i := 0; i < r.Budget(20000, 250000); i++ {
		s := g.sentence(g.rng.Intn(maxDepth))
		g.emitGS(emit, "gs", s)
		if i%3 == 0 {
			keep(s.render())
		}
	}
	for i := 0; i < r.Budget(30000, 400000); i++ {
		t := g.pick(prints)
		for k := 1 + g.rng.Intn(2); k > 0; k-- {
			t = g.mutate(t)
		}
		g.emitParse(emit, "mutated", t)
	}
	// (d) byte strings (Go strings are byte strings): tokens that combine invalid UTF-8 with every escape-worthy
	// character, through the API round trip and through grammar sentences — implementation only, full monitor
	for i := 0; i < r.Budget(12000, 150000); i++ {
		in := &rtIn{prefix: g.bprefix(), limit: g.limit(true), offset: g.limit(true), precheck: g.rng.Intn(8) == 0}
		in.where = g.btree(g.rng.Intn(3))
		if g.rng.Intn(3) == 0 {
			in.orderby = g.pick([]string{g.bstr(), g.key(true)})
		}
		g.emitRTB(emit, "rtb", in)
		if i%4 == 0 {
			guarded(func() string {
				q := in.build()
				if _, err := q.Check(); err == nil {
					keep(q.Print())
				}
				return ""
			})
		}
	}
	for i := 0; i < r.Budget(8000, 100000); i++ {
		g.emitGS(emit, "gs-bytes", g.bsentence(g.rng.Intn(3)))
	}
	// (e) the byte-level model of tokenizer / escapeString / range against the real code on arbitrary byte strings
	for i := 0; i < r.Budget(25000, 400000); i++ {
		g.emitBytesModel(emit, g.anyBytes(prints))
	}
	// (c) raw strings
	for i := 0; i < r.Budget(80000, 2000000); i++ {
		if i%4 == 3 {
			g.emitParse(emit, "raw-bytes", g.rawBytes())
		} else {
			g.emitParse(emit, "raw", g.raw())
		}
	}
}

func main() {
	hxlib.Main(&hxlib.Harness{
		Prop:     "C11",
		Rule:     "three generators, every choice seeded: (a) rt = a query tree built through the API (all 18 operators + invalid ones, and/or/not nesting to depth 4 quick / 6 thorough, widths 0–4, every operand class incl. int64 extremes, textual operands, strings over an alphabet with spaces, quotes, backslashes, parentheses, commas, multi-byte runes; any prefix/orderby/limit/offset) → Check → Print → ParseQuery → Print, with MatchesRecord on 3 harness records in JSON and struct form before and after; (b) gs = sentences of the README grammar (all operator aliases, quoted/escaped/plain words, whitespace variants, not-forms, groups ending the condition list), rendered independently and parsed; every query ParseQuery returns is itself printed and re-parsed; mutated sentences/prints (token drop/dup/swap, unbalanced quotes and parentheses, trailing backslash or multi-byte rune, keywords as keys, byte cuts); (c) raw strings incl. invalid UTF-8 (implementation only); (d) byte strings — Go strings are byte strings: tokens (keys, prefix, orderby, string and list operands) that combine byte sequences that are not valid UTF-8 (lone continuation bytes, truncated 2-/3-/4-byte sequences, FF/FE/F8, overlong forms incl. overlong backslash / quote / space, CESU-8 surrogates, beyond U+10FFFF, Latin-1) with every escape-worthy character (space, quote, backslash, parentheses, tab, CR, LF): rtb = the API round trip on the implementation under the full monitor (prints identically, byte-exact tokens, same match vector on witness records built from the operand bytes themselves, struct + raw-JSON form, plus the U+FFFD-replaced neighbours) and gs-bytes = grammar sentences with such words in all three word styles (tokens byte-exact); (e) the byte-level Lean model (utf8 decoding as `range` does it, extractSnippets, prepToken, escapeString on arbitrary bytes; no UTF-8 decoding in the driver) against the real code: units / escb / lexb on tokens, escaped tokens, mutated printed queries and decoder-class-directed random bytes. A case is non-trivial if it is a checked query with a where clause (rt), a grammar sentence with a where clause (gs) or an input longer than 6 bytes (parse/lex); distinct by the hash of its op line.",
		Generate: generate,
		NewExec:  func(r *hxlib.Run) hxlib.Exec { return exec{r} },
		Monitor:  monitor,
	})
}
