package main

// Line-protocol encodings shared by generator, executor and monitor (and mirrored by lean/PB/Drv/C11.lean).
//
//   lex   <hex text>                                        tokenizer only
//   parse <hex text> <oracle>                               ParseQuery + Print
//   rt    <hex prefix> <cond|-> <hex orderby> <limit> <offset> <oracle> <recs>
//                                                           API build → Check → Print → ParseQuery → Print, matches
//   gs    <gap> <word> <scond|-> <word|-> <hex|!> <hex|!> <strip 0|1> <oracle>
//                                                           grammar sentence: render (harness / model) → ParseQuery
//
// strings are hex of their UTF-8 bytes, "-" for the empty string; "!" means absent.

import (
	"encoding/hex"
	"fmt"
	"math"
	"strconv"
	"strings"

	"github.com/safing/portbase/database/query"
)

func hx(s string) string {
	if s == "" {
		return "-"
	}
	return hex.EncodeToString([]byte(s))
}

func unhx(s string) (string, bool) {
	if s == "-" {
		return "", true
	}
	b, err := hex.DecodeString(s)
	if err != nil {
		return "", false
	}
	return string(b), true
}

// ---- API trees (rt) ---------------------------------------------------------------------------

type arg struct {
	t byte // i int64, u uint, f float64, b bool, s string, l []string, n nil, z unsupported type
	i int64
	u uint64
	f float64
	b bool
	s string
	l []string
}

type node struct {
	kind byte // A, O, N, W
	kids []*node
	key  string
	op   int
	arg  arg
}

func (a arg) spec() string {
	switch a.t {
	case 'i':
		return "i" + strconv.FormatInt(a.i, 10)
	case 'u':
		return "u" + strconv.FormatUint(a.u, 10)
	case 'f':
		return fmt.Sprintf("f%016x:%s", math.Float64bits(a.f), hx(fmt.Sprintf("%g", a.f)))
	case 'b':
		if a.b {
			return "b1"
		}
		return "b0"
	case 's':
		return "s" + hx(a.s)
	case 'l':
		items := make([]string, len(a.l))
		for i, it := range a.l {
			items[i] = hx(it)
		}
		return "l" + strings.Join(items, ";")
	case 'n':
		return "n"
	}
	return "z"
}

func (n *node) spec() string {
	switch n.kind {
	case 'A', 'O':
		ks := make([]string, len(n.kids))
		for i, k := range n.kids {
			ks[i] = k.spec()
		}
		return string(n.kind) + "[" + strings.Join(ks, ";") + "]"
	case 'N':
		return "N[" + n.kids[0].spec() + "]"
	}
	return fmt.Sprintf("W(%s,%d,%s)", hx(n.key), n.op, n.arg.spec())
}

type unsupported struct{ x int }

func (a arg) value() interface{} {
	switch a.t {
	case 'i':
		return a.i
	case 'u':
		return uint(a.u)
	case 'f':
		return a.f
	case 'b':
		return a.b
	case 's':
		return a.s
	case 'l':
		return a.l
	case 'n':
		return nil
	}
	return unsupported{1}
}

func (n *node) build() query.Condition {
	switch n.kind {
	case 'A', 'O':
		cs := make([]query.Condition, len(n.kids))
		for i, k := range n.kids {
			cs[i] = k.build()
		}
		if n.kind == 'A' {
			return query.And(cs...)
		}
		return query.Or(cs...)
	case 'N':
		return query.Not(n.kids[0].build())
	}
	return query.Where(n.key, uint8(n.op), n.arg.value())
}

// parser for the spec syntax
type sp struct {
	s string
	i int
}

func (p *sp) peek() byte {
	if p.i < len(p.s) {
		return p.s[p.i]
	}
	return 0
}

func (p *sp) eat(c byte) bool {
	if p.peek() == c {
		p.i++
		return true
	}
	return false
}

func (p *sp) until(stop string) string {
	j := p.i
	for j < len(p.s) && !strings.ContainsRune(stop, rune(p.s[j])) {
		j++
	}
	r := p.s[p.i:j]
	p.i = j
	return r
}

func (p *sp) node() (*node, bool) {
	switch c := p.peek(); c {
	case 'A', 'O', 'N':
		p.i++
		if !p.eat('[') {
			return nil, false
		}
		n := &node{kind: c}
		if p.eat(']') {
			return n, c != 'N'
		}
		for {
			k, ok := p.node()
			if !ok {
				return nil, false
			}
			n.kids = append(n.kids, k)
			if p.eat(']') {
				break
			}
			if !p.eat(';') {
				return nil, false
			}
		}
		if c == 'N' && len(n.kids) != 1 {
			return nil, false
		}
		return n, true
	case 'W':
		p.i++
		if !p.eat('(') {
			return nil, false
		}
		n := &node{kind: 'W'}
		var ok bool
		if n.key, ok = unhx(p.until(",")); !ok || !p.eat(',') {
			return nil, false
		}
		op, err := strconv.Atoi(p.until(","))
		if err != nil || op < 0 || op > 255 || !p.eat(',') {
			return nil, false
		}
		n.op = op
		a, ok := parseArg(p.until(")"))
		if !ok || !p.eat(')') {
			return nil, false
		}
		n.arg = a
		return n, true
	}
	return nil, false
}

func parseArg(s string) (arg, bool) {
	if s == "" {
		return arg{}, false
	}
	a := arg{t: s[0]}
	r := s[1:]
	var err error
	var ok bool
	switch a.t {
	case 'i':
		a.i, err = strconv.ParseInt(r, 10, 64)
		return a, err == nil
	case 'u':
		a.u, err = strconv.ParseUint(r, 10, 64)
		return a, err == nil
	case 'f':
		parts := strings.Split(r, ":")
		if len(parts) != 2 {
			return a, false
		}
		bits, err := strconv.ParseUint(parts[0], 16, 64)
		if err != nil {
			return a, false
		}
		a.f = math.Float64frombits(bits)
		txt, ok := unhx(parts[1])
		return a, ok && txt == fmt.Sprintf("%g", a.f)
	case 'b':
		a.b = r == "1"
		return a, r == "0" || r == "1"
	case 's':
		a.s, ok = unhx(r)
		return a, ok
	case 'l':
		a.l = []string{}
		if r == "" {
			return a, true
		}
		for _, it := range strings.Split(r, ";") {
			v, ok := unhx(it)
			if !ok {
				return a, false
			}
			a.l = append(a.l, v)
		}
		return a, true
	case 'n', 'z':
		return a, r == ""
	}
	return a, false
}

func parseNode(s string) (*node, bool) {
	p := &sp{s: s}
	n, ok := p.node()
	return n, ok && p.i == len(s)
}

// ---- grammar sentences (gs) ---------------------------------------------------------------------

type word struct {
	style byte // r raw, q quoted, b backslash-escaped
	text  string
}

type snode struct {
	kind   byte // A, O (group) or W (clause)
	gap    string
	pgap   string // optional gap inside the parentheses (may be empty)
	ngap   string // optional gap between "not" and "(" (may be empty)
	neg    int    // group: 0/1; clause: 0 none, 1 `key not op`, 2 `not key op`
	kids   []*snode
	key    word
	opname string
	val    *word
}

const specials = "()\"\\\t\r\n "

func gapSpec(g string) string {
	if g == "" {
		return "e"
	}
	r := strings.NewReplacer(" ", "s", "\t", "t", "\n", "n", "\r", "r")
	return r.Replace(g)
}

func gapOf(s string) (string, bool) {
	if s == "e" {
		return "", true
	}
	var sb strings.Builder
	for _, c := range s {
		switch c {
		case 's':
			sb.WriteByte(' ')
		case 't':
			sb.WriteByte('\t')
		case 'n':
			sb.WriteByte('\n')
		case 'r':
			sb.WriteByte('\r')
		default:
			return "", false
		}
	}
	return sb.String(), sb.Len() > 0
}

func (w word) spec() string { return string(w.style) + hx(w.text) }

func wordOf(s string) (word, bool) {
	if len(s) < 2 || !strings.ContainsRune("rqb", rune(s[0])) {
		return word{}, false
	}
	t, ok := unhx(s[1:])
	return word{style: s[0], text: t}, ok
}

// render writes a word the way the README describes: as is, in quotes, or with escaped control characters.
func (w word) render() string {
	switch w.style {
	case 'q':
		return "\"" + strings.ReplaceAll(strings.ReplaceAll(w.text, "\\", "\\\\"), "\"", "\\\"") + "\""
	case 'b':
		// byte by byte (the specials are ASCII; a rune loop would rewrite bytes that are not valid UTF-8)
		var sb strings.Builder
		for i := 0; i < len(w.text); i++ {
			if strings.IndexByte(specials, w.text[i]) >= 0 {
				sb.WriteByte('\\')
			}
			sb.WriteByte(w.text[i])
		}
		return sb.String()
	}
	return w.text
}

func (n *snode) spec() string {
	if n.kind == 'W' {
		v := "!"
		if n.val != nil {
			v = n.val.spec()
		}
		return fmt.Sprintf("W(%s,%s,%s,%d,%s)", gapSpec(n.gap), n.key.spec(), hx(n.opname), n.neg, v)
	}
	ks := make([]string, len(n.kids))
	for i, k := range n.kids {
		ks[i] = k.spec()
	}
	return fmt.Sprintf("%c(%s,%s,%s,%d)[%s]", n.kind, gapSpec(n.gap), gapSpec(n.pgap), gapSpec(n.ngap), n.neg, strings.Join(ks, ";"))
}

func (n *snode) members() string {
	conn := "and"
	if n.kind == 'O' {
		conn = "or"
	}
	parts := make([]string, len(n.kids))
	for i, k := range n.kids {
		parts[i] = k.render()
	}
	return strings.Join(parts, n.gap+conn+n.gap)
}

func (n *snode) render() string {
	if n.kind == 'W' {
		s := n.key.render()
		if n.neg == 2 {
			s = "not" + n.gap + s
		}
		if n.neg == 1 {
			s += n.gap + "not"
		}
		s += n.gap + n.opname
		if n.val != nil {
			s += n.gap + n.val.render()
		}
		return s
	}
	s := "(" + n.pgap + n.members() + n.pgap + ")"
	if n.neg == 1 {
		s = "not" + n.ngap + s
	}
	return s
}

func (p *sp) snode() (*snode, bool) {
	switch c := p.peek(); c {
	case 'A', 'O':
		p.i++
		n := &snode{kind: c}
		var ok bool
		if !p.eat('(') {
			return nil, false
		}
		if n.gap, ok = gapOf(p.until(",")); !ok || n.gap == "" || !p.eat(',') {
			return nil, false
		}
		if n.pgap, ok = gapOf(p.until(",")); !ok || !p.eat(',') {
			return nil, false
		}
		if n.ngap, ok = gapOf(p.until(",")); !ok || !p.eat(',') {
			return nil, false
		}
		neg, err := strconv.Atoi(p.until(")"))
		if err != nil || neg < 0 || neg > 1 || !p.eat(')') || !p.eat('[') {
			return nil, false
		}
		n.neg = neg
		for {
			k, ok := p.snode()
			if !ok {
				return nil, false
			}
			n.kids = append(n.kids, k)
			if p.eat(']') {
				break
			}
			if !p.eat(';') {
				return nil, false
			}
		}
		return n, true
	case 'W':
		p.i++
		n := &snode{kind: 'W'}
		var ok bool
		if !p.eat('(') {
			return nil, false
		}
		if n.gap, ok = gapOf(p.until(",")); !ok || n.gap == "" || !p.eat(',') {
			return nil, false
		}
		if n.key, ok = wordOf(p.until(",")); !ok || !p.eat(',') {
			return nil, false
		}
		if n.opname, ok = unhx(p.until(",")); !ok || !p.eat(',') {
			return nil, false
		}
		neg, err := strconv.Atoi(p.until(","))
		if err != nil || neg < 0 || neg > 2 || !p.eat(',') {
			return nil, false
		}
		n.neg = neg
		v := p.until(")")
		if v != "!" {
			w, ok := wordOf(v)
			if !ok {
				return nil, false
			}
			n.val = &w
		}
		return n, p.eat(')')
	}
	return nil, false
}

func parseSnode(s string) (*snode, bool) {
	p := &sp{s: s}
	n, ok := p.snode()
	return n, ok && p.i == len(s)
}

// sentence is a whole grammar sentence.
type sentence struct {
	gap     string
	prefix  word
	where   *snode
	orderby *word
	limit   *string
	offset  *string
	strip   bool // a top-level, non-negated group is written without its outer parentheses
}

func optHex(s *string) string {
	if s == nil {
		return "!"
	}
	return hx(*s)
}

func (s *sentence) spec() string {
	w, ob := "-", "-"
	if s.where != nil {
		w = s.where.spec()
	}
	if s.orderby != nil {
		ob = s.orderby.spec()
	}
	st := 0
	if s.strip {
		st = 1
	}
	return fmt.Sprintf("%s %s %s %s %s %s %d", gapSpec(s.gap), s.prefix.spec(), w, ob, optHex(s.limit), optHex(s.offset), st)
}

func (s *sentence) render() string {
	out := "query" + s.gap + s.prefix.render()
	if s.where != nil {
		out += s.gap + "where" + s.gap
		if s.strip && s.where.kind != 'W' && s.where.neg == 0 {
			out += s.where.members()
		} else {
			out += s.where.render()
		}
	}
	if s.orderby != nil {
		out += s.gap + "orderby" + s.gap + s.orderby.render()
	}
	if s.limit != nil {
		out += s.gap + "limit" + s.gap + *s.limit
	}
	if s.offset != nil {
		out += s.gap + "offset" + s.gap + *s.offset
	}
	return out
}

func parseSentence(f []string) (*sentence, bool) {
	if len(f) != 7 {
		return nil, false
	}
	s := &sentence{}
	var ok bool
	if s.gap, ok = gapOf(f[0]); !ok || s.gap == "" {
		return nil, false
	}
	if s.prefix, ok = wordOf(f[1]); !ok {
		return nil, false
	}
	if f[2] != "-" {
		if s.where, ok = parseSnode(f[2]); !ok {
			return nil, false
		}
	}
	if f[3] != "-" {
		w, ok := wordOf(f[3])
		if !ok {
			return nil, false
		}
		s.orderby = &w
	}
	for i, dst := range []**string{&s.limit, &s.offset} {
		if f[4+i] != "!" {
			v, ok := unhx(f[4+i])
			if !ok {
				return nil, false
			}
			*dst = &v
		}
	}
	s.strip = f[6] == "1"
	return s, f[6] == "0" || f[6] == "1"
}
