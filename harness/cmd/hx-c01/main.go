// hx-c01: trace harness and property monitor for C01 (module lifecycle: modules/start.go, stop.go,
// status.go, mgmt.go, modules.go).
//
// A case is one scenario (graph, callbacks, failures, API calls). The scenario is executed on the
// REAL module system in a worker child process (the module system is process-global; a worker runs
// many scenarios using the verif-tagged reset helper, and is killed and replaced when a scenario
// hangs). The recorded history becomes the further lines of the case; the Lean driver is an
// acceptor (prints ok / reject per recorded line), so the implementation output of every line is "ok".
package main

import (
	"bufio"
	"fmt"
	"io"
	"math/rand"
	"os"
	"os/exec"
	"runtime"
	"strings"
	"sync"
	"sync/atomic"
	"time"

	"verifharness/hxlib"
)

// ---------------------------------------------------------------------------------------------
// worker child process

func workerMain() {
	in := bufio.NewReaderSize(os.Stdin, 1<<16)
	out := bufio.NewWriterSize(os.Stdout, 1<<16)
	// the protocol owns the real stdout; what portbase prints (log writer, "CRITICAL ERROR" lines) is discarded.
	// Go runtime crashes still reach the real stderr (fd 2).
	if null, err := os.OpenFile(os.DevNull, os.O_WRONLY, 0); err == nil {
		os.Stdout = null
		os.Stderr = null
	}
	for {
		line, err := in.ReadString('\n')
		line = strings.TrimRight(line, "\r\n")
		if line != "" {
			sc, perr := parseScenario(line)
			if perr != nil {
				fmt.Fprintf(out, "bad-scenario %v\n", perr)
			} else {
				for _, l := range runScenario(sc) {
					out.WriteString(l)
					out.WriteByte('\n')
				}
			}
			out.WriteString(".\n")
			out.Flush()
		}
		if err != nil {
			return
		}
	}
}

type worker struct {
	cmd *exec.Cmd
	in  io.WriteCloser
	out *bufio.Reader
}

func startWorker() *worker {
	self, err := os.Executable()
	if err != nil {
		panic(err)
	}
	cmd := exec.Command(self)
	cmd.Env = append(os.Environ(), "HX_C01_WORKER=1")
	cmd.Stderr = os.Stderr
	in, _ := cmd.StdinPipe()
	out, _ := cmd.StdoutPipe()
	if err := cmd.Start(); err != nil {
		panic(err)
	}
	return &worker{cmd: cmd, in: in, out: bufio.NewReaderSize(out, 1<<16)}
}

// kill ends the worker: end of input lets a healthy worker return from main by itself (so that a coverage build
// writes its counters); a worker that hangs is killed after a moment.
func (w *worker) kill() {
	w.in.Close()
	done := make(chan struct{})
	go func() { _ = w.cmd.Wait(); close(done) }()
	select {
	case <-done:
		return
	case <-time.After(300 * time.Millisecond):
	}
	_ = w.cmd.Process.Kill()
	<-done
}

// scenarioTimeout is far above anything a scenario needs (callbacks sleep a few ms in total); it only
// turns a deadlock into a reported "hang" instead of a stuck check. After the first hang the limit is
// lowered, and after maxHangs hangs the remaining scenarios of the run are not executed any more (a tree on
// which scenarios hang systematically must not stall the check for hours).
const scenarioTimeout = 60 * time.Second
const scenarioTimeoutAfterHang = 20 * time.Second
const maxHangs = 3

var hangs int32

// run executes one scenario line; ok=false means the worker hung or died and must be replaced.
func (w *worker) run(line string) (lines []string, ok bool) {
	if _, err := io.WriteString(w.in, line+"\n"); err != nil {
		return []string{"crash"}, false
	}
	type res struct {
		lines []string
		ok    bool
	}
	ch := make(chan res, 1)
	go func() {
		var ls []string
		for {
			l, err := w.out.ReadString('\n')
			l = strings.TrimRight(l, "\r\n")
			if l == "." {
				ch <- res{ls, true}
				return
			}
			if l != "" {
				ls = append(ls, l)
			}
			if err != nil {
				// the pipe closed: the worker was killed after the time limit (see below) or died by itself
				// (a crash of the module system: fatal error, unrecovered panic)
				ch <- res{ls, false}
				return
			}
		}
	}()
	limit := scenarioTimeout
	if atomic.LoadInt32(&hangs) > 0 {
		limit = scenarioTimeoutAfterHang
	}
	select {
	case r := <-ch:
		if !r.ok {
			atomic.AddInt32(&hangs, 1)
			return append(r.lines, "crash"), false
		}
		return r.lines, true
	case <-time.After(limit):
		atomic.AddInt32(&hangs, 1)
		w.kill()
		r := <-ch
		return append(r.lines, "hang"), false
	}
}

// runAll executes the scenario lines on a pool of workers and returns the histories in input order.
func runAll(specs []string) [][]string {
	res := make([][]string, len(specs))
	k := runtime.NumCPU() / 2
	if k > 8 {
		k = 8
	}
	if k < 2 {
		k = 2
	}
	if k > len(specs) {
		k = len(specs)
	}
	idx := make(chan int)
	var wg sync.WaitGroup
	for j := 0; j < k; j++ {
		wg.Add(1)
		go func() {
			defer wg.Done()
			w := startWorker()
			for i := range idx {
				if atomic.LoadInt32(&hangs) >= maxHangs {
					res[i] = []string{"skipped"}
					continue
				}
				ls, ok := w.run(specs[i])
				res[i] = ls
				if !ok || strings.Contains(specs[i], ",GP") || strings.Contains(specs[i], ",GS") ||
					strings.Contains(specs[i], " GP") || strings.Contains(specs[i], " GS") {
					// hung / died, or the scenario set a process-wide function that cannot be cleared again
					w.kill()
					w = startWorker()
				}
			}
			w.kill()
		}()
	}
	for i := range specs {
		idx <- i
	}
	close(idx)
	wg.Wait()
	return res
}

// ---------------------------------------------------------------------------------------------
// Exec: every line of a case is a recorded fact about the implementation; the acceptor must say "ok".

type execT struct{ have bool }

var replayMode bool

var eventWords = map[string]bool{"call": true, "ret": true, "beg": true, "end": true, "en": true, "dis": true, "latereg": true, "obs": true, "fin": true,
	"setg": true, "glob": true}

func (e *execT) Do(line string) string {
	if strings.HasPrefix(line, "hang") {
		return "HANG"
	}
	if strings.HasPrefix(line, "crash") {
		return "CRASH"
	}
	// malformed stream: what is not a well-formed scenario / recorded event is not interpreted
	if strings.HasPrefix(line, "scn") {
		if _, err := parseScenario(line); err != nil {
			return "bad-op"
		}
		e.have = true
	} else if f := strings.Fields(line); len(f) == 0 || !eventWords[f[0]] || !e.have {
		return "bad-op"
	}
	if replayMode && strings.HasPrefix(line, "scn ") {
		// replay: besides re-judging the recorded history, run the scenario again on the real code a few times
		for k := 0; k < 5; k++ {
			ls := runAll([]string{line})[0]
			c := hxlib.Case{Lines: append([]string{line}, ls...)}
			vs := monitor(c, nil)
			if len(vs) == 0 {
				fmt.Printf("  fresh run %d on the real code: %d events, property statement holds\n", k+1, len(ls))
			} else {
				fmt.Printf("  fresh run %d on the real code: %d events, MONITOR %s — %s\n", k+1, len(ls), vs[0].Sig, vs[0].What)
			}
		}
	}
	return "ok"
}

func disSig(line, impl, model string) string {
	f := strings.Fields(model)
	if len(f) >= 2 {
		return "corr:" + f[0] + ":" + f[1]
	}
	return "corr:" + model
}

// ---------------------------------------------------------------------------------------------
// generator

type gen struct {
	r   *hxlib.Run
	rng *rand.Rand
}

func (g *gen) graph(n int) (deps [][]int, shape string) {
	rng := g.rng
	deps = make([][]int, n)
	edge := func(from, to int) {
		for _, d := range deps[from] {
			if d == to {
				return
			}
		}
		deps[from] = append(deps[from], to)
	}
	switch s := rng.Intn(10); {
	case s <= 2:
		shape = "random-dag"
		p := []float64{0.12, 0.3, 0.6}[rng.Intn(3)]
		for i := 0; i < n; i++ {
			for j := 0; j < i; j++ {
				if rng.Float64() < p {
					edge(i, j)
				}
			}
		}
	case s == 3:
		shape = "chain"
		for i := 1; i < n; i++ {
			edge(i, i-1)
		}
	case s == 4:
		shape = "layered"
		width := 1 + rng.Intn(3)
		for i := width; i < n; i++ {
			layer := i / width
			for k := 0; k < 1+rng.Intn(3); k++ {
				edge(i, (layer-1)*width+rng.Intn(width))
			}
		}
	case s == 5:
		shape = "fan-in"
		for j := 0; j < n-1; j++ {
			edge(n-1, j)
		}
	case s == 6:
		shape = "fan-out"
		for i := 1; i < n; i++ {
			edge(i, 0)
		}
	case s == 7:
		shape = "diamonds"
		for i := 2; i < n; i++ {
			edge(i, i-1)
			edge(i, i-2)
		}
		if n > 1 {
			edge(1, 0)
		}
	case s == 8:
		shape = "sparse"
		for i := 1; i < n; i++ {
			if rng.Intn(3) == 0 {
				edge(i, rng.Intn(i))
			}
		}
	default:
		shape = "tree"
		for i := 1; i < n; i++ {
			edge(i, rng.Intn(i))
		}
	}
	// relabel: the registration index must not be a topological order
	perm := rng.Perm(n)
	out := make([][]int, n)
	for i := 0; i < n; i++ {
		for _, d := range deps[i] {
			out[perm[i]] = append(out[perm[i]], perm[d])
		}
	}
	for i := range out {
		rng.Shuffle(len(out[i]), func(a, b int) { out[i][a], out[i][b] = out[i][b], out[i][a] })
		if len(out[i]) > 0 && rng.Intn(40) == 0 {
			out[i] = append(out[i], out[i][0]) // the same dependency named twice
			if !strings.HasSuffix(shape, "+dup") {
				shape += "+dup"
			}
		}
	}
	return out, shape
}

func (g *gen) scenario() (*scenario, string) {
	rng := g.rng
	maxN := g.r.Budget(12, 16)
	n := 1 + rng.Intn(maxN)
	if rng.Intn(4) == 0 {
		n = 2 + rng.Intn(4)
	}
	deps, shape := g.graph(n)
	sc := &scenario{N: n, Deps: deps, Nil: make([][3]bool, n), Dur: make([][3]int, n), Fail: map[string]string{}}
	kind := shape
	sc.Mgmt = rng.Intn(2) == 0
	sc.Notify = sc.Mgmt && rng.Intn(3) == 0
	// nil callbacks: mostly none
	if rng.Intn(4) == 0 {
		for i := 0; i < n; i++ {
			for k := 0; k < 3; k++ {
				sc.Nil[i][k] = rng.Intn(6) == 0
			}
		}
	}
	// run times
	tempo := rng.Intn(5)
	for i := 0; i < n; i++ {
		for k := 0; k < 3; k++ {
			switch tempo {
			case 0:
				sc.Dur[i][k] = 0
			case 1:
				sc.Dur[i][k] = rng.Intn(4)
			case 2, 3:
				sc.Dur[i][k] = rng.Intn(30)
			default:
				sc.Dur[i][k] = rng.Intn(8)
				if rng.Intn(n) == 0 {
					sc.Dur[i][k] = 60 + rng.Intn(60)
				}
			}
		}
	}
	g.r.Count(fmt.Sprintf("tempo:%d", tempo))
	// failures
	nf := 0
	switch rng.Intn(10) {
	case 0, 1, 2, 3:
	case 4, 5, 6:
		nf = 1
	case 7, 8:
		nf = 2
	default:
		nf = 1 + rng.Intn(4)
	}
	for j := 0; j < nf; j++ {
		m := rng.Intn(n)
		k := []int{0, 1, 1, 1, 2, 2}[rng.Intn(6)]
		run := 0
		if k != 0 && rng.Intn(3) == 0 {
			run = 1
		}
		mode := "e"
		switch rng.Intn(8) {
		case 0, 1:
			mode = "p"
		case 2, 3, 4:
			mode = errClasses[rng.Intn(len(errClasses))] // WHAT the callback returns: see errDict
		}
		sc.Fail[fmt.Sprintf("%d.%s.%d", m, kindLetter[k], run)] = mode
		g.r.Count("fail:" + kindName[k] + ":" + mode)
	}
	if nf == 0 {
		g.r.Count("fail:none")
	}
	// A nil callback leaves no record. Whether the manager still launches a ready module after it has
	// received an error report is a race the history cannot show for such a module, so scenarios that
	// plan prep (start) failures use no nil prep (start) callbacks.
	for key := range sc.Fail {
		for k := 0; k < 2; k++ {
			if strings.Contains(key, "."+kindLetter[k]+".") {
				for i := 0; i < n; i++ {
					sc.Nil[i][k] = false
				}
			}
		}
	}
	for i := 0; i < n; i++ {
		for k := 0; k < 3; k++ {
			if sc.Nil[i][k] {
				g.r.Count("nil-callback:" + kindName[k])
			}
		}
	}
	// special graphs
	switch rng.Intn(40) {
	case 0:
		if n >= 2 {
			// a dependency cycle (outside the property's quantifier; the loop detection is glue)
			a, b := rng.Intn(n), rng.Intn(n)
			sc.Deps[a] = append(sc.Deps[a], b)
			sc.Deps[b] = append(sc.Deps[b], a)
			kind = "cyclic"
		}
	case 1:
		m := rng.Intn(n)
		sc.Deps[m] = append(sc.Deps[m], n) // a dependency that is not registered
		kind = "missing-dep"
	}
	// API calls
	var ops []string
	pick := func() int { return rng.Intn(n) }
	if sc.Mgmt {
		switch rng.Intn(4) {
		case 0: // enable everything
			for i := 0; i < n; i++ {
				ops = append(ops, fmt.Sprintf("E%d", i))
			}
		case 1:
		default:
			for i := 0; i < n; i++ {
				if rng.Intn(3) == 0 {
					ops = append(ops, fmt.Sprintf("E%d", i))
				}
			}
		}
	}
	if rng.Intn(60) == 0 {
		ops = []string{"X"} // Shutdown without Start
		if rng.Intn(2) == 0 {
			ops = append(ops, "X")
		}
		sc.Ops = ops
		return sc, kind + "/no-start"
	}
	ops = append(ops, "S")
	if rng.Intn(30) == 0 {
		ops = append(ops, "S")
	}
	if kind != "missing-dep" {
		steps := rng.Intn(7)
		if !sc.Mgmt {
			steps = rng.Intn(2)
		}
		for s := 0; s < steps; s++ {
			for c := rng.Intn(4); c > 0; c-- {
				if rng.Intn(2) == 0 {
					ops = append(ops, fmt.Sprintf("E%d", pick()))
				} else {
					ops = append(ops, fmt.Sprintf("D%d", pick()))
				}
			}
			if rng.Intn(25) == 0 {
				ops = append(ops, "R")
			}
			ops = append(ops, "M")
		}
	}
	if rng.Intn(25) != 0 {
		ops = append(ops, "X")
		if rng.Intn(30) == 0 {
			ops = append(ops, "X")
		}
	}
	sc.Ops = ops
	if sc.Mgmt {
		kind += "/mgmt"
	}
	return sc, kind
}

// outsideScenario: calls around and outside the usual Start … Shutdown bracket, which the module system does not
// refuse and the model describes as the code is written: ManageModules before Start, a first Start after
// Shutdown, ManageModules after Shutdown, repeated calls; and the process-wide functions Start and Shutdown run
// besides the module routines: global prep function (first one set wins; may fail with any error value), global
// shutdown function, command-line operation (last one set wins).
func (g *gen) outsideScenario() (*scenario, string) {
	rng := g.rng
	var sc *scenario
	for {
		var kind string
		sc, kind = g.scenario()
		if !strings.HasPrefix(kind, "cyclic") && !strings.HasPrefix(kind, "missing-dep") && sc.N <= 8 {
			break
		}
	}
	n := sc.N
	var ops []string
	ed := func(k int) {
		for ; k > 0 && n > 0; k-- {
			if rng.Intn(3) != 0 {
				ops = append(ops, fmt.Sprintf("E%d", rng.Intn(n)))
			} else {
				ops = append(ops, fmt.Sprintf("D%d", rng.Intn(n)))
			}
		}
	}
	class := []string{"manage-before-start", "start-after-shutdown", "manage-after-shutdown", "global-functions", "global-functions", "mixed"}[rng.Intn(6)]
	globals := func() {
		// which functions are set, in which order, and what they return
		if rng.Intn(3) != 0 {
			ops = append(ops, fmt.Sprintf("GP%d", rng.Intn(3)))
			if rng.Intn(3) == 0 {
				ops = append(ops, fmt.Sprintf("GP%d", rng.Intn(3))) // ignored: the first function stays
			}
		}
		if rng.Intn(2) == 0 {
			ops = append(ops, fmt.Sprintf("GS%d", rng.Intn(3)))
			if rng.Intn(3) == 0 {
				ops = append(ops, fmt.Sprintf("GS%d", rng.Intn(3)))
			}
		}
		if rng.Intn(3) == 0 {
			ops = append(ops, fmt.Sprintf("GC%d", rng.Intn(3)))
			if rng.Intn(3) == 0 {
				ops = append(ops, fmt.Sprintf("GC%d", rng.Intn(3))) // replaces the previous one
			}
		}
		for i := 0; i < 3; i++ {
			if rng.Intn(4) == 0 {
				sc.Fail[fmt.Sprintf("G.p.%d", i)] = errClasses[rng.Intn(len(errClasses))]
			}
			if rng.Intn(4) == 0 {
				sc.Fail[fmt.Sprintf("G.c.%d", i)] = errClasses[rng.Intn(len(errClasses))]
			}
		}
	}
	switch class {
	case "manage-before-start":
		sc.Mgmt = rng.Intn(5) != 0
		ed(rng.Intn(3))
		ops = append(ops, "M")
		ed(rng.Intn(3))
		if rng.Intn(2) == 0 {
			ops = append(ops, "M")
		}
		ops = append(ops, "S")
		ed(rng.Intn(3))
		if rng.Intn(2) == 0 {
			ops = append(ops, "M")
		}
		ops = append(ops, "X")
	case "start-after-shutdown":
		ed(rng.Intn(3))
		if rng.Intn(4) == 0 {
			ops = append(ops, "M")
		}
		ops = append(ops, "X", "S")
		ed(rng.Intn(3))
		if rng.Intn(2) == 0 {
			ops = append(ops, "M")
		}
		if rng.Intn(2) == 0 {
			ops = append(ops, "X")
		}
		if rng.Intn(4) == 0 {
			ops = append(ops, "S")
		}
	case "manage-after-shutdown":
		sc.Mgmt = rng.Intn(5) != 0
		ed(rng.Intn(4))
		ops = append(ops, "S")
		ed(rng.Intn(3))
		if rng.Intn(2) == 0 {
			ops = append(ops, "M")
		}
		ops = append(ops, "X")
		for k := 1 + rng.Intn(3); k > 0; k-- {
			ed(rng.Intn(3))
			ops = append(ops, "M")
		}
		if rng.Intn(2) == 0 {
			ops = append(ops, "X")
		}
	case "global-functions":
		globals()
		ed(rng.Intn(3))
		ops = append(ops, "S")
		if rng.Intn(6) == 0 {
			ops = append(ops, "S")
		}
		ed(rng.Intn(3))
		if rng.Intn(2) == 0 {
			ops = append(ops, "M")
		}
		if rng.Intn(8) != 0 {
			ops = append(ops, "X")
		}
		if rng.Intn(6) == 0 {
			ops = append(ops, "X")
		}
	default:
		globals()
		for k := 3 + rng.Intn(6); k > 0; k-- {
			switch rng.Intn(6) {
			case 0:
				ops = append(ops, "S")
			case 1:
				ops = append(ops, "X")
			case 2, 3:
				ops = append(ops, "M")
			default:
				ed(1 + rng.Intn(2))
			}
		}
	}
	sc.Notify = sc.Mgmt && sc.Notify
	sc.Ops = ops
	return sc, "outside/" + class
}

// restartScenario: a short chain with instantaneous callbacks; Start, optionally one management pass that
// stops and restarts the top module, then Shutdown immediately.
func (g *gen) restartScenario() *scenario {
	rng := g.rng
	n := 1 + rng.Intn(3)
	sc := &scenario{N: n, Deps: make([][]int, n), Nil: make([][3]bool, n), Dur: make([][3]int, n), Fail: map[string]string{}}
	for i := 1; i < n; i++ {
		sc.Deps[i] = []int{i - 1}
	}
	for i := 0; i < n; i++ {
		sc.Dur[i][2] = rng.Intn(3) // the stop routine may take a moment: an early "stopped" is then visible
	}
	switch rng.Intn(3) {
	case 0:
		sc.Ops = []string{"S", "X"}
	case 1:
		sc.Mgmt = true
		for i := 0; i < n; i++ {
			sc.Ops = append(sc.Ops, fmt.Sprintf("E%d", i))
		}
		sc.Ops = append(sc.Ops, "S", "X")
	default:
		sc.Mgmt = true
		top := n - 1
		sc.Ops = []string{fmt.Sprintf("E%d", top), "S", fmt.Sprintf("D%d", top), "M", fmt.Sprintf("E%d", top), "M", "X"}
	}
	return sc
}

// errorValueScenarios: every error-value class of errDict x {prep, start, stop} x position in a short chain,
// without and with module management. A routine that returns a non-nil error has failed, whatever the value
// is, wraps or claims to be: its dependents must not start on top of it, Start must not return nil, no stop
// routine is owed for it.
func errorValueScenarios() []*scenario {
	var out []*scenario
	for _, cls := range errClasses {
		for k := 0; k < 3; k++ {
			for pos := 0; pos < 2; pos++ {
				for mg := 0; mg < 2; mg++ {
					n := 3
					sc := &scenario{N: n, Deps: make([][]int, n), Nil: make([][3]bool, n), Dur: make([][3]int, n), Fail: map[string]string{}}
					for i := 1; i < n; i++ {
						sc.Deps[i] = []int{i - 1}
					}
					sc.Fail[fmt.Sprintf("%d.%s.0", pos, kindLetter[k])] = cls
					if mg == 1 {
						sc.Mgmt = true
						// the failed routine is retried by the management pass (second invocation succeeds)
						sc.Ops = []string{"E2", "S", "M", "D2", "M", "X"}
					} else {
						sc.Ops = []string{"S", "X"}
					}
					out = append(out, sc)
				}
			}
		}
	}
	return out
}

// regression scenarios: run first, every time.
var corpus = []string{
	// DESIGN §7 #14: B depends on A, B's start fails, Shutdown must still stop A
	"scn 2 0 -|0 000|000 0 1.1.1|1.1.1 1.s.0.e S,X",
	// DESIGN §7 #15: A; X depends on A and starts slowly; B fails quickly; Shutdown right after the failed Start
	"scn 3 0 -|0|- 000|000|000 0 0.0.0|0.200.0|0.10.0 2.s.0.e S,X",
	// a prep failure while another prep is still running
	"scn 3 0 -|-|- 000|000|000 0 0.0.0|200.0.0|10.0.0 2.p.0.e S,X",
	// management pass after a Start that failed while preparing: a wanted module can never come online
	"scn 2 1 -|- 000|000 0 0.0.0|0.0.0 1.p.0.e E0,E1,S,M,X",
	// the two graphs of the package's own tests
	"scn 4 0 -|0|0|1,0 000|000|000|000 0 1.1.1|1.1.1|1.1.1|1.1.1 - S,X",
	"scn 7 1 -|0|0|2|0|4|4 000|000|000|000|000|000|000 0 0.0.0|0.0.0|0.0.0|0.0.0|0.0.0|0.0.0|0.0.0 - E0,S,E1,M,E3,M,E5,M,E6,M,D1,M,D5,M,D6,M,E6,M,D6,M,X",
	// failed start is retried by the next management pass; stop failures and panics
	"scn 3 1 -|0|1 000|000|000 1 1.1.1|1.1.1|1.1.1 1.s.0.e,2.t.0.p E2,S,M,D2,M,X",
	// nil callbacks everywhere
	"scn 3 0 -|0|1 111|111|111 0 0.0.0|0.0.0|0.0.0 - S,X",
	// no modules at all
	"scn 0 0 - - 0 - - S,M,X,X",
}

func nontrivial(sc *scenario, hist []string) bool {
	edges := 0
	for _, d := range sc.Deps {
		edges += len(d)
	}
	starts := 0
	for _, l := range hist {
		if strings.HasPrefix(l, "beg start") {
			starts++
		}
	}
	return sc.N >= 2 && edges >= 1 && starts >= 2
}

func generate(r *hxlib.Run, emit func(hxlib.Case)) {
	g := &gen{r: r, rng: r.Rng}
	total := r.Budget(12000, 200000)
	type item struct {
		line, kind string
		sc         *scenario
	}
	var batch []item
	flush := func() {
		specs := make([]string, len(batch))
		for i, it := range batch {
			specs[i] = it.line
		}
		hists := runAll(specs)
		for i, it := range batch {
			h := hists[i]
			if len(h) == 1 && h[0] == "skipped" {
				r.Count("not-executed-after-repeated-hangs")
				continue
			}
			for _, l := range h {
				switch {
				case strings.HasPrefix(l, "end ") && !strings.HasSuffix(l, " ok"):
					r.Count("event:" + strings.Join(strings.Fields(l)[:2], "-") + "-failed")
				case strings.HasPrefix(l, "beg "):
					r.Count("event:" + strings.Join(strings.Fields(l)[:2], "-"))
				case strings.HasPrefix(l, "ret "):
					r.Count("event:" + strings.ReplaceAll(l, " ", "-"))
				case strings.HasPrefix(l, "glob "):
					ff := strings.Fields(l)
					r.Count("event:glob-" + ff[1] + "-" + ff[len(ff)-1])
				case strings.HasPrefix(l, "setg "):
					r.Count("event:setg-" + strings.Fields(l)[1])
				case strings.HasPrefix(l, "hang"), strings.HasPrefix(l, "crash"), strings.HasPrefix(l, "bad-"):
					r.Count("event:" + strings.Fields(l)[0])
				}
			}
			r.Count(fmt.Sprintf("modules:%02d", it.sc.N))
			r.Count(fmt.Sprintf("history-len:%03d+", len(h)/25*25))
			emit(hxlib.Case{Lines: append([]string{it.line}, h...), NonTrivial: nontrivial(it.sc, h), Kind: it.kind})
		}
		batch = batch[:0]
	}
	for _, l := range corpus {
		sc, err := parseScenario(l)
		if err != nil {
			panic("corpus: " + l + ": " + err.Error())
		}
		batch = append(batch, item{l, "corpus", sc})
	}
	flush()
	for _, sc := range errorValueScenarios() {
		batch = append(batch, item{sc.line(), "error-value", sc})
		for key, cls := range sc.Fail {
			r.Count("error-value:" + strings.Split(key, ".")[1] + ":" + cls)
		}
	}
	flush()
	for i := 0; i < total; i++ {
		sc, kind := g.scenario()
		batch = append(batch, item{sc.line(), kind, sc})
		if len(batch) >= 512 {
			flush()
		}
	}
	flush()
	for i := 0; i < r.Budget(3000, 50000); i++ {
		sc, kind := g.outsideScenario()
		batch = append(batch, item{sc.line(), kind, sc})
		if len(batch) >= 512 {
			flush()
		}
	}
	flush()
	// stop right after start: the module started last is stopped first, within microseconds. This is where
	// leftovers of a start goroutine can still touch the stop protocol of the same module.
	for i := 0; i < r.Budget(24000, 400000); i++ {
		sc := g.restartScenario()
		batch = append(batch, item{sc.line(), "stop-right-after-start", sc})
		if len(batch) >= 2048 {
			flush()
		}
	}
	flush()
	// malformed stream: lines the acceptor must refuse to interpret (never default silently); the executor refuses them too
	for _, l := range []string{"scn", "scn x 0 - - 0 - - S", "scn 2 0 -|5 000|000 0 0.0.0|0.0.0 - S", "beg start 0", "obs 5 1 0", "frobnicate"} {
		emit(hxlib.Case{Lines: []string{l}, Kind: "malformed"})
	}
}

const rule = "one case = one scenario executed on the real module system: a generated dependency graph (random DAGs, chains, layers, fans, diamonds, trees; " +
	"1-12 modules quick, 1-16 thorough; registration order is not a topological order), callbacks with generated run times, a generated set of " +
	"prep/start/stop callbacks that panic or return an error (the returned VALUE drawn from a dictionary: plain, context.Canceled / DeadlineExceeded / " +
	"ErrCleanExit / ErrRestartNow bare, %w-wrapped, twice wrapped and joined, *ModuleError, an error whose Is method says yes to everything, a typed nil " +
	"pointer, an empty message, io.EOF; every class x prep/start/stop also runs as a fixed sweep on a 3-chain), nil callbacks, and a sequence Start, Enable/Disable+ManageModules…, Shutdown (plus glue: double " +
	"Start/Shutdown, late Register, cycles, unregistered dependencies), a class of calls outside that bracket (ManageModules before Start, a first " +
	"Start after Shutdown, ManageModules after Shutdown, random call orders) with global prep functions (first set wins; failing with any " +
	"error value of the dictionary), global shutdown functions and command-line operations (last set wins), plus a class of short chains with instantaneous callbacks where the " +
	"module started last is stopped (and restarted) within microseconds. The recorded history (callback begin/end in global order, return values, " +
	"status/enabled/enabled-as-dependency of every module after each call) is replayed through the Lean model (acceptor) and judged by the monitor. " +
	"Non-trivial: at least 2 modules, at least one dependency edge and at least two start routines ran; distinct by hash of scenario + history."

func main() {
	if os.Getenv("HX_C01_WORKER") == "1" {
		workerMain()
		return
	}
	for _, a := range os.Args[1:] {
		if a == "-replay" || a == "--replay" || strings.HasPrefix(a, "-replay=") {
			replayMode = true
		}
	}
	hxlib.Main(&hxlib.Harness{
		Prop:     "C01",
		Rule:     rule,
		Generate: generate,
		NewExec:  func(*hxlib.Run) hxlib.Exec { return &execT{} },
		Monitor:  monitor,
		DisSig:   disSig,
	})
}
