package main

import (
	"context"
	"errors"
	"fmt"
	"io"
	"runtime"
	"sort"
	"strconv"
	"strings"
	"sync"
	"time"

	"github.com/safing/portbase/log"
	"github.com/safing/portbase/modules"
)

// A scenario is one complete use of the module system: a dependency graph, callbacks with run
// times and planned failures, and a sequence of API calls. It is encoded as one line
//
//	scn <n> <mgmt> <deps> <nil> <notify> <dur> <fail> <ops>
//
// of which the Lean acceptor reads the first four fields (n, mgmt, deps, nil) and the executor all.
type scenario struct {
	N      int
	Mgmt   bool
	Notify bool              // EnableModuleManagement with a (counting) change-notify function instead of nil
	Deps   [][]int           // Deps[i] = indices i depends on; index N stands for a name that is not registered
	Nil    [][3]bool         // Nil[i][k]: callback k (0 prep, 1 start, 2 stop) of module i is nil
	Dur    [][3]int          // run time of callback k of module i in units of durUnit
	Fail   map[string]string // "<m>.<k>.<run>" -> failure mode: "p" (panics) or an error-value class of errDict; run counts invocations from 0
	//                          "G.p.<i>" / "G.c.<i>" -> error-value class returned by global prep function i / command-line operation i
	Ops []string // S start, M manage, X shutdown, E<i> enable, D<i> disable, R late Register,
	//              GP<i> SetGlobalPrepFn(fn i), GS<i> SetGlobalShutdownFn(fn i), GC<i> SetCmdLineOperation(fn i)
}

// usesGlobalFns: SetGlobalPrepFn / SetGlobalShutdownFn keep the first function for the life of the process (there
// is no way to clear them), so a worker process that ran such a scenario is not reused.
func (sc *scenario) usesGlobalFns() bool {
	for _, op := range sc.Ops {
		if strings.HasPrefix(op, "GP") || strings.HasPrefix(op, "GS") {
			return true
		}
	}
	return false
}

const durUnit = 40 * time.Microsecond

var kindName = [3]string{"prep", "start", "stop"}
var kindLetter = [3]string{"p", "s", "t"}

func b01(b bool) string {
	if b {
		return "1"
	}
	return "0"
}

func (sc *scenario) line() string {
	deps := make([]string, sc.N)
	nils := make([]string, sc.N)
	durs := make([]string, sc.N)
	for i := 0; i < sc.N; i++ {
		if len(sc.Deps[i]) == 0 {
			deps[i] = "-"
		} else {
			s := make([]string, len(sc.Deps[i]))
			for j, d := range sc.Deps[i] {
				s[j] = strconv.Itoa(d)
			}
			deps[i] = strings.Join(s, ",")
		}
		nils[i] = b01(sc.Nil[i][0]) + b01(sc.Nil[i][1]) + b01(sc.Nil[i][2])
		durs[i] = fmt.Sprintf("%d.%d.%d", sc.Dur[i][0], sc.Dur[i][1], sc.Dur[i][2])
	}
	fail := "-"
	if len(sc.Fail) > 0 {
		ks := make([]string, 0, len(sc.Fail))
		for k, v := range sc.Fail {
			ks = append(ks, k+"."+v)
		}
		sort.Strings(ks)
		fail = strings.Join(ks, ",")
	}
	ops := "-"
	if len(sc.Ops) > 0 {
		ops = strings.Join(sc.Ops, ",")
	}
	return fmt.Sprintf("scn %d %s %s %s %s %s %s %s", sc.N, b01(sc.Mgmt), strings.Join(deps, "|"), strings.Join(nils, "|"),
		b01(sc.Notify), strings.Join(durs, "|"), fail, ops)
}

func parseScenario(line string) (*scenario, error) {
	f := strings.Fields(line)
	if len(f) != 9 || f[0] != "scn" {
		return nil, fmt.Errorf("not a scenario line")
	}
	n, err := strconv.Atoi(f[1])
	if err != nil || n < 0 || n > 64 {
		return nil, fmt.Errorf("bad n")
	}
	sc := &scenario{N: n, Mgmt: f[2] == "1", Notify: f[5] == "1", Fail: map[string]string{}}
	split := func(s string) []string {
		if n == 0 {
			return nil
		}
		return strings.Split(s, "|")
	}
	deps, nils, durs := split(f[3]), split(f[4]), split(f[6])
	if len(deps) != n || len(nils) != n || len(durs) != n {
		return nil, fmt.Errorf("per-module fields do not have n entries")
	}
	sc.Deps = make([][]int, n)
	sc.Nil = make([][3]bool, n)
	sc.Dur = make([][3]int, n)
	for i := 0; i < n; i++ {
		if deps[i] != "-" {
			for _, x := range strings.Split(deps[i], ",") {
				d, err := strconv.Atoi(x)
				if err != nil || d < 0 || d > n {
					return nil, fmt.Errorf("bad dep")
				}
				sc.Deps[i] = append(sc.Deps[i], d)
			}
		}
		if len(nils[i]) != 3 {
			return nil, fmt.Errorf("bad nil mask")
		}
		for k := 0; k < 3; k++ {
			sc.Nil[i][k] = nils[i][k] == '1'
		}
		ds := strings.Split(durs[i], ".")
		if len(ds) != 3 {
			return nil, fmt.Errorf("bad dur")
		}
		for k := 0; k < 3; k++ {
			sc.Dur[i][k], _ = strconv.Atoi(ds[k])
		}
	}
	if f[7] != "-" {
		for _, x := range strings.Split(f[7], ",") {
			j := strings.LastIndexByte(x, '.')
			if j < 0 {
				return nil, fmt.Errorf("bad fail")
			}
			if mode := x[j+1:]; (mode != "p" || strings.HasPrefix(x, "G.")) && errDict[mode] == nil {
				return nil, fmt.Errorf("bad failure mode")
			}
			sc.Fail[x[:j]] = x[j+1:]
		}
	}
	if f[8] != "-" {
		sc.Ops = strings.Split(f[8], ",")
	}
	return sc, nil
}

// world records what the property says is observable: begin/end of every callback, call/return of
// Start/ManageModules/Shutdown, and the status of every module after each of those calls, in one
// global order (the order in which the recording mutex was taken).
type world struct {
	sc    *scenario
	mu    sync.Mutex
	lines []string
	runs  [][3]int
}

// active is the number of callbacks that have begun and not yet ended.
func (w *world) active() int {
	w.mu.Lock()
	defer w.mu.Unlock()
	n := 0
	for _, l := range w.lines {
		if strings.HasPrefix(l, "beg ") {
			n++
		} else if strings.HasPrefix(l, "end ") {
			n--
		}
	}
	return n
}

func (w *world) rec(s string) {
	w.mu.Lock()
	w.lines = append(w.lines, s)
	w.mu.Unlock()
}

func (w *world) cb(m, k int) func() error {
	if w.sc.Nil[m][k] {
		return nil
	}
	return func() error {
		w.mu.Lock()
		run := w.runs[m][k]
		w.runs[m][k]++
		w.lines = append(w.lines, fmt.Sprintf("beg %s %d", kindName[k], m))
		w.mu.Unlock()
		if d := w.sc.Dur[m][k]; d > 0 {
			time.Sleep(time.Duration(d) * durUnit)
		} else {
			runtime.Gosched()
		}
		mode := w.sc.Fail[fmt.Sprintf("%d.%s.%d", m, kindLetter[k], run)]
		if mode == "p" {
			w.rec(fmt.Sprintf("end %s %d panic", kindName[k], m))
			panic("planned panic")
		}
		if mk := errDict[mode]; mk != nil {
			// the history records what the callback really returns (harness ground truth): a non-nil error value
			if err := mk(); err != nil {
				w.rec(fmt.Sprintf("end %s %d err", kindName[k], m))
				return err
			}
		}
		w.rec(fmt.Sprintf("end %s %d ok", kindName[k], m))
		return nil
	}
}

// ---------------------------------------------------------------------------------------------
// The error-value dictionary: WHAT a failing callback returns. The property speaks of routines that
// "return an error"; every non-nil error value is a failure, whatever it is, wraps or claims to be.
// The values below are the ones package modules (and its callers) compare errors with somewhere —
// context.Canceled (worker handling), context.DeadlineExceeded, ErrCleanExit (Start), ErrRestartNow
// (service workers), *ModuleError (IsPanic) — bare, wrapped with %w, joined, wrapped twice, plus values
// that answer every errors.Is question with yes, a typed nil pointer in the error interface (non-nil
// for Go: a failure), an error with an empty message, and a foreign sentinel (io.EOF).

// anyIsErr claims to be every error: errors.Is(anyIsErr{}, target) is true for every target.
type anyIsErr struct{}

func (anyIsErr) Error() string        { return "planned failure that matches every sentinel" }
func (anyIsErr) Is(target error) bool { return true }

// nilPtrErr is used as a typed nil pointer: `var p *nilPtrErr; return p` is a NON-nil error value.
type nilPtrErr struct{ msg string }

func (e *nilPtrErr) Error() string {
	if e == nil {
		return "planned failure (typed nil pointer)"
	}
	return e.msg
}

type emptyMsgErr struct{}

func (emptyMsgErr) Error() string { return "" }

// timeoutErr looks like a net.Error that timed out and unwraps to context.DeadlineExceeded.
type timeoutErr struct{}

func (timeoutErr) Error() string   { return "planned i/o timeout" }
func (timeoutErr) Timeout() bool   { return true }
func (timeoutErr) Temporary() bool { return true }
func (timeoutErr) Unwrap() error   { return context.DeadlineExceeded }

var errDict = map[string]func() error{
	"e":  func() error { return errors.New("planned failure") },
	"c":  func() error { return fmt.Errorf("planned failure: %w", context.Canceled) },
	"C":  func() error { return context.Canceled },
	"cc": func() error { return fmt.Errorf("outer: %w", fmt.Errorf("inner: %w", context.Canceled)) },
	"cx": func() error { // the error of a context that really was cancelled
		ctx, cancel := context.WithCancel(context.Background())
		cancel()
		return fmt.Errorf("planned failure: %w", ctx.Err())
	},
	"cj": func() error { return errors.Join(errors.New("planned failure"), context.Canceled) },
	"cu": func() error { return context.Cause(canceledWithCause) }, // a cancellation cause: not Canceled itself
	"d":  func() error { return fmt.Errorf("planned failure: %w", context.DeadlineExceeded) },
	"D":  func() error { return context.DeadlineExceeded },
	"dt": func() error { return timeoutErr{} },
	"x":  func() error { return fmt.Errorf("planned failure: %w", modules.ErrCleanExit) },
	"X":  func() error { return modules.ErrCleanExit },
	"r":  func() error { return fmt.Errorf("planned failure: %w", modules.ErrRestartNow) },
	"R":  func() error { return modules.ErrRestartNow },
	"m":  func() error { return &modules.ModuleError{Message: "planned failure", Severity: "error"} },
	"mp": func() error { // looks like a recovered panic
		return &modules.ModuleError{Message: "panic: planned failure", Severity: "panic", PanicValue: "planned failure", TaskType: "worker"}
	},
	"mw": func() error { return fmt.Errorf("planned failure: %w", &modules.ModuleError{Message: "inner"}) },
	"a":  func() error { return anyIsErr{} },
	"aw": func() error { return fmt.Errorf("planned failure: %w", anyIsErr{}) },
	"n":  func() error { var p *nilPtrErr; return p },
	"z":  func() error { return emptyMsgErr{} },
	"f":  func() error { return io.EOF },
	"j":  func() error { return errors.Join(modules.ErrCleanExit, context.Canceled, modules.ErrRestartNow) },
}

var canceledWithCause = func() context.Context {
	ctx, cancel := context.WithCancelCause(context.Background())
	cancel(errors.New("planned failure (cancellation cause)"))
	return ctx
}()

// errClasses lists the dictionary keys in a fixed order (for the generator).
var errClasses = func() []string {
	ks := make([]string, 0, len(errDict))
	for k := range errDict {
		ks = append(ks, k)
	}
	sort.Strings(ks)
	return ks
}()

// globalFn is global prep function / global shutdown function / command-line operation number id: it records
// that it ran and what it returned (`glob <which> <id> ok|err`).
func (w *world) globalFn(which, failKey string, id int) func() error {
	return func() error {
		runtime.Gosched()
		if failKey != "" {
			if mk := errDict[w.sc.Fail[fmt.Sprintf("%s.%d", failKey, id)]]; mk != nil {
				if err := mk(); err != nil {
					w.rec(fmt.Sprintf("glob %s %d err", which, id))
					return err
				}
			}
		}
		w.rec(fmt.Sprintf("glob %s %d ok", which, id))
		return nil
	}
}

func modName(i int) string { return fmt.Sprintf("m%02d", i) }

func resStr(err error) string {
	if err != nil {
		return "err"
	}
	return "ok"
}

var quietOnce sync.Once

// runScenario executes the scenario on the real module system and returns the recorded lines.
func runScenario(sc *scenario) []string {
	quietOnce.Do(func() {
		log.SetLogLevel(log.CriticalLevel + 1) // the log writer stops at the first Shutdown; nothing may queue up afterwards
		modules.SetStdErrReporting(false)
	})
	modules.VerifResetLifecycle()
	modules.SetCmdLineOperation(nil)
	w := &world{sc: sc, runs: make([][3]int, sc.N)}
	if sc.Mgmt {
		var fn func(*modules.Module)
		if sc.Notify {
			fn = func(*modules.Module) { runtime.Gosched() }
		}
		modules.EnableModuleManagement(fn)
	}
	mods := make([]*modules.Module, sc.N)
	for i := 0; i < sc.N; i++ {
		names := make([]string, len(sc.Deps[i]))
		for j, d := range sc.Deps[i] {
			if d >= sc.N {
				names[j] = "not-registered"
			} else {
				names[j] = modName(d)
			}
		}
		mods[i] = modules.Register(modName(i), w.cb(i, 0), w.cb(i, 1), w.cb(i, 2), names...)
	}
	obs := func(tag string) {
		st := make([]string, sc.N)
		en := make([]string, sc.N)
		dp := make([]string, sc.N)
		for i, m := range mods {
			st[i] = strconv.Itoa(int(m.Status()))
			en[i] = b01(m.Enabled())
			dp[i] = b01(m.EnabledAsDependency())
		}
		if sc.N == 0 {
			w.rec(tag + " - - -")
			return
		}
		w.rec(tag + " " + strings.Join(st, ",") + " " + strings.Join(en, ",") + " " + strings.Join(dp, ","))
	}
	shutdownCalled := false
	for _, op := range sc.Ops {
		switch {
		case op == "S":
			w.rec("call start")
			err := modules.Start()
			w.rec("ret start " + resStr(err))
			obs("obs")
		case op == "M":
			w.rec("call manage")
			err := modules.ManageModules()
			w.rec("ret manage " + resStr(err))
			obs("obs")
		case op == "X":
			w.rec("call shutdown")
			err := modules.Shutdown()
			w.rec("ret shutdown " + resStr(err))
			obs("obs")
			shutdownCalled = true
		case len(op) > 2 && op[0] == 'G' && (op[1] == 'P' || op[1] == 'S' || op[1] == 'C'):
			id, err := strconv.Atoi(op[2:])
			if err != nil || id < 0 || id > 9 {
				w.rec("bad-scenario-op " + op)
				continue
			}
			switch op[1] {
			case 'P':
				w.rec(fmt.Sprintf("setg prep %d", id))
				modules.SetGlobalPrepFn(w.globalFn("prep", "G.p", id))
			case 'S':
				w.rec(fmt.Sprintf("setg shutdown %d", id))
				fn := w.globalFn("shutdown", "", id)
				modules.SetGlobalShutdownFn(func() { _ = fn() })
			case 'C':
				w.rec(fmt.Sprintf("setg cmd %d", id))
				modules.SetCmdLineOperation(w.globalFn("cmd", "G.c", id))
			}
		case op == "R":
			m := modules.Register("late", nil, nil, nil)
			if m == nil {
				w.rec("latereg ignored")
			} else {
				w.rec("latereg accepted")
			}
		case len(op) > 1 && (op[0] == 'E' || op[0] == 'D'):
			i, err := strconv.Atoi(op[1:])
			if err != nil || i < 0 || i >= sc.N {
				w.rec("bad-scenario-op " + op)
				continue
			}
			if op[0] == 'E' {
				w.rec(fmt.Sprintf("en %d %s", i, b01(mods[i].Enable())))
			} else {
				w.rec(fmt.Sprintf("dis %d %s", i, b01(mods[i].Disable())))
			}
		default:
			w.rec("bad-scenario-op " + op)
		}
	}
	if shutdownCalled {
		// "When Shutdown returns … no module is online" must stay true: let callbacks that are still
		// running (there are none on a correct tree) finish, then observe once more.
		waited := false
		for i := 0; i < 400 && w.active() > 0; i++ {
			waited = true
			time.Sleep(time.Millisecond)
		}
		if waited {
			time.Sleep(3 * time.Millisecond)
		}
		obs("fin")
	}
	if sc.Mgmt {
		modules.DisableModuleManagement()
	}
	w.mu.Lock()
	defer w.mu.Unlock()
	return append([]string{}, w.lines...)
}
