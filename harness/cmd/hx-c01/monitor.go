package main

import (
	"fmt"
	"strconv"
	"strings"

	"github.com/safing/portbase/modules"

	"verifharness/hxlib"
)

// monitor is the property statement of C01 read literally on the recorded history of one scenario
// (callback begin/end events in their global order, return values, status of every module after
// each call). It does not use the Lean model.
//
//	(a) start(m) begins only after every dependency finished starting successfully (and was not stopped since)
//	(b) stop(d) begins only after every started module depending on d has completely stopped
//	(c) prep runs once per module, after the prep of its dependencies, before any start
//	(d) Start / a management pass returned nil  =>  exactly the wanted modules are online
//	(e) Shutdown returned  =>  #stop invocations = #successful starts for every module, and no module is online
//	    (also once everything that was still running has finished)
//
// The property quantifies over "every sequence of Enable/Disable + ManageModules calls between Start and Shutdown":
// once a Start or ManageModules call FOLLOWS a Shutdown call the history has left that domain (the code does not
// refuse such calls and (d) itself then demands modules online), and (e) is not judged any more. (a)-(d) are
// judged on every history. The global prep/shutdown functions and the command-line operation are not mentioned
// by the property; their lines (setg/glob) are left to the acceptor.
//
// Callbacks registered as nil are not observable; clauses that would need their events are skipped for them.
func monitor(c hxlib.Case, outs []string) (vs []hxlib.Violation) {
	if len(c.Lines) == 0 {
		return nil
	}
	sc, err := parseScenario(c.Lines[0])
	if err != nil {
		return nil // malformed stream: nothing the property speaks about
	}
	n := sc.N
	ctx := "clean"
	add := func(i int, clause, what string) {
		vs = append(vs, hxlib.Violation{Sig: "C01:" + clause + ":" + ctx, What: fmt.Sprintf("line %d %q: %s", i, c.Lines[i], what),
			Lines: c.Lines, Output: nil})
	}
	valid := func(d int) bool { return d >= 0 && d < n }
	enabled := make([]bool, n)
	prepBeg := make([]int, n)
	prepOk := make([]bool, n)
	prepRunning := 0
	anyStart := false
	life := make([]int, n) // 0 not started / completely stopped, 1 start running, 2 start finished successfully, 3 stop running
	startOk := make([]int, n)
	stopBeg := make([]int, n)
	pendingRet := ""  // the last "ret" line, for the obs that follows
	sdCalled := false // Shutdown has been called
	outside := false  // a Start / ManageModules call followed a Shutdown call: (e) is not judged any more
	wanted := func() []bool {
		w := make([]bool, n)
		if !sc.Mgmt {
			for i := range w {
				w[i] = true
			}
			return w
		}
		var mark func(i int)
		mark = func(i int) {
			for _, d := range sc.Deps[i] {
				if valid(d) && !w[d] {
					w[d] = true
					mark(d)
				}
			}
		}
		for i := 0; i < n; i++ {
			if enabled[i] {
				w[i] = true
			}
		}
		for i := 0; i < n; i++ {
			if enabled[i] {
				mark(i)
			}
		}
		return w
	}
	parseObs := func(f []string) ([]int, bool) {
		if len(f) != 4 {
			return nil, false
		}
		if n == 0 {
			return nil, true
		}
		parts := strings.Split(f[1], ",")
		if len(parts) != n {
			return nil, false
		}
		st := make([]int, n)
		for i, p := range parts {
			v, err := strconv.Atoi(p)
			if err != nil {
				return nil, false
			}
			st[i] = v
		}
		return st, true
	}
	online := int(modules.StatusOnline)
	stoppedCheck := func(i int, st []int, when string) {
		for m := 0; m < n; m++ {
			if st[m] == online {
				add(i, "shutdown-left-online", fmt.Sprintf("module %d is online %s", m, when))
			}
			if !sc.Nil[m][1] && !sc.Nil[m][2] && stopBeg[m] != startOk[m] {
				add(i, "stop-count-mismatch", fmt.Sprintf("module %d: start succeeded %d times, stop invoked %d times (%s)", m, startOk[m], stopBeg[m], when))
			}
		}
	}
	for i := 1; i < len(c.Lines); i++ {
		f := strings.Fields(c.Lines[i])
		if len(f) == 0 {
			continue
		}
		switch f[0] {
		case "hang":
			add(i, "hang", "the scenario did not finish within the time limit (deadlock or lost report)")
		case "crash":
			add(i, "crash", "the process running the module system died during the scenario (fatal error or unrecovered panic)")
		case "en", "dis":
			if len(f) == 3 {
				if m, err := strconv.Atoi(f[1]); err == nil && valid(m) {
					enabled[m] = f[0] == "en"
				}
			}
		case "beg", "end":
			if len(f) < 3 {
				continue
			}
			m, err := strconv.Atoi(f[2])
			if err != nil || !valid(m) {
				continue
			}
			switch f[0] + " " + f[1] {
			case "beg prep":
				if prepBeg[m] > 0 {
					add(i, "prep-twice", fmt.Sprintf("prep of module %d runs a second time", m))
				}
				prepBeg[m]++
				prepRunning++
				if anyStart {
					add(i, "prep-after-start", fmt.Sprintf("prep of module %d begins after a start routine has begun", m))
				}
				for _, d := range sc.Deps[m] {
					if valid(d) && !sc.Nil[d][0] && !prepOk[d] {
						add(i, "prep-before-dep-prep", fmt.Sprintf("prep of module %d begins before its dependency %d finished prep", m, d))
					}
				}
			case "end prep":
				prepRunning--
				if len(f) == 4 && f[3] == "ok" {
					prepOk[m] = true
				} else if ctx == "clean" {
					ctx = "after-prep-failure"
				}
			case "beg start":
				anyStart = true
				if prepRunning > 0 {
					add(i, "start-during-prep", fmt.Sprintf("start of module %d begins while a prep routine is still running", m))
				}
				if !sc.Nil[m][0] && !prepOk[m] {
					add(i, "start-before-own-prep", fmt.Sprintf("start of module %d begins but its prep has not finished successfully", m))
				}
				for _, d := range sc.Deps[m] {
					if valid(d) && !sc.Nil[d][1] && life[d] != 2 {
						add(i, "start-before-dep-online", fmt.Sprintf("start of module %d begins but its dependency %d has not finished starting successfully (state %d)", m, d, life[d]))
					}
				}
				life[m] = 1
			case "end start":
				if len(f) == 4 && f[3] == "ok" {
					life[m] = 2
					startOk[m]++
				} else {
					life[m] = 0
					if ctx == "clean" {
						ctx = "after-start-failure"
					}
				}
			case "beg stop":
				stopBeg[m]++
				if !sc.Nil[m][1] && life[m] != 2 {
					add(i, "stop-without-successful-start", fmt.Sprintf("stop of module %d begins but it is not started (state %d)", m, life[m]))
				}
				for r := 0; r < n; r++ {
					if sc.Nil[r][1] || sc.Nil[r][2] {
						continue
					}
					for _, d := range sc.Deps[r] {
						if d == m && life[r] != 0 {
							add(i, "stop-before-dependents-stopped", fmt.Sprintf("stop of module %d begins but module %d, which depends on it, is started and not completely stopped (state %d)", m, r, life[r]))
						}
					}
				}
				life[m] = 3
			case "end stop":
				life[m] = 0
				if !(len(f) == 4 && f[3] == "ok") && ctx == "clean" {
					ctx = "after-stop-failure"
				}
			}
		case "call":
			if len(f) == 2 && f[1] == "shutdown" {
				sdCalled = true
			} else if sdCalled {
				outside = true
			}
		case "ret":
			pendingRet = c.Lines[i]
		case "obs", "fin":
			st, ok := parseObs(f)
			if !ok {
				continue
			}
			switch {
			case outside && (f[0] == "fin" || strings.HasPrefix(pendingRet, "ret shutdown")):
				// outside the property's histories (see above)
			case f[0] == "fin":
				stoppedCheck(i, st, "after Shutdown returned and all callbacks finished")
			case pendingRet == "ret start ok" || (pendingRet == "ret manage ok" && sc.Mgmt):
				w := wanted()
				for m := 0; m < n; m++ {
					if w[m] != (st[m] == online) {
						add(i, "wanted-online-mismatch", fmt.Sprintf("after %q module %d: wanted=%v status=%d", pendingRet, m, w[m], st[m]))
					}
				}
			case strings.HasPrefix(pendingRet, "ret shutdown"):
				stoppedCheck(i, st, "when Shutdown returned")
			}
			pendingRet = ""
		}
	}
	return vs
}
