package main

import (
	"bytes"
	"errors"
	"fmt"
	"io"
	"net/http"
	"net/http/httptest"
	"reflect"
	"runtime"
	"sort"
	"strconv"
	"strings"
	"sync"
	"unicode"

	"github.com/safing/portbase/formats/dsd"
	"github.com/safing/portbase/formats/varint"

	"verifharness/hxlib"
)

// exec runs op lines on the real dsd package. State of a case: the current value, the last dumped blob,
// the last MimeDump result, the current request / response.
type exec struct {
	tag   string
	val   any
	blob  []byte
	mdata []byte
	mtype string
	req   *http.Request
	resp  *http.Response
	held  []*heldResult
}

// heldResult: something a dump function returned, kept exactly as returned (the slice itself / the request body
// itself, not a copy) together with a copy of its bytes taken at that moment and the type of the dumped value.
type heldResult struct {
	mime    bool
	mtype   string
	data    []byte        // the returned slice (blob, MimeDump data); nil if body is set
	body    io.ReadSeeker // the reader DumpToHTTPRequest put into the request, if it can be rewound
	copy    []byte
	tag     string
	changed bool // sticky: the bytes differed from the copy at some point
}

const heldCap = 16

func (e *exec) hold(h *heldResult) {
	h.tag = e.tag
	e.held = append(e.held, h)
	if len(e.held) > heldCap {
		e.held = e.held[1:]
	}
}

func (h *heldResult) current() []byte {
	if h.body != nil {
		if _, err := h.body.Seek(0, io.SeekStart); err != nil {
			return nil
		}
		b, _ := io.ReadAll(h.body)
		return b
	}
	return h.data
}

// seekerOf finds the rewindable reader inside the body DumpToHTTPRequest installed (io.NopCloser around a
// *bytes.Reader): the reader still reads the memory the package handed over.
func seekerOf(body io.ReadCloser) io.ReadSeeker {
	if s, ok := body.(io.ReadSeeker); ok {
		return s
	}
	v := reflect.ValueOf(body)
	if v.Kind() == reflect.Struct && v.NumField() == 1 && v.Field(0).CanInterface() {
		if s, ok := v.Field(0).Interface().(io.ReadSeeker); ok {
			return s
		}
	}
	return nil
}

// The two assignable package variables, as the package initialises them.
var initSer, initComp = dsd.DefaultSerializationFormat, dsd.DefaultCompressionFormat

func restoreCfg() {
	dsd.DefaultSerializationFormat, dsd.DefaultCompressionFormat = initSer, initComp
}

// Close is called by hxlib after the last op of a case.
func (e *exec) Close() error {
	restoreCfg()
	return nil
}

var (
	wireOnce sync.Once
	wireSrv  *httptest.Server
)

// wireServer: one echo server for the whole run.
func wireServer() *httptest.Server {
	wireOnce.Do(func() {
		wireSrv = httptest.NewServer(http.HandlerFunc(func(w http.ResponseWriter, r *http.Request) {
			tag := r.URL.Query().Get("t")
			t := newTarget(tag)
			if _, err := dsd.LoadFromHTTPRequest(r, t); err != nil {
				http.Error(w, "load: "+err.Error(), http.StatusBadRequest)
				return
			}
			if err := dsd.DumpToHTTPResponse(w, r, dumpArg(tag, t)); err != nil {
				http.Error(w, "dump: "+err.Error(), http.StatusNotAcceptable)
			}
		}))
	})
	return wireSrv
}

func newExec(*hxlib.Run) hxlib.Exec {
	restoreCfg()
	return &exec{tag: "S", val: &Subject{}, req: httptest.NewRequest(http.MethodPost, "http://verif.invalid/", nil)}
}

// errClass maps an error of the dsd API to the model's enum. load=true: errors that are not dsd's own come
// from compress/gzip (DecompressAndLoad passes them through unwrapped); load=false: from a codec's Marshal.
func errClass(err error, load bool) string {
	switch {
	case errors.Is(err, dsd.ErrIncompatibleFormat):
		return "incompatible"
	case errors.Is(err, dsd.ErrIsRaw):
		return "israw"
	case errors.Is(err, varint.ErrBufTooSmall):
		return "small"
	case strings.HasPrefix(err.Error(), "varint: encoded integer greater than"):
		return "large"
	case err == io.ErrUnexpectedEOF: //nolint:errorlint // identity on purpose: the wrapped one is a codec error
		return "eof"
	case strings.HasPrefix(err.Error(), "dsd: failed to unpack"),
		strings.HasPrefix(err.Error(), "dsd: gencode is not supported"),
		strings.HasPrefix(err.Error(), "dsd: failed to pack gencode"),
		strings.HasPrefix(err.Error(), "dsd: failed to serialize"):
		return "codec"
	case strings.HasPrefix(err.Error(), "dsd:"):
		return "other:" + err.Error()
	}
	if load {
		return "gunzip"
	}
	return "codec"
}

func parseU8(s string) (uint8, bool) {
	n, err := strconv.ParseUint(s, 10, 8)
	return uint8(n), err == nil
}

func isHex(s string) bool {
	if s == "-" {
		return true
	}
	if len(s)%2 != 0 || s == "" {
		return false
	}
	for i := 0; i < len(s); i++ {
		c := s[i]
		if !(c >= '0' && c <= '9' || c >= 'a' && c <= 'f' || c >= 'A' && c <= 'F') {
			return false
		}
	}
	return true
}

// spare: what lies behind every input handed to the load functions (continuation byte of a two-byte identifier,
// then something every codec accepts a prefix of): a read beyond len(input) changes the observable result.
var spare = []byte{0x01, '{', '}', '\n', 0x01, 0xf6, 0xc0, 'n', 'u', 'l', 'l', '\n', 0x1f, 0x8b, 0x08, 0, 0, 0, 0, 0, 0x4a, '{', '}', 0x01}

// window copies b into an array with spare capacity filled with plausible bytes.
func window(b []byte) []byte {
	buf := make([]byte, len(b)+len(spare))
	copy(buf, b)
	copy(buf[len(b):], spare)
	return buf[:len(b):len(buf)]
}

func (e *exec) operand(w string) ([]byte, bool) {
	switch w {
	case "@":
		return window(e.blob), true
	case "@1":
		if len(e.blob) == 0 {
			return window(nil), true
		}
		return window(e.blob[1:]), true
	case "@m":
		return window(e.mdata), true
	}
	if !isHex(w) {
		return nil, false
	}
	return window(hxlib.UnHex(w)), true
}

func (e *exec) strOperand(w string) (string, bool) {
	if w == "@t" {
		return e.mtype, true
	}
	if !isHex(w) {
		return "", false
	}
	return string(hxlib.UnHex(w)), true
}

func optHex(present bool, b []byte) string {
	if !present {
		return "nil"
	}
	return hxlib.Hex(b)
}

func headerHex(h http.Header, key string) string {
	v, ok := h[key]
	if !ok || len(v) == 0 {
		return "nil"
	}
	return hxlib.Hex([]byte(v[0]))
}

func (e *exec) showLoad(format uint8, err error, target any) string {
	if err != nil {
		return fmt.Sprintf("%d err %s", format, errClass(err, true))
	}
	return fmt.Sprintf("%d ok %s", format, vid(target))
}

func (e *exec) showDump(b []byte, err error) string {
	if err != nil {
		return "err " + errClass(err, false)
	}
	e.blob = b
	e.hold(&heldResult{data: b, copy: append([]byte(nil), b...)})
	return "ok " + hxlib.Hex(b)
}

// loadHeld loads a held result with the function the property names for it, from the held memory itself.
func (e *exec) loadHeld(h *heldResult, cur []byte) string {
	t := newTarget(h.tag)
	if h.mime {
		format, err := dsd.MimeLoad(cur, h.mtype, t)
		return e.showLoad(format, err, t)
	}
	format, err := dsd.Load(cur, t)
	return e.showLoad(format, err, t)
}

// parResult: what one goroutine of a `par` op got for one of its items.
type parResult struct {
	data  []byte
	mtype string
	mime  bool
	err   error
}

// par runs the items concurrently, goroutine g on vals[g], `rounds` times each, keeps everything returned, and
// only after all goroutines are done loads every result. Output: per goroutine and item the set of distinct
// load results (one element if the functions are what the property says they are).
func (e *exec) par(tag string, vals []any, rounds int, items []string) string {
	type one struct{ res [][]parResult }
	out := make([]one, len(vals))
	var start, done sync.WaitGroup
	start.Add(1)
	for g := range vals {
		out[g].res = make([][]parResult, len(items))
		done.Add(1)
		go func(g int) {
			defer done.Done()
			arg := dumpArg(tag, vals[g])
			start.Wait()
			for r := 0; r < rounds; r++ {
				for k, it := range items {
					var pr parResult
					func() {
						defer func() {
							if x := recover(); x != nil {
								pr.err = fmt.Errorf("PANIC %v", x)
							}
						}()
						switch it[0] {
						case 'd':
							fm, _ := parseU8(it[1:])
							pr.data, pr.err = dsd.Dump(arg, fm)
						case 'c':
							a, b, _ := strings.Cut(it[1:], ".")
							fm, _ := parseU8(a)
							cm, _ := parseU8(b)
							pr.data, pr.err = dsd.DumpAndCompress(arg, fm, cm)
						case 'm':
							pr.mime = true
							pr.data, pr.mtype, _, pr.err = dsd.MimeDump(arg, string(hxlib.UnHex(it[1:])))
						}
					}()
					out[g].res[k] = append(out[g].res[k], pr)
				}
				if r%4 == 3 {
					runtime.Gosched()
				}
			}
		}(g)
	}
	start.Done()
	done.Wait()
	var sb strings.Builder
	for g := range vals {
		for k := range items {
			set := map[string]bool{}
			for _, pr := range out[g].res[k] {
				var s string
				switch {
				case pr.err != nil && strings.HasPrefix(pr.err.Error(), "PANIC"):
					s = strings.ReplaceAll(pr.err.Error(), " ", "_")
				case pr.err != nil:
					s = "err " + errClass(pr.err, false)
				default:
					t := newTarget(tag)
					if pr.mime {
						format, err := dsd.MimeLoad(pr.data, pr.mtype, t)
						s = e.showLoad(format, err, t) + " ct=" + hxlib.Hex([]byte(pr.mtype))
					} else {
						format, err := dsd.Load(pr.data, t)
						s = e.showLoad(format, err, t)
					}
				}
				set[s] = true
			}
			var ks []string
			for s := range set {
				ks = append(ks, s)
			}
			sort.Strings(ks)
			if sb.Len() > 0 {
				sb.WriteString(" | ")
			}
			fmt.Fprintf(&sb, "g%d.%d %s", g, k, strings.Join(ks, " / "))
		}
	}
	return sb.String()
}

// bodyOf reads the request body (if any) and puts an equal one back.
func bodyOf(r *http.Request) (present bool, data []byte) {
	if r.Body == nil || r.Body == http.NoBody {
		return false, nil
	}
	data, _ = io.ReadAll(r.Body)
	r.Body = io.NopCloser(bytes.NewReader(data))
	return true, data
}

func (e *exec) Do(line string) string {
	f := strings.Fields(line)
	if len(f) == 0 {
		return "bad-op"
	}
	arg := e.val
	if e.val != nil {
		arg = dumpArg(e.tag, e.val)
	}
	switch {
	// ---- facts: verified against the real libraries, so a wrong fact can never pass silently ----------
	case f[0] == "val" && len(f) == 3 && isHex(f[2]):
		v, err := parseValue(f[1], hxlib.UnHex(f[2]))
		if err != nil {
			return "bad-op"
		}
		e.tag, e.val = f[1], v
		return "ok"
	case f[0] == "enc" && len(f) == 3 && isHex(f[2]):
		p, err := libMarshal(f[1], arg)
		if err != nil || !bytes.Equal(p, hxlib.UnHex(f[2])) {
			return "fact-mismatch"
		}
		return "ok"
	case f[0] == "enci" && len(f) == 3 && isHex(f[1]) && isHex(f[2]):
		p, err := jsonMarshalIndent(arg, string(hxlib.UnHex(f[1])))
		if err != nil || !bytes.Equal(p, hxlib.UnHex(f[2])) {
			return "fact-mismatch"
		}
		return "ok"
	case f[0] == "raw" && len(f) == 2 && isHex(f[1]):
		b, ok := arg.([]byte)
		if !ok || !bytes.Equal(b, hxlib.UnHex(f[1])) {
			return "fact-mismatch"
		}
		return "ok"
	case f[0] == "cd" && len(f) == 4 && isHex(f[2]):
		t := newTarget(e.tag)
		if err := libUnmarshal(f[1], hxlib.UnHex(f[2]), t); err != nil || vid(t) != f[3] {
			return "fact-mismatch"
		}
		return "ok"
	case f[0] == "gz" && len(f) == 3 && isHex(f[1]) && isHex(f[2]):
		p, c := hxlib.UnHex(f[1]), hxlib.UnHex(f[2])
		back, err := gunzipBytes(c)
		if !bytes.Equal(gzipBytes(p), c) || err != nil || !bytes.Equal(back, p) {
			return "fact-mismatch"
		}
		return "ok"
	case f[0] == "gun" && len(f) == 3 && isHex(f[1]) && isHex(f[2]):
		back, err := gunzipBytes(hxlib.UnHex(f[1]))
		if err != nil || !bytes.Equal(back, hxlib.UnHex(f[2])) {
			return "fact-mismatch"
		}
		return "ok"
	case f[0] == "gze" && len(f) == 2 && isHex(f[1]):
		if _, err := gunzipBytes(hxlib.UnHex(f[1])); err != io.ErrUnexpectedEOF { //nolint:errorlint
			return "fact-mismatch"
		}
		return "ok"

	// ---- the package variables; held results ----------------------------------------------------------------
	case f[0] == "cfg" && len(f) == 3:
		a, ok1 := parseU8(f[1])
		b, ok2 := parseU8(f[2])
		if !ok1 || !ok2 {
			return "bad-op"
		}
		dsd.DefaultSerializationFormat, dsd.DefaultCompressionFormat = a, b
		return "ok"
	case f[0] == "held" && len(f) == 1:
		if len(e.held) == 0 {
			return "none"
		}
		var parts []string
		for _, h := range e.held {
			cur := h.current()
			if !bytes.Equal(cur, h.copy) {
				h.changed = true
			}
			res := e.loadHeld(h, cur)
			if !bytes.Equal(h.current(), h.copy) {
				h.changed = true // the load function wrote into its input
			}
			flag := "same"
			if h.changed {
				flag = "changed"
			}
			parts = append(parts, flag+" "+res)
		}
		return strings.Join(parts, " | ")
	case f[0] == "par" && len(f) >= 5:
		// par <rounds> <tag> <items,comma separated> <valhex>...   (implementation + monitor only)
		rounds, err := strconv.Atoi(f[1])
		if err != nil || rounds < 1 || rounds > 1000 {
			return "bad-op"
		}
		var vals []any
		for _, h := range f[4:] {
			if !isHex(h) {
				return "bad-op"
			}
			v, err := parseValue(f[2], hxlib.UnHex(h))
			if err != nil {
				return "bad-op"
			}
			vals = append(vals, v)
		}
		return e.par(f[2], vals, rounds, strings.Split(f[3], ","))

	// ---- dsd.go / compression.go ------------------------------------------------------------------------
	case f[0] == "dump" && len(f) == 2:
		format, ok := parseU8(f[1])
		if !ok {
			return "bad-op"
		}
		return e.showDump(dsd.Dump(arg, format))
	case f[0] == "dumpi" && len(f) == 3 && isHex(f[2]):
		format, ok := parseU8(f[1])
		if !ok {
			return "bad-op"
		}
		return e.showDump(dsd.DumpIndent(arg, format, string(hxlib.UnHex(f[2]))))
	case f[0] == "dac" && len(f) == 3:
		format, ok1 := parseU8(f[1])
		comp, ok2 := parseU8(f[2])
		if !ok1 || !ok2 {
			return "bad-op"
		}
		return e.showDump(dsd.DumpAndCompress(arg, format, comp))
	case f[0] == "load" && len(f) == 2:
		b, ok := e.operand(f[1])
		if !ok {
			return "bad-op"
		}
		t := newTarget(e.tag)
		format, err := dsd.Load(b, t)
		return e.showLoad(format, err, t)
	case f[0] == "laf" && len(f) == 3:
		format, ok1 := parseU8(f[1])
		b, ok2 := e.operand(f[2])
		if !ok1 || !ok2 {
			return "bad-op"
		}
		t := newTarget(e.tag)
		if err := dsd.LoadAsFormat(b, format, t); err != nil {
			return "err " + errClass(err, true)
		}
		return "ok " + vid(t)
	case f[0] == "dal" && len(f) == 3:
		comp, ok1 := parseU8(f[1])
		b, ok2 := e.operand(f[2])
		if !ok1 || !ok2 {
			return "bad-op"
		}
		t := newTarget(e.tag)
		format, err := dsd.DecompressAndLoad(b, comp, t)
		return e.showLoad(format, err, t)

	// ---- http.go ------------------------------------------------------------------------------------------
	case f[0] == "ffa" && len(f) == 2 && isHex(f[1]):
		return strconv.Itoa(int(dsd.FormatFromAccept(string(hxlib.UnHex(f[1])))))
	case f[0] == "mimedump" && len(f) == 2 && isHex(f[1]):
		data, mimeType, format, err := dsd.MimeDump(arg, string(hxlib.UnHex(f[1])))
		if err != nil {
			return "err " + errClass(err, false)
		}
		e.mdata, e.mtype = data, mimeType
		e.hold(&heldResult{mime: true, mtype: mimeType, data: data, copy: append([]byte(nil), data...)})
		return fmt.Sprintf("ok %d %s %s", format, hxlib.Hex([]byte(mimeType)), hxlib.Hex(data))
	case f[0] == "mimeload" && len(f) == 3:
		a, ok1 := e.strOperand(f[1])
		b, ok2 := e.operand(f[2])
		if !ok1 || !ok2 {
			return "bad-op"
		}
		t := newTarget(e.tag)
		format, err := dsd.MimeLoad(b, a, t)
		return e.showLoad(format, err, t)
	case f[0] == "newreq" && len(f) == 1:
		e.req = httptest.NewRequest(http.MethodPost, "http://verif.invalid/", nil)
		return "ok"
	case f[0] == "req" && len(f) == 2:
		format, ok := parseU8(f[1])
		if !ok {
			return "bad-op"
		}
		err := dsd.DumpToHTTPRequest(e.req, arg, format)
		st := "ok"
		if err != nil {
			st = "err " + errClass(err, false)
		}
		var orig io.ReadSeeker
		if err == nil && e.req.Body != nil {
			orig = seekerOf(e.req.Body) // before bodyOf replaces the body by a copy
		}
		present, body := bodyOf(e.req)
		if ct, ok := e.req.Header["Content-Type"]; err == nil && present && ok && len(ct) > 0 {
			h := &heldResult{mime: true, mtype: ct[0], copy: append([]byte(nil), body...)}
			if orig != nil {
				h.body = orig
			} else {
				h.data = body
			}
			e.hold(h)
		}
		return fmt.Sprintf("%s a=%s ct=%s body=%s", st, headerHex(e.req.Header, "Accept"), headerHex(e.req.Header, "Content-Type"), optHex(present, body))
	case f[0] == "setreq" && len(f) == 4:
		var body io.Reader
		if f[3] != "nil" {
			if !isHex(f[3]) {
				return "bad-op"
			}
			body = bytes.NewReader(hxlib.UnHex(f[3]))
		}
		r := httptest.NewRequest(http.MethodPost, "http://verif.invalid/", body)
		if body != nil {
			r.Body = io.NopCloser(body) // keep "present" distinguishable from http.NoBody also when empty
		}
		for i, key := range []string{"Accept", "Content-Type"} {
			w := f[1+i]
			if w == "nil" {
				continue
			}
			if !isHex(w) {
				return "bad-op"
			}
			r.Header.Set(key, string(hxlib.UnHex(w)))
		}
		e.req = r
		return "ok"
	case f[0] == "loadreq" && len(f) == 1:
		present, body := bodyOf(e.req)
		t := newTarget(e.tag)
		format, err := dsd.LoadFromHTTPRequest(e.req, t)
		if present {
			e.req.Body = io.NopCloser(bytes.NewReader(body))
		}
		return e.showLoad(format, err, t)
	case f[0] == "resp" && len(f) == 1:
		rec := httptest.NewRecorder()
		err := dsd.DumpToHTTPResponse(rec, e.req, arg)
		st := "ok"
		if err != nil {
			st = "err " + errClass(err, false)
		}
		// what a client would see: the recorder's snapshot of the headers at the time of the first write
		res := rec.Result()
		body, _ := io.ReadAll(res.Body)
		hdr := res.Header
		e.resp = &http.Response{StatusCode: res.StatusCode, Header: hdr, Body: io.NopCloser(bytes.NewReader(body))}
		e.resp.Request = e.req
		if ct, ok := hdr["Content-Type"]; err == nil && ok && len(ct) > 0 {
			e.hold(&heldResult{mime: true, mtype: ct[0], data: body, copy: append([]byte(nil), body...)})
		}
		return fmt.Sprintf("%s ct=%s body=%s", st, headerHex(hdr, "Content-Type"), hxlib.Hex(body))
	case f[0] == "setresp" && len(f) == 3 && isHex(f[2]):
		h := http.Header{}
		if f[1] != "nil" {
			if !isHex(f[1]) {
				return "bad-op"
			}
			h.Set("Content-Type", string(hxlib.UnHex(f[1])))
		}
		e.resp = &http.Response{StatusCode: 200, Header: h, Body: io.NopCloser(bytes.NewReader(hxlib.UnHex(f[2])))}
		return "ok"
	case f[0] == "loadresp" && len(f) == 1:
		if e.resp == nil {
			e.resp = &http.Response{StatusCode: 200, Header: http.Header{}, Body: io.NopCloser(bytes.NewReader(nil))}
		}
		body, _ := io.ReadAll(e.resp.Body)
		e.resp.Body = io.NopCloser(bytes.NewReader(body))
		t := newTarget(e.tag)
		format, err := dsd.LoadFromHTTPResponse(e.resp, t)
		e.resp.Body = io.NopCloser(bytes.NewReader(body))
		return e.showLoad(format, err, t)

	// ---- over a real HTTP connection (implementation + monitor only): the client dumps the value into a request,
	// an httptest.Server loads it and dumps it back into the response as the request's Accept header asks, the
	// client loads the response
	case (f[0] == "wire" && len(f) == 2) || (f[0] == "wirea" && len(f) == 2 && isHex(f[1])):
		srv := wireServer()
		req, err := http.NewRequest(http.MethodPost, srv.URL+"/?t="+e.tag, nil)
		if err != nil {
			return "err newrequest"
		}
		if f[0] == "wire" {
			format, ok := parseU8(f[1])
			if !ok {
				return "bad-op"
			}
			if err := dsd.DumpToHTTPRequest(req, arg, format); err != nil {
				return "err dump " + errClass(err, false)
			}
		} else {
			if err := dsd.DumpToHTTPRequest(req, arg, dsd.JSON); err != nil {
				return "err dump " + errClass(err, false)
			}
			req.Header.Set("Accept", string(hxlib.UnHex(f[1])))
		}
		resp, err := srv.Client().Do(req)
		if err != nil {
			return "err transport"
		}
		defer resp.Body.Close()
		if resp.StatusCode != http.StatusOK {
			return fmt.Sprintf("err status %d", resp.StatusCode)
		}
		t := newTarget(e.tag)
		format, err := dsd.LoadFromHTTPResponse(resp, t)
		return e.showLoad(format, err, t) + " ct=" + hxlib.Hex([]byte(resp.Header.Get("Content-Type")))

	// ---- the model's string functions against Go's unicode tables (whole code space) -----------------------
	case f[0] == "lowerscan" && len(f) == 1:
		var out []string
		for r := rune(128); r <= unicode.MaxRune; r++ {
			if r >= 0xd800 && r <= 0xdfff {
				continue
			}
			// strings.ToLower itself, on a one-rune string
			if l := []rune(strings.ToLower(string(r))); len(l) == 1 && l[0] < 128 {
				out = append(out, strconv.Itoa(int(r)))
			}
		}
		return strings.Join(out, " ")
	case f[0] == "spacescan" && len(f) == 1:
		var out []string
		for r := rune(0); r <= unicode.MaxRune; r++ {
			if r >= 0xd800 && r <= 0xdfff {
				continue
			}
			if strings.TrimSpace(string(r)) == "" {
				out = append(out, strconv.Itoa(int(r)))
			}
		}
		return strings.Join(out, " ")
	}
	return "bad-op"
}
