package main

import (
	"bytes"
	"compress/gzip"
	"encoding/binary"
	"encoding/json"
	"errors"
	"fmt"
	"hash/fnv"
	"math/rand"
	"reflect"
	"sort"
	"strings"

	"github.com/fxamacker/cbor/v2"
	"github.com/ghodss/yaml"
	"github.com/vmihailenco/msgpack/v5"
)

// ---- the harness schema ------------------------------------------------------------------------------

// Inner is the nested struct of the schema (recursive through a pointer).
type Inner struct {
	A int16
	B string
	C []byte
	D *Inner
}

// Subject is the schema value for JSON / CBOR / MsgPack / YAML: nested structs, all integer widths, strings,
// byte slices, string slices, maps, pointers.
type Subject struct {
	I   int
	I8  int8
	I16 int16
	I32 int32
	I64 int64
	U   uint
	U8  uint8
	U16 uint16
	U32 uint32
	U64 uint64
	T   bool
	S   string
	Sp  *string
	Sa  []string
	Sap *[]string
	B   byte
	Bp  *byte
	Ba  []byte
	Bap *[]byte
	M   map[string]string
	Mp  *map[string]string
	Mi  map[string]int64
	N   Inner
	Np  *Inner
	Ns  []Inner
}

// GSubject implements dsd.GenCodeCompatible with a hand-written gencode-style layout
// (uvarint length + bytes, fixed-width little endian integers); it is also a plain struct for the other codecs.
type GSubject struct {
	S  string
	B  byte
	N  uint32
	Ba []byte
	I  int64
}

// GenCodeMarshal implements dsd.GenCodeCompatible.
func (g *GSubject) GenCodeMarshal(buf []byte) ([]byte, error) {
	buf = buf[:0]
	buf = binary.AppendUvarint(buf, uint64(len(g.S)))
	buf = append(buf, g.S...)
	buf = append(buf, g.B)
	buf = binary.LittleEndian.AppendUint32(buf, g.N)
	buf = binary.AppendUvarint(buf, uint64(len(g.Ba)))
	buf = append(buf, g.Ba...)
	buf = binary.LittleEndian.AppendUint64(buf, uint64(g.I))
	return buf, nil
}

var errGenCode = errors.New("gencode: malformed")

// GenCodeUnmarshal implements dsd.GenCodeCompatible (bounds-checked: never panics).
func (g *GSubject) GenCodeUnmarshal(buf []byte) (uint64, error) {
	i := uint64(0)
	n := uint64(len(buf))
	block := func() ([]byte, bool) {
		l, k := binary.Uvarint(buf[i:])
		if k <= 0 {
			return nil, false
		}
		i += uint64(k)
		if l > n-i {
			return nil, false
		}
		b := buf[i : i+l]
		i += l
		return b, true
	}
	s, ok := block()
	if !ok {
		return 0, errGenCode
	}
	if i+5 > n {
		return 0, errGenCode
	}
	b := buf[i]
	i++
	nn := binary.LittleEndian.Uint32(buf[i:])
	i += 4
	ba, ok := block()
	if !ok {
		return 0, errGenCode
	}
	if i+8 > n {
		return 0, errGenCode
	}
	g.S, g.B, g.N = string(s), b, nn
	g.Ba = append([]byte(nil), ba...)
	g.I = int64(binary.LittleEndian.Uint64(buf[i:]))
	i += 8
	return i, nil
}

// USubject cannot be marshalled by any codec (error path of the dump functions).
type USubject struct {
	C chan int
}

// Type tags of the line protocol: S Subject, G GSubject, B []byte (the only RAW-capable value), U USubject.
func newTarget(tag string) any {
	switch tag {
	case "S":
		return &Subject{}
	case "G":
		return &GSubject{}
	case "B":
		return new([]byte)
	case "U":
		return &USubject{}
	}
	panic("unknown type tag " + tag)
}

// dumpArg is what is handed to the dsd dump functions: pointers to structs, a plain []byte for B.
func dumpArg(tag string, v any) any {
	if tag == "B" {
		return *(v.(*[]byte))
	}
	return v
}

// ---- canonical rendering and value ids ------------------------------------------------------------------

// canon renders a value canonically. With strict=false nil and empty slices/maps are identified
// (semantic equality of the data); with strict=true they are distinguished (reflect.DeepEqual).
func canon(sb *strings.Builder, v reflect.Value, strict bool) {
	switch v.Kind() {
	case reflect.Bool:
		fmt.Fprintf(sb, "%v", v.Bool())
	case reflect.Int, reflect.Int8, reflect.Int16, reflect.Int32, reflect.Int64:
		fmt.Fprintf(sb, "%d", v.Int())
	case reflect.Uint, reflect.Uint8, reflect.Uint16, reflect.Uint32, reflect.Uint64:
		fmt.Fprintf(sb, "%du", v.Uint())
	case reflect.String:
		fmt.Fprintf(sb, "%q", v.String())
	case reflect.Slice:
		if strict && v.IsNil() {
			sb.WriteString("nil")
			return
		}
		if v.Type().Elem().Kind() == reflect.Uint8 {
			fmt.Fprintf(sb, "h'%x'", v.Bytes())
			return
		}
		sb.WriteByte('[')
		for i := 0; i < v.Len(); i++ {
			canon(sb, v.Index(i), strict)
			sb.WriteByte(',')
		}
		sb.WriteByte(']')
	case reflect.Map:
		if strict && v.IsNil() {
			sb.WriteString("nil")
			return
		}
		keys := v.MapKeys()
		sort.Slice(keys, func(i, j int) bool { return keys[i].String() < keys[j].String() })
		sb.WriteByte('{')
		for _, k := range keys {
			fmt.Fprintf(sb, "%q:", k.String())
			canon(sb, v.MapIndex(k), strict)
			sb.WriteByte(',')
		}
		sb.WriteByte('}')
	case reflect.Ptr:
		if v.IsNil() {
			sb.WriteString("null")
			return
		}
		sb.WriteByte('&')
		canon(sb, v.Elem(), strict)
	case reflect.Struct:
		sb.WriteString(v.Type().Name())
		sb.WriteByte('{')
		for i := 0; i < v.NumField(); i++ {
			canon(sb, v.Field(i), strict)
			sb.WriteByte(';')
		}
		sb.WriteByte('}')
	case reflect.Chan:
		sb.WriteString("chan")
	default:
		panic("canon: unsupported kind " + v.Kind().String())
	}
}

func canonString(v any, strict bool) string {
	var sb strings.Builder
	canon(&sb, reflect.ValueOf(v), strict)
	return sb.String()
}

// vid is the opaque value id of the line protocol: equal ids = equal values in the sense of reflect.DeepEqual
// (nil and empty slices / maps are distinguished).
func vid(v any) string {
	h := fnv.New64a()
	h.Write([]byte(canonString(v, true)))
	return fmt.Sprintf("v%016x", h.Sum64())
}

// ---- direct use of the third-party codecs (facts for the model; oracle of the monitor) ---------------------

var libs = []string{"json", "yaml", "cbor", "msgpack", "gencode"}

func libMarshal(lib string, v any) ([]byte, error) {
	switch lib {
	case "json":
		return json.Marshal(v)
	case "yaml":
		return yaml.Marshal(v)
	case "cbor":
		return cbor.Marshal(v)
	case "msgpack":
		return msgpack.Marshal(v)
	case "gencode":
		g, ok := v.(interface {
			GenCodeMarshal([]byte) ([]byte, error)
		})
		if !ok {
			return nil, errors.New("not gencode compatible")
		}
		return g.GenCodeMarshal(nil)
	}
	return nil, errors.New("unknown lib")
}

func libUnmarshal(lib string, data []byte, t any) (err error) {
	defer func() {
		if x := recover(); x != nil {
			err = fmt.Errorf("codec panic: %v", x)
		}
	}()
	switch lib {
	case "json":
		return json.Unmarshal(data, t)
	case "yaml":
		return yaml.Unmarshal(data, t)
	case "cbor":
		return cbor.Unmarshal(data, t)
	case "msgpack":
		return msgpack.Unmarshal(data, t)
	case "gencode":
		g, ok := t.(interface {
			GenCodeUnmarshal([]byte) (uint64, error)
		})
		if !ok {
			return errors.New("not gencode compatible")
		}
		_, err := g.GenCodeUnmarshal(data)
		return err
	}
	return errors.New("unknown lib")
}

// representable: the value survives the codec itself (the contract the theorems assume): marshal, unmarshal
// into a fresh value of the same type, equal. The payload is returned.
func representable(lib, tag string, v any) ([]byte, bool) {
	p, err := libMarshal(lib, dumpArg(tag, v))
	if err != nil {
		return nil, false
	}
	t := newTarget(tag)
	if err := libUnmarshal(lib, p, t); err != nil {
		return p, false
	}
	return p, vid(t) == vid(v)
}

var gzWriter *gzip.Writer

// gzipBytes: compress/gzip at BestCompression, as DumpAndCompress does (one writer, reset per call: a fresh
// BestCompression writer allocates more than a megabyte).
func gzipBytes(b []byte) []byte {
	var buf bytes.Buffer
	if gzWriter == nil {
		gzWriter, _ = gzip.NewWriterLevel(&buf, gzip.BestCompression)
	} else {
		gzWriter.Reset(&buf)
	}
	gzWriter.Write(b)
	gzWriter.Close()
	return buf.Bytes()
}

func gunzipBytes(b []byte) ([]byte, error) {
	r, err := gzip.NewReader(bytes.NewReader(b))
	if err != nil {
		return nil, err
	}
	var out bytes.Buffer
	if _, err := out.ReadFrom(r); err != nil {
		return nil, err
	}
	if err := r.Close(); err != nil {
		return nil, err
	}
	return out.Bytes(), nil
}

// ---- value generation -------------------------------------------------------------------------------------

const interop = 1<<53 - 1 // integers of the 64-bit fields stay within ±(2^53-1), the interoperable range

var stringPool = []string{
	"", "a", "hello world", " leading", "trailing ", "line\nbreak", "tab\tsep", "quote\"inside", "back\\slash",
	"null", "true", "false", "~", "123", "-1", "1e3", "0x1F", "yes", "no", "on", "off", "3.14", "2001-01-01", ":", "- x", "# c",
	"{a: b}", "[1, 2]", "key: value", "'single'", "&anchor", "*alias", "!tag", "%", "@", "`", "|", ">", "?", "<html>&amp;",
	"äöüß", "日本語テキスト", "Ελληνικά", "emoji 😀🚀", "e\u0301 combining", "\u00a0nbsp", "\u2028ls", "zero\u200bwidth", "K sign \u212a", "\u0130",
	"\u0001ctl", "\ufeffbom", "a\x00b",
}

// rarePool: strings some codec cannot represent (yaml rejects DEL); drawn rarely so that most values stay
// representable in every format.
var rarePool = []string{"del\u007f"}

// Strings that look like the escape sequences / markup of some layer a value may pass through (JSON string
// escapes, encoding/json's HTML-safe escapes \u003c \u003e \u0026 \u2028 \u2029, surrogates, YAML indicators and
// escapes, URL / HTML entity escapes): a layer that rewrites its output or input textually is only exposed by a
// payload that already contains the text it looks for.
var escapedForms = []string{
	`\u003c`, `\u003e`, `\u0026`, `\u003C`, `\u003E`, `\u2028`, `\u2029`, `\u0000`, `\u0022`, `\u005c`, `\u00e9`, `\ud800`, `\udc00`,
	`\ud83d\ude00`, `\U0001F600`, `\x3c`, `\x00`, `\n`, `\r`, `\t`, `\b`, `\f`, `\0`, `\"`, `\'`, `\\`, `\/`, `\<`, `\>`, `\&`, `\ `, `\u`, `\u00`,
	`\u003`, `\N`, `\_`, `\e`, `\L`, `\P`,
}

var escapeFragments = []string{
	`\`, `\`, `\\`, "u003c", "u003e", "u0026", "u2028", "u00", "u", "x3c", "n", "0", "/", `"`, "'", "<", ">", "&", "&amp;", "&lt;", "&#60;",
	"&#x3c;", "%3C", "%5C", "%", "\u2028", "\u2029", "\u0085", "\b", "\f", "\x1f", "\r", "\r\n", "\n", "\t", "${", "{{", "}}", ": ", " #", "- ", "!",
	"!!str ", "!!binary ", "*", "&a ", "|", ">-", "---", "...", "?", "=", "<<", "[", "]", "{", "}", ",", "</script>", "<!--", "]]>", "\ufeff", "\ufffd",
}

func genEscapeString(r *rand.Rand) string {
	var sb strings.Builder
	n := 1 + r.Intn(5)
	for i := 0; i < n; i++ {
		switch r.Intn(5) {
		case 0, 1:
			sb.WriteString(escapedForms[r.Intn(len(escapedForms))])
		case 2:
			// a backslash (one or two) in front of a hexadecimal escape body
			sb.WriteString([]string{`\`, `\\`, `\\\`}[r.Intn(3)])
			sb.WriteString([]string{"u003c", "u003e", "u0026", "u2028", "u2029", "u0000", "u000a", "u005c", "u0022", "ud800", "x3c"}[r.Intn(11)])
		case 3:
			sb.WriteString(escapeFragments[r.Intn(len(escapeFragments))])
		default:
			sb.WriteString(stringPool[r.Intn(len(stringPool))])
		}
	}
	return sb.String()
}

func genString(r *rand.Rand) string {
	if r.Intn(8) == 0 {
		return genEscapeString(r)
	}
	switch r.Intn(1200) {
	case 0, 1, 2:
		return rarePool[r.Intn(len(rarePool))]
	case 3:
		// a size class of its own: crosses buffer, gzip window and HTTP chunk boundaries
		return strings.Repeat(stringPool[3+r.Intn(len(stringPool)-3)], 1<<uint(10+r.Intn(5)))
	}
	switch r.Intn(10) {
	case 0, 1, 2, 3, 4:
		return stringPool[r.Intn(len(stringPool))]
	case 5, 6:
		n := r.Intn(12)
		b := make([]rune, n)
		for i := range b {
			b[i] = rune(32 + r.Intn(95))
		}
		return string(b)
	case 7, 8:
		n := r.Intn(8)
		b := make([]rune, n)
		for i := range b {
			switch r.Intn(4) {
			case 0:
				b[i] = rune(0xa1 + r.Intn(0x500))
			case 1:
				b[i] = rune(0x3040 + r.Intn(0x100))
			case 2:
				b[i] = rune(0x1f600 + r.Intn(0x40))
			default:
				b[i] = rune(32 + r.Intn(95))
			}
		}
		return string(b)
	default:
		return strings.Repeat(stringPool[r.Intn(len(stringPool))], 1+r.Intn(20))
	}
}

func genBytes(r *rand.Rand) []byte {
	switch r.Intn(6) {
	case 0:
		return nil
	case 1:
		return []byte{}
	case 2:
		return []byte{byte(r.Intn(256))}
	default:
		b := make([]byte, r.Intn(40))
		r.Read(b)
		return b
	}
}

func genInt(r *rand.Rand, bits uint) int64 {
	lim := int64(1)<<(bits-1) - 1
	if bits == 64 {
		lim = interop
	}
	switch r.Intn(8) {
	case 0:
		return 0
	case 1:
		return lim
	case 2:
		if bits == 64 {
			return -lim
		}
		return -lim - 1
	case 3:
		return int64(r.Intn(3)) - 1
	case 4:
		return lim - int64(r.Intn(3))
	default:
		x := r.Int63n(lim + 1)
		if r.Intn(2) == 0 {
			x = -x
		}
		return x >> uint(r.Intn(int(bits)))
	}
}

func genUint(r *rand.Rand, bits uint) uint64 {
	lim := uint64(1)<<bits - 1
	if bits == 64 {
		lim = interop
	}
	switch r.Intn(6) {
	case 0:
		return 0
	case 1:
		return lim
	case 2:
		return lim - uint64(r.Intn(3))
	case 3:
		return uint64(r.Intn(3))
	default:
		return (r.Uint64() % (lim + 1)) >> uint(r.Intn(int(bits)))
	}
}

func genStrings(r *rand.Rand) []string {
	switch r.Intn(5) {
	case 0:
		return nil
	case 1:
		return []string{}
	default:
		s := make([]string, 1+r.Intn(4))
		for i := range s {
			s[i] = genString(r)
		}
		return s
	}
}

func genMap(r *rand.Rand, maxKeys int) map[string]string {
	switch r.Intn(4) {
	case 0:
		return nil
	case 1:
		return map[string]string{}
	default:
		m := map[string]string{}
		n := 1
		if maxKeys > 1 {
			n = 1 + r.Intn(maxKeys)
		}
		for i := 0; i < n; i++ {
			m[genString(r)] = genString(r)
		}
		return m
	}
}

func genInner(r *rand.Rand, depth int) Inner {
	in := Inner{A: int16(genInt(r, 16)), B: genString(r), C: genBytes(r)}
	if depth > 0 && r.Intn(2) == 0 {
		d := genInner(r, depth-1)
		in.D = &d
	}
	return in
}

// genSubject: maxKeys bounds the number of keys per map (1 in the model stream, because cbor and msgpack
// serialise Go maps in iteration order, which would make the payload bytes non-deterministic).
func genSubject(r *rand.Rand, maxKeys int) *Subject {
	if r.Intn(12) == 0 {
		return &Subject{} // everything empty / nil
	}
	s := &Subject{
		I: int(genInt(r, 64)), I8: int8(genInt(r, 8)), I16: int16(genInt(r, 16)), I32: int32(genInt(r, 32)), I64: genInt(r, 64),
		U: uint(genUint(r, 64)), U8: uint8(genUint(r, 8)), U16: uint16(genUint(r, 16)), U32: uint32(genUint(r, 32)), U64: genUint(r, 64),
		T: r.Intn(2) == 0, S: genString(r), Sa: genStrings(r), B: byte(r.Intn(256)), Ba: genBytes(r), M: genMap(r, maxKeys),
		N: genInner(r, 2),
	}
	if r.Intn(2) == 0 {
		x := genString(r)
		s.Sp = &x
	}
	if r.Intn(2) == 0 {
		x := genStrings(r)
		s.Sap = &x
	}
	if r.Intn(2) == 0 {
		x := byte(r.Intn(256))
		s.Bp = &x
	}
	if r.Intn(2) == 0 {
		x := genBytes(r)
		s.Bap = &x
	}
	if r.Intn(2) == 0 {
		x := genMap(r, maxKeys)
		s.Mp = &x
	}
	switch r.Intn(4) {
	case 0:
		s.Mi = map[string]int64{}
	case 1:
		s.Mi = map[string]int64{genString(r): genInt(r, 64)}
		if maxKeys > 1 {
			for i := 0; i < r.Intn(maxKeys); i++ {
				s.Mi[genString(r)] = genInt(r, 64)
			}
		}
	}
	if r.Intn(2) == 0 {
		x := genInner(r, 2)
		s.Np = &x
	}
	switch r.Intn(4) {
	case 0:
		s.Ns = []Inner{}
	case 1, 2:
		for i := 0; i < 1+r.Intn(3); i++ {
			s.Ns = append(s.Ns, genInner(r, 1))
		}
	}
	return s
}

func genGSubject(r *rand.Rand) *GSubject {
	if r.Intn(10) == 0 {
		return &GSubject{}
	}
	return &GSubject{S: genString(r), B: byte(r.Intn(256)), N: uint32(genUint(r, 32)), Ba: genBytes(r), I: genInt(r, 64)}
}

// transport encoding of a value on a `val` line: encoding/json (exact for the schema; nil-ness is preserved).
func valueJSON(tag string, v any) []byte {
	if tag == "U" {
		return []byte("{}")
	}
	b, err := json.Marshal(v)
	if err != nil {
		panic(err)
	}
	return b
}

func parseValue(tag string, js []byte) (any, error) {
	t := newTarget(tag)
	if tag == "U" {
		return t, nil
	}
	if err := json.Unmarshal(js, t); err != nil {
		return nil, err
	}
	return t, nil
}
