// hx-c09: correspondence harness and property monitor for C09 (formats/dsd).
package main

import (
	"bytes"
	"encoding/json"
	"fmt"
	"io"
	"math/rand"
	"os"
	"runtime/debug"
	"runtime/pprof"
	"strconv"
	"strings"
	"unicode"

	"github.com/safing/portbase/formats/dsd"

	"verifharness/hxlib"
)

func jsonMarshalIndent(v any, indent string) ([]byte, error) {
	return json.MarshalIndent(v, "", indent)
}

var fmtName = map[uint8]string{dsd.AUTO: "AUTO", dsd.RAW: "RAW", dsd.CBOR: "CBOR", dsd.GenCode: "GenCode", dsd.JSON: "JSON",
	dsd.MsgPack: "MsgPack", dsd.YAML: "YAML", dsd.GZIP: "GZIP", dsd.LIST: "LIST"}

func fname(f uint8) string {
	if n, ok := fmtName[f]; ok {
		return n
	}
	return "other"
}

// libOfFormat: which third-party codec a serialization format id stands for (independent of dsd's switches).
var libOfFormat = map[uint8]string{dsd.JSON: "json", dsd.YAML: "yaml", dsd.CBOR: "cbor", dsd.MsgPack: "msgpack", dsd.GenCode: "gencode"}

// libOfSubtype: which codec a media subtype names (the registered names; independent of dsd's maps).
var libOfSubtype = map[string]string{"json": "json", "yaml": "yaml", "yml": "yaml", "cbor": "cbor", "msgpack": "msgpack"}

var formatOfLib = map[string]uint8{"json": dsd.JSON, "yaml": dsd.YAML, "cbor": dsd.CBOR, "msgpack": dsd.MsgPack, "gencode": dsd.GenCode}

// ---- Accept / Content-Type headers: an independent reading of RFC 9110 §12.5.1 / §8.3.1 ------------------------
//
//	Accept      = #( media-range [ weight ] )          elements separated by "," with optional whitespace (SP / HTAB)
//	media-range = ( "*/*" / type "/" "*" / type "/" subtype ) *( ";" OWS parameter )
//
// An element *names a supported format* if its subtype is, ASCII-case-insensitively, a registered name of one of
// the four codecs; it is a wildcard if the media range is "*/*", "type/*" or the bare "*" the package documents.
// Whitespace between the media range and ";" is NOT accepted here: the package's own test pins
// `"yaml ;charset"` as "Invalid mimetype format", so demanding it would demand more than the package promises.
type acceptReading struct {
	named    []string // codecs named, in order
	wildcard bool
}

func isToken(s string) bool {
	if s == "" {
		return false
	}
	for i := 0; i < len(s); i++ {
		c := s[i]
		if c <= 32 || c >= 127 || strings.IndexByte("()<>@,;:\\\"/[]?={}", c) >= 0 {
			return false
		}
	}
	return true
}

func readAccept(h string) (ar acceptReading) {
	for _, el := range strings.Split(h, ",") {
		el = strings.Trim(el, " \t")
		mr, _, _ := strings.Cut(el, ";")
		if mr == "*" {
			ar.wildcard = true
			continue
		}
		typ, sub, ok := strings.Cut(mr, "/")
		if !ok || !isToken(typ) || !isToken(sub) {
			continue
		}
		if sub == "*" {
			ar.wildcard = true
			continue
		}
		if l, ok := libOfSubtype[asciiLower(sub)]; ok {
			ar.named = append(ar.named, l)
		}
	}
	return ar
}

// validHeaderValue: what net/http transmits unchanged (no control characters; surrounding whitespace is trimmed
// by the transport, which does not change what the header names).
func validHeaderValue(s string) bool {
	for i := 0; i < len(s); i++ {
		if c := s[i]; (c < 32 && c != '\t') || c == 127 {
			return false
		}
	}
	return true
}

func asciiLower(s string) string {
	b := []byte(s)
	for i, c := range b {
		if c >= 'A' && c <= 'Z' {
			b[i] = c + 32
		}
	}
	return string(b)
}

// contentTypeLib: the codec a Content-Type value names (type "/" subtype, optional parameters), or "".
func contentTypeLib(ct string) string {
	ar := readAccept(ct)
	if strings.Contains(ct, ",") || len(ar.named) != 1 {
		return ""
	}
	return ar.named[0]
}

// ---- monitor: the property statement read literally -----------------------------------------------------------------

type monState struct {
	tag string
	val any
	id  string
	rep map[string]bool // lib -> value representable in that codec (the codec's own round trip works)
}

func (m *monState) representable(lib string) bool {
	if m.val == nil {
		return false
	}
	if r, ok := m.rep[lib]; ok {
		return r
	}
	_, ok := representable(lib, m.tag, m.val)
	m.rep[lib] = ok
	return ok
}

// resolveWith: the format AUTO stands for when DefaultSerializationFormat = def (the monitor and the generator
// track the variable from the `cfg` lines of the case; they never read it from the package while a case runs).
func resolveWith(def, f uint8) uint8 {
	if f == dsd.AUTO {
		return def
	}
	return f
}

// hasMediaType: formats that can be named in a Content-Type at all (registered media types of the four codecs).
func hasMediaType(f uint8) bool {
	return f == dsd.JSON || f == dsd.CBOR || f == dsd.MsgPack || f == dsd.YAML
}

var contractFailures, contractSamples int
var contractByLib = map[string]int{}
var contractExample = map[string]string{}

func monitor(c hxlib.Case, outs []string) (vs []hxlib.Violation) {
	st := &monState{rep: map[string]bool{}}
	// the two package variables, as assigned by the `cfg` lines of the case
	curSer, curComp := initSer, initComp
	add := func(i int, sig, what string) {
		lo := i
		for lo > 0 && !strings.HasPrefix(c.Lines[lo], "val ") {
			lo--
		}
		var lines, o []string
		for j := 0; j < lo; j++ {
			if strings.HasPrefix(c.Lines[j], "cfg ") { // assignments of the package variables are part of the input
				lines, o = append(lines, c.Lines[j]), append(o, outs[j])
			}
		}
		for j := lo; j <= i; j++ {
			// keep the value, the facts and the ops that lead to the failing one (facts are needed by the model on replay)
			w := strings.SplitN(c.Lines[j], " ", 2)[0]
			switch w {
			case "val", "enc", "enci", "raw", "cd", "gz", "gun", "gze", "cfg":
				lines, o = append(lines, c.Lines[j]), append(o, outs[j])
			default:
				if j >= i-3 {
					lines, o = append(lines, c.Lines[j]), append(o, outs[j])
				}
			}
		}
		vs = append(vs, hxlib.Violation{Sig: sig, What: what, Lines: lines, Output: o})
	}
	// the whole history up to op i (held results, concurrency: the earlier ops are the input)
	addFull := func(i int, sig, what string) {
		vs = append(vs, hxlib.Violation{Sig: sig, What: what, Lines: append([]string{}, c.Lines[:i+1]...), Output: append([]string{}, outs[:i+1]...)})
	}
	// expectation for the next `load @` / `loadreq` / `loadresp` / `mimeload @t @m` line, and for every later `held`
	type pend struct {
		sig    string
		format uint8
		raw    bool
		what   string
		id     string // the dumped value
		at     int    // op index of the dump
		failed bool   // already reported by the load that followed the dump
	}
	var pendLoad, pendReq, pendResp, pendMime *pend
	wantLoad := func(p *pend) string {
		if p.raw {
			return fmt.Sprintf("%d err israw", dsd.RAW)
		}
		return fmt.Sprintf("%d ok %s", p.format, p.id)
	}
	checkLoad := func(i int, p *pend) {
		o := outs[i]
		if p.raw {
			if want := wantLoad(p); o != want {
				p.failed = true
				add(i, p.sig, fmt.Sprintf("%s: loading reports %q, want %q (format RAW reported through ErrIsRaw)", p.what, o, want))
			}
			return
		}
		if want := wantLoad(p); o != want {
			p.failed = true
			add(i, p.sig, fmt.Sprintf("%s: loading gives %q, want %q (format %s and a value equal to the dumped one)", p.what, o, want, fname(p.format)))
		}
	}
	// results held for later `held` ops: one entry per successful dump, in the executor's order and with its cap;
	// nil = no demand on that entry
	var heldExp []*pend
	pushHeld := func(p *pend) {
		heldExp = append(heldExp, p)
		if len(heldExp) > heldCap {
			heldExp = heldExp[1:]
		}
	}
	resolveFormat := func(f uint8) uint8 { return resolveWith(curSer, f) }
	// wildcardOK: a wildcard / missing Accept header is answered in the default format, which must be one that a
	// Content-Type can name
	wildcardOK := func() bool { return hasMediaType(curSer) }
	// namesEncoding: the content type names the encoding actually used, i.e. the body decodes with the codec the
	// content type names to a value equal to the dumped one.
	namesEncoding := func(i int, sig, ct string, body []byte) (lib string, ok bool) {
		lib = contentTypeLib(ct)
		if lib == "" {
			add(i, sig, fmt.Sprintf("content type %q does not name a supported encoding", ct))
			return "", false
		}
		t := newTarget(st.tag)
		if err := libUnmarshal(lib, body, t); err != nil || vid(t) != st.id {
			add(i, sig, fmt.Sprintf("content type %q names %s, but the body is not the %s encoding of the dumped value", ct, lib, lib))
			return lib, false
		}
		return lib, true
	}
	kv := func(o, key string) (string, bool) {
		for _, w := range strings.Fields(o) {
			if strings.HasPrefix(w, key+"=") {
				return w[len(key)+1:], true
			}
		}
		return "", false
	}
	var reqAccept string // Accept header of the current request ("" if none)
	var reqAcceptSet bool
	for i, l := range c.Lines {
		f := strings.Fields(l)
		o := outs[i]
		if strings.HasPrefix(o, "PANIC") {
			add(i, "C09:panic:"+f[0], "panic: "+o)
			continue
		}
		switch f[0] {
		case "cfg":
			if a, ok := parseU8(f[1]); ok {
				curSer = a
			}
			if b, ok := parseU8(f[2]); ok {
				curComp = b
			}
		case "held":
			parts := strings.Split(o, " | ")
			if o == "none" || len(parts) != len(heldExp) {
				break
			}
			for k, part := range parts {
				p := heldExp[k]
				if p == nil || p.failed {
					continue
				}
				_, res, _ := strings.Cut(part, " ") // the first word (same / changed) is compared with the model, not demanded here
				if want := wantLoad(p); res != want {
					addFull(i, "C09:held:"+strings.TrimPrefix(p.sig, "C09:"), fmt.Sprintf("%s (op %d) succeeded and its result was kept; after %d further operations loading that result gives %q, want %q (an equal value and the format it was dumped in)", p.what, p.at, i-p.at-1, res, want))
					heldExp[k] = nil
				}
			}
		case "par":
			vs = append(vs, monitorPar(i, c, f, o, curSer, curComp)...)
		case "val":
			st = &monState{rep: map[string]bool{}}
			if v, err := parseValue(f[1], hxlib.UnHex(f[2])); err == nil {
				st.tag, st.val, st.id = f[1], v, vid(v)
			}
			pendLoad, pendReq, pendResp, pendMime = nil, nil, nil, nil
		case "dump", "dumpi", "dac":
			pendLoad = nil
			if st.val == nil {
				break
			}
			fm, ok := parseU8(f[1])
			if !ok {
				break
			}
			what := "Dump(v, " + fname(fm) + ")"
			sig := "C09:roundtrip:dump:" + fname(fm)
			if f[0] == "dumpi" {
				what = "DumpIndent(v, " + fname(fm) + ", indent)"
				sig = "C09:roundtrip:dumpindent:" + fname(fm)
			}
			if f[0] == "dac" {
				cm, ok := parseU8(f[2])
				if !ok || (cm != dsd.GZIP && cm != dsd.AUTO) || (cm == dsd.AUTO && curComp != dsd.GZIP) {
					break // not a supported compression (or AUTO while the default is none): no demand
				}
				what = "DumpAndCompress(v, " + fname(fm) + ", " + fname(cm) + ")"
				sig = "C09:roundtrip:compress:" + fname(fm) + ":" + fname(cm)
			}
			rf := resolveFormat(fm)
			switch {
			case rf == dsd.RAW:
				if st.tag != "B" {
					break // not a RAW value
				}
				if !strings.HasPrefix(o, "ok ") {
					add(i, sig, what+" of a byte slice failed: "+o)
					break
				}
				pendLoad = &pend{sig: sig, raw: true, what: what, id: st.id, at: i}
				if f[0] != "dac" {
					blob := hxlib.UnHex(strings.Fields(o)[1])
					if len(blob) < 1 || !bytes.Equal(blob[1:], *(st.val.(*[]byte))) {
						add(i, sig, what+": the bytes after the identifier are not the dumped bytes")
					}
				}
			case libOfFormat[rf] != "":
				contractSamples++
				if f[0] == "dumpi" && libOfFormat[rf] == "json" {
					// indentation "if available": an indent that is not JSON whitespace does not produce JSON
					p, err := jsonMarshalIndent(dumpArg(st.tag, st.val), string(hxlib.UnHex(f[2])))
					t := newTarget(st.tag)
					if err != nil || libUnmarshal("json", p, t) != nil || vid(t) != st.id {
						break
					}
				}
				if !st.representable(libOfFormat[rf]) {
					contractFailures++
					contractByLib[libOfFormat[rf]+":"+st.tag]++
					if _, ok := contractExample[libOfFormat[rf]+":"+st.tag]; !ok {
						contractExample[libOfFormat[rf]+":"+st.tag] = string(valueJSON(st.tag, st.val))
					}
					break // value not representable in this format: no demand
				}
				if !strings.HasPrefix(o, "ok ") {
					add(i, sig, what+" of a representable value failed: "+o)
					break
				}
				pendLoad = &pend{sig: sig, format: rf, what: what, id: st.id, at: i}
			}
		case "load":
			if f[1] == "@" && pendLoad != nil {
				checkLoad(i, pendLoad)
			}
		case "newreq":
			reqAccept, reqAcceptSet = "", false
			pendReq, pendResp = nil, nil
		case "setreq":
			reqAcceptSet = f[1] != "nil"
			reqAccept = ""
			if reqAcceptSet {
				reqAccept = string(hxlib.UnHex(f[1]))
			}
			pendReq, pendResp = nil, nil
		case "req":
			pendReq = nil
			if st.val == nil {
				break
			}
			fm, ok := parseU8(f[1])
			if !ok {
				break
			}
			sig := "C09:http-request:" + fname(fm)
			if a, ok := kv(o, "a"); ok && a != "nil" {
				reqAccept, reqAcceptSet = string(hxlib.UnHex(a)), true
			}
			lib, supported := libOfFormat[fm]
			supported = supported && lib != "gencode"
			if strings.HasPrefix(o, "err ") {
				if supported && st.representable(lib) {
					add(i, sig, "DumpToHTTPRequest(v, "+fname(fm)+") of a representable value failed: "+o)
				}
				break
			}
			// data was dumped into the request: the content type must name the encoding actually used
			ct, _ := kv(o, "ct")
			body, _ := kv(o, "body")
			if ct == "nil" || body == "nil" {
				add(i, sig, "DumpToHTTPRequest succeeded without content type / body: "+o)
				break
			}
			if supported && !st.representable(lib) {
				break
			}
			if l, ok := namesEncoding(i, sig, string(hxlib.UnHex(ct)), hxlib.UnHex(body)); ok {
				if supported && l != lib {
					add(i, sig, "DumpToHTTPRequest(v, "+fname(fm)+") used the "+l+" encoding")
				}
				pendReq = &pend{sig: sig, format: formatOfLib[l], what: "DumpToHTTPRequest(v, " + fname(fm) + ")", id: st.id, at: i}
			}
		case "loadreq":
			if pendReq != nil {
				checkLoad(i, pendReq)
			}
		case "resp":
			pendResp = nil
			if st.val == nil {
				break
			}
			sig := "C09:http-response"
			ar := readAccept(reqAccept)
			demanded := reqAcceptSet && (len(ar.named) > 0 || (ar.wildcard && wildcardOK()))
			// every codec the header could be answered with must be able to represent the value
			allRep := st.representable("json") && st.representable("yaml") && st.representable("cbor") && st.representable("msgpack")
			if strings.HasPrefix(o, "err ") {
				if demanded && allRep {
					add(i, sig, fmt.Sprintf("DumpToHTTPResponse failed (%s) although Accept %q names a supported format or a wildcard", o, reqAccept))
				}
				break
			}
			if !allRep {
				break
			}
			ct, _ := kv(o, "ct")
			body, _ := kv(o, "body")
			if ct == "nil" {
				add(i, sig, "DumpToHTTPResponse wrote a body without content type")
				break
			}
			if l, ok := namesEncoding(i, sig, string(hxlib.UnHex(ct)), hxlib.UnHex(body)); ok {
				pendResp = &pend{sig: sig, format: formatOfLib[l], what: fmt.Sprintf("DumpToHTTPResponse for Accept %q", reqAccept), id: st.id, at: i}
			}
		case "loadresp":
			if pendResp != nil {
				checkLoad(i, pendResp)
			}
		case "setresp":
			pendResp = nil
		case "mimedump":
			pendMime = nil
			if st.val == nil {
				break
			}
			sig := "C09:mimedump"
			accept := string(hxlib.UnHex(f[1]))
			ar := readAccept(accept)
			allRep := st.representable("json") && st.representable("yaml") && st.representable("cbor") && st.representable("msgpack")
			if strings.HasPrefix(o, "err ") {
				if (len(ar.named) > 0 || (ar.wildcard && wildcardOK())) && allRep {
					add(i, sig, fmt.Sprintf("MimeDump failed (%s) although Accept %q names a supported format or a wildcard", o, accept))
				}
				break
			}
			if !allRep {
				break
			}
			of := strings.Fields(o)
			if len(of) != 4 {
				break
			}
			if l, ok := namesEncoding(i, sig, string(hxlib.UnHex(of[2])), hxlib.UnHex(of[3])); ok {
				if of[1] != strconv.Itoa(int(formatOfLib[l])) {
					add(i, sig, "MimeDump reports format "+of[1]+" but used the "+l+" encoding")
				}
				pendMime = &pend{sig: sig, format: formatOfLib[l], what: fmt.Sprintf("MimeDump for Accept %q", accept), id: st.id, at: i}
			}
		case "mimeload":
			if f[1] == "@t" && f[2] == "@m" && pendMime != nil {
				checkLoad(i, pendMime)
			}
		case "wire", "wirea":
			if st.val == nil {
				break
			}
			allRep := st.representable("json") && st.representable("yaml") && st.representable("cbor") && st.representable("msgpack")
			if !allRep {
				break
			}
			of := strings.Fields(o)
			okOut := len(of) == 4 && of[1] == "ok" && strings.HasPrefix(of[3], "ct=")
			if f[0] == "wire" {
				fm, _ := parseU8(f[1])
				lib, supported := libOfFormat[fm]
				if !supported || lib == "gencode" {
					if !okOut {
						break // refused: nothing was sent
					}
				}
				sig := "C09:http-wire:" + fname(fm)
				if !okOut || of[2] != st.id {
					add(i, sig, "request in "+fname(fm)+" echoed by a server over a real connection: client gets "+o+", want a value equal to the dumped one")
					break
				}
				if supported && of[0] != strconv.Itoa(int(fm)) {
					add(i, sig, "request in "+fname(fm)+": the response came back in format "+of[0])
				}
				if l := contentTypeLib(string(hxlib.UnHex(of[3][3:]))); l == "" || strconv.Itoa(int(formatOfLib[l])) != of[0] {
					add(i, sig, "response content type "+string(hxlib.UnHex(of[3][3:]))+" does not name the format loaded ("+of[0]+")")
				}
			} else {
				accept := string(hxlib.UnHex(f[1]))
				ar := readAccept(accept)
				sig := "C09:http-wire:accept"
				if okOut {
					if of[2] != st.id {
						add(i, sig, fmt.Sprintf("Accept %q over a real connection: client gets %s, want a value equal to the dumped one", accept, o))
					}
					break
				}
				if (len(ar.named) > 0 || (ar.wildcard && wildcardOK())) && validHeaderValue(accept) && o != "err transport" {
					add(i, sig, fmt.Sprintf("Accept %q names a supported format or a wildcard, but over a real connection the client gets %s", accept, o))
				}
			}
		}
		// every successful dump is held (same rule as the executor and the model driver)
		if strings.HasPrefix(o, "ok ") {
			switch f[0] {
			case "dump", "dumpi", "dac":
				pushHeld(pendLoad)
			case "mimedump":
				pushHeld(pendMime)
			case "req":
				ct, _ := kv(o, "ct")
				body, _ := kv(o, "body")
				if ct != "nil" && body != "nil" {
					pushHeld(pendReq)
				}
			case "resp":
				if ct, _ := kv(o, "ct"); ct != "nil" {
					pushHeld(pendResp)
				}
			}
		}
	}
	return vs
}

// monitorPar: `par <rounds> <tag> <items> <valhex>...` — goroutine g dumped value g with every item `rounds` times
// while the other goroutines did the same with their values; all results were loaded afterwards. Each must load to
// the goroutine's own value and the format it was dumped in.
func monitorPar(i int, c hxlib.Case, f []string, o string, curSer, curComp uint8) (vs []hxlib.Violation) {
	if len(f) < 5 {
		return nil
	}
	tag, items := f[2], strings.Split(f[3], ",")
	parts := strings.Split(o, " | ")
	if len(parts) != len(items)*len(f[4:]) {
		return nil
	}
	bad := func(sig, what string) {
		vs = append(vs, hxlib.Violation{Sig: sig, What: what, Lines: append([]string{}, c.Lines[:i+1]...), Output: []string{o}})
	}
	for g, h := range f[4:] {
		v, err := parseValue(tag, hxlib.UnHex(h))
		if err != nil {
			return nil
		}
		id := vid(v)
		rep := map[string]bool{}
		representableIn := func(lib string) bool {
			if r, ok := rep[lib]; ok {
				return r
			}
			_, ok := representable(lib, tag, v)
			rep[lib] = ok
			return ok
		}
		for k, it := range items {
			got := strings.TrimPrefix(parts[g*len(items)+k], fmt.Sprintf("g%d.%d ", g, k))
			switch it[0] {
			case 'd', 'c':
				spec, sig := it[1:], "C09:concurrent:dump:"
				if it[0] == 'c' {
					a, b, _ := strings.Cut(spec, ".")
					cm, ok := parseU8(b)
					if !ok || (cm != dsd.GZIP && cm != dsd.AUTO) || (cm == dsd.AUTO && curComp != dsd.GZIP) {
						continue
					}
					spec, sig = a, "C09:concurrent:compress:"
				}
				fm, ok := parseU8(spec)
				if !ok {
					continue
				}
				rf := resolveWith(curSer, fm)
				var want string
				switch {
				case rf == dsd.RAW && tag == "B":
					want = fmt.Sprintf("%d err israw", dsd.RAW)
				case libOfFormat[rf] != "" && representableIn(libOfFormat[rf]):
					want = fmt.Sprintf("%d ok %s", rf, id)
				default:
					continue
				}
				if got != want {
					bad(sig+fname(fm), fmt.Sprintf("goroutine %d dumped its value with item %s %s times while %d other goroutines dumped theirs; loading its results afterwards gives {%s}, want only %q", g, it, f[1], len(f[4:])-1, got, want))
				}
			case 'm':
				accept := string(hxlib.UnHex(it[1:]))
				ar := readAccept(accept)
				allRep := representableIn("json") && representableIn("yaml") && representableIn("cbor") && representableIn("msgpack")
				if !allRep {
					continue
				}
				if strings.HasPrefix(got, "err ") && !strings.Contains(got, " / ") {
					if len(ar.named) > 0 || (ar.wildcard && hasMediaType(curSer)) {
						bad("C09:concurrent:mimedump", fmt.Sprintf("goroutine %d: MimeDump for Accept %q failed (%s) under concurrency", g, accept, got))
					}
					continue
				}
				w := strings.Fields(got)
				okShape := len(w) == 4 && w[1] == "ok" && w[2] == id && strings.HasPrefix(w[3], "ct=")
				if okShape {
					l := contentTypeLib(string(hxlib.UnHex(w[3][3:])))
					okShape = l != "" && strconv.Itoa(int(formatOfLib[l])) == w[0]
				}
				if !okShape {
					bad("C09:concurrent:mimedump", fmt.Sprintf("goroutine %d called MimeDump for Accept %q %s times while %d other goroutines dumped their values; loading the results with the returned mime type gives {%s}, want one result: the format the mime type names and a value equal to the dumped one (%s)", g, accept, f[1], len(f[4:])-1, got, id))
				}
			}
		}
	}
	return vs
}

// ---- generator ----------------------------------------------------------------------------------------------------------------

type gen struct {
	r    *hxlib.Run
	rng  *rand.Rand
	emit func(hxlib.Case)
	// the generator's own record of the two package variables within the case being built (set by cfgLine)
	ser, comp uint8
}

// Values of the two package variables: formats of the property, and (rarely) values that are none.
var serDefaults = []uint8{dsd.JSON, dsd.CBOR, dsd.MsgPack, dsd.YAML, dsd.CBOR, dsd.MsgPack, dsd.YAML, dsd.GenCode, dsd.RAW}
var oddSerDefaults = []uint8{dsd.AUTO, dsd.GZIP, dsd.LIST, 2, 255}
var oddCompDefaults = []uint8{dsd.AUTO, dsd.JSON, dsd.LIST, 91}

// cfgLine assigns the package variables for the rest of the case (the executor restores the initial values when
// the case ends). share = one in how many cases leaves them as initialised.
func (g *gen) cfgLine(force bool) []string {
	g.ser, g.comp = initSer, initComp
	if !force && g.rng.Intn(3) != 0 {
		g.r.Count("cfg:initial")
		return nil
	}
	return g.recfg()
}

// recfg: a (re)assignment in the middle of a case.
func (g *gen) recfg() []string {
	g.ser = serDefaults[g.rng.Intn(len(serDefaults))]
	if g.rng.Intn(12) == 0 {
		g.ser = oddSerDefaults[g.rng.Intn(len(oddSerDefaults))]
	}
	g.comp = dsd.GZIP
	if g.rng.Intn(10) == 0 {
		g.comp = oddCompDefaults[g.rng.Intn(len(oddCompDefaults))]
	}
	g.r.Count("cfg:default-serialization:" + fname(g.ser))
	g.r.Count("cfg:default-compression:" + fname(g.comp))
	return []string{fmt.Sprintf("cfg %d %d", g.ser, g.comp)}
}

func (g *gen) resolve(fm uint8) uint8 { return resolveWith(g.ser, fm) }

// ownDump: the blob Dump(v, fm) is expected to produce under the generator's record of the default, built from
// the codec's payload without calling dsd (the generator never calls the package under test: a call made while
// generating could hide or change history-dependent behaviour). Only used to prepare gzip facts and mutation
// seeds; if the package writes something else, the model reports the missing fact.
func (g *gen) ownDump(tag string, v any, fm uint8, payload map[string][]byte) []byte {
	rf := g.resolve(fm)
	if rf == dsd.RAW {
		if tag != "B" {
			return nil
		}
		return append([]byte{dsd.RAW}, *(v.(*[]byte))...)
	}
	lib := libOfFormat[rf]
	if lib == "" || payload[lib] == nil {
		return nil
	}
	return append([]byte{rf}, payload[lib]...)
}

// compressionOf: the compression DumpAndCompress(…, comp) uses under the generator's record (0 = refused).
func (g *gen) compressionOf(comp uint8) uint8 {
	if comp == dsd.AUTO {
		comp = g.comp
	}
	if comp == dsd.GZIP {
		return dsd.GZIP
	}
	return 0
}

func hexs(s string) string { return hxlib.Hex([]byte(s)) }

// valueLines: `val` + the codec facts of the value (real libraries): payload per codec, decode of each payload.
func (g *gen) valueLines(tag string, v any) (lines []string, payload map[string][]byte) {
	payload = map[string][]byte{}
	lines = append(lines, "val "+tag+" "+hxlib.Hex(valueJSON(tag, v)))
	if tag == "B" {
		lines = append(lines, "raw "+hxlib.Hex(*(v.(*[]byte))))
	}
	// an empty payload (a request without body, a load before anything was dumped) under a default format whose
	// codec accepts it (yaml does)
	lines = append(lines, g.decFacts(tag, nil, libs)...)
	for _, lib := range libs {
		p, err := libMarshal(lib, dumpArg(tag, v))
		if err != nil {
			g.r.Count("codec-marshal-error:" + lib)
			continue
		}
		payload[lib] = p
		lines = append(lines, "enc "+lib+" "+hxlib.Hex(p))
		lines = append(lines, g.decFacts(tag, p, []string{lib})...)
	}
	return lines, payload
}

// decFacts: for every given codec that really decodes `p` into a fresh value of the case's type: a `cd` fact.
func (g *gen) decFacts(tag string, p []byte, which []string) (lines []string) {
	for _, lib := range which {
		t := newTarget(tag)
		if err := libUnmarshal(lib, p, t); err == nil {
			lines = append(lines, "cd "+lib+" "+hxlib.Hex(p)+" "+vid(t))
		}
	}
	return lines
}

// closureFacts: everything the real libraries can do with an arbitrary blob on any path the framing could take:
// gunzip of the blob minus 1 or 2 identifier bytes; every codec on the (plain / decompressed) blob minus 1 or 2
// identifier bytes, and on the blob itself (LoadAsFormat / MimeLoad get the payload directly).
func (g *gen) closureFacts(tag string, blob []byte, seen map[string]bool) (lines []string) {
	addDec := func(p []byte) {
		k := "d" + string(p)
		if seen[k] {
			return
		}
		seen[k] = true
		lines = append(lines, g.decFacts(tag, p, libs)...)
	}
	plains := [][]byte{blob}
	for off := 0; off <= 2 && off <= len(blob); off++ {
		z := blob[off:]
		k := "z" + string(z)
		if seen[k] {
			continue
		}
		seen[k] = true
		p, err := gunzipBytes(z)
		switch {
		case err == nil:
			lines = append(lines, "gun "+hxlib.Hex(z)+" "+hxlib.Hex(p))
			plains = append(plains, p)
			g.r.Count("closure:gunzip-ok")
		case err == io.ErrUnexpectedEOF: //nolint:errorlint
			lines = append(lines, "gze "+hxlib.Hex(z))
			g.r.Count("closure:gunzip-eof")
		}
	}
	for _, p := range plains {
		for off := 0; off <= 2 && off <= len(p); off++ {
			addDec(p[off:])
		}
	}
	return lines
}

// gunzipFact: what compress/gzip really does with z (nothing to say if it fails with another error than EOF).
func (g *gen) gunzipFact(z []byte) []string {
	p, err := gunzipBytes(z)
	switch {
	case err == nil:
		return []string{"gun " + hxlib.Hex(z) + " " + hxlib.Hex(p)}
	case err == io.ErrUnexpectedEOF: //nolint:errorlint
		return []string{"gze " + hxlib.Hex(z)}
	}
	return nil
}

var dumpFormats = []uint8{dsd.AUTO, dsd.RAW, dsd.CBOR, dsd.GenCode, dsd.JSON, dsd.MsgPack, dsd.YAML}
var otherFormats = []uint8{dsd.GZIP, dsd.LIST, 2, 66, 75, 91, 127, 128, 129, 202, 255}
var compFormats = []uint8{dsd.AUTO, dsd.GZIP}
var otherComps = []uint8{dsd.JSON, dsd.RAW, dsd.LIST, 91, 255}
var indents = []string{" ", "  ", "\t", "xy", "é"}

func (g *gen) pickValue(maxKeys int) (string, any) {
	switch g.rng.Intn(10) {
	case 0, 1:
		return "G", genGSubject(g.rng)
	case 2:
		b := genBytes(g.rng)
		return "B", &b
	case 3:
		if g.rng.Intn(4) == 0 {
			return "U", &USubject{C: make(chan int)}
		}
		b := genBytes(g.rng)
		return "B", &b
	default:
		return "S", genSubject(g.rng, maxKeys)
	}
}

// roundtripCase: one value through Dump / DumpIndent / DumpAndCompress × formats × compressions and back through
// Load / DecompressAndLoad / LoadAsFormat.
func (g *gen) roundtripCase(tag string, v any, noModel bool, kind string) {
	lines := g.cfgLine(false)
	vl, payload := g.valueLines(tag, v)
	lines = append(lines, vl...)
	var cur []byte // the generator's record of the last dumped blob (`@`)
	fmts := append([]uint8{}, dumpFormats...)
	fmts = append(fmts, otherFormats[g.rng.Intn(len(otherFormats))])
	g.rng.Shuffle(len(fmts), func(i, j int) { fmts[i], fmts[j] = fmts[j], fmts[i] })
	arg := dumpArg(tag, v)
	for _, fm := range fmts {
		g.r.Count("dump-format:" + fname(fm))
		lines = append(lines, fmt.Sprintf("dump %d", fm), "load @")
		plain := g.ownDump(tag, v, fm, payload)
		if plain != nil {
			cur = plain
		}
		if lib := libOfFormat[g.resolve(fm)]; lib != "" && payload[lib] != nil {
			lines = append(lines, fmt.Sprintf("laf %d %s", g.resolve(fm), hxlib.Hex(payload[lib])))
		}
		// compression (for about half of the formats of a case): the gzip facts are computed from what the real
		// Dump returns
		if g.rng.Intn(2) == 0 {
			continue
		}
		comp := compFormats[g.rng.Intn(len(compFormats))]
		if g.rng.Intn(6) == 0 {
			comp = otherComps[g.rng.Intn(len(otherComps))]
		}
		g.r.Count("compression:" + fname(comp))
		if plain != nil {
			z := gzipBytes(plain)
			lines = append(lines, "gz "+hxlib.Hex(plain)+" "+hxlib.Hex(z))
			if g.compressionOf(comp) == dsd.GZIP {
				cur = append([]byte{dsd.GZIP}, z...)
			}
		}
		lines = append(lines, fmt.Sprintf("dac %d %d", fm, comp), "load @")
		if g.rng.Intn(2) == 0 && len(cur) > 0 {
			// DecompressAndLoad directly, on what follows the identifier (gzip data, or a plain payload)
			lines = append(lines, g.gunzipFact(cur[1:])...)
			lines = append(lines, fmt.Sprintf("dal %d @1", []uint8{dsd.GZIP, dsd.AUTO, dsd.JSON, 91}[g.rng.Intn(4)]))
		}
		if g.rng.Intn(12) == 0 {
			// the variables are assigned in the middle: later dumps follow the new values, earlier results stay loadable
			lines = append(lines, g.recfg()...)
		}
	}
	if payload["json"] != nil {
		ind := indents[g.rng.Intn(len(indents))]
		if p, err := jsonMarshalIndent(arg, ind); err == nil {
			lines = append(lines, "enci "+hexs(ind)+" "+hxlib.Hex(p))
			lines = append(lines, g.decFacts(tag, p, []string{"json"})...)
			for _, fm := range []uint8{dsd.JSON, dsd.AUTO, dsd.CBOR} {
				lines = append(lines, fmt.Sprintf("dumpi %d %s", fm, hexs(ind)), "load @")
			}
		}
	}
	// every result of the case (the last 16) once more, after everything else that was done
	if g.rng.Intn(4) == 0 {
		lines = append(lines, g.recfg()...)
	}
	lines = append(lines, "held")
	g.emit(hxlib.Case{Lines: lines, NonTrivial: tag != "U", Kind: kind + ":" + tag, NoModel: noModel})
}

// ---- Accept header grammar ------------------------------------------------------------------------------------------------------

var types = []string{"application", "text", "image", "*", "APPLICATION", "x-app", ""}
var goodSubs = []string{"json", "cbor", "msgpack", "yaml", "yml"}
var badSubs = []string{"xml", "html", "webp", "x-yaml", "json5", "vnd.api+json", "jso", "yamll", "msgpac", "octet-stream", "plain", ""}
var params = []string{";q=0.9", "; q=0.5", ";charset=utf-8", "; charset=UTF-8", ";q=0", ";q=1;level=2", ";", ";v=b3", ";;", "; foo=\"a,b\"", " ;q=1", " ; q=0.1", "\t;q=1", ";json", ";/json"}
var ows = []string{"", "", "", " ", " ", "\t", "  ", " \t ", "\u00a0", "\u2003", "\u3000", "\n", "\r\n", "\u0085", "\u200b", "\v\f", "\u1680", "\u2028"}
var seps = []string{",", ",", ", ", " , ", ",,", " ,\t"}

func (g *gen) randCase(s string) string {
	mode := g.rng.Intn(6)
	if mode < 3 {
		return s
	}
	var sb strings.Builder
	for _, c := range s {
		switch {
		case mode == 3:
			sb.WriteString(strings.ToUpper(string(c)))
		case g.rng.Intn(2) == 0:
			up := strings.ToUpper(string(c))
			if mode == 5 && c == 'k' && g.rng.Intn(2) == 0 {
				up = "\u212a" // KELVIN SIGN lower-cases to k
			}
			if mode == 5 && c == 'i' && g.rng.Intn(2) == 0 {
				up = "\u0130"
			}
			sb.WriteString(up)
		default:
			sb.WriteRune(c)
		}
	}
	return sb.String()
}

func (g *gen) mediaRange() (s string, class string) {
	switch g.rng.Intn(12) {
	case 0:
		return "*/*", "wild"
	case 1:
		return "*", "wild-bare"
	case 2:
		return types[g.rng.Intn(len(types))] + "/*", "wild-sub"
	case 3, 4, 5:
		return g.randCase(types[g.rng.Intn(len(types))]) + "/" + g.randCase(goodSubs[g.rng.Intn(len(goodSubs))]), "good"
	case 6:
		return g.randCase(goodSubs[g.rng.Intn(len(goodSubs))]), "good-bare"
	case 7, 8:
		return types[g.rng.Intn(len(types))] + "/" + g.randCase(badSubs[g.rng.Intn(len(badSubs))]), "bad"
	case 9:
		return badSubs[g.rng.Intn(len(badSubs))], "bad-bare"
	case 10:
		// structural garbage around a good name
		k := goodSubs[g.rng.Intn(len(goodSubs))]
		return []string{"a/b/" + k, k + "/", "/" + k, "//" + k, k + "/x", "application /" + k, "application/ " + k, k + " x", "*" + k, k + "*", "é/" + k, k + "é"}[g.rng.Intn(12)], "garbage-good"
	default:
		n := g.rng.Intn(6)
		b := make([]rune, n)
		for i := range b {
			if g.rng.Intn(5) == 0 {
				b[i] = rune(0xa0 + g.rng.Intn(0x3000))
			} else {
				b[i] = rune(32 + g.rng.Intn(95))
			}
		}
		return string(b), "random"
	}
}

// acceptHeader: half of the headers are "clean" (media ranges with a proper type, SP/HTAB as only whitespace,
// parameters directly after the media range), the other half draws from everything, garbage included.
func (g *gen) acceptHeader() (string, bool) {
	clean := g.rng.Intn(2) == 0
	n := 1
	switch g.rng.Intn(8) {
	case 0:
		n = 0
	case 1, 2, 3:
		n = 1
	case 4, 5:
		n = 2
	default:
		n = 2 + g.rng.Intn(4)
	}
	pick := func(pool []string, k int) string {
		if clean {
			return pool[g.rng.Intn(k)]
		}
		return pool[g.rng.Intn(len(pool))]
	}
	var sb strings.Builder
	nontrivial := n >= 2
	for i := 0; i < n; i++ {
		if i > 0 {
			sb.WriteString(pick(seps, 4))
		}
		var mr, class string
		for {
			mr, class = g.mediaRange()
			if !clean || ((class == "good" || class == "bad" || class == "wild" || class == "wild-sub" || class == "wild-bare") &&
				!strings.HasPrefix(mr, "/") && !strings.HasSuffix(mr, "/") && !strings.ContainsAny(mr, "\u212a\u0130")) {
				break
			}
		}
		g.r.Count("accept-element:" + class)
		sb.WriteString(pick(ows, 6))
		sb.WriteString(mr)
		if g.rng.Intn(3) == 0 {
			p := pick(params, 8)
			sb.WriteString(p)
			nontrivial = true
			if p[0] != ';' {
				g.r.Count("accept-element:space-before-semicolon")
			}
		}
		sb.WriteString(pick(ows, 6))
	}
	if clean {
		g.r.Count("accept-style:clean")
	} else {
		g.r.Count("accept-style:dirty")
	}
	return sb.String(), nontrivial
}

// ---- long Accept headers ----------------------------------------------------------------------------------------------------
//
// The model's formatFromAccept is defined over the whole element list (formatFromAccept_spec, accept_named_after_fillers:
// any number of elements that name nothing may precede the one that decides). The generator above stops at five
// elements; these headers have 1-40, with the first element that names a supported format (or the first wildcard)
// at a chosen position, preceded only by media ranges no reading takes for a supported format or a wildcard.
var fillerTypes = []string{"application", "text", "image", "x-app", "APPLICATION", "font", "video"}
var fillerSubs = []string{"xml", "html", "webp", "x-yaml", "json5", "vnd.api+json", "jso", "yamll", "msgpac", "octet-stream", "plain",
	"xhtml+xml", "avif", "apng", "svg+xml", "woff2", "css", "signed-exchange"}
var fillerParams = []string{"", "", "", ";q=0.9", "; q=0.5", ";charset=utf-8", ";q=0", ";q=1;level=2", ";v=b3"}
var longSeps = []string{",", ",", ", ", ", ", " , ", ",\t", ",  "}

func (g *gen) fillerElement() string {
	return fillerTypes[g.rng.Intn(len(fillerTypes))] + "/" + g.randCaseASCII(fillerSubs[g.rng.Intn(len(fillerSubs))]) + fillerParams[g.rng.Intn(len(fillerParams))]
}

func (g *gen) randCaseASCII(s string) string {
	switch g.rng.Intn(6) {
	case 0:
		return strings.ToUpper(s)
	case 1:
		b := []byte(s)
		for i := range b {
			if g.rng.Intn(2) == 0 {
				b[i] = byte(unicode.ToUpper(rune(b[i])))
			}
		}
		return string(b)
	}
	return s
}

// hitElement: a media range that names a supported format (wild = false) or a wildcard, in the spellings the package
// and RFC 9110 agree on, with or without parameters.
func (g *gen) hitElement(wild bool) string {
	par := []string{"", "", ";q=0.9", "; q=0.1", ";charset=utf-8", ";q=1;level=2"}[g.rng.Intn(6)]
	if wild {
		return []string{"*/*", "*/*", "*", "text/*", "application/*"}[g.rng.Intn(5)] + par
	}
	return []string{"application", "text", "APPLICATION", "x-app"}[g.rng.Intn(4)] + "/" + g.randCaseASCII(goodSubs[g.rng.Intn(len(goodSubs))]) + par
}

// longAccept: n elements; elements 0..p-1 name nothing, element p is the first that names a supported format / is a
// wildcard (p >= n: none does), the elements after p are anything (fillers, further formats, wildcards; with
// dirty = true also everything the media-range grammar above produces). Printable ASCII + HTAB only unless dirty.
func (g *gen) longAccept(n, p int, wild, dirty bool) string {
	var sb strings.Builder
	sep := longSeps[g.rng.Intn(len(longSeps))]
	mixed := g.rng.Intn(3) == 0
	for i := 0; i < n; i++ {
		if i > 0 {
			if mixed {
				sep = longSeps[g.rng.Intn(len(longSeps))]
			}
			sb.WriteString(sep)
		}
		switch {
		case i < p:
			sb.WriteString(g.fillerElement())
		case i == p:
			sb.WriteString(g.hitElement(wild))
		default:
			switch k := g.rng.Intn(6); {
			case dirty && k == 0:
				mr, _ := g.mediaRange()
				sb.WriteString(mr)
			case k == 1:
				sb.WriteString(g.hitElement(g.rng.Intn(2) == 0))
			default:
				sb.WriteString(g.fillerElement())
			}
		}
	}
	g.r.Count(fmt.Sprintf("accept-long:elements:%d", n))
	switch {
	case p >= n:
		g.r.Count("accept-long:first-hit:none")
	case wild:
		g.r.Count(fmt.Sprintf("accept-long:first-wildcard-at:%d", p))
	default:
		g.r.Count(fmt.Sprintf("accept-long:first-named-at:%d", p))
	}
	return sb.String()
}

// randLongAccept: 1-40 elements (short and browser-sized lists more often), first hit anywhere or nowhere.
func (g *gen) randLongAccept(dirty bool) string {
	n := 1 + g.rng.Intn(40)
	if g.rng.Intn(2) == 0 {
		n = 6 + g.rng.Intn(12)
	}
	p := g.rng.Intn(n + 1)
	if g.rng.Intn(3) == 0 {
		p = n - 1 // the last element decides
	}
	return g.longAccept(n, p, g.rng.Intn(3) == 0, dirty)
}

// noPreference: Accept values that leave the choice to the server.
var noPreference = []string{"", "*/*", "*", "text/*", "image/webp, */*;q=0.8", "*/*;q=0.1", " */* "}

var fixedAccepts = []string{
	"", "*", "*/*", "application/json", "application/cbor", "application/msgpack", "application/yaml", "text/yaml", "text/yml",
	"application/json, image/webp", "image/webp, application/json", "application/json;q=0.9, image/webp", "text/yAMl", " * , yaml ",
	"yaml;charset ,*", "xml,*", "text/xml, text/other", "text/*", "yaml ;charset", "x", "application/json; charset=utf-8",
	"application/json ; charset=utf-8", "APPLICATION/JSON", "application/msgpac\u212a", "text/html,application/xhtml+xml,application/xml;q=0.9,*/*;q=0.8",
	",", ",,", ";", "/", "*/", "/*", " ", "\u00a0json\u3000", "json\u200b", "application/json,", ",application/cbor",
}

// httpCase: one value through DumpToHTTPRequest / LoadFromHTTPRequest / DumpToHTTPResponse / LoadFromHTTPResponse /
// MimeDump / MimeLoad for every format and for generated Accept / Content-Type headers.
func (g *gen) httpCase(tag string, v any, accepts []string, noModel bool, kind string) {
	lines := g.cfgLine(false)
	vl, payload := g.valueLines(tag, v)
	lines = append(lines, vl...)
	fmts := []uint8{dsd.JSON, dsd.CBOR, dsd.MsgPack, dsd.YAML, dsd.AUTO, dsd.RAW, dsd.GenCode}
	fmts = append(fmts, otherFormats[g.rng.Intn(len(otherFormats))])
	g.rng.Shuffle(len(fmts), func(i, j int) { fmts[i], fmts[j] = fmts[j], fmts[i] })
	for _, fm := range fmts {
		g.r.Count("http-request-format:" + fname(fm))
		// full cycle: client dumps the request, server loads it and answers in the format the request asks for,
		// client loads the response
		if g.rng.Intn(4) != 0 {
			lines = append(lines, "newreq")
		} else {
			g.r.Count("http-request:reused-object") // the same *http.Request is dumped into again: headers and body are replaced
		}
		lines = append(lines, fmt.Sprintf("req %d", fm), "loadreq", "resp", "loadresp")
	}
	for _, a := range accepts {
		ar := readAccept(a)
		switch {
		case len(ar.named) > 0:
			g.r.Count("accept-header:names-supported")
		case ar.wildcard:
			g.r.Count("accept-header:wildcard-only")
		default:
			g.r.Count("accept-header:neither")
		}
		lines = append(lines, "ffa "+hexs(a), "setreq "+hexs(a)+" nil nil", "resp", "loadresp", "mimedump "+hexs(a), "mimeload @t @m")
		if g.rng.Intn(16) == 0 {
			lines = append(lines, g.recfg()...)
		}
	}
	// "no preference" in all its spellings, under the current value of the default: a missing header, an empty one,
	// and the exact wildcard strings
	lines = append(lines, "setreq nil nil nil", "resp", "loadresp")
	for k, a := range noPreference {
		if k >= 2 && g.rng.Intn(3) != 0 {
			continue // "" and "*/*" always, the other spellings in a third of the cases each
		}
		lines = append(lines, "setreq "+hexs(a)+" nil nil", "resp", "loadresp", "mimedump "+hexs(a), "mimeload @t @m")
	}
	lines = append(lines, "held")
	// loading with arbitrary content types: each codec's payload under generated headers (also the wrong ones)
	for k := 0; k < 3; k++ {
		lib := libs[g.rng.Intn(len(libs))]
		p, ok := payload[lib]
		if !ok {
			continue
		}
		ct, _ := g.acceptHeader()
		if g.rng.Intn(2) == 0 {
			ct = "application/" + lib + []string{"", "; charset=utf-8", ";q=1"}[g.rng.Intn(3)]
		}
		// a payload may decode with a codec other than the one that produced it: the facts say so
		lines = append(lines, g.decFacts(tag, p, libs)...)
		lines = append(lines, "setreq nil "+hexs(ct)+" "+hxlib.Hex(p), "loadreq", "setresp "+hexs(ct)+" "+hxlib.Hex(p), "loadresp",
			"mimeload "+hexs(ct)+" "+hxlib.Hex(p))
	}
	lines = append(lines, "setreq nil nil nil", "loadreq", "setresp nil -", "loadresp")
	g.emit(hxlib.Case{Lines: lines, NonTrivial: tag != "U", Kind: kind + ":" + tag, NoModel: noModel})
}

// ---- malformed blobs --------------------------------------------------------------------------------------------------------------------

// dictionary: byte strings with a meaning for one of the layers (identifier bytes, varint continuation, BOM, the
// "nothing" value of every codec, document starts, gzip magic, real gzip streams of empty and short content).
var dictionary = [][]byte{
	{0xef, 0xbb, 0xbf}, []byte("{"), []byte("{}"), []byte("null"), []byte("null\n"), []byte("\""), []byte("\"\""), []byte("---\n"), []byte("~"), []byte("[]"),
	{0x00}, {0x01}, {0xf6}, {0xc0}, {0xa0}, {0x80}, {0x90}, {0x40}, {0x60},
	{0x1f, 0x8b, 0x08}, {0x1f, 0x8b, 0x08, 0, 0, 0, 0, 0, 0, 0xff},
	{dsd.AUTO}, {dsd.RAW}, {dsd.CBOR}, {dsd.GenCode}, {dsd.JSON}, {dsd.LIST}, {dsd.MsgPack}, {dsd.YAML}, {dsd.GZIP}, {dsd.GZIP, dsd.GZIP},
	{dsd.JSON | 0x80, 0x01}, {dsd.GZIP | 0x80, 0x01},
	gzipBytes(nil), gzipBytes([]byte{dsd.JSON}), gzipBytes([]byte("J{}")), gzipBytes([]byte("Jnull")), gzipBytes([]byte{dsd.RAW}),
	gzipBytes([]byte{dsd.YAML}), gzipBytes(gzipBytes([]byte("J{}"))),
}

func (g *gen) mutate(b []byte) ([]byte, string) {
	b = append([]byte(nil), b...)
	switch k := g.rng.Intn(11); {
	case k == 0 && len(b) > 0:
		return b[:g.rng.Intn(len(b))], "truncate"
	case k == 1 && len(b) > 0:
		b[g.rng.Intn(len(b))] ^= 1 << uint(g.rng.Intn(8))
		return b, "bitflip"
	case k == 2 && len(b) > 0:
		b[0] = []byte{0, 1, 67, 71, 74, 76, 77, 89, 90, 91, 128, 202, 218, 255}[g.rng.Intn(14)]
		return b, "format-byte"
	case k == 3 && len(b) > 0:
		// two-byte identifier forms
		id := []byte{b[0] | 0x80, byte(g.rng.Intn(3))}
		return append(id, b[1:]...), "two-byte-id"
	case k == 4:
		return append(b, byte(g.rng.Intn(256))), "append"
	case k == 5 && len(b) > 1:
		return b[:1], "identifier-only"
	case k == 6 && len(b) > 0:
		return b[1:], "drop-identifier"
	case k == 7:
		return append([]byte{dsd.GZIP}, b...), "gzip-id-on-plain"
	case k == 8 || k == 9:
		// dictionary: tokens that mean something to some layer, at the start, after the identifier, or at the end
		tok := dictionary[g.rng.Intn(len(dictionary))]
		switch pos := g.rng.Intn(4); {
		case pos == 0:
			return append(append([]byte{}, tok...), b...), "dictionary-prefix"
		case pos == 1 && len(b) > 0:
			return append(append([]byte{b[0]}, tok...), b[1:]...), "dictionary-after-id"
		case pos == 2 && len(b) > 0:
			return append([]byte{b[0]}, tok...), "dictionary-as-payload"
		default:
			return append(b, tok...), "dictionary-suffix"
		}
	default:
		n := g.rng.Intn(12)
		x := make([]byte, n)
		g.rng.Read(x)
		if n > 0 && g.rng.Intn(2) == 0 {
			x[0] = []byte{0, 1, 67, 71, 74, 77, 89, 90}[g.rng.Intn(8)]
		}
		return x, "random"
	}
}

// malformedCase: Load / DecompressAndLoad / LoadAsFormat / MimeLoad on mutated and random blobs. With the model
// (closure facts from the real libraries) or, in bulk, implementation only (totality: value or error, no panic).
func (g *gen) malformedCase(n int, noModel bool) {
	tag, v := g.pickValue(1)
	// the unmarshalable type has no blobs; []byte targets only now and then: msgpack allocates (and clears) up to a
	// megabyte for a declared bin length before it notices that the input is short, which dominates the run time
	if tag == "U" || (tag == "B" && g.rng.Intn(8) != 0) {
		tag, v = "S", genSubject(g.rng, 1)
	}
	var lines []string
	if noModel {
		lines = []string{"val " + tag + " " + hxlib.Hex(valueJSON(tag, v))}
	} else {
		lines, _ = g.valueLines(tag, v)
	}
	g.ser, g.comp = initSer, initComp
	payload := map[string][]byte{}
	for _, lib := range libs {
		if p, err := libMarshal(lib, dumpArg(tag, v)); err == nil {
			payload[lib] = p
		}
	}
	var seeds [][]byte
	for _, fm := range dumpFormats {
		if b := g.ownDump(tag, v, fm, payload); b != nil {
			seeds = append(seeds, b)
			if g.rng.Intn(4) == 0 {
				seeds = append(seeds, append([]byte{dsd.GZIP}, gzipBytes(b)...))
			}
		}
	}
	seeds = append(seeds, []byte{}, []byte{dsd.GZIP}, append([]byte{dsd.GZIP}, gzipBytes(nil)...), append([]byte{dsd.GZIP}, gzipBytes([]byte{dsd.JSON})...),
		append([]byte{dsd.GZIP}, gzipBytes(append([]byte{dsd.GZIP}, gzipBytes([]byte("J{}"))...))...))
	seen := map[string]bool{}
	for k := 0; k < n; k++ {
		b, class := g.mutate(seeds[g.rng.Intn(len(seeds))])
		if g.rng.Intn(4) == 0 {
			var c2 string
			b, c2 = g.mutate(b)
			class += "+" + c2
		}
		if i := strings.IndexByte(class, '+'); i >= 0 {
			g.r.Count("malformed:double")
			class = class[:i]
		}
		g.r.Count("malformed:" + class)
		if !noModel {
			lines = append(lines, g.closureFacts(tag, b, seen)...)
		}
		h := hxlib.Hex(b)
		lines = append(lines, "load "+h)
		switch g.rng.Intn(4) {
		case 0:
			lines = append(lines, fmt.Sprintf("dal %d %s", []uint8{dsd.GZIP, dsd.GZIP, dsd.AUTO, dsd.JSON}[g.rng.Intn(4)], h))
		case 1:
			lines = append(lines, fmt.Sprintf("laf %d %s", append(dumpFormats, dsd.GZIP, 255)[g.rng.Intn(len(dumpFormats)+2)], h))
		case 2:
			lines = append(lines, "mimeload "+hexs("application/"+libs[g.rng.Intn(4)])+" "+h)
		}
	}
	kind := "malformed"
	if noModel {
		kind = "totality"
	}
	g.emit(hxlib.Case{Lines: lines, NonTrivial: true, Kind: kind + ":" + tag, NoModel: noModel})
}

// variant: a value of the same type and (in the binary formats) the same encoded size as v, but different.
func (g *gen) variant(tag string, v any) any {
	w, err := parseValue(tag, valueJSON(tag, v))
	if err != nil {
		return v
	}
	switch x := w.(type) {
	case *Subject:
		x.T = !x.T
		x.B ^= 0x55
		if b := []byte(x.S); len(b) > 0 && b[0] >= 'a' && b[0] < 'z' {
			b[0]++
			x.S = string(b)
		}
	case *GSubject:
		x.B ^= 0x55
		x.N ^= 1
	case *[]byte:
		b := append([]byte(nil), *x...)
		for i := range b {
			b[i] ^= 0xff
		}
		if len(b) == 0 {
			b = []byte{7}
		}
		*x = b
	}
	return w
}

func (g *gen) heldValues(maxKeys int) (tag string, vals []any) {
	switch g.rng.Intn(10) {
	case 0, 1:
		tag = "G"
	case 2, 3:
		tag = "B"
	default:
		tag = "S"
	}
	mk := func() any {
		switch tag {
		case "G":
			return genGSubject(g.rng)
		case "B":
			b := genBytes(g.rng)
			return &b
		}
		return genSubject(g.rng, maxKeys)
	}
	first := mk()
	vals = []any{first, g.variant(tag, first)} // same size, different content
	for n := g.rng.Intn(3); n > 0; n-- {
		vals = append(vals, mk()) // other sizes
	}
	if g.rng.Intn(3) == 0 {
		w, _ := parseValue(tag, valueJSON(tag, first)) // an equal value in different memory
		vals = append(vals, w)
	}
	return tag, vals
}

// heldCase: history. Several values of one type are dumped through every dump function (Dump, DumpIndent,
// DumpAndCompress, MimeDump, DumpToHTTPRequest, DumpToHTTPResponse), in mixed order, same and different sizes and
// formats, with loads and assignments of the package variables in between; the results are kept as returned and
// loaded again later (`held`), several times. On the model (pure functions) a held result is just a value; on the
// implementation this is where shared buffers, pooled writers, cached encoders and remembered defaults show.
func (g *gen) heldCase(noModel bool) {
	maxKeys := 1
	if noModel {
		maxKeys = 5
	}
	tag, vals := g.heldValues(maxKeys)
	lines := g.cfgLine(false)
	type valInfo struct {
		lines   []string
		payload map[string][]byte
	}
	infos := make([]valInfo, len(vals))
	for i, v := range vals {
		infos[i].lines, infos[i].payload = g.valueLines(tag, v)
	}
	steps := 4 + g.rng.Intn(9)
	curVal := -1
	for s := 0; s < steps; s++ {
		if k := g.rng.Intn(len(vals)); k != curVal || s == 0 {
			curVal = k
			lines = append(lines, infos[k].lines...)
		}
		v, payload := vals[curVal], infos[curVal].payload
		fm := dumpFormats[g.rng.Intn(len(dumpFormats))]
		if g.rng.Intn(3) == 0 {
			fm = dsd.AUTO
		}
		switch op := g.rng.Intn(10); {
		case op <= 1:
			g.r.Count("held-op:dump")
			lines = append(lines, fmt.Sprintf("dump %d", fm))
			if g.rng.Intn(2) == 0 {
				lines = append(lines, "load @")
			}
		case op <= 5:
			g.r.Count("held-op:dac")
			comp := compFormats[g.rng.Intn(len(compFormats))]
			if plain := g.ownDump(tag, v, fm, payload); plain != nil {
				lines = append(lines, "gz "+hxlib.Hex(plain)+" "+hxlib.Hex(gzipBytes(plain)))
			}
			lines = append(lines, fmt.Sprintf("dac %d %d", fm, comp))
			if g.rng.Intn(2) == 0 {
				lines = append(lines, "load @")
			}
		case op == 6:
			if payload["json"] != nil {
				ind := indents[g.rng.Intn(3)]
				if p, err := jsonMarshalIndent(dumpArg(tag, v), ind); err == nil {
					g.r.Count("held-op:dumpi")
					lines = append(lines, "enci "+hexs(ind)+" "+hxlib.Hex(p))
					lines = append(lines, g.decFacts(tag, p, []string{"json"})...)
					lines = append(lines, fmt.Sprintf("dumpi %d %s", []uint8{dsd.JSON, dsd.AUTO}[g.rng.Intn(2)], hexs(ind)))
				}
			}
		case op == 7:
			g.r.Count("held-op:mimedump")
			a := noPreference[g.rng.Intn(len(noPreference))]
			if g.rng.Intn(2) == 0 {
				a = fixedAccepts[g.rng.Intn(len(fixedAccepts))]
			}
			if g.rng.Intn(4) == 0 {
				a = g.randLongAccept(false)
			}
			lines = append(lines, "mimedump "+hexs(a))
			if g.rng.Intn(2) == 0 {
				lines = append(lines, "mimeload @t @m")
			}
		default:
			g.r.Count("held-op:http")
			if g.rng.Intn(3) != 0 {
				lines = append(lines, "newreq")
			}
			lines = append(lines, fmt.Sprintf("req %d", []uint8{dsd.JSON, dsd.CBOR, dsd.MsgPack, dsd.YAML}[g.rng.Intn(4)]))
			if g.rng.Intn(2) == 0 {
				lines = append(lines, "resp")
			}
		}
		if g.rng.Intn(8) == 0 {
			lines = append(lines, g.recfg()...)
		}
		if g.rng.Intn(5) == 0 {
			lines = append(lines, "held")
		}
	}
	lines = append(lines, "held", "held") // twice: loading must not consume or alter what it loads
	g.emit(hxlib.Case{Lines: lines, NonTrivial: true, Kind: fmt.Sprintf("held:%s", tag), NoModel: noModel})
}

// parCase: the same functions called from several goroutines at once, each with its own value; everything returned
// is kept and loaded after all goroutines are done (implementation + monitor only).
func (g *gen) parCase() {
	tag, vals := g.heldValues(3)
	if tag == "G" && g.rng.Intn(2) == 0 {
		tag, vals = "S", []any{genSubject(g.rng, 3), genSubject(g.rng, 3)}
	}
	if len(vals) > 4 {
		vals = vals[:4]
	}
	lines := g.cfgLine(false)
	var items []string
	nz := 0
	for n := 2 + g.rng.Intn(3); n > 0; n-- {
		fm := []uint8{dsd.JSON, dsd.CBOR, dsd.MsgPack, dsd.YAML, dsd.AUTO, dsd.GenCode, dsd.RAW}[g.rng.Intn(7)]
		switch k := g.rng.Intn(5); {
		case k <= 1:
			items = append(items, fmt.Sprintf("d%d", fm))
		case k <= 3 && nz < 2:
			nz++
			items = append(items, fmt.Sprintf("c%d.%d", fm, compFormats[g.rng.Intn(len(compFormats))]))
		default:
			a := noPreference[g.rng.Intn(len(noPreference))]
			if g.rng.Intn(2) == 0 {
				a = "application/" + goodSubs[g.rng.Intn(4)]
			}
			if g.rng.Intn(4) == 0 {
				a = g.randLongAccept(false)
			}
			items = append(items, "m"+hexs(a))
		}
	}
	rounds := 4 + g.rng.Intn(12)
	line := fmt.Sprintf("par %d %s %s", rounds, tag, strings.Join(items, ","))
	for _, v := range vals {
		line += " " + hxlib.Hex(valueJSON(tag, v))
	}
	g.r.Count(fmt.Sprintf("par:goroutines:%d", len(vals)))
	lines = append(lines, line)
	g.emit(hxlib.Case{Lines: lines, NonTrivial: true, Kind: "concurrent:" + tag, NoModel: true})
}

func generate(r *hxlib.Run, emit func(hxlib.Case)) {
	g := &gen{r: r, rng: r.Rng, emit: emit, ser: initSer, comp: initComp}

	// (0) regression corpus: the defects this check reproduced on the pinned tree, and the string tables
	emit(hxlib.Case{Lines: []string{"lowerscan", "spacescan"}, NonTrivial: true, Kind: "unicode-tables"})
	{
		s := &Subject{S: "x", Sa: []string{"a"}, M: map[string]string{"k": "v"}}
		g.roundtripCase("S", s, false, "corpus-roundtrip")
		g.httpCase("S", s, fixedAccepts, false, "corpus-http")
		e := []byte{}
		g.roundtripCase("B", &e, false, "corpus-roundtrip")
		var n []byte
		g.roundtripCase("B", &n, false, "corpus-roundtrip")
		g.roundtripCase("G", &GSubject{}, false, "corpus-roundtrip")
		g.httpCase("G", &GSubject{S: "g"}, fixedAccepts[:8], false, "corpus-http")
		// strings that are the text of an escape sequence (value, slice element, map key and value)
		esc := &Subject{S: `\u003cb\u003e \u0026 \\u003c \n \" \/ </script>`, Sa: []string{`\u003e`, "\u2028", `\ud800`}, M: map[string]string{`\u0026`: `\\u0026`}}
		g.roundtripCase("S", esc, false, "corpus-roundtrip")
		g.httpCase("S", esc, fixedAccepts[:8], false, "corpus-http")
	}

	// (0a) long Accept headers, swept: every list length 1..40 × every position of the first element that names a
	// supported format or of the first wildcard (alternating) through FormatFromAccept, incl. no such element; every
	// position 0..39 through the response, MimeDump and wire paths, once named and once wildcard
	{
		var lines []string
		for n := 1; n <= 40; n++ {
			for p := 0; p <= n; p++ {
				lines = append(lines, "ffa "+hexs(g.longAccept(n, p, (n+p)%2 == 1, false)))
				if len(lines) >= 16 {
					emit(hxlib.Case{Lines: lines, NonTrivial: true, Kind: "accept-long"})
					lines = nil
				}
			}
		}
		if len(lines) > 0 {
			emit(hxlib.Case{Lines: lines, NonTrivial: true, Kind: "accept-long"})
		}
		for _, wild := range []bool{false, true} {
			var accepts []string
			for p := 0; p < 40; p++ {
				accepts = append(accepts, g.longAccept(p+1+g.rng.Intn(3), p, wild, false))
			}
			g.httpCase("S", &Subject{S: "long accept", Sa: []string{"a"}}, accepts, false, "http-long-accept")
			wl := []string{"val S " + hxlib.Hex(valueJSON("S", &Subject{S: "long accept"}))}
			for p := 0; p < 40; p++ {
				wl = append(wl, "wirea "+hexs(g.longAccept(p+1+g.rng.Intn(3), p, wild, false)))
			}
			g.emit(hxlib.Case{Lines: wl, NonTrivial: true, Kind: "http-wire-long-accept:S", NoModel: true})
		}
	}

	// (0b) history: results kept while other dumps / loads / assignments of the package variables happen
	for i := 0; i < r.Budget(500, 6000); i++ {
		g.heldCase(false)
	}
	for i := 0; i < r.Budget(150, 2000); i++ {
		g.heldCase(true)
	}
	// (0c) the same functions from several goroutines at once
	for i := 0; i < r.Budget(100, 1200); i++ {
		g.parCase()
	}

	// (1) dump / load round trips, model stream (maps with at most one key: deterministic payload bytes)
	for i := 0; i < r.Budget(2000, 30000); i++ {
		tag, v := g.pickValue(1)
		g.roundtripCase(tag, v, false, "roundtrip")
	}
	// (2) the same with multi-key maps, implementation + monitor only (cbor / msgpack write maps in iteration order)
	for i := 0; i < r.Budget(600, 10000); i++ {
		g.roundtripCase("S", genSubject(g.rng, 5), true, "roundtrip-maps")
	}
	// (3) HTTP
	for i := 0; i < r.Budget(900, 12000); i++ {
		tag, v := g.pickValue(1)
		var accepts []string
		for k := 0; k < 6; k++ {
			a, _ := g.acceptHeader()
			accepts = append(accepts, a)
		}
		accepts = append(accepts, g.randLongAccept(false), g.randLongAccept(true))
		g.httpCase(tag, v, accepts, false, "http")
	}
	for i := 0; i < r.Budget(200, 3000); i++ {
		var accepts []string
		for k := 0; k < 6; k++ {
			a, _ := g.acceptHeader()
			accepts = append(accepts, a)
		}
		accepts = append(accepts, g.randLongAccept(false))
		g.httpCase("S", genSubject(g.rng, 5), accepts, true, "http-maps")
	}
	// (3b) the same cycle over a real HTTP connection (httptest.Server), implementation + monitor only
	for i := 0; i < r.Budget(150, 2000); i++ {
		tag, v := g.pickValue(3)
		lines := g.cfgLine(false)
		lines = append(lines, "val "+tag+" "+hxlib.Hex(valueJSON(tag, v)))
		for _, fm := range []uint8{dsd.JSON, dsd.CBOR, dsd.MsgPack, dsd.YAML, dsd.AUTO, dsd.GenCode, dsd.RAW} {
			lines = append(lines, fmt.Sprintf("wire %d", fm))
		}
		for k := 0; k < 4; k++ {
			a, _ := g.acceptHeader()
			if k == 3 {
				a = noPreference[g.rng.Intn(len(noPreference))]
			}
			lines = append(lines, "wirea "+hexs(a))
		}
		lines = append(lines, "wirea "+hexs(g.randLongAccept(false)))
		g.emit(hxlib.Case{Lines: lines, NonTrivial: tag != "U", Kind: "http-wire:" + tag, NoModel: true})
	}
	// (4) FormatFromAccept alone, in bulk
	{
		var lines []string
		nt := false
		flush := func() {
			if len(lines) > 0 {
				emit(hxlib.Case{Lines: lines, NonTrivial: nt, Kind: "accept"})
				lines, nt = nil, false
			}
		}
		for _, a := range fixedAccepts {
			lines = append(lines, "ffa "+hexs(a))
		}
		nt = true
		flush()
		for i := 0; i < r.Budget(100000, 2000000); i++ {
			a, n := g.acceptHeader()
			if i%6 == 5 {
				a, n = g.randLongAccept(i%12 == 5), true
			}
			lines = append(lines, "ffa "+hexs(a))
			nt = nt || n
			if len(lines) >= 16 {
				flush()
			}
		}
		flush()
	}
	// (5) malformed blobs against the model, (6) totality in bulk on the implementation
	for i := 0; i < r.Budget(1000, 15000); i++ {
		g.malformedCase(12, false)
	}
	for i := 0; i < r.Budget(5000, 100000); i++ {
		g.malformedCase(40, true)
	}
}

func extra(*hxlib.Run) map[string]any {
	return map[string]any{
		"codec_contract_samples":                    contractSamples,
		"codec_contract_failures":                   contractFailures,
		"codec_contract_failures_by_codec_and_type": contractByLib,
		"codec_contract_failure_examples":           contractExample,
		"held_results_note":                         "the model is a set of pure functions (PB.Model.Dsd; theorem held_blobs_roundtrip; package_state_surface pins the package's variables): a result is a value, independent of every other call. The held-results stream ties exactly this purity to the code: every slice / request body a dump function returned is kept as returned (kind held:*, and `held` at the end of every roundtrip / http case), further dumps and loads of other values (same and other sizes and formats) and assignments of DefaultSerializationFormat / DefaultCompressionFormat follow, then the kept results are loaded from the kept memory (twice) and compared with the values they were dumped from (monitor) and, byte for byte, with a copy taken when they were returned (flag same/changed, compared with the model, which always says same); kind concurrent:* does the same from 2-4 goroutines at once",
		"package_variables_note":                    "dsd.DefaultSerializationFormat and dsd.DefaultCompressionFormat are inputs: `cfg` lines assign them in about a third of the roundtrip / http / http-wire / held / concurrent cases (distribution keys cfg:*), also in the middle of a case; the executor restores the initial values after every case; generator and monitor keep their own record of them and never read the package's variables while a case runs",
		"codec_contract_note":                       "dump lines whose value was sent through the third-party codec directly (marshal, unmarshal, equal): failures are values not representable in that format; the property makes no demand on them",
	}
}

func disSig(line, impl, model string) string {
	w := strings.SplitN(line, " ", 2)[0]
	return "corr:" + w
}

func main() {
	if p := os.Getenv("HX_CPUPROFILE"); p != "" {
		if f, err := os.Create(p); err == nil {
			pprof.StartCPUProfile(f)
			defer pprof.StopCPUProfile()
		}
	}
	debug.SetGCPercent(400) // DumpAndCompress allocates a fresh BestCompression writer (> 1 MB) per call
	hxlib.Main(&hxlib.Harness{
		Prop:     "C09",
		Rule:     "a case is one schema value (Subject: nested structs, all integer widths within ±(2^53-1), ASCII/non-ASCII/YAML-hostile strings, byte and string slices, maps, pointers, nil and empty; GSubject: gencode; []byte: RAW; USubject: unmarshalable) with the real codecs' results as fact lines, followed by (roundtrip) Dump/DumpIndent/DumpAndCompress for every format id in {AUTO,RAW,CBOR,GenCode,JSON,MsgPack,YAML} + one unsupported id x compression {AUTO,GZIP,unsupported} each followed by Load/LoadAsFormat/DecompressAndLoad, or (http) DumpToHTTPRequest→LoadFromHTTPRequest→DumpToHTTPResponse→LoadFromHTTPResponse for every format id and MimeDump/MimeLoad/DumpToHTTPResponse for Accept headers from a media-range grammar (types, supported/unsupported/wildcard subtypes, parameters, q-values, ASCII and Unicode whitespace, case incl. KELVIN SIGN, garbage), or (http-wire) the same request/response cycle through a real httptest.Server connection, or (accept) FormatFromAccept on 16 such headers, or (accept-long / http-long-accept / http-wire-long-accept) Accept headers of 1-40 elements in which the first element that names a supported format, or the first wildcard, stands at a chosen position behind media ranges that name nothing (unsupported types with q-values / parameters / case and separator variants): every length 1..40 x every position through FormatFromAccept, every position 0..39 through DumpToHTTPResponse, MimeDump and the real connection, and random ones among the headers of every http, http-wire, held and concurrent case and as every sixth header of the bulk stream, or (malformed/totality) Load/DecompressAndLoad/LoadAsFormat/MimeLoad on truncations, bit flips, identifier rewrites, two-byte identifiers, gzip wrappers and random bytes, or (held) 2-6 values of one type (a value, a same-size variant, other sizes, an equal copy) dumped in mixed order through Dump/DumpIndent/DumpAndCompress/MimeDump/DumpToHTTPRequest/DumpToHTTPResponse with loads in between, every result kept as returned and loaded again later (`held`, at least twice), or (concurrent) 2-4 goroutines dumping their own values 4-15 times through 2-4 of these functions at once, all results loaded after the join. About a third of the roundtrip/http/http-wire/held/concurrent cases assign dsd.DefaultSerializationFormat (JSON, CBOR, MsgPack, YAML, GenCode, RAW, rarely a value that is no format) and dsd.DefaultCompressionFormat (`cfg` lines, also in the middle of a case); every http case sends the 'no preference' Accept values (missing header, empty, */*, *, text/*, lists with q-values). One string in eight is composed from a dictionary of escape look-alikes (backslash + u003c/u0026/u2028/ud800, JSON/YAML escapes, HTML entities, YAML indicators, control characters). Non-trivial: every case except those on the unmarshalable type; accept cases only if a header has >= 2 elements or a parameter. Distinct by the hash of the op lines.",
		Generate: generate,
		NewExec:  newExec,
		Monitor:  monitor,
		Extra:    extra,
		DisSig:   disSig,
	})
}
