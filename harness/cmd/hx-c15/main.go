// hx-c15: trace-validation harness and property monitor for C15 (modules/microtasks.go).
//
// A case is one *scenario* run on the real scheduler (built with -tags verif) plus the trace it produced:
//
//	scn {json}                 the scenario (limit, tasks, submitters, schedule forcing) — for the record / replay
//	lim N F, new tid cls var nil zd  the configured limit (token left?) and the tasks
//	t … / s … / shutdown       hook events, canonicalised (see lean/PB/Drv/C15.lean); the Lean model is the acceptor
//	h …                        what the harness itself observed (calls, returns, function begin/end, final counters)
//	end cnt mods               the counters after everything finished
//
// The scenario is executed by the generator (the trace can only be known afterwards); Exec.Do answers "ok" for a
// recorded event (it happened) and runs the real code for the pure glue ops (`setmax n`). The monitor reads the
// property statement literally off the `scn` and `h` lines only — it never looks at hook events.
package main

import (
	"context"
	"encoding/json"
	"errors"
	"fmt"
	"io"
	"math/rand"
	"os"
	"os/exec"
	"runtime"
	"sort"
	"strconv"
	"strings"
	"sync"
	"sync/atomic"
	"time"

	"github.com/safing/portbase/log"
	"github.com/safing/portbase/modules"

	"verifharness/hxlib"
)

// ---------------------------------------------------------------------------------------------
// scenario description

type taskSpec struct {
	Prio    int  `json:"p"`           // 0 medium, 1 low, 2 high
	Var     int  `json:"v"`           // 0 Run*, 1 Start*, 2 Signal*
	Mod     int  `json:"m"`           // module index, -1 = nil module
	Out     int  `json:"o"`           // function outcome: 0 nil, 1 error, 2 panic
	RunUs   int  `json:"us"`          // run time of the function / the signalled section, µs
	PreUs   int  `json:"pre"`         // pause of the submitter before this task, µs
	DelayMs int  `json:"d"`           // maxDelay: -1 = one hour (never expires), 0 = pass 0 (documented: default), >0 ms
	Dones   int  `json:"n,omitempty"` // Signal*: number of done() calls
	Conc    bool `json:"c,omitempty"` // Signal*: call done() from concurrent goroutines
	Err     int  `json:"e,omitempty"` // outcome 1: which value of the error dictionary the function returns (errKinds)
	// UC: the function watches the context it is given (the module's): it returns when that is cancelled (module
	// stop, shutdown) or after RunUs at the latest — a blocking call in flight while its module is stopped
	UC bool `json:"uc,omitempty"`
}

// ---------------------------------------------------------------------------------------------
// the error dictionary: values a microtask function may return. The property says "its error is returned to the
// caller of the blocking variants": whatever the value is and whatever state the module is in.

type typedNilErr struct{ s string }

func (e *typedNilErr) Error() string {
	if e == nil {
		return "typed nil error"
	}
	return e.s
}

// claimsCanceledErr is an error of its own type that answers errors.Is(err, context.Canceled) through an Is method.
type claimsCanceledErr struct{ tid int }

func (e *claimsCanceledErr) Error() string        { return fmt.Sprintf("task %d stopped early", e.tid) }
func (e *claimsCanceledErr) Is(target error) bool { return target == context.Canceled } //nolint:errorlint

var errKinds = []string{"plain", "context.Canceled", "wraps-context.Canceled", "context.DeadlineExceeded", "wraps-context.DeadlineExceeded",
	"modules.ErrCleanExit", "wraps-modules.ErrRestartNow", "typed-nil", "*modules.ModuleError(non-panic)", "errors.Join(plain,context.Canceled)",
	"own-type-with-Is(context.Canceled)", "doubly-wrapped-context.Canceled"}

func mkErr(kind, tid int) error {
	switch kind {
	case 1:
		return context.Canceled
	case 2:
		return fmt.Errorf("task %d aborted: %w", tid, context.Canceled)
	case 3:
		return context.DeadlineExceeded
	case 4:
		return fmt.Errorf("task %d took too long: %w", tid, context.DeadlineExceeded)
	case 5:
		return modules.ErrCleanExit
	case 6:
		return fmt.Errorf("task %d: %w", tid, modules.ErrRestartNow)
	case 7:
		return (*typedNilErr)(nil)
	case 8:
		return &modules.ModuleError{Message: fmt.Sprintf("task %d failed", tid), ModuleName: "c15", TaskName: "t" + strconv.Itoa(tid), TaskType: "microtask", Severity: "error"}
	case 9:
		return errors.Join(fmt.Errorf("task %d failed", tid), context.Canceled)
	case 10:
		return &claimsCanceledErr{tid}
	case 11:
		return fmt.Errorf("task %d: %w", tid, fmt.Errorf("worker gone: %w", context.Canceled))
	}
	return fmt.Errorf("task %d failed", tid)
}

// drawErrKind: 35 % the plain error, otherwise any value of the dictionary.
func drawErrKind(rng *rand.Rand) int {
	if rng.Intn(100) < 35 {
		return 0
	}
	return 1 + rng.Intn(len(errKinds)-1)
}

// outCode numbers what the function of a task does: 0 returns nil, 2 panics, 100+k returns value k of the dictionary.
func outCode(t taskSpec) int {
	if t.Out == 1 {
		return 100 + t.Err%len(errKinds)
	}
	return t.Out
}

func outName(code int64) string {
	switch {
	case code == 0:
		return "nil"
	case code == 2:
		return "the panic error of the task"
	case code == 3:
		return "errNoModule"
	case code >= 100 && int(code-100) < len(errKinds):
		return "the very error value the function returned (" + errKinds[code-100] + ")"
	case code == 7:
		return "a panic error of something else"
	}
	return "some other error"
}

// sameErr: is `got` the error the function returned? The very value — or, so that an implementation which adds
// context around the function's error is not blamed, an error that has that value in its chain (errors.Is) and its
// message in its text. (nil is never "the same" as a non-nil value, a typed nil included.)
func sameErr(got, want error) (same bool) {
	defer func() {
		if recover() != nil { // uncomparable dynamic type, Error() of a foreign nil pointer
			same = false
		}
	}()
	if got == want { //nolint:errorlint // identity is the point
		return true
	}
	return errors.Is(got, want) && strings.Contains(got.Error(), want.Error())
}

type forcing struct {
	Prob  map[string]int `json:"prob"` // yield point -> probability (percent) of a forced delay
	MaxUs int            `json:"maxus"`
}

type scenario struct {
	Class    string     `json:"class"` // noexpiry | default | expiry | flood | shutdown
	Lim      int        `json:"lim"`
	Tasks    []taskSpec `json:"tasks"`
	Subs     [][]int    `json:"subs"` // submitter goroutines: task indices in order
	Force    forcing    `json:"force"`
	Seed     int64      `json:"seed"`
	ShutAtUs int        `json:"shut,omitempty"` // shutdown class: Shutdown() is called this long after the start
	// module lifecycle scenarios (classes modstop, stoptmo; run in a child process with module management on):
	// a director goroutine executes Life in order; the stop function of module k submits the tasks StopSubs[k]
	// (on its first run); the submitters Subs are launched by the director's `sub` ops only.
	Life     []lifeOp `json:"life,omitempty"`
	StopSubs [][]int  `json:"stopsubs,omitempty"`
	// class errchan (child process): an error reporting channel of capacity ErrCh-1 is installed through
	// modules.SetErrorReportingChannel before the scenario runs, and nobody reads it (0: no channel, as everywhere else)
	ErrCh int `json:"errch,omitempty"`
}

// lifeOp is one step of the director of a lifecycle scenario.
//
//	sub n      launch submitter goroutine Subs[n]
//	waitrun n  wait until n microtask functions / signalled sections are executing (at most 5 s)
//	settmo n   set the module stop timeout to n ms
//	stop n     Disable module n and ManageModules(): the module is stopped while the others keep running
//	start n    Enable module n and ManageModules()
//	sleep n    n µs
//	quiet      wait until everything submitted so far has finished and the scheduler settled, then record the
//	           global and the per-module counts
//	shutdown   modules.Shutdown()
type lifeOp struct {
	Op string `json:"op"`
	N  int    `json:"n,omitempty"`
}

// ---------------------------------------------------------------------------------------------
// recorder: the verif sink

type rawEv struct {
	g    int64
	kind string
	tid  int
	a, b int64
	ch   any
	s    string
}

type recorder struct {
	mu        sync.Mutex
	holder    atomic.Int64 // goroutine that holds mu across a bracketed atomic operation
	on        bool
	evs       []rawEv
	lastSched string // last scheduler event (kept across scenarios)
	lastAt    time.Time
	nSched    int64
	force     forcing
	frng      *rand.Rand
	fmu       sync.Mutex
	// measured
	// bracket around an operation on / a read of a module's microtask counter (held with mu by one goroutine)
	modKind    string // "" | "inc" | "dec" | "chk"
	modIdx     int
	modOuter   bool // the goroutine held the mutex already (high priority: bracket around its own global increment)
	toks       int  // conclusions completed (finished token offered) since the recording started
	dips       int  // counter observed below zero
	forcedHits int
}

var rec = &recorder{}

func gid() int64 {
	var buf [64]byte
	n := runtime.Stack(buf[:], false)
	var id int64
	for _, c := range buf[len("goroutine "):n] {
		if c < '0' || c > '9' {
			break
		}
		id = id*10 + int64(c-'0')
	}
	return id
}

// acquire takes the log mutex unless this goroutine already holds it across a bracket.
func (r *recorder) acquire(g int64) {
	if r.holder.Load() != g {
		r.mu.Lock()
		r.holder.Store(g)
	}
}

// release ends a bracket / a plain event.
func (r *recorder) release(g int64) {
	if r.holder.Load() == g {
		r.holder.Store(0)
		r.mu.Unlock()
	}
}

// hlock is the harness's own access to the log; it gives up (false) when a hook left the mutex held for
// seconds — only possible if the hooks of the code under test no longer come in the expected order.
func (r *recorder) hlock() bool {
	for i := 0; i < 5000; i++ {
		if r.mu.TryLock() {
			return true
		}
		runtime.Gosched()
	}
	for i := 0; i < 30000; i++ {
		if r.mu.TryLock() {
			return true
		}
		time.Sleep(100 * time.Microsecond)
	}
	return false
}

// add appends under the lock (the caller holds it).
func (r *recorder) add(e rawEv) {
	if r.on {
		r.evs = append(r.evs, e)
	}
}

func (r *recorder) delay(point string) {
	r.fmu.Lock()
	p := r.force.Prob[point]
	var d time.Duration
	if p > 0 && r.frng != nil && r.frng.Intn(100) < p {
		d = time.Duration(1+r.frng.Intn(r.force.MaxUs)) * time.Microsecond
		r.forcedHits++
	}
	r.fmu.Unlock()
	if d > 0 {
		time.Sleep(d)
	}
}

func cntNow() int64 {
	c, _ := modules.VerifMicroTasks()
	return int64(c)
}

func (r *recorder) sched(kind string, a, b int64, ch any) {
	r.add(rawEv{kind: "s:" + kind, a: a, b: b, ch: ch})
	r.lastSched = kind
	r.lastAt = time.Now()
	r.nSched++
}

// sink is installed with modules.VerifSetSink. Non-blocking atomic operations on the global counter are
// bracketed: the hook before the operation takes r.mu, the hook after it logs (with the counter value, exact
// because every other operation on the counter is bracketed too) and releases — so the log order is a
// linearisation. Blocking operations are logged before (send) or after (receive) they happen.
func (r *recorder) sink(point string, args ...any) {
	if !strings.HasPrefix(point, "mt:") && !strings.HasPrefix(point, "yield:mt:") {
		// hooks of other properties (C01/C05/C06/C07 share the package) must not touch a bracket; of the stop
		// protocol's hooks the few around the module's microtask counter and the stop/start steps are used
		if stopProtoPoints[point] {
			r.stopProto(point, args...)
		}
		return
	}
	g := gid()
	held := r.holder.Load() == g
	if strings.HasPrefix(point, "yield:") && !held {
		r.delay(strings.TrimPrefix(point, "yield:mt:"))
	}
	r.acquire(g)
	keep := false // keep the mutex: this hook opens a bracket around the next atomic operation
	switch point {
	case "yield:mt:pre-inc":
		keep = true
	case "mt:begin":
		// the begin event (and, for high priority, the own increment before it) was logged inside the bracket
		// around the module increment, see stopProto; this hook only closes a high-priority bracket
	case "mt:timeout-enqueue":
		r.add(rawEv{g: g, kind: "tmoenq", a: cntNow()})
	case "mt:timeout-wait":
		r.add(rawEv{g: g, kind: "tmowait"})
	case "mt:submit":
		e := rawEv{g: g, kind: "submit"}
		if len(args) == 2 {
			e.ch = args[1]
			if s, _ := args[0].(string); s == "l" {
				e.a = 1
			}
		}
		r.add(e)
	case "yield:mt:conclude":
		keep = true // the module decrement was logged inside its own bracket, see stopProto
	case "mt:concluded":
		c := cntNow()
		if c < 0 {
			r.dips++
		}
		r.add(rawEv{g: g, kind: "dec", a: c})
		r.release(g)
		r.delay("concluded")
		r.acquire(g) // bracket around the non-blocking token send
		keep = true
	case "mt:token":
		r.toks++
		e := rawEv{g: g, kind: "tok"}
		if len(args) == 1 {
			if b, _ := args[0].(bool); b {
				e.a = 1
			}
		}
		r.add(e)
	case "yield:mt:sched-loop":
		if r.lastSched == "space" {
			r.sched("other", 0, 0, nil)
		}
		keep = true
	case "mt:sched-shutdown":
		r.sched("shut", 0, 0, nil)
	case "mt:sched-space", "mt:sched-full":
		c, l := modules.VerifMicroTasks()
		r.sched(strings.TrimPrefix(point, "mt:sched-"), int64(c), int64(l), nil)
	case "mt:sched-grant":
		var ch any
		if len(args) == 1 {
			ch = args[0]
		}
		r.sched("grant", 0, 0, ch)
	case "yield:mt:sched-granted":
		keep = true
	case "mt:sched-counted":
		r.sched("count", cntNow(), 0, nil)
	case "mt:sched-woken":
		r.sched("woken", 0, 0, nil)
	case "mt:sched-tick":
		r.sched("tick", 0, 0, nil)
	}
	if !keep {
		r.release(g)
	}
	if point == "mt:sched-full" {
		// between the guard's "full" and the wait for the finished token: the lost-wake-up window
		r.delay("sched-full")
	}
}

// stopProtoPoints are the hooks of the module stop protocol (placed for C05) that the C15 trace uses.
var stopProtoPoints = map[string]bool{
	"pre:inc:m": true, "pre:dec:m": true, "post": true, // bracket around AddInt32(m.microTaskCnt, ±1)
	"pre:cFast": true,                                      // checkIfStopComplete begins
	"mid:cM":    true, "mid:cCas": true, "post:fail": true, // … its read of the microtask counter and what followed
	"pre:stopBegin": true, "pre:sFlag": true, "ev:sWake": true, "ev:sTimeout": true, "pre:sOffline": true, "pre:startBegin": true,
}

func modIndex(args []any) int {
	if len(args) >= 1 {
		if n, ok := args[0].(string); ok {
			for i, mn := range modNames {
				if mn == n {
					return i
				}
			}
		}
	}
	return -1
}

func modCnt(k int) int64 {
	if k >= 0 && k < len(mods) {
		return int64(mods[k].VerifMicroTaskCnt())
	}
	return -99999
}

// stopProto handles the stop-protocol hooks. Operations on a module's microtask counter are bracketed like the
// ones on the global counter (hook before: take the mutex; hook after: log with the real value, release), so the
// values in the log are exact and the log is a linearisation of both counters. The read of the counter by
// checkIfStopComplete is bracketed from `mid:cM` to the next hook of the goroutine, which tells the outcome.
func (r *recorder) stopProto(point string, args ...any) {
	g := gid()
	held := r.holder.Load() == g
	switch point {
	case "post", "post:fail", "mid:cCas":
		if !held || r.modKind == "" {
			return // closes a bracket of somebody else's protocol
		}
		k := r.modIdx
		switch {
		case r.modKind == "inc" && point == "post":
			if r.modOuter { // high priority: the own increment of the global counter came first
				r.add(rawEv{g: g, kind: "hinc", a: cntNow()})
			}
			r.add(rawEv{g: g, kind: "begin", a: modCnt(k), b: int64(k)})
		case r.modKind == "dec" && point == "post":
			r.add(rawEv{g: g, kind: "moddec", a: modCnt(k), b: int64(k)})
		case r.modKind == "chk" && point == "mid:cCas":
			r.add(rawEv{kind: "m:mcheck", a: 1, b: int64(k)})
		case r.modKind == "chk" && point == "post:fail":
			r.add(rawEv{kind: "m:mcheck", a: 0, b: int64(k)})
		default:
			return // not the hook that closes this bracket
		}
		r.modKind = ""
		if !r.modOuter {
			r.release(g)
		}
		return
	}
	k := modIndex(args)
	if k < 0 {
		return
	}
	switch point {
	case "pre:inc:m", "pre:dec:m", "mid:cM":
		r.acquire(g)
		r.modKind, r.modIdx, r.modOuter = map[string]string{"pre:inc:m": "inc", "pre:dec:m": "dec", "mid:cM": "chk"}[point], k, held
		return // keep the mutex
	}
	r.acquire(g)
	switch point {
	case "pre:cFast":
		r.add(rawEv{g: g, kind: "stopchk", b: int64(k)})
	case "pre:stopBegin":
		r.add(rawEv{kind: "m:stop", b: int64(k)})
	case "pre:sFlag":
		r.add(rawEv{kind: "m:flag", b: int64(k)})
	case "ev:sWake":
		r.add(rawEv{kind: "m:wake", b: int64(k)})
	case "ev:sTimeout":
		r.add(rawEv{kind: "m:timeout", a: modCnt(k), b: int64(k)})
	case "pre:sOffline":
		r.add(rawEv{kind: "m:offline", b: int64(k)})
	case "pre:startBegin":
		r.add(rawEv{kind: "m:start", b: int64(k)})
	}
	if !held {
		r.release(g)
	}
}

// h logs a harness-side observation.
func (r *recorder) h(kind string, tid int, a int64) {
	g := gid()
	held := r.holder.Load() == g
	if !held && !r.hlock() {
		return
	}
	r.add(rawEv{g: g, kind: "h:" + kind, tid: tid, a: a})
	if !held {
		r.mu.Unlock()
	}
}

// hs logs a harness-side observation that carries a string (counter lists).
func (r *recorder) hs(kind string, tid int, a int64, str string) {
	g := gid()
	held := r.holder.Load() == g
	if !held && !r.hlock() {
		return
	}
	r.add(rawEv{g: g, kind: "h:" + kind, tid: tid, a: a, s: str})
	if !held {
		r.mu.Unlock()
	}
}

// ---------------------------------------------------------------------------------------------
// running a scenario on the real code

var (
	mods     []*modules.Module
	modNames = []string{"c15-a", "c15-b", "c15-c"}
	bootOnce sync.Once
	bootErr  error
)

type panicVal struct{ tid int }

// lifeMode: this process runs one lifecycle scenario (child process only).
var (
	lifeMode   bool
	stopFnHook atomic.Value // of func(module index)
)

func boot() error {
	bootOnce.Do(func() {
		modules.SetStdErrReporting(false)
		log.SetAdapter(log.AdapterFunc(func(log.Message, uint64) {}))
		// warnings stay enabled (failed Start* tasks log one): the log writer then asks the scheduler for its
		// write trigger, which exercises the scheduler's "other" select branch; the adapter discards the lines
		log.SetLogLevel(log.WarningLevel)
		for k, n := range modNames {
			if lifeMode {
				// lifecycle scenarios: every module has a stop function (it submits the microtasks the scenario
				// prescribes) and module management is on, so that single modules can be stopped and restarted
				k := k
				m := modules.Register(n, nil, nil, func() error {
					if f, ok := stopFnHook.Load().(func(int)); ok && f != nil {
						f(k)
					}
					return nil
				})
				mods = append(mods, m)
			} else {
				mods = append(mods, modules.Register(n, nil, nil, nil))
			}
		}
		if lifeMode {
			modules.EnableModuleManagement(nil)
			for _, m := range mods {
				m.Enable()
			}
		}
		modules.VerifSetSink(rec.sink)
		if err := modules.Start(); err != nil {
			bootErr = err
			return
		}
		// wait until the scheduler has parked in its select (guard said "space", nothing requested)
		bootErr = waitParked(5*time.Second, 0)
	})
	return bootErr
}

// waitParked waits until the counter is zero, the queues are empty and the scheduler sits in its select
// after a "space" decision (or, after shutdown, anywhere). It returns how long the scheduler was seen
// parked at "full" without a finished token to wake it (lost wake-up indicator) through parkedNoToken.
var parkedNoToken time.Duration

func waitParked(max time.Duration, wantToks int) error {
	deadline := time.Now().Add(max)
	parkedNoToken = 0
	var since time.Time
	for {
		c, _ := modules.VerifMicroTasks()
		qm, ql, fin := modules.VerifMicroTaskQueues()
		if !rec.hlock() {
			return errors.New("log mutex held by a hook that never completed its bracket (unexpected hook order)")
		}
		ls, n, toks := rec.lastSched, rec.nSched, rec.toks
		rec.mu.Unlock()
		if toks >= wantToks && c == 0 && qm == 0 && ql == 0 && (ls == "space" || ls == "shut" || modules.IsShuttingDown()) {
			// stable? the scheduler must not have moved for a moment
			time.Sleep(200 * time.Microsecond)
			if !rec.hlock() {
				return errors.New("log mutex held by a hook that never completed its bracket (unexpected hook order)")
			}
			same := rec.nSched == n
			rec.mu.Unlock()
			c2, _ := modules.VerifMicroTasks()
			if same && c2 == 0 {
				return nil
			}
			continue
		}
		if ls == "full" && fin == 0 && c == 0 && qm == 0 && ql == 0 {
			if since.IsZero() {
				since = time.Now()
			}
			if d := time.Since(since); d > parkedNoToken {
				parkedNoToken = d
			}
		} else {
			since = time.Time{}
		}
		if time.Now().After(deadline) {
			return fmt.Errorf("not settled: count=%d queues=%d/%d finished=%d scheduler=%q conclusions=%d/%d", c, qm, ql, fin, ls, toks, wantToks)
		}
		time.Sleep(100 * time.Microsecond)
	}
}

type runResult struct {
	evs       []rawEv
	startSch  string
	hang      bool
	hookStuck bool // a hook opened a bracket and the closing hook never came: the hook order is not the expected one
	startFin  int
	settle    error
	finalCnt  int64
	finalMod  []int64
	status    string // GetStatus() summary
	parkedMs  int64
	shutMs    int64 // shutdown class: how long Shutdown() took after the last task ended (-1: not called)
	thr       int64
}

func maxDelayOf(t taskSpec) time.Duration {
	switch {
	case t.DelayMs < 0:
		return time.Hour
	case t.DelayMs == 0:
		return 0
	}
	return time.Duration(t.DelayMs) * time.Millisecond
}

func modOf(t taskSpec) *modules.Module {
	if t.Mod < 0 {
		return nil
	}
	return mods[t.Mod%len(mods)]
}

// errCode tells what the caller of a blocking variant got: 0 nil (the nil interface), 100+kind the very value the
// function returned, 2 the panic error made from this task's panic value, 3 errNoModule, 7/8 anything else.
func errCode(err error, want error, tid int, kind int) int64 {
	switch {
	case err == nil:
		return 0
	case sameErr(err, want):
		return int64(100 + kind%len(errKinds))
	}
	if ok, me := modules.IsPanic(err); ok {
		if pv, ok := me.PanicValue.(panicVal); ok && pv.tid == tid {
			return 2
		}
		return 7
	}
	if strings.Contains(err.Error(), "missing module") {
		return 3
	}
	return 8
}

func sleepUs(us int) {
	if us > 0 {
		time.Sleep(time.Duration(us) * time.Microsecond)
	}
}

func runScenario(sc *scenario) *runResult {
	res := &runResult{shutMs: -1}
	if sc.ErrCh > 0 && os.Getenv("HX_C15_CHILD") != "" {
		// the application's consumer of module errors is not keeping up: a channel that is full after ErrCh-1 reports
		modules.SetErrorReportingChannel(make(chan *modules.ModuleError, sc.ErrCh-1))
	}
	modules.SetMaxConcurrentMicroTasks(sc.Lim)
	_, thr := modules.VerifMicroTasks()
	res.thr = int64(thr)
	rec.fmu.Lock()
	rec.force = sc.Force
	rec.frng = rand.New(rand.NewSource(sc.Seed))
	rec.forcedHits = 0
	rec.fmu.Unlock()
	rec.mu.Lock()
	rec.evs = make([]rawEv, 0, 64+16*len(sc.Tasks))
	rec.on = true
	res.startSch = rec.lastSched
	_, _, res.startFin = modules.VerifMicroTaskQueues()
	rec.dips = 0
	rec.toks = 0
	rec.mu.Unlock()
	wantToks := 0
	for _, t := range sc.Tasks {
		if t.Mod >= 0 {
			wantToks++
		}
	}

	t0 := time.Now()
	us := func() int64 { return time.Since(t0).Microseconds() }
	var wg sync.WaitGroup    // submitters
	var fnWg sync.WaitGroup  // functions of Start* tasks
	var lastEnd atomic.Int64 // unix nanos of the last function end
	var running atomic.Int64 // functions / signalled sections executing right now (the harness's own gauge)
	taskErrs := make([]error, len(sc.Tasks))
	for i := range taskErrs {
		taskErrs[i] = mkErr(sc.Tasks[i].Err%len(errKinds), i)
	}
	mkFn := func(tid int, t taskSpec, counted bool) func(context.Context) error {
		return func(ctx context.Context) error {
			if counted {
				defer fnWg.Done()
			}
			rec.h("fnbegin", tid, us())
			running.Add(1)
			if t.UC && ctx != nil {
				select {
				case <-ctx.Done():
				case <-time.After(time.Duration(t.RunUs) * time.Microsecond):
				}
			} else {
				sleepUs(t.RunUs)
			}
			running.Add(-1)
			rec.h("fnend", tid, us())
			lastEnd.Store(time.Now().UnixNano())
			switch t.Out {
			case 1:
				return taskErrs[tid]
			case 2:
				panic(panicVal{tid})
			}
			return nil
		}
	}
	runSub := func(sub []int) {
		{
			for _, tid := range sub {
				t := sc.Tasks[tid]
				sleepUs(t.PreUs)
				m := modOf(t)
				d := maxDelayOf(t)
				name := "t" + strconv.Itoa(tid)
				rec.h("call", tid, us())
				switch t.Var {
				case 0:
					var err error
					switch t.Prio {
					case 0:
						err = m.RunMicroTask(name, d, mkFn(tid, t, false))
					case 1:
						err = m.RunLowPriorityMicroTask(name, d, mkFn(tid, t, false))
					default:
						err = m.RunHighPriorityMicroTask(name, mkFn(tid, t, false))
					}
					rec.h("ret", tid, errCode(err, taskErrs[tid], tid, t.Err))
				case 1:
					if m != nil {
						fnWg.Add(1)
					}
					switch t.Prio {
					case 0:
						m.StartMicroTask(name, d, mkFn(tid, t, m != nil))
					case 1:
						m.StartLowPriorityMicroTask(name, d, mkFn(tid, t, m != nil))
					default:
						m.StartHighPriorityMicroTask(name, mkFn(tid, t, m != nil))
					}
					rec.h("started", tid, 0)
				default:
					var done func()
					switch t.Prio {
					case 0:
						done = m.SignalMicroTask(d)
					case 1:
						done = m.SignalLowPriorityMicroTask(d)
					default:
						done = m.SignalHighPriorityMicroTask()
					}
					if done == nil {
						rec.h("signil", tid, 0)
						continue
					}
					rec.h("fnbegin", tid, us())
					running.Add(1)
					sleepUs(t.RunUs)
					running.Add(-1)
					rec.h("fnend", tid, us())
					lastEnd.Store(time.Now().UnixNano())
					n := t.Dones
					if n < 1 {
						n = 1
					}
					if t.Conc && n > 1 {
						// all callers are released together, so that their CAS on doneCalled really race
						var dw, ready sync.WaitGroup
						gate := make(chan struct{})
						for k := 0; k < n; k++ {
							dw.Add(1)
							ready.Add(1)
							go func() {
								defer dw.Done()
								rec.h("donecall", tid, 0)
								ready.Done()
								<-gate
								done()
								rec.h("doneret", tid, 0)
							}()
						}
						ready.Wait()
						close(gate)
						dw.Wait()
					} else {
						for k := 0; k < n; k++ {
							rec.h("donecall", tid, 0)
							done()
							rec.h("doneret", tid, 0)
						}
					}
					rec.h("sigend", tid, 0) // this goroutine is through with the task (what it does next is not the task's)
				}
			}
		}
	}
	launch := func(sub []int) {
		wg.Add(1)
		go func() {
			defer wg.Done()
			runSub(sub)
		}()
	}
	dirDone := make(chan struct{})
	abort := make(chan struct{}) // closed by the director when something it waits for never happens
	if len(sc.Life) == 0 {
		for _, sub := range sc.Subs {
			launch(sub)
		}
		close(dirDone)
	} else {
		// lifecycle scenario: the director stops and restarts single modules while microtasks are in flight
		var launched atomic.Int64 // non-nil tasks handed to a submitter / a stop function so far
		nonNil := func(sub []int) (n int64) {
			for _, tid := range sub {
				if sc.Tasks[tid].Mod >= 0 {
					n++
				}
			}
			return
		}
		var stopMu sync.Mutex
		used := make([]bool, len(mods))
		stopFnHook.Store(func(k int) {
			stopMu.Lock()
			first := !used[k]
			used[k] = true
			stopMu.Unlock()
			if first && k < len(sc.StopSubs) && len(sc.StopSubs[k]) > 0 {
				wg.Add(1)
				defer wg.Done()
				launched.Add(nonNil(sc.StopSubs[k]))
				runSub(sc.StopSubs[k]) // the stop function is the submitter
			}
		})
		go func() {
			defer close(dirDone)
		life:
			for _, op := range sc.Life {
				switch op.Op {
				case "sub":
					if op.N >= 0 && op.N < len(sc.Subs) {
						launched.Add(nonNil(sc.Subs[op.N]))
						launch(sc.Subs[op.N])
					}
				case "waitrun":
					for end := time.Now().Add(5 * time.Second); running.Load() < int64(op.N) && time.Now().Before(end); {
						time.Sleep(100 * time.Microsecond)
					}
				case "settmo":
					modules.VerifSetStopTimeout(time.Duration(op.N) * time.Millisecond)
					rec.h("settmo", -1, int64(op.N))
				case "stop":
					rec.h("modstop-call", op.N, us())
					mods[op.N%len(mods)].Disable()
					_ = modules.ManageModules()
					rec.h("modstop-ret", op.N, us())
				case "start":
					rec.h("modstart-call", op.N, us())
					mods[op.N%len(mods)].Enable()
					_ = modules.ManageModules()
					rec.h("modstart-ret", op.N, us())
				case "sleep":
					sleepUs(op.N)
				case "quiet":
					fin := make(chan struct{})
					go func() {
						wg.Wait()
						fnWg.Wait()
						close(fin)
					}()
					select {
					case <-fin:
					case <-time.After(20 * time.Second):
						// something submitted never returned / never ran: the rest of the script is pointless
						close(abort)
						break life
					}
					settle := "ok"
					if err := waitParked(15*time.Second, int(launched.Load())); err != nil {
						settle = strings.ReplaceAll(err.Error(), " ", "_")
					}
					c, _ := modules.VerifMicroTasks()
					var ms []string
					for _, m := range mods {
						ms = append(ms, strconv.Itoa(int(m.VerifMicroTaskCnt())))
					}
					rec.hs("quiet", -1, int64(c), strings.Join(ms, ",")+" settle="+settle)
					if settle != "ok" {
						break life // the counters are off for good: what follows would only repeat it (slowly)
					}
				case "shutdown":
					rec.h("shutdown-call", -1, 0)
					_ = modules.Shutdown()
					rec.h("shutdown-ret", -1, 0)
					res.shutMs = 0
					if le := lastEnd.Load(); le > 0 {
						if d := time.Since(time.Unix(0, le)); d > 0 {
							res.shutMs = d.Milliseconds()
						}
					}
				}
			}
		}()
	}
	var shutDone chan struct{}
	if sc.Class == "shutdown" {
		shutDone = make(chan struct{})
		go func() {
			defer close(shutDone)
			sleepUs(sc.ShutAtUs)
			rec.h("shutdown-call", -1, 0)
			_ = modules.Shutdown()
			rec.h("shutdown-ret", -1, 0)
			res.shutMs = 0
			if le := lastEnd.Load(); le > 0 {
				if d := time.Since(time.Unix(0, le)); d > 0 {
					res.shutMs = d.Milliseconds()
				}
			}
		}()
	}
	allDone := make(chan struct{})
	go func() {
		<-dirDone
		wg.Wait()
		fnWg.Wait()
		close(allDone)
	}()
	hangAfter := 20 * time.Second
	if len(sc.Life) > 0 {
		hangAfter = 60 * time.Second // stops that wait out a timeout of some seconds are reported, not cut off
	} else if sc.Class == "errchan" {
		hangAfter = 12 * time.Second // a dozen microtasks of at most a few ms each, in a process of their own
	}
	select {
	case <-allDone:
		res.settle = waitParked(15*time.Second, wantToks)
		res.parkedMs = parkedNoToken.Milliseconds()
	case <-abort:
		res.hang = true
		res.settle = errors.New("hang")
	case <-time.After(hangAfter):
		// some call never returned (e.g. nothing is admitted any more): report, the process state is lost
		res.hang = true
		res.settle = errors.New("hang")
	}
	if shutDone != nil {
		select {
		case <-shutDone:
		case <-time.After(20 * time.Second):
			res.shutMs = 20000
		}
	}
	if rec.hlock() {
		rec.on = false
		res.evs = rec.evs
		rec.evs = nil
		rec.mu.Unlock()
	} else {
		res.hookStuck = true
	}
	c, _ := modules.VerifMicroTasks()
	res.finalCnt = int64(c)
	for _, m := range mods {
		res.finalMod = append(res.finalMod, int64(m.VerifMicroTaskCnt()))
	}
	if st := modules.GetStatus(); st != nil {
		var parts []string
		for _, n := range modNames {
			if ms := st.Modules[n]; ms != nil {
				parts = append(parts, strconv.Itoa(ms.MicroTasks))
			} else {
				parts = append(parts, "?")
			}
		}
		res.status = fmt.Sprintf("total=%d thr=%d mods=%s", st.Total.MicroTasks, st.Config.MicroTasksThreshhold, strings.Join(parts, ","))
	} else {
		res.status = "nil"
	}
	return res
}

// ---------------------------------------------------------------------------------------------
// canonicalisation: raw log -> trace lines

func canon(sc *scenario, res *runResult) []string {
	b, _ := json.Marshal(sc)
	lines := []string{"scn " + string(b), fmt.Sprintf("lim %d %d", res.thr, res.startFin)}
	for i, t := range sc.Tasks {
		nilm := 0
		if t.Mod < 0 {
			nilm = 1
		}
		zd := 0
		if t.Var == 2 && t.Prio != 2 && t.DelayMs == 0 {
			zd = 1 // Signal*MicroTask(0): documented "use the default", see the recorded finding
		}
		md := 0
		if t.Mod >= 0 {
			md = t.Mod % len(modNames)
		}
		lines = append(lines, fmt.Sprintf("new %d %d %d %d %d %d", i, t.Prio, t.Var, nilm, zd, md))
	}
	// the scheduler of the previous case is still parked in its select after a "space" decision taken at
	// count 0; with count 0 that decision is the same under the new limit
	if res.startSch == "space" {
		lines = append(lines, fmt.Sprintf("s space 0 %d", res.thr))
	}
	if res.hookStuck {
		// not a statement about the property: the tie itself is broken (reported as a disagreement)
		return append(lines, "hook-order-broken")
	}
	evs := res.evs
	// pass 1: which task does a goroutine work for, at each point of the log
	type iv struct{ from, to, tid int }
	ivs := map[int64][]iv{}
	open := map[int64]int{} // goroutine -> index into ivs[g] of the open interval
	dedicated := map[int64]int{}
	for i, e := range evs {
		switch e.kind {
		case "h:call", "h:donecall":
			if k, ok := open[e.g]; ok { // a Signal* caller stays inside its task until its next call / done
				ivs[e.g][k].to = i - 1
			}
			ivs[e.g] = append(ivs[e.g], iv{i, len(evs), e.tid})
			open[e.g] = len(ivs[e.g]) - 1
		case "h:ret", "h:started", "h:signil", "h:doneret", "h:sigend":
			if k, ok := open[e.g]; ok {
				ivs[e.g][k].to = i
				delete(open, e.g)
			}
		case "h:fnbegin":
			if _, ok := open[e.g]; !ok {
				dedicated[e.g] = e.tid
			}
		}
	}
	tidAt := func(g int64, i int) int {
		for _, v := range ivs[g] {
			if v.from <= i && i <= v.to {
				return v.tid
			}
		}
		if t, ok := dedicated[g]; ok {
			return t
		}
		return -1
	}
	chanTid := map[any]int{}
	for i, e := range evs {
		if e.kind == "submit" {
			chanTid[e.ch] = tidAt(e.g, i)
		}
	}
	// pass 2: emit
	type doneSt struct {
		concluded bool // winner's moddec seen
		pending   int  // losers that returned before the winner logged its conclude
	}
	ds := map[int]*doneSt{}
	winnerG := map[int]int64{}
	shutdownEmitted := false
	sawShutdownCall := false
	for i, e := range evs {
		if strings.HasPrefix(e.kind, "h:") {
			k := e.kind[2:]
			if e.s != "" {
				lines = append(lines, fmt.Sprintf("h %s %d %d %s", k, e.tid, e.a, e.s))
			} else {
				lines = append(lines, fmt.Sprintf("h %s %d %d", k, e.tid, e.a))
			}
			t := taskSpec{}
			if e.tid >= 0 && e.tid < len(sc.Tasks) {
				t = sc.Tasks[e.tid]
			}
			switch k {
			case "ret":
				if t.Mod < 0 {
					lines = append(lines, fmt.Sprintf("t %d nilret", e.tid))
				} else {
					lines = append(lines, fmt.Sprintf("t %d ret %d", e.tid, e.a))
				}
			case "signil":
				lines = append(lines, fmt.Sprintf("t %d nilret", e.tid))
			case "started":
				if t.Mod < 0 {
					lines = append(lines, fmt.Sprintf("t %d nilret", e.tid))
				}
			case "doneret":
				d := ds[e.tid]
				if d == nil {
					d = &doneSt{}
					ds[e.tid] = d
				}
				if wg, ok := winnerG[e.tid]; ok && wg == e.g {
					lines = append(lines, fmt.Sprintf("t %d ret 0", e.tid))
					delete(winnerG, e.tid) // later calls from the same goroutine are losers
					winnerG[e.tid] = -1
				} else if d.concluded {
					lines = append(lines, fmt.Sprintf("t %d doneagain", e.tid))
				} else {
					d.pending++
				}
			case "quiet":
				if f := strings.Fields(e.s); len(f) >= 1 {
					lines = append(lines, fmt.Sprintf("q %d %s", e.a, f[0]))
				}
			case "shutdown-call":
				sawShutdownCall = true
			case "shutdown-ret":
				if !shutdownEmitted {
					lines = append(lines, "shutdown")
					shutdownEmitted = true
				}
			}
			continue
		}
		if strings.HasPrefix(e.kind, "s:") {
			k := e.kind[2:]
			switch k {
			case "space", "full":
				lines = append(lines, fmt.Sprintf("s %s %d %d", k, e.a, e.b))
			case "shut":
				if !shutdownEmitted && sawShutdownCall {
					lines = append(lines, "shutdown")
					shutdownEmitted = true
				}
				lines = append(lines, "s shut")
			case "grant":
				t, ok := chanTid[e.ch]
				if !ok {
					t = 999999
				}
				lines = append(lines, fmt.Sprintf("s grant %d", t))
			case "count":
				lines = append(lines, fmt.Sprintf("s count %d", e.a))
			default:
				lines = append(lines, "s "+k)
			}
			continue
		}
		if strings.HasPrefix(e.kind, "m:") {
			switch k := e.kind[2:]; k {
			case "mcheck", "timeout":
				lines = append(lines, fmt.Sprintf("m %d %s %d", e.b, k, e.a))
			default:
				lines = append(lines, fmt.Sprintf("m %d %s", e.b, k))
			}
			continue
		}
		tid := tidAt(e.g, i)
		if e.kind == "stopchk" && tid < 0 {
			continue // a stop check by somebody else (stop function, …): only its read of the counter (mcheck) is ours
		}
		if tid < 0 {
			tid = 999999
		}
		switch e.kind {
		case "stopchk":
			lines = append(lines, fmt.Sprintf("t %d stopchk", tid))
		case "begin":
			lines = append(lines, fmt.Sprintf("t %d begin %d", tid, e.a))
		case "submit":
			lines = append(lines, fmt.Sprintf("t %d submit %s", tid, map[int64]string{0: "m", 1: "l"}[e.a]))
		case "hinc", "tmoenq", "dec":
			lines = append(lines, fmt.Sprintf("t %d %s %d", tid, e.kind, e.a))
		case "tok":
			lines = append(lines, fmt.Sprintf("t %d tok %d", tid, e.a))
		case "moddec":
			out := 0
			if tid < len(sc.Tasks) && sc.Tasks[tid].Var != 2 {
				out = outCode(sc.Tasks[tid])
			}
			lines = append(lines, fmt.Sprintf("t %d moddec %d %d", tid, out, e.a))
			if tid < len(sc.Tasks) && sc.Tasks[tid].Var == 2 {
				d := ds[tid]
				if d == nil {
					d = &doneSt{}
					ds[tid] = d
				}
				d.concluded = true
				if _, seen := winnerG[tid]; !seen {
					winnerG[tid] = e.g
				}
				for ; d.pending > 0; d.pending-- {
					lines = append(lines, fmt.Sprintf("t %d doneagain", tid))
				}
			}
		default:
			lines = append(lines, fmt.Sprintf("t %d %s", tid, e.kind))
		}
	}
	if sawShutdownCall && !shutdownEmitted {
		lines = append(lines, "shutdown")
	}
	var modSum int64
	var ms []string
	for _, v := range res.finalMod {
		modSum += v
		ms = append(ms, strconv.FormatInt(v, 10))
	}
	settle := "ok"
	if res.settle != nil {
		settle = strings.ReplaceAll(res.settle.Error(), " ", "_")
	}
	if res.hang {
		lines = append(lines, "h hang -1 0")
	}
	lines = append(lines, fmt.Sprintf("h final %d %s settle=%s parkedms=%d shutms=%d status:%s", res.finalCnt, strings.Join(ms, ","),
		settle, res.parkedMs, res.shutMs, strings.ReplaceAll(res.status, " ", ";")))
	lines = append(lines, fmt.Sprintf("end %d %d %s", res.finalCnt, modSum, strings.Join(ms, ",")))
	return lines
}

// ---------------------------------------------------------------------------------------------
// Exec: recorded events "happened"; glue ops run the real code

type execT struct{}

func (execT) Do(line string) string {
	f := strings.Fields(line)
	if len(f) == 0 {
		return "bad-op"
	}
	switch f[0] {
	case "scn", "lim", "new", "t", "s", "m", "q", "h", "shutdown", "end":
		return "ok"
	case "child-failed", "boot-failed", "hook-order-broken":
		return "HARNESS-ERROR " + line
	case "setmax":
		if len(f) != 2 {
			return "bad-op"
		}
		n, err := strconv.ParseInt(f[1], 10, 32)
		if err != nil {
			return "bad-op"
		}
		if err := boot(); err != nil {
			return "boot-failed " + err.Error()
		}
		modules.SetMaxConcurrentMicroTasks(int(n))
		_, thr := modules.VerifMicroTasks()
		st := modules.GetStatus()
		if st == nil || st.Config.MicroTasksThreshhold != int(thr) {
			return "status-mismatch"
		}
		return strconv.Itoa(int(thr))
	}
	return "bad-op"
}

// ---------------------------------------------------------------------------------------------
// monitor: the property statement, read off the scn and h lines only

const (
	sigLimit      = "C15:limit-exceeded-before-any-expiry"
	sigLimitSig   = "C15:limit-exceeded:signal-variants-with-maxdelay-0" // recorded finding (props/C15.findings.json)
	sigOnce       = "C15:function-not-executed-exactly-once"
	sigErr        = "C15:blocking-variant-returned-wrong-error"
	sigCount      = "C15:global-count-not-zero-after-quiescence"
	sigMod        = "C15:module-count-not-zero-after-quiescence"
	sigSettle     = "C15:scheduler-not-settled-after-all-finished"
	sigWake       = "C15:scheduler-left-waiting-without-token"
	sigStop       = "C15:shutdown-held-up-after-all-finished"
	sigCrash      = "C15:start-variant-on-nil-module-crashes-the-process"
	sigHang       = "C15:submitted-microtasks-never-returned"
	sigPanicNoRet = "C15:blocking-variant-never-returned-after-panic"
	sigModStop    = "C15:module-stop-held-up-after-all-finished"
)

func effDelay(t taskSpec) time.Duration {
	switch {
	case t.DelayMs < 0:
		return time.Hour
	case t.DelayMs > 0:
		return time.Duration(t.DelayMs) * time.Millisecond
	case t.Prio == 1 && t.Var != 2:
		return 3 * time.Second // documented default of the low-priority Run/Start variants
	}
	return time.Second // documented default of the medium variants; for Signal*Low the smaller value is the lenient one
}

func monitor(c hxlib.Case, outs []string) []hxlib.Violation {
	if len(c.Lines) == 0 || !strings.HasPrefix(c.Lines[0], "scn ") {
		return nil
	}
	var sc scenario
	if err := json.Unmarshal([]byte(c.Lines[0][4:]), &sc); err != nil {
		return []hxlib.Violation{{Sig: "C15:bad-scenario-line", What: err.Error(), Lines: c.Lines}}
	}
	if c.Lines[len(c.Lines)-1] == "hook-order-broken" {
		return nil // nothing was observed; the broken tie is reported through the correspondence
	}
	var vs []hxlib.Violation
	add := func(sig, what string) {
		for _, v := range vs {
			if v.Sig == sig {
				return
			}
		}
		vs = append(vs, hxlib.Violation{Sig: sig, What: what, Lines: c.Lines})
	}
	n := len(sc.Tasks)
	execs := make([]int, n)
	running := map[int]bool{} // medium/low tasks inside their function / signalled section
	highActive := map[int]bool{}
	callAt := make([]int64, n)
	called := make([]bool, n)
	endAt := make([]int64, n)
	ended := make([]bool, n)
	stopCallAt := map[int]int64{}
	stopTmoMs := int64(0) // the module stop timeout in force (0: the default of one minute, never waited out here)
	shutdownBegun := false
	maxML := 0
	zeroSignalCalled := false // has a medium/low Signal*MicroTask(0) call been made so far?
	sigOnly := false          // … before the instant at which the limit was exceeded (the finding's input class)
	limitBroken := false
	var limitWhat string
	expired := sc.Class == "expiry" || sc.Class == "flood"
	lim := sc.Lim
	if lim < 2 {
		lim = 2
	}
	fnEnded, returned := map[int]bool{}, map[int]bool{}
	for _, l := range c.Lines {
		if f := strings.Fields(l); len(f) >= 3 && f[0] == "h" && (f[1] == "fnend" || f[1] == "ret") {
			if tid, err := strconv.Atoi(f[2]); err == nil {
				if f[1] == "fnend" {
					fnEnded[tid] = true
				} else {
					returned[tid] = true
				}
			}
		}
	}
	for _, l := range c.Lines {
		if !strings.HasPrefix(l, "h ") {
			continue
		}
		f := strings.Fields(l)
		if f[1] == "crash" {
			return []hxlib.Violation{{Sig: sigCrash, What: "the process running the scenario died: " + strings.Join(f[4:], " "), Lines: c.Lines}}
		}
		if f[1] == "hang" {
			// which clause: a blocking call whose function had ended by a panic and that never came back is "its error
			// is returned to the caller of the blocking variants"; anything else is the general report
			for tid, t := range sc.Tasks {
				if t.Var == 0 && t.Out == 2 && t.Mod >= 0 && fnEnded[tid] && !returned[tid] {
					return []hxlib.Violation{{Sig: sigPanicNoRet, What: fmt.Sprintf("task %d (%s, prio %d): the function panicked, yet the blocking call had not returned %s later (error reporting channel: %s); nothing was returned to the caller", tid, "Run*MicroTask", t.Prio, "12 s / 20 s", errChDesc(sc.ErrCh)), Lines: c.Lines}}
				}
			}
			return []hxlib.Violation{{Sig: sigHang, What: "long after submission (20 s; lifecycle scenarios: 20 s at a quiescence point / 60 s overall) not every submitted microtask had been executed and had returned (max delays of one hour: nothing was admitted any more, or a function was never run)", Lines: c.Lines}}
		}
		if f[1] == "final" {
			cnt, _ := strconv.ParseInt(f[2], 10, 64)
			if cnt != 0 {
				add(sigCount, fmt.Sprintf("after all microtasks finished and the scheduler settled the global count is %d", cnt))
			}
			for i, s := range strings.Split(f[3], ",") {
				if s != "0" {
					add(sigMod, fmt.Sprintf("after all microtasks finished module %d has a microtask count of %s", i, s))
				}
			}
			for _, kv := range f[4:] {
				switch {
				case strings.HasPrefix(kv, "settle=") && kv != "settle=ok":
					add(sigSettle, "counter/queues/scheduler did not settle within 15s: "+kv[7:])
				case strings.HasPrefix(kv, "parkedms="):
					if ms, _ := strconv.Atoi(kv[9:]); ms >= 400 {
						add(sigWake, fmt.Sprintf("all microtasks finished, count 0, but the scheduler stayed parked at 'full' without a finished token for %d ms (it then needs the 1s recheck ticker)", ms))
					}
				case strings.HasPrefix(kv, "shutms="):
					if ms, _ := strconv.Atoi(kv[7:]); ms >= 10000 {
						add(sigStop, fmt.Sprintf("Shutdown() still had not returned %d ms after the last microtask finished", ms))
					}
				case strings.HasPrefix(kv, "status:"):
					st := kv[7:]
					if st != "nil" && (!strings.Contains(st, "total=0;") || !strings.HasSuffix(st, "mods=0,0,0")) {
						add(sigMod, "GetStatus() after quiescence: "+st)
					}
				}
			}
			continue
		}
		if len(f) < 4 {
			continue
		}
		tid, _ := strconv.Atoi(f[2])
		a, _ := strconv.ParseInt(f[3], 10, 64)
		if f[1] == "shutdown-call" {
			shutdownBegun = true
			continue
		}
		switch f[1] {
		case "settmo":
			stopTmoMs = a
			continue
		case "quiet":
			// everything submitted so far has finished: "the global and per-module running counts are zero again"
			if a != 0 {
				add(sigCount, fmt.Sprintf("all microtasks submitted so far have finished (mid-scenario quiescence), yet the global count is %d", a))
			}
			if len(f) > 4 {
				for i, s := range strings.Split(f[4], ",") {
					if s != "0" {
						add(sigMod, fmt.Sprintf("all microtasks submitted so far have finished (mid-scenario quiescence), yet module %d has a microtask count of %s", i, s))
					}
				}
			}
			for _, kv := range f[4:] {
				if strings.HasPrefix(kv, "settle=") && kv != "settle=ok" {
					add(sigSettle, "counter/queues/scheduler did not settle within 15s (mid-scenario quiescence): "+kv[7:])
				}
			}
			continue
		case "modstop-call":
			stopCallAt[tid] = a
			continue
		case "modstop-ret":
			// "module stops are not held up": a stop that lasted as long as the stop timeout has waited the timeout
			// out; that is only justified while a microtask of the module (or the stop function submitting one) is
			// still busy. Judged only if every microtask of the module called so far ended at least
			// max(timeout/2, 1 s) before the timeout expired (tolerance in the implementation's favour).
			c0, ok := stopCallAt[tid]
			if !ok || stopTmoMs <= 0 || a-c0 < stopTmoMs*1000 {
				continue
			}
			margin := stopTmoMs * 1000 / 2
			if margin < 1000000 {
				margin = 1000000
			}
			busy, last := false, int64(-1)
			for i, t := range sc.Tasks {
				if t.Mod < 0 || t.Mod%3 != tid || !called[i] {
					continue
				}
				if !ended[i] {
					busy = true
				} else if endAt[i] > last {
					last = endAt[i]
				}
			}
			if !busy && last+margin <= c0+stopTmoMs*1000 {
				add(sigModStop, fmt.Sprintf("stop of module %d took %d ms = the whole stop timeout (%d ms) although every microtask of the module had finished %d ms before the timeout expired (last one ended %d µs after the scenario began, the stop was called at %d µs)",
					tid, (a-c0)/1000, stopTmoMs, (c0+stopTmoMs*1000-last)/1000, last, c0))
			}
			continue
		case "modstart-call", "modstart-ret":
			continue
		}
		if tid < 0 || tid >= n {
			continue
		}
		t := sc.Tasks[tid]
		switch f[1] {
		case "call":
			callAt[tid] = a
			called[tid] = true
			if t.Var == 2 && t.Prio != 2 && t.DelayMs == 0 {
				zeroSignalCalled = true
			}
			if t.Prio == 2 {
				highActive[tid] = true
			}
		case "fnbegin":
			execs[tid]++
			if t.DelayMs >= 0 && time.Duration(a-callAt[tid])*time.Microsecond >= effDelay(t)*2/5 {
				// the task waited (nearly) as long as its maximum delay: from here on the proviso
				// "no maximum delay has expired" may be void (tolerance in the implementation's favour)
				expired = true
			}
			if t.Prio != 2 {
				running[tid] = true
				if len(running) > maxML {
					maxML = len(running)
				}
				if !shutdownBegun && !expired && len(highActive) == 0 && len(running) > lim && !limitBroken {
					limitBroken = true
					sigOnly = zeroSignalCalled
					ids := make([]int, 0, len(running))
					for k := range running {
						ids = append(ids, k)
					}
					sort.Ints(ids)
					limitWhat = fmt.Sprintf("limit %d, no shutdown, no high-priority microtask active, no max delay expired (class %s), yet %d medium/low microtasks execute at once: tasks %v", lim, sc.Class, len(running), ids)
					if t.DelayMs != 0 {
						md := "never (1 h)"
						if t.DelayMs > 0 {
							md = fmt.Sprintf("%d ms", t.DelayMs)
						}
						limitWhat += fmt.Sprintf("; the last to start, task %d (%s priority, %s variant), was submitted with max delay %s and started %d ms after its call while all slots were taken",
							tid, []string{"medium", "low", "high"}[t.Prio], []string{"Run", "Start", "Signal"}[t.Var], md, (a-callAt[tid])/1000)
					}
				}
			}
		case "fnend":
			delete(running, tid)
			endAt[tid], ended[tid] = a, true
			if t.Prio == 2 && t.Var != 0 {
				delete(highActive, tid) // Start*/Signal* high: nothing later tells us; the function end does
			}
		case "ret":
			delete(highActive, tid)
			if t.Var == 0 {
				want := int64(outCode(t))
				if t.Mod < 0 {
					want = 3
				}
				if a != want {
					what := map[int]string{0: "returned nil", 1: "returned an error: " + errKinds[t.Err%len(errKinds)], 2: "panicked"}[t.Out]
					if t.Mod < 0 {
						what = "was not run (nil module)"
					}
					add(sigErr, fmt.Sprintf("task %d (%+v): blocking variant; the function %s, so the caller must get %s — it got %s (codes %d / %d)",
						tid, t, what, outName(want), outName(a), want, a))
				}
			}
		}
	}
	if limitBroken {
		if sigOnly {
			add(sigLimitSig, limitWhat)
		} else {
			add(sigLimit, limitWhat)
		}
	}
	for i, t := range sc.Tasks {
		want := 1
		if t.Mod < 0 {
			want = 0
		}
		if !called[i] {
			continue // never submitted (a lifecycle script that was cut short): nothing to judge
		}
		if execs[i] != want {
			add(sigOnce, fmt.Sprintf("task %d (%+v) was executed %d times, expected %d", i, t, execs[i], want))
		}
	}
	return vs
}

// ---------------------------------------------------------------------------------------------
// generator

func genScenario(r *hxlib.Run, class string) *scenario {
	rng := r.Rng
	sc := &scenario{Class: class, Lim: 2 + rng.Intn(7), Seed: rng.Int63()}
	if rng.Intn(10) == 0 {
		sc.Lim = rng.Intn(2) // below the minimum: SetMaxConcurrentMicroTasks must make it 2
	}
	nTasks := 1 + rng.Intn(r.Budget(40, 120))
	if rng.Intn(6) == 0 {
		nTasks = 1 + rng.Intn(4)
	}
	runMax := []int{0, 50, 300, 1500, 3000}[rng.Intn(5)]
	nSubs := 1 + rng.Intn(16)
	if nSubs > nTasks {
		nSubs = nTasks
	}
	highPct := []int{0, 0, 10, 30}[rng.Intn(4)]
	nilPct := []int{0, 0, 0, 5}[rng.Intn(4)]
	for i := 0; i < nTasks; i++ {
		t := taskSpec{Prio: rng.Intn(2), Var: rng.Intn(3), Mod: rng.Intn(3), Out: 0, DelayMs: -1}
		if rng.Intn(100) < highPct {
			t.Prio = 2
		}
		if rng.Intn(100) < nilPct {
			t.Mod = -1
			if t.Var == 1 && class != "nilstart" {
				t.Var = 0 // Start* on a nil module only in child processes (class nilstart): it used to crash the process
			}
		}
		if t.Var != 2 {
			t.Out = []int{0, 0, 0, 1, 1, 2}[rng.Intn(6)]
			if t.Out == 1 {
				t.Err = drawErrKind(rng)
			}
		}
		if runMax > 0 {
			t.RunUs = rng.Intn(runMax + 1)
		}
		if rng.Intn(4) == 0 {
			t.PreUs = rng.Intn(400)
		}
		if t.Var == 2 {
			t.Dones = 1 + rng.Intn(4)
			t.Conc = rng.Intn(2) == 0
			if t.Conc {
				t.Dones = 2 + rng.Intn(7)
			}
		}
		sc.Tasks = append(sc.Tasks, t)
	}
	switch class {
	case "default":
		// maxDelay 0 = the documented default (1s/3s); the scenario is kept far shorter than that
		if len(sc.Tasks) > 12 {
			sc.Tasks = sc.Tasks[:12]
		}
		for i := range sc.Tasks {
			sc.Tasks[i].DelayMs = 0
			if sc.Tasks[i].RunUs > 2000 {
				sc.Tasks[i].RunUs = 2000
			}
			if sc.Tasks[i].RunUs < 300 {
				sc.Tasks[i].RunUs = 300 + rng.Intn(700)
			}
		}
	case "expiry":
		// short max delays against long-running tasks: expiries happen
		for i := range sc.Tasks {
			sc.Tasks[i].DelayMs = 1 + rng.Intn(3)
			sc.Tasks[i].RunUs = 500 + rng.Intn(4000)
		}
	case "nilstart":
		if len(sc.Tasks) > 10 {
			sc.Tasks = sc.Tasks[:10]
		}
		k := rng.Intn(len(sc.Tasks))
		sc.Tasks[k].Mod = -1
		sc.Tasks[k].Var = 1
	case "shutdown":
		total := 0
		for _, t := range sc.Tasks {
			total += t.RunUs + t.PreUs
		}
		sc.ShutAtUs = rng.Intn(total/(2*nSubs) + 200)
		// blocking calls in flight when the shutdown stops their module: the function sees the cancelled context
		// and returns its error then (or after its run time)
		for i := range sc.Tasks {
			if sc.Tasks[i].Var != 2 && rng.Intn(3) == 0 {
				sc.Tasks[i].UC = true
				sc.Tasks[i].RunUs += rng.Intn(3000)
			}
		}
	}
	sc.Subs = make([][]int, nSubs)
	for i := range sc.Tasks {
		k := rng.Intn(nSubs)
		sc.Subs[k] = append(sc.Subs[k], i)
	}
	// schedule forcing
	sc.Force = forcing{Prob: map[string]int{}, MaxUs: []int{100, 500, 2000}[rng.Intn(3)]}
	switch rng.Intn(6) {
	case 5: // everything finishes while the scheduler is between its "full" decision and its wait
		sc.Force.Prob["sched-full"] = 60 + rng.Intn(41)
		sc.Force.MaxUs = 2000 + rng.Intn(3000)
	case 0: // free running
	case 1: // hold the scheduler between close and count: granted tasks run (and may finish) uncounted
		sc.Force.Prob["sched-granted"] = 50 + rng.Intn(51)
	case 2: // hold finishers before / after their decrement
		sc.Force.Prob["conclude"] = 30 + rng.Intn(71)
		sc.Force.Prob["concluded"] = rng.Intn(60)
	case 3: // everything a little
		for _, p := range []string{"sched-granted", "conclude", "concluded", "pre-inc", "sched-loop", "sched-full"} {
			sc.Force.Prob[p] = rng.Intn(40)
		}
	case 4: // slow scheduler loop, fast finishers
		sc.Force.Prob["sched-loop"] = 50 + rng.Intn(51)
	}
	return sc
}

func errChDesc(n int) string {
	if n <= 0 {
		return "none installed"
	}
	return fmt.Sprintf("capacity %d, nobody reading", n-1)
}

// errChanScenario: class errchan. The application has installed an error reporting channel (capacity 0..2) and is not
// reading it; more microtask functions panic than the channel holds — Run* and Start* variants of every priority,
// next to healthy / failing / signalled neighbours. What the property says about a panicking microtask (error back to
// the blocking caller, counts zero again, scheduler settled) does not depend on anybody consuming module errors.
func errChanScenario(r *hxlib.Run) *scenario {
	rng := r.Rng
	sc := genScenario(r, "noexpiry")
	sc.Class = "errchan"
	sc.ErrCh = 1 + rng.Intn(3)
	if len(sc.Tasks) > 14 {
		sc.Tasks = sc.Tasks[:14]
	}
	for len(sc.Tasks) < sc.ErrCh+2 {
		sc.Tasks = append(sc.Tasks, taskSpec{Prio: rng.Intn(3), Var: rng.Intn(2), Mod: rng.Intn(3), DelayMs: -1, RunUs: rng.Intn(500)})
	}
	// at least capacity+2 panicking functions (>= 2), the first of them a blocking call
	want := sc.ErrCh + 1 + rng.Intn(3)
	have := 0
	for _, i := range rng.Perm(len(sc.Tasks)) {
		t := &sc.Tasks[i]
		if have >= want {
			break
		}
		if t.Mod < 0 {
			t.Mod = rng.Intn(3)
		}
		if t.Var == 2 {
			t.Var, t.Dones, t.Conc = rng.Intn(2), 0, false
		}
		if have == 0 {
			t.Var = 0
		}
		t.Out, t.Err = 2, 0
		have++
	}
	nSubs := 1 + rng.Intn(4)
	if nSubs > len(sc.Tasks) {
		nSubs = len(sc.Tasks)
	}
	sc.Subs = make([][]int, nSubs)
	for i := range sc.Tasks {
		k := rng.Intn(nSubs)
		sc.Subs[k] = append(sc.Subs[k], i)
	}
	return sc
}

// floodScenario floods the clearance queue of one priority (0 = medium, 1 = low): each queue has its own
// enqueue-timeout branch in the code (get*PriorityClearance), so both are filled in every run.
func floodScenario(r *hxlib.Run, prio int) *scenario {
	// more short-delay requests than the clearance queue holds while the scheduler is blocked by long tasks:
	// wait-timeouts leave stale requests behind until the queue is full, then enqueue-timeouts count themselves
	rng := r.Rng
	qcap := modules.VerifMicroTaskQueueCap()
	// the scheduler loop is slowed down so that the submitters outpace it and the queue really fills up
	sc := &scenario{Class: "flood", Lim: 2, Seed: rng.Int63(), Force: forcing{Prob: map[string]int{"sched-loop": 100}, MaxUs: 1500}}
	for i := 0; i < 2; i++ {
		sc.Tasks = append(sc.Tasks, taskSpec{Prio: 0, Var: 0, Mod: i, RunUs: 60000, DelayMs: -1})
		sc.Subs = append(sc.Subs, []int{i})
	}
	n := qcap + 150 + rng.Intn(100)
	var sub []int
	for i := 0; i < n; i++ {
		sc.Tasks = append(sc.Tasks, taskSpec{Prio: prio, Var: 1, Mod: rng.Intn(3), RunUs: rng.Intn(50), DelayMs: 2, Out: []int{0, 1}[rng.Intn(2)]})
		sub = append(sub, 2+i)
	}
	sc.Tasks[2].PreUs = 3000 // let the two blockers get their clearances first
	sc.Subs = append(sc.Subs, sub)
	return sc
}

// longDelayScenario: class long-delay-held. All slots are held — for longer than both *default* max delays (1 s
// medium, 3 s low) — by microtasks that got their clearance (max delay: never), while medium- and low-priority
// microtasks of every variant that were submitted with an *explicit* max delay of 10..20 s wait. No shutdown, no
// high-priority task, and no maximum delay expires (the waiters are admitted after ~3.5 s, far below 40 % of their
// delay): nothing may start before a slot frees. Each of the four timers of get*PriorityClearance is exercised: the
// wait-phase timers by the ordinary waiters, the enqueue-phase timers by the `flood` variant, in which more requests
// than the clearance queue holds are submitted to each priority, so that the surplus sits in the enqueue select.
// The scenario takes 3.5 s of real time and runs in a child process next to the other scenarios.
func longDelayScenario(r *hxlib.Run, flood bool) *scenario {
	rng := r.Rng
	sc := &scenario{Class: "long-delay-held", Lim: 2 + rng.Intn(2), Seed: rng.Int63(), Force: forcing{Prob: map[string]int{}, MaxUs: 100}}
	hold := 3350000 + rng.Intn(200000)
	for i := 0; i < sc.Lim; i++ { // the blockers
		t := taskSpec{Prio: rng.Intn(2), Var: rng.Intn(3), Mod: i % 3, RunUs: hold + rng.Intn(50000), DelayMs: -1}
		if t.Var == 2 {
			t.Dones = 1
		}
		sc.Tasks = append(sc.Tasks, t)
		sc.Subs = append(sc.Subs, []int{i})
	}
	waiter := func(prio, v int) taskSpec {
		t := taskSpec{Prio: prio, Var: v, Mod: rng.Intn(3), RunUs: 200 + rng.Intn(1800), DelayMs: 10000 + rng.Intn(10001)}
		if v == 2 {
			t.Dones = 1 + rng.Intn(2)
		} else {
			t.Out = []int{0, 0, 1, 2}[rng.Intn(4)]
			if t.Out == 1 {
				t.Err = drawErrKind(rng)
			}
		}
		return t
	}
	n := 3 + rng.Intn(4)
	for i := 0; i < n; i++ {
		prio := rng.Intn(2)
		if i < 2 {
			prio = 1 - i // at least one of each priority: the low default (3 s) is the longer one
		}
		t := waiter(prio, rng.Intn(3))
		t.PreUs = 30000 + rng.Intn(20000) // the blockers get their clearances first
		sc.Tasks = append(sc.Tasks, t)
		sc.Subs = append(sc.Subs, []int{len(sc.Tasks) - 1})
	}
	if flood {
		for fp := 0; fp < 2; fp++ { // each priority has a queue and an enqueue-phase timer of its own
			var sub []int
			for i := modules.VerifMicroTaskQueueCap() + 30 + rng.Intn(40); i > 0; i-- {
				t := waiter(fp, 1) // Start*: every request waits in a goroutine of its own
				t.RunUs = rng.Intn(30)
				t.DelayMs = 15000 + rng.Intn(5001)
				if len(sub) == 0 {
					t.PreUs = 60000
				}
				sc.Tasks = append(sc.Tasks, t)
				sub = append(sub, len(sc.Tasks)-1)
			}
			sc.Subs = append(sc.Subs, sub)
		}
	}
	return sc
}

// lifeScenario builds a module lifecycle scenario (run in a child process with module management on).
//
// modstop: the limit is used up by long-running microtasks of other modules (max delay: never), no shutdown, no
// high-priority task; then medium/low microtasks are submitted on a module that is *stopping* (by its stop
// function, or from outside while the stop is in progress) or that is *stopped and not restarted*. A module
// stop is not the shutdown: the limit holds for these microtasks like for any other.
//
// stoptmo: a short module stop timeout and a microtask of the module (any priority and variant, running before
// the stop or started by the stop function) that outlives it: the stop takes its timeout branch, the microtask
// finishes later (optionally after the module was restarted already). Then everything has finished — all
// counts must be exactly zero — and a further stop of the idle module must not be held up.
func lifeScenario(r *hxlib.Run, class string) *scenario {
	rng := r.Rng
	sc := &scenario{Class: class, Seed: rng.Int63(), Force: forcing{Prob: map[string]int{}, MaxUs: 200}, StopSubs: make([][]int, 3)}
	if rng.Intn(3) == 0 {
		for _, p := range []string{"sched-granted", "conclude", "concluded", "pre-inc", "sched-loop"} {
			sc.Force.Prob[p] = rng.Intn(40)
		}
	}
	addTask := func(t taskSpec) int { sc.Tasks = append(sc.Tasks, t); return len(sc.Tasks) - 1 }
	addSub := func(tids ...int) int { sc.Subs = append(sc.Subs, tids); return len(sc.Subs) - 1 }
	op := func(o string, n int) { sc.Life = append(sc.Life, lifeOp{o, n}) }
	task := func(prio, mod, runUs int) taskSpec { // max delay: never
		t := taskSpec{Prio: prio, Var: rng.Intn(3), Mod: mod, RunUs: runUs, DelayMs: -1}
		if t.Var != 2 {
			t.Out = []int{0, 0, 1, 1, 2}[rng.Intn(5)]
			if t.Out == 1 {
				t.Err = drawErrKind(rng)
			}
		} else {
			t.Dones = 1 + rng.Intn(3)
			if t.Conc = rng.Intn(3) == 0; t.Conc {
				t.Dones = 2 + rng.Intn(3)
			}
		}
		return t
	}
	// inflight: a blocking Run* call whose function watches the module context and returns an error of the dictionary
	// when the context is cancelled (RunUs at the latest) — in flight when the stop of its module begins, or submitted
	// to a module whose context is cancelled already
	inflight := func(prio, mod, capUs int) taskSpec {
		return taskSpec{Prio: prio, Var: 0, Mod: mod, RunUs: capUs, DelayMs: -1, Out: 1, Err: drawErrKind(rng), UC: true}
	}
	switch class {
	case "modstop":
		sc.Lim = 2 + rng.Intn(3)
		b := 1 + rng.Intn(2) // the module that is stopped
		hold := 40000 + rng.Intn(40000)
		op("settmo", 5000)
		variant := rng.Intn(3)
		if variant == 1 { // stopped and not restarted: its stop flag stays set
			op("stop", b)
		}
		// one of the long-running microtasks may belong to the stopping module itself: the stop has to wait for it and
		// is completed by the check that microtask's conclusion makes
		own := -1
		if variant != 1 && rng.Intn(2) == 0 {
			own = rng.Intn(sc.Lim)
		}
		for i := 0; i < sc.Lim; i++ { // use the limit up
			other := []int{0, 3 - b}[rng.Intn(2)]
			if i == own {
				other = b
			}
			t := task(rng.Intn(2), other, hold+rng.Intn(10000))
			if i == own && rng.Intn(2) == 0 {
				t = inflight(rng.Intn(2), b, hold+rng.Intn(10000)) // returns its error when the stop cancels the context
			}
			op("sub", addSub(addTask(t)))
		}
		op("waitrun", sc.Lim)
		mk := func() int {
			t := task(rng.Intn(2), b, 500+rng.Intn(3000))
			if rng.Intn(3) == 0 { // a blocking call on the stopping / stopped module (its context is cancelled)
				t = inflight(rng.Intn(2), b, 500+rng.Intn(3000))
			}
			return addTask(t)
		}
		n := 1 + rng.Intn(3)
		switch variant {
		case 0: // submitted by the stop function of the stopping module
			for i := 0; i < n; i++ {
				sc.StopSubs[b] = append(sc.StopSubs[b], mk())
			}
			op("stop", b)
		case 1: // submitted from outside to the stopped module
			for i := 0; i < n; i++ {
				op("sub", addSub(mk()))
			}
		case 2: // both, the outside submitters race with the stop
			for i := 0; i < n; i++ {
				sc.StopSubs[b] = append(sc.StopSubs[b], mk())
			}
			for i := 1 + rng.Intn(2); i > 0; i-- {
				op("sub", addSub(mk()))
			}
			op("stop", b)
		}
		op("quiet", 0)
		op("start", b)
		var sub []int
		for i := 2 + rng.Intn(4); i > 0; i-- { // ordinary traffic after the restart
			sub = append(sub, addTask(task(rng.Intn(2), rng.Intn(3), rng.Intn(800))))
		}
		op("sub", addSub(sub...))
		op("quiet", 0)
	case "stoptmo":
		sc.Lim = 2 + rng.Intn(5)
		b := rng.Intn(3)
		tmo := 50 + rng.Intn(50)
		op("settmo", tmo)
		over := func() int { return (tmo + 40 + rng.Intn(80)) * 1000 } // outlives the stop timeout
		n := 1 + rng.Intn(2)
		how := rng.Intn(3)
		if how != 1 { // running before the stop begins
			for i := 0; i < n; i++ {
				op("sub", addSub(addTask(task(rng.Intn(3), b, over()))))
			}
			// blocking calls of every priority in flight when the stop begins: they return their error once the
			// context is cancelled (the stop flag is set by then), the others outlive the timeout
			k := rng.Intn(3)
			for i := 0; i < k; i++ {
				op("sub", addSub(addTask(inflight(rng.Intn(3), b, over()))))
			}
			op("waitrun", n+k)
		}
		if how != 0 { // started by the stop function (a Run*/Signal* variant keeps the stop function itself busy)
			for i := 0; i < n; i++ {
				sc.StopSubs[b] = append(sc.StopSubs[b], addTask(task(rng.Intn(3), b, over()/n)))
			}
		}
		var by []int
		for i := rng.Intn(4); i > 0; i-- { // bystanders on the other modules
			by = append(by, addTask(task(rng.Intn(3), (b+1+rng.Intn(2))%3, rng.Intn(2000))))
		}
		if len(by) > 0 {
			op("sub", addSub(by...))
		}
		op("stop", b) // takes the timeout branch
		early := rng.Intn(2) == 0
		if early { // restarted while microtasks of the previous run are still in flight
			op("start", b)
			var more []int
			for i := rng.Intn(3); i > 0; i-- {
				more = append(more, addTask(task(rng.Intn(3), b, rng.Intn(1500))))
			}
			if len(more) > 0 {
				op("sub", addSub(more...))
			}
		}
		op("quiet", 0) // everything has finished: all counts are zero again
		op("settmo", 3000)
		if !early {
			op("start", b)
		}
		op("stop", b) // nothing is running: must not be held up
		op("start", b)
		var again []int
		for i := 1 + rng.Intn(3); i > 0; i-- {
			again = append(again, addTask(task(rng.Intn(3), b, rng.Intn(1500))))
		}
		op("sub", addSub(again...))
		op("quiet", 0)
		if rng.Intn(3) == 0 {
			op("shutdown", 0)
		}
	}
	return sc
}

func count(r *hxlib.Run, sc *scenario, lines []string) {
	for _, o := range sc.Life {
		r.Count("life:" + o.Op)
	}
	for _, ss := range sc.StopSubs {
		if len(ss) > 0 {
			r.Count("life:stop-function-submits")
		}
	}
	r.Count("class:" + sc.Class)
	r.Count(fmt.Sprintf("limit:%d", sc.Lim))
	switch n := len(sc.Tasks); {
	case n <= 4:
		r.Count("tasks:1-4")
	case n <= 20:
		r.Count("tasks:5-20")
	case n <= 60:
		r.Count("tasks:21-60")
	default:
		r.Count("tasks:61+")
	}
	r.Count(fmt.Sprintf("submitters:%d", (len(sc.Subs)+3)/4*4))
	for _, t := range sc.Tasks {
		r.Count("task:" + []string{"medium", "low", "high"}[t.Prio] + "-" + []string{"run", "start", "signal"}[t.Var])
		if t.Var != 2 {
			r.Count("outcome:" + []string{"nil", "error", "panic"}[t.Out])
		} else {
			r.Count(fmt.Sprintf("dones:%d", t.Dones))
		}
		if t.Mod < 0 {
			r.Count("task:nil-module")
		}
	}
	for k, p := range sc.Force.Prob {
		if p > 0 {
			r.Count("force:" + k)
		}
	}
	lim := sc.Lim
	if lim < 2 {
		lim = 2
	}
	runningML, maxML := map[string]bool{}, 0
	for _, l := range lines {
		f := strings.Fields(l)
		if len(f) == 0 {
			continue
		}
		switch f[0] {
		case "h":
			if len(f) >= 3 && (f[1] == "fnbegin" || f[1] == "fnend") {
				if tid, err := strconv.Atoi(f[2]); err == nil && tid >= 0 && tid < len(sc.Tasks) && sc.Tasks[tid].Prio != 2 {
					if f[1] == "fnbegin" {
						runningML[f[2]] = true
						if len(runningML) > maxML {
							maxML = len(runningML)
						}
					} else {
						delete(runningML, f[2])
					}
				}
			}
		case "t":
			r.Count("event:t-" + f[2])
			if (f[2] == "dec" || f[2] == "hinc") && strings.HasPrefix(f[3], "-") {
				r.Count("branch:counter-below-zero")
			}
		case "s":
			r.Count("event:s-" + f[1])
		}
	}
	switch {
	case maxML > lim:
		r.Count("branch:overlap-above-limit(expiry/shutdown/high)")
	case maxML == lim:
		r.Count("branch:overlap-equals-limit")
	default:
		r.Count("branch:overlap-below-limit")
	}
}

var childMode = os.Getenv("HX_C15_CHILD") != ""

func runInChild(sc *scenario) ([]string, error) {
	b, _ := json.Marshal(sc)
	ctx, cancel := context.WithTimeout(context.Background(), 90*time.Second)
	defer cancel()
	cmd := exec.CommandContext(ctx, os.Args[0])
	if len(b) > 60000 { // too long for an environment variable: through stdin
		cmd.Env = append(os.Environ(), "HX_C15_CHILD=@stdin")
		cmd.Stdin = strings.NewReader(string(b))
	} else {
		cmd.Env = append(os.Environ(), "HX_C15_CHILD="+string(b))
	}
	cmd.Stderr = nil
	var eb strings.Builder
	cmd.Stderr = &eb
	out, err := cmd.Output()
	if err != nil && raceOnlyExit(err, eb.String(), string(out)) {
		// thorough tier (-race build): the race detector reported a data race and made the child exit with its
		// status 66 *after* the scenario had run to its end and the whole trace was written. C15 states nothing about
		// data races; the trace is used like any other and the report is kept as a measured number (see notes).
		err = nil
	}
	if err != nil {
		msg := ""
		for _, l := range strings.Split(eb.String(), "\n") {
			if strings.HasPrefix(l, "panic:") || strings.HasPrefix(l, "fatal error:") {
				msg = l
				break
			}
		}
		return nil, fmt.Errorf("child: %w: %s", err, msg)
	}
	var lines []string
	for _, l := range strings.Split(string(out), "\n") {
		if strings.HasPrefix(l, "TRACE ") {
			lines = append(lines, l[6:])
		}
	}
	if len(lines) == 0 {
		return nil, errors.New("child produced no trace")
	}
	return lines, nil
}

// raceOnlyExit: did the child fail only because the race detector (thorough tier) set its exit status, with the
// trace complete? The racing sites are recorded in the evidence (Extra).
func raceOnlyExit(err error, stderr, stdout string) bool {
	var ee *exec.ExitError
	if !errors.As(err, &ee) || ee.ExitCode() != 66 || !strings.Contains(stderr, "WARNING: DATA RACE") || !strings.Contains(stdout, "\nTRACE end ") {
		return false
	}
	// the two racing accesses: first frame after "… at 0x… by goroutine N:" of each report
	var sites []string
	ls := strings.Split(stderr, "\n")
	for i, l := range ls {
		if (strings.HasPrefix(l, "Read at ") || strings.HasPrefix(l, "Write at ") || strings.HasPrefix(l, "Previous read at ") ||
			strings.HasPrefix(l, "Previous write at ") || strings.HasPrefix(l, "Atomic ") || strings.HasPrefix(l, "Previous atomic ")) && i+1 < len(ls) {
			sites = append(sites, strings.Fields(l)[0]+":"+strings.TrimSpace(strings.TrimSuffix(strings.TrimSpace(ls[i+1]), "()")))
		}
	}
	key := strings.Join(sites, " / ")
	if len(key) > 400 {
		key = key[:400]
	}
	extraMu.Lock()
	extra["data_race_reports_in_child_processes(not_part_of_C15)"] = toInt(extra["data_race_reports_in_child_processes(not_part_of_C15)"]) + 1
	m, _ := extra["data_race_sites"].(map[string]int)
	if m == nil {
		m = map[string]int{}
		extra["data_race_sites"] = m
	}
	m[key]++
	extraMu.Unlock()
	return true
}

func childMain() {
	var sc scenario
	src := []byte(os.Getenv("HX_C15_CHILD"))
	if string(src) == "@stdin" {
		var err error
		if src, err = io.ReadAll(os.Stdin); err != nil {
			fmt.Println("child: stdin:", err)
			os.Exit(3)
		}
	}
	if err := json.Unmarshal(src, &sc); err != nil {
		fmt.Println("child: bad scenario:", err)
		os.Exit(3)
	}
	lifeMode = len(sc.Life) > 0
	if err := boot(); err != nil {
		fmt.Println("child: boot:", err)
		os.Exit(3)
	}
	res := runScenario(&sc)
	var sb strings.Builder
	for _, l := range canon(&sc, res) {
		sb.WriteString("TRACE " + l + "\n")
	}
	os.Stdout.WriteString(sb.String())
	os.Exit(0)
}

var extra = map[string]any{}
var dumpN int
var extraMu sync.Mutex

func gen(r *hxlib.Run, emit func(hxlib.Case)) {
	// glue: SetMaxConcurrentMicroTasks
	for _, n := range []int{-5, 0, 1, 2, 3, 7, 16, 1000} {
		emit(hxlib.Case{Lines: []string{"setmax " + strconv.Itoa(n)}, Kind: "setmax", NonTrivial: true})
	}
	for i := 0; i < 20; i++ {
		emit(hxlib.Case{Lines: []string{"setmax " + strconv.Itoa(r.Rng.Intn(70)-5)}, Kind: "setmax", NonTrivial: true})
	}
	// malformed lines: both sides must refuse them
	for _, l := range []string{"", "setmax", "setmax x", "frobnicate 1"} {
		emit(hxlib.Case{Lines: []string{l}, Kind: "malformed"})
	}
	if err := boot(); err != nil {
		emit(hxlib.Case{Lines: []string{"boot-failed " + err.Error()}, Kind: "boot"})
		return
	}
	stop := false
	lifeBroken := false
	var emitLines func(sc *scenario, lines []string)
	// scenarios that need seconds of real time (class long-delay-held) run in child processes of their own next to
	// everything else; their traces are emitted as they arrive (always by this goroutine)
	type asyncRes struct {
		sc    *scenario
		lines []string
	}
	asyncCh := make(chan asyncRes, 64)
	asyncOut := 0
	var asyncSem chan struct{}
	startAsync := func(sc *scenario) {
		if asyncSem == nil {
			asyncSem = make(chan struct{}, 3) // at most three such children at a time
		}
		asyncOut++
		go func() {
			asyncSem <- struct{}{}
			lines, err := runInChild(sc)
			<-asyncSem
			if err != nil {
				b, _ := json.Marshal(sc)
				lines = []string{"scn " + string(b), "h crash -1 0 " + strings.ReplaceAll(err.Error(), " ", "_")}
			}
			asyncCh <- asyncRes{sc, lines}
		}()
	}
	collectAsync := func(block bool) {
		for asyncOut > 0 {
			if block {
				a := <-asyncCh
				asyncOut--
				emitLines(a.sc, a.lines)
				continue
			}
			select {
			case a := <-asyncCh:
				asyncOut--
				emitLines(a.sc, a.lines)
			default:
				return
			}
		}
	}
	emitScn := func(sc *scenario) {
		if stop {
			return
		}
		var lines []string
		if len(sc.Life) > 0 && lifeBroken {
			return // an earlier lifecycle scenario hung or did not settle: each further one would take as long to say the same
		}
		if sc.Class == "shutdown" || sc.Class == "nilstart" || sc.Class == "errchan" || len(sc.Life) > 0 {
			var err error
			lines, err = runInChild(sc)
			if err != nil {
				b, _ := json.Marshal(sc)
				lines = []string{"scn " + string(b), "h crash -1 0 " + strings.ReplaceAll(err.Error(), " ", "_")}
			}
			if len(sc.Life) > 0 {
				for _, l := range lines {
					if strings.HasPrefix(l, "h hang") || strings.HasPrefix(l, "h crash") ||
						((strings.HasPrefix(l, "h quiet") || strings.HasPrefix(l, "h final")) && strings.Contains(l, "settle=") && !strings.Contains(l, "settle=ok")) {
						lifeBroken = true
					}
				}
			}
		} else {
			res := runScenario(sc)
			lines = canon(sc, res)
			if res.hang || res.hookStuck || res.settle != nil || res.finalCnt != 0 {
				stop = true // the process-global scheduler state is off: later scenarios would only echo this one
			}
			for _, v := range res.finalMod {
				if v != 0 {
					stop = true
				}
			}
		}
		emitLines(sc, lines)
	}
	emitLines = func(sc *scenario, lines []string) {
		if d := os.Getenv("HX_C15_DUMP"); d != "" { // debugging aid: every trace as a file
			dumpN++
			_ = os.WriteFile(fmt.Sprintf("%s/%04d-%s.txt", d, dumpN, sc.Class), []byte(strings.Join(lines, "\n")+"\n"), 0o644)
		}
		count(r, sc, lines)
		grants := 0
		for _, l := range lines {
			if strings.HasPrefix(l, "s grant") {
				grants++
			}
		}
		emit(hxlib.Case{Lines: lines, Kind: sc.Class, NonTrivial: len(sc.Tasks) >= 2 && (grants > 0 || sc.Class == "expiry")})
		extraMu.Lock()
		dips, hits := 0, 0
		if rec.hlock() {
			dips = rec.dips
			rec.mu.Unlock()
		}
		rec.fmu.Lock()
		hits = rec.forcedHits
		rec.fmu.Unlock()
		extra["counter_below_zero_observed"] = toInt(extra["counter_below_zero_observed"]) + dips
		extra["forced_delays"] = toInt(extra["forced_delays"]) + hits
		extraMu.Unlock()
	}
	if os.Getenv("HX_C15_ONLY") == "flood" { // debugging aid
		emitScn(floodScenario(r, 0))
		emitScn(floodScenario(r, 1))
		return
	}
	if f := os.Getenv("HX_C15_SCN"); f != "" { // debugging aid: run the scenario of a file (the JSON of a `scn` line) 20 times
		b, err := os.ReadFile(f)
		var sc scenario
		if err == nil {
			err = json.Unmarshal(b, &sc)
		}
		if err != nil {
			emit(hxlib.Case{Lines: []string{"boot-failed " + err.Error()}, Kind: "boot"})
			return
		}
		for i := 0; i < 20; i++ {
			c := sc
			emitScn(&c)
		}
		return
	}
	if os.Getenv("HX_C15_ONLY") == "ld" { // debugging aid
		startAsync(longDelayScenario(r, false))
		startAsync(longDelayScenario(r, true))
		collectAsync(true)
		return
	}
	if os.Getenv("HX_C15_ONLY") == "errchan" { // debugging aid
		for i := 0; i < 12; i++ {
			emitScn(errChanScenario(r))
		}
		return
	}
	if os.Getenv("HX_C15_ONLY") == "life" { // debugging aid
		for i := 0; i < 12; i++ {
			emitScn(lifeScenario(r, "modstop"))
			emitScn(lifeScenario(r, "stoptmo"))
		}
		return
	}
	// regression scenarios first
	emitScn(&scenario{Class: "default", Lim: 2, Seed: 1, Force: forcing{Prob: map[string]int{}, MaxUs: 100},
		Tasks: []taskSpec{{Prio: 0, Var: 2, Mod: 0, RunUs: 3000, Dones: 1}, {Prio: 0, Var: 2, Mod: 0, RunUs: 3000, Dones: 2},
			{Prio: 1, Var: 2, Mod: 1, RunUs: 3000, Dones: 1}, {Prio: 0, Var: 2, Mod: 2, RunUs: 3000, Dones: 3, Conc: true},
			{Prio: 1, Var: 2, Mod: 1, RunUs: 3000, Dones: 1}, {Prio: 0, Var: 2, Mod: 0, RunUs: 3000, Dones: 1}},
		Subs: [][]int{{0}, {1}, {2}, {3}, {4}, {5}}})
	// the long-delay scenarios start now and run (3.5 s of real time each, three at a time) while the rest goes on
	for i, n := 0, r.Budget(2, 12); i < n; i++ {
		startAsync(longDelayScenario(r, i%2 == 1))
	}
	deadline := time.Now().Add(time.Duration(r.Budget(75, 720)) * time.Second)
	nScn := r.Budget(1800, 12000)
	floods := r.Budget(2, 6)
	shutdowns := r.Budget(40, 250)
	nilstarts := r.Budget(8, 40)
	modstops := r.Budget(14, 80)
	stoptmos := r.Budget(14, 80)
	errchans := r.Budget(24, 160)
	for i := 0; i < nScn && time.Now().Before(deadline) && !stop; i++ {
		class := "noexpiry"
		switch x := r.Rng.Intn(100); {
		case x < 12:
			class = "default"
		case x < 27:
			class = "expiry"
		}
		emitScn(genScenario(r, class))
		collectAsync(false)
		if i%60 == 3 && nilstarts > 0 {
			nilstarts--
			emitScn(genScenario(r, "nilstart"))
		}
		if i%60 == 11 && modstops > 0 {
			modstops--
			emitScn(lifeScenario(r, "modstop"))
		}
		if i%60 == 41 && stoptmos > 0 {
			stoptmos--
			emitScn(lifeScenario(r, "stoptmo"))
		}
		if i%30 == 2 && errchans > 0 {
			errchans--
			emitScn(errChanScenario(r))
		}
		if i%40 == 7 && shutdowns > 0 {
			shutdowns--
			emitScn(genScenario(r, "shutdown"))
		}
		if i%150 == 20 && floods > 0 {
			floods--
			emitScn(floodScenario(r, floods%2))
			r.Count(fmt.Sprintf("flood:prio%d", floods%2))
		}
	}
	collectAsync(true)
}

func toInt(v any) int {
	if i, ok := v.(int); ok {
		return i
	}
	return 0
}

func main() {
	if childMode {
		childMain()
		return
	}
	hxlib.Main(&hxlib.Harness{
		Prop:     "C15",
		Rule:     "a case is one scenario (limit 2..8 or below the minimum, 1..16 submitting goroutines, 1..120 microtasks of every priority and variant incl. nil module, run times 0..3ms, nil/error/panic outcomes, 1..4 done() calls sequential or concurrent, max delays never/default/1..3ms, forced delays at the verif yield points, shutdown in a child process (a third of its Run*/Start* functions watch the module context and return when the shutdown cancels it), queue flood; error outcomes draw their value from a dictionary of 12 (plain, context.Canceled, errors wrapping it once/twice/joined, context.DeadlineExceeded plain and wrapped, modules.ErrCleanExit, wrapped modules.ErrRestartNow, typed nil pointer, non-panic *modules.ModuleError, own type with an Is method claiming context.Canceled) and the caller of a blocking variant must get that very value (or an error that has it in its chain and its message in its text); class long-delay-held (child processes running next to the rest, 3.5 s of real time each): all slots held for 3.35..3.6 s — longer than both default max delays — while 3..6 medium/low microtasks of every variant submitted with explicit max delays of 10..20 s wait (every other one additionally with queue capacity + 30..70 Start* requests of each priority, so that the surplus waits in the enqueue phase): nothing may start before a slot frees; module lifecycle scenarios in child processes with module management: class modstop = the limit used up by long microtasks (one of them possibly of the stopping module — a blocking call that returns a dictionary error when the stop cancels its context), then medium/low microtasks submitted by the stop function of a stopping module and/or from outside to a stopping or stopped-and-not-restarted module, restart, more traffic; class stoptmo = stop timeout 50..100 ms, microtasks of any priority/variant running before the stop or started by the stop function outlive it, 0..2 blocking Run* calls of any priority in flight when the stop begins return a dictionary error once their context is cancelled, optional restart while they are in flight, quiescence, a further stop of the idle module under a 3 s timeout, restart, optional shutdown; class errchan (child processes) = an error reporting channel of capacity 0..2 installed through SetErrorReportingChannel that nobody reads, up to 14 microtasks of which capacity+2..capacity+4 (Run* and Start* of every priority, the first a blocking call) panic: a panicking blocking call that has not returned after 12 s is reported under the returned-error clause) executed on the real scheduler; its hook trace is replayed through the Lean model (acceptor: global counter and each module's counter compared at every bracketed operation, every task and every module followed individually, the stop check's read of the module counter compared with the model) and the monitor checks limit / exactly-once / returned error / zero counters (at the end and at every mid-scenario quiescence) / settled scheduler / module stops and shutdown not held up on the harness's own observations; non-trivial = at least two tasks and at least one clearance granted (or expiries); distinct = different scenario or different interleaving (hash of the whole trace)",
		Generate: gen,
		NewExec:  func(*hxlib.Run) hxlib.Exec { return execT{} },
		Monitor:  monitor,
		DisSig: func(line, impl, model string) string {
			f := strings.Fields(line)
			if len(f) >= 3 && f[0] == "t" {
				return "corr:t-" + f[2]
			}
			if len(f) >= 2 {
				return "corr:" + f[0] + "-" + f[1]
			}
			return "corr:" + line
		},
		Extra: func(*hxlib.Run) map[string]any { return extra },
	})
}
