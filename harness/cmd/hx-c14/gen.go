package main

// gen.go: generators of C14 cases. Every random choice comes from r.Rng.

import (
	"fmt"
	"math/rand"
	"strings"
	"sync"

	"verifharness/hxlib"
)

const rule = "A case is one history on a fresh database (hashmap ±shadow-delete, bbolt, a harness-owned injected storage, the runtime registry): " +
	"query objects (key prefix × condition tree over N/S, shared between subscriptions and hooks), subscribe/cancel through interfaces with all " +
	"Local/Internal/AlwaysMakeSecret/AlwaysMakeCrownjewel/AlwaysSetAbsoluteExpiry combinations, hook register/cancel (phases × pass/veto/replace), Put/PutNew/Delete/MakeSecret/" +
	"MakeCrownJewel/SetAbsoluteExpiry/SetRelativateExpiry (duration 0 or -1)/InsertValue/Get/Exists/PushUpdate on keys inside and outside the prefixes with all flag combinations, feeds drained after every " +
	"operation (or not at all until > 1000 writes: overflow kind; fullfeed kind: one subscription is never read until its feed is full and beyond while 1–3 others on the same writes, subscribed before and after it, are read all the time or now and then — drain1), raw storage reads around vetoed writes, delayed-write interfaces, malformed lines; " +
	"config-push / config-db kinds: the real config package injected as database — option updates pushed, and its StorageInterface driven through the database interface " +
	"(Put with / without / null Value, Delete, unregistered key, Get) and the config API (SetConfigOption, ReplaceConfig) with exact/prefix/other subscriptions, before and after cancel; " +
	"purge kind: Interface.Purge of a subscribed prefix on a fresh bbolt database (0–5 records, interfaces with all / some / no privileges), implementation only; " +
	"putmany lines: one-record batches through Interface.PutMany on hashmap / bbolt; " +
	"concurrent kind: recorded traces of writers vs. Subscribe vs. Cancel (forced at the verif event points) replayed through the interleaving model. " +
	"hconc kind: recorded traces of gets / puts (pre-get, post-get, pre-put hook phases; pass and veto hooks with prefix × condition queries) vs. 0–2 concurrent RegisteredHook.Cancel per hook, " +
	"with the operation parked inside an earlier hook's call while a later hook is cancelled, Cancel called during a call of the same hook, Cancel inside its locked section vs. arriving operation, random pairs; replayed through the interleaving model of hooksLock. " +
	"Non-trivial = at least one subscription or hook is active and at least one write succeeds while it is (sequential), or at least one send/cancel event (concurrent), or at least one hook call (hconc); " +
	"distinct = different op/event sequences."

var (
	genKeys     = []string{"a/x", "a/y", "a/b/z", "b/x", "ab", "a/x/1", "c"}
	genPrefixes = []string{"-", "a", "a/", "a/b", "b", "a/x", "zz", "-", "a/"}
	genIfaces   = []string{"LI", "LI", "LI", "LI", "L", "I", "-", "-", "LIS", "LIC", "S", "C", "IS", "LC", "LISC", "LIE", "E", "LSE"}
	genStrs     = []string{"foo", "bar", "fob", "baz"}
	genFlags    = []string{"-", "-", "-", "-", "-", "-", "s", "c", "sc", "d", "p", "f", "sd", "cf", "dp"}
)

func pick(rng *rand.Rand, l []string) string { return l[rng.Intn(len(l))] }

func genCond(rng *rand.Rand, depth int, allowBad bool) string {
	x := rng.Intn(100)
	switch {
	case depth > 0 && x < 12:
		return "& " + genCond(rng, depth-1, allowBad) + " " + genCond(rng, depth-1, allowBad)
	case depth > 0 && x < 24:
		return "| " + genCond(rng, depth-1, allowBad) + " " + genCond(rng, depth-1, allowBad)
	case depth > 0 && x < 32:
		return "! " + genCond(rng, depth-1, allowBad)
	case allowBad && x < 35:
		return "bad"
	case x < 50:
		return fmt.Sprintf("gt %d", rng.Intn(10))
	case x < 62:
		return fmt.Sprintf("lt %d", rng.Intn(10))
	case x < 72:
		return fmt.Sprintf("eq %d", rng.Intn(10))
	case x < 86:
		return "sa " + pick(rng, genStrs)
	default:
		return "sw " + pick(rng, []string{"fo", "ba", "b", "foo", "z"})
	}
}

type seqGen struct {
	r      *hxlib.Run
	rng    *rand.Rand
	lines  []string
	kind   string
	nq     int
	nsub   int
	nhook  int
	live   []int // active subscription ids
	hooks  []int // active hook ids
	vetoes bool
	drain  bool
	writes int
	keys   []string
}

func (g *seqGen) emit(l string) { g.lines = append(g.lines, l) }

func (g *seqGen) newQuery() int {
	cond := "T"
	if g.rng.Intn(100) >= 35 {
		cond = genCond(g.rng, 2, true)
	}
	g.emit(fmt.Sprintf("q %d %s %s", g.nq, pick(g.rng, genPrefixes), cond))
	g.r.Count("cond:" + strings.Fields(cond)[0])
	g.nq++
	return g.nq - 1
}

func (g *seqGen) someQuery() int {
	if g.nq == 0 || g.rng.Intn(100) < 35 {
		return g.newQuery()
	}
	g.r.Count("query:shared-object")
	return g.rng.Intn(g.nq)
}

func (g *seqGen) beh(recPhase bool) string {
	x := g.rng.Intn(100)
	switch {
	case x < 40:
		return "-"
	case x < 75:
		return "p"
	case x < 85 || !recPhase:
		g.vetoes = true
		return fmt.Sprintf("v%d", 1+g.rng.Intn(9))
	case x < 90:
		return "x"
	default:
		return fmt.Sprintf("s%d", g.rng.Intn(10))
	}
}

func (g *seqGen) key() string { return pick(g.rng, g.keys) }

func (g *seqGen) afterWrite() {
	if g.drain {
		g.emit("drain")
	}
}

func (g *seqGen) op() {
	rng := g.rng
	x := rng.Intn(100)
	switch {
	case x < 7:
		q := g.someQuery()
		g.emit(fmt.Sprintf("sub %d %s %d", g.nsub, pick(rng, genIfaces), q))
		g.live = append(g.live, g.nsub)
		g.nsub++
		g.r.Count("op:sub")
	case x < 12 && g.nsub > 0:
		// cancel: mostly an active one, sometimes an already cancelled one (double cancel)
		id := rng.Intn(g.nsub)
		if len(g.live) > 0 && rng.Intn(100) < 80 {
			k := rng.Intn(len(g.live))
			id = g.live[k]
			g.live = append(g.live[:k], g.live[k+1:]...)
		} else {
			g.r.Count("op:cancel-again-or-unknown")
		}
		g.emit(fmt.Sprintf("cancel %d", id))
		g.afterWrite()
		g.r.Count("op:cancel")
	case x < 18:
		q := g.someQuery()
		g.emit(fmt.Sprintf("hook %d %d %s %s %s", g.nhook, q, g.beh(false), g.beh(true), g.beh(true)))
		g.hooks = append(g.hooks, g.nhook)
		g.nhook++
		g.r.Count("op:hook")
	case x < 22 && len(g.hooks) > 0:
		k := rng.Intn(len(g.hooks))
		g.emit(fmt.Sprintf("unhook %d", g.hooks[k]))
		if rng.Intn(100) < 85 {
			g.hooks = append(g.hooks[:k], g.hooks[k+1:]...)
		}
		g.r.Count("op:unhook")
	case x < 52:
		op := "put"
		if rng.Intn(100) < 15 {
			op = "putnew"
		}
		if (g.kind == "hashmap" || g.kind == "bbolt") && rng.Intn(100) < 4 {
			// a batch through Interface.PutMany (documented to skip hooks and subscribers: known finding)
			key := g.key()
			g.emit(fmt.Sprintf("putmany %s %s %d %s %s", pick(rng, []string{"LI", "LI", "LI", "L", "-", "LIS"}), key, rng.Intn(10), pick(rng, genStrs), pick(rng, []string{"-", "-", "s", "d"})))
			g.emit("drain")
			g.emit("raw " + key)
			g.r.Count("op:putmany")
			return
		}
		key := g.key()
		raw := g.vetoes && rng.Intn(100) < 50
		if raw {
			g.emit("raw " + key)
		}
		g.emit(fmt.Sprintf("%s %s %s %d %s %s", op, pick(rng, genIfaces), key, rng.Intn(10), pick(rng, genStrs), pick(rng, genFlags)))
		if raw || rng.Intn(100) < 10 {
			g.emit("raw " + key)
		}
		g.afterWrite()
		g.writes++
		g.r.Count("op:" + op)
	case x < 72:
		op := pick(rng, []string{"del", "del", "del", "mksec", "mksec", "mkcj", "mkcj", "exp", "exp", "ins", "ins", "relexp"})
		key := g.key()
		raw := rng.Intn(100) < 65
		if raw {
			g.emit("raw " + key)
		}
		switch op {
		case "exp":
			g.emit(fmt.Sprintf("exp %s %s %s", pick(rng, genIfaces), key, pick(rng, []string{"p", "f"})))
		case "ins":
			g.emit(fmt.Sprintf("ins %s %s %d", pick(rng, genIfaces), key, rng.Intn(10)))
		case "relexp":
			g.emit(fmt.Sprintf("relexp %s %s %s", pick(rng, genIfaces), key, pick(rng, []string{"0", "-1"})))
		default:
			g.emit(fmt.Sprintf("%s %s %s", op, pick(rng, genIfaces), key))
		}
		if raw {
			g.emit("raw " + key)
		}
		g.afterWrite()
		g.writes++
		g.r.Count("op:" + op)
	case x < 84:
		key := g.key()
		g.emit("raw " + key) // what is stored: the monitor's own reading of the get-hook clause starts from it
		if rng.Intn(100) < 25 {
			g.emit(fmt.Sprintf("exists %s %s", pick(rng, genIfaces), key))
			g.r.Count("op:exists")
		} else {
			g.emit(fmt.Sprintf("get %s %s", pick(rng, genIfaces), key))
			g.r.Count("op:get")
		}
	case x < 92:
		if g.kind == "inj" || g.kind == "reg" || rng.Intn(100) < 30 {
			g.emit(fmt.Sprintf("push %s %d %s %s", g.key(), rng.Intn(10), pick(rng, genStrs), pick(rng, genFlags)))
			g.afterWrite()
			g.writes++
			g.r.Count("op:push")
		}
	case x < 96:
		g.emit("sizes")
	default:
		g.emit("raw " + g.key())
	}
}

func genSequential(r *hxlib.Run, kind string, shadow int, nops int, delayed bool) hxlib.Case {
	g := &seqGen{r: r, rng: r.Rng, kind: kind, drain: true, keys: genKeys}
	if kind == "reg" {
		g.keys = []string{"a/x", "a/y", "a/b/z", "a/x/1", "a/x", "b/x", "ab"}
	}
	g.emit(fmt.Sprintf("db %s %d", kind, shadow))
	// a few queries, subscriptions and hooks up front so that most writes meet somebody
	for i, n := 0, 1+g.rng.Intn(3); i < n; i++ {
		g.newQuery()
	}
	for i, n := 0, g.rng.Intn(4); i < n; i++ {
		g.emit(fmt.Sprintf("sub %d %s %d", g.nsub, pick(g.rng, genIfaces), g.rng.Intn(g.nq)))
		g.live = append(g.live, g.nsub)
		g.nsub++
	}
	for i, n := 0, g.rng.Intn(3); i < n; i++ {
		g.emit(fmt.Sprintf("hook %d %d %s %s %s", g.nhook, g.rng.Intn(g.nq), g.beh(false), g.beh(true), g.beh(true)))
		g.hooks = append(g.hooks, g.nhook)
		g.nhook++
	}
	for i := 0; i < nops; i++ {
		if delayed && g.rng.Intn(100) < 15 {
			if g.rng.Intn(100) < 70 {
				g.emit(fmt.Sprintf("put LI+w %s %d %s %s", g.key(), g.rng.Intn(10), pick(g.rng, genStrs), pick(g.rng, []string{"-", "-", "s", "d", "f"})))
				g.emit("drain")
				g.r.Count("op:put-delayed")
			} else {
				g.emit("flush LI+w")
				g.emit("drain")
				g.emit("raw " + g.key())
				g.r.Count("op:flush")
			}
			continue
		}
		g.op()
	}
	g.emit("drain")
	g.emit("sizes")
	k := "seq:" + kind
	if shadow == 1 {
		k += "+shadow"
	}
	if delayed {
		k += "+delayedwrites"
	}
	r.Count(fmt.Sprintf("subs:%d", min(g.nsub, 5)))
	r.Count(fmt.Sprintf("hooks:%d", min(g.nhook, 5)))
	return hxlib.Case{Lines: g.lines, Kind: k, NonTrivial: (g.nsub > 0 || g.nhook > 0) && g.writes > 0}
}

// genOverflow: more than 1000 undrained writes to one key space, then drain (the "buffer not full" proviso).
func genOverflow(r *hxlib.Run) hxlib.Case {
	rng := r.Rng
	var l []string
	l = append(l, "db hashmap 0", "q 0 - T", fmt.Sprintf("q 1 a %s", genCond(rng, 1, false)), "sub 0 LI 0", "sub 1 L 1")
	extra := rng.Intn(8) - 1 // 999 … 1006 undrained writes: both sides of the buffer boundary
	for i := 0; i < feedCapStatement+extra; i++ {
		if rng.Intn(10) == 0 {
			l = append(l, fmt.Sprintf("push %s %d %s %s", pick(rng, genKeys), i%10, pick(rng, genStrs), pick(rng, []string{"-", "s"})))
		} else {
			l = append(l, fmt.Sprintf("put LI %s %d %s %s", pick(rng, genKeys), i%10, pick(rng, genStrs), pick(rng, []string{"-", "-", "s", "d"})))
		}
	}
	l = append(l, "drain", "put LI a/x 3 foo -", "cancel 0", "put LI a/y 4 foo -", "drain", "sizes")
	return hxlib.Case{Lines: l, Kind: "seq:overflow", NonTrivial: true}
}

// implFeedCap: the capacity of a feed as the implementation makes it (probed once on a scratch database): the
// full-feed histories must reach the point where the code's buffer is full, whatever its size is; the monitor keeps
// the statement's 1000.
var implFeedCapOnce struct {
	sync.Once
	n int
}

func implFeedCap() int {
	implFeedCapOnce.Do(func() {
		implFeedCapOnce.n = feedCapStatement
		w := newWorld()
		if w.open("hashmap", false) != "ok" {
			return
		}
		defer w.Close()
		w.Do("q 0 - T")
		if w.Do("sub 0 LI 0") == "ok" {
			if s := w.findSub("0"); s != nil {
				implFeedCapOnce.n = cap(s.sub.Feed)
				_ = s.sub.Cancel()
			}
		}
	})
	return implFeedCapOnce.n
}

// genFullFeed: the "as long as the feed buffer is not full" proviso is per subscription. One subscription (the slow
// one) is never read until its feed is full and beyond; 1–3 other subscriptions whose queries match (all or part of)
// the same writes are registered before and after it and are read all the time (`drain1`) or now and then, so that
// feeds of different fill levels — full, nearly full, empty — are in the controller's list in every order when the
// writes past the slow one's capacity arrive. Ends with everything drained and a few more writes.
func genFullFeed(r *hxlib.Run, canonical bool) hxlib.Case {
	rng := r.Rng
	var l []string
	kind := pick(rng, []string{"hashmap 0", "hashmap 0", "hashmap 1", "inj 0"})
	l = append(l, "db "+kind)
	slowPrefix := pick(rng, []string{"a", "a/", "-", "a/x"})
	if canonical {
		// the first case of every run has the plain shape: the slow subscription first, then one on the same query
		// object that is read after every write
		return genFullFeedCanonical(r, l, slowPrefix)
	}
	l = append(l, fmt.Sprintf("q 0 %s T", slowPrefix))
	nq := 1
	type other struct {
		sid     int
		every   int // drained after every `every` writes; 0 = only at the end
		drained int
	}
	var others []*other
	nOthers := 1 + rng.Intn(3)
	slowPos := rng.Intn(nOthers + 1) // how many others are subscribed before the slow one
	if rng.Intn(100) < 60 {
		slowPos = 0 // the case that matters most: everybody else comes after the full feed
		if rng.Intn(100) < 30 {
			slowPos = 1
		}
	}
	slow := -1
	nsub := 0
	addOther := func() {
		qid := 0 // the same query object as the slow subscription
		switch x := rng.Intn(100); {
		case x < 35:
		case x < 60:
			l = append(l, fmt.Sprintf("q %d %s T", nq, pick(rng, []string{"-", "a", "a/", slowPrefix})))
			qid = nq
			nq++
		default:
			l = append(l, fmt.Sprintf("q %d %s %s", nq, pick(rng, []string{"-", "a", slowPrefix}), genCond(rng, 1, false)))
			qid = nq
			nq++
		}
		l = append(l, fmt.Sprintf("sub %d %s %d", nsub, pick(rng, []string{"LI", "LI", "LI", "L", "I"}), qid))
		o := &other{sid: nsub, every: pick2(rng, []int{1, 1, 1, 2, 7, 50, 0})}
		others = append(others, o)
		nsub++
	}
	for i := 0; i <= nOthers; i++ {
		if i == slowPos {
			l = append(l, fmt.Sprintf("sub %d LI 0", nsub))
			slow = nsub
			nsub++
		}
		if i < nOthers {
			addOther()
		}
	}
	keys := []string{"a/x", "a/x", "a/x/1", "a/y", "a/b/z", "ab", "b/x"}
	inSlow := func(k string) bool { return strings.HasPrefix(k, unq(slowPrefix)) }
	capN := implFeedCap()
	if capN < feedCapStatement {
		capN = feedCapStatement
	}
	extra := 1 + rng.Intn(8)
	filled, nw := 0, 0
	for filled < capN+extra && nw < 4*capN+100 {
		k := pick(rng, keys)
		switch x := rng.Intn(100); {
		case x < 8:
			l = append(l, fmt.Sprintf("push %s %d %s %s", k, nw%10, pick(rng, genStrs), pick(rng, []string{"-", "-", "s"})))
		case x < 12:
			l = append(l, fmt.Sprintf("put LI %s %d %s d", k, nw%10, pick(rng, genStrs))) // deletes are writes too
		default:
			l = append(l, fmt.Sprintf("put LI %s %d %s %s", k, nw%10, pick(rng, genStrs), pick(rng, []string{"-", "-", "-", "s", "c"})))
		}
		nw++
		if inSlow(k) {
			filled++
		}
		for _, o := range others {
			if o.every > 0 && nw%o.every == 0 {
				l = append(l, fmt.Sprintf("drain1 %d", o.sid))
				o.drained++
			}
		}
		if filled == capN && rng.Intn(100) < 30 {
			l = append(l, "sizes")
		}
	}
	r.Count(fmt.Sprintf("fullfeed:slow-at-position:%d-of-%d", slowPos, nOthers+1))
	// the slow subscriber finally reads (or is cancelled first), everybody is read, a few more writes arrive
	switch rng.Intn(4) {
	case 0:
		l = append(l, fmt.Sprintf("cancel %d", slow))
	case 1:
		l = append(l, fmt.Sprintf("drain1 %d", slow), "put LI a/x 3 foo -", "push a/x/1 4 bar -")
	}
	l = append(l, "drain", "put LI a/x 5 foo -", "put LI a/y 6 baz -", "drain", "sizes")
	return hxlib.Case{Lines: l, Kind: "seq:fullfeed", NonTrivial: true}
}

func genFullFeedCanonical(r *hxlib.Run, l []string, slowPrefix string) hxlib.Case {
	rng := r.Rng
	l = append(l, fmt.Sprintf("q 0 %s T", slowPrefix), "sub 0 LI 0", "sub 1 LI 0", "sub 2 L 0")
	capN := implFeedCap()
	if capN < feedCapStatement {
		capN = feedCapStatement
	}
	key := map[string]string{"a": "a/x", "a/": "a/y", "-": "b/x", "a/x": "a/x/1"}[slowPrefix]
	for i := 0; i < capN+3+rng.Intn(4); i++ {
		l = append(l, fmt.Sprintf("put LI %s %d %s -", key, i%10, pick(rng, genStrs)), "drain1 1")
		if i%97 == 0 {
			l = append(l, "drain1 2")
		}
	}
	l = append(l, "drain1 2", "drain", "put LI "+key+" 5 foo -", "drain", "sizes")
	r.Count("fullfeed:canonical")
	return hxlib.Case{Lines: l, Kind: "seq:fullfeed", NonTrivial: true}
}

func pick2(rng *rand.Rand, l []int) int { return l[rng.Intn(len(l))] }

// genMalformed: lines outside the grammar (both sides must answer bad-op and stay intact).
func genMalformed(r *hxlib.Run) hxlib.Case {
	rng := r.Rng
	bad := []string{"frob", "put", "put LI", "put LI a/x 1 foo", "put XX a/x 1 foo -", "put LI a/x one foo -", "put LI a/x 1 foo zz",
		"sub 0 LI 99", "sub x LI 0", "cancel 99", "cancel", "unhook 7", "hook 0 0 p p", "hook 0 0 s1 p p", "hook 0 0 q p p", "q 0 - T",
		"q 5 - gt", "q 6 - & gt 1", "q 7 A T", "q 8 - T T", "get LI", "get LI A", "exists LI", "exists LI+w a/x", "relexp LI a/x 5", "relexp LI a/x", "del QQ a/x", "exp LI a/x z", "ins LI a/x x", "db hashmap 0",
		"db bbolt 1", "db foo 0", "raw", "raw A", "flush LI", "drain now", "sizes 1", "push a/x 1 foo", "put LI+x a/x 1 foo -", "get LI+w a/x", "putmany LI+w a/x 1 foo -", "putmany LI a/x 1 foo", "putmany ZZ a/x 1 foo -",
		"sub 3 LI+w 0", "put L+w a/x 1 foo -"}
	var l []string
	for i, n := 0, rng.Intn(3); i < n; i++ {
		l = append(l, pick(rng, bad)) // before the database exists everything is bad-op
	}
	l = append(l, "db hashmap 0", "q 0 - T", "sub 0 LI 0")
	for i, n := 0, 6+rng.Intn(10); i < n; i++ {
		l = append(l, pick(rng, bad))
		if rng.Intn(3) == 0 {
			l = append(l, fmt.Sprintf("put LI %s %d foo -", pick(rng, genKeys), rng.Intn(10)), "drain")
		}
	}
	l = append(l, "drain", "sizes")
	return hxlib.Case{Lines: l, Kind: "seq:malformed", NonTrivial: false}
}

var corpus = [][]string{
	// two subscriptions from one query object; cancel the second (pinned tree: closes #1's feed but removes #0 → panic)
	{"db hashmap 0", "q 0 a T", "sub 0 LI 0", "sub 1 LI 0", "put LI a/x 1 foo -", "drain", "cancel 1", "drain", "sizes", "put LI a/y 9 bar -", "drain", "cancel 1", "cancel 0", "put LI a/x 2 foo -", "drain", "sizes"},
	// two hooks from one query object; cancel the second
	{"db hashmap 0", "q 0 a T", "hook 0 0 p p p", "hook 1 0 - - v3", "unhook 1", "sizes", "put LI a/x 1 foo -", "get LI a/x", "unhook 0", "put LI a/x 2 foo -", "get LI a/x", "sizes"},
	// veto of in-place modifications
	{"db hashmap 1", "q 0 a T", "put LI a/x 1 foo -", "hook 0 0 - - v3", "raw a/x", "del LI a/x", "raw a/x", "get LI a/x", "raw a/x", "put LI a/x 2 bar -", "raw a/x", "unhook 0", "raw a/x", "ins LI a/x 44", "raw a/x"},
	{"db bbolt 0", "q 0 a T", "sub 0 LI 0", "put LI a/x 1 foo -", "hook 0 0 - - v3", "raw a/x", "del LI a/x", "raw a/x", "drain", "raw a/x", "mksec LI a/x", "raw a/x", "unhook 0", "del LI a/x", "drain", "raw a/x"},
	// replace chains and permissions
	{"db hashmap 0", "q 0 - T", "q 1 a gt 4", "sub 0 LI 0", "sub 1 - 1", "sub 2 L 1", "sub 3 I 0", "hook 0 0 p s7 s8", "hook 1 1 p p s2", "put LI a/x 1 foo -", "drain", "put S a/y 6 foo -", "drain", "put C a/y 6 foo -", "drain", "get LI a/x", "get - a/y", "mksec LI a/x", "drain", "del - a/x", "drain", "del I a/x", "drain"},
	// injected storage: the record the storage returns is what subscribers get; push
	{"db inj 0", "q 0 a T", "sub 0 LI 0", "put LI a/x 1 foo -", "drain", "raw a/x", "push a/y 2 bar s", "drain", "del LI a/x", "drain", "raw a/x"},
	// runtime registry: unmanaged keys, no delete
	{"db reg 0", "q 0 - T", "sub 0 LI 0", "put LI a/x 1 foo -", "drain", "put LI b/x 1 foo -", "drain", "get LI a/x", "del LI a/x", "drain", "raw a/x", "push a/y 2 bar -", "drain"},
	// delayed writes never reach subscribers or hooks
	{"db hashmap 0", "q 0 a T", "sub 0 LI 0", "hook 0 0 - - p", "put LI+w a/y 2 bar -", "drain", "raw a/y", "flush LI+w", "drain", "raw a/y", "put LI a/y 3 bar -", "drain"},
}

func gen(r *hxlib.Run, emit func(hxlib.Case)) {
	for _, c := range corpus {
		emit(hxlib.Case{Lines: c, Kind: "corpus", NonTrivial: true})
	}
	n := r.Budget(9000, 120000)
	for i := 0; i < n; i++ {
		x := r.Rng.Intn(100)
		nops := 6 + r.Rng.Intn(30)
		switch {
		case x < 30:
			emit(genSequential(r, "hashmap", 0, nops, false))
		case x < 52:
			emit(genSequential(r, "hashmap", 1, nops, false))
		case x < 58:
			emit(genSequential(r, "bbolt", 0, nops, false))
		case x < 72:
			emit(genSequential(r, "inj", 0, nops, false))
		case x < 86:
			emit(genSequential(r, "reg", 0, nops, false))
		case x < 93:
			emit(genSequential(r, "hashmap", r.Rng.Intn(2), nops, true))
		default:
			emit(genMalformed(r))
		}
	}
	for i, n := 0, r.Budget(8, 60); i < n; i++ {
		emit(genFullFeed(r, i == 0))
	}
	for i, n := 0, r.Budget(4, 40); i < n; i++ {
		emit(genOverflow(r))
	}
	for i, n := 0, r.Budget(40, 400); i < n; i++ {
		emit(hxlib.Case{Lines: []string{fmt.Sprintf("cfgpush %d", 1+r.Rng.Intn(5))}, Kind: "config-push", NonTrivial: i < 5, NoModel: true})
	}
	for i, n := 0, r.Budget(60, 600); i < n; i++ {
		toks := []string{"cfgops"}
		if r.Rng.Intn(100) < 60 {
			toks = append(toks, pick(r.Rng, cfgTypeTokens))
		}
		for j, m := 0, 2+r.Rng.Intn(7); j < m; j++ {
			t := pick(r.Rng, cfgTokens)
			toks = append(toks, t)
			r.Count("cfgop:" + t)
		}
		emit(hxlib.Case{Lines: []string{strings.Join(toks, " ")}, Kind: "config-db", NonTrivial: true, NoModel: true})
	}
	for i, n := 0, r.Budget(12, 120); i < n; i++ {
		emit(hxlib.Case{Lines: []string{fmt.Sprintf("purgecase %d %s", r.Rng.Intn(6), pick(r.Rng, []string{"LI", "LI", "L", "I", "-"}))}, Kind: "purge", NonTrivial: i < 6, NoModel: true})
	}
	genConcurrent(r, emit)
	genHConcurrent(r, emit)
}
