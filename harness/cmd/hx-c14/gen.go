package main

// gen.go: generators of C14 cases. Every random choice comes from r.Rng.

import (
	"fmt"
	"math/rand"
	"strings"
	"sync"

	"verifharness/hxlib"
)

const rule = "A case is one history on a fresh database (hashmap ±shadow-delete, bbolt, a harness-owned injected storage, the runtime registry, a push-only injected database built on storage.InjectBase as it comes — ReadOnly() true: only Controller.PushUpdate reaches its subscribers, every write through an interface is refused): " +
	"query objects (key prefix × condition tree over N/S, shared between subscriptions and hooks), subscribe/cancel through interfaces with all " +
	"Local/Internal/AlwaysMakeSecret/AlwaysMakeCrownjewel/AlwaysSetAbsoluteExpiry combinations, hook register/cancel (phases × pass/veto/replace), Put/PutNew/Delete/MakeSecret/" +
	"MakeCrownJewel/SetAbsoluteExpiry/SetRelativateExpiry (duration 0 or -1)/InsertValue/Get/Exists/PushUpdate on keys inside and outside the prefixes with all flag combinations, feeds drained after every " +
	"operation (or not at all until > 1000 writes: overflow kind; fullfeed kind: one subscription is never read until its feed is full and beyond while 1–3 others on the same writes, subscribed before and after it, are read all the time or now and then — drain1), raw storage reads around vetoed writes, delayed-write interfaces, malformed lines; " +
	"config-push / config-db kinds: the real config package injected as database — option updates pushed, and its StorageInterface driven through the database interface " +
	"(Put with / without / null Value, Delete, unregistered key, Get) and the config API (SetConfigOption, ReplaceConfig) with exact/prefix/other subscriptions, before and after cancel; " +
	"purge kind: Interface.Purge of a subscribed prefix on a fresh bbolt database (0–5 records, interfaces with all / some / no privileges), implementation only; " +
	"putmany lines: one-record batches through Interface.PutMany on hashmap / bbolt; " +
	"rehook lines (in every history; samehook kind: 1–2 hook values × 2–3 registrations): an existing hook value registered again with the same / another query object, registrations cancelled in every order (also twice) with the same writes and reads after each cancel; " +
	"hook-two-databases kind: one hook value registered any number of times on two hashmap databases, puts / gets on both, cancels by index (implementation only); " +
	"reglife kind: a runtime registry through its life cycle — providers registered before and after InjectAsDatabase on nested keys and prefixes (about half refused), push functions called before / after the injection and before / after anybody subscribed, " +
	"for keys inside and outside the pusher's prefix, single and multi-record pushes, all flags incl. deleted, subscribe / hook / read / write attempts before the injection, a second injection — mixed with the ordinary operations; " +
	"concurrent kind: recorded traces of writers vs. Subscribe vs. Cancel (forced at the verif event points) replayed through the interleaving model. " +
	"hconc kind: recorded traces of gets / puts (pre-get, post-get, pre-put hook phases; pass and veto hooks with prefix × condition queries) vs. 0–2 concurrent RegisteredHook.Cancel per hook, " +
	"with the operation parked inside an earlier hook's call while a later hook is cancelled, Cancel called during a call of the same hook, Cancel inside its locked section vs. arriving operation, random pairs; replayed through the interleaving model of hooksLock. " +
	"Non-trivial = at least one subscription or hook is active and at least one write succeeds while it is (sequential), or at least one send/cancel event (concurrent), or at least one hook call (hconc); " +
	"distinct = different op/event sequences."

var (
	genKeys     = []string{"a/x", "a/y", "a/b/z", "b/x", "ab", "a/x/1", "c"}
	genPrefixes = []string{"-", "a", "a/", "a/b", "b", "a/x", "zz", "-", "a/"}
	genIfaces   = []string{"LI", "LI", "LI", "LI", "L", "I", "-", "-", "LIS", "LIC", "S", "C", "IS", "LC", "LISC", "LIE", "E", "LSE"}
	genStrs     = []string{"foo", "bar", "fob", "baz"}
	genFlags    = []string{"-", "-", "-", "-", "-", "-", "s", "c", "sc", "d", "p", "f", "sd", "cf", "dp"}
)

func pick(rng *rand.Rand, l []string) string { return l[rng.Intn(len(l))] }

func genCond(rng *rand.Rand, depth int, allowBad bool) string {
	x := rng.Intn(100)
	switch {
	case depth > 0 && x < 12:
		return "& " + genCond(rng, depth-1, allowBad) + " " + genCond(rng, depth-1, allowBad)
	case depth > 0 && x < 24:
		return "| " + genCond(rng, depth-1, allowBad) + " " + genCond(rng, depth-1, allowBad)
	case depth > 0 && x < 32:
		return "! " + genCond(rng, depth-1, allowBad)
	case allowBad && x < 35:
		return "bad"
	case x < 50:
		return fmt.Sprintf("gt %d", rng.Intn(10))
	case x < 62:
		return fmt.Sprintf("lt %d", rng.Intn(10))
	case x < 72:
		return fmt.Sprintf("eq %d", rng.Intn(10))
	case x < 86:
		return "sa " + pick(rng, genStrs)
	default:
		return "sw " + pick(rng, []string{"fo", "ba", "b", "foo", "z"})
	}
}

type seqGen struct {
	r      *hxlib.Run
	rng    *rand.Rand
	lines  []string
	kind   string
	nq     int
	nsub   int
	nhook  int
	live   []int // active subscription ids
	hooks  []int // active registration ids
	hvals  []int // hook values (objects) made so far
	hvalQ  map[int]int // hook value → the query object it was registered with last
	provs  []int // runtime registry (reglife kind): providers registered so far (the accepted ones)
	pkeys  []string
	nprov  int
	life   bool  // reglife kind: pushes go through the providers' push functions, the registry calls are mixed in
	vetoes bool
	drain  bool
	writes int
	keys   []string
}

func (g *seqGen) emit(l ...string) { g.lines = append(g.lines, l...) }

func (g *seqGen) newQuery() int {
	cond := "T"
	if g.rng.Intn(100) >= 35 {
		cond = genCond(g.rng, 2, true)
	}
	g.emit(fmt.Sprintf("q %d %s %s", g.nq, pick(g.rng, genPrefixes), cond))
	g.r.Count("cond:" + strings.Fields(cond)[0])
	g.nq++
	return g.nq - 1
}

func (g *seqGen) someQuery() int {
	if g.nq == 0 || g.rng.Intn(100) < 35 {
		return g.newQuery()
	}
	g.r.Count("query:shared-object")
	return g.rng.Intn(g.nq)
}

func (g *seqGen) beh(recPhase bool) string {
	x := g.rng.Intn(100)
	switch {
	case x < 40:
		return "-"
	case x < 75:
		return "p"
	case x < 85 || !recPhase:
		g.vetoes = true
		return fmt.Sprintf("v%d", 1+g.rng.Intn(9))
	case x < 90:
		return "x"
	default:
		return fmt.Sprintf("s%d", g.rng.Intn(10))
	}
}

func (g *seqGen) key() string { return pick(g.rng, g.keys) }

func (g *seqGen) afterWrite() {
	if g.drain {
		g.emit("drain")
	}
}

func (g *seqGen) op() {
	rng := g.rng
	x := rng.Intn(100)
	switch {
	case x < 7:
		q := g.someQuery()
		g.emit(fmt.Sprintf("sub %d %s %d", g.nsub, pick(rng, genIfaces), q))
		g.live = append(g.live, g.nsub)
		g.nsub++
		g.r.Count("op:sub")
	case x < 12 && g.nsub > 0:
		// cancel: mostly an active one, sometimes an already cancelled one (double cancel)
		id := rng.Intn(g.nsub)
		if len(g.live) > 0 && rng.Intn(100) < 80 {
			k := rng.Intn(len(g.live))
			id = g.live[k]
			g.live = append(g.live[:k], g.live[k+1:]...)
		} else {
			g.r.Count("op:cancel-again-or-unknown")
		}
		g.emit(fmt.Sprintf("cancel %d", id))
		g.afterWrite()
		g.r.Count("op:cancel")
	case x < 18:
		if len(g.hvals) > 0 && rng.Intn(100) < 30 {
			g.rehook()
			return
		}
		q := g.someQuery()
		g.newHook(q)
		g.r.Count("op:hook")
	case x < 22 && len(g.hooks) > 0:
		k := rng.Intn(len(g.hooks))
		g.emit(fmt.Sprintf("unhook %d", g.hooks[k]))
		if rng.Intn(100) < 85 {
			g.hooks = append(g.hooks[:k], g.hooks[k+1:]...)
		}
		g.r.Count("op:unhook")
	case x < 52:
		op := "put"
		if rng.Intn(100) < 15 {
			op = "putnew"
		}
		if (g.kind == "hashmap" || g.kind == "bbolt") && rng.Intn(100) < 4 {
			// a batch through Interface.PutMany (documented to skip hooks and subscribers: known finding)
			key := g.key()
			g.emit(fmt.Sprintf("putmany %s %s %d %s %s", pick(rng, []string{"LI", "LI", "LI", "L", "-", "LIS"}), key, rng.Intn(10), pick(rng, genStrs), pick(rng, []string{"-", "-", "s", "d"})))
			g.emit("drain")
			g.emit("raw " + key)
			g.r.Count("op:putmany")
			return
		}
		key := g.key()
		raw := g.vetoes && rng.Intn(100) < 50
		if raw {
			g.emit("raw " + key)
		}
		g.emit(fmt.Sprintf("%s %s %s %d %s %s", op, pick(rng, genIfaces), key, rng.Intn(10), pick(rng, genStrs), pick(rng, genFlags)))
		if raw || rng.Intn(100) < 10 {
			g.emit("raw " + key)
		}
		g.afterWrite()
		g.writes++
		g.r.Count("op:" + op)
	case x < 72:
		op := pick(rng, []string{"del", "del", "del", "mksec", "mksec", "mkcj", "mkcj", "exp", "exp", "ins", "ins", "relexp"})
		key := g.key()
		raw := rng.Intn(100) < 65
		if raw {
			g.emit("raw " + key)
		}
		switch op {
		case "exp":
			g.emit(fmt.Sprintf("exp %s %s %s", pick(rng, genIfaces), key, pick(rng, []string{"p", "f"})))
		case "ins":
			g.emit(fmt.Sprintf("ins %s %s %d", pick(rng, genIfaces), key, rng.Intn(10)))
		case "relexp":
			g.emit(fmt.Sprintf("relexp %s %s %s", pick(rng, genIfaces), key, pick(rng, []string{"0", "-1"})))
		default:
			g.emit(fmt.Sprintf("%s %s %s", op, pick(rng, genIfaces), key))
		}
		if raw {
			g.emit("raw " + key)
		}
		g.afterWrite()
		g.writes++
		g.r.Count("op:" + op)
	case x < 84:
		key := g.key()
		g.emit("raw " + key) // what is stored: the monitor's own reading of the get-hook clause starts from it
		if rng.Intn(100) < 25 {
			g.emit(fmt.Sprintf("exists %s %s", pick(rng, genIfaces), key))
			g.r.Count("op:exists")
		} else {
			g.emit(fmt.Sprintf("get %s %s", pick(rng, genIfaces), key))
			g.r.Count("op:get")
		}
	case x < 92:
		if g.life {
			g.lifeOp()
			return
		}
		if g.kind == "inj" || g.kind == "reg" || g.kind == "pushonly" || rng.Intn(100) < 30 {
			g.emit(fmt.Sprintf("push %s %d %s %s", g.key(), rng.Intn(10), pick(rng, genStrs), pick(rng, genFlags)))
			g.afterWrite()
			g.writes++
			g.r.Count("op:push")
		}
	case x < 96:
		g.emit("sizes")
	default:
		g.emit("raw " + g.key())
	}
}

// newHook: a new hook value, registered once.
func (g *seqGen) newHook(q int) {
	g.emit(fmt.Sprintf("hook %d %d %s %s %s", g.nhook, q, g.beh(false), g.beh(true), g.beh(true)))
	g.hooks = append(g.hooks, g.nhook)
	g.hvals = append(g.hvals, g.nhook)
	if g.hvalQ == nil {
		g.hvalQ = map[int]int{}
	}
	g.hvalQ[g.nhook] = q
	g.nhook++
}

// rehook: an existing hook value (also one whose registrations are all cancelled) registered once more — with the
// query object it was registered with before, or another / a new one.
func (g *seqGen) rehook() {
	hv := g.hvals[g.rng.Intn(len(g.hvals))]
	q := g.hvalQ[hv]
	if g.rng.Intn(100) < 70 {
		q = g.someQuery()
		g.r.Count("rehook:other-query-object")
	} else {
		g.r.Count("rehook:same-query-object")
	}
	g.emit(fmt.Sprintf("rehook %d %d %d", g.nhook, hv, q))
	g.hooks = append(g.hooks, g.nhook)
	g.hvalQ[hv] = q
	g.nhook++
	g.r.Count("op:rehook")
}

// addProv emits a Register call; only providers the registry will accept (no provider on a prefix of the key or on
// the key itself, none below a new prefix — the documented contract of Register) are used for pushes later.
func (g *seqGen) addProv() {
	k := pick(g.rng, lifeProvKeys)
	if len(g.pkeys) == 0 && g.rng.Intn(100) < 60 {
		k = "a/" // most keys of the case are below it
	}
	g.emit(fmt.Sprintf("prov %d %s", g.nprov, k))
	taken, longest := false, ""
	for _, p := range g.pkeys {
		if strings.HasPrefix(k, p) && len(p) >= len(longest) {
			longest = p
		}
		if strings.HasSuffix(k, "/") && strings.HasPrefix(p, k) {
			taken = true
		}
	}
	if longest != "" && (strings.HasSuffix(longest, "/") || longest == k) {
		taken = true
	}
	if !taken {
		g.provs = append(g.provs, g.nprov)
		g.pkeys = append(g.pkeys, k)
	} else {
		g.r.Count("reglife:register-refused")
	}
	g.nprov++
}

var lifeProvKeys = []string{"a/", "a/", "a/x", "a/x/", "a/b/", "b/", "ab", "a", "c", "a/y", "b/x"}

// lifeOp: one call on the runtime registry itself — Register, InjectAsDatabase (again), or a push through the push
// function of one of the providers (registered before or after the injection), for a key inside or outside that
// provider's own prefix.
func (g *seqGen) lifeOp() {
	rng := g.rng
	switch x := rng.Intn(100); {
	case x < 22 || len(g.provs) == 0:
		g.addProv()
		g.r.Count("op:prov")
	case x < 27:
		g.emit("inject")
		g.r.Count("op:inject-again")
	case x < 40:
		g.emit(fmt.Sprintf("ppushn %d %d %s %d %s %s", g.provs[rng.Intn(len(g.provs))], 2+rng.Intn(3), g.key(), rng.Intn(7), pick(rng, genStrs), pick(rng, genFlags)))
		g.afterWrite()
		g.writes++
		g.r.Count("op:ppushn")
	default:
		g.emit(fmt.Sprintf("ppush %d %s %d %s %s", g.provs[rng.Intn(len(g.provs))], g.key(), rng.Intn(10), pick(rng, genStrs), pick(rng, genFlags)))
		g.afterWrite()
		g.writes++
		g.r.Count("op:ppush")
	}
}

// genRegLife: the life cycle of a runtime registry as injected database, in every order: providers registered before
// and after InjectAsDatabase, push functions called before and after the injection and before and after anybody
// subscribed, subscriptions / hooks / reads / writes attempted before the injection (they must fail), a second
// injection, providers on nested keys and prefixes (some refused), pushes of records outside the pusher's prefix and
// of records marked deleted — then an ordinary history on the injected database with registry calls mixed in.
func genRegLife(r *hxlib.Run, nops int) hxlib.Case {
	g := &seqGen{r: r, rng: r.Rng, kind: "reg", drain: true, life: true,
		keys: []string{"a/x", "a/y", "a/b/z", "a/x/1", "a/x", "b/x", "ab", "a", "c"}}
	rng := r.Rng
	g.emit("db regraw 0")
	for i, n := 0, 1+rng.Intn(3); i < n; i++ {
		g.newQuery()
	}
	before := 0
	switch x := rng.Intn(100); {
	case x < 25: // the order the runtime module uses: inject first
	case x < 60:
		before = 1
	default:
		before = 2 + rng.Intn(3)
	}
	r.Count(fmt.Sprintf("reglife:calls-before-inject:%d", min(before, 3)))
	early := 0
	for i := 0; i < before; i++ {
		switch x := rng.Intn(100); {
		case x < 55 || i == 0:
			g.addProv()
			early++
		case x < 70 && len(g.provs) > 0:
			g.emit(fmt.Sprintf("ppush %d %s %d %s -", g.provs[rng.Intn(len(g.provs))], g.key(), rng.Intn(10), pick(rng, genStrs)))
			g.emit("drain")
			r.Count("reglife:push-before-inject")
		case x < 80:
			g.emit(fmt.Sprintf("sub %d %s %d", g.nsub, pick(rng, genIfaces), rng.Intn(g.nq))) // fails: no controller yet
			g.nsub++
			r.Count("reglife:subscribe-before-inject")
		case x < 87:
			g.emit(fmt.Sprintf("hook %d %d p p p", g.nhook, rng.Intn(g.nq)))
			g.nhook++
		case x < 94:
			g.emit(fmt.Sprintf("put LI %s %d %s -", g.key(), rng.Intn(10), pick(rng, genStrs)), "raw "+g.key())
		default:
			g.emit("get LI "+g.key(), "sizes")
		}
	}
	if early > 0 {
		r.Count("reglife:provider-registered-before-inject")
	}
	g.emit("inject")
	// subscribers first (mostly), so that the pushes that follow meet somebody
	for i, n := 0, 1+rng.Intn(3); i < n; i++ {
		g.emit(fmt.Sprintf("sub %d %s %d", g.nsub, pick(rng, []string{"LI", "LI", "LI", "L", "I", "-"}), rng.Intn(g.nq)))
		g.live = append(g.live, g.nsub)
		g.nsub++
	}
	if rng.Intn(100) < 70 || len(g.provs) == 0 {
		g.addProv()
	}
	// every provider pushes once, the early ones first
	for _, p := range g.provs {
		g.emit(fmt.Sprintf("ppush %d %s %d %s %s", p, g.key(), rng.Intn(10), pick(rng, genStrs), pick(rng, []string{"-", "-", "-", "s", "d", "c"})), "drain")
		g.writes++
	}
	for i := 0; i < nops; i++ {
		if rng.Intn(100) < 25 {
			g.lifeOp()
			continue
		}
		g.op()
	}
	g.emit("drain", "sizes")
	return hxlib.Case{Lines: g.lines, Kind: "seq:reglife", NonTrivial: g.writes > 0}
}

// genSameHook: identity of hook values vs. registrations. One or two hook values, each registered one to three times
// — with the same query object, with another object for the same prefix, with other prefixes / conditions — then
// writes and reads on keys below every prefix, the registrations cancelled one by one in a random order (also twice)
// with the same writes and reads after every cancel: each registration is asked for what its own query matches and
// stops being asked when it — and not another registration of the same value — has been cancelled.
func genSameHook(r *hxlib.Run) hxlib.Case {
	rng := r.Rng
	kind := pick(rng, []string{"hashmap 0", "hashmap 0", "hashmap 1", "bbolt 0", "inj 0", "reg 0"})
	g := &seqGen{r: r, rng: rng, kind: strings.Fields(kind)[0], drain: true, keys: []string{"a/x", "a/y", "a/b/z", "b/x", "a/x/1", "ab"}}
	if g.kind == "reg" {
		g.keys = []string{"a/x", "a/y", "a/b/z", "a/x/1"}
	}
	g.emit("db " + kind)
	prefixes := []string{"a/x", "a/y", "a/b", "b", "a/", "-", "a/x/"}
	if g.kind == "reg" {
		prefixes = []string{"a/x", "a/y", "a/b", "a/", "-", "a/x/"}
	}
	rng.Shuffle(len(prefixes), func(i, j int) { prefixes[i], prefixes[j] = prefixes[j], prefixes[i] })
	nq := 2 + rng.Intn(3)
	for i := 0; i < nq; i++ {
		cond := "T"
		if rng.Intn(100) < 25 {
			cond = genCond(rng, 1, false)
		}
		pre := prefixes[i]
		if i > 0 && rng.Intn(100) < 20 {
			pre = prefixes[i-1] // another query object for the same prefix
		}
		g.emit(fmt.Sprintf("q %d %s %s", g.nq, pre, cond))
		g.nq++
	}
	if rng.Intn(100) < 40 {
		g.emit(fmt.Sprintf("sub 0 LI %d", rng.Intn(nq)))
		g.nsub, g.live = 1, []int{0}
	}
	behs := [][3]string{{"-", "-", "v3"}, {"-", "-", "v3"}, {"v4", "-", "-"}, {"-", "v5", "-"}, {"p", "p", "p"}, {"-", "p", "s7"}, {"-", "s6", "p"}, {"v2", "p", "v3"}, {"-", "x", "p"}}
	nvals := 1 + rng.Intn(2)
	for v := 0; v < nvals; v++ {
		b := behs[rng.Intn(len(behs))]
		q0 := rng.Intn(nq)
		g.emit(fmt.Sprintf("hook %d %d %s %s %s", g.nhook, q0, b[0], b[1], b[2]))
		hv := g.nhook
		g.hooks = append(g.hooks, hv)
		g.nhook++
		for k, n := 0, 1+rng.Intn(2); k < n; k++ {
			q := rng.Intn(nq)
			if rng.Intn(100) < 20 {
				q = q0
			}
			g.emit(fmt.Sprintf("rehook %d %d %d", g.nhook, hv, q))
			g.hooks = append(g.hooks, g.nhook)
			g.nhook++
		}
	}
	r.Count(fmt.Sprintf("samehook:registrations:%d", len(g.hooks)))
	round := func() {
		for _, k := range g.keys {
			if rng.Intn(100) < 25 {
				continue
			}
			switch x := rng.Intn(100); {
			case x < 45:
				g.emit("raw "+k, fmt.Sprintf("put LI %s %d %s -", k, rng.Intn(10), pick(rng, genStrs)), "raw "+k, "drain")
				g.writes++
			case x < 75:
				g.emit("raw "+k, fmt.Sprintf("%s LI %s", pick(rng, []string{"get", "get", "exists"}), k))
			case x < 90:
				g.emit("raw "+k, fmt.Sprintf("%s LI %s", pick(rng, []string{"mksec", "mkcj", "del"}), k), "raw "+k, "drain")
				g.writes++
			default:
				g.emit("raw "+k, fmt.Sprintf("putnew %s %s %d %s -", pick(rng, []string{"LI", "L", "-"}), k, rng.Intn(10), pick(rng, genStrs)), "raw "+k, "drain")
				g.writes++
			}
		}
	}
	round()
	order := append([]int{}, g.hooks...)
	rng.Shuffle(len(order), func(i, j int) { order[i], order[j] = order[j], order[i] })
	for i, id := range order {
		g.emit(fmt.Sprintf("unhook %d", id), "sizes")
		if rng.Intn(100) < 15 {
			g.emit(fmt.Sprintf("unhook %d", order[rng.Intn(i+1)])) // a registration that is cancelled already
		}
		if i+1 < len(order) || rng.Intn(2) == 0 {
			round()
		}
	}
	g.emit("drain", "sizes")
	return hxlib.Case{Lines: g.lines, Kind: "seq:samehook", NonTrivial: g.writes > 0}
}

// genPushOnly: an injected database of the third kind — its storage is storage.InjectBase as it comes: read-only
// (ReadOnly() == true, the base's default), it accepts no Put and serves nothing; everything its subscribers ever see
// is pushed through Controller.PushUpdate. Subscriptions of every privilege combination and query (made up front and
// during the history, cancelled, cancelled twice), pushes of live / deleted-marked / secret / crown-jewel / expired
// records for keys inside and outside the queries' prefixes, hooks registered (a push calls none), and the refused
// operations in between: Put / PutNew / Delete / MakeSecret … through every interface (ErrReadOnly, nothing delivered,
// no hook called), Get / Exists (nothing stored).
func genPushOnly(r *hxlib.Run, nops int) hxlib.Case {
	g := &seqGen{r: r, rng: r.Rng, kind: "pushonly", drain: r.Rng.Intn(100) < 70, keys: genKeys}
	rng := g.rng
	g.emit("db pushonly 0")
	for i, n := 0, 1+rng.Intn(3); i < n; i++ {
		g.newQuery()
	}
	for i, n := 0, 1+rng.Intn(4); i < n; i++ {
		g.emit(fmt.Sprintf("sub %d %s %d", g.nsub, pick(rng, genIfaces), rng.Intn(g.nq)))
		g.live = append(g.live, g.nsub)
		g.nsub++
	}
	for i, n := 0, rng.Intn(3); i < n; i++ {
		g.newHook(rng.Intn(g.nq))
	}
	for i := 0; i < nops; i++ {
		if rng.Intn(100) < 55 {
			fl := pick(rng, genFlags)
			g.emit(fmt.Sprintf("push %s %d %s %s", g.key(), rng.Intn(10), pick(rng, genStrs), fl))
			g.afterWrite()
			g.writes++
			r.Count("pushonly:push:" + fl)
			continue
		}
		g.op()
	}
	g.emit("drain", "sizes")
	return hxlib.Case{Lines: g.lines, Kind: "seq:pushonly", NonTrivial: g.writes > 0}
}

func genSequential(r *hxlib.Run, kind string, shadow int, nops int, delayed bool) hxlib.Case {
	g := &seqGen{r: r, rng: r.Rng, kind: kind, drain: true, keys: genKeys}
	if kind == "reg" {
		g.keys = []string{"a/x", "a/y", "a/b/z", "a/x/1", "a/x", "b/x", "ab"}
	}
	g.emit(fmt.Sprintf("db %s %d", kind, shadow))
	// a few queries, subscriptions and hooks up front so that most writes meet somebody
	for i, n := 0, 1+g.rng.Intn(3); i < n; i++ {
		g.newQuery()
	}
	for i, n := 0, g.rng.Intn(4); i < n; i++ {
		g.emit(fmt.Sprintf("sub %d %s %d", g.nsub, pick(g.rng, genIfaces), g.rng.Intn(g.nq)))
		g.live = append(g.live, g.nsub)
		g.nsub++
	}
	for i, n := 0, g.rng.Intn(3); i < n; i++ {
		g.newHook(g.rng.Intn(g.nq))
	}
	for i := 0; i < nops; i++ {
		if delayed && g.rng.Intn(100) < 15 {
			if g.rng.Intn(100) < 70 {
				g.emit(fmt.Sprintf("put LI+w %s %d %s %s", g.key(), g.rng.Intn(10), pick(g.rng, genStrs), pick(g.rng, []string{"-", "-", "s", "d", "f"})))
				g.emit("drain")
				g.r.Count("op:put-delayed")
			} else {
				g.emit("flush LI+w")
				g.emit("drain")
				g.emit("raw " + g.key())
				g.r.Count("op:flush")
			}
			continue
		}
		g.op()
	}
	g.emit("drain")
	g.emit("sizes")
	k := "seq:" + kind
	if shadow == 1 {
		k += "+shadow"
	}
	if delayed {
		k += "+delayedwrites"
	}
	r.Count(fmt.Sprintf("subs:%d", min(g.nsub, 5)))
	r.Count(fmt.Sprintf("hooks:%d", min(g.nhook, 5)))
	return hxlib.Case{Lines: g.lines, Kind: k, NonTrivial: (g.nsub > 0 || g.nhook > 0) && g.writes > 0}
}

// genOverflow: more than 1000 undrained writes to one key space, then drain (the "buffer not full" proviso).
func genOverflow(r *hxlib.Run) hxlib.Case {
	rng := r.Rng
	var l []string
	l = append(l, "db hashmap 0", "q 0 - T", fmt.Sprintf("q 1 a %s", genCond(rng, 1, false)), "sub 0 LI 0", "sub 1 L 1")
	extra := rng.Intn(8) - 1 // 999 … 1006 undrained writes: both sides of the buffer boundary
	for i := 0; i < feedCapStatement+extra; i++ {
		if rng.Intn(10) == 0 {
			l = append(l, fmt.Sprintf("push %s %d %s %s", pick(rng, genKeys), i%10, pick(rng, genStrs), pick(rng, []string{"-", "s"})))
		} else {
			l = append(l, fmt.Sprintf("put LI %s %d %s %s", pick(rng, genKeys), i%10, pick(rng, genStrs), pick(rng, []string{"-", "-", "s", "d"})))
		}
	}
	l = append(l, "drain", "put LI a/x 3 foo -", "cancel 0", "put LI a/y 4 foo -", "drain", "sizes")
	return hxlib.Case{Lines: l, Kind: "seq:overflow", NonTrivial: true}
}

// implFeedCap: the capacity of a feed as the implementation makes it (probed once on a scratch database): the
// full-feed histories must reach the point where the code's buffer is full, whatever its size is; the monitor keeps
// the statement's 1000.
var implFeedCapOnce struct {
	sync.Once
	n int
}

func implFeedCap() int {
	implFeedCapOnce.Do(func() {
		implFeedCapOnce.n = feedCapStatement
		w := newWorld()
		if w.open("hashmap", false) != "ok" {
			return
		}
		defer w.Close()
		w.Do("q 0 - T")
		if w.Do("sub 0 LI 0") == "ok" {
			if s := w.findSub("0"); s != nil {
				implFeedCapOnce.n = cap(s.sub.Feed)
				_ = s.sub.Cancel()
			}
		}
	})
	return implFeedCapOnce.n
}

// genFullFeed: the "as long as the feed buffer is not full" proviso is per subscription. One subscription (the slow
// one) is never read until its feed is full and beyond; 1–3 other subscriptions whose queries match (all or part of)
// the same writes are registered before and after it and are read all the time (`drain1`) or now and then, so that
// feeds of different fill levels — full, nearly full, empty — are in the controller's list in every order when the
// writes past the slow one's capacity arrive. Ends with everything drained and a few more writes.
func genFullFeed(r *hxlib.Run, canonical bool) hxlib.Case {
	rng := r.Rng
	var l []string
	kind := pick(rng, []string{"hashmap 0", "hashmap 0", "hashmap 1", "inj 0"})
	l = append(l, "db "+kind)
	slowPrefix := pick(rng, []string{"a", "a/", "-", "a/x"})
	if canonical {
		// the first case of every run has the plain shape: the slow subscription first, then one on the same query
		// object that is read after every write
		return genFullFeedCanonical(r, l, slowPrefix)
	}
	l = append(l, fmt.Sprintf("q 0 %s T", slowPrefix))
	nq := 1
	type other struct {
		sid     int
		every   int // drained after every `every` writes; 0 = only at the end
		drained int
	}
	var others []*other
	nOthers := 1 + rng.Intn(3)
	slowPos := rng.Intn(nOthers + 1) // how many others are subscribed before the slow one
	if rng.Intn(100) < 60 {
		slowPos = 0 // the case that matters most: everybody else comes after the full feed
		if rng.Intn(100) < 30 {
			slowPos = 1
		}
	}
	slow := -1
	nsub := 0
	addOther := func() {
		qid := 0 // the same query object as the slow subscription
		switch x := rng.Intn(100); {
		case x < 35:
		case x < 60:
			l = append(l, fmt.Sprintf("q %d %s T", nq, pick(rng, []string{"-", "a", "a/", slowPrefix})))
			qid = nq
			nq++
		default:
			l = append(l, fmt.Sprintf("q %d %s %s", nq, pick(rng, []string{"-", "a", slowPrefix}), genCond(rng, 1, false)))
			qid = nq
			nq++
		}
		l = append(l, fmt.Sprintf("sub %d %s %d", nsub, pick(rng, []string{"LI", "LI", "LI", "L", "I"}), qid))
		o := &other{sid: nsub, every: pick2(rng, []int{1, 1, 1, 2, 7, 50, 0})}
		others = append(others, o)
		nsub++
	}
	for i := 0; i <= nOthers; i++ {
		if i == slowPos {
			l = append(l, fmt.Sprintf("sub %d LI 0", nsub))
			slow = nsub
			nsub++
		}
		if i < nOthers {
			addOther()
		}
	}
	keys := []string{"a/x", "a/x", "a/x/1", "a/y", "a/b/z", "ab", "b/x"}
	inSlow := func(k string) bool { return strings.HasPrefix(k, unq(slowPrefix)) }
	capN := implFeedCap()
	if capN < feedCapStatement {
		capN = feedCapStatement
	}
	extra := 1 + rng.Intn(8)
	filled, nw := 0, 0
	for filled < capN+extra && nw < 4*capN+100 {
		k := pick(rng, keys)
		switch x := rng.Intn(100); {
		case x < 8:
			l = append(l, fmt.Sprintf("push %s %d %s %s", k, nw%10, pick(rng, genStrs), pick(rng, []string{"-", "-", "s"})))
		case x < 12:
			l = append(l, fmt.Sprintf("put LI %s %d %s d", k, nw%10, pick(rng, genStrs))) // deletes are writes too
		default:
			l = append(l, fmt.Sprintf("put LI %s %d %s %s", k, nw%10, pick(rng, genStrs), pick(rng, []string{"-", "-", "-", "s", "c"})))
		}
		nw++
		if inSlow(k) {
			filled++
		}
		for _, o := range others {
			if o.every > 0 && nw%o.every == 0 {
				l = append(l, fmt.Sprintf("drain1 %d", o.sid))
				o.drained++
			}
		}
		if filled == capN && rng.Intn(100) < 30 {
			l = append(l, "sizes")
		}
	}
	r.Count(fmt.Sprintf("fullfeed:slow-at-position:%d-of-%d", slowPos, nOthers+1))
	// the slow subscriber finally reads (or is cancelled first), everybody is read, a few more writes arrive
	switch rng.Intn(4) {
	case 0:
		l = append(l, fmt.Sprintf("cancel %d", slow))
	case 1:
		l = append(l, fmt.Sprintf("drain1 %d", slow), "put LI a/x 3 foo -", "push a/x/1 4 bar -")
	}
	l = append(l, "drain", "put LI a/x 5 foo -", "put LI a/y 6 baz -", "drain", "sizes")
	return hxlib.Case{Lines: l, Kind: "seq:fullfeed", NonTrivial: true}
}

func genFullFeedCanonical(r *hxlib.Run, l []string, slowPrefix string) hxlib.Case {
	rng := r.Rng
	l = append(l, fmt.Sprintf("q 0 %s T", slowPrefix), "sub 0 LI 0", "sub 1 LI 0", "sub 2 L 0")
	capN := implFeedCap()
	if capN < feedCapStatement {
		capN = feedCapStatement
	}
	key := map[string]string{"a": "a/x", "a/": "a/y", "-": "b/x", "a/x": "a/x/1"}[slowPrefix]
	for i := 0; i < capN+3+rng.Intn(4); i++ {
		l = append(l, fmt.Sprintf("put LI %s %d %s -", key, i%10, pick(rng, genStrs)), "drain1 1")
		if i%97 == 0 {
			l = append(l, "drain1 2")
		}
	}
	l = append(l, "drain1 2", "drain", "put LI "+key+" 5 foo -", "drain", "sizes")
	r.Count("fullfeed:canonical")
	return hxlib.Case{Lines: l, Kind: "seq:fullfeed", NonTrivial: true}
}

func pick2(rng *rand.Rand, l []int) int { return l[rng.Intn(len(l))] }

// genMalformed: lines outside the grammar (both sides must answer bad-op and stay intact).
func genMalformed(r *hxlib.Run) hxlib.Case {
	rng := r.Rng
	bad := []string{"frob", "put", "put LI", "put LI a/x 1 foo", "put XX a/x 1 foo -", "put LI a/x one foo -", "put LI a/x 1 foo zz",
		"sub 0 LI 99", "sub x LI 0", "cancel 99", "cancel", "unhook 7", "hook 0 0 p p", "hook 0 0 s1 p p", "hook 0 0 q p p", "q 0 - T",
		"q 5 - gt", "q 6 - & gt 1", "q 7 A T", "q 8 - T T", "get LI", "get LI A", "exists LI", "exists LI+w a/x", "relexp LI a/x 5", "relexp LI a/x", "del QQ a/x", "exp LI a/x z", "ins LI a/x x", "db hashmap 0",
		"db bbolt 1", "db foo 0", "raw", "raw A", "flush LI", "drain now", "sizes 1", "push a/x 1 foo", "put LI+x a/x 1 foo -", "get LI+w a/x", "putmany LI+w a/x 1 foo -", "putmany LI a/x 1 foo", "putmany ZZ a/x 1 foo -", "inject", "prov 0 a/", "ppush 0 a/x 1 foo -", "ppushn 0 2 a/x 1 foo -", "rehook 5 0 0", "rehook 0 0", "unhook 5", "db regraw 1",
		"sub 3 LI+w 0", "put L+w a/x 1 foo -"}
	var l []string
	for i, n := 0, rng.Intn(3); i < n; i++ {
		l = append(l, pick(rng, bad)) // before the database exists everything is bad-op
	}
	l = append(l, "db hashmap 0", "q 0 - T", "sub 0 LI 0")
	for i, n := 0, 6+rng.Intn(10); i < n; i++ {
		l = append(l, pick(rng, bad))
		if rng.Intn(3) == 0 {
			l = append(l, fmt.Sprintf("put LI %s %d foo -", pick(rng, genKeys), rng.Intn(10)), "drain")
		}
	}
	l = append(l, "drain", "sizes")
	return hxlib.Case{Lines: l, Kind: "seq:malformed", NonTrivial: false}
}

var corpus = [][]string{
	// two subscriptions from one query object; cancel the second (pinned tree: closes #1's feed but removes #0 → panic)
	{"db hashmap 0", "q 0 a T", "sub 0 LI 0", "sub 1 LI 0", "put LI a/x 1 foo -", "drain", "cancel 1", "drain", "sizes", "put LI a/y 9 bar -", "drain", "cancel 1", "cancel 0", "put LI a/x 2 foo -", "drain", "sizes"},
	// two hooks from one query object; cancel the second
	{"db hashmap 0", "q 0 a T", "hook 0 0 p p p", "hook 1 0 - - v3", "unhook 1", "sizes", "put LI a/x 1 foo -", "get LI a/x", "unhook 0", "put LI a/x 2 foo -", "get LI a/x", "sizes"},
	// veto of in-place modifications
	{"db hashmap 1", "q 0 a T", "put LI a/x 1 foo -", "hook 0 0 - - v3", "raw a/x", "del LI a/x", "raw a/x", "get LI a/x", "raw a/x", "put LI a/x 2 bar -", "raw a/x", "unhook 0", "raw a/x", "ins LI a/x 44", "raw a/x"},
	{"db bbolt 0", "q 0 a T", "sub 0 LI 0", "put LI a/x 1 foo -", "hook 0 0 - - v3", "raw a/x", "del LI a/x", "raw a/x", "drain", "raw a/x", "mksec LI a/x", "raw a/x", "unhook 0", "del LI a/x", "drain", "raw a/x"},
	// replace chains and permissions
	{"db hashmap 0", "q 0 - T", "q 1 a gt 4", "sub 0 LI 0", "sub 1 - 1", "sub 2 L 1", "sub 3 I 0", "hook 0 0 p s7 s8", "hook 1 1 p p s2", "put LI a/x 1 foo -", "drain", "put S a/y 6 foo -", "drain", "put C a/y 6 foo -", "drain", "get LI a/x", "get - a/y", "mksec LI a/x", "drain", "del - a/x", "drain", "del I a/x", "drain"},
	// injected storage: the record the storage returns is what subscribers get; push
	{"db inj 0", "q 0 a T", "sub 0 LI 0", "put LI a/x 1 foo -", "drain", "raw a/x", "push a/y 2 bar s", "drain", "del LI a/x", "drain", "raw a/x"},
	// one hook value registered for two prefixes: each registration is asked for its own prefix; cancelling the second leaves the first
	{"db hashmap 0", "q 0 a/ T", "q 1 b/ T", "hook 0 0 - - v3", "rehook 1 0 1", "sizes", "raw b/x", "put LI b/x 1 foo -", "raw b/x", "raw a/x", "put LI a/x 1 foo -", "raw a/x", "unhook 1", "sizes",
		"raw a/x", "put LI a/x 2 foo -", "raw a/x", "put LI b/x 2 foo -", "raw b/x", "unhook 0", "put LI a/x 3 foo -", "sizes"},
	// the same value twice on one query object: called twice per matching operation, once after one cancel
	{"db hashmap 0", "q 0 a T", "hook 0 0 p p s7", "rehook 1 0 0", "put LI a/x 1 foo -", "raw a/x", "get LI a/x", "unhook 0", "put LI a/x 2 foo -", "raw a/x", "get LI a/x", "unhook 0", "unhook 1", "put LI a/x 3 foo -", "sizes"},
	// push-only injected database (storage.InjectBase as it comes, ReadOnly() == true): pushes are delivered, writes are refused
	{"db pushonly 0", "q 0 a/ T", "q 1 - gt 2", "sub 0 LI 0", "sub 1 - 0", "sub 2 L 1", "hook 0 0 p p p", "push a/x 1 foo -", "push b/x 2 bar -", "push a/x 3 foo s", "push a/y 4 baz d", "push a/y 5 baz c",
		"put LI a/x 5 foo -", "putnew - a/x 5 foo -", "raw a/x", "del LI a/x", "raw a/x", "get LI a/x", "raw a/x", "exists - a/x", "drain", "cancel 0", "push a/x 6 foo -", "drain", "sizes"},
	// runtime registry: provider registered BEFORE the injection, subscription after it, push through the early provider's function
	{"db regraw 0", "q 0 - T", "prov 0 a/", "sub 9 LI 0", "ppush 0 a/x 1 foo -", "put LI a/x 1 foo -", "raw a/x", "get LI a/x", "raw a/x", "exists LI a/x", "sizes", "inject", "inject", "sub 0 LI 0", "prov 1 b/", "prov 2 a/x/", "ppush 0 a/x 2 foo -", "drain",
		"ppush 1 b/y 3 bar -", "ppush 0 zz 4 baz -", "ppush 1 a/x 5 foo d", "drain", "put LI a/x 6 foo -", "put LI b/x 7 foo -", "put LI c 8 foo -", "drain", "cancel 0", "ppush 0 a/x 9 foo -", "drain", "sizes"},
	// runtime registry: unmanaged keys, no delete
	{"db reg 0", "q 0 - T", "sub 0 LI 0", "put LI a/x 1 foo -", "drain", "put LI b/x 1 foo -", "drain", "get LI a/x", "del LI a/x", "drain", "raw a/x", "push a/y 2 bar -", "drain"},
	// delayed writes never reach subscribers or hooks
	{"db hashmap 0", "q 0 a T", "sub 0 LI 0", "hook 0 0 - - p", "put LI+w a/y 2 bar -", "drain", "raw a/y", "flush LI+w", "drain", "raw a/y", "put LI a/y 3 bar -", "drain"},
}

func gen(r *hxlib.Run, emit func(hxlib.Case)) {
	for _, c := range corpus {
		emit(hxlib.Case{Lines: c, Kind: "corpus", NonTrivial: true})
	}
	n := r.Budget(9000, 120000)
	for i := 0; i < n; i++ {
		x := r.Rng.Intn(100)
		nops := 6 + r.Rng.Intn(30)
		switch {
		case x < 30:
			emit(genSequential(r, "hashmap", 0, nops, false))
		case x < 52:
			emit(genSequential(r, "hashmap", 1, nops, false))
		case x < 58:
			emit(genSequential(r, "bbolt", 0, nops, false))
		case x < 72:
			emit(genSequential(r, "inj", 0, nops, false))
		case x < 80:
			emit(genSequential(r, "reg", 0, nops, false))
		case x < 86:
			emit(genRegLife(r, nops))
		case x < 93:
			emit(genSequential(r, "hashmap", r.Rng.Intn(2), nops, true))
		default:
			emit(genMalformed(r))
		}
	}
	for i, n := 0, r.Budget(300, 4000); i < n; i++ {
		emit(genSameHook(r))
	}
	for i, n := 0, r.Budget(600, 8000); i < n; i++ {
		emit(genPushOnly(r, 6+r.Rng.Intn(30)))
	}
	for i, n := 0, r.Budget(40, 400); i < n; i++ {
		toks := []string{"hookdbs", pick(r.Rng, hookDbsBehs)}
		for j, m := 0, 4+r.Rng.Intn(12); j < m; j++ {
			toks = append(toks, pick(r.Rng, hookDbsTokens))
		}
		emit(hxlib.Case{Lines: []string{strings.Join(toks, " ")}, Kind: "hook-two-databases", NonTrivial: true, NoModel: true})
	}
	for i, n := 0, r.Budget(8, 60); i < n; i++ {
		emit(genFullFeed(r, i == 0))
	}
	for i, n := 0, r.Budget(4, 40); i < n; i++ {
		emit(genOverflow(r))
	}
	for i, n := 0, r.Budget(40, 400); i < n; i++ {
		emit(hxlib.Case{Lines: []string{fmt.Sprintf("cfgpush %d", 1+r.Rng.Intn(5))}, Kind: "config-push", NonTrivial: i < 5, NoModel: true})
	}
	for i, n := 0, r.Budget(60, 600); i < n; i++ {
		toks := []string{"cfgops"}
		if r.Rng.Intn(100) < 60 {
			toks = append(toks, pick(r.Rng, cfgTypeTokens))
		}
		for j, m := 0, 2+r.Rng.Intn(7); j < m; j++ {
			t := pick(r.Rng, cfgTokens)
			toks = append(toks, t)
			r.Count("cfgop:" + t)
		}
		emit(hxlib.Case{Lines: []string{strings.Join(toks, " ")}, Kind: "config-db", NonTrivial: true, NoModel: true})
	}
	for i, n := 0, r.Budget(12, 120); i < n; i++ {
		emit(hxlib.Case{Lines: []string{fmt.Sprintf("purgecase %d %s", r.Rng.Intn(6), pick(r.Rng, []string{"LI", "LI", "L", "I", "-"}))}, Kind: "purge", NonTrivial: i < 6, NoModel: true})
	}
	genConcurrent(r, emit)
	genHConcurrent(r, emit)
}
