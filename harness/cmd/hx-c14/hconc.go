package main

// hconc.go: concurrent scenarios of hook calls against RegisteredHook.Cancel. The REAL code runs gets and puts
// (Interface.Get / Interface.Put → runPreGetHooks, runPostGetHooks, runPrePutHooks) and RegisteredHook.Cancel calls in
// goroutines; the harness' hook functions log the begin and the end of every call (and can be parked inside a call),
// the `verif` event points of the database package give the lock acquisitions. The log becomes the op lines of a case:
//   hconc …                                   scenario header
//   ch h<i> <uses> <prefix> <cond…>           hook specs, in registration order (uses: one of - p v per phase pg/og/pp)
//   cr <key> <n> <s> <flags>                  records stored before the threads start
//   cg g<k> get <key> | put <key> <n> <s> <flags>   the operation of each runner thread
//   ev <thread> <event> …                     one line per recorded event, in log order
//   obs hooks <n>                             entries left in the controller's hook list at the end
// The Lean driver replays the events through the interleaving model of hooksLock (acceptor); the monitor reads the
// property off the trace: a call that BEGINS after Cancel of that hook returned is the violation (a call in progress
// when Cancel is called is not), and every get / put calls exactly the registered, matching hooks of its phases.

import (
	"fmt"
	"math/rand"
	"runtime"
	"strconv"
	"strings"
	"sync"
	"time"

	"github.com/safing/portbase/database"
	"github.com/safing/portbase/database/query"
	"github.com/safing/portbase/database/record"

	"verifharness/hxlib"
)

type hcHook struct {
	uses         string // 3 chars, phases pg og pp: '-' unused, 'p' pass, 'v' veto
	prefix, cond string
	cancels      int
}

type hcOp struct {
	put           bool
	key, s, flags string
	n             int
}

type hcStored struct {
	key, s, flags string
	n             int
}

type hscenario struct {
	hooks  []hcHook
	stored []hcStored
	ops    []hcOp
	cons   []constraint // event `delay` (a logged event, or the park point "g<k> incall h<i> <ph>") waits for event `until`
}

// goid: the id of the calling goroutine (used only to attribute events of the database package to the harness
// thread that runs the code; never printed).
func goid() uint64 {
	var buf [64]byte
	n := runtime.Stack(buf[:], false)
	s := strings.TrimPrefix(string(buf[:n]), "goroutine ")
	if i := strings.IndexByte(s, ' '); i > 0 {
		id, _ := strconv.ParseUint(s[:i], 10, 64)
		return id
	}
	return 0
}

// logNow appends an event without looking at the constraints (call begins: logged at once, at the entry of the hook).
func (rc *recorder) logNow(ev string) {
	rc.mu.Lock()
	rc.events = append(rc.events, ev)
	rc.seen[ev] = true
	rc.cond.Broadcast()
	rc.mu.Unlock()
}

// await parks the caller at the named point until the event the scenario ties it to was logged (or the timeout).
func (rc *recorder) await(point string) {
	rc.mu.Lock()
	if until, ok := rc.cons[point]; ok && !rc.seen[until] {
		rc.waits++
		deadline := time.Now().Add(rc.timeout)
		t := time.AfterFunc(rc.timeout, func() { rc.mu.Lock(); rc.cond.Broadcast(); rc.mu.Unlock() })
		for !rc.seen[until] && time.Now().Before(deadline) {
			rc.cond.Wait()
		}
		t.Stop()
		if !rc.seen[until] {
			rc.tmos++
		}
	}
	rc.mu.Unlock()
}

type hrun struct {
	rc    *recorder
	gmu   sync.Mutex
	gtags map[uint64]string
	hidx  map[*database.RegisteredHook]int
	ctrl  *database.Controller
}

func (h *hrun) bind(tag string) {
	h.gmu.Lock()
	h.gtags[goid()] = tag
	h.gmu.Unlock()
}

func (h *hrun) tag() (string, bool) {
	h.gmu.Lock()
	t, ok := h.gtags[goid()]
	h.gmu.Unlock()
	return t, ok
}

func (h *hrun) sink(point string, args ...any) {
	switch point {
	case "runPreGetHooks:rlocked", "runPostGetHooks:rlocked", "runPrePutHooks:rlocked":
		if len(args) < 1 || args[0] != any(h.ctrl) {
			return
		}
		if t, ok := h.tag(); ok {
			ph := map[string]string{"runPreGetHooks:rlocked": "pg", "runPostGetHooks:rlocked": "og", "runPrePutHooks:rlocked": "pp"}[point]
			h.rc.log(t + " rlocked " + ph)
		}
	case "hookcancel:enter", "hookcancel:locked":
		if len(args) < 1 {
			return
		}
		rh, ok := args[0].(*database.RegisteredHook)
		if !ok {
			return
		}
		i, known := h.hidx[rh]
		if t, ok := h.tag(); ok && known {
			h.rc.log(fmt.Sprintf("%s %s h%d", t, strings.TrimPrefix(point, "hookcancel:"), i))
		}
	}
}

// hcImpl is the hook the scenarios register: it logs begin and end of every call and can be parked in between.
type hcImpl struct {
	run  *hrun
	idx  int
	uses string
}

func (h *hcImpl) UsesPreGet() bool  { return h.uses[0] != '-' }
func (h *hcImpl) UsesPostGet() bool { return h.uses[1] != '-' }
func (h *hcImpl) UsesPrePut() bool  { return h.uses[2] != '-' }

func (h *hcImpl) call(ph string, beh byte) error {
	t, ok := h.run.tag()
	if !ok {
		t = "g99"
	}
	h.run.rc.logNow(fmt.Sprintf("%s callbegin h%d %s", t, h.idx, ph)) // the call has begun: logged before anything else
	h.run.rc.await(fmt.Sprintf("%s incall h%d %s", t, h.idx, ph))
	if beh == 'v' {
		h.run.rc.logNow(fmt.Sprintf("%s callend h%d %s veto", t, h.idx, ph))
		return &vetoErr{strconv.Itoa(h.idx)}
	}
	h.run.rc.logNow(fmt.Sprintf("%s callend h%d %s pass", t, h.idx, ph))
	return nil
}

func (h *hcImpl) PreGet(string) error { return h.call("pg", h.uses[0]) }
func (h *hcImpl) PostGet(r record.Record) (record.Record, error) {
	if err := h.call("og", h.uses[1]); err != nil {
		return nil, err
	}
	return r, nil
}

func (h *hcImpl) PrePut(r record.Record) (record.Record, error) {
	if err := h.call("pp", h.uses[2]); err != nil {
		return nil, err
	}
	return r, nil
}

func runHScenario(sc *hscenario, descr string) []string {
	sinkMu.Lock()
	defer sinkMu.Unlock()
	w := newWorld()
	if out := w.open("hashmap", false); out != "ok" {
		panic("hconc: " + out)
	}
	defer w.Close()
	rc := &recorder{seen: map[string]bool{}, cons: map[string]string{}, timeout: 25 * time.Millisecond}
	rc.cond = sync.NewCond(&rc.mu)
	for _, c := range sc.cons {
		rc.cons[c.delay] = c.until
	}
	run := &hrun{rc: rc, gtags: map[uint64]string{}, hidx: map[*database.RegisteredHook]int{}, ctrl: w.ctrl}
	lines := []string{"hconc " + descr}
	li := w.iface("LI")
	// hooks first in the case text (the acceptor registers them in this order), records stored before they are registered
	for i, h := range sc.hooks {
		lines = append(lines, fmt.Sprintf("ch h%d %s %s %s", i, h.uses, h.prefix, h.cond))
	}
	for _, s := range sc.stored {
		if err := li.Put(w.newRec(s.key, int64(s.n), s.s, unq(s.flags))); err != nil {
			panic(err)
		}
		lines = append(lines, fmt.Sprintf("cr %s %d %s %s", s.key, s.n, s.s, s.flags))
	}
	regs := make([]*database.RegisteredHook, len(sc.hooks))
	for i, h := range sc.hooks {
		c, _, ok := parseCond(strings.Fields(h.cond))
		if !ok {
			panic("hconc: bad cond " + h.cond)
		}
		q := query.New(w.dbName + ":" + unq(h.prefix))
		if c != nil {
			q = q.Where(c)
		}
		rh, err := database.RegisterHook(q, &hcImpl{run: run, idx: i, uses: h.uses})
		if err != nil {
			panic(err)
		}
		regs[i] = rh
		run.hidx[rh] = i
	}
	recs := make([]*Rec, len(sc.ops))
	for k, op := range sc.ops {
		if op.put {
			recs[k] = w.newRec(op.key, int64(op.n), op.s, unq(op.flags))
			lines = append(lines, fmt.Sprintf("cg g%d put %s %d %s %s", k, op.key, op.n, op.s, op.flags))
		} else {
			lines = append(lines, fmt.Sprintf("cg g%d get %s", k, op.key))
		}
	}
	database.VerifSetSink(run.sink)
	defer database.VerifSetSink(nil)

	var wg sync.WaitGroup
	start := make(chan struct{})
	spawn := func(tag string, f func()) {
		wg.Add(1)
		go func() {
			defer wg.Done()
			run.bind(tag)
			defer func() {
				if x := recover(); x != nil {
					rc.logNow(tag + " panic")
				}
			}()
			<-start
			f()
		}()
	}
	for k, op := range sc.ops {
		k, op := k, op
		tag := fmt.Sprintf("g%d", k)
		spawn(tag, func() {
			rc.log(tag + " begin")
			var err error
			if op.put {
				err = li.Put(recs[k])
			} else {
				_, err = li.Get(w.dbName + ":" + op.key)
			}
			res := strings.ReplaceAll(strings.TrimPrefix(errClass(err), "err "), " ", "_")
			if strings.HasPrefix(res, "veto") {
				res = "veto"
			}
			rc.logNow(tag + " end " + res)
		})
	}
	for i, h := range sc.hooks {
		i := i
		for j := 0; j < h.cancels; j++ {
			tag := fmt.Sprintf("x%d", i*4+j)
			spawn(tag, func() {
				rc.log(fmt.Sprintf("%s call h%d", tag, i))
				_ = regs[i].Cancel()
				rc.logNow(fmt.Sprintf("%s returned h%d", tag, i))
			})
		}
	}
	close(start)
	done := make(chan struct{})
	go func() { wg.Wait(); close(done) }()
	if !rc.waitDone(done) {
		rc.logNow("g0 hang")
		concStats.hung = true
	}
	database.VerifSetSink(nil)
	rc.mu.Lock()
	evs := append([]string{}, rc.events...)
	rc.mu.Unlock()
	for _, e := range evs {
		lines = append(lines, "ev "+e)
	}
	if !concStats.hung {
		if _, n, err := database.VerifListSizes(w.dbName); err == nil {
			lines = append(lines, fmt.Sprintf("obs hooks %d", n))
		}
	}
	rc.mu.Lock()
	concStats.waits += rc.waits
	concStats.timeouts += rc.tmos
	rc.mu.Unlock()
	return lines
}

// ---- generator ---------------------------------------------------------------------------------------------

var (
	hcGetKeys = []string{"a/x", "a/y", "b/x", "a/zz"} // a/zz is not stored
	hcPutKeys = []string{"a/p", "b/p", "a/x/p"}
	hcPhases  = []string{"pg", "og", "pp"}
)

func (sc *hscenario) storedRec(key string) (mRec, bool) {
	for _, s := range sc.stored {
		if s.key == key {
			return mRec{key: s.key, n: int64(s.n), s: s.s, flags: flagsOf(unq(s.flags)), ok: true}, true
		}
	}
	return mRec{}, false
}

// hcApplies: does hook h declare phase ph and match the key / record of op? (The statement's "for exactly the get and
// put operations whose key (and, after loading or before storing, whose record) match its query".)
func hcApplies(h hcHook, op hcOp, ph string, stored func(string) (mRec, bool)) bool {
	q := mQuery{prefix: unq(h.prefix), cond: strings.Fields(h.cond)}
	switch ph {
	case "pg":
		return !op.put && h.uses[0] != '-' && q.matchesKey(op.key)
	case "og":
		if op.put || h.uses[1] == '-' {
			return false
		}
		r, ok := stored(op.key)
		return ok && q.matches(r)
	case "pp":
		if !op.put || h.uses[2] == '-' {
			return false
		}
		return q.matches(mRec{key: op.key, n: int64(op.n), s: op.s, flags: flagsOf(unq(op.flags)), ok: true})
	}
	return false
}

func genHScenario(rng *rand.Rand, r *hxlib.Run) *hscenario {
	sc := &hscenario{}
	for _, k := range []string{"a/x", "a/y", "b/x"} {
		sc.stored = append(sc.stored, hcStored{key: k, n: rng.Intn(10), s: pick(rng, genStrs), flags: pick(rng, []string{"-", "-", "s", "c"})})
	}
	nh := 2 + rng.Intn(3)
	for i := 0; i < nh; i++ {
		u := []byte("---")
		for p := 0; p < 3; p++ {
			switch x := rng.Intn(100); {
			case x < 25:
			case x < 92:
				u[p] = 'p'
			default:
				u[p] = 'v'
			}
		}
		if string(u) == "---" {
			u[rng.Intn(3)] = 'p'
		}
		cond := "T"
		if rng.Intn(100) < 25 {
			cond = genCond(rng, 1, false)
		}
		h := hcHook{uses: string(u), prefix: pick(rng, []string{"-", "-", "a", "a/", "b"}), cond: cond}
		switch x := rng.Intn(100); {
		case x < 30:
		case x < 85:
			h.cancels = 1
		default:
			h.cancels = 2
		}
		sc.hooks = append(sc.hooks, h)
	}
	nops := 1 + rng.Intn(4)
	for k := 0; k < nops; k++ {
		if rng.Intn(100) < 40 {
			sc.ops = append(sc.ops, hcOp{put: true, key: pick(rng, hcPutKeys), n: rng.Intn(10), s: pick(rng, genStrs), flags: pick(rng, []string{"-", "-", "s", "c"})})
		} else {
			sc.ops = append(sc.ops, hcOp{key: pick(rng, hcGetKeys)})
		}
	}
	// every event name a constraint may mention
	var evs []string
	for k := range sc.ops {
		evs = append(evs, fmt.Sprintf("g%d begin", k), fmt.Sprintf("g%d end ok", k))
		for _, ph := range hcPhases {
			evs = append(evs, fmt.Sprintf("g%d rlocked %s", k, ph))
			for i := range sc.hooks {
				evs = append(evs, fmt.Sprintf("g%d callbegin h%d %s", k, i, ph), fmt.Sprintf("g%d callend h%d %s pass", k, i, ph))
			}
		}
	}
	var parks []string
	for k := range sc.ops {
		for _, ph := range hcPhases {
			for i := range sc.hooks {
				parks = append(parks, fmt.Sprintf("g%d incall h%d %s", k, i, ph))
			}
		}
	}
	for i, h := range sc.hooks {
		for j := 0; j < h.cancels; j++ {
			for _, p := range []string{"call", "enter", "locked", "returned"} {
				evs = append(evs, fmt.Sprintf("x%d %s h%d", i*4+j, p, i))
			}
		}
	}
	add := func(delay, until string) {
		if delay != until {
			sc.cons = append(sc.cons, constraint{delay, until})
		}
	}
	// the hooks that apply to op k in phase ph, in registration order
	applicable := func(k int, ph string) []int {
		var l []int
		for i, h := range sc.hooks {
			if hcApplies(h, sc.ops[k], ph, sc.storedRec) {
				l = append(l, i)
			}
		}
		return l
	}
	nc := 1 + rng.Intn(3)
	for c := 0; c < nc; c++ {
		k := rng.Intn(nops)
		ph := "pp"
		if !sc.ops[k].put {
			ph = pick(rng, []string{"pg", "og"})
		}
		app := applicable(k, ph)
		switch x := rng.Intn(100); {
		case x < 40 && len(app) >= 2:
			// the operation is parked inside the call of an earlier hook while a hook registered later, which it has
			// still to call, is cancelled from another goroutine; released when that Cancel returned (it must not: timeout)
			a := rng.Intn(len(app) - 1)
			b := a + 1 + rng.Intn(len(app)-a-1)
			hb := app[b]
			if sc.hooks[hb].cancels == 0 {
				sc.hooks[hb].cancels = 1
			}
			add(fmt.Sprintf("x%d call h%d", hb*4, hb), fmt.Sprintf("g%d callbegin h%d %s", k, app[a], ph))
			add(fmt.Sprintf("g%d incall h%d %s", k, app[a], ph), fmt.Sprintf("x%d returned h%d", hb*4, hb))
			r.Count("hrace:parked-in-earlier-hook-vs-cancel-of-later:" + ph)
		case x < 55 && len(app) >= 1:
			// Cancel of the hook whose call is in progress: it is called (and has to wait) while the call runs
			a := app[rng.Intn(len(app))]
			if sc.hooks[a].cancels == 0 {
				sc.hooks[a].cancels = 1
			}
			add(fmt.Sprintf("x%d call h%d", a*4, a), fmt.Sprintf("g%d callbegin h%d %s", k, a, ph))
			add(fmt.Sprintf("g%d incall h%d %s", k, a, ph), fmt.Sprintf("x%d enter h%d", a*4, a))
			r.Count("hrace:cancel-called-during-call-of-same-hook:" + ph)
		case x < 70:
			// Cancel sits in its locked section while the operation arrives
			i := rng.Intn(nh)
			if sc.hooks[i].cancels == 0 {
				sc.hooks[i].cancels = 1
			}
			add(fmt.Sprintf("x%d locked h%d", i*4, i), fmt.Sprintf("g%d begin", k))
			r.Count("hrace:cancel-in-lock-vs-operation-arrives")
		case x < 80:
			// the operation holds the read lock (just taken) while Cancel arrives
			i := rng.Intn(nh)
			if sc.hooks[i].cancels == 0 {
				sc.hooks[i].cancels = 1
			}
			add(fmt.Sprintf("g%d rlocked %s", k, ph), fmt.Sprintf("x%d enter h%d", i*4, i))
			r.Count("hrace:rlocked-vs-cancel-arrives")
		default:
			if rng.Intn(2) == 0 {
				add(pick(rng, parks), pick(rng, evs))
			} else {
				add(pick(rng, evs), pick(rng, evs))
			}
			r.Count("hrace:random-pair")
		}
	}
	return sc
}

func genHConcurrent(r *hxlib.Run, emit func(hxlib.Case)) {
	n := r.Budget(500, 8000)
	for x := 0; x < n && !concStats.hung; x++ {
		sc := genHScenario(r.Rng, r)
		var cd []string
		for _, c := range sc.cons {
			cd = append(cd, strings.ReplaceAll(c.delay, " ", "_")+"<"+strings.ReplaceAll(c.until, " ", "_"))
		}
		descr := fmt.Sprintf("hooks=%d ops=%d cons=%s", len(sc.hooks), len(sc.ops), strings.Join(cd, ","))
		lines := runHScenario(sc, descr)
		hconcStats.scenarios++
		nt := false
		for _, l := range lines {
			if strings.Contains(l, " callbegin ") {
				nt = true
			}
		}
		r.Count(fmt.Sprintf("hconc:ops:%d", len(sc.ops)))
		r.Count(fmt.Sprintf("hconc:events:%d0s", len(lines)/10))
		emit(hxlib.Case{Lines: lines, Kind: "hconc", NonTrivial: nt})
	}
}

var hconcStats struct{ scenarios int }

// ---- monitor for hook traces ---------------------------------------------------------------------------------

func monitorHConc(c hxlib.Case, outs []string) (vs []hxlib.Violation) {
	seen := map[string]bool{}
	add := func(sig, what string) {
		if seen[sig] {
			return
		}
		seen[sig] = true
		vs = append(vs, hxlib.Violation{Sig: sig, What: what, Lines: c.Lines})
	}
	num := func(s string, p byte) int {
		if len(s) < 2 || s[0] != p {
			return -1
		}
		v, err := strconv.Atoi(s[1:])
		if err != nil {
			return -1
		}
		return v
	}
	type call struct {
		at, hook int
		ph       string
		veto     bool
	}
	type op struct {
		spec       hcOp
		begin, end int
		res        string
		calls      []*call
	}
	var hooks []hcHook
	stored := map[string]mRec{}
	ops := map[int]*op{}
	cancelCall := map[int]int{}
	cancelRet := map[int]int{}
	obsHooks := -1
	for i, l := range c.Lines {
		f := strings.Fields(l)
		switch f[0] {
		case "ch":
			if len(f) >= 5 && num(f[1], 'h') == len(hooks) && len(f[2]) == 3 {
				hooks = append(hooks, hcHook{uses: f[2], prefix: f[3], cond: strings.Join(f[4:], " ")})
			}
		case "cr":
			if len(f) == 5 {
				n, _ := strconv.ParseInt(f[2], 10, 64)
				stored[f[1]] = mRec{key: f[1], n: n, s: f[3], flags: flagsOf(unq(f[4])), ok: true}
			}
		case "cg":
			k := num(sel(f, 1), 'g')
			switch {
			case len(f) == 4 && f[2] == "get":
				ops[k] = &op{spec: hcOp{key: f[3]}, begin: -1, end: -1}
			case len(f) == 7 && f[2] == "put":
				n, _ := strconv.Atoi(f[4])
				ops[k] = &op{spec: hcOp{put: true, key: f[3], n: n, s: f[5], flags: f[6]}, begin: -1, end: -1}
			}
		case "obs":
			if len(f) == 3 && f[1] == "hooks" {
				obsHooks, _ = strconv.Atoi(f[2])
			}
		case "ev":
			if len(f) < 3 {
				continue
			}
			switch f[2] {
			case "panic":
				add("C14:hconc:panic", "a goroutine of the scenario panicked: "+l)
			case "hang":
				add("C14:hconc:hang", "the scenario did not finish within 20 s")
			case "begin":
				if o := ops[num(f[1], 'g')]; o != nil {
					o.begin = i
				}
			case "end":
				if o := ops[num(f[1], 'g')]; o != nil && len(f) == 4 {
					o.end, o.res = i, f[3]
				}
			case "callbegin":
				if o := ops[num(f[1], 'g')]; o != nil && len(f) == 5 {
					o.calls = append(o.calls, &call{at: i, hook: num(f[3], 'h'), ph: f[4]})
				}
			case "callend":
				if o := ops[num(f[1], 'g')]; o != nil && len(f) == 6 && len(o.calls) > 0 {
					o.calls[len(o.calls)-1].veto = f[5] == "veto"
				}
			case "call":
				if len(f) == 4 {
					if h := num(f[3], 'h'); h >= 0 {
						if _, ok := cancelCall[h]; !ok {
							cancelCall[h] = i
						}
					}
				}
			case "returned":
				if len(f) == 4 {
					if h := num(f[3], 'h'); h >= 0 {
						if _, ok := cancelRet[h]; !ok {
							cancelRet[h] = i
						}
					}
				}
			}
		}
	}
	getStored := func(k string) (mRec, bool) { r, ok := stored[k]; return r, ok }
	phaseName := map[string]string{"pg": "PreGet", "og": "PostGet", "pp": "PrePut"}
	for k, o := range ops {
		if o.begin < 0 || o.end < 0 {
			continue
		}
		// "is no longer called once its cancel returned": a call that begins after Cancel returned
		for _, cl := range o.calls {
			if ret, ok := cancelRet[cl.hook]; ok && cl.at > ret {
				add("C14:hconc:hook-called-after-cancel-returned:"+cl.ph,
					fmt.Sprintf("%s of hook h%d was called (by g%d, trace line %d) after its Cancel had returned (trace line %d)", phaseName[cl.ph], cl.hook, k, cl.at, ret))
			}
		}
		// "is called, in the phases it declares, for exactly the get and put operations whose key / record match"
		phases := []string{"pp"}
		if !o.spec.put {
			phases = []string{"pg", "og"}
		}
		ci := 0
		vetoed := false
		for _, ph := range phases {
			if vetoed {
				break
			}
			if _, ok := getStored(o.spec.key); ph == "og" && !ok {
				break // nothing loaded: no post-get phase
			}
			for hi, h := range hooks {
				if vetoed {
					break
				}
				called := ci < len(o.calls) && o.calls[ci].hook == hi && o.calls[ci].ph == ph
				if !hcApplies(h, o.spec, ph, getStored) {
					if called {
						add("C14:hconc:called-not-matching:"+ph, fmt.Sprintf("g%d called %s of hook h%d although the hook does not declare the phase or its query does not match the operation", k, phaseName[ph], hi))
						if o.calls[ci].veto {
							vetoed = true
						}
						ci++
					}
					continue
				}
				cc, hasCall := cancelCall[hi]
				cr, hasRet := cancelRet[hi]
				sure := !hasCall || cc > o.end
				gone := hasRet && cr < o.begin
				switch {
				case called && gone:
					// reported above (begins after Cancel returned)
				case !called && sure:
					add("C14:hconc:hook-not-called:"+ph, fmt.Sprintf("hook h%d declares %s, matches the operation of g%d and was registered during all of it, but was not called", hi, phaseName[ph], k))
				}
				if called {
					if o.calls[ci].veto {
						vetoed = true
					}
					ci++
				}
			}
		}
		if ci < len(o.calls) {
			cl := o.calls[ci]
			add("C14:hconc:unexpected-hook-call", fmt.Sprintf("g%d called %s of hook h%d out of registration order, twice, in a phase the operation does not have, or after a veto", k, phaseName[cl.ph], cl.hook))
		}
		want := "ok"
		switch {
		case vetoed:
			want = "veto"
		case !o.spec.put:
			if _, ok := getStored(o.spec.key); !ok {
				want = "notfound"
			}
		}
		if o.res != want {
			add("C14:hconc:result", fmt.Sprintf("operation of g%d returned %q, the hooks that were called require %q", k, o.res, want))
		}
	}
	// after every Cancel returned the hook is out of the list
	if obsHooks >= 0 {
		left := 0
		for hi := range hooks {
			if _, ok := cancelRet[hi]; !ok {
				left++
			}
		}
		if obsHooks != left {
			add("C14:hconc:hook-list-after-cancel", fmt.Sprintf("%d hooks are left in the controller's list, %d were never cancelled", obsHooks, left))
		}
	}
	return vs
}
