package main

// samehook.go: one hook VALUE registered on two databases (and several times on each). Registrations are what
// RegisterHook hands out — one per call, each with its own query, each on the database its query names — whatever hook
// value they were made with. One self-contained scenario per `hookdbs <beh> <token>…` line on two fresh hashmap
// databases A and B, implementation only (no model); the monitor recomputes from the tokens alone which registrations
// exist, and reads the hook clause of the statement per registration.
//
//	beh     v  = the value declares pre-put and vetoes (code 3)        p = declares all three phases, passes
//	        g  = declares pre-get and vetoes (code 4)
//	r<D><k> register the value on database D (A|B) for the key prefix k/ (k = a|b)
//	c<n>    cancel the n-th registration made so far (0-based; no such registration: nothing happens)
//	p<D><k> Put of the record k/x on database D          g<D><k>  Get of k/x on database D
//
// Output: one word per token: `ok` for r / c (`-` for a c without target), `<result>/<calls>` for p / g, where calls is
// the list of calls the hook value saw during the operation (`pp@A:a/x`, `pg@…`, `og@…`, comma separated, `-` if none).

import (
	"fmt"
	"strconv"
	"strings"
	"sync"

	"github.com/safing/portbase/database"
	"github.com/safing/portbase/database/query"
	"github.com/safing/portbase/database/record"
)

var (
	hookDbsBehs   = []string{"v", "v", "p", "p", "g"}
	hookDbsTokens = []string{"rAa", "rAb", "rBa", "rBb", "rAa", "rBa", "c0", "c1", "c2", "c3", "c4", "pAa", "pAb", "pBa", "pBb", "pAa", "pBa", "gAa", "gAb", "gBa", "gBb"}
)

type dbsHook struct {
	database.HookBase
	beh string
	mu  sync.Mutex
	log []string
}

func (h *dbsHook) add(s string) {
	h.mu.Lock()
	h.log = append(h.log, s)
	h.mu.Unlock()
}

func (h *dbsHook) take() string {
	h.mu.Lock()
	defer h.mu.Unlock()
	if len(h.log) == 0 {
		return "-"
	}
	s := strings.Join(h.log, ",")
	h.log = nil
	return s
}

func (h *dbsHook) UsesPreGet() bool  { return h.beh == "p" || h.beh == "g" }
func (h *dbsHook) UsesPostGet() bool { return h.beh == "p" }
func (h *dbsHook) UsesPrePut() bool  { return h.beh == "p" || h.beh == "v" }

func (h *dbsHook) PreGet(key string) error {
	h.add("pg@" + key)
	if h.beh == "g" {
		return &vetoErr{"4"}
	}
	return nil
}

func (h *dbsHook) PostGet(r record.Record) (record.Record, error) {
	h.add("og@" + r.DatabaseName() + ":" + r.DatabaseKey())
	return r, nil
}

func (h *dbsHook) PrePut(r record.Record) (record.Record, error) {
	h.add("pp@" + r.DatabaseName() + ":" + r.DatabaseKey())
	if h.beh == "v" {
		return nil, &vetoErr{"3"}
	}
	return r, nil
}

func okHookDbsToken(t string) bool {
	if len(t) < 2 {
		return false
	}
	switch t[0] {
	case 'c':
		n, err := strconv.Atoi(t[1:])
		return err == nil && n >= 0 && n < 40
	case 'r', 'p', 'g':
		return len(t) == 3 && (t[1] == 'A' || t[1] == 'B') && (t[2] == 'a' || t[2] == 'b')
	}
	return false
}

func hookDbs(id int64, toks []string) string {
	if len(toks) < 1 || (toks[0] != "v" && toks[0] != "p" && toks[0] != "g") {
		return "bad-op"
	}
	for _, t := range toks[1:] {
		if !okHookDbsToken(t) {
			return "bad-op"
		}
	}
	initDB()
	names := map[byte]string{'A': fmt.Sprintf("c14ha%d", id), 'B': fmt.Sprintf("c14hb%d", id)}
	for _, n := range names {
		if _, err := database.Register(&database.Database{Name: n, Description: "C14 two-database hook case", StorageType: "hashmap"}); err != nil {
			return "err other:" + err.Error()
		}
	}
	h := &dbsHook{beh: toks[0]}
	li := database.NewInterface(&database.Options{Local: true, Internal: true})
	var regs []*database.RegisteredHook
	defer func() {
		for _, rh := range regs {
			_ = rh.Cancel()
		}
	}()
	out := make([]string, 0, len(toks))
	for _, t := range toks[1:] {
		switch t[0] {
		case 'r':
			rh, err := database.RegisterHook(query.New(names[t[1]]+":"+string(t[2])+"/"), h)
			if err != nil {
				return "err other:" + err.Error()
			}
			regs = append(regs, rh)
			out = append(out, "ok")
		case 'c':
			n, _ := strconv.Atoi(t[1:])
			if n >= len(regs) {
				out = append(out, "-")
				break
			}
			out = append(out, strings.ReplaceAll(errClass(regs[n].Cancel()), " ", "_"))
		case 'p':
			r := &Rec{N: 1, S: "foo"}
			r.SetKey(names[t[1]] + ":" + string(t[2]) + "/x")
			r.CreateMeta()
			res := strings.ReplaceAll(errClass(li.Put(r)), " ", "_")
			out = append(out, res+"/"+h.take())
		case 'g':
			_, err := li.Get(names[t[1]] + ":" + string(t[2]) + "/x")
			res := strings.ReplaceAll(errClass(err), " ", "_")
			out = append(out, res+"/"+h.take())
		}
	}
	s := strings.Join(out, " ")
	s = strings.ReplaceAll(s, names['A'], "A")
	return strings.ReplaceAll(s, names['B'], "B")
}

// monitorHookDbs: the hook clause per registration, from the tokens alone.
func monitorHookDbs(line, out string) (sig, what string) {
	toks := strings.Fields(line)[1:]
	if out == "bad-op" {
		return "", ""
	}
	if strings.HasPrefix(out, "err ") {
		return "C14:hook-dbs:setup", "the two-database hook scenario could not be run: " + out
	}
	outs := strings.Fields(out)
	if len(toks) < 1 || len(outs) != len(toks)-1 {
		return "C14:hook-dbs:setup", "unreadable summary: " + out
	}
	beh := toks[0]
	type reg struct {
		db, pre byte
		active  bool
	}
	var regs []*reg
	stored := map[string]bool{}
	for i, t := range toks[1:] {
		o := outs[i]
		switch t[0] {
		case 'r':
			regs = append(regs, &reg{db: t[1], pre: t[2], active: true})
		case 'c':
			if n, _ := strconv.Atoi(t[1:]); n < len(regs) {
				if o != "ok" {
					return "C14:hook-dbs:cancel-failed", fmt.Sprintf("token %d %s: Cancel of a registration answered %s", i, t, o)
				}
				regs[n].active = false // from now on that registration — and only that one — is no longer asked
			}
		case 'p', 'g':
			n := 0 // registrations of the value that are active, on this database, and whose query matches the key
			for _, r := range regs {
				if r.active && r.db == t[1] && r.pre == t[2] {
					n++
				}
			}
			key := string(t[1]) + ":" + string(t[2]) + "/x"
			var calls []string
			res := "ok"
			if t[0] == 'p' {
				switch beh {
				case "v":
					if n > 0 {
						calls, res = []string{"pp@" + key}, "err_veto3"
					}
				case "p":
					for k := 0; k < n; k++ {
						calls = append(calls, "pp@"+key)
					}
				}
				if res == "ok" {
					stored[key] = true
				}
			} else {
				switch beh {
				case "g":
					if n > 0 {
						calls, res = []string{"pg@" + string(t[2]) + "/x"}, "err_veto4"
					}
				case "p":
					for k := 0; k < n; k++ {
						calls = append(calls, "pg@"+string(t[2])+"/x")
					}
					if stored[key] {
						for k := 0; k < n; k++ {
							calls = append(calls, "og@"+key)
						}
					}
				}
				if res == "ok" && !stored[key] {
					res = "err_notfound"
				}
			}
			want := res + "/-"
			if len(calls) > 0 {
				want = res + "/" + strings.Join(calls, ",")
			}
			if o != want {
				kind := "put"
				if t[0] == 'g' {
					kind = "get"
				}
				return "C14:hook-dbs:" + kind + ":calls-or-result", fmt.Sprintf("token %d %s: %d active registration(s) of the hook value on database %c match the key: the hook clause requires %q, observed %q", i+1, t, n, t[1], want, o)
			}
		}
	}
	return "", ""
}
