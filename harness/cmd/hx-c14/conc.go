package main

// conc.go: concurrent scenarios of C14. The REAL code runs writers (Interface.Put / PushUpdate), Subscribe calls and
// Subscription.Cancel calls in goroutines; the `verif` event points of the database package are recorded into one
// log (and used as yield points to force interleavings). The log becomes the op lines of a case:
//   conc …            scenario header
//   cs s<i> …/cw w<k> … specs of subscriptions and of the writers' records
//   ev <thread> <event> [s<i>]   one line per recorded event, in log order
//   obs s<i> <feed> <open|closed> what was on each feed at the end
// The Lean driver replays the events through the interleaving model (acceptor); the monitor reads the property
// off the trace.

import (
	"fmt"
	"math/rand"
	"strconv"
	"strings"
	"sync"
	"time"

	"github.com/safing/portbase/database"
	"github.com/safing/portbase/database/query"
	"github.com/safing/portbase/database/record"

	"verifharness/hxlib"
)

type constraint struct{ delay, until string } // event `delay` is held back until event `until` was logged (or a timeout)

type concSub struct {
	iface, prefix, cond string
	pre                 bool // subscribed before the threads start
	cancels             int  // number of concurrent Cancel calls
}

type concWriter struct {
	push          bool
	key, s, flags string
	n             int
}

type scenario struct {
	subs    []concSub
	writers []concWriter
	hook    bool // one pass-through pre-put hook on everything …
	hookCxl bool // … cancelled concurrently
	cons    []constraint
}

type recorder struct {
	mu      sync.Mutex
	cond    *sync.Cond
	events  []string
	seen    map[string]bool
	cons    map[string]string
	sendMu  sync.Mutex
	holder  record.Record
	recIDs  map[record.Record]int
	qIDs    map[*query.Query]int
	subIDs  map[*database.Subscription]int
	timeout time.Duration
	waits   int
	tmos    int
}

func (rc *recorder) log(ev string) {
	rc.mu.Lock()
	if until, ok := rc.cons[ev]; ok && !rc.seen[until] {
		rc.waits++
		deadline := time.Now().Add(rc.timeout)
		t := time.AfterFunc(rc.timeout, func() { rc.mu.Lock(); rc.cond.Broadcast(); rc.mu.Unlock() })
		for !rc.seen[until] && time.Now().Before(deadline) {
			rc.cond.Wait()
		}
		t.Stop()
		if !rc.seen[until] {
			rc.tmos++
		}
	}
	rc.events = append(rc.events, ev)
	rc.seen[ev] = true
	rc.cond.Broadcast()
	rc.mu.Unlock()
}

// release gives the send bracket back if the goroutine sending r panicked between presend and sent.
func (rc *recorder) release(r record.Record) {
	rc.mu.Lock()
	held := r != nil && rc.holder == r
	if held {
		rc.holder = nil
	}
	rc.mu.Unlock()
	if held {
		rc.sendMu.Unlock()
	}
}

// sink receives the verif events of the database package.
func (rc *recorder) sink(point string, args ...any) {
	wtag := func(i int) (string, record.Record, bool) {
		if len(args) <= i {
			return "", nil, false
		}
		r, ok := args[i].(record.Record)
		if !ok {
			return "", nil, false
		}
		rc.mu.Lock()
		k, ok := rc.recIDs[r]
		rc.mu.Unlock()
		return fmt.Sprintf("w%d", k), r, ok
	}
	stag := func(i int) (string, bool) {
		if len(args) <= i {
			return "", false
		}
		s, ok := args[i].(*database.Subscription)
		if !ok {
			return "", false
		}
		rc.mu.Lock()
		k, ok := rc.subIDs[s]
		rc.mu.Unlock()
		return fmt.Sprintf("s%d", k), ok
	}
	switch point {
	case "put:stored", "push:enter":
		if w, _, ok := wtag(1); ok {
			rc.log(w + " stored")
		}
	case "notify:rlocked":
		if w, _, ok := wtag(1); ok {
			rc.log(w + " rlocked")
		}
	case "notify:runlock":
		if w, r, ok := wtag(1); ok {
			rc.mu.Lock()
			held := rc.holder == r
			if held {
				rc.holder = nil
			}
			rc.mu.Unlock()
			if held { // the send panicked between presend and sent
				rc.sendMu.Unlock()
			}
			rc.log(w + " runlock")
		}
	case "notify:presend":
		if _, r, ok := wtag(1); ok {
			rc.sendMu.Lock() // (send, event) is atomic with respect to every other send
			rc.mu.Lock()
			rc.holder = r
			rc.mu.Unlock()
		}
	case "notify:sent", "notify:full":
		if w, _, ok := wtag(1); ok {
			s, _ := stag(0)
			rc.log(w + " " + strings.TrimPrefix(point, "notify:") + " " + s)
			rc.mu.Lock()
			rc.holder = nil
			rc.mu.Unlock()
			rc.sendMu.Unlock()
		}
	case "sub:locked":
		if len(args) >= 2 {
			if q, ok := args[1].(*query.Query); ok {
				rc.mu.Lock()
				k, ok := rc.qIDs[q]
				if ok {
					rc.subIDs[args[0].(*database.Subscription)] = k
				}
				rc.mu.Unlock()
				if ok {
					rc.log(fmt.Sprintf("a%d added", k))
				}
			}
		}
	case "subcancel:enter", "subcancel:locked", "subcancel:removed", "subcancel:closed", "subcancel:unlock":
		if s, ok := stag(0); ok {
			rc.log("c0 " + strings.TrimPrefix(point, "subcancel:") + " " + s)
		}
	}
}

var sinkMu sync.Mutex // one concurrent scenario at a time (the sink is package-global)

// runScenario executes the scenario on the real code and returns the case lines.
func runScenario(sc *scenario, descr string) []string {
	sinkMu.Lock()
	defer sinkMu.Unlock()
	w := newWorld()
	if out := w.open("hashmap", false); out != "ok" {
		panic("conc: " + out)
	}
	defer w.Close()
	rc := &recorder{seen: map[string]bool{}, cons: map[string]string{}, recIDs: map[record.Record]int{},
		qIDs: map[*query.Query]int{}, subIDs: map[*database.Subscription]int{}, timeout: 25 * time.Millisecond}
	rc.cond = sync.NewCond(&rc.mu)
	for _, c := range sc.cons {
		rc.cons[c.delay] = c.until
	}
	lines := []string{"conc " + descr}
	// queries and records
	queries := make([]*query.Query, len(sc.subs))
	for i, s := range sc.subs {
		c, _, ok := parseCond(strings.Fields(s.cond))
		if !ok {
			panic("conc: bad cond " + s.cond)
		}
		q := query.New(w.dbName + ":" + unq(s.prefix))
		if c != nil {
			q = q.Where(c)
		}
		queries[i] = q
		rc.qIDs[q] = i
		lines = append(lines, fmt.Sprintf("cs s%d %s %s %s", i, s.iface, s.prefix, s.cond))
	}
	recs := make([]*Rec, len(sc.writers))
	for k, wr := range sc.writers {
		recs[k] = w.newRec(wr.key, int64(wr.n), wr.s, unq(wr.flags))
		rc.recIDs[recs[k]] = k
		lines = append(lines, fmt.Sprintf("cw w%d %s %d %s %s", k, wr.key, wr.n, wr.s, wr.flags))
	}
	var hk *database.RegisteredHook
	if sc.hook {
		h := &hxHook{w: w, id: "0", pg: "-", og: "-", pp: "p"}
		var err error
		hk, err = database.RegisterHook(query.New(w.dbName+":"), h)
		if err != nil {
			panic(err)
		}
		w.onCall = func(_ *hxHook, phase, arg, _ string) { rc.log("h0 hookcall " + phase) }
	}
	database.VerifSetSink(rc.sink)
	defer database.VerifSetSink(nil)

	subs := make([]*database.Subscription, len(sc.subs))
	subscribed := make([]chan struct{}, len(sc.subs))
	subscribe := func(i int) {
		rc.log(fmt.Sprintf("a%d subscribe", i))
		s, err := w.iface(sc.subs[i].iface).Subscribe(queries[i])
		if err != nil {
			panic(err)
		}
		subs[i] = s
		rc.log(fmt.Sprintf("a%d subscribed", i))
		close(subscribed[i])
	}
	for i := range sc.subs {
		subscribed[i] = make(chan struct{})
		w.iface(sc.subs[i].iface) // create interfaces up front (the map is not synchronised)
	}
	w.iface("LI")
	for i, s := range sc.subs {
		if s.pre {
			subscribe(i)
		}
	}
	var wg sync.WaitGroup
	start := make(chan struct{})
	spawn := func(tag string, own record.Record, f func()) {
		wg.Add(1)
		go func() {
			defer wg.Done()
			defer func() {
				if x := recover(); x != nil {
					rc.release(own)
					rc.log(tag + " panic")
				}
			}()
			<-start
			f()
		}()
	}
	for i, s := range sc.subs {
		i := i
		if !s.pre {
			spawn(fmt.Sprintf("a%d", i), nil, func() { subscribe(i) })
		}
		for j := 0; j < s.cancels; j++ {
			tag := fmt.Sprintf("c%d", i*4+j)
			spawn(tag, nil, func() {
				<-subscribed[i]
				rc.log(fmt.Sprintf("%s call s%d", tag, i))
				_ = subs[i].Cancel()
				rc.log(fmt.Sprintf("%s returned s%d", tag, i))
			})
		}
	}
	for k, wr := range sc.writers {
		k, wr := k, wr
		tag := fmt.Sprintf("w%d", k)
		spawn(tag, recs[k], func() {
			rc.log(tag + " begin")
			if wr.push {
				func() {
					recs[k].Lock()
					defer recs[k].Unlock()
					w.ctrl.PushUpdate(recs[k])
				}()
			} else if err := w.iface("LI").Put(recs[k]); err != nil {
				panic(err)
			}
			rc.log(tag + " end")
		})
	}
	if sc.hook && sc.hookCxl {
		spawn("h0", nil, func() {
			rc.log("h0 hookcancel")
			_ = hk.Cancel()
			rc.log("h0 hookcancelled")
		})
	}
	close(start)
	done := make(chan struct{})
	go func() { wg.Wait(); close(done) }()
	if !rc.waitDone(done) {
		rc.log("w0 hang")
		concStats.hung = true
	}
	database.VerifSetSink(nil)
	rc.mu.Lock()
	evs := append([]string{}, rc.events...)
	rc.mu.Unlock()
	for _, e := range evs {
		lines = append(lines, "ev "+e)
	}
	for i, s := range subs {
		if s == nil {
			continue
		}
		got, closed := drainOne(s.Feed)
		ids := make([]string, 0, len(got))
		for _, r := range got {
			if k, ok := rc.recIDs[r]; ok {
				ids = append(ids, fmt.Sprintf("w%d", k))
			} else {
				ids = append(ids, "w999")
			}
		}
		feed := "-"
		if len(ids) > 0 {
			feed = strings.Join(ids, ",")
		}
		st := "open"
		if closed {
			st = "closed"
		}
		lines = append(lines, fmt.Sprintf("obs s%d %s %s", i, feed, st))
	}
	rc.mu.Lock() // goroutines of a hung scenario may still be counting
	concStats.waits += rc.waits
	concStats.timeouts += rc.tmos
	rc.mu.Unlock()
	return lines
}

// waitDone waits for the goroutines of a scenario. A hang is the code under test making no progress — not the machine:
// when the 20 s limit expires (on a loaded or briefly frozen machine every pending timer fires at once as soon as the
// process is scheduled again), the goroutines get a further 5 s in slices of 100 ms of real running time, and every
// parked event is woken once per slice so that none sleeps past its own 25 ms deadline. Only what is still not done
// then is reported as a hang.
func (rc *recorder) waitDone(done chan struct{}) bool {
	select {
	case <-done:
		return true
	case <-time.After(20 * time.Second):
	}
	for i := 0; i < 50; i++ {
		if rc.cond != nil {
			rc.mu.Lock()
			rc.cond.Broadcast()
			rc.mu.Unlock()
		}
		select {
		case <-done:
			return true
		case <-time.After(100 * time.Millisecond):
		}
	}
	return false
}

var concStats struct {
	waits, timeouts, scenarios int
	hung                       bool // goroutines of a hung scenario still own the global sink: no further scenarios
}

func genScenario(rng *rand.Rand, r *hxlib.Run) *scenario {
	sc := &scenario{}
	ns := 1 + rng.Intn(3)
	for i := 0; i < ns; i++ {
		cond := "T"
		if rng.Intn(100) < 40 {
			cond = genCond(rng, 1, false)
		}
		s := concSub{iface: pick(rng, []string{"LI", "LI", "L", "I", "-"}), prefix: pick(rng, []string{"-", "a", "a/", "b"}), cond: cond, pre: rng.Intn(100) < 70}
		switch x := rng.Intn(100); {
		case x < 35:
		case x < 85:
			s.cancels = 1
		default:
			s.cancels = 2
		}
		sc.subs = append(sc.subs, s)
	}
	nw := 1 + rng.Intn(4)
	for k := 0; k < nw; k++ {
		sc.writers = append(sc.writers, concWriter{push: rng.Intn(100) < 25, key: pick(rng, []string{"a/x", "a/y", "b/x"}), n: rng.Intn(10),
			s: pick(rng, genStrs), flags: pick(rng, []string{"-", "-", "-", "s", "c", "d"})})
	}
	sc.hook = rng.Intn(100) < 30
	sc.hookCxl = sc.hook && rng.Intn(100) < 70
	// interleaving constraints: the named two-party races of the property, plus random pairs
	var evs []string
	for k := range sc.writers {
		for _, p := range []string{"stored", "rlocked", "runlock", "end"} {
			evs = append(evs, fmt.Sprintf("w%d %s", k, p))
		}
	}
	for i, s := range sc.subs {
		if s.cancels > 0 {
			for _, p := range []string{"enter", "locked", "removed", "closed", "unlock"} {
				evs = append(evs, fmt.Sprintf("c0 %s s%d", p, i))
			}
		}
		if !s.pre {
			evs = append(evs, fmt.Sprintf("a%d added", i), fmt.Sprintf("a%d subscribed", i))
		}
	}
	nc := rng.Intn(4)
	for j := 0; j < nc; j++ {
		k := rng.Intn(nw)
		i := rng.Intn(ns)
		var c constraint
		switch x := rng.Intn(100); {
		case x < 15: // canceller holds the lock (entry removed, feed not yet closed) while a writer arrives at the notification
			c = constraint{fmt.Sprintf("c0 closed s%d", i), fmt.Sprintf("w%d stored", k)}
			r.Count("race:cancel-in-lock-vs-writer-arrives")
		case x < 30: // writer holds the read lock while the canceller arrives
			c = constraint{fmt.Sprintf("w%d runlock", k), fmt.Sprintf("c0 enter s%d", i)}
			r.Count("race:notify-in-progress-vs-cancel-arrives")
		case x < 45: // stored before the cancel, notified after it
			c = constraint{fmt.Sprintf("w%d stored", k), fmt.Sprintf("c0 unlock s%d", i)}
			r.Count("race:stored-before-cancel-notified-after")
		case x < 55:
			c = constraint{fmt.Sprintf("c0 enter s%d", i), fmt.Sprintf("w%d stored", k)}
			r.Count("race:cancel-after-store")
		case x < 65:
			c = constraint{fmt.Sprintf("c0 locked s%d", i), fmt.Sprintf("w%d rlocked", k)}
			r.Count("race:cancel-lock-after-rlock")
		default:
			c = constraint{pick(rng, evs), pick(rng, evs)}
			r.Count("race:random-pair")
		}
		if c.delay != c.until {
			sc.cons = append(sc.cons, c)
		}
	}
	return sc
}

func genConcurrent(r *hxlib.Run, emit func(hxlib.Case)) {
	n := r.Budget(1500, 25000)
	for x := 0; x < n && !concStats.hung; x++ {
		sc := genScenario(r.Rng, r)
		var cd []string
		for _, c := range sc.cons {
			cd = append(cd, strings.ReplaceAll(c.delay, " ", "_")+"<"+strings.ReplaceAll(c.until, " ", "_"))
		}
		var puts []string
		for k, wr := range sc.writers {
			if !wr.push {
				puts = append(puts, strconv.Itoa(k))
			}
		}
		descr := fmt.Sprintf("subs=%d writers=%d puts=%s hook=%v cons=%s", len(sc.subs), len(sc.writers), strings.Join(puts, ","), sc.hook, strings.Join(cd, ","))
		lines := runScenario(sc, descr)
		concStats.scenarios++
		nt := false
		for _, l := range lines {
			if strings.Contains(l, " sent ") || strings.Contains(l, " closed s") {
				nt = true
			}
		}
		r.Count(fmt.Sprintf("conc:writers:%d", len(sc.writers)))
		r.Count(fmt.Sprintf("conc:events:%d0s", (len(lines)/10)))
		emit(hxlib.Case{Lines: lines, Kind: "conc", NonTrivial: nt})
	}
}

func (w *world) doConc(line string) string { return "ok" }

// ---- monitor for traces ---------------------------------------------------------------------------------

func monitorConc(c hxlib.Case, outs []string) (vs []hxlib.Violation) {
	seen := map[string]bool{}
	add := func(sig, what string) {
		if seen[sig] {
			return
		}
		seen[sig] = true
		vs = append(vs, hxlib.Violation{Sig: sig, What: what, Lines: c.Lines})
	}
	type sub struct {
		loc, int                 bool
		q                        mQuery
		subCall, subRet          int
		cxlCall, cxlRet          int
		feed                     []int
		closed, hasObs, hasCxl   bool
	}
	subs := map[int]*sub{}
	recs := map[int]mRec{}
	begin := map[int]int{}
	end := map[int]int{}
	num := func(s string, p byte) int {
		if len(s) < 2 || s[0] != p {
			return -1
		}
		v, err := strconv.Atoi(s[1:])
		if err != nil {
			return -1
		}
		return v
	}
	hookCancelled := -1
	hookCancelCall := -1
	hookCalls := 0
	var hookCallIdx []int
	for i, l := range c.Lines {
		f := strings.Fields(l)
		switch f[0] {
		case "cs":
			if len(f) >= 5 {
				base := f[2]
				subs[num(f[1], 's')] = &sub{loc: strings.Contains(base, "L"), int: strings.Contains(base, "I"), q: mQuery{prefix: unq(f[3]), cond: f[4:]},
					subCall: -1, subRet: -1, cxlCall: -1, cxlRet: -1}
			}
		case "cw":
			if len(f) == 6 {
				n, _ := strconv.ParseInt(f[3], 10, 64)
				recs[num(f[1], 'w')] = mRec{key: f[2], n: n, s: f[4], flags: flagsOf(unq(f[5])), ok: true}
			}
		case "ev":
			if len(f) < 3 {
				continue
			}
			switch {
			case f[2] == "panic":
				add("C14:conc:panic", "a goroutine of the scenario panicked: "+l)
			case f[2] == "hang":
				add("C14:conc:hang", "the scenario did not finish within 20 s")
			case f[2] == "begin" && f[1][0] == 'w':
				begin[num(f[1], 'w')] = i
			case f[2] == "end" && f[1][0] == 'w':
				end[num(f[1], 'w')] = i
			case f[2] == "subscribe":
				if s := subs[num(f[1], 'a')]; s != nil {
					s.subCall = i
				}
			case f[2] == "subscribed":
				if s := subs[num(f[1], 'a')]; s != nil {
					s.subRet = i
				}
			case f[2] == "call" && len(f) == 4:
				if s := subs[num(f[3], 's')]; s != nil {
					s.hasCxl = true
					if s.cxlCall < 0 {
						s.cxlCall = i
					}
				}
			case f[2] == "returned" && len(f) == 4:
				if s := subs[num(f[3], 's')]; s != nil && s.cxlRet < 0 {
					s.cxlRet = i
				}
			case f[2] == "hookcall":
				hookCalls++
				hookCallIdx = append(hookCallIdx, i)
			case f[2] == "hookcancel":
				hookCancelCall = i
			case f[2] == "hookcancelled":
				hookCancelled = i
			}
		case "obs":
			if len(f) == 4 {
				if s := subs[num(f[1], 's')]; s != nil {
					s.hasObs = true
					s.closed = f[3] == "closed"
					if f[2] != "-" {
						for _, x := range strings.Split(f[2], ",") {
							s.feed = append(s.feed, num(x, 'w'))
						}
					}
				}
			}
		}
	}
	for i, s := range subs {
		if !s.hasObs {
			continue
		}
		pos := map[int]int{}
		for p, w := range s.feed {
			if _, dup := pos[w]; dup {
				add("C14:conc:delivered-twice", fmt.Sprintf("w%d is on the feed of s%d more than once", w, i))
			}
			pos[w] = p
			r, ok := recs[w]
			if !ok || !s.q.matches(r) || !(s.loc || !r.cj()) || !(s.int || !r.secret()) {
				add("C14:conc:delivered-not-for-subscriber", fmt.Sprintf("w%d is on the feed of s%d although it does not match the query or the subscriber may not see it", w, i))
			}
			if b, ok := begin[w]; ok && s.cxlRet >= 0 && b > s.cxlRet {
				add("C14:conc:delivered-after-cancel-returned", fmt.Sprintf("write w%d began after Cancel of s%d had returned and was still delivered", w, i))
			}
			if e, ok := end[w]; ok && s.subCall >= 0 && e < s.subCall {
				add("C14:conc:delivered-before-subscribe", fmt.Sprintf("write w%d had returned before s%d was subscribed and was still delivered", w, i))
			}
		}
		for w, r := range recs {
			b, ok1 := begin[w]
			e, ok2 := end[w]
			if !ok1 || !ok2 || s.subRet < 0 {
				continue
			}
			active := s.subRet < b && (s.cxlCall < 0 || s.cxlCall > e)
			if active && s.q.matches(r) && (s.loc || !r.cj()) && (s.int || !r.secret()) {
				if _, there := pos[w]; !there {
					add("C14:conc:missing", fmt.Sprintf("write w%d happened entirely while s%d was active and matches, but is not on its feed", w, i))
				}
			}
		}
		for w1, p1 := range pos {
			for w2, p2 := range pos {
				if e1, ok := end[w1]; ok {
					if b2, ok := begin[w2]; ok && e1 < b2 && p1 > p2 {
						add("C14:conc:order", fmt.Sprintf("w%d returned before w%d began, but s%d received them in the other order", w1, w2, i))
					}
				}
			}
		}
		if s.cxlRet >= 0 && !s.closed {
			add("C14:conc:feed-not-closed-after-cancel", fmt.Sprintf("Cancel of s%d returned but its feed is not closed", i))
		}
		if !s.hasCxl && s.closed {
			add("C14:conc:feed-closed-without-cancel", fmt.Sprintf("feed of s%d is closed although nobody cancelled it", i))
		}
	}
	for _, hc := range hookCallIdx {
		if hookCancelled >= 0 && hc > hookCancelled {
			add("C14:conc:hook-called-after-cancel-returned", "the pre-put hook was called after its Cancel had returned")
		}
	}
	// the pass-through hook matches every put: called exactly once per put that ran entirely before the hook's cancel was called
	if strings.Contains(c.Lines[0], "hook=true") {
		must, may := 0, 0
		for w := range recs {
			if b, ok := begin[w]; ok && isPut(c.Lines, w) {
				may++
				if e, ok := end[w]; ok && (hookCancelCall < 0 || e < hookCancelCall) {
					must++
				}
				_ = b
			}
		}
		if hookCalls < must || hookCalls > may {
			add("C14:conc:hook-call-count", fmt.Sprintf("the pre-put hook was called %d times; %d puts ran entirely while it was registered, %d puts in total", hookCalls, must, may))
		}
	}
	return vs
}

// isPut: writer k went through Interface.Put (pushes do not run hooks); the header lists the put writers.
func isPut(lines []string, k int) bool { return putSet(lines[0])[k] }

func putSet(hdr string) map[int]bool {
	m := map[int]bool{}
	for _, f := range strings.Fields(hdr) {
		if strings.HasPrefix(f, "puts=") {
			for _, x := range strings.Split(strings.TrimPrefix(f, "puts="), ",") {
				if v, err := strconv.Atoi(x); err == nil {
					m[v] = true
				}
			}
		}
	}
	return m
}
