package main

// bypass.go: Interface.Purge ("deletes all records that match the given query") is a delete through an interface that
// does not go through Controller.Put. One self-contained scenario per `purgecase <n> <iface>` line on a fresh bbolt
// database (the only storage with a Purger), implementation only (no model): n records are put under a subscribed
// prefix (each put must be delivered), one outside it, then the prefix is purged; the output is the summary the
// monitor reads the statement off: how many records the purge deleted and how many of these deletes reached the
// subscriber.

import (
	"context"
	"fmt"
	"os"
	"path/filepath"
	"strconv"
	"strings"

	"github.com/safing/portbase/database"
	"github.com/safing/portbase/database/query"
)

func purgeCase(id int64, n int, code string) string {
	initDB()
	name := fmt.Sprintf("c14p%d", id)
	if _, err := database.Register(&database.Database{Name: name, Description: "C14 purge case", StorageType: "bbolt"}); err != nil {
		return "err other:" + err.Error()
	}
	ctrl, err := database.VerifController(name)
	if err != nil {
		return "err other:" + err.Error()
	}
	defer func() {
		_ = ctrl.Shutdown()
		_ = os.RemoveAll(filepath.Join(dbRoot, "databases", name))
	}()
	w := newWorld()
	w.dbName, w.kind = name, "bbolt"
	li := w.iface("LI")
	sub, err := li.Subscribe(query.New(name + ":a/"))
	if err != nil {
		return "err other:" + err.Error()
	}
	defer func() { _ = sub.Cancel() }()
	for i := 0; i < n; i++ {
		if err := li.Put(w.newRec("a/k"+strconv.Itoa(i), int64(i), "foo", "")); err != nil {
			return "err other:" + err.Error()
		}
	}
	if err := li.Put(w.newRec("b/k", 0, "foo", "")); err != nil {
		return "err other:" + err.Error()
	}
	puts, _ := drainOne(sub.Feed)
	purged, err := w.iface(code).Purge(context.Background(), query.New(name+":a/"))
	res := errClass(err)
	dels, closed := drainOne(sub.Feed)
	nd := 0
	for _, r := range dels {
		if strings.HasPrefix(r.DatabaseKey(), "a/") && r.Meta().IsDeleted() {
			nd++
		}
	}
	left := 0
	for i := 0; i < n; i++ {
		if ok, _ := li.Exists(name + ":a/k" + strconv.Itoa(i)); ok {
			left++
		}
	}
	other, _ := li.Exists(name + ":b/k")
	return fmt.Sprintf("puts=%d delivered=%d purge=%s purged=%d deletes-delivered=%d on-feed=%d closed=%v left=%d other=%v",
		n, len(puts), strings.ReplaceAll(res, " ", "_"), purged, nd, len(dels), closed, left, other)
}

// monitorPurge reads the statement off the summary: every record the purge deleted matches the subscription's query
// (prefix a/, no condition, subscriber with all permissions), so each of these deletes has to be on the feed.
func monitorPurge(line, out string) (sig, what string) {
	kv := map[string]string{}
	for _, f := range strings.Fields(out) {
		if k, v, ok := strings.Cut(f, "="); ok {
			kv[k] = v
		}
	}
	num := func(k string) int { v, _ := strconv.Atoi(kv[k]); return v }
	switch {
	case strings.HasPrefix(out, "err "):
		return "C14:purge:setup", "the purge scenario could not be run: " + out
	case num("delivered") != num("puts"):
		return "C14:purge:puts-not-delivered", fmt.Sprintf("%d records were put under the subscribed prefix, %d were delivered", num("puts"), num("delivered"))
	case kv["closed"] != "false":
		return "C14:purge:feed-closed", "the feed of the active subscription is closed"
	case num("on-feed") > num("purged") || kv["other"] != "true":
		return "C14:purge:other-records", "the purge of prefix a/ delivered or deleted something else: " + out
	case kv["purge"] == "ok" && num("purged") > 0 && num("deletes-delivered") != num("purged"):
		return "C14:purge:deletes-not-delivered", fmt.Sprintf("Interface.Purge deleted %d records that match the subscription's query (none of them is readable any more: left=%d), %d of these deletes were delivered", num("purged"), num("left"), num("deletes-delivered"))
	}
	return "", ""
}
