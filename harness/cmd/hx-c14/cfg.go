package main

// cfg.go: the configuration manager as injected database (config/database.go): option changes are pushed to
// subscribers of "config:" through Controller.PushUpdate. One self-contained scenario per `cfgpush <n>` line,
// run on the real config package; the output is the canonical summary the monitor reads.

import (
	"fmt"
	"sort"
	"strings"
	"sync"

	"github.com/safing/portbase/config"
	"github.com/safing/portbase/database"
	"github.com/safing/portbase/database/query"
	"github.com/safing/portbase/database/record"
	"github.com/safing/portbase/formats/dsd"
)

var (
	cfgOnce sync.Once
	cfgErr  error
)

func keysOf(recs []record.Record) string {
	ks := make([]string, 0, len(recs))
	for _, r := range recs {
		ks = append(ks, r.Key())
	}
	return "[" + strings.Join(ks, ",") + "]"
}

// cfgPush: subscribe to the option's key, to its prefix and to another prefix; push an update for the option n
// times (n ≥ 1); cancel the exact-key subscription; push once more; report what each feed got.
func cfgPush(id int64, n int) string {
	initDB()
	cfgOnce.Do(func() { cfgErr = config.VerifInjectAsDatabase() })
	if cfgErr != nil {
		return "err other:" + cfgErr.Error()
	}
	key := fmt.Sprintf("c14/opt%d", id)
	if err := config.Register(&config.Option{Name: "C14 option", Key: key, Description: "verification", OptType: config.OptTypeString, DefaultValue: "x"}); err != nil {
		return "err other:" + err.Error()
	}
	db := database.NewInterface(&database.Options{Local: true, Internal: true})
	exact, err1 := db.Subscribe(query.New("config:" + key))
	pre, err2 := db.Subscribe(query.New("config:c14/"))
	other, err3 := db.Subscribe(query.New("config:zz/"))
	if err1 != nil || err2 != nil || err3 != nil {
		return "err other:subscribe"
	}
	for i := 0; i < n; i++ {
		if err := config.VerifPushUpdate(key); err != nil {
			return "err other:" + err.Error()
		}
	}
	if err := exact.Cancel(); err != nil {
		return "err other:" + err.Error()
	}
	if err := config.VerifPushUpdate(key); err != nil {
		return "err other:" + err.Error()
	}
	e, eClosed := drainOne(exact.Feed)
	p, pClosed := drainOne(pre.Feed)
	o, oClosed := drainOne(other.Feed)
	_ = pre.Cancel()
	_ = other.Cancel()
	r, err := db.Get("config:" + key)
	got := "err"
	if err == nil {
		got = r.Key()
	}
	out := fmt.Sprintf("key=config:%s exact=%s closed=%v prefix=%s closed=%v other=%s closed=%v get=%s", key, keysOf(e), eClosed, keysOf(p), pClosed, keysOf(o), oClosed, got)
	return strings.ReplaceAll(out, fmt.Sprintf("c14/opt%d", id), "c14/optN")
}

// ---- the config StorageInterface driven through the database interface and the config API ----------------------

var cfgTokens = []string{"pv", "pn", "pz", "de", "so", "sn", "pb", "sb", "rc", "px", "gt", "pb", "sb", "pw", "pi"}

var cfgTypeTokens = []string{"ti", "tb", "ta"}

// cfgOps runs `cfgops <token>…` on two fresh options a and b under a prefix of their own, with subscriptions on a's
// key, on the prefix and on another prefix; after all tokens the exact-key subscription is cancelled and `pv`, `so`
// are done once more. Output: one item per step, `<token>=<result>:E[keys]P[keys]O[keys]` (what each feed got).
func cfgOps(id int64, toks []string) string {
	initDB()
	cfgOnce.Do(func() { cfgErr = config.VerifInjectAsDatabase() })
	if cfgErr != nil {
		return "err other:" + cfgErr.Error()
	}
	pre := fmt.Sprintf("c14/%d/", id)
	// option a is a string option; the type of option b is chosen by the first token (ti int, tb bool, ta string
	// array; otherwise string): StorageInterface.Put converts the record's Value by option type
	bType, bDefault := config.OptTypeString, interface{}("x")
	bJSON := func(n int) string { return fmt.Sprintf(`"w%d"`, n) }
	bVal := func(n int) interface{} { return fmt.Sprintf("t%d", n) }
	bWrong := `5`
	switch sel(toks, 0) {
	case "ti":
		bType, bDefault = config.OptTypeInt, int64(1)
		bJSON = func(n int) string { return fmt.Sprintf(`%d`, n) }
		bVal = func(n int) interface{} { return int64(n) }
		bWrong = `"five"`
	case "tb":
		bType, bDefault = config.OptTypeBool, false
		bJSON = func(n int) string { return fmt.Sprintf(`%v`, n%2 == 0) }
		bVal = func(n int) interface{} { return n%2 == 0 }
		bWrong = `"yes"`
	case "ta":
		bType, bDefault = config.OptTypeStringArray, []string{"x"}
		bJSON = func(n int) string { return fmt.Sprintf(`["u%d","v"]`, n) }
		bVal = func(n int) interface{} { return []string{fmt.Sprintf("u%d", n)} }
		bWrong = `[1,2]` // (a plain string is accepted by the accessor as a one-element list)
	}
	if err := config.Register(&config.Option{Name: "C14 option a", Key: pre + "a", Description: "verification", OptType: config.OptTypeString, DefaultValue: "x", ValidationRegex: "^[a-z0-9]+$"}); err != nil {
		return "err other:" + err.Error()
	}
	if err := config.Register(&config.Option{Name: "C14 option b", Key: pre + "b", Description: "verification", OptType: bType, DefaultValue: bDefault}); err != nil {
		return "err other:" + err.Error()
	}
	db := database.NewInterface(&database.Options{Local: true, Internal: true})
	exact, err1 := db.Subscribe(query.New("config:" + pre + "a"))
	prefix, err2 := db.Subscribe(query.New("config:" + pre))
	other, err3 := db.Subscribe(query.New("config:zz/"))
	if err1 != nil || err2 != nil || err3 != nil {
		return "err other:subscribe"
	}
	putJSON := func(key, js string) error {
		r, err := record.NewWrapper("config:"+key, nil, dsd.JSON, []byte(js))
		if err != nil {
			return err
		}
		return db.Put(r)
	}
	n := 0
	step := func(tok string) string {
		n++
		var err error
		switch tok {
		case "pv": // database put with a value
			err = putJSON(pre+"a", fmt.Sprintf(`{"Value":"v%d"}`, n))
		case "pn": // database put without Value: reset to default
			err = putJSON(pre+"a", `{"Key":"ignored"}`)
		case "pz": // database put with null Value
			err = putJSON(pre+"a", `{"Value":null}`)
		case "de": // database delete
			err = db.Delete("config:" + pre + "a")
		case "so": // config API
			err = config.SetConfigOption(pre+"a", fmt.Sprintf("s%d", n))
		case "sn":
			err = config.SetConfigOption(pre+"a", nil)
		case "pb":
			err = putJSON(pre+"b", `{"Value":`+bJSON(n)+`}`)
		case "sb":
			err = config.SetConfigOption(pre+"b", bVal(n))
		case "pi": // database put with a value the option's validation refuses: nothing delivered
			err = putJSON(pre+"a", `{"Value":"NOT VALID!"}`)
		case "pw": // database put with a Value of the wrong type for option b: refused, nothing delivered
			err = putJSON(pre+"b", `{"Value":`+bWrong+`}`)
		case "ti", "tb", "ta": // type selectors (looked at before the options are registered)
		case "rc":
			config.ReplaceConfig(map[string]interface{}{pre + "a": fmt.Sprintf("r%d", n)})
		case "px": // unregistered option
			err = putJSON(pre+"nope", `{"Value":"q"}`)
		case "gt":
			_, err = db.Get("config:" + pre + "a")
		default:
			return tok + "=bad-op"
		}
		res := "ok"
		if err != nil {
			res = "err"
		}
		e, ec := drainOne(exact.Feed)
		p, _ := drainOne(prefix.Feed)
		o, _ := drainOne(other.Feed)
		x := ""
		if ec {
			x = "x"
		}
		return fmt.Sprintf("%s=%s:E%s%sP%sO%s", tok, res, keysOf(e), x, sortedKeys(p), keysOf(o))
	}
	var out []string
	for _, t := range toks {
		out = append(out, step(t))
	}
	_ = exact.Cancel()
	out = append(out, "cancel", step("pv"), step("so"))
	_ = prefix.Cancel()
	_ = other.Cancel()
	return strings.ReplaceAll(strings.Join(out, " "), pre, "c14/N/")
}

func sortedKeys(recs []record.Record) string {
	ks := make([]string, 0, len(recs))
	for _, r := range recs {
		ks = append(ks, r.Key())
	}
	sort.Strings(ks)
	return "[" + strings.Join(ks, ",") + "]"
}

// monitorCfgOps: exactly one delivery per successful write or pushed change of a matching option, to every active
// matching subscription; nothing for failed writes, reads, other prefixes, or after cancel.
func monitorCfgOps(line, out string) (sig, what string) {
	toks := strings.Fields(line)[1:]
	a, b := "config:c14/N/a", "config:c14/N/b"
	want := func(tok string, cancelled bool) string {
		res, e, p := "ok", "", ""
		switch tok {
		case "pv", "pn", "pz", "de", "so", "sn":
			e, p = a, a
		case "pb", "sb":
			p = b
		case "rc":
			e, p = a, a+","+b
		case "px", "pw", "pi":
			res = "err"
		case "gt", "ti", "tb", "ta":
		}
		x := ""
		if cancelled {
			e, x = "", "x"
		}
		return fmt.Sprintf("%s=%s:E[%s]%sP[%s]O[]", tok, res, e, x, p)
	}
	var w []string
	for _, t := range toks {
		w = append(w, want(t, false))
	}
	w = append(w, "cancel", want("pv", true), want("so", true))
	if exp := strings.Join(w, " "); exp != out {
		got, wantF := strings.Fields(out), strings.Fields(exp)
		for i := range wantF {
			if i >= len(got) || got[i] != wantF[i] {
				g := "(nothing)"
				if i < len(got) {
					g = got[i]
				}
				tok, _, _ := strings.Cut(wantF[i], "=")
				return "C14:config-db:" + tok, fmt.Sprintf("config as injected database, step %d: feeds show %s, the property requires %s (E = subscription on the option's key, P = on the prefix, O = other prefix)", i, g, wantF[i])
			}
		}
		return "C14:config-db", fmt.Sprintf("got %q want %q", out, exp)
	}
	return "", ""
}

// monitorCfg: every pushed update of a matching, visible record is delivered exactly once while the subscription is
// active, nothing after cancel, nothing to the non-matching subscription.
func monitorCfg(line, out string) (sig, what string) {
	var n int
	fmt.Sscanf(line, "cfgpush %d", &n)
	rep := func(k int) string {
		ks := make([]string, k)
		for i := range ks {
			ks[i] = "config:c14/optN"
		}
		return "[" + strings.Join(ks, ",") + "]"
	}
	want := fmt.Sprintf("key=config:c14/optN exact=%s closed=true prefix=%s closed=false other=[] closed=false get=config:c14/optN", rep(n), rep(n+1))
	if out != want {
		return "C14:config-push", fmt.Sprintf("configuration updates pushed to subscribers: got %q, the property requires %q", out, want)
	}
	return "", ""
}
