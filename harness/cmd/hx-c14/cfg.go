package main

// cfg.go: the configuration manager as injected database (config/database.go): option changes are pushed to
// subscribers of "config:" through Controller.PushUpdate. One self-contained scenario per `cfgpush <n>` line,
// run on the real config package; the output is the canonical summary the monitor reads.

import (
	"fmt"
	"strings"
	"sync"

	"github.com/safing/portbase/config"
	"github.com/safing/portbase/database"
	"github.com/safing/portbase/database/query"
	"github.com/safing/portbase/database/record"
)

var (
	cfgOnce sync.Once
	cfgErr  error
)

func keysOf(recs []record.Record) string {
	ks := make([]string, 0, len(recs))
	for _, r := range recs {
		ks = append(ks, r.Key())
	}
	return "[" + strings.Join(ks, ",") + "]"
}

// cfgPush: subscribe to the option's key, to its prefix and to another prefix; push an update for the option n
// times (n ≥ 1); cancel the exact-key subscription; push once more; report what each feed got.
func cfgPush(id int64, n int) string {
	initDB()
	cfgOnce.Do(func() { cfgErr = config.VerifInjectAsDatabase() })
	if cfgErr != nil {
		return "err other:" + cfgErr.Error()
	}
	key := fmt.Sprintf("c14/opt%d", id)
	if err := config.Register(&config.Option{Name: "C14 option", Key: key, Description: "verification", OptType: config.OptTypeString, DefaultValue: "x"}); err != nil {
		return "err other:" + err.Error()
	}
	db := database.NewInterface(&database.Options{Local: true, Internal: true})
	exact, err1 := db.Subscribe(query.New("config:" + key))
	pre, err2 := db.Subscribe(query.New("config:c14/"))
	other, err3 := db.Subscribe(query.New("config:zz/"))
	if err1 != nil || err2 != nil || err3 != nil {
		return "err other:subscribe"
	}
	for i := 0; i < n; i++ {
		if err := config.VerifPushUpdate(key); err != nil {
			return "err other:" + err.Error()
		}
	}
	if err := exact.Cancel(); err != nil {
		return "err other:" + err.Error()
	}
	if err := config.VerifPushUpdate(key); err != nil {
		return "err other:" + err.Error()
	}
	e, eClosed := drainOne(exact.Feed)
	p, pClosed := drainOne(pre.Feed)
	o, oClosed := drainOne(other.Feed)
	_ = pre.Cancel()
	_ = other.Cancel()
	r, err := db.Get("config:" + key)
	got := "err"
	if err == nil {
		got = r.Key()
	}
	out := fmt.Sprintf("key=config:%s exact=%s closed=%v prefix=%s closed=%v other=%s closed=%v get=%s", key, keysOf(e), eClosed, keysOf(p), pClosed, keysOf(o), oClosed, got)
	return strings.ReplaceAll(out, fmt.Sprintf("c14/opt%d", id), "c14/optN")
}

// monitorCfg: every pushed update of a matching, visible record is delivered exactly once while the subscription is
// active, nothing after cancel, nothing to the non-matching subscription.
func monitorCfg(line, out string) (sig, what string) {
	var n int
	fmt.Sscanf(line, "cfgpush %d", &n)
	rep := func(k int) string {
		ks := make([]string, k)
		for i := range ks {
			ks[i] = "config:c14/optN"
		}
		return "[" + strings.Join(ks, ",") + "]"
	}
	want := fmt.Sprintf("key=config:c14/optN exact=%s closed=true prefix=%s closed=false other=[] closed=false get=config:c14/optN", rep(n), rep(n+1))
	if out != want {
		return "C14:config-push", fmt.Sprintf("configuration updates pushed to subscribers: got %q, the property requires %q", out, want)
	}
	return "", ""
}
