package main

// monitor.go: the property statement of C14 read literally on the implementation's outputs.
// It keeps only what the statement itself talks about: which subscriptions / hooks are active, what each
// write wrote, what arrived on the feeds, which hook calls were observed.

import (
	"fmt"
	"strconv"
	"strings"

	"verifharness/hxlib"
)

const feedCapStatement = 1000 // "buffered (1000) channel" — the property's anchor

type mRec struct {
	key   string
	n     int64
	s     string
	flags string // 4 chars
	ok    bool
}

func parseRecStr(x string) mRec {
	p := strings.Split(x, ";")
	if len(p) != 4 || len(p[3]) != 4 {
		return mRec{}
	}
	n, err := strconv.ParseInt(p[1], 10, 64)
	if err != nil {
		return mRec{}
	}
	return mRec{key: p[0], n: n, s: p[2], flags: p[3], ok: true}
}

func (r mRec) String() string { return fmt.Sprintf("%s;%d;%s;%s", r.key, r.n, r.s, r.flags) }

func (r mRec) secret() bool { return r.flags[0] == 's' }
func (r mRec) cj() bool     { return r.flags[1] == 'c' }

// evalCond evaluates the Polish-notation condition on a record (documented operator semantics).
func evalCond(t []string, r mRec) (val bool, rest []string, ok bool) {
	if len(t) == 0 {
		return false, nil, false
	}
	switch t[0] {
	case "T":
		return true, t[1:], true
	case "gt", "lt", "eq":
		if len(t) < 2 {
			return false, nil, false
		}
		k, err := strconv.ParseInt(t[1], 10, 64)
		if err != nil {
			return false, nil, false
		}
		switch t[0] {
		case "gt":
			return r.n > k, t[2:], true
		case "lt":
			return r.n < k, t[2:], true
		}
		return r.n == k, t[2:], true
	case "sa":
		if len(t) < 2 {
			return false, nil, false
		}
		return r.s == t[1], t[2:], true
	case "sw":
		if len(t) < 2 {
			return false, nil, false
		}
		return strings.HasPrefix(r.s, t[1]), t[2:], true
	case "!":
		v, rest, ok := evalCond(t[1:], r)
		return !v, rest, ok
	case "&", "|":
		a, r1, ok := evalCond(t[1:], r)
		if !ok {
			return false, nil, false
		}
		b, r2, ok := evalCond(r1, r)
		if !ok {
			return false, nil, false
		}
		if t[0] == "&" {
			return a && b, r2, true
		}
		return a || b, r2, true
	}
	return false, nil, false
}

type mQuery struct {
	prefix string
	cond   []string
}

func (q mQuery) matchesKey(k string) bool { return strings.HasPrefix(k, q.prefix) }
func (q mQuery) matches(r mRec) bool {
	if !q.matchesKey(r.key) {
		return false
	}
	v, _, ok := evalCond(q.cond, r)
	return ok && v
}

type mSub struct {
	sid      string
	loc, int bool
	q        mQuery
	active   bool
	expect   []string // expected, not yet drained deliveries
	fuzzy    bool     // some write since the last drain could not be determined → only soundness is checked
	pending  int      // records in the feed buffer according to the observed drains
	sawClose bool
}

func (s *mSub) maySee(r mRec) bool {
	if !s.loc && r.cj() {
		return false
	}
	if !s.int && r.secret() {
		return false
	}
	return true
}

// mHook is one REGISTRATION (what RegisterHook returned): its own identity, its own query, and the hook value it
// was made with (hid — what a recorded call names — and that value's behaviour per phase). One hook value may have
// several registrations; the statement ("a registered hook is called … for exactly the operations … that match its
// query … no longer called once its cancel returned") is read per registration.
type mHook struct {
	rid        string
	hid        string
	q          mQuery
	pg, og, pp string
	active     bool
}

func (h *mHook) name() string {
	if h.rid == h.hid {
		return "h" + h.hid
	}
	return "h" + h.hid + " (registration " + h.rid + ")"
}

func (h *mHook) beh(phase string) string {
	return map[string]string{"pg": h.pg, "og": h.og, "pp": h.pp}[phase]
}

type mCall struct {
	hid, phase, arg, beh string
}

func parseCalls(fs []string) []mCall {
	var out []mCall
	for _, f := range fs {
		// h<id>.<ph>(<arg>)><beh>
		dot := strings.IndexByte(f, '.')
		lp := strings.IndexByte(f, '(')
		rp := strings.LastIndex(f, ")>")
		if !strings.HasPrefix(f, "h") || dot < 0 || lp < dot || rp < lp {
			continue
		}
		out = append(out, mCall{hid: f[1:dot], phase: f[dot+1 : lp], arg: f[lp+1 : rp], beh: f[rp+2:]})
	}
	return out
}

func applyIfaceFlags(code string, r mRec) mRec {
	base, _, _ := strings.Cut(code, "+")
	fl := []byte(r.flags)
	if strings.Contains(base, "S") {
		fl[0] = 's'
	}
	if strings.Contains(base, "C") {
		fl[1] = 'c'
	}
	if strings.Contains(base, "E") { // Options.Apply → SetAbsoluteExpiry: expiry set, deletion mark cleared
		fl[2], fl[3] = '-', 'f'
	}
	r.flags = string(fl)
	return r
}

func flagsOf(f string) string {
	fl := []byte("----")
	for _, c := range f {
		switch c {
		case 's':
			fl[0] = 's'
		case 'c':
			fl[1] = 'c'
		case 'd':
			fl[2] = 'd'
		case 'p':
			fl[3] = 'p'
		case 'f':
			fl[3] = 'f'
		}
	}
	return string(fl)
}

func monitor(c hxlib.Case, outs []string) (vs []hxlib.Violation) {
	if len(c.Lines) > 0 && strings.HasPrefix(c.Lines[0], "conc") {
		return monitorConc(c, outs)
	}
	if len(c.Lines) > 0 && strings.HasPrefix(c.Lines[0], "hconc") {
		return monitorHConc(c, outs)
	}
	seenSig := map[string]bool{}
	add := func(i int, sig, what string) {
		if seenSig[sig] {
			return
		}
		seenSig[sig] = true
		lo := 0
		if len(c.Lines) > 400 { // overflow cases: keep the replay readable but complete enough to reproduce
			lo = 0
		}
		vs = append(vs, hxlib.Violation{Sig: sig, What: fmt.Sprintf("op %d %q → %q: %s", i, c.Lines[i], outs[i], what),
			Lines: c.Lines[lo : i+1], Output: tail(outs[lo:i+1], 6)})
	}
	kind := ""
	dbThere := false // is there a database (a controller) the operations of the case can reach?
	queries := map[string]mQuery{}
	var subs []*mSub
	var hooks []*mHook
	findSub := func(sid string) *mSub {
		for _, s := range subs {
			if s.sid == sid {
				return s
			}
		}
		return nil
	}
	findReg := func(rid string) *mHook {
		for _, h := range hooks {
			if h.rid == rid {
				return h
			}
		}
		return nil
	}
	rawAt := func(i int, key string) (string, bool) { // output of a `raw key` line at index i
		if i < 0 || i >= len(c.Lines) {
			return "", false
		}
		if c.Lines[i] == "raw "+key && !strings.HasPrefix(outs[i], "PANIC") {
			return outs[i], true
		}
		return "", false
	}

	for i, l := range c.Lines {
		f := strings.Fields(l)
		o := outs[i]
		if len(f) == 0 || o == "bad-op" {
			continue
		}
		if strings.HasPrefix(o, "PANIC") {
			add(i, "C14:panic:"+f[0], "panic in the database code: "+o)
			continue
		}
		of := strings.Fields(o)
		switch f[0] {
		case "cfgops":
			if sig, what := monitorCfgOps(l, o); sig != "" {
				add(i, sig, what)
			}
		case "hookdbs":
			if sig, what := monitorHookDbs(l, o); sig != "" {
				add(i, sig, what)
			}
		case "purgecase":
			if sig, what := monitorPurge(l, o); sig != "" {
				add(i, sig, what)
			}
		case "cfgpush":
			if sig, what := monitorCfg(l, o); sig != "" {
				add(i, sig, what)
			}
		case "db":
			kind = f[1]
			dbThere = f[1] != "regraw" // a fresh runtime registry is not a database yet
		case "inject":
			if o == "ok" {
				dbThere = true
			}
		case "q":
			queries[f[1]] = mQuery{prefix: unq(f[2]), cond: f[3:]}
		case "sub":
			if o == "ok" {
				base, _, _ := strings.Cut(f[2], "+")
				subs = append(subs, &mSub{sid: f[1], loc: strings.Contains(base, "L"), int: strings.Contains(base, "I"), q: queries[f[3]], active: true})
			}
		case "cancel":
			if s := findSub(f[1]); s != nil {
				s.active = false // from the call on nothing more needs to be delivered; after it returned nothing may be
			}
		case "hook":
			if o == "ok" {
				hooks = append(hooks, &mHook{rid: f[1], hid: f[1], q: queries[f[2]], pg: f[3], og: f[4], pp: f[5], active: true})
			}
		case "rehook": // the hook value f[2] registered once more, as registration f[1], with its own query
			if o == "ok" && len(f) == 4 {
				for _, h := range hooks {
					if h.hid == f[2] {
						hooks = append(hooks, &mHook{rid: f[1], hid: f[2], q: queries[f[3]], pg: h.pg, og: h.og, pp: h.pp, active: true})
						break
					}
				}
			}
		case "unhook":
			if h := findReg(f[1]); h != nil && o == "ok" {
				h.active = false
			}
		case "drain", "drain1":
			if o == "-" {
				break
			}
			for _, part := range of {
				eq := strings.IndexByte(part, '=')
				if eq < 0 || !strings.HasPrefix(part, "s") {
					continue
				}
				sid := part[1:eq]
				body := part[eq+1:]
				closed := strings.HasSuffix(body, "x")
				body = strings.TrimSuffix(body, "x")
				body = strings.TrimSuffix(strings.TrimPrefix(body, "["), "]")
				var got []string
				if body != "" {
					got = strings.Split(body, ",")
				}
				s := findSub(sid)
				if s == nil {
					continue
				}
				// after cancel returned the feed is closed
				if !s.active && !closed {
					add(i, "C14:cancel:feed-not-closed", "feed of cancelled subscription s"+sid+" is not closed")
				}
				if s.active && closed {
					add(i, "C14:feed-closed-while-active", "feed of active subscription s"+sid+" is closed")
				}
				// soundness: only matching, permitted records
				for _, g := range got {
					r := parseRecStr(g)
					if !r.ok {
						add(i, "C14:delivery:unreadable", "unreadable record on feed: "+g)
						continue
					}
					if !s.q.matches(r) {
						add(i, "C14:delivery:not-matching", fmt.Sprintf("s%s received %s which does not match its query", sid, g))
					}
					if !s.maySee(r) {
						add(i, "C14:delivery:not-permitted", fmt.Sprintf("s%s received %s which its subscriber may not see", sid, g))
					}
				}
				if !s.fuzzy {
					if strings.Join(got, ",") != strings.Join(s.expect, ",") {
						sig := "C14:delivery:wrong"
						switch {
						case len(got) < len(s.expect):
							sig = "C14:delivery:missing"
						case len(got) > len(s.expect):
							sig = "C14:delivery:extra"
						}
						add(i, sig, fmt.Sprintf("s%s feed has [%s], the writes since the last drain require [%s]", sid,
							short(strings.Join(got, ",")), short(strings.Join(s.expect, ","))))
					}
				}
				s.expect, s.fuzzy, s.pending = nil, false, 0
			}
		case "ppushn": // one call of a provider's push function with k records: k pushes by the injected database, in order
			if o != "ok" || len(f) != 7 {
				break
			}
			k, _ := strconv.Atoi(f[2])
			n0, _ := strconv.ParseInt(f[4], 10, 64)
			for j := 0; j < k; j++ {
				w := mRec{key: f[3], n: n0 + int64(j), s: f[5], flags: flagsOf(unq(f[6])), ok: true}
				for _, s := range subs {
					if s.active && s.q.matches(w) && s.maySee(w) && s.pending < feedCapStatement {
						s.expect = append(s.expect, w.String())
						s.pending++
					}
				}
			}
		case "putmany":
			// Interface.PutMany: a write through an interface — the property demands delivery and pre-put hooks all the same
			if of[0] != "ok" {
				break
			}
			wm := mRec{key: f[2], s: f[4], flags: flagsOf(unq(f[5])), ok: true}
			wm.n, _ = strconv.ParseInt(f[3], 10, 64)
			wm = applyIfaceFlags(f[1], wm)
			for _, s := range subs {
				if !s.active {
					continue
				}
				s.fuzzy = true // whether it is delivered is what is in question: no exact demand on the next drain
				if s.q.matches(wm) && s.maySee(wm) {
					if nxt, ok := drainAt(c, outs, i+1, s.sid); ok && !contains(nxt, wm.String()) {
						add(i, "C14:putmany:bypasses-hooks-and-subscribers",
							fmt.Sprintf("Interface.PutMany stored %s but s%s was not notified", wm, s.sid))
					}
				}
			}
			for _, h := range hooks {
				if skipped(h, "pp", wm) && !strings.Contains(o, "h"+h.hid+".pp(") {
					add(i, "C14:putmany:bypasses-hooks-and-subscribers",
						fmt.Sprintf("Interface.PutMany stored %s but pre-put hook h%s was not called", wm, h.hid))
				}
			}
		case "put", "putnew", "push", "ppush", "del", "mksec", "mkcj", "exp", "ins", "relexp", "get", "exists":
			if f[0] == "ppush" { // the push function of one provider of a runtime registry: a push by an injected database
				if len(f) != 6 {
					break
				}
				f = append([]string{"push"}, f[2:]...)
			}
			if !dbThere {
				// a runtime registry that has not been injected yet: there is no database the statement could talk about
				// (no subscription or hook can exist, interface operations fail in getController, pushes go nowhere)
				break
			}
			iface := "LI"
			key := f[1]
			if f[0] != "push" {
				iface, key = f[1], f[2]
			}
			delayed := strings.HasSuffix(iface, "+w")
			calls := parseCalls(of[1:])
			if f[0] == "get" && of[0] == "ok" && len(of) >= 2 {
				calls = parseCalls(of[2:])
			}
			success := of[0] == "ok"
			if delayed {
				// Interface with DelayCachedWrites: the write is accepted (Put returns nil) without the controller being
				// involved — the property demands delivery and pre-put hooks all the same.
				w := mRec{key: key, s: f[4], flags: flagsOf(unq(f[5])), ok: true}
				w.n, _ = strconv.ParseInt(f[3], 10, 64)
				for _, s := range subs {
					if s.active {
						s.fuzzy = true // pending delayed writes of this key may be flushed by this operation
					}
					if success && w.flags[2] != 'd' && s.active && s.q.matches(w) && s.maySee(w) {
						nxt, ok := drainAt(c, outs, i+1, s.sid)
						if ok && !contains(nxt, w.String()) {
							add(i, "C14:delayed-write-cache:put-bypasses-hooks-and-subscribers",
								fmt.Sprintf("Put through an interface with DelayCachedWrites returned ok but s%s was not notified of %s", s.sid, w))
						}
					}
				}
				for _, h := range hooks {
					if success && w.flags[2] != 'd' && skipped(h, "pp", w) && !strings.Contains(o, "h"+h.hid+".pp("+w.String()+")") {
						add(i, "C14:delayed-write-cache:put-bypasses-hooks-and-subscribers",
							fmt.Sprintf("Put through an interface with DelayCachedWrites returned ok but pre-put hook h%s was not called for %s", h.hid, w))
					}
				}
				break
			}
			// ---- hooks: called in declared phases, for exactly the matching operations, in registration order ----
			var vetoed *mCall
			pos := map[string]int{} // phase → index in hooks up to which calls were seen
			cur := map[string]string{}
			for ci := range calls {
				cl := calls[ci]
				if vetoed != nil {
					add(i, "C14:hooks:called-after-veto", fmt.Sprintf("hook h%s called after h%s vetoed", cl.hid, vetoed.hid))
				}
				var r mRec
				if cl.phase != "pg" {
					r = parseRecStr(cl.arg)
				}
				// Which registration made this call? A hook value may be registered several times: it is the first
				// registration of this value, at or after the point the phase has reached, that is active, declares the
				// phase and whose own query matches the argument. (Fallbacks, each of them a violation: such a
				// registration before that point; any active registration of the value.)
				applies := func(h *mHook) bool {
					if b := h.beh(cl.phase); b == "-" || b == "" {
						return false
					}
					if cl.phase == "pg" {
						return cl.arg == key && h.q.matchesKey(cl.arg)
					}
					return r.ok && h.q.matches(r)
				}
				idx, early, anyAt := -1, -1, -1
				for j, hj := range hooks {
					if hj.hid != cl.hid || !hj.active {
						continue
					}
					if anyAt < 0 || (anyAt < pos[cl.phase] && j >= pos[cl.phase]) {
						anyAt = j
					}
					if applies(hj) {
						if j >= pos[cl.phase] {
							idx = j
							break
						}
						if early < 0 {
							early = j
						}
					}
				}
				if anyAt < 0 {
					add(i, "C14:hooks:called-while-not-registered", "hook h"+cl.hid+" called although it is not registered (cancelled or never registered)")
					continue
				}
				if idx < 0 {
					idx = early
				}
				if idx < 0 {
					idx = anyAt
				}
				h := hooks[idx]
				if beh := h.beh(cl.phase); beh == "-" || beh == "" {
					add(i, "C14:hooks:undeclared-phase", fmt.Sprintf("hook h%s called in phase %s which it does not declare", cl.hid, cl.phase))
				}
				if cl.phase == "pg" {
					if cl.arg != key || !h.q.matchesKey(cl.arg) {
						add(i, "C14:hooks:key-not-matching", fmt.Sprintf("hook %s PreGet(%s) although no query it is registered with matches the key of the operation", h.name(), cl.arg))
					}
				} else {
					if !r.ok || !h.q.matches(r) {
						add(i, "C14:hooks:record-not-matching", fmt.Sprintf("hook %s %s(%s) although no query it is registered with matches the record", h.name(), cl.phase, cl.arg))
					}
					// the chain: the record a hook gets is what the previous hook of the phase returned
					if want, ok := cur[cl.phase]; ok && want != cl.arg {
						add(i, "C14:hooks:chain", fmt.Sprintf("hook h%s %s got %s, the previous hook returned %s", cl.hid, cl.phase, cl.arg, want))
					}
					// completeness between the previous called registration and this one
					for j := pos[cl.phase]; j < idx; j++ {
						if skipped(hooks[j], cl.phase, r) {
							add(i, "C14:hooks:not-called", fmt.Sprintf("hook %s declares %s and matches %s but was not called", hooks[j].name(), cl.phase, cl.arg))
						}
					}
					if idx < pos[cl.phase] {
						add(i, "C14:hooks:order", fmt.Sprintf("hook %s called out of registration order (or twice for one registration)", h.name()))
					}
					pos[cl.phase] = idx + 1
					res := r
					res = applyBeh(res, cl.beh)
					cur[cl.phase] = res.String()
				}
				if cl.phase == "pg" {
					for j := pos["pg"]; j < idx; j++ {
						hj := hooks[j]
						if hj.active && hj.pg != "-" && hj.q.matchesKey(key) {
							add(i, "C14:hooks:not-called", fmt.Sprintf("hook %s declares PreGet and matches key %s but was not called", hj.name(), key))
						}
					}
					if idx < pos["pg"] {
						add(i, "C14:hooks:order", fmt.Sprintf("hook %s called out of registration order (or twice for one registration)", h.name()))
					}
					pos["pg"] = idx + 1
				}
				if strings.HasPrefix(cl.beh, "v") {
					vetoed = &calls[ci]
				}
			}
			if vetoed != nil {
				// veto the operation with its error …
				if len(of) < 2 || of[0] != "err" || of[1] != "veto"+vetoed.beh[1:] {
					add(i, "C14:hooks:veto-not-returned", fmt.Sprintf("hook h%s vetoed with code %s but the operation returned %q", vetoed.hid, vetoed.beh[1:], of[0]+" "+sel(of, 1)))
				}
				// … while the storage stays unchanged
				before, ok1 := rawAt(i-1, key)
				after, ok2 := rawAt(i+1, key)
				if ok1 && ok2 && before != after {
					sig := fmt.Sprintf("C14:veto-storage-changed:%s:%s", kind, f[0])
					if kind == "hashmap" && (f[0] == "del" || f[0] == "mksec" || f[0] == "mkcj" || f[0] == "exp" || f[0] == "ins" || f[0] == "relexp") {
						sig = "C14:veto-storage-changed:inplace-modify-on-hashmap"
					}
					add(i, sig, fmt.Sprintf("pre-put hook h%s vetoed %s but the stored record changed from %s to %s", vetoed.hid, f[0], before, after))
				}
			}
			// hooks after the last call of each phase / phases without any call (only where the record is known)
			// A write through an interface that a database accepting none (push-only injected storage) refused with
			// ErrReadOnly was not performed: it is neither a get nor a put operation, no hook is owed a call (calls that
			// were made are judged above all the same) and nothing is delivered (success is false below).
			refusedRO := kind == "pushonly" && o == "err readonly" && f[0] != "get" && f[0] != "exists" && f[0] != "push"
			if vetoed == nil && !refusedRO {
				// PreGet: by key, for operations that load the record
				if f[0] != "put" && f[0] != "putnew" && f[0] != "push" {
					for j := pos["pg"]; j < len(hooks); j++ {
						hj := hooks[j]
						if hj.active && hj.pg != "-" && hj.q.matchesKey(key) {
							add(i, "C14:hooks:not-called", fmt.Sprintf("hook h%s declares PreGet and matches key %s but was not called", hj.hid, key))
						}
					}
				}
				for _, ph := range []string{"og", "pp"} {
					recStr, known := cur[ph]
					if !known && ph == "pp" && success && (f[0] == "put" || f[0] == "putnew") {
						// no pre-put call at all: the record before storing is the input with the interface options applied
						in := mRec{key: key, s: f[4], flags: flagsOf(unq(f[5])), ok: true}
						in.n, _ = strconv.ParseInt(f[3], 10, 64)
						if f[0] == "putnew" {
							fl := []byte(in.flags)
							fl[2], fl[3] = '-', '-'
							in.flags = string(fl)
						}
						recStr, known = applyIfaceFlags(iface, in).String(), true
					}
					if !known && ph == "og" && f[0] == "get" && success {
						recStr, known = of[1], true
					}
					if !known || (ph == "pp" && (f[0] == "get" || f[0] == "exists" || f[0] == "push")) || (ph == "og" && (f[0] == "put" || f[0] == "putnew" || f[0] == "push")) {
						continue
					}
					r := parseRecStr(recStr)
					for j := pos[ph]; j < len(hooks); j++ {
						if skipped(hooks[j], ph, r) {
							add(i, "C14:hooks:not-called", fmt.Sprintf("hook %s declares %s and matches %s but was not called", hooks[j].name(), ph, recStr))
						}
					}
				}
			}
			if f[0] == "exists" {
				// Exists is a get operation: same hook clause, the answer reduced to yes / no
				if stored, ok := rawAt(i-1, key); ok {
					if want := expectExists(expectGet(hooks, iface, key, stored)); want != o {
						add(i, "C14:exists:hooks-or-result", fmt.Sprintf("stored %s: the hook clause requires %q", stored, want))
					}
				}
				break
			}
			if f[0] == "get" {
				// the get-hook clause read from what is stored (raw line before the get), independent of the calls observed
				if stored, ok := rawAt(i-1, key); ok {
					if want := expectGet(hooks, iface, key, stored); want != o {
						add(i, "C14:get:hooks-or-result", fmt.Sprintf("stored %s: the hook clause requires %q", stored, want))
					}
				}
				// a successful get returns what the post-get chain produced
				if success && len(of) >= 2 {
					if want, ok := cur["og"]; ok && want != of[1] {
						add(i, "C14:hooks:replace-not-returned", fmt.Sprintf("post-get hooks produced %s but Get returned %s", want, of[1]))
					}
				}
				break
			}
			// ---- subscriptions: every successful write is delivered exactly once to every active subscription it is for ----
			if !success {
				break // failed writes deliver nothing: the next drain must match the unchanged expectation
			}
			// what was written
			var w mRec
			if s, ok := cur["pp"]; ok {
				w = parseRecStr(s)
			} else if f[0] == "put" || f[0] == "putnew" || f[0] == "push" {
				w = mRec{key: key, s: f[len(f)-2], flags: flagsOf(unq(f[len(f)-1])), ok: true}
				w.n, _ = strconv.ParseInt(f[len(f)-3], 10, 64)
				if f[0] == "putnew" {
					fl := []byte(w.flags)
					fl[2], fl[3] = '-', '-'
					w.flags = string(fl)
				}
				if f[0] != "push" {
					w = applyIfaceFlags(iface, w)
				}
			} else {
				// in-place modification of the loaded record: loaded = what the post-get chain produced, else what was stored
				base, known := cur["og"]
				if !known {
					base, known = rawAt(i-1, key)
				}
				if b := parseRecStr(base); known && b.ok {
					b = applyIfaceFlags(iface, b)
					fl := []byte(b.flags)
					switch f[0] {
					case "del":
						fl[2] = 'd'
					case "mksec":
						fl[0] = 's'
					case "mkcj":
						fl[1] = 'c'
					case "exp":
						fl[2], fl[3] = '-', f[3][0]
					case "ins":
						b.n, _ = strconv.ParseInt(f[3], 10, 64)
					}
					b.flags = string(fl)
					w = b
				}
			}
			if w.ok && kind == "inj" && f[0] != "push" && !(w.flags[2] == 'd') {
				w.s += "~" // the injected storage returns its normalised form; that is what was written
			}
			for _, s := range subs {
				if !s.active {
					continue
				}
				if !w.ok {
					s.fuzzy = true
					continue
				}
				if s.q.matches(w) && s.maySee(w) {
					if s.pending < feedCapStatement { // "as long as the feed buffer is not full"
						s.expect = append(s.expect, w.String())
						s.pending++
					}
				}
			}
		}
	}
	return vs
}

// applyBeh: what a record-phase hook with behaviour beh hands on.
func applyBeh(r mRec, beh string) mRec {
	switch {
	case strings.HasPrefix(beh, "s"):
		r.n, _ = strconv.ParseInt(beh[1:], 10, 64)
	case beh == "x":
		fl := []byte(r.flags)
		fl[2] = 'd'
		r.flags = string(fl)
	}
	return r
}

// expectGet: Interface.Get as the property states it. Pre-get hooks are called for exactly the registered hooks that
// declare the phase and match the key, in registration order, until one vetoes; the stored record (whatever its state:
// also expired or marked deleted) goes through the post-get hooks that declare the phase and match the record current
// at their turn (replace hands the new record on, veto ends the get with the hook's error); what the chain produced is
// returned if it is valid and the interface may see it.
func expectGet(hooks []*mHook, iface, key, stored string) string {
	var calls []string
	out := func(res string) string {
		if len(calls) == 0 {
			return res
		}
		return res + " " + strings.Join(calls, " ")
	}
	for _, h := range hooks {
		if !h.active || h.pg == "-" || !h.q.matchesKey(key) {
			continue
		}
		calls = append(calls, fmt.Sprintf("h%s.pg(%s)>%s", h.hid, key, h.pg))
		if strings.HasPrefix(h.pg, "v") {
			return out("err veto" + h.pg[1:])
		}
	}
	if stored == "none" {
		return out("err notfound")
	}
	cur := parseRecStr(stored)
	if !cur.ok {
		return "?"
	}
	for _, h := range hooks {
		if !h.active || h.og == "-" || !h.q.matches(cur) {
			continue
		}
		calls = append(calls, fmt.Sprintf("h%s.og(%s)>%s", h.hid, cur, h.og))
		if strings.HasPrefix(h.og, "v") {
			return out("err veto" + h.og[1:])
		}
		cur = applyBeh(cur, h.og)
	}
	if cur.flags[2] == 'd' || cur.flags[3] == 'p' {
		return out("err notfound")
	}
	base, _, _ := strings.Cut(iface, "+")
	if (!strings.Contains(base, "L") && cur.cj()) || (!strings.Contains(base, "I") && cur.secret()) {
		return out("err denied")
	}
	return out("ok " + cur.String())
}

// expectExists: Interface.Exists answers yes if Get succeeds or is refused for lack of permission, no if Get finds
// nothing; any other error (a veto) is handed on. The hook calls are those of the Get.
func expectExists(get string) string {
	f := strings.Fields(get)
	if len(f) == 0 {
		return get
	}
	switch {
	case f[0] == "ok" && len(f) >= 2:
		return strings.TrimSpace("ok true " + strings.Join(f[2:], " "))
	case f[0] == "err" && len(f) >= 2 && f[1] == "notfound":
		return strings.TrimSpace("ok false " + strings.Join(f[2:], " "))
	case f[0] == "err" && len(f) >= 2 && f[1] == "denied":
		return strings.TrimSpace("ok true " + strings.Join(f[2:], " "))
	}
	return get
}

func skipped(h *mHook, phase string, r mRec) bool {
	if !h.active || !r.ok {
		return false
	}
	beh := map[string]string{"og": h.og, "pp": h.pp}[phase]
	return beh != "-" && beh != "" && h.q.matches(r)
}

// drainAt returns the records the next drain line (at index i) shows for sid.
func drainAt(c hxlib.Case, outs []string, i int, sid string) ([]string, bool) {
	if i >= len(c.Lines) || c.Lines[i] != "drain" {
		return nil, false
	}
	for _, part := range strings.Fields(outs[i]) {
		if strings.HasPrefix(part, "s"+sid+"=") {
			body := strings.TrimSuffix(part[len(sid)+2:], "x")
			body = strings.TrimSuffix(strings.TrimPrefix(body, "["), "]")
			if body == "" {
				return nil, true
			}
			return strings.Split(body, ","), true
		}
	}
	return nil, false
}

func contains(l []string, x string) bool {
	for _, y := range l {
		if y == x {
			return true
		}
	}
	return false
}

func sel(f []string, i int) string {
	if i < len(f) {
		return f[i]
	}
	return ""
}

func short(s string) string {
	if len(s) > 300 {
		return s[:140] + " … " + s[len(s)-140:]
	}
	return s
}

func tail(s []string, n int) []string {
	if len(s) > n {
		return s[len(s)-n:]
	}
	return s
}
