// hx-c14: correspondence harness and property monitor for C14 (database subscriptions and hooks).
package main

import (
	"verifharness/hxlib"
)

func main() {
	defer cleanupDB()
	hxlib.Main(&hxlib.Harness{Prop: "C14", Rule: rule, Generate: gen, NewExec: func(r *hxlib.Run) hxlib.Exec { return newWorld() }, Monitor: monitor,
		Extra: func(r *hxlib.Run) map[string]any {
			return map[string]any{"concurrent_scenarios": concStats.scenarios, "forced_waits": concStats.waits, "forced_wait_timeouts": concStats.timeouts,
				"hook_concurrent_scenarios": hconcStats.scenarios}
		}})
}
