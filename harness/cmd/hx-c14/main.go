// hx-c14: correspondence harness and property monitor for C14 (database subscriptions and hooks).
package main

import (
	"verifharness/hxlib"
)

func main() {
	defer cleanupDB()
	hxlib.Main(&hxlib.Harness{Prop: "C14", Rule: rule, Generate: gen, NewExec: func(r *hxlib.Run) hxlib.Exec { return newWorld() }, Monitor: monitor})
}
