package main

// world.go: executor of C14 op lines on the REAL portbase database package (one database per case).

import (
	"context"
	"errors"
	"fmt"
	"os"
	"path/filepath"
	"sort"
	"strconv"
	"strings"
	"sync"
	"sync/atomic"
	"time"

	"github.com/safing/portbase/database"
	"github.com/safing/portbase/database/query"
	"github.com/safing/portbase/database/record"
	"github.com/safing/portbase/database/storage"
	_ "github.com/safing/portbase/database/storage/bbolt"
	_ "github.com/safing/portbase/database/storage/hashmap"
	"github.com/safing/portbase/runtime"
)

// Rec is the harness record type: two data fields the query conditions talk about.
type Rec struct {
	record.Base
	sync.Mutex

	N int64
	S string
}

const (
	expPast   = 1          // 1970-01-01T00:00:01Z
	expFuture = 4102444800 // 2100-01-01
)

var (
	dbRoot    string
	dbCounter int64
	initOnce  sync.Once
)

func scratchRoot() string {
	base := os.Getenv("VERIF_SCRATCH_DIR")
	if base == "" {
		base = os.TempDir()
	}
	replay := false
	for _, a := range os.Args[1:] {
		if a == "-replay" || a == "--replay" {
			replay = true // hxlib exits from inside Main in replay mode: stay inside the directory `check` removes
		}
	}
	// leftovers of runs that were killed (timeout): remove what is older than an hour
	if old, err := filepath.Glob("/dev/shm/verif-c14-*"); err == nil {
		for _, d := range old {
			if st, err := os.Stat(d); err == nil && time.Since(st.ModTime()) > time.Hour {
				_ = os.RemoveAll(d)
			}
		}
	}
	// bbolt fsyncs on every Put: prefer the tmpfs when it is there
	if st, err := os.Stat("/dev/shm"); err == nil && st.IsDir() && !replay {
		if d, err := os.MkdirTemp("/dev/shm", "verif-c14-"); err == nil {
			return d
		}
	}
	d, err := os.MkdirTemp(base, "c14db-")
	if err != nil {
		panic(err)
	}
	return d
}

func initDB() {
	initOnce.Do(func() {
		dbRoot = scratchRoot()
		if err := database.InitializeWithPath(dbRoot); err != nil {
			panic(err)
		}
	})
}

func cleanupDB() {
	if dbRoot != "" {
		_ = os.RemoveAll(dbRoot)
	}
}

type vetoErr struct{ code string }

func (v *vetoErr) Error() string { return "veto " + v.code }

// errClass maps errors to the small enum of the line protocol.
func errClass(err error) string {
	var v *vetoErr
	switch {
	case err == nil:
		return "ok"
	case errors.As(err, &v):
		return "err veto" + v.code
	case errors.Is(err, database.ErrNotFound):
		return "err notfound"
	case errors.Is(err, database.ErrPermissionDenied):
		return "err denied"
	case errors.Is(err, database.ErrReadOnly):
		return "err readonly"
	case errors.Is(err, storage.ErrNotImplemented):
		return "err notimpl"
	case errors.Is(err, runtime.ErrKeyUnmanaged):
		return "err unmanaged"
	case errors.Is(err, runtime.ErrInjected):
		return "err injected"
	case errors.Is(err, runtime.ErrKeyTaken):
		return "err taken"
	case strings.Contains(err.Error(), "database storage is not injected"):
		return "err notinjected" // getController of an injected database nobody has injected yet (no sentinel error)
	}
	return "err other:" + strings.ReplaceAll(err.Error(), " ", "_")
}

// ---- records ------------------------------------------------------------------------------------

func (w *world) newRec(key string, n int64, s string, flags string) *Rec {
	r := &Rec{N: n, S: s}
	r.SetKey(w.dbName + ":" + key)
	r.CreateMeta()
	for _, f := range flags {
		switch f {
		case 'p':
			r.Meta().SetAbsoluteExpiry(expPast)
		case 'f':
			r.Meta().SetAbsoluteExpiry(expFuture)
		}
	}
	for _, f := range flags {
		switch f {
		case 's':
			r.Meta().MakeSecret()
		case 'c':
			r.Meta().MakeCrownJewel()
		case 'd':
			r.Meta().Deleted = 1000 // deleted long ago
		}
	}
	return r
}

// data reads N and S of any record (struct or wrapper) without locking.
func data(r record.Record) (n int64, s string, ok bool) {
	if x, isRec := r.(*Rec); isRec {
		return x.N, x.S, true
	}
	acc := r.GetAccessor(r)
	if acc == nil {
		return 0, "", false
	}
	n, ok1 := acc.GetInt("N")
	s, ok2 := acc.GetString("S")
	return n, s, ok1 && ok2
}

// fmtRec renders a record canonically: key;N;S;flags (secret, crownjewel, deleted, expiry -/p/f). No locking.
func fmtRec(r record.Record) string {
	if r == nil {
		return "nil"
	}
	n, s, ok := data(r)
	ds := fmt.Sprintf("%d;%s", n, s)
	if !ok {
		ds = "?;?"
	}
	m := r.Meta()
	if m == nil {
		return r.DatabaseKey() + ";" + ds + ";nometa"
	}
	fl := []byte("----")
	if !m.CheckPermission(true, false) { // secret
		fl[0] = 's'
	}
	if !m.CheckPermission(false, true) { // crownjewel
		fl[1] = 'c'
	}
	if m.IsDeleted() {
		fl[2] = 'd'
	}
	switch {
	case m.Expires == 0:
	case m.Expires < time.Now().Unix():
		fl[3] = 'p'
	default:
		fl[3] = 'f'
	}
	return r.DatabaseKey() + ";" + ds + ";" + string(fl)
}

func fmtRecLocked(r record.Record) string {
	r.Lock()
	defer r.Unlock()
	return fmtRec(r)
}

// copyRec returns a fresh *Rec with the data and a duplicate of the metadata of r, N replaced.
func copyRec(r record.Record, n int64, suffix string) *Rec {
	_, s, _ := data(r)
	c := &Rec{N: n, S: s + suffix}
	c.SetKey(r.Key())
	if r.Meta() != nil {
		c.SetMeta(r.Meta().Duplicate())
	}
	return c
}

// ---- injected storage (harness-owned): copy semantics, Put returns a normalised copy ----------------

type injStore struct {
	storage.InjectBase
	mu sync.Mutex
	m  map[string]*Rec
}

func (s *injStore) Get(key string) (record.Record, error) {
	s.mu.Lock()
	defer s.mu.Unlock()
	r, ok := s.m[key]
	if !ok {
		return nil, storage.ErrNotFound
	}
	return copyRec(r, r.N, ""), nil
}

func (s *injStore) Put(r record.Record) (record.Record, error) {
	s.mu.Lock()
	defer s.mu.Unlock()
	n, _, _ := data(r)
	c := copyRec(r, n, "~") // like config's StorageInterface.Put: the stored/exported form is returned, not the input
	s.m[r.DatabaseKey()] = c
	return copyRec(c, c.N, ""), nil
}

func (s *injStore) Delete(key string) error {
	s.mu.Lock()
	defer s.mu.Unlock()
	delete(s.m, key)
	return nil
}

func (s *injStore) ReadOnly() bool { return false }

// ---- push-only injected storage: storage.InjectBase as it comes ---------------------------------------
//
// A database that only pushes updates (Controller.PushUpdate) and accepts no write: Put, Delete, Query and —
// the point — ReadOnly() (true) and Injected() (true) are InjectBase's own. Only Get is given an answer of the
// storage contract ("nothing stored": storage.ErrNotFound) instead of the base's ErrNotImplemented.

type pushOnlyStore struct {
	storage.InjectBase
}

func (s *pushOnlyStore) Get(key string) (record.Record, error) { return nil, storage.ErrNotFound }

// ---- runtime registry provider ---------------------------------------------------------------------

type regProvider struct {
	mu sync.Mutex
	m  map[string]*Rec
}

func (p *regProvider) Set(r record.Record) (record.Record, error) {
	p.mu.Lock()
	defer p.mu.Unlock()
	n, _, _ := data(r)
	p.m[r.DatabaseKey()] = copyRec(r, n, "")
	return r, nil
}

func (p *regProvider) Get(keyOrPrefix string) ([]record.Record, error) {
	p.mu.Lock()
	defer p.mu.Unlock()
	ks := make([]string, 0, len(p.m))
	for k := range p.m {
		if strings.HasPrefix(k, keyOrPrefix) {
			ks = append(ks, k)
		}
	}
	sort.Strings(ks)
	out := make([]record.Record, 0, len(ks))
	for _, k := range ks {
		out = append(out, copyRec(p.m[k], p.m[k].N, ""))
	}
	return out, nil
}

const regPrefix = "a/"

// ---- hooks -------------------------------------------------------------------------------------------

type hxHook struct {
	database.HookBase // what a hook does not declare / does not change is left to portbase's own base implementation
	w                 *world
	id                string
	pg, og, pp        string // behaviour per phase: "-" unused, "p" pass, "v<code>" veto, "s<n>" replace by a copy with N=n
	ncalls            int64
}

func (h *hxHook) UsesPreGet() bool  { return h.pg != "-" || h.HookBase.UsesPreGet() }
func (h *hxHook) UsesPostGet() bool { return h.og != "-" || h.HookBase.UsesPostGet() }
func (h *hxHook) UsesPrePut() bool  { return h.pp != "-" || h.HookBase.UsesPrePut() }

func (h *hxHook) PreGet(key string) error {
	atomic.AddInt64(&h.ncalls, 1)
	h.w.logCall(h, "pg", key, h.pg)
	if h.pg[0] == 'v' {
		return &vetoErr{h.pg[1:]}
	}
	return h.HookBase.PreGet(key)
}

func (h *hxHook) onRec(phase, beh string, r record.Record) (record.Record, error) {
	atomic.AddInt64(&h.ncalls, 1)
	h.w.logCall(h, phase, fmtRec(r), beh)
	switch beh[0] {
	case 'v':
		return nil, &vetoErr{beh[1:]}
	case 's':
		n, _ := strconv.ParseInt(beh[1:], 10, 64)
		return copyRec(r, n, ""), nil
	case 'x': // hide: hand on a copy that is marked deleted
		n, _, _ := data(r)
		c := copyRec(r, n, "")
		if c.Meta() == nil {
			c.CreateMeta()
		}
		c.Meta().Deleted = 1000
		return c, nil
	}
	if phase == "og" {
		return h.HookBase.PostGet(r)
	}
	return h.HookBase.PrePut(r)
}

func (h *hxHook) PostGet(r record.Record) (record.Record, error) { return h.onRec("og", h.og, r) }
func (h *hxHook) PrePut(r record.Record) (record.Record, error)  { return h.onRec("pp", h.pp, r) }

// ---- the world of one case --------------------------------------------------------------------------

type subState struct {
	sid string
	sub *database.Subscription
}

type world struct {
	kind    string // hashmap | bbolt | inj | reg | pushonly
	shadow  bool
	dbName  string
	ctrl    *database.Controller
	ifaces  map[string]*database.Interface
	cancels []context.CancelFunc
	queries map[string]*query.Query
	subs    []*subState
	hooks   map[string]*database.RegisteredHook // registrations, by registration id
	hx      map[string]*hxHook                  // hook values, by their own id
	push    func(record.Record)
	// runtime registry (kind reg): the registry itself, the push functions Register handed out, by provider id
	reg      *runtime.Registry
	pushes   map[string]runtime.PushFunc
	injected bool

	callMu sync.Mutex
	calls  []string
	// concurrent scenarios install an observer for hook calls
	onCall func(h *hxHook, phase, arg, beh string)
}

func (w *world) logCall(h *hxHook, phase, arg, beh string) {
	w.callMu.Lock()
	w.calls = append(w.calls, fmt.Sprintf("h%s.%s(%s)>%s", h.id, phase, arg, beh))
	f := w.onCall
	w.callMu.Unlock()
	if f != nil {
		f(h, phase, arg, beh)
	}
}

func (w *world) takeCalls() string {
	w.callMu.Lock()
	defer w.callMu.Unlock()
	if len(w.calls) == 0 {
		return ""
	}
	s := " " + strings.Join(w.calls, " ")
	w.calls = nil
	return s
}

func (w *world) open(kind string, shadow bool) string {
	initDB()
	if w.dbName != "" {
		return "bad-op"
	}
	raw := kind == "regraw" // a fresh registry only: nothing registered, not injected
	if raw {
		kind = "reg"
	}
	w.kind, w.shadow = kind, shadow
	w.dbName = fmt.Sprintf("c14x%d", atomic.AddInt64(&dbCounter, 1))
	st := kind
	if kind == "inj" || kind == "reg" || kind == "pushonly" {
		st = database.StorageTypeInjected
	}
	if _, err := database.Register(&database.Database{Name: w.dbName, Description: "C14 case", StorageType: st, ShadowDelete: shadow}); err != nil {
		return "err other:" + err.Error()
	}
	switch kind {
	case "inj":
		c, err := database.InjectDatabase(w.dbName, &injStore{m: map[string]*Rec{}})
		if err != nil {
			return "err other:" + err.Error()
		}
		w.ctrl = c
		w.push = c.PushUpdate
	case "pushonly":
		c, err := database.InjectDatabase(w.dbName, &pushOnlyStore{})
		if err != nil {
			return "err other:" + err.Error()
		}
		if !c.ReadOnly() || !c.Injected() {
			return "err other:push-only storage is not read-only"
		}
		w.ctrl = c
		w.push = c.PushUpdate
	case "reg":
		w.reg = runtime.NewRegistry()
		w.pushes = map[string]runtime.PushFunc{}
		if raw {
			break
		}
		// the order the runtime module itself uses: inject, then register
		if out := w.inject(); out != "ok" {
			return out
		}
		if out := w.provide("0", regPrefix); out != "ok" {
			return out
		}
	default:
		c, err := database.VerifController(w.dbName)
		if err != nil {
			return "err other:" + err.Error()
		}
		w.ctrl = c
		w.push = c.PushUpdate
	}
	return "ok"
}

// inject: Registry.InjectAsDatabase.
func (w *world) inject() string {
	if err := w.reg.InjectAsDatabase(w.dbName); err != nil {
		return errClass(err)
	}
	w.injected = true
	c, err := database.VerifController(w.dbName)
	if err != nil {
		return "err other:" + err.Error()
	}
	w.ctrl = c
	return "ok"
}

// provide: Registry.Register of a fresh map-backed provider; the push function is kept under the provider id.
func (w *world) provide(pid, keyOrPrefix string) string {
	pf, err := w.reg.Register(keyOrPrefix, &regProvider{m: map[string]*Rec{}})
	if err != nil {
		return errClass(err)
	}
	w.pushes[pid] = pf
	if pid == "0" {
		w.push = func(r record.Record) { pf(r) }
	}
	return "ok"
}

// Close releases what the case holds (bbolt file).
func (w *world) Close() error {
	for _, c := range w.cancels {
		c()
	}
	if w.kind == "bbolt" && w.ctrl != nil {
		_ = w.ctrl.Shutdown()
		_ = os.RemoveAll(filepath.Join(dbRoot, "databases", w.dbName))
	}
	return nil
}

// iface returns the interface for an option code: letters L(ocal) I(nternal) S(always secret) C(always crownjewel)
// E(always set an absolute expiry in the far future),
// "+c" read cache, "+w" read cache with delayed writes; "-" = no options.
func (w *world) iface(code string) *database.Interface {
	if i, ok := w.ifaces[code]; ok {
		return i
	}
	base, ext, _ := strings.Cut(code, "+")
	o := &database.Options{
		Local: strings.Contains(base, "L"), Internal: strings.Contains(base, "I"),
		AlwaysMakeSecret: strings.Contains(base, "S"), AlwaysMakeCrownjewel: strings.Contains(base, "C"),
	}
	if strings.Contains(base, "E") {
		o.AlwaysSetAbsoluteExpiry = expFuture
	}
	switch ext {
	case "c":
		o.CacheSize = 64
	case "w":
		o.CacheSize = 64
		o.DelayCachedWrites = w.dbName
	}
	i := database.NewInterface(o)
	w.ifaces[code] = i
	return i
}

func isNum(s string) bool {
	if s == "" {
		return false
	}
	for _, c := range s {
		if c < '0' || c > '9' {
			return false
		}
	}
	return true
}

// ifaceFor validates an interface code for an op: "+w" (delayed writes) only for put/flush on LI, "+c" only for get/put.
func (w *world) ifaceFor(op, code string) bool {
	base, ext, has := strings.Cut(code, "+")
	if has {
		switch ext {
		case "w":
			if base != "LI" || (op != "put" && op != "flush") || (w.kind != "hashmap" && w.kind != "bbolt") {
				return false
			}
		case "c":
			if op != "get" && op != "put" {
				return false
			}
		default:
			return false
		}
	}
	return validIface(code)
}

func validIface(code string) bool {
	base, ext, has := strings.Cut(code, "+")
	if has && ext != "c" && ext != "w" {
		return false
	}
	if base == "-" {
		return true
	}
	if base == "" {
		return false
	}
	for _, c := range base {
		if !strings.ContainsRune("LISCE", c) {
			return false
		}
	}
	return true
}

// parseCond parses the Polish-notation condition tokens; returns the condition (nil = none), and whether the
// tokens were well-formed. "bad" yields a condition that fails Query.Check.
func parseCond(t []string) (c query.Condition, rest []string, ok bool) {
	if len(t) == 0 {
		return nil, nil, false
	}
	num := func() (int64, bool) {
		if len(t) < 2 {
			return 0, false
		}
		v, err := strconv.ParseInt(t[1], 10, 64)
		return v, err == nil
	}
	switch t[0] {
	case "T":
		return nil, t[1:], true
	case "bad":
		return query.Where("N", query.GreaterThan, "notanumber"), t[1:], true
	case "gt", "lt", "eq":
		v, ok := num()
		if !ok {
			return nil, nil, false
		}
		op := map[string]uint8{"gt": query.GreaterThan, "lt": query.LessThan, "eq": query.Equals}[t[0]]
		return query.Where("N", op, v), t[2:], true
	case "sa", "sw":
		if len(t) < 2 {
			return nil, nil, false
		}
		op := map[string]uint8{"sa": query.SameAs, "sw": query.StartsWith}[t[0]]
		return query.Where("S", op, t[1]), t[2:], true
	case "!":
		a, r, ok := parseCond(t[1:])
		if !ok || a == nil {
			return nil, nil, false
		}
		return query.Not(a), r, true
	case "&", "|":
		a, r, ok := parseCond(t[1:])
		if !ok || a == nil {
			return nil, nil, false
		}
		b, r2, ok := parseCond(r)
		if !ok || b == nil {
			return nil, nil, false
		}
		if t[0] == "&" {
			return query.And(a, b), r2, true
		}
		return query.Or(a, b), r2, true
	}
	return nil, nil, false
}

func unq(s string) string {
	if s == "-" {
		return ""
	}
	return s
}

func okKey(k string) bool {
	if k == "" || k == "-" {
		return false
	}
	for _, c := range k {
		if !(c >= 'a' && c <= 'z' || c >= '0' && c <= '9' || c == '/') {
			return false
		}
	}
	return true
}

func okFlags(f string) bool {
	if f == "-" {
		return true
	}
	if f == "" {
		return false
	}
	for _, c := range f {
		if !strings.ContainsRune("scdpf", c) {
			return false
		}
	}
	return !(strings.Contains(f, "p") && strings.Contains(f, "f"))
}

func okStr(s string) bool {
	if s == "" {
		return false
	}
	for _, c := range s {
		if !(c >= 'a' && c <= 'z' || c >= '0' && c <= '9' || c == '-') {
			return false
		}
	}
	return true
}

func (w *world) findSub(sid string) *subState {
	for _, s := range w.subs {
		if s.sid == sid {
			return s
		}
	}
	return nil
}

// drainOne empties a feed without blocking; closed reports that the channel is closed (and empty).
func drainOne(ch chan record.Record) (recs []record.Record, closed bool) {
	for {
		select {
		case r, ok := <-ch:
			if !ok {
				return recs, true
			}
			recs = append(recs, r)
		default:
			return recs, false
		}
	}
}

func (w *world) drain() string { return w.drainSubs(w.subs) }

// drainSubs empties the feeds of the given subscriptions (all of them for `drain`, one for `drain1`).
func (w *world) drainSubs(which []*subState) string {
	var b strings.Builder
	subs := append([]*subState{}, which...)
	sort.SliceStable(subs, func(i, j int) bool {
		a, _ := strconv.Atoi(subs[i].sid)
		c, _ := strconv.Atoi(subs[j].sid)
		return a < c
	})
	for i, s := range subs {
		if i > 0 {
			b.WriteByte(' ')
		}
		recs, closed := drainOne(s.sub.Feed)
		b.WriteString("s" + s.sid + "=[")
		for j, r := range recs {
			if j > 0 {
				b.WriteByte(',')
			}
			b.WriteString(fmtRecLocked(r))
		}
		b.WriteByte(']')
		if closed {
			b.WriteByte('x')
		}
	}
	if len(which) == 0 {
		return "-"
	}
	return b.String()
}

// Do executes one op line.
func (w *world) Do(line string) string {
	f := strings.Fields(line)
	if len(f) == 0 {
		return "bad-op"
	}
	if f[0] == "conc" || f[0] == "hconc" {
		return w.doConc(line)
	}
	w.callMu.Lock()
	w.calls = nil // calls left over from an operation that panicked
	w.callMu.Unlock()
	if f[0] == "ev" || f[0] == "obs" || f[0] == "cs" || f[0] == "cw" || f[0] == "ch" || f[0] == "cr" || f[0] == "cg" {
		return "ok" // recorded trace lines: the real run already happened (see conc.go); the model is the acceptor
	}
	if f[0] == "cfgpush" { // NoModel: the real config package as injected database
		n, err := strconv.Atoi(sel(f, 1))
		if len(f) != 2 || err != nil || n < 1 || n > 50 {
			return "bad-op"
		}
		return cfgPush(atomic.AddInt64(&dbCounter, 1), n)
	}
	if f[0] == "purgecase" { // NoModel: Interface.Purge on a fresh bbolt database
		n, err := strconv.Atoi(sel(f, 1))
		if len(f) != 3 || err != nil || n < 0 || n > 50 || !validIface(f[2]) || strings.Contains(f[2], "+") {
			return "bad-op"
		}
		return purgeCase(atomic.AddInt64(&dbCounter, 1), n, f[2])
	}
	if f[0] == "hookdbs" { // NoModel: one hook value registered on two databases
		if len(f) < 2 || len(f) > 60 {
			return "bad-op"
		}
		return hookDbs(atomic.AddInt64(&dbCounter, 1), f[1:])
	}
	if f[0] == "cfgops" { // NoModel: the real config StorageInterface behind the database interface
		if len(f) < 2 || len(f) > 40 {
			return "bad-op"
		}
		return cfgOps(atomic.AddInt64(&dbCounter, 1), f[1:])
	}
	if f[0] == "db" {
		if len(f) != 3 || (f[2] != "0" && f[2] != "1") {
			return "bad-op"
		}
		switch f[1] {
		case "hashmap", "bbolt", "inj", "reg", "regraw", "pushonly":
		default:
			return "bad-op"
		}
		if f[2] == "1" && f[1] != "hashmap" {
			return "bad-op"
		}
		return w.open(f[1], f[2] == "1")
	}
	if w.dbName == "" {
		return "bad-op"
	}
	switch f[0] {
	case "q": // q <qid> <prefix> <cond…>
		if len(f) < 4 || (f[2] != "-" && !okKey(f[2])) {
			return "bad-op"
		}
		if _, dup := w.queries[f[1]]; dup {
			return "bad-op"
		}
		c, rest, ok := parseCond(f[3:])
		if !ok || len(rest) != 0 {
			return "bad-op"
		}
		q := query.New(w.dbName + ":" + unq(f[2]))
		if c != nil {
			q = q.Where(c)
		}
		w.queries[f[1]] = q
		return "ok"
	case "sub": // sub <sid> <iface> <qid>
		if len(f) != 4 || !w.ifaceFor("sub", f[2]) || !isNum(f[1]) || w.findSub(f[1]) != nil {
			return "bad-op"
		}
		q, ok := w.queries[f[3]]
		if !ok {
			return "bad-op"
		}
		s, err := w.iface(f[2]).Subscribe(q)
		if err != nil {
			if c := errClass(err); c == "err notinjected" {
				return c
			}
			return "err query"
		}
		w.subs = append(w.subs, &subState{sid: f[1], sub: s})
		return "ok"
	case "cancel":
		if len(f) != 2 || !isNum(f[1]) {
			return "bad-op"
		}
		s := w.findSub(f[1])
		if s == nil {
			return "bad-op"
		}
		return errClass(s.sub.Cancel())
	case "drain":
		if len(f) != 1 {
			return "bad-op"
		}
		return w.drain()
	case "drain1": // drain1 <sid>: the subscriber of one subscription reads its feed empty, the others are left alone
		if len(f) != 2 || !isNum(f[1]) {
			return "bad-op"
		}
		s := w.findSub(f[1])
		if s == nil {
			return "bad-op"
		}
		return w.drainSubs([]*subState{s})
	case "hook": // hook <hid> <qid> <pg> <og> <pp>
		if len(f) != 6 {
			return "bad-op"
		}
		q, ok := w.queries[f[2]]
		if !ok || !isNum(f[1]) || w.hx[f[1]] != nil || w.hooks[f[1]] != nil || !okBeh(f[3], false) || !okBeh(f[4], true) || !okBeh(f[5], true) {
			return "bad-op"
		}
		h := &hxHook{w: w, id: f[1], pg: f[3], og: f[4], pp: f[5]}
		rh, err := database.RegisterHook(q, h)
		if err != nil {
			if c := errClass(err); c == "err notinjected" {
				return c
			}
			return "err query"
		}
		w.hx[f[1]] = h
		w.hooks[f[1]] = rh
		return "ok"
	case "rehook": // rehook <rid> <hid> <qid>: the SAME hook value <hid> registered once more, as registration <rid>
		if len(f) != 4 || !isNum(f[1]) || !isNum(f[2]) || w.hx[f[1]] != nil || w.hooks[f[1]] != nil || w.hx[f[2]] == nil {
			return "bad-op"
		}
		q, ok := w.queries[f[3]]
		if !ok {
			return "bad-op"
		}
		rh, err := database.RegisterHook(q, w.hx[f[2]])
		if err != nil {
			if c := errClass(err); c == "err notinjected" {
				return c
			}
			return "err query"
		}
		w.hooks[f[1]] = rh
		return "ok"
	case "inject":
		if len(f) != 1 || w.reg == nil {
			return "bad-op"
		}
		return w.inject()
	case "prov": // prov <pid> <key or prefix/>: Registry.Register
		if len(f) != 3 || w.reg == nil || !isNum(f[1]) || !okKey(f[2]) || w.pushes[f[1]] != nil {
			return "bad-op"
		}
		return w.provide(f[1], f[2])
	case "ppushn": // ppushn <pid> <k> <key> <n> <s> <flags>: ONE call of the variadic push function with k records (N = n, n+1, …)
		if len(f) != 7 || w.reg == nil || w.pushes[f[1]] == nil || !okKey(f[3]) || !okStr(f[5]) || !okFlags(f[6]) {
			return "bad-op"
		}
		k, err1 := strconv.Atoi(f[2])
		n, err2 := strconv.ParseInt(f[4], 10, 64)
		if err1 != nil || err2 != nil || k < 2 || k > 4 || strings.HasPrefix(f[2], "+") || strings.HasPrefix(f[2], "0") {
			return "bad-op"
		}
		recs := make([]record.Record, k)
		for j := range recs {
			recs[j] = w.newRec(f[3], n+int64(j), f[5], unq(f[6]))
		}
		func() {
			for _, r := range recs {
				r.Lock()
			}
			defer func() {
				for _, r := range recs {
					r.Unlock()
				}
			}()
			w.pushes[f[1]](recs...)
		}()
		return "ok" + w.takeCalls()
	case "ppush": // ppush <pid> <key> <n> <s> <flags>: the push function Register returned for provider <pid>
		if len(f) != 6 || w.reg == nil || w.pushes[sel(f, 1)] == nil || !okKey(f[2]) || !okStr(f[4]) || !okFlags(f[5]) {
			return "bad-op"
		}
		n, err := strconv.ParseInt(f[3], 10, 64)
		if err != nil {
			return "bad-op"
		}
		r := w.newRec(f[2], n, f[4], unq(f[5]))
		func() {
			r.Lock()
			defer r.Unlock()
			w.pushes[f[1]](r)
		}()
		return "ok" + w.takeCalls()
	case "unhook":
		if len(f) != 2 || w.hooks[f[1]] == nil {
			return "bad-op"
		}
		return errClass(w.hooks[f[1]].Cancel())
	case "put", "putnew", "push": // put <iface> <key> <n> <s> <flags>
		if f[0] == "push" {
			f = append([]string{"push", "LI"}, f[1:]...)
		}
		if len(f) != 6 || !w.ifaceFor(f[0], f[1]) || !okKey(f[2]) || !okStr(f[4]) || !okFlags(f[5]) || (f[0] == "push" && w.push == nil) {
			return "bad-op"
		}
		n, err := strconv.ParseInt(f[3], 10, 64)
		if err != nil {
			return "bad-op"
		}
		r := w.newRec(f[2], n, f[4], unq(f[5]))
		switch f[0] {
		case "put":
			err = w.iface(f[1]).Put(r)
		case "putnew":
			err = w.iface(f[1]).PutNew(r)
		case "push":
			func() {
				r.Lock()
				defer r.Unlock()
				w.push(r)
			}()
		}
		return errClass(err) + w.takeCalls()
	case "putmany": // putmany <iface> <key> <n> <s> <flags>: a batch of one record through Interface.PutMany, committed
		if len(f) != 6 || strings.Contains(f[1], "+") || !validIface(f[1]) || !okKey(f[2]) || !okStr(f[4]) || !okFlags(f[5]) ||
			(w.kind != "hashmap" && w.kind != "bbolt") {
			return "bad-op"
		}
		n, err := strconv.ParseInt(f[3], 10, 64)
		if err != nil {
			return "bad-op"
		}
		put := w.iface(f[1]).PutMany(w.dbName)
		if err = put(w.newRec(f[2], n, f[4], unq(f[5]))); err == nil {
			err = put(nil) // commit; returns when the storage has processed the batch
		}
		return errClass(err) + w.takeCalls()
	case "del", "mksec", "mkcj":
		if len(f) != 3 || !w.ifaceFor(f[0], f[1]) || !okKey(f[2]) {
			return "bad-op"
		}
		var err error
		key := w.dbName + ":" + f[2]
		switch f[0] {
		case "del":
			err = w.iface(f[1]).Delete(key)
		case "mksec":
			err = w.iface(f[1]).MakeSecret(key)
		case "mkcj":
			err = w.iface(f[1]).MakeCrownJewel(key)
		}
		return errClass(err) + w.takeCalls()
	case "exp": // exp <iface> <key> <p|f>
		if len(f) != 4 || !w.ifaceFor(f[0], f[1]) || !okKey(f[2]) || (f[3] != "p" && f[3] != "f") {
			return "bad-op"
		}
		t := int64(expPast)
		if f[3] == "f" {
			t = expFuture
		}
		return errClass(w.iface(f[1]).SetAbsoluteExpiry(w.dbName+":"+f[2], t)) + w.takeCalls()
	case "ins": // ins <iface> <key> <n>
		if len(f) != 4 || !w.ifaceFor(f[0], f[1]) || !okKey(f[2]) {
			return "bad-op"
		}
		n, err := strconv.ParseInt(f[3], 10, 64)
		if err != nil {
			return "bad-op"
		}
		return errClass(w.iface(f[1]).InsertValue(w.dbName+":"+f[2], "N", n)) + w.takeCalls()
	case "get":
		if len(f) != 3 || !w.ifaceFor(f[0], f[1]) || !okKey(f[2]) {
			return "bad-op"
		}
		r, err := w.iface(f[1]).Get(w.dbName + ":" + f[2])
		if err != nil {
			return errClass(err) + w.takeCalls()
		}
		return "ok " + fmtRecLocked(r) + w.takeCalls()
	case "exists":
		if len(f) != 3 || !w.ifaceFor(f[0], f[1]) || !okKey(f[2]) {
			return "bad-op"
		}
		ok, err := w.iface(f[1]).Exists(w.dbName + ":" + f[2])
		if err != nil {
			return errClass(err) + w.takeCalls()
		}
		return fmt.Sprintf("ok %v", ok) + w.takeCalls()
	case "relexp": // relexp <iface> <key> <0|-1>: SetRelativateExpiry with a duration that leaves the metadata as it is
		if len(f) != 4 || !w.ifaceFor(f[0], f[1]) || !okKey(f[2]) || (f[3] != "0" && f[3] != "-1") {
			return "bad-op"
		}
		d := int64(0)
		if f[3] == "-1" {
			d = -1
		}
		return errClass(w.iface(f[1]).SetRelativateExpiry(w.dbName+":"+f[2], d)) + w.takeCalls()
	case "raw":
		if len(f) != 2 || !okKey(f[1]) {
			return "bad-op"
		}
		var st interface {
			Get(string) (record.Record, error)
		}
		var err error
		if w.reg != nil {
			st = w.reg // the registry is its own storage, injected or not
		} else if st, err = database.VerifStorage(w.dbName); err != nil {
			return "err other:" + err.Error()
		}
		r, err := st.Get(f[1])
		if err != nil {
			return "none"
		}
		return fmtRecLocked(r)
	case "sizes":
		if len(f) != 1 {
			return "bad-op"
		}
		if w.reg != nil && !w.injected {
			return "subs=0 hooks=0" // no controller yet: nothing can be listed
		}
		s, h, err := database.VerifListSizes(w.dbName)
		if err != nil {
			return "err other:" + err.Error()
		}
		return fmt.Sprintf("subs=%d hooks=%d", s, h)
	case "flush": // flush <iface>: run the delayed cache writer of a "+w" interface until it has flushed
		if len(f) != 2 || !w.ifaceFor("flush", f[1]) || !strings.HasSuffix(f[1], "+w") {
			return "bad-op"
		}
		ctx, cancel := context.WithCancel(context.Background())
		done := make(chan error, 1)
		go func() { done <- w.iface(f[1]).DelayedCacheWriter(ctx) }()
		time.Sleep(2 * time.Millisecond)
		cancel()
		return errClass(<-done)
	}
	return "bad-op"
}

func okBeh(b string, recPhase bool) bool {
	if b == "-" || b == "p" || (recPhase && b == "x") {
		return true
	}
	if len(b) < 2 {
		return false
	}
	if _, err := strconv.ParseInt(b[1:], 10, 64); err != nil {
		return false
	}
	return b[0] == 'v' || (recPhase && b[0] == 's')
}

func newWorld() *world {
	return &world{ifaces: map[string]*database.Interface{}, queries: map[string]*query.Query{},
		hooks: map[string]*database.RegisteredHook{}, hx: map[string]*hxHook{}}
}
