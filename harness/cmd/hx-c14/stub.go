package main

import "verifharness/hxlib"

const rule = "stub"

func gen(r *hxlib.Run, emit func(hxlib.Case))             {}
func monitor(c hxlib.Case, outs []string) []hxlib.Violation { return nil }
func (w *world) doConc(line string) string                 { return "bad-op" }
